/-
C15 — Auxiliary-variable optimisers (`dit.algorithms.optimization.BaseAuxVarOptimizer`).

For every admissible parameter vector the constructed joint is a proper joint distribution
(`channel_stochastic`, `channel_nonneg`, `aux_sums_one`, `aux_nonneg`), its restriction to the
original variables is the input (`aux_marginal`, `aux_marginal_lookup`, `aux_marginal_table`,
`aux_keys`), each
auxiliary variable depends only on its declared parents (`auxStep_lookup`, `constructJoint_lookup`,
`aux_markov`, `aux_cmi_zero`), the reported objective is the named entropy combination of that
joint (`objective_cmi_def`), and the bounds that hold at every feasible point: intrinsic mutual
information (`constant_channel_value`, `copy_channel_value`, `imi_bounds`, `imi_bounds_table`) and
the information bottleneck (`ib_bounds_relevance`, `ib_bounds_complexity`).

Tables are `Tab (List Nat) α` keyed by index tuples. Parts about sums are over a field `α`
(`ofNat := Nat.cast`, `CharZero` so that the uniform fallback row `1/bound` is defined); parts
about entropies are at `ℝ` with `H := entropyOf (Real.logb 2)`.
Helper lemmas: Lemmas/AuxJoint.lean.
-/
import DitModel.Lemmas.AuxJoint
import DitModel.Props.C05

set_option linter.unusedSectionVars false

namespace Dit.Props.C15
open Dit Dit.Lemmas.Table Dit.Lemmas.InfoAlg
open Dit.Lemmas.AuxJoint (chanAt chanProd constChan copyChan GoodCast goodCast_natCast exT)

/-! ## Channels are row-stochastic -/

section Channel
variable {α : Type} [Field α] [DecidableEq α] [CharZero α]

/-- **Every row of a channel sums to one**, whatever the parameters: a row of non-zero total is
normalised, a row of total zero becomes uniform. `bound ≥ 1` is needed (an empty alphabet has no
distribution); `CharZero` makes `1 / bound` the uniform weight. -/
theorem channel_stochastic (shape : List Nat) (bound : Nat) (params : List α)
    (parents : List Nat) (hb : 1 ≤ bound) :
    ((List.range bound).map
      (fun k => channelOf (fun n : Nat => (n : α)) shape bound params parents k)).sum = 1 :=
  Lemmas.AuxJoint.channel_row_sum _ shape bound params parents rfl
    (Nat.cast_ne_zero.mpr (by omega))

example : (1 : Nat) ≤ 2 := by decide
/-- Both branches occur: parent value `0` reads the row `[1, 3]`, parent value `1` a zero row. -/
example : (List.range 2).map (channelOf (fun n : Nat => (n : Rat)) [2] 2 [1, 3, 0, 0] [0])
    = [1 / 4, 3 / 4] := by decide +kernel
example : (List.range 2).map (channelOf (fun n : Nat => (n : Rat)) [2] 2 [1, 3, 0, 0] [1])
    = [1 / 2, 1 / 2] := by decide +kernel
/-- Missing parameters read as `0`: a too short vector gives uniform rows. -/
example : (List.range 2).map (channelOf (fun n : Nat => (n : Rat)) [2] 2 [1, 3] [1])
    = [1 / 2, 1 / 2] := by decide +kernel

end Channel

section ChannelOrd
variable {α : Type} [Field α] [LinearOrder α] [IsStrictOrderedRing α]

/-- **Channel entries are non-negative** when the parameters are (the optimiser's box
constraints `0 ≤ x ≤ 1`). -/
theorem channel_nonneg (shape : List Nat) (bound : Nat) (params : List α) (parents : List Nat)
    (k : Nat) (hp : ∀ p ∈ params, 0 ≤ p) :
    0 ≤ channelOf (fun n : Nat => (n : α)) shape bound params parents k :=
  Lemmas.AuxJoint.channel_nonneg' _ shape bound params parents k (Nat.cast_nonneg _) hp

example : ∀ p ∈ ([1, 3, 0, 0] : List Rat), 0 ≤ p := by decide +kernel

end ChannelOrd

/-! ## Mass, marginal, keys, factorisation -/

section Joint
variable {α : Type} [Field α] [DecidableEq α] [CharZero α]

/-- **One conditioning step preserves the total mass**, if every channel row that is used sums
to one over the alphabet of the new variable. -/
theorem auxStep_mass (joint : Tab (List Nat) α) (av : AuxVar) (chan : List Nat → Nat → α)
    (hrow : ∀ o ∈ keys joint, ((List.range av.bound).map (chan (project av.bases o))).sum = 1) :
    mass (auxStep joint av chan) = mass joint :=
  Lemmas.AuxJoint.auxStep_mass joint av chan hrow

/-- **The constructed joint has the mass of the input** (so it sums to one when the input
does), for every parameter vector `x` of any length and all auxiliary variables with a non-empty
alphabet. -/
theorem aux_sums_one (avs : List AuxVar) (sizes : List Nat) (t : Tab (List Nat) α) (x : List α)
    (hb : ∀ av ∈ avs, 1 ≤ av.bound) :
    mass (constructJoint (fun n : Nat => (n : α)) sizes t avs x) = mass t :=
  Lemmas.AuxJoint.constructJoint_mass _ avs sizes t x (goodCast_natCast avs hb)

/-- **The restriction to the original variables is the input** (event form): every event `p` on
the first `n₀` coordinates has the same weight in the constructed joint as in the input. The
keys of the input must all have length `n₀` (so that `take n₀` is the old outcome). -/
theorem aux_marginal (n₀ : Nat) (p : List Nat → Prop) [DecidablePred p] (avs : List AuxVar)
    (sizes : List Nat) (t : Tab (List Nat) α) (x : List α) (hb : ∀ av ∈ avs, 1 ≤ av.bound)
    (hlen : ∀ o ∈ keys t, o.length = n₀) :
    wtBy (fun o => p (o.take n₀)) (constructJoint (fun n : Nat => (n : α)) sizes t avs x)
      = wtBy p t :=
  Lemmas.AuxJoint.constructJoint_wtBy_old _ n₀ p avs sizes t x (goodCast_natCast avs hb) hlen

/-- **The restriction to the original variables is the input** (table form): summing out the
auxiliary coordinates gives a table with the stored keys of the input and the same value at
every key. Distinct keys are needed for `lookupD` to see the whole weight of an outcome. -/
theorem aux_marginal_lookup (n₀ : Nat) (avs : List AuxVar) (sizes : List Nat)
    (t : Tab (List Nat) α) (x : List α) (hb : ∀ av ∈ avs, 1 ≤ av.bound)
    (hlen : ∀ o ∈ keys t, o.length = n₀) (hnd : (keys t).Nodup) (o : List Nat) :
    lookupD 0 (dropLastVars avs.length (constructJoint (fun n : Nat => (n : α)) sizes t avs x)) o
        = lookupD 0 t o
      ∧ (o ∈ keys (dropLastVars avs.length
            (constructJoint (fun n : Nat => (n : α)) sizes t avs x)) ↔ o ∈ keys t) :=
  ⟨Lemmas.AuxJoint.lookupD_dropLastVars _ n₀ avs sizes t x (goodCast_natCast avs hb) hlen hnd o,
   Lemmas.AuxJoint.mem_keys_dropLastVars _ avs sizes t x hb o⟩

/-- **The restriction to the original variables is the input** (exact form): summing out the
auxiliary coordinates returns the input table itself, row for row in the same order. -/
theorem aux_marginal_table (n₀ : Nat) (avs : List AuxVar) (sizes : List Nat)
    (t : Tab (List Nat) α) (x : List α) (hb : ∀ av ∈ avs, 1 ≤ av.bound)
    (hlen : ∀ o ∈ keys t, o.length = n₀) (hnd : (keys t).Nodup) :
    dropLastVars avs.length (constructJoint (fun n : Nat => (n : α)) sizes t avs x) = t :=
  Lemmas.AuxJoint.dropLastVars_constructJoint _ n₀ avs sizes t x (goodCast_natCast avs hb) hb
    hlen hnd

/-- **Keys of the constructed joint**: an input key followed by one in-range symbol per
auxiliary variable; all of length `n₀ + m`; pairwise distinct when the input's keys are. -/
theorem aux_keys (n₀ : Nat) (avs : List AuxVar) (sizes : List Nat) (t : Tab (List Nat) α)
    (x : List α) (ofNat : Nat → α) :
    (∀ o', o' ∈ keys (constructJoint ofNat sizes t avs x)
        ↔ ∃ o ∈ keys t, ∃ ks, List.Forall₂ (fun k (av : AuxVar) => k < av.bound) ks avs
            ∧ o' = o ++ ks)
    ∧ ((∀ o ∈ keys t, o.length = n₀) →
        ∀ o' ∈ keys (constructJoint ofNat sizes t avs x), o'.length = n₀ + avs.length)
    ∧ ((keys t).Nodup → (keys (constructJoint ofNat sizes t avs x)).Nodup) :=
  ⟨Lemmas.AuxJoint.mem_keys_constructJoint ofNat avs sizes t x,
   Lemmas.AuxJoint.length_keys_constructJoint ofNat avs sizes t x n₀,
   Lemmas.AuxJoint.nodup_keys_constructJoint ofNat avs sizes t x⟩

/-- **Factorisation of one step**: `joint'(o, k) = joint(o) · chan(parents(o), k)` for `k` in
the alphabet of the new variable; i.e. `P(W = k | old = o) = chan(project bases o, k)`. -/
theorem auxStep_lookup (joint : Tab (List Nat) α) (av : AuxVar) (chan : List Nat → Nat → α)
    (o : List Nat) (k : Nat) (hk : k < av.bound) :
    lookupD 0 (auxStep joint av chan) (o ++ [k])
      = lookupD 0 joint o * chan (project av.bases o) k :=
  Lemmas.AuxJoint.auxStep_lookup joint av chan o k hk

/-- **The joint factorises along the declared parent sets**: the value at `o ++ [k₁,…,k_m]` is
`t(o) · Π_i chan_i(parents_i, k_i)`, where (`chanProd`) the `i`-th factor is the channel of the
`i`-th auxiliary variable at the values its parents take in `o ++ [k₁,…,k_{i-1}]`. -/
theorem constructJoint_lookup (ofNat : Nat → α) (avs : List AuxVar) (sizes : List Nat)
    (t : Tab (List Nat) α) (x : List α) (o ks : List Nat)
    (hks : List.Forall₂ (fun k (av : AuxVar) => k < av.bound) ks avs) :
    lookupD 0 (constructJoint ofNat sizes t avs x) (o ++ ks)
      = lookupD 0 t o * chanProd ofNat sizes avs x o ks :=
  Lemmas.AuxJoint.constructJoint_lookup ofNat avs sizes t x o ks hks

/-- Unfolding of the product: first factor, then the rest on the extended outcome. -/
theorem chanProd_cons (ofNat : Nat → α) (sizes : List Nat) (av : AuxVar) (rest : List AuxVar)
    (x : List α) (o : List Nat) (k : Nat) (ks : List Nat) :
    chanProd ofNat sizes (av :: rest) x o (k :: ks)
      = channelOf ofNat (av.bases.map (fun b => sizes.getD b 0)) av.bound
            (x.take (blockSize sizes av)) (project av.bases o) k
        * chanProd ofNat (sizes ++ [av.bound]) rest (x.drop (blockSize sizes av)) (o ++ [k]) ks :=
  rfl

/-- **Each auxiliary variable depends only on its declared parents** (one step, event form):
given the values `b` of its parents, the new variable is independent of every event `E` on the
old coordinates: `P(E, B=b, W=k) · P(B=b) = P(E, B=b) · P(B=b, W=k)`. -/
theorem aux_markov (joint : Tab (List Nat) α) (av : AuxVar) (chan : List Nat → Nat → α)
    (hrow : ∀ o ∈ keys joint, ((List.range av.bound).map (chan (project av.bases o))).sum = 1)
    (E : List Nat → Prop) [DecidablePred E] (b : List Nat) (k : Nat) :
    wtBy (fun o' => (E o'.dropLast ∧ project av.bases o'.dropLast = b) ∧ o'.getLast? = some k)
        (auxStep joint av chan)
      * wtBy (fun o' => project av.bases o'.dropLast = b) (auxStep joint av chan)
    = wtBy (fun o' => E o'.dropLast ∧ project av.bases o'.dropLast = b) (auxStep joint av chan)
      * wtBy (fun o' => project av.bases o'.dropLast = b ∧ o'.getLast? = some k)
          (auxStep joint av chan) :=
  Lemmas.AuxJoint.auxStep_markov joint av chan hrow E b k

/-- The conditional law of the new variable as event weights (rows with equal keys all count):
`P(old = o, W = k) = P(old = o) · chan(parents(o), k)`. -/
theorem aux_conditional (joint : Tab (List Nat) α) (av : AuxVar) (chan : List Nat → Nat → α)
    (o : List Nat) (k : Nat) (hk : k < av.bound) :
    wtBy (fun o' => o'.dropLast = o ∧ o'.getLast? = some k) (auxStep joint av chan)
      = wtBy (fun o' => o' = o) joint * chan (project av.bases o) k :=
  Lemmas.AuxJoint.auxStep_conditional joint av chan o k hk

end Joint

section JointOrd
variable {α : Type} [Field α] [LinearOrder α] [IsStrictOrderedRing α]

/-- **All values of the constructed joint are non-negative** for non-negative input and
parameters: together with `aux_sums_one`, a proper joint distribution. -/
theorem aux_nonneg (avs : List AuxVar) (sizes : List Nat) (t : Tab (List Nat) α) (x : List α)
    (hx : ∀ p ∈ x, 0 ≤ p) (hnn : ∀ r ∈ t, 0 ≤ r.2) :
    ∀ s ∈ constructJoint (fun n : Nat => (n : α)) sizes t avs x, 0 ≤ s.2 :=
  Lemmas.AuxJoint.constructJoint_nonneg _ avs sizes t x (fun _ _ => Nat.cast_nonneg _) hx hnn

end JointOrd

/-! ## Non-vacuity: a 2×2 input, one auxiliary variable with parent `[1]`, a zero row -/

/-- The example input is `exT = [00 ↦ 1/4, 01 ↦ 1/4, 10 ↦ 1/8, 11 ↦ 3/8]` (Lemmas/AuxJoint.lean). -/
example : constructJoint (fun n : Nat => (n : Rat)) [2, 2] exT [⟨[1], 2⟩] [1, 3, 0, 0]
    = [([0, 0, 0], 1 / 16), ([0, 0, 1], 3 / 16), ([0, 1, 0], 1 / 8), ([0, 1, 1], 1 / 8),
       ([1, 0, 0], 1 / 32), ([1, 0, 1], 3 / 32), ([1, 1, 0], 3 / 16), ([1, 1, 1], 3 / 16)] := by
  decide +kernel
example : dropLastVars 1
    (constructJoint (fun n : Nat => (n : Rat)) [2, 2] exT [⟨[1], 2⟩] [1, 3, 0, 0]) = exT := by
  decide +kernel
example : mass (constructJoint (fun n : Nat => (n : Rat)) [2, 2] exT [⟨[1], 2⟩] [1, 3, 0, 0]) = 1 := by
  decide +kernel
/-- The hypotheses of the theorems above hold for the example. -/
example : (∀ av ∈ ([⟨[1], 2⟩] : List AuxVar), 1 ≤ av.bound) ∧ (∀ o ∈ keys exT, o.length = 2)
    ∧ (keys exT).Nodup ∧ (∀ r ∈ exT, 0 ≤ r.2) := by decide +kernel
/-- Two auxiliary variables, the second with parents `[0, 2]` (an old variable and the first
auxiliary variable) and a copy-like channel: summing both out returns the input. -/
example : dropLastVars 2
    (constructJoint (fun n : Nat => (n : Rat)) [2, 2] exT [⟨[1], 2⟩, ⟨[0, 2], 2⟩]
      [1, 3, 0, 0, 1, 0, 0, 1, 1, 1, 0, 0]) = exT := by
  decide +kernel
example : List.Forall₂ (fun k (av : AuxVar) => k < av.bound) [1, 0] [⟨[1], 2⟩, ⟨[0, 2], 2⟩] := by
  repeat constructor
/-- The row-sum hypothesis of `auxStep_mass` / `aux_markov` holds for the channel built from the
example's parameter vector (normalised row and uniform fallback row). -/
example : ∀ o ∈ keys exT, ((List.range 2).map
    (chanAt (fun n : Nat => (n : Rat)) [2, 2] ⟨[1], 2⟩ [1, 3, 0, 0] (project [1] o))).sum = 1 := by
  decide +kernel
/-- The factorisation on the example: `joint(1,0,1) = t(1,0) · chan([0], 1) = 1/8 · 3/4`. -/
example : lookupD 0 (constructJoint (fun n : Nat => (n : Rat)) [2, 2] exT [⟨[1], 2⟩] [1, 3, 0, 0])
      ([1, 0] ++ [1]) = 3 / 32
    ∧ lookupD 0 exT [1, 0] * chanProd (fun n : Nat => (n : Rat)) [2, 2] [⟨[1], 2⟩] [1, 3, 0, 0]
      [1, 0] [1] = 3 / 32 := by
  decide +kernel

/-! ## Entropies of the constructed joint (at `ℝ`) -/

section Entropy

/-- **The reported objective is the named quantity on the constructed joint**: the value of the
combination `cmiC X Y Z` is `H(X∪Z) + H(Y∪Z) − H(X∪Y∪Z) − H(Z)` with `H` the entropy of the
marginals of the table returned by `constructJoint`. -/
theorem objective_cmi_def (avs : List AuxVar) (sizes : List Nat) (t : Tab (List Nat) ℝ)
    (x : List ℝ) (X Y Z : VSet) :
    Comb.eval (Rat.castHom ℝ)
        (entropyOf (Real.logb 2) (constructJoint (fun n : Nat => (n : ℝ)) sizes t avs x))
        (cmiC X Y Z)
      = entropyOf (Real.logb 2) (constructJoint (fun n : Nat => (n : ℝ)) sizes t avs x)
            (vunion X Z)
        + entropyOf (Real.logb 2) (constructJoint (fun n : Nat => (n : ℝ)) sizes t avs x)
            (vunion Y Z)
        - entropyOf (Real.logb 2) (constructJoint (fun n : Nat => (n : ℝ)) sizes t avs x)
            (vunion (vunion X Y) Z)
        - entropyOf (Real.logb 2) (constructJoint (fun n : Nat => (n : ℝ)) sizes t avs x)
            (vnorm Z) := by
  rw [eval_cmiC]; unfold Hc; ring

/-- **A coordinate that is constant on the support adds nothing** to any subset entropy. -/
theorem entropy_add_deterministic {σ : Type} [DecidableEq σ] (t : Tab (List σ) ℝ) (S : List Nat)
    (w : Nat) (c : Option σ) (h : ∀ r ∈ t, r.2 ≠ 0 → r.1[w]? = c) :
    entropyOf (Real.logb 2) t (vunion S [w]) = entropyOf (Real.logb 2) t S :=
  Lemmas.AuxJoint.entropy_add_deterministic _ t S w c h

/-- **A copy of a coordinate already in `S` adds nothing** to `H(S)`. -/
theorem entropy_add_copy {σ : Type} [DecidableEq σ] (t : Tab (List σ) ℝ) (S : List Nat)
    (w z : Nat) (hz : z ∈ S) (h : ∀ r ∈ t, r.2 ≠ 0 → r.1[w]? = r.1[z]?) :
    entropyOf (Real.logb 2) t (vunion S [w]) = entropyOf (Real.logb 2) t S :=
  Lemmas.AuxJoint.entropy_add_copy _ t S w z hz h

example : ∀ r ∈ ([(["a", "0"], 1 / 2), (["b", "0"], 1 / 2), (["b", "1"], 0)] :
    Tab (List String) ℝ), r.2 ≠ 0 → r.1[1]? = some "0" := by
  intro r hr; simp at hr; rcases hr with rfl | rfl | rfl <;> simp

/-- **Entropies of sets of original variables are those of the input** (one step). -/
theorem aux_entropy_old (joint : Tab (List Nat) ℝ) (av : AuxVar) (chan : List Nat → Nat → ℝ)
    (n : Nat) (S : List Nat)
    (hrow : ∀ o ∈ keys joint, ((List.range av.bound).map (chan (project av.bases o))).sum = 1)
    (hlen : ∀ o ∈ keys joint, o.length = n) (hS : ∀ i ∈ S, i < n) :
    entropyOf (Real.logb 2) (auxStep joint av chan) S = entropyOf (Real.logb 2) joint S :=
  Lemmas.AuxJoint.entropyOf_auxStep_old _ joint av chan n S hrow hlen hS

/-- **Value at the constant channel** (`W ≡ 0`): `I(X:Y|W)` on the extended table is `I(X:Y)`
on the input. -/
theorem constant_channel_value (t : Tab (List Nat) ℝ) (av : AuxVar) (n : Nat)
    (hb : 1 ≤ av.bound) (hlen : ∀ o ∈ keys t, o.length = n) (X Y : VSet)
    (hX : ∀ v ∈ X, v < n) (hY : ∀ v ∈ Y, v < n) :
    Comb.eval (Rat.castHom ℝ) (entropyOf (Real.logb 2) (auxStep t av constChan)) (cmiC X Y [n])
      = Comb.eval (Rat.castHom ℝ) (entropyOf (Real.logb 2) t) (cmiC X Y []) :=
  Lemmas.AuxJoint.cmi_transfer _ _ _ n []
    (Lemmas.AuxJoint.entropyOf_const t av n hb hlen) X Y hX hY

/-- **Value at the copy channel** (`W = Z`, single parent `z`): `I(X:Y|W)` on the extended
table is `I(X:Y|Z)` on the input. The alphabet of `W` must contain the values of `Z`
(`hfit`), otherwise the copy channel is not a channel. -/
theorem copy_channel_value (t : Tab (List Nat) ℝ) (av : AuxVar) (n z : Nat)
    (hbases : av.bases = [z]) (hz : z < n)
    (hfit : ∀ o ∈ keys t, ∀ j, o[z]? = some j → j < av.bound)
    (hlen : ∀ o ∈ keys t, o.length = n) (X Y : VSet)
    (hX : ∀ v ∈ X, v < n) (hY : ∀ v ∈ Y, v < n) :
    Comb.eval (Rat.castHom ℝ) (entropyOf (Real.logb 2) (auxStep t av copyChan)) (cmiC X Y [n])
      = Comb.eval (Rat.castHom ℝ) (entropyOf (Real.logb 2) t) (cmiC X Y [z]) :=
  Lemmas.AuxJoint.cmi_transfer _ _ _ n [z]
    (Lemmas.AuxJoint.entropyOf_copy t av n z hbases hz hfit hlen) X Y hX hY

/-- Both special channels are produced by parameter vectors. -/
example : (List.range 2).map (channelOf (fun n : Nat => (n : Rat)) [2] 2 [1, 0, 1, 0] [1])
    = (List.range 2).map (constChan [1]) := by decide +kernel
example : (List.range 2).map (channelOf (fun n : Nat => (n : Rat)) [2] 2 [1, 0, 0, 1] [1])
    = (List.range 2).map (copyChan [1]) := by decide +kernel
example : (∀ o ∈ keys exT, ∀ j, o[1]? = some j → j < 2) := by decide +kernel

/-- **Markov chain `R – parents – W`** at the level of entropies: in the table extended by one
auxiliary variable `W` (coordinate `n`) with parents `av.bases`, `I(W : R | parents) = 0` for
every set `R` of original variables — in particular for `R = range n ∖ parents`. The input
values must be non-negative (a zero marginal with non-zero rows would break `log` additivity);
the channel only needs rows summing to one. -/
theorem aux_cmi_zero (joint : Tab (List Nat) ℝ) (av : AuxVar) (chan : List Nat → Nat → ℝ)
    (n : Nat) (R : VSet)
    (hrow : ∀ o ∈ keys joint, ((List.range av.bound).map (chan (project av.bases o))).sum = 1)
    (hlen : ∀ o ∈ keys joint, o.length = n) (hnn : ∀ r ∈ joint, 0 ≤ r.2)
    (hb : ∀ i ∈ av.bases, i < n) (hR : ∀ i ∈ R, i < n) :
    Comb.eval (Rat.castHom ℝ) (entropyOf (Real.logb 2) (auxStep joint av chan))
      (cmiC [n] R av.bases) = 0 := by
  rw [eval_cmiC]
  unfold Hc
  have := Lemmas.AuxJoint.auxStep_cmi_zero_explicit joint av chan n R hrow hlen hnn hb hR
  linarith

/-- The same for the joint built by `constructJoint` with one auxiliary variable and any
parameter vector, with `rest = range n ∖ parents`. -/
theorem aux_cmi_zero_construct (sizes : List Nat) (t : Tab (List Nat) ℝ) (av : AuxVar)
    (x : List ℝ) (n : Nat) (hbd : 1 ≤ av.bound) (hlen : ∀ o ∈ keys t, o.length = n)
    (hnn : ∀ r ∈ t, 0 ≤ r.2) (hb : ∀ i ∈ av.bases, i < n) :
    Comb.eval (Rat.castHom ℝ)
      (entropyOf (Real.logb 2) (constructJoint (fun k : Nat => (k : ℝ)) sizes t [av] x))
      (cmiC [n] (vdiff (List.range n) av.bases) av.bases) = 0 := by
  apply aux_cmi_zero t av _ n _ _ hlen hnn hb
  · intro i hi
    exact List.mem_range.mp ((mem_vdiff _ _ _).mp hi).1
  · intro o _
    exact Lemmas.AuxJoint.chanAt_row_sum _ sizes av x
      (goodCast_natCast [av] (by simpa using hbd) av (by simp)) _

end Entropy

/-! ## Bounds at every feasible point -/

section Bounds

/-- **Intrinsic mutual information, order part**: the reported value `min(a, b, c)` of the
values at the constant channel (`a`), at the copy channel (`b`) and at the optimiser's point
(`c`), all non-negative, lies between `0` and `min(a, b)`. -/
theorem imi_bounds {β : Type} [LinearOrder β] [Zero β] (a b c : β) (ha : 0 ≤ a) (hb : 0 ≤ b)
    (hc : 0 ≤ c) : 0 ≤ min a (min b c) ∧ min a (min b c) ≤ min a b :=
  ⟨le_min ha (le_min hb hc), le_min (min_le_left _ _) ((min_le_right _ _).trans (min_le_left _ _))⟩

/-- **Intrinsic mutual information lies between `0` and `min(I(X:Y), I(X:Y|Z))`**: for a
non-negative input table, an auxiliary variable `W` (coordinate `n`) with single parent `z`, and
any non-negative channel `chan` (the optimiser's point), the minimum of `I(X:Y|W)` over the
constant channel, the copy channel and `chan` is `≥ 0` and `≤ min(I(X:Y), I(X:Y|Z))` of the
input. -/
theorem imi_bounds_table (t : Tab (List Nat) ℝ) (av : AuxVar) (n z : Nat)
    (chan : List Nat → Nat → ℝ) (hbd : 1 ≤ av.bound) (hbases : av.bases = [z]) (hz : z < n)
    (hfit : ∀ o ∈ keys t, ∀ j, o[z]? = some j → j < av.bound)
    (hlen : ∀ o ∈ keys t, o.length = n) (hnn : ∀ r ∈ t, 0 ≤ r.2)
    (hchan : ∀ o ∈ keys t, ∀ k < av.bound, 0 ≤ chan (project av.bases o) k)
    (X Y : VSet) (hX : ∀ v ∈ X, v < n) (hY : ∀ v ∈ Y, v < n) :
    0 ≤ min (Comb.eval (Rat.castHom ℝ) (entropyOf (Real.logb 2) (auxStep t av constChan))
              (cmiC X Y [n]))
          (min (Comb.eval (Rat.castHom ℝ) (entropyOf (Real.logb 2) (auxStep t av copyChan))
              (cmiC X Y [n]))
            (Comb.eval (Rat.castHom ℝ) (entropyOf (Real.logb 2) (auxStep t av chan))
              (cmiC X Y [n])))
    ∧ min (Comb.eval (Rat.castHom ℝ) (entropyOf (Real.logb 2) (auxStep t av constChan))
              (cmiC X Y [n]))
          (min (Comb.eval (Rat.castHom ℝ) (entropyOf (Real.logb 2) (auxStep t av copyChan))
              (cmiC X Y [n]))
            (Comb.eval (Rat.castHom ℝ) (entropyOf (Real.logb 2) (auxStep t av chan))
              (cmiC X Y [n])))
        ≤ min (Comb.eval (Rat.castHom ℝ) (entropyOf (Real.logb 2) t) (cmiC X Y []))
            (Comb.eval (Rat.castHom ℝ) (entropyOf (Real.logb 2) t) (cmiC X Y [z])) := by
  rw [constant_channel_value t av n hbd hlen X Y hX hY,
    copy_channel_value t av n z hbases hz hfit hlen X Y hX hY]
  exact imi_bounds _ _ _ (Props.C05.mi_nonneg t hnn X Y) (Props.C05.cmi_nonneg t hnn X Y [z])
    (Props.C05.cmi_nonneg _ (Lemmas.AuxJoint.auxStep_nonneg t av chan hnn hchan) X Y [n])

/-- **Information bottleneck, relevance**: with the bottleneck variable `T` (coordinate `n`)
drawn from `X = av.bases` through any non-negative channel with rows summing to one,
`I(T:Y) ≤ I(X:Y)` (data processing): `I(T:Y) ≤ I(T,X:Y) = I(X:Y) + I(T:Y|X)` and
`I(T:Y|X) = 0` by `aux_cmi_zero`. The left side is evaluated on the extended table, the right
side on the input. -/
theorem ib_bounds_relevance (t : Tab (List Nat) ℝ) (av : AuxVar) (chan : List Nat → Nat → ℝ)
    (n : Nat) (Y : VSet)
    (hrow : ∀ o ∈ keys t, ((List.range av.bound).map (chan (project av.bases o))).sum = 1)
    (hchan : ∀ o ∈ keys t, ∀ k < av.bound, 0 ≤ chan (project av.bases o) k)
    (hlen : ∀ o ∈ keys t, o.length = n) (hnn : ∀ r ∈ t, 0 ≤ r.2)
    (hb : ∀ i ∈ av.bases, i < n) (hY : ∀ i ∈ Y, i < n) :
    Comb.eval (Rat.castHom ℝ) (entropyOf (Real.logb 2) (auxStep t av chan)) (cmiC [n] Y [])
      ≤ Comb.eval (Rat.castHom ℝ) (entropyOf (Real.logb 2) t) (cmiC av.bases Y []) := by
  have hT := Lemmas.AuxJoint.auxStep_nonneg t av chan hnn hchan
  have hmk := Lemmas.AuxJoint.auxStep_cmi_zero_explicit t av chan n Y hrow hlen hnn hb hY
  have hsub := Props.C05.cmi_nonneg_explicit _ hT Y av.bases [n]
  have old : ∀ S : List Nat, (∀ i ∈ S, i < n) →
      entropyOf (Real.logb 2) (auxStep t av chan) S = entropyOf (Real.logb 2) t S :=
    fun S hS => aux_entropy_old t av chan n S hrow hlen hS
  rw [eval_cmiC, eval_cmiC]
  unfold Hc
  have e1 : vunion [n] [] = vnorm [n] := rfl
  have e2 : vunion (vunion [n] Y) [] = vunion Y [n] :=
    vunion_congr (by intro v; simp only [mem_vunion, List.not_mem_nil]; tauto)
  have e3 : vunion [n] av.bases = vunion av.bases [n] :=
    vunion_congr (by intro v; tauto)
  have e4 : vunion (vunion [n] Y) av.bases = vunion (vunion Y av.bases) [n] :=
    vunion_congr (by intro v; simp only [mem_vunion]; tauto)
  have e5 : vunion av.bases [] = vnorm av.bases := by
    unfold vunion; exact vnorm_congr (by intro v; simp)
  have e6 : vunion (vunion av.bases Y) [] = vunion Y av.bases :=
    vunion_congr (by intro v; simp only [mem_vunion, List.not_mem_nil]; tauto)
  have e7 : vunion Y [] = vnorm Y := by
    unfold vunion; exact vnorm_congr (by intro v; simp)
  rw [e3, e4] at hmk
  rw [e1, e2, e5, e6, e7, old (vnorm []) (by simp [vnorm, dedup, isort]),
    old (vnorm Y) (fun i hi => hY i ((mem_vnorm _ _).mp hi)),
    ← old (vnorm av.bases) (fun i hi => hb i ((mem_vnorm _ _).mp hi)),
    ← old (vunion Y av.bases) (fun i hi => by
      rcases (mem_vunion _ _ _).mp hi with h | h
      · exact hY i h
      · exact hb i h)]
  linarith

/-- **Information bottleneck, complexity**: `I(X:T) ≤ H(X)` (as `H(X|∅)` of the input), for any
non-negative channel with rows summing to one: `H(X|T) ≥ 0`. -/
theorem ib_bounds_complexity (t : Tab (List Nat) ℝ) (av : AuxVar) (chan : List Nat → Nat → ℝ)
    (n : Nat) (X : VSet)
    (hrow : ∀ o ∈ keys t, ((List.range av.bound).map (chan (project av.bases o))).sum = 1)
    (hchan : ∀ o ∈ keys t, ∀ k < av.bound, 0 ≤ chan (project av.bases o) k)
    (hlen : ∀ o ∈ keys t, o.length = n) (hnn : ∀ r ∈ t, 0 ≤ r.2) (hX : ∀ i ∈ X, i < n) :
    Comb.eval (Rat.castHom ℝ) (entropyOf (Real.logb 2) (auxStep t av chan)) (cmiC X [n] [])
      ≤ Comb.eval (Rat.castHom ℝ) (entropyOf (Real.logb 2) t) (condH X []) := by
  have hT := Lemmas.AuxJoint.auxStep_nonneg t av chan hnn hchan
  have hce := Hc_nonneg (Lemmas.InfoReal.entropy_Submod _ hT) X [n]
  have old : ∀ S : List Nat, (∀ i ∈ S, i < n) →
      entropyOf (Real.logb 2) (auxStep t av chan) S = entropyOf (Real.logb 2) t S :=
    fun S hS => aux_entropy_old t av chan n S hrow hlen hS
  rw [eval_cmiC, eval_condH]
  unfold Hc at hce ⊢
  have e1 : vunion [n] [] = vnorm [n] := rfl
  have e2 : vunion (vunion X [n]) [] = vunion X [n] :=
    vunion_congr (by intro v; simp only [mem_vunion, List.not_mem_nil]; tauto)
  have e3 : vunion X [] = vnorm X := by
    unfold vunion; exact vnorm_congr (by intro v; simp)
  rw [e1, e2, e3, old (vnorm []) (by simp [vnorm, dedup, isort]),
    old (vnorm X) (fun i hi => hX i ((mem_vnorm _ _).mp hi))]
  linarith

/-- **Information-bottleneck bounds for every admissible parameter vector**: for the joint built
by `constructJoint` from a non-negative input, one auxiliary variable `T` (coordinate `n`) with
parents `X = av.bases` and any non-negative parameter vector `x` (of any length), relevance
never exceeds `I(X:Y)` and complexity never exceeds `H(X)`. -/
theorem ib_bounds (sizes : List Nat) (t : Tab (List Nat) ℝ) (av : AuxVar) (x : List ℝ) (n : Nat)
    (Y : VSet) (hbd : 1 ≤ av.bound) (hx : ∀ p ∈ x, 0 ≤ p)
    (hlen : ∀ o ∈ keys t, o.length = n) (hnn : ∀ r ∈ t, 0 ≤ r.2)
    (hb : ∀ i ∈ av.bases, i < n) (hY : ∀ i ∈ Y, i < n) :
    Comb.eval (Rat.castHom ℝ)
        (entropyOf (Real.logb 2) (constructJoint (fun k : Nat => (k : ℝ)) sizes t [av] x))
        (cmiC [n] Y [])
      ≤ Comb.eval (Rat.castHom ℝ) (entropyOf (Real.logb 2) t) (cmiC av.bases Y [])
    ∧ Comb.eval (Rat.castHom ℝ)
        (entropyOf (Real.logb 2) (constructJoint (fun k : Nat => (k : ℝ)) sizes t [av] x))
        (cmiC av.bases [n] [])
      ≤ Comb.eval (Rat.castHom ℝ) (entropyOf (Real.logb 2) t) (condH av.bases []) := by
  have hrow : ∀ o ∈ keys t, ((List.range av.bound).map
      (chanAt (fun k : Nat => (k : ℝ)) sizes av x (project av.bases o))).sum = 1 :=
    fun o _ => Lemmas.AuxJoint.chanAt_row_sum _ sizes av x
      (goodCast_natCast [av] (by simpa using hbd) av (by simp)) _
  have hchan : ∀ o ∈ keys t, ∀ k < av.bound,
      0 ≤ chanAt (fun k : Nat => (k : ℝ)) sizes av x (project av.bases o) k :=
    fun o _ k _ => Lemmas.AuxJoint.channel_nonneg' _ _ av.bound _ _ k (Nat.cast_nonneg _)
      (fun p hp => hx p (List.mem_of_mem_take hp))
  exact ⟨ib_bounds_relevance t av _ n Y hrow hchan hlen hnn hb hY,
    ib_bounds_complexity t av _ n av.bases hrow hchan hlen hnn hb⟩

/-- Non-vacuity of the hypotheses on a real table: a 2×2 input and the copy channel of
variable `1`. -/
example : (∀ o ∈ keys ([([0, 0], 1 / 2), ([1, 1], 1 / 2)] : Tab (List Nat) ℝ), o.length = 2)
    ∧ (∀ r ∈ ([([0, 0], 1 / 2), ([1, 1], 1 / 2)] : Tab (List Nat) ℝ), 0 ≤ r.2)
    ∧ (∀ o ∈ keys ([([0, 0], 1 / 2), ([1, 1], 1 / 2)] : Tab (List Nat) ℝ),
        ((List.range 2).map (copyChan (α := ℝ) (project [1] o))).sum = 1) := by
  refine ⟨?_, ?_, ?_⟩
  · intro o ho; simp [keys] at ho; rcases ho with rfl | rfl <;> rfl
  · intro r hr; simp at hr; rcases hr with rfl | rfl <;> norm_num
  · intro o ho; simp [keys] at ho
    rcases ho with rfl | rfl <;> simp [copyChan, project, List.range_succ]
example : (∀ o ∈ keys ([([0, 0], 1 / 2), ([1, 1], 1 / 2)] : Tab (List Nat) ℝ),
      ∀ k < 2, 0 ≤ copyChan (α := ℝ) (project [1] o) k)
    ∧ (∀ i ∈ [1], i < 2) ∧ (∀ p ∈ ([1, 3, 0, 0] : List ℝ), 0 ≤ p) := by
  refine ⟨?_, by decide, ?_⟩
  · intro o _ k _; unfold copyChan; split <;> norm_num
  · intro p hp; simp at hp; rcases hp with rfl | rfl | rfl <;> norm_num

end Bounds

end Dit.Props.C15
