/-
C10 — Queries and measures are pure and repeatable.

In the model a query is a function of the state, so these theorems are close to definitional:
the model *cannot* mutate. They state the frame condition the real code is tested against; the
force of the property for dit itself comes from the differential run of the harness over the
registry of public callables (snapshots before/after every call, repeated calls).
-/
import DitModel.Core.Query

namespace Dit.Props.C10
open Dit

variable {σ α β : Type} [DecidableEq σ] [Add α] [Zero α] [Mul α] [Inv α]

/-- **Frame.** A query leaves the argument distribution and the configuration unchanged. -/
theorem query_frame (cfg : NumCfg α) (w : World σ α) (q : Dist σ α → Config → β) :
    (w.call cfg (Call.query q : Call σ α β)).1 = w := rfl

/-- **Frame over interleavings.** Any sequence consisting of queries only leaves the state
unchanged. -/
theorem queries_frame (cfg : NumCfg α) (w : World σ α) (cs : List (Call σ α β))
    (h : ∀ c ∈ cs, c.isQuery = true) : (w.run cfg cs).1 = w := by
  induction cs generalizing w with
  | nil => rfl
  | cons c cs ih =>
    have hc : c.isQuery = true := h c (List.mem_cons_self)
    cases c with
    | mutate op => simp [Call.isQuery] at hc
    | query q =>
      simp only [World.run]
      have : (w.call cfg (Call.query q : Call σ α β)).1 = w := rfl
      rw [this]
      exact ih w (fun c hc' => h c (List.mem_cons_of_mem _ hc'))

/-- **Repeatability.** The value of a query after any interleaving of other queries equals its
value before. -/
theorem query_repeat (cfg : NumCfg α) (w : World σ α) (cs : List (Call σ α β))
    (h : ∀ c ∈ cs, c.isQuery = true) (q : Dist σ α → Config → β) :
    (((w.run cfg cs).1).call cfg (Call.query q : Call σ α β)).2 =
      (w.call cfg (Call.query q : Call σ α β)).2 := by
  rw [queries_frame cfg w cs h]

/-- **Configuration is never written**, not even by mutations of the distribution. -/
theorem config_const (cfg : NumCfg α) (w : World σ α) (cs : List (Call σ α β)) :
    (w.run cfg cs).1.config = w.config := by
  induction cs generalizing w with
  | nil => rfl
  | cons c cs ih =>
    simp only [World.run]
    rw [ih]
    cases c <;> rfl

/-- **Results of a query depend only on the state**: two worlds with equal distribution and
configuration answer every query alike. -/
theorem query_extensional (cfg : NumCfg α) (w w' : World σ α) (q : Dist σ α → Config → β)
    (hd : w.dist = w'.dist) (hc : w.config = w'.config) :
    (w.call cfg (Call.query q : Call σ α β)).2 = (w'.call cfg (Call.query q : Call σ α β)).2 := by
  cases w; cases w'; simp_all [World.call]

/-- Non-vacuity: a query interleaved between two other queries on a concrete world. -/
example : ∃ cs : List (Call Nat Rat Nat), cs.length = 2 ∧ ∀ c ∈ cs, c.isQuery = true :=
  ⟨[Call.query (fun d _ => d.tab.length), Call.query (fun _ c => c.length)], rfl, by
    intro c hc; simp at hc; rcases hc with rfl | rfl <;> rfl⟩

end Dit.Props.C10
