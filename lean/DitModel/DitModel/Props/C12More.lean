/-
C12 (continued) — the scan is EXACTLY the inverse CDF (an iff, not only an implication), it is monotone in the
random number, falls off the end exactly at and above the total, the preimage of an index is its half-open
cumulative interval (so a uniform random number selects `j` with probability `pmf[j]`), log distributions, and
draws with a generator (sequential composition, equal states give equal samples and equal successor states).
Helper lemmas: Lemmas/Sampling.lean and Lemmas/SamplingMore.lean.
-/
import DitModel.Core.Generator
import DitModel.Props.C12
import DitModel.Lemmas.SamplingMore

set_option linter.unusedSectionVars false

namespace Dit.Props.C12More
open Dit Dit.Lemmas.Sampling

variable {α : Type} [Field α] [LinearOrder α] [IsStrictOrderedRing α]

/-- **Exact inverse CDF.** For a table of non-negative entries and `u ≥ 0`: the scan returns `j` IF AND ONLY IF `j`
is a stored position with `F(j-1) ≤ u < F(j)`. -/
theorem sample_iff (pmf : List α) (hnn : ∀ p ∈ pmf, 0 ≤ p) (u : α) (hu : 0 ≤ u) (j : Nat) :
    sampleIdx pmf u = some j ↔ j < pmf.length ∧ cum pmf j ≤ u ∧ u < cum pmf (j + 1) := by
  constructor
  · exact C12.sample_interval pmf u j hu
  · rintro ⟨hj, hlo, hhi⟩
    have := scanFrom_of_interval pmf hnn u 0 0 j hj (by simpa using hlo) (by simpa using hhi)
    simpa [sampleIdx] using this

/-- **Preimage.** The set of random numbers `u ≥ 0` that select `j` is exactly the half-open interval
`[F(j-1), F(j))` — of length `pmf[j]`, empty for a stored zero. -/
theorem sample_preimage (pmf : List α) (hnn : ∀ p ∈ pmf, 0 ≤ p) (j : Nat) (hj : j < pmf.length) :
    {u : α | 0 ≤ u ∧ sampleIdx pmf u = some j} = Set.Ico (cum pmf j) (cum pmf (j + 1))
    ∧ cum pmf (j + 1) - cum pmf j = pmf[j] := by
  refine ⟨?_, ?_⟩
  · ext u
    simp only [Set.mem_ofPred_eq, Set.mem_Ico]
    constructor
    · rintro ⟨hu, h⟩
      exact ((sample_iff pmf hnn u hu j).mp h).2
    · rintro ⟨hlo, hhi⟩
      have hu : 0 ≤ u := le_trans (cum_nonneg pmf hnn j) hlo
      exact ⟨hu, (sample_iff pmf hnn u hu j).mpr ⟨hj, hlo, hhi⟩⟩
  · rw [cum_succ pmf j hj, add_sub_cancel_left]

/-- **Off the end.** For non-negative entries the scan returns nothing exactly when `u` is at or above the total. -/
theorem sample_none_iff (pmf : List α) (hnn : ∀ p ∈ pmf, 0 ≤ p) (u : α) (hu : 0 ≤ u) :
    sampleIdx pmf u = none ↔ pmf.sum ≤ u := by
  constructor
  · intro h
    by_contra hlt
    obtain ⟨j, hj⟩ := C12.sample_total pmf u hu (not_le.mp hlt)
    rw [h] at hj; cases hj
  · intro h
    cases hs : sampleIdx pmf u with
    | none => rfl
    | some j =>
      obtain ⟨hj, _, hhi⟩ := C12.sample_interval pmf u j hu hs
      have := cum_mono pmf hnn (j + 1) pmf.length (by omega)
      rw [cum_length] at this
      exact absurd (lt_of_lt_of_le hhi this) (not_lt.mpr h)

/-- **Monotone.** A larger random number never selects an earlier outcome. -/
theorem sample_mono (pmf : List α) (hnn : ∀ p ∈ pmf, 0 ≤ p) (u u' : α) (hu : 0 ≤ u) (huu : u ≤ u') (j j' : Nat)
    (h : sampleIdx pmf u = some j) (h' : sampleIdx pmf u' = some j') : j ≤ j' := by
  obtain ⟨_, hlo, _⟩ := C12.sample_interval pmf u j hu h
  obtain ⟨_, _, hhi'⟩ := C12.sample_interval pmf u' j' (le_trans hu huu) h'
  by_contra hlt
  have := cum_mono pmf hnn (j' + 1) j (by omega)
  linarith

/-- **Stored zeros are invisible.** Removing the zero entries does not change WHICH positive entry is selected: the
index selected in the filtered table is the rank of the selected index among the positive entries. -/
theorem sample_skip_zeros (pmf : List α) (hnn : ∀ p ∈ pmf, 0 ≤ p) (u : α) (hu : 0 ≤ u) (j : Nat)
    (h : sampleIdx pmf u = some j) :
    sampleIdx (pmf.filter (fun p => decide (0 < p))) u
      = some (((pmf.take j).filter (fun p => decide (0 < p))).length) := by
  obtain ⟨hj, hlo, hhi⟩ := C12.sample_interval pmf u j hu h
  obtain ⟨_, hpos⟩ := C12.sample_pos pmf u j hu h
  have hnn' : ∀ p ∈ pmf.filter (fun p => decide (0 < p)), 0 ≤ p :=
    fun p hp => hnn p (List.mem_filter.mp hp).1
  rw [sample_iff _ hnn' u hu]
  have hs := rank_succ pmf j hj hpos
  refine ⟨?_, ?_, ?_⟩
  · have := rank_le pmf (j + 1)
    omega
  · rw [cum_filter_rank pmf hnn j]; exact hlo
  · rw [← hs, cum_filter_rank pmf hnn (j + 1)]; exact hhi

/-- **Fallback is only a fallback.** Below the total the selection with fallback is the plain scan. -/
theorem sample_fallback_eq (pmf : List α) (u : α) (hu : 0 ≤ u) (h : u < pmf.sum) :
    sampleIdxF pmf u = sampleIdx pmf u := by
  obtain ⟨j, hj⟩ := C12.sample_total pmf u hu h
  simp [sampleIdxF, hj]

/-- **Log distributions.** With stored logarithms and ANY exponential `exp` (for dit's: `exp x = 0` exactly for the
stored null value), the selected entry is never one whose exponential is zero: a null entry is never returned. -/
theorem sample_log_pos (exp : α → α) (logpmf : List α) (u : α) (hu : 0 ≤ u) (j : Nat)
    (h : sampleIdxLog exp logpmf u = some j) :
    ∃ hj : j < logpmf.length, exp logpmf[j] ≠ 0 := by
  obtain ⟨hj, hpos⟩ := C12.sample_pos (logpmf.map exp) u j hu h
  have hj' : j < logpmf.length := by simpa using hj
  refine ⟨hj', ?_⟩
  have : 0 < exp logpmf[j] := by simpa using hpos
  exact ne_of_gt this

/-- A log distribution and its linear copy select the same outcome for the same random number. -/
theorem sample_log_linear (exp : α → α) (logpmf : List α) (u : α) :
    sampleIdxLog exp logpmf u = sampleIdx (logpmf.map exp) u := rfl

section generator
variable {S : Type}

/-- `n` uniforms are drawn. -/
theorem drawN_length (next : S → α × S) (n : Nat) (s : S) : (drawN next n s).1.length = n := by
  exact drawN_length' next n s

/-- **Sequential composition.** Drawing `n` and then `m` from the state left behind is drawing `n + m` at once: the
generator is advanced by exactly the uniforms it handed out. -/
theorem drawN_add (next : S → α × S) (n m : Nat) (s : S) :
    drawN next (n + m) s
      = ((drawN next n s).1 ++ (drawN next m (drawN next n s).2).1, (drawN next m (drawN next n s).2).2) := by
  exact drawN_add' next n m s

/-- **Draws with a generator** are the scan applied to the generator's next uniforms, one sample per uniform. -/
theorem randN_spec (next : S → α × S) (pmf : List α) (n : Nat) (s : S) :
    (randN next pmf n s).1 = (drawN next n s).1.map (sampleIdx pmf) ∧ (randN next pmf n s).1.length = n
    ∧ (randN next pmf n s).2 = (drawN next n s).2 := by
  simp [randN, sampleMany, drawN_length']

/-- **Sequential draws**: `rand(n)` followed by `rand(m)` gives the samples of `rand(n + m)`. -/
theorem randN_add (next : S → α × S) (pmf : List α) (n m : Nat) (s : S) :
    (randN next pmf (n + m) s).1 = (randN next pmf n s).1 ++ (randN next pmf m (randN next pmf n s).2).1
    ∧ (randN next pmf (n + m) s).2 = (randN next pmf m (randN next pmf n s).2).2 := by
  simp [randN, sampleMany, drawN_add']

/-- **A copy reproduces its source's future draws.** Two distributions with the same stored values and generators
in the same state draw the same samples and leave their generators in the same state — for every later draw too. -/
theorem copy_draws (next : S → α × S) (pmf pmf' : List α) (s s' : S) (hp : pmf = pmf') (hs : s = s')
    (n m : Nat) :
    randN next pmf n s = randN next pmf' n s'
    ∧ randN next pmf m (randN next pmf n s).2 = randN next pmf' m (randN next pmf' n s').2 := by
  subst hp; subst hs
  exact ⟨rfl, rfl⟩

end generator

/-- Non-vacuity / example: a linear congruential toy generator on `Nat` states, uniforms `s % 4 / 4`. -/
example : (randN (fun s : Nat => ((((s % 4 : Nat) : Rat) / 4), (5 * s + 3) % 16)) [(1 : Rat) / 2, 0, 1 / 2] 3 1).1
    = [some 0, some 0, some 2] := by
  decide +kernel

end Dit.Props.C12More
