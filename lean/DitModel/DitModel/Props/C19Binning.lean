/-
C19 (binning clause) — "`binned()` assigns every sample to one of the requested bins, uniformly
spaced or equally populated."

Theorems about `Dit.uniformBin` (Core/Examples.lean; model of `uniform_binning`:
`int(bins·(x − min)/(max − min + 1e-12))`) and about `Dit.sortAsc`, `Dit.quantileSorted`,
`Dit.maxentThresholds`, `Dit.maxentLoop`, `Dit.maxentBinning`, `Dit.countLE` (Core/Binning.lean;
model of `maxent_binning`: NumPy linear-interpolation percentiles at `100·i/bins`, the first and the
last replaced by `∓∞`, then the loop `symb[(a <= ts) & (ts < b)] = i`), over an arbitrary
linearly ordered field `α` with the cast `fun n : Nat => (n : α)` for `ofNat`, for all sample
lists and all `bins`.  Helper lemmas: Lemmas/Binning.lean.  The sliding-window part of C19 is
Props/C19.lean.
-/
import DitModel.Lemmas.Binning
import Mathlib.Algebra.Field.Rat
import Mathlib.Algebra.Order.Ring.Rat
import Mathlib.Tactic.IntervalCases

set_option linter.unusedSectionVars false

namespace Dit.Props.C19Binning
open Dit Dit.Lemmas.Binning

variable {α : Type} [Field α] [LinearOrder α] [IsStrictOrderedRing α]

/-! ### `uniform_binning` -/

/-- **Uniform: every sample gets one of the requested bins.** For `bins ≥ 1` the label is below
`bins`, whatever `lo`, `range`, `eps` and the sample are (the model is a fold over `0..bins−1`
that starts from `0`). `0 < bins` is needed: for `bins = 0` the label is `0`, not `< 0`. -/
theorem uniformBin_lt {bins : Nat} (hb : 0 < bins) (lo range eps x : α) :
    uniformBin (fun n : Nat => (n : α)) bins lo range eps x < bins :=
  Lemmas.Binning.uniformBin_lt hb lo range eps x

example : (0 : Nat) < 4 := by decide
example : uniformBin (fun n : Nat => (n : Rat)) 4 0 3 (1 / 1000) 3 = 3 := by decide +kernel

/-- **Uniform: the label is the floor** `⌊bins·(x − lo)/(range + eps)⌋`: for a positive
denominator, a sample not below `lo` and below the top (`bins·(x−lo) < bins·(range+eps)`, which
holds for every `x ≤ lo + range` when `eps > 0`), `k` is the label iff
`k·(range+eps) ≤ bins·(x−lo) < (k+1)·(range+eps)`. The hypotheses are needed: for `x < lo` the
model returns `0` (Python's `int` truncates towards zero, also `0` for `x` just below `lo`, but
negative further down), and above the top the fold stops at `bins − 1`. -/
theorem uniformBin_spec {bins : Nat} (hb : 0 < bins) {lo range eps x : α} (hw : 0 < range + eps)
    (hlo : lo ≤ x) (hhi : (bins : α) * (x - lo) < (bins : α) * (range + eps)) (k : Nat) :
    k = uniformBin (fun n : Nat => (n : α)) bins lo range eps x
      ↔ (k : α) * (range + eps) ≤ (bins : α) * (x - lo)
          ∧ (bins : α) * (x - lo) < ((k : α) + 1) * (range + eps) :=
  Lemmas.Binning.uniformBin_spec hb hw hlo hhi k

example : (0 : Nat) < 4 ∧ (0 : Rat) < 3 + 1 / 1000 ∧ (0 : Rat) ≤ 2
    ∧ ((4 : Nat) : Rat) * (2 - 0) < ((4 : Nat) : Rat) * (3 + 1 / 1000) := by decide +kernel
example : uniformBin (fun n : Nat => (n : Rat)) 4 0 3 (1 / 1000) 2 = 2 := by decide +kernel

/-- **Uniformly spaced.** The same statement as intervals: bin `k` is exactly the half-open
interval `[lo + k·w, lo + (k+1)·w)` where `w = (range + eps)/bins` is the same for all bins. -/
theorem uniformBin_interval {bins : Nat} (hb : 0 < bins) {lo range eps x : α}
    (hw : 0 < range + eps) (hlo : lo ≤ x) (hhi : x < lo + (range + eps)) (k : Nat) :
    k = uniformBin (fun n : Nat => (n : α)) bins lo range eps x
      ↔ lo + (k : α) * ((range + eps) / (bins : α)) ≤ x
          ∧ x < lo + ((k : α) + 1) * ((range + eps) / (bins : α)) :=
  Lemmas.Binning.uniformBin_interval hb hw hlo hhi k

example : (0 : Nat) < 4 ∧ (0 : Rat) < 3 + 1 / 1000 ∧ (1 : Rat) ≤ 3 ∧ (3 : Rat) < 1 + (3 + 1 / 1000) := by
  decide +kernel
example : uniformBin (fun n : Nat => (n : Rat)) 4 1 3 (1 / 1000) 3 = 2 := by decide +kernel

/-- **Uniform: monotone.** A larger sample never gets a smaller label; no hypothesis is needed
(not even a positive denominator). -/
theorem uniformBin_mono (bins : Nat) (lo range eps : α) {x y : α} (hxy : x ≤ y) :
    uniformBin (fun n : Nat => (n : α)) bins lo range eps x
      ≤ uniformBin (fun n : Nat => (n : α)) bins lo range eps y :=
  Lemmas.Binning.uniformBin_mono bins lo range eps hxy

example : uniformBin (fun n : Nat => (n : Rat)) 4 0 3 (1 / 1000) 1 = 1
    ∧ uniformBin (fun n : Nat => (n : Rat)) 4 0 3 (1 / 1000) (5 / 2) = 3 := by decide +kernel

/-- **Uniform: the minimum is in bin `0`** (positive denominator needed: with `range + eps ≤ 0`
every test of the fold succeeds and the minimum lands in bin `bins − 1`). -/
theorem uniformBin_min (bins : Nat) {lo range eps : α} (hw : 0 < range + eps) :
    uniformBin (fun n : Nat => (n : α)) bins lo range eps lo = 0 :=
  Lemmas.Binning.uniformBin_min bins hw

example : (0 : Rat) < 3 + 1 / 1000 := by decide +kernel
example : uniformBin (fun n : Nat => (n : Rat)) 4 1 3 (1 / 1000) 1 = 0 := by decide +kernel

/-- **Uniform: the maximum is in bin `bins − 1`**, so both end bins are used, as long as the
slack is small against the spread: `(bins − 1)·eps ≤ range`. The hypothesis is needed (and is
exactly what the test of the last pass says): for constant data, `range = 0 < eps`, all samples
are in bin `0`. Positivity of `eps` is not needed for this direction. -/
theorem uniformBin_max {bins : Nat} (hb : 0 < bins) {lo range eps : α}
    (he : ((bins : α) - 1) * eps ≤ range) :
    uniformBin (fun n : Nat => (n : α)) bins lo range eps (lo + range) = bins - 1 :=
  Lemmas.Binning.uniformBin_max hb he

example : (0 : Nat) < 4 ∧ (((4 : Nat) : Rat) - 1) * (1 / 1000) ≤ 3 := by decide +kernel
example : uniformBin (fun n : Nat => (n : Rat)) 4 1 3 (1 / 1000) (1 + 3) = 4 - 1 := by decide +kernel
example : uniformBin (fun n : Nat => (n : Rat)) 4 1 0 (1 / 1000) (1 + 0) = 0 := by decide +kernel

/-! ### `maxent_binning`: the assignment loop -/

/-- **Maxent: every sample is assigned**, for ANY list of thresholds (sorted or not, of any
length): with `bins ≥ 1` some pass of the loop fires, so no `NaN` is left in `symb`. (Pass `0` has
no lower test, the last pass no upper test, and failing the upper test of pass `i` is passing the
lower test of pass `i+1`.) For `bins = 0` the loop is empty and the result is `none`. -/
theorem maxentLoop_isSome (ths : List α) {bins : Nat} (hb : 0 < bins) (x : α) :
    (maxentLoop ths bins x).isSome = true :=
  Lemmas.Binning.maxentLoop_isSome ths hb x

example : (0 : Nat) < 3 := by decide
example : maxentLoop [(5 : Rat), 1, 7, 0] 3 2 = some 1 := by decide +kernel

/-- **Maxent: the label is one of the requested bins**: whenever the loop assigns `k`, `k < bins`. -/
theorem maxentLoop_lt (ths : List α) (bins : Nat) (x : α) (k : Nat)
    (h : maxentLoop ths bins x = some k) : k < bins :=
  Lemmas.Binning.maxentLoop_lt ths bins x k h

example : maxentLoop [(0 : Rat), 1, 2, 3] 3 (3 / 2) = some 1 := by decide +kernel

/-- **Maxent: closed form of the label.** If the thresholds are non-decreasing (indices
`0..bins`), the label is the number of interior thresholds `t_1..t_{bins−1}` that are `≤ x`.
Sortedness is needed: for thresholds `[_, 1, 5, 3, _]`, `bins = 4` and `x = 4` passes `1` and `3`
fire, the loop keeps the last one, `3`, while only two interior thresholds are `≤ 4`. -/
theorem maxentLoop_eq_countLE (ths : List α) {bins : Nat} (hb : 0 < bins) (x : α)
    (hs : ∀ i j, i ≤ j → j ≤ bins → ths.getD i 0 ≤ ths.getD j 0) :
    maxentLoop ths bins x = some (countLE ths bins x) :=
  Lemmas.Binning.maxentLoop_eq_countLE ths hb x hs

example : (0 : Nat) < 3 ∧ ∀ i j, i ≤ j → j ≤ 3 → [(0 : Rat), 1, 2, 3].getD i 0 ≤ [(0 : Rat), 1, 2, 3].getD j 0 := by
  refine ⟨by decide, fun i j hij hj => ?_⟩
  have hi : i ≤ 3 := le_trans hij hj
  interval_cases j <;> interval_cases i <;> first | omega | decide +kernel
example : maxentLoop [(0 : Rat), 1, 5, 3, 9] 4 4 = some 3 ∧ countLE [(0 : Rat), 1, 5, 3, 9] 4 4 = 2 := by
  decide +kernel

/-- **Maxent: monotone.** With non-decreasing thresholds a larger sample never gets a smaller
label. -/
theorem maxentLoop_mono (ths : List α) {bins : Nat} (hb : 0 < bins) {x y : α} (hxy : x ≤ y)
    (hs : ∀ i j, i ≤ j → j ≤ bins → ths.getD i 0 ≤ ths.getD j 0) :
    ∃ kx ky, maxentLoop ths bins x = some kx ∧ maxentLoop ths bins y = some ky ∧ kx ≤ ky :=
  ⟨_, _, Lemmas.Binning.maxentLoop_eq_countLE ths hb x hs,
    Lemmas.Binning.maxentLoop_eq_countLE ths hb y hs, countLE_mono ths bins hxy⟩

example : maxentLoop [(0 : Rat), 1, 2, 3] 3 (1 / 2) = some 0
    ∧ maxentLoop [(0 : Rat), 1, 2, 3] 3 (5 / 2) = some 2 := by decide +kernel

/-! ### `maxent_binning`: sorting and percentiles -/

/-- **Sorting keeps the samples**: `sortAsc ts` is a permutation of `ts`. -/
theorem sortAsc_perm (ts : List α) : (sortAsc ts).Perm ts :=
  Lemmas.Binning.sortAsc_perm ts

/-- **Sorting sorts**: `sortAsc ts` is non-decreasing. -/
theorem sortAsc_sorted (ts : List α) : (sortAsc ts).Pairwise (· ≤ ·) :=
  Lemmas.Binning.sortAsc_sorted ts

/-- **A percentile lies between its two neighbouring order statistics**: for sorted non-empty
`a` and a fraction `num/den ≤ 1`, with `v = num·(n−1)/den`,
`a[⌊v⌋] ≤ percentile ≤ a[min(⌊v⌋+1, n−1)]`. `num ≤ den` keeps `⌊v⌋` a valid position. -/
theorem quantileSorted_between {a : List α} (hs : a.Pairwise (· ≤ ·)) (hne : 0 < a.length)
    {num den : Nat} (hnd : num ≤ den) (hd : 0 < den) :
    a.getD (num * (a.length - 1) / den) 0 ≤ quantileSorted (fun n : Nat => (n : α)) a num den
      ∧ quantileSorted (fun n : Nat => (n : α)) a num den
          ≤ a.getD (min (num * (a.length - 1) / den + 1) (a.length - 1)) 0 :=
  Lemmas.Binning.quantileSorted_between hs hne hnd hd

example : [(1 : Rat), 2, 4, 8].Pairwise (· ≤ ·) ∧ 0 < [(1 : Rat), 2, 4, 8].length ∧ 1 ≤ 2 ∧ 0 < 2 := by
  decide +kernel
example : quantileSorted (fun n : Nat => (n : Rat)) [1, 2, 4, 8] 1 2 = 3 := by decide +kernel

/-- **The 0th percentile is the minimum** of the samples (for every `den`, also `0`). -/
theorem quantileSorted_zero (ts : List α) (hne : ts ≠ []) (den : Nat) :
    quantileSorted (fun n : Nat => (n : α)) (sortAsc ts) 0 den ∈ ts
      ∧ ∀ x ∈ ts, quantileSorted (fun n : Nat => (n : α)) (sortAsc ts) 0 den ≤ x := by
  have hq := Lemmas.Binning.quantileSorted_zero (sortAsc ts) den
  have hlen : 0 < (sortAsc ts).length := by
    rw [sortAsc_length]; exact List.length_pos_iff.mpr hne
  refine ⟨?_, fun x hx => ?_⟩
  · exact (Lemmas.Binning.sortAsc_perm ts).mem_iff.mp (hq ▸ getD_mem hlen)
  · exact hq ▸ sorted_head_le (Lemmas.Binning.sortAsc_sorted ts) x
      ((Lemmas.Binning.sortAsc_perm ts).mem_iff.mpr hx)

example : quantileSorted (fun n : Nat => (n : Rat)) (sortAsc [3, 1, 2]) 0 4 = 1 := by decide +kernel

/-- **The 100th percentile is the maximum** of the samples. -/
theorem quantileSorted_full (ts : List α) (hne : ts ≠ []) {den : Nat} (hd : 0 < den) :
    quantileSorted (fun n : Nat => (n : α)) (sortAsc ts) den den ∈ ts
      ∧ ∀ x ∈ ts, x ≤ quantileSorted (fun n : Nat => (n : α)) (sortAsc ts) den den := by
  have hq := Lemmas.Binning.quantileSorted_full (sortAsc ts) hd
  have hlen : 0 < (sortAsc ts).length := by
    rw [sortAsc_length]; exact List.length_pos_iff.mpr hne
  refine ⟨?_, fun x hx => ?_⟩
  · exact (Lemmas.Binning.sortAsc_perm ts).mem_iff.mp
      (hq ▸ getD_mem (by omega : (sortAsc ts).length - 1 < (sortAsc ts).length))
  · exact hq ▸ sorted_le_last (Lemmas.Binning.sortAsc_sorted ts) hlen x
      ((Lemmas.Binning.sortAsc_perm ts).mem_iff.mpr hx)

example : quantileSorted (fun n : Nat => (n : Rat)) (sortAsc [3, 1, 2]) 4 4 = 3 := by decide +kernel

/-- **Percentiles are monotone in the fraction**: for sorted non-empty `a` and
`num ≤ num' ≤ den`, the percentile at `num/den` is at most the one at `num'/den`. -/
theorem quantileSorted_mono {a : List α} (hs : a.Pairwise (· ≤ ·)) (hne : 0 < a.length)
    {num num' den : Nat} (h1 : num ≤ num') (h2 : num' ≤ den) (hd : 0 < den) :
    quantileSorted (fun n : Nat => (n : α)) a num den
      ≤ quantileSorted (fun n : Nat => (n : α)) a num' den :=
  Lemmas.Binning.quantileSorted_mono hs hne h1 h2 hd

example : quantileSorted (fun n : Nat => (n : Rat)) [1, 2, 4, 8] 1 3 = 2
    ∧ quantileSorted (fun n : Nat => (n : Rat)) [1, 2, 4, 8] 2 3 = 4 := by decide +kernel

/-- **The thresholds are sorted**: the `bins + 1` percentiles are non-decreasing, for every
sample list (the empty one included, where the model gives all zeros) and every `bins`. -/
theorem maxentThresholds_sorted (bins : Nat) (ts : List α) :
    (maxentThresholds (fun n : Nat => (n : α)) bins ts).Pairwise (· ≤ ·) :=
  Lemmas.Binning.maxentThresholds_sorted bins ts

/-! ### `maxent_binning` as a whole -/

/-- **Maxent: every sample gets one of the requested bins, monotonically.** For `bins ≥ 1` and
every sample list: every entry of the result is `some k` with `k < bins` (no `NaN`), the result
has one entry per sample, and whenever `ts[i] ≤ ts[j]` the label of `ts[i]` is at most the label
of `ts[j]` (in particular equal samples get equal labels). Non-emptiness of `ts` is not needed. -/
theorem maxentBinning_total_mono {bins : Nat} (hb : 0 < bins) (ts : List α) :
    (maxentBinning (fun n : Nat => (n : α)) bins ts).length = ts.length
      ∧ (∀ e ∈ maxentBinning (fun n : Nat => (n : α)) bins ts, ∃ k, e = some k ∧ k < bins)
      ∧ ∀ i j (hi : i < ts.length) (hj : j < ts.length), ts[i] ≤ ts[j] →
          ∃ ki kj, (maxentBinning (fun n : Nat => (n : α)) bins ts)[i]? = some (some ki)
            ∧ (maxentBinning (fun n : Nat => (n : α)) bins ts)[j]? = some (some kj) ∧ ki ≤ kj := by
  have heq := Lemmas.Binning.maxentBinning_eq_countLE (α := α) hb ts
  refine ⟨by rw [heq, List.length_map], fun e he => ?_, fun i j hi hj hij => ?_⟩
  · rw [heq, List.mem_map] at he
    obtain ⟨x, _, rfl⟩ := he
    exact ⟨_, rfl, countLE_lt _ hb x⟩
  · refine ⟨countLE (maxentThresholds (Nat.cast : Nat → α) bins ts) bins ts[i],
      countLE (maxentThresholds (Nat.cast : Nat → α) bins ts) bins ts[j], ?_, ?_,
      countLE_mono _ bins hij⟩
    · rw [heq, List.getElem?_map, List.getElem?_eq_getElem hi]; rfl
    · rw [heq, List.getElem?_map, List.getElem?_eq_getElem hj]; rfl

example : (0 : Nat) < 3 := by decide
example : maxentBinning (fun n : Nat => (n : Rat)) 3 [5, 1, 4, 2, 3, 6]
    = [some 2, some 0, some 1, some 0, some 1, some 2] := by decide +kernel

/-- **Equally populated.** For pairwise distinct samples (`n` of them) and `bins ≥ 1`, every
label `k < bins` is received by at least `⌊(n−1)/bins⌋` and at most `⌈n/bins⌉` samples (natural
division). Distinctness is needed: all samples equal to a threshold go to the same bin, e.g.
constant data end up in a single bin. -/
theorem maxentBinning_equally_populated {bins : Nat} (hb : 0 < bins) (ts : List α) (hn : ts.Nodup)
    {k : Nat} (hk : k < bins) :
    (ts.length - 1) / bins ≤ (maxentBinning (fun n : Nat => (n : α)) bins ts).count (some k)
      ∧ (maxentBinning (fun n : Nat => (n : α)) bins ts).count (some k)
          ≤ (ts.length + bins - 1) / bins := by
  have heq := Lemmas.Binning.maxentBinning_eq_countLE (α := α) hb ts
  have hc : (maxentBinning (fun n : Nat => (n : α)) bins ts).count (some k)
      = ts.countP (fun x => decide
          (countLE (maxentThresholds (Nat.cast : Nat → α) bins ts) bins x = k)) := by
    rw [heq, List.count_eq_countP, List.countP_map]
    apply List.countP_congr
    intro x _
    simp
  rw [hc]
  exact label_population hb ts hn hk

example : (0 : Nat) < 3 ∧ [(5 : Rat), 1, 4, 2, 3, 6, 7].Nodup ∧ 1 < 3 := by decide +kernel
example : (maxentBinning (fun n : Nat => (n : Rat)) 3 [5, 1, 4, 2, 3, 6, 7]).count (some 1) = 2
    ∧ (7 - 1) / 3 = 2 ∧ (7 + 3 - 1) / 3 = 3 := by decide +kernel

/-- **Equally populated, in round numbers**: at least `n/bins − 1` and at most
`(n + bins − 1)/bins + 1` samples per label (a weaker form of the previous theorem). -/
theorem maxentBinning_equally_populated' {bins : Nat} (hb : 0 < bins) (ts : List α) (hn : ts.Nodup)
    {k : Nat} (hk : k < bins) :
    ts.length / bins - 1 ≤ (maxentBinning (fun n : Nat => (n : α)) bins ts).count (some k)
      ∧ (maxentBinning (fun n : Nat => (n : α)) bins ts).count (some k)
          ≤ (ts.length + bins - 1) / bins + 1 := by
  obtain ⟨h1, h2⟩ := maxentBinning_equally_populated hb ts hn hk
  have h3 : ts.length / bins ≤ (ts.length - 1) / bins + 1 := by
    rw [← Nat.add_div_right _ hb]
    exact Nat.div_le_div_right (by omega)
  omega

example : (0 : Nat) < 2 ∧ [(5 : Rat), 1, 4].Nodup ∧ 0 < 2 := by decide +kernel
example : maxentBinning (fun n : Nat => (n : Rat)) 2 [5, 1, 4] = [some 1, some 0, some 1] := by
  decide +kernel

end Dit.Props.C19Binning
