/-
C06 (companion) — maximum correlation vanishes exactly for independent variables.

dit computes the maximum correlation as the second singular value of `Q = P / √(p_X p_Y)`; the model's
companion matrix `A = maxcorrCompanion P` (`A[j][k] = Σ_i P[i][j] P[i][k] / (p_X(i) p_Y(k))`) is similar to
`QᵀQ`, so its eigenvalues are the squared singular values: real, in `[0, 1]` (`maxcorr_eigen_abs_le_one` in
Props/C06.lean and `maxcorr_eigen_nonneg` here), the largest being 1.  Their sum is the trace, and this file
proves the identity that ties the trace to independence:

  `tr A − 1 = Σ_{i,j} (P_ij − p_X(i) p_Y(j))² / (p_X(i) p_Y(j)) = χ²(P ‖ p_X ⊗ p_Y) ≥ 0`,

with equality iff `P_ij = p_X(i) p_Y(j)` everywhere.  Hence all eigenvalues besides the top one vanish — the
maximum correlation is 0 — exactly for independent variables, and the first coefficient of the characteristic
polynomial the driver hands to the harness is `−tr A`.  (That a matrix similar to a symmetric positive
semi-definite one is diagonalisable with eigenvalues summing to the trace is standard linear algebra and is
not re-proved here; everything that depends on the table `P` is.)
-/
import DitModel.Props.C06
import DitModel.Lemmas.MaxCorr

set_option linter.unusedSectionVars false

namespace Dit.Props.C06MaxCorr
open Dit Dit.Lemmas.Table Dit.Lemmas.InfoReal Dit.Lemmas.Diverge

/-- The `χ²` divergence of the joint table from the product of its marginals, cells of zero marginal skipped. -/
noncomputable def chi2 (P : List (List ℝ)) (n : Nat) : ℝ :=
  (P.map (fun row => rsum n (fun j => if row.sum = 0 ∨ colSum P j = 0 then 0
    else (row.getD j 0 - row.sum * colSum P j) ^ 2 / (row.sum * colSum P j)))).sum

/-- **The trace of the companion matrix** is the sum of its diagonal entries `ccEntry P j j`. -/
theorem maxcorr_trace (P : List (List ℝ)) (n : Nat) (hne : P ≠ [])
    (hlen : ∀ row ∈ P, row.length = n) :
    matTrace (maxcorrCompanion P) = rsum n (fun j => ccEntry P j j) := by
  have hn : (P.head?.getD []).length = n := Lemmas.MaxCorr.head_len P n hne hlen
  have hl : (maxcorrCompanion P).length = n := by
    rw [maxcorrCompanion_eq, List.length_map, List.length_range, hn]
  unfold matTrace rsum
  rw [lsum_eq_sum, hl]
  apply congrArg
  apply List.map_congr_left
  intro j hj
  have hj' : j < (P.head?.getD []).length := by rw [hn]; exact List.mem_range.mp hj
  exact maxcorrCompanion_getD P j j hj' hj'

/-- Non-vacuity of the hypotheses of `maxcorr_trace`. -/
example : ([[1 / 2, 0], [1 / 4, 1 / 4]] : List (List ℝ)) ≠ []
    ∧ ∀ row ∈ ([[1 / 2, 0], [1 / 4, 1 / 4]] : List (List ℝ)), row.length = 2 := by
  refine ⟨by simp, ?_⟩
  intro row hrow
  simp only [List.mem_cons, List.not_mem_nil, or_false] at hrow
  rcases hrow with rfl | rfl <;> rfl

/-- **`tr A − 1 = χ²(P ‖ p_X ⊗ p_Y)`** for a non-negative table of total mass one. -/
theorem maxcorr_trace_chi2 (P : List (List ℝ)) (n : Nat) (hlen : ∀ row ∈ P, row.length = n)
    (hnn : ∀ row ∈ P, ∀ x ∈ row, 0 ≤ x) (hmass : (P.map List.sum).sum = 1) :
    rsum n (fun j => ccEntry P j j) - 1 = chi2 P n := by
  unfold chi2
  exact (Lemmas.MaxCorr.chi2_eq P n hlen hnn hmass).symm

/-- Non-vacuity of the hypotheses shared by `maxcorr_trace_chi2`, `maxcorr_trace_ge_one` and
`maxcorr_trace_eq_one_iff`: a dependent 2 × 2 joint table. -/
example : (∀ row ∈ ([[1 / 2, 0], [1 / 4, 1 / 4]] : List (List ℝ)), row.length = 2)
    ∧ (∀ row ∈ ([[1 / 2, 0], [1 / 4, 1 / 4]] : List (List ℝ)), ∀ x ∈ row, 0 ≤ x)
    ∧ (([[1 / 2, 0], [1 / 4, 1 / 4]] : List (List ℝ)).map List.sum).sum = 1 := by
  refine ⟨?_, ?_, by norm_num⟩
  · intro row hrow
    simp only [List.mem_cons, List.not_mem_nil, or_false] at hrow
    rcases hrow with rfl | rfl <;> rfl
  · intro row hrow x hx
    simp only [List.mem_cons, List.not_mem_nil, or_false] at hrow
    rcases hrow with rfl | rfl <;>
      (simp only [List.mem_cons, List.not_mem_nil, or_false] at hx
       rcases hx with rfl | rfl <;> norm_num)

/-- **`tr A ≥ 1`.** -/
theorem maxcorr_trace_ge_one (P : List (List ℝ)) (n : Nat) (hlen : ∀ row ∈ P, row.length = n)
    (hnn : ∀ row ∈ P, ∀ x ∈ row, 0 ≤ x) (hmass : (P.map List.sum).sum = 1) :
    1 ≤ rsum n (fun j => ccEntry P j j) := by
  have h := maxcorr_trace_chi2 P n hlen hnn hmass
  have h0 : 0 ≤ chi2 P n := by
    unfold chi2
    apply sum_map_nonneg
    intro row hrow
    apply rsum_nonneg
    intro j _
    exact Lemmas.MaxCorr.cell_nonneg P hnn row hrow j
  linarith

/-- **`tr A = 1` exactly for independent variables**: every cell is the product of its marginals. -/
theorem maxcorr_trace_eq_one_iff (P : List (List ℝ)) (n : Nat) (hlen : ∀ row ∈ P, row.length = n)
    (hnn : ∀ row ∈ P, ∀ x ∈ row, 0 ≤ x) (hmass : (P.map List.sum).sum = 1) :
    rsum n (fun j => ccEntry P j j) = 1 ↔
      ∀ row ∈ P, ∀ j, j < n → row.getD j 0 = row.sum * colSum P j := by
  have h := maxcorr_trace_chi2 P n hlen hnn hmass
  have hiff : rsum n (fun j => ccEntry P j j) = 1 ↔ chi2 P n = 0 := by
    constructor <;> intro h' <;> linarith
  rw [hiff]
  unfold chi2
  rw [sum_map_eq_zero_iff P _ (fun row hrow => rsum_nonneg _ _
    (fun j _ => Lemmas.MaxCorr.cell_nonneg P hnn row hrow j))]
  constructor
  · intro H row hrow j hj
    have H' := (sum_map_eq_zero_iff (List.range n) _
      (fun j _ => Lemmas.MaxCorr.cell_nonneg P hnn row hrow j)).mp (H row hrow) j
      (List.mem_range.mpr hj)
    exact (Lemmas.MaxCorr.cell_eq_zero_iff P hnn row hrow j).mp H'
  · intro H row hrow
    apply (sum_map_eq_zero_iff (List.range n) _
      (fun j _ => Lemmas.MaxCorr.cell_nonneg P hnn row hrow j)).mpr
    intro j hj
    exact (Lemmas.MaxCorr.cell_eq_zero_iff P hnn row hrow j).mpr
      (H row hrow j (List.mem_range.mp hj))

/-- **Real eigenvalues of the companion matrix are non-negative** (it is similar to `QᵀQ`): for a real
eigenpair, `lam · Σ_j v_j² / p_Y(j) = Σ_i (Σ_j P_ij v_j / p_Y(j))² / p_X(i) ≥ 0` (sums over columns of non-zero
marginal); the eigenvector must charge such a column.  (The proof does not use `hlen`: entries past the end of
a row read as 0.) -/
theorem maxcorr_eigen_nonneg (P : List (List ℝ)) (n : Nat) (hlen : ∀ row ∈ P, row.length = n)
    (hnn : ∀ row ∈ P, ∀ x ∈ row, 0 ≤ x) (v : Nat → ℝ) (lam : ℝ)
    (hv : ∃ j, j < n ∧ colSum P j ≠ 0 ∧ v j ≠ 0)
    (heig : ∀ j, j < n → rsum n (fun k => ccEntry P j k * v k) = lam * v j) :
    0 ≤ lam := by
  have _ := hlen
  exact Lemmas.MaxCorr.cc_eigen_nonneg P n hnn v lam hv heig

/-- Non-vacuity of the hypotheses of `maxcorr_eigen_nonneg`: the uniform 1 × 2 table has the companion
matrix `[[1/2, 1/2], [1/2, 1/2]]`, with eigenvector `(1, 1)` for the eigenvalue 1. -/
example : (∀ row ∈ ([[1 / 2, 1 / 2]] : List (List ℝ)), row.length = 2)
    ∧ (∀ row ∈ ([[1 / 2, 1 / 2]] : List (List ℝ)), ∀ x ∈ row, 0 ≤ x)
    ∧ (∃ j, j < 2 ∧ colSum [[1 / 2, 1 / 2]] j ≠ 0 ∧ (fun _ : Nat => (1 : ℝ)) j ≠ 0)
    ∧ ∀ j, j < 2 → rsum 2 (fun k => ccEntry [[1 / 2, 1 / 2]] j k * (fun _ : Nat => (1 : ℝ)) k)
        = 1 * (fun _ : Nat => (1 : ℝ)) j := by
  refine ⟨?_, ?_, ⟨0, by norm_num, by norm_num [colSum], by norm_num⟩, ?_⟩
  · intro row hrow
    simp only [List.mem_cons, List.not_mem_nil, or_false] at hrow
    subst hrow; rfl
  · intro row hrow x hx
    simp only [List.mem_cons, List.not_mem_nil, or_false] at hrow
    subst hrow
    simp only [List.mem_cons, List.not_mem_nil, or_false] at hx
    rcases hx with rfl | rfl <;> norm_num
  · intro j hj
    have : j = 0 ∨ j = 1 := by omega
    rcases this with rfl | rfl <;>
      norm_num [rsum, ccEntry, colSum, List.range_succ]

/-- **The first coefficient of the characteristic polynomial is minus the trace** (Faddeev–LeVerrier, first
step), for any non-empty square matrix given as a list of rows. -/
theorem charPoly_first (A : List (List ℝ)) (hne : A ≠ []) (hsq : ∀ row ∈ A, row.length = A.length) :
    (charPoly (fun k : Nat => (k : ℝ)) A).head? = some (-(matTrace A)) :=
  Lemmas.MaxCorr.charPoly_head A hne hsq

/-- Non-vacuity of the hypotheses of `charPoly_first`. -/
example : ([[1, 2], [3, 4]] : List (List ℝ)) ≠ []
    ∧ ∀ row ∈ ([[1, 2], [3, 4]] : List (List ℝ)), row.length = ([[1, 2], [3, 4]] : List (List ℝ)).length := by
  refine ⟨by simp, ?_⟩
  intro row hrow
  simp only [List.mem_cons, List.not_mem_nil, or_false] at hrow
  rcases hrow with rfl | rfl <;> rfl

/-- Independent example: the outer product of (1/4, 3/4) and (1/3, 2/3) has `χ² = 0`; a dependent one has
`χ² > 0`. -/
example : chi2 [[1 / 12, 1 / 6], [1 / 4, 1 / 2]] 2 = 0 := by
  norm_num [chi2, rsum, colSum, List.range_succ]

example : 0 < chi2 [[1 / 2, 0], [1 / 4, 1 / 4]] 2 := by
  norm_num [chi2, rsum, colSum, List.range_succ]

end Dit.Props.C06MaxCorr
