/-
C13 — Channel capacity and rate–distortion: the reported quantities and their optimality
certificates.

Theorems about `Core/Channel.lean` at `α := ℝ`, `log := Real.logb 2`, `exp2 := (2:ℝ)^·`.
A channel `P : List (List ℝ)` is `IsChannel P n m` (`n` rows, each a probability vector of
length `m`); a law `r` is `IsLaw r n`; entries are read with `vec r x = r.getD x 0` and
`ent P x y = (P.getD x []).getD y 0` (all four defined in Lemmas/Channel.lean).

* capacity: `channelMI` is `Σ_x Σ_y r_x P_xy log₂(P_xy/(rP)_y)`, non-negative; every input law
  is bounded by `max_x D(P_x‖q')` for any dominating output law `q'` (the dual bound), hence by
  `I(r;P) + capacityGap r P`; the gap is non-negative; closed forms.
* rate–distortion: the joint `Q_xy = p_x W_xy` has input marginal `p` and `jointMI Q =
  channelMI p W`; the Csiszár/Berger bound and the model's `rdLowerBound` certificate; the
  monotonicity of the Lagrangian minimisers in `β`.
Helper lemmas: Lemmas/Channel.lean.
-/
import DitModel.Lemmas.Channel

set_option linter.unusedSectionVars false

namespace Dit.Props.C13
open Dit Dit.Lemmas.Channel Finset

/-! ## Capacity -/

/-- **Output law, entrywise**: `(rP)_y = Σ_x r_x P_xy` (only the shapes are needed). -/
theorem outputLaw_apply (r : List ℝ) (P : List (List ℝ)) (n m : ℕ) (hr : r.length = n)
    (hP : IsMat P n m) (y : ℕ) :
    vec (outputLaw r P) y = ∑ x ∈ range n, vec r x * ent P x y :=
  vec_outputLaw r P n m hr hP y

/-- The output law of a channel under an input law has non-negative entries. -/
theorem outputLaw_nonneg (r : List ℝ) (P : List (List ℝ)) (n m : ℕ) (hr : IsLaw r n)
    (hP : IsChannel P n m) : ∀ a ∈ outputLaw r P, 0 ≤ a :=
  (outputLaw_isLaw r P n m hr hP).nonneg

/-- The output law of a channel under an input law has `m` entries summing to one. -/
theorem outputLaw_sum_one (r : List ℝ) (P : List (List ℝ)) (n m : ℕ) (hr : IsLaw r n)
    (hP : IsChannel P n m) : (outputLaw r P).length = m ∧ (outputLaw r P).sum = 1 :=
  ⟨(outputLaw_isLaw r P n m hr hP).len, (outputLaw_isLaw r P n m hr hP).sum_one⟩

/-- **The reported value is the mutual information**: `channelMI log₂ r P =
Σ_x Σ_y r_x P_xy log₂ (P_xy / q_y)` with `q = outputLaw r P` (shapes only; the guard
`P_xy = 0 ↦ 0` of the model agrees with `0 · log₂ _ = 0`). -/
theorem channelMI_eq_def (r : List ℝ) (P : List (List ℝ)) (n m : ℕ) (hr : r.length = n)
    (hP : IsMat P n m) :
    channelMI (Real.logb 2) r P = ∑ x ∈ range n, ∑ y ∈ range m,
      vec r x * ent P x y * Real.logb 2 (ent P x y / vec (outputLaw r P) y) := by
  rw [channelMI_eq r P n m hr hP]
  apply sum_congr rfl; intro x _
  rw [mul_sum]
  apply sum_congr rfl; intro y _
  ring

/-- Mutual information through a channel is non-negative. -/
theorem channelMI_nonneg (r : List ℝ) (P : List (List ℝ)) (n m : ℕ) (hr : IsLaw r n)
    (hP : IsChannel P n m) : 0 ≤ channelMI (Real.logb 2) r P := by
  rw [channelMI_eq r P n m hr.len hP.isMat]
  simp only [vec_outputLaw r P n m hr.len hP.isMat]
  exact mi_nonneg (range n) (range m) (vec r) (ent P) (fun x _ => hr.vec_nonneg x)
    (le_of_eq hr.sum_vec) (fun x _ y _ => hP.ent_nonneg x y)
    (fun x hx => hP.sum_ent (mem_range.mp hx))

/-- **Dual bound ("no input distribution does better")**: for ANY output law `q'` that
dominates every row of the channel (`q'_y = 0 → P_xy = 0`, needed for the divergences to be the
finite sums `klRow` computes) and ANY input law `r'`,
`I(r';P) ≤ max_x D(P_x ‖ q')`. -/
theorem capacity_dual_bound (P : List (List ℝ)) (n m : ℕ) (hP : IsChannel P n m)
    (q' : List ℝ) (hq' : IsLaw q' m)
    (hdom : ∀ x < n, ∀ y < m, vec q' y = 0 → ent P x y = 0)
    (r' : List ℝ) (hr' : IsLaw r' n) :
    channelMI (Real.logb 2) r' P ≤ lmaxOf (P.map (fun px => klRow (Real.logb 2) px q')) :=
  le_trans (channelMI_le_cross P n m hP q' hq' hdom r' hr')
    (mean_le_lmaxOf r' _ n hr' (by simp [hP.len]))

/-- The dual bound with an explicit constant: if every row divergence `D(P_x‖q')` is at most
`C` (this is what `channel_capacity` checks "plus tolerance") then `I(r';P) ≤ C` for every
input law `r'`. -/
theorem capacity_dual_bound_le (P : List (List ℝ)) (n m : ℕ) (hP : IsChannel P n m)
    (q' : List ℝ) (hq' : IsLaw q' m)
    (hdom : ∀ x < n, ∀ y < m, vec q' y = 0 → ent P x y = 0)
    (C : ℝ) (hC : ∀ px ∈ P, klRow (Real.logb 2) px q' ≤ C)
    (r' : List ℝ) (hr' : IsLaw r' n) :
    channelMI (Real.logb 2) r' P ≤ C := by
  refine le_trans (capacity_dual_bound P n m hP q' hq' hdom r' hr') ?_
  apply lmaxOf_le
  · have := hr'.pos_len
    intro h
    have hl : P.length = 0 := by simpa using congrArg List.length h
    rw [hP.len] at hl; omega
  · intro a ha
    obtain ⟨px, hpx, rfl⟩ := List.mem_map.mp ha
    exact hC px hpx

/-- **The gap is non-negative**: `channelMI` is the `r`-mean of the row divergences against
`rP`, so their maximum is at least `channelMI` (no domination needed). -/
theorem capacityGap_nonneg (r : List ℝ) (P : List (List ℝ)) (n m : ℕ) (hr : IsLaw r n)
    (hP : IsMat P n m) : 0 ≤ capacityGap (Real.logb 2) r P := by
  unfold capacityGap
  have h := mean_le_lmaxOf r (P.map (fun px => klRow (Real.logb 2) px (outputLaw r P))) n hr
    (by simp [hP.len])
  rw [← channelMI_eq_rows r P n m hr.len hP] at h
  linarith

/-- **Gap certificate**: for an input law `r` whose output law dominates every row (automatic
for the rows with `r_x > 0`; a row with `r_x = 0` that puts mass where `rP` has none has
infinite divergence, which `klRow` does not represent) and any competitor `r'`,
`I(r';P) ≤ I(r;P) + capacityGap r P`. So an `r` with gap `≤ tol` is within `tol` of capacity. -/
theorem capacity_gap_certificate (r : List ℝ) (P : List (List ℝ)) (n m : ℕ) (hr : IsLaw r n)
    (hP : IsChannel P n m)
    (hdom : ∀ x < n, ∀ y < m, vec (outputLaw r P) y = 0 → ent P x y = 0)
    (r' : List ℝ) (hr' : IsLaw r' n) :
    channelMI (Real.logb 2) r' P
      ≤ channelMI (Real.logb 2) r P + capacityGap (Real.logb 2) r P := by
  have h := capacity_dual_bound P n m hP (outputLaw r P) (outputLaw_isLaw r P n m hr hP) hdom
    r' hr'
  unfold capacityGap
  linarith

/-- The domination hypothesis of `capacity_gap_certificate` holds as soon as the input law has
full support. -/
theorem dominates_of_pos (r : List ℝ) (P : List (List ℝ)) (n m : ℕ) (hr : IsLaw r n)
    (hP : IsChannel P n m) (hpos : ∀ x < n, 0 < vec r x) :
    ∀ x < n, ∀ y < m, vec (outputLaw r P) y = 0 → ent P x y = 0 := by
  intro x hx y _ h0
  rw [vec_outputLaw r P n m hr.len hP.isMat] at h0
  have hle : vec r x * ent P x y ≤ ∑ x' ∈ range n, vec r x' * ent P x' y :=
    single_le_sum (f := fun x' => vec r x' * ent P x' y)
      (fun x' _ => mul_nonneg (hr.vec_nonneg x') (hP.ent_nonneg x' y)) (mem_range.mpr hx)
  rw [h0] at hle
  have h1 := hP.ent_nonneg x y
  by_contra hne
  have : 0 < vec r x * ent P x y := mul_pos (hpos x hx) (lt_of_le_of_ne h1 (Ne.symm hne))
  linarith

/-! ## Rate–distortion -/

/-- **Input marginal is the source; rate is the mutual information of the joint**: for the
joint `Q_xy = p_x W_xy` of a source `p` and a test channel `W` (rows summing to one),
`rowSums Q = p`, the output marginal `colSums Q` is `outputLaw p W`, and
`jointMI log₂ Q = channelMI log₂ p W`. -/
theorem jointMI_eq_channelMI (p : List ℝ) (W Q : List (List ℝ)) (n m : ℕ) (hp : p.length = n)
    (hW : IsMat W n m) (hWs : ∀ row ∈ W, row.sum = 1) (hQ : IsMat Q n m)
    (hQe : ∀ x < n, ∀ y < m, ent Q x y = vec p x * ent W x y) :
    jointMI (Real.logb 2) Q = channelMI (Real.logb 2) p W
    ∧ rowSums Q = p
    ∧ ∀ y < m, vec (colSums Q) y = vec (outputLaw p W) y :=
  ⟨Lemmas.Channel.jointMI_eq_channelMI p W Q n m hp hW hWs hQ hQe,
    rowSums_eq p W Q n m hp hW hWs hQ hQe, colSums_getD p W Q n m hp hW hQ hQe⟩

/-- The same for the explicit joint matrix `jointOf p W = [[p_x * W_xy]]`. -/
theorem jointOf_spec (p : List ℝ) (W : List (List ℝ)) (n m : ℕ) (hp : p.length = n)
    (hW : IsMat W n m) (hWs : ∀ row ∈ W, row.sum = 1) :
    jointMI (Real.logb 2) (jointOf p W) = channelMI (Real.logb 2) p W
    ∧ rowSums (jointOf p W) = p :=
  ⟨(jointMI_eq_channelMI p W _ n m hp hW hWs (jointOf_isMat p W n m hp hW)
      (fun x hx y hy => ent_jointOf p W n m hp hW x y hx hy)).1,
    (jointMI_eq_channelMI p W _ n m hp hW hWs (jointOf_isMat p W n m hp hW)
      (fun x hx y hy => ent_jointOf p W n m hp hW x y hx hy)).2.1⟩

/-- **Reported distortion**: `expDistortion Q d = Σ_x Σ_y Q_xy d_xy`. -/
theorem expDistortion_eq_def (Q d : List (List ℝ)) (n m : ℕ) (hQ : IsMat Q n m)
    (hd : IsMat d n m) :
    expDistortion Q d = ∑ x ∈ range n, ∑ y ∈ range m, ent Q x y * ent d x y :=
  expDistortion_eq Q d n m hQ hd

/-- **Csiszár / Berger lower bound**: for a source `p`, a distortion matrix `d`, a slope `β`
and positive multipliers `λ_x` with `Σ_x p_x λ_x 2^{−β d_xy} ≤ 1` for every output letter `y`,
EVERY test channel `W` (joint `Q_xy = p_x W_xy`) satisfies
`R + β D = jointMI Q + β · expDistortion Q d ≥ Σ_x p_x log₂ λ_x`.
(`β ≥ 0` is not needed for the inequality.) -/
theorem rd_dual_bound (p : List ℝ) (W d Q : List (List ℝ)) (lam : List ℝ) (β : ℝ) (n m : ℕ)
    (hp : IsLaw p n) (hW : IsChannel W n m) (hd : IsMat d n m) (hQ : IsMat Q n m)
    (hQe : ∀ x < n, ∀ y < m, ent Q x y = vec p x * ent W x y)
    (hlam : ∀ x < n, 0 < vec lam x)
    (hc : ∀ y < m, ∑ x ∈ range n, vec p x * vec lam x * (2 : ℝ) ^ (-(β * ent d x y)) ≤ 1) :
    ∑ x ∈ range n, vec p x * Real.logb 2 (vec lam x)
      ≤ jointMI (Real.logb 2) Q + β * expDistortion Q d :=
  rd_dual_fn p W d Q (vec lam) β n m hp hW hd hQ hQe hlam hc

/-- **The model's certificate is valid**: for any output law candidate `q` with positive
entries (so that `λ_x = 1/Σ_y q_y 2^{−β d_xy}` is defined and positive), `rdLowerBound`
(which divides the multipliers by `max_y c_y`) is a lower bound on `R + β D` of every test
channel. -/
theorem rd_certificate (p q : List ℝ) (W d Q : List (List ℝ)) (β : ℝ) (n m : ℕ)
    (hp : IsLaw p n) (hW : IsChannel W n m) (hd : IsMat d n m) (hQ : IsMat Q n m)
    (hQe : ∀ x < n, ∀ y < m, ent Q x y = vec p x * ent W x y)
    (hq : q.length = m) (hqpos : ∀ a ∈ q, 0 < a) :
    rdLowerBound (Real.logb 2) (fun x => (2 : ℝ) ^ x) β p q d
      ≤ jointMI (Real.logb 2) Q + β * expDistortion Q d :=
  Lemmas.Channel.rd_certificate p q W d Q β n m hp hW hd hQ hQe hq hqpos

/-- **Monotonicity along `β`**: if `(R₁, D₁)` minimises `R + β₁ D` and `(R₂, D₂)` minimises
`R + β₂ D` over the same set `S` of achievable pairs and `0 ≤ β₁ < β₂`, then the distortion does
not increase and the rate does not decrease. -/
theorem rd_monotone (S : Set (ℝ × ℝ)) (β₁ β₂ R₁ D₁ R₂ D₂ : ℝ) (h0 : 0 ≤ β₁) (hlt : β₁ < β₂)
    (h1 : (R₁, D₁) ∈ S) (h2 : (R₂, D₂) ∈ S)
    (hmin1 : ∀ z ∈ S, R₁ + β₁ * D₁ ≤ z.1 + β₁ * z.2)
    (hmin2 : ∀ z ∈ S, R₂ + β₂ * D₂ ≤ z.1 + β₂ * z.2) :
    D₂ ≤ D₁ ∧ R₁ ≤ R₂ := by
  have a := hmin1 _ h2
  have b := hmin2 _ h1
  simp only at a b
  have hD : D₂ ≤ D₁ := by
    have : (β₂ - β₁) * (D₂ - D₁) ≤ 0 := by nlinarith
    by_contra hne
    push Not at hne
    have : 0 < (β₂ - β₁) * (D₂ - D₁) := mul_pos (by linarith) (by linarith)
    linarith
  refine ⟨hD, ?_⟩
  have : β₁ * D₂ ≤ β₁ * D₁ := mul_le_mul_of_nonneg_left hD h0
  linarith

end Dit.Props.C13
