/-
C13 — Channel capacity and rate–distortion: the reported quantities and their optimality
certificates.

Theorems about `Core/Channel.lean` at `α := ℝ`, `log := Real.logb 2`, `exp2 := (2:ℝ)^·`.
A channel `P : List (List ℝ)` is `IsChannel P n m` (`n` rows, each a probability vector of
length `m`); a law `r` is `IsLaw r n`; entries are read with `vec r x = r.getD x 0` and
`ent P x y = (P.getD x []).getD y 0` (all four defined in Lemmas/Channel.lean).

* capacity: `channelMI` is `Σ_x Σ_y r_x P_xy log₂(P_xy/(rP)_y)`, non-negative; every input law
  is bounded by `max_x D(P_x‖q')` for any dominating output law `q'` (the dual bound), hence by
  `I(r;P) + capacityGap r P`; the gap is non-negative; closed forms.
* rate–distortion: the joint `Q_xy = p_x W_xy` has input marginal `p` and `jointMI Q =
  channelMI p W`; the Csiszár/Berger bound and the model's `rdLowerBound` certificate; the
  monotonicity of the Lagrangian minimisers in `β`.
Helper lemmas: Lemmas/Channel.lean.
-/
import DitModel.Lemmas.Channel

set_option linter.unusedSectionVars false

namespace Dit.Props.C13
open Dit Dit.Lemmas.Channel Finset

/-! ## Capacity -/

/-- **Output law, entrywise**: `(rP)_y = Σ_x r_x P_xy` (only the shapes are needed). -/
theorem outputLaw_apply (r : List ℝ) (P : List (List ℝ)) (n m : ℕ) (hr : r.length = n)
    (hP : IsMat P n m) (y : ℕ) :
    vec (outputLaw r P) y = ∑ x ∈ range n, vec r x * ent P x y :=
  vec_outputLaw r P n m hr hP y

/-- The output law of a channel under an input law has non-negative entries. -/
theorem outputLaw_nonneg (r : List ℝ) (P : List (List ℝ)) (n m : ℕ) (hr : IsLaw r n)
    (hP : IsChannel P n m) : ∀ a ∈ outputLaw r P, 0 ≤ a :=
  (outputLaw_isLaw r P n m hr hP).nonneg

/-- The output law of a channel under an input law has `m` entries summing to one. -/
theorem outputLaw_sum_one (r : List ℝ) (P : List (List ℝ)) (n m : ℕ) (hr : IsLaw r n)
    (hP : IsChannel P n m) : (outputLaw r P).length = m ∧ (outputLaw r P).sum = 1 :=
  ⟨(outputLaw_isLaw r P n m hr hP).len, (outputLaw_isLaw r P n m hr hP).sum_one⟩

/-- **The reported value is the mutual information**: `channelMI log₂ r P =
Σ_x Σ_y r_x P_xy log₂ (P_xy / q_y)` with `q = outputLaw r P` (shapes only; the guard
`P_xy = 0 ↦ 0` of the model agrees with `0 · log₂ _ = 0`). -/
theorem channelMI_eq_def (r : List ℝ) (P : List (List ℝ)) (n m : ℕ) (hr : r.length = n)
    (hP : IsMat P n m) :
    channelMI (Real.logb 2) r P = ∑ x ∈ range n, ∑ y ∈ range m,
      vec r x * ent P x y * Real.logb 2 (ent P x y / vec (outputLaw r P) y) := by
  rw [channelMI_eq r P n m hr hP]
  apply sum_congr rfl; intro x _
  rw [mul_sum]
  apply sum_congr rfl; intro y _
  ring

/-- Mutual information through a channel is non-negative. -/
theorem channelMI_nonneg (r : List ℝ) (P : List (List ℝ)) (n m : ℕ) (hr : IsLaw r n)
    (hP : IsChannel P n m) : 0 ≤ channelMI (Real.logb 2) r P := by
  rw [channelMI_eq r P n m hr.len hP.isMat]
  simp only [vec_outputLaw r P n m hr.len hP.isMat]
  exact mi_nonneg (range n) (range m) (vec r) (ent P) (fun x _ => hr.vec_nonneg x)
    (le_of_eq hr.sum_vec) (fun x _ y _ => hP.ent_nonneg x y)
    (fun x hx => hP.sum_ent (mem_range.mp hx))

/-- **Dual bound ("no input distribution does better")**: for ANY output law `q'` that
dominates every row of the channel (`q'_y = 0 → P_xy = 0`, needed for the divergences to be the
finite sums `klRow` computes) and ANY input law `r'`,
`I(r';P) ≤ max_x D(P_x ‖ q')`. -/
theorem capacity_dual_bound (P : List (List ℝ)) (n m : ℕ) (hP : IsChannel P n m)
    (q' : List ℝ) (hq' : IsLaw q' m)
    (hdom : ∀ x < n, ∀ y < m, vec q' y = 0 → ent P x y = 0)
    (r' : List ℝ) (hr' : IsLaw r' n) :
    channelMI (Real.logb 2) r' P ≤ lmaxOf (P.map (fun px => klRow (Real.logb 2) px q')) :=
  le_trans (channelMI_le_cross P n m hP q' hq' hdom r' hr')
    (mean_le_lmaxOf r' _ n hr' (by simp [hP.len]))

/-- The dual bound with an explicit constant: if every row divergence `D(P_x‖q')` is at most
`C` (this is what `channel_capacity` checks "plus tolerance") then `I(r';P) ≤ C` for every
input law `r'`. -/
theorem capacity_dual_bound_le (P : List (List ℝ)) (n m : ℕ) (hP : IsChannel P n m)
    (q' : List ℝ) (hq' : IsLaw q' m)
    (hdom : ∀ x < n, ∀ y < m, vec q' y = 0 → ent P x y = 0)
    (C : ℝ) (hC : ∀ px ∈ P, klRow (Real.logb 2) px q' ≤ C)
    (r' : List ℝ) (hr' : IsLaw r' n) :
    channelMI (Real.logb 2) r' P ≤ C := by
  refine le_trans (capacity_dual_bound P n m hP q' hq' hdom r' hr') ?_
  apply lmaxOf_le
  · have := hr'.pos_len
    intro h
    have hl : P.length = 0 := by simpa using congrArg List.length h
    rw [hP.len] at hl; omega
  · intro a ha
    obtain ⟨px, hpx, rfl⟩ := List.mem_map.mp ha
    exact hC px hpx

/-- **The gap is non-negative**: `channelMI` is the `r`-mean of the row divergences against
`rP`, so their maximum is at least `channelMI` (no domination needed). -/
theorem capacityGap_nonneg (r : List ℝ) (P : List (List ℝ)) (n m : ℕ) (hr : IsLaw r n)
    (hP : IsMat P n m) : 0 ≤ capacityGap (Real.logb 2) r P := by
  unfold capacityGap
  have h := mean_le_lmaxOf r (P.map (fun px => klRow (Real.logb 2) px (outputLaw r P))) n hr
    (by simp [hP.len])
  rw [← channelMI_eq_rows r P n m hr.len hP] at h
  linarith

/-- **Gap certificate**: for an input law `r` whose output law dominates every row (automatic
for the rows with `r_x > 0`; a row with `r_x = 0` that puts mass where `rP` has none has
infinite divergence, which `klRow` does not represent) and any competitor `r'`,
`I(r';P) ≤ I(r;P) + capacityGap r P`. So an `r` with gap `≤ tol` is within `tol` of capacity. -/
theorem capacity_gap_certificate (r : List ℝ) (P : List (List ℝ)) (n m : ℕ) (hr : IsLaw r n)
    (hP : IsChannel P n m)
    (hdom : ∀ x < n, ∀ y < m, vec (outputLaw r P) y = 0 → ent P x y = 0)
    (r' : List ℝ) (hr' : IsLaw r' n) :
    channelMI (Real.logb 2) r' P
      ≤ channelMI (Real.logb 2) r P + capacityGap (Real.logb 2) r P := by
  have h := capacity_dual_bound P n m hP (outputLaw r P) (outputLaw_isLaw r P n m hr hP) hdom
    r' hr'
  unfold capacityGap
  linarith

/-- The domination hypothesis of `capacity_gap_certificate` holds as soon as the input law has
full support. -/
theorem dominates_of_pos (r : List ℝ) (P : List (List ℝ)) (n m : ℕ) (hr : IsLaw r n)
    (hP : IsChannel P n m) (hpos : ∀ x < n, 0 < vec r x) :
    ∀ x < n, ∀ y < m, vec (outputLaw r P) y = 0 → ent P x y = 0 := by
  intro x hx y _ h0
  rw [vec_outputLaw r P n m hr.len hP.isMat] at h0
  have hle : vec r x * ent P x y ≤ ∑ x' ∈ range n, vec r x' * ent P x' y :=
    single_le_sum (f := fun x' => vec r x' * ent P x' y)
      (fun x' _ => mul_nonneg (hr.vec_nonneg x') (hP.ent_nonneg x' y)) (mem_range.mpr hx)
  rw [h0] at hle
  have h1 := hP.ent_nonneg x y
  by_contra hne
  have : 0 < vec r x * ent P x y := mul_pos (hpos x hx) (lt_of_le_of_ne h1 (Ne.symm hne))
  linarith

/-- **Sufficient (KKT) condition**: if all row divergences against the output law of `r` are
equal to `C`, then `r` achieves `I(r;P) = C`, its gap is `0`, and `C` is the capacity: no input
law does better. All closed forms below are instances. -/
theorem capacity_kkt (r : List ℝ) (P : List (List ℝ)) (n m : ℕ) (hr : IsLaw r n)
    (hP : IsChannel P n m)
    (hdom : ∀ x < n, ∀ y < m, vec (outputLaw r P) y = 0 → ent P x y = 0)
    (C : ℝ) (hC : ∀ px ∈ P, klRow (Real.logb 2) px (outputLaw r P) = C) :
    channelMI (Real.logb 2) r P = C ∧ capacityGap (Real.logb 2) r P = 0
    ∧ ∀ r', IsLaw r' n → channelMI (Real.logb 2) r' P ≤ C := by
  have hn := hr.pos_len
  have hne : P ≠ [] := by
    intro h
    have hl : P.length = 0 := by simpa using congrArg List.length h
    rw [hP.len] at hl; omega
  have hmap : P.map (fun px => klRow (Real.logb 2) px (outputLaw r P)) = P.map (fun _ => C) :=
    List.map_congr_left hC
  have hmi : channelMI (Real.logb 2) r P = C := by
    rw [channelMI_eq_rows r P n m hr.len hP.isMat, hmap]
    have : ∀ x ∈ range n, vec r x * (P.map (fun _ => C)).getD x 0 = vec r x * C := by
      intro x hx
      have hx' : x < P.length := by rw [hP.len]; exact mem_range.mp hx
      simp [List.getD_eq_getElem?_getD, hx']
    rw [sum_congr rfl this, ← sum_mul, hr.sum_vec, one_mul]
  have hmax : lmaxOf (P.map (fun px => klRow (Real.logb 2) px (outputLaw r P))) = C := by
    rw [hmap]
    have hmem := lmaxOf_mem (P.map (fun _ => C)) (by simpa using hne)
    obtain ⟨_, _, h⟩ := List.mem_map.mp hmem
    exact h.symm
  refine ⟨hmi, ?_, ?_⟩
  · unfold capacityGap; rw [hmax, hmi, sub_self]
  · intro r' hr'
    exact capacity_dual_bound_le P n m hP _ (outputLaw_isLaw r P n m hr hP) hdom C
      (fun px hpx => le_of_eq (hC px hpx)) r' hr'

/-- **Noiseless channel**: on `n ≥ 1` letters the uniform input achieves `log₂ n`, with zero
gap, and no input law does better. -/
theorem noiseless_capacity (n : ℕ) (hn : 0 < n) :
    channelMI (Real.logb 2) (uniformLaw n) (identityChannel n) = Real.logb 2 n
    ∧ capacityGap (Real.logb 2) (uniformLaw n) (identityChannel n) = 0
    ∧ ∀ r', IsLaw r' n → channelMI (Real.logb 2) r' (identityChannel n) ≤ Real.logb 2 n :=
  capacity_kkt _ _ n n (uniformLaw_isLaw n hn) (identity_isChannel n) (noiseless_dom n hn) _
    (noiseless_rows n hn)

/-- **Useless channel**: if all rows are the same law, every input law has mutual information
`0` (so the capacity is `0`). -/
theorem useless_capacity (r : List ℝ) (P : List (List ℝ)) (p0 : List ℝ) (n m : ℕ)
    (hr : IsLaw r n) (hP : IsMat P n m) (hrows : ∀ row ∈ P, row = p0) :
    channelMI (Real.logb 2) r P = 0 :=
  useless_mi r P p0 n m hr hP hrows

/-- **Binary symmetric channel** with crossover `e ∈ [0,1]`: the uniform input achieves
`1 − H₂(e)` (with `H₂(e) = entropyVals log₂ [e, 1−e]`), with zero gap, and no input law does
better. -/
theorem bsc_capacity (e : ℝ) (h0 : 0 ≤ e) (h1 : e ≤ 1) :
    channelMI (Real.logb 2) [1 / 2, 1 / 2] (bsc e) = 1 - entropyVals (Real.logb 2) [e, 1 - e]
    ∧ capacityGap (Real.logb 2) [1 / 2, 1 / 2] (bsc e) = 0
    ∧ ∀ r', IsLaw r' 2 →
        channelMI (Real.logb 2) r' (bsc e) ≤ 1 - entropyVals (Real.logb 2) [e, 1 - e] :=
  capacity_kkt _ _ 2 2 half_law (bsc_isChannel e h0 h1)
    (dominates_of_pos _ _ 2 2 half_law (bsc_isChannel e h0 h1) (by
      intro x hx; interval_cases x <;> norm_num [vec])) _
    (bsc_rows e)

/-- **Binary erasure channel** `[[1−ε, ε, 0], [0, ε, 1−ε]]`, `ε ∈ [0,1]`: the uniform input
achieves `1 − ε`, with zero gap, and no input law does better. -/
theorem bec_capacity (ε : ℝ) (h0 : 0 ≤ ε) (h1 : ε ≤ 1) :
    channelMI (Real.logb 2) [1 / 2, 1 / 2] (bec ε) = 1 - ε
    ∧ capacityGap (Real.logb 2) [1 / 2, 1 / 2] (bec ε) = 0
    ∧ ∀ r', IsLaw r' 2 → channelMI (Real.logb 2) r' (bec ε) ≤ 1 - ε :=
  capacity_kkt _ _ 2 3 half_law (bec_isChannel ε h0 h1) (bec_dom ε) _ (bec_rows ε)

/-- **One Blahut–Arimoto step returns a probability vector**: positive weights `2^{…}`
normalised by their sum — entries positive, summing to one (for non-empty `r`, `P`; positivity
of `r` is what makes the exponents meaningful but is not needed for this). -/
theorem baCapacityStep_sum_one (r : List ℝ) (P : List (List ℝ)) (hr : r ≠ []) (hP : P ≠ []) :
    (baCapacityStep (Real.logb 2) (fun x => (2 : ℝ) ^ x) r P).sum = 1
    ∧ (∀ a ∈ baCapacityStep (Real.logb 2) (fun x => (2 : ℝ) ^ x) r P, 0 < a)
    ∧ (baCapacityStep (Real.logb 2) (fun x => (2 : ℝ) ^ x) r P).length
        = min r.length P.length := by
  unfold baCapacityStep
  simp only
  set w : List ℝ := List.zipWith (fun rx px => (2 : ℝ) ^ (lsum (List.zipWith
    (fun pxy qy => if pxy == 0 then 0 else pxy * Real.logb 2 (rx * pxy / qy)) px
    (outputLaw r P)))) r P with hw
  have hwpos : ∀ a ∈ w, 0 < a :=
    zipWith_pos _ (fun _ _ => Real.rpow_pos_of_pos (by norm_num) _) r P
  have hne : w ≠ [] := by
    rw [hw]; intro h
    rcases List.zipWith_eq_nil_iff.mp h with h | h
    · exact hr h
    · exact hP h
  have hS : 0 < lsum w := by
    rw [Lemmas.Table.lsum_eq_sum]; exact List.sum_pos w hwpos hne
  refine ⟨?_, ?_, ?_⟩
  · rw [sum_map_div, ← Lemmas.Table.lsum_eq_sum, div_self hS.ne']
  · intro a ha
    obtain ⟨b, hb, rfl⟩ := List.mem_map.mp ha
    exact div_pos (hwpos b hb) hS
  · simp [hw]

/-- Non-vacuity (capacity): a concrete BSC and the uniform input satisfy every hypothesis of
`capacity_dual_bound` / `capacity_gap_certificate`; the model computes on `ℚ`. -/
example : IsLaw [(1 : ℝ) / 2, 1 / 2] 2 ∧ IsChannel (bsc (1 / 4)) 2 2
    ∧ (∀ x < 2, ∀ y < 2, vec (outputLaw [(1 : ℝ) / 2, 1 / 2] (bsc (1 / 4))) y = 0
        → ent (bsc (1 / 4)) x y = 0) :=
  ⟨half_law, bsc_isChannel _ (by norm_num) (by norm_num),
    dominates_of_pos _ _ 2 2 half_law (bsc_isChannel _ (by norm_num) (by norm_num)) (by
      intro x hx; interval_cases x <;> norm_num [vec])⟩
example : outputLaw [(1 : ℚ) / 3, 2 / 3] [[3 / 4, 1 / 4], [1 / 4, 3 / 4]] = [5 / 12, 7 / 12] := by
  decide +kernel
example : lmaxOf [(1 : ℚ) / 3, 2 / 3, 1 / 2] = 2 / 3 := by decide +kernel

/-! ## Rate–distortion -/

/-- **Input marginal is the source; rate is the mutual information of the joint**: for the
joint `Q_xy = p_x W_xy` of a source `p` and a test channel `W` (rows summing to one),
`rowSums Q = p`, the output marginal `colSums Q` is `outputLaw p W`, and
`jointMI log₂ Q = channelMI log₂ p W`. -/
theorem jointMI_eq_channelMI (p : List ℝ) (W Q : List (List ℝ)) (n m : ℕ) (hp : p.length = n)
    (hW : IsMat W n m) (hWs : ∀ row ∈ W, row.sum = 1) (hQ : IsMat Q n m)
    (hQe : ∀ x < n, ∀ y < m, ent Q x y = vec p x * ent W x y) :
    jointMI (Real.logb 2) Q = channelMI (Real.logb 2) p W
    ∧ rowSums Q = p
    ∧ ∀ y < m, vec (colSums Q) y = vec (outputLaw p W) y :=
  ⟨Lemmas.Channel.jointMI_eq_channelMI p W Q n m hp hW hWs hQ hQe,
    rowSums_eq p W Q n m hp hW hWs hQ hQe, colSums_getD p W Q n m hp hW hQ hQe⟩

/-- The same for the explicit joint matrix `jointOf p W = [[p_x * W_xy]]`. -/
theorem jointOf_spec (p : List ℝ) (W : List (List ℝ)) (n m : ℕ) (hp : p.length = n)
    (hW : IsMat W n m) (hWs : ∀ row ∈ W, row.sum = 1) :
    jointMI (Real.logb 2) (jointOf p W) = channelMI (Real.logb 2) p W
    ∧ rowSums (jointOf p W) = p :=
  ⟨(jointMI_eq_channelMI p W _ n m hp hW hWs (jointOf_isMat p W n m hp hW)
      (fun x hx y hy => ent_jointOf p W n m hp hW x y hx hy)).1,
    (jointMI_eq_channelMI p W _ n m hp hW hWs (jointOf_isMat p W n m hp hW)
      (fun x hx y hy => ent_jointOf p W n m hp hW x y hx hy)).2.1⟩

/-- **Reported distortion**: `expDistortion Q d = Σ_x Σ_y Q_xy d_xy`. -/
theorem expDistortion_eq_def (Q d : List (List ℝ)) (n m : ℕ) (hQ : IsMat Q n m)
    (hd : IsMat d n m) :
    expDistortion Q d = ∑ x ∈ range n, ∑ y ∈ range m, ent Q x y * ent d x y :=
  expDistortion_eq Q d n m hQ hd

/-- **Csiszár / Berger lower bound**: for a source `p`, a distortion matrix `d`, a slope `β`
and positive multipliers `λ_x` with `Σ_x p_x λ_x 2^{−β d_xy} ≤ 1` for every output letter `y`,
EVERY test channel `W` (joint `Q_xy = p_x W_xy`) satisfies
`R + β D = jointMI Q + β · expDistortion Q d ≥ Σ_x p_x log₂ λ_x`.
(`β ≥ 0` is not needed for the inequality.) -/
theorem rd_dual_bound (p : List ℝ) (W d Q : List (List ℝ)) (lam : List ℝ) (β : ℝ) (n m : ℕ)
    (hp : IsLaw p n) (hW : IsChannel W n m) (hd : IsMat d n m) (hQ : IsMat Q n m)
    (hQe : ∀ x < n, ∀ y < m, ent Q x y = vec p x * ent W x y)
    (hlam : ∀ x < n, 0 < vec lam x)
    (hc : ∀ y < m, ∑ x ∈ range n, vec p x * vec lam x * (2 : ℝ) ^ (-(β * ent d x y)) ≤ 1) :
    ∑ x ∈ range n, vec p x * Real.logb 2 (vec lam x)
      ≤ jointMI (Real.logb 2) Q + β * expDistortion Q d :=
  rd_dual_fn p W d Q (vec lam) β n m hp hW hd hQ hQe hlam hc

/-- **The model's certificate is valid**: for any output law candidate `q` with positive
entries (so that `λ_x = 1/Σ_y q_y 2^{−β d_xy}` is defined and positive), `rdLowerBound`
(which divides the multipliers by `max_y c_y`) is a lower bound on `R + β D` of every test
channel. -/
theorem rd_certificate (p q : List ℝ) (W d Q : List (List ℝ)) (β : ℝ) (n m : ℕ)
    (hp : IsLaw p n) (hW : IsChannel W n m) (hd : IsMat d n m) (hQ : IsMat Q n m)
    (hQe : ∀ x < n, ∀ y < m, ent Q x y = vec p x * ent W x y)
    (hq : q.length = m) (hqpos : ∀ a ∈ q, 0 < a) :
    rdLowerBound (Real.logb 2) (fun x => (2 : ℝ) ^ x) β p q d
      ≤ jointMI (Real.logb 2) Q + β * expDistortion Q d :=
  Lemmas.Channel.rd_certificate p q W d Q β n m hp hW hd hQ hQe hq hqpos

/-- **Monotonicity along `β`**: if `(R₁, D₁)` minimises `R + β₁ D` and `(R₂, D₂)` minimises
`R + β₂ D` over the same set `S` of achievable pairs and `0 ≤ β₁ < β₂`, then the distortion does
not increase and the rate does not decrease. -/
theorem rd_monotone (S : Set (ℝ × ℝ)) (β₁ β₂ R₁ D₁ R₂ D₂ : ℝ) (h0 : 0 ≤ β₁) (hlt : β₁ < β₂)
    (h1 : (R₁, D₁) ∈ S) (h2 : (R₂, D₂) ∈ S)
    (hmin1 : ∀ z ∈ S, R₁ + β₁ * D₁ ≤ z.1 + β₁ * z.2)
    (hmin2 : ∀ z ∈ S, R₂ + β₂ * D₂ ≤ z.1 + β₂ * z.2) :
    D₂ ≤ D₁ ∧ R₁ ≤ R₂ := by
  have a := hmin1 _ h2
  have b := hmin2 _ h1
  simp only at a b
  have hD : D₂ ≤ D₁ := by
    have : (β₂ - β₁) * (D₂ - D₁) ≤ 0 := by nlinarith
    by_contra hne
    push Not at hne
    have : 0 < (β₂ - β₁) * (D₂ - D₁) := mul_pos (by linarith) (by linarith)
    linarith
  refine ⟨hD, ?_⟩
  have : β₁ * D₂ ≤ β₁ * D₁ := mul_le_mul_of_nonneg_left hD h0
  linarith

/-- Non-vacuity (rate–distortion): the model on `ℚ`, and a concrete instance of the hypotheses
of `rd_dual_bound`: uniform binary source, Hamming distortion, `β = 1`, `λ = (4/3, 4/3)`
(`Σ_x p_x λ_x 2^{−d_xy} = (1/2)(4/3)(1 + 1/2) = 1`), test channel BSC(1/4). -/
example : (hammingMatrix 3 : List (List ℚ)) = [[0, 1, 1], [1, 0, 1], [1, 1, 0]] := by
  decide +kernel
example : expDistortion [[(3 : ℚ) / 8, 1 / 8], [1 / 8, 3 / 8]] (hammingMatrix 2) = 1 / 4 := by
  decide +kernel
example : rowSums [[(3 : ℚ) / 8, 1 / 8], [1 / 8, 3 / 8]] = [1 / 2, 1 / 2]
    ∧ colSums [[(3 : ℚ) / 8, 1 / 8], [1 / 8, 3 / 8]] = [1 / 2, 1 / 2] := by decide +kernel
example : Real.logb 2 (4 / 3)
    ≤ jointMI (Real.logb 2) (jointOf [1 / 2, 1 / 2] (bsc (1 / 4)))
      + 1 * expDistortion (jointOf [1 / 2, 1 / 2] (bsc (1 / 4))) (hammingMatrix 2) := by
  have hW := bsc_isChannel (1 / 4) (by norm_num) (by norm_num)
  have hd : IsMat (hammingMatrix 2 : List (List ℝ)) 2 2 := by
    refine ⟨by simp [hammingMatrix], ?_⟩
    intro row hrow
    simp [hammingMatrix, List.range_succ] at hrow
    rcases hrow with rfl | rfl <;> rfl
  have h := rd_dual_bound [1 / 2, 1 / 2] (bsc (1 / 4)) (hammingMatrix 2) _ [4 / 3, 4 / 3] 1 2 2
    half_law hW hd (jointOf_isMat _ _ 2 2 rfl hW.isMat)
    (fun x hx y hy => ent_jointOf _ _ 2 2 rfl hW.isMat x y hx hy)
    (by intro x hx; interval_cases x <;> norm_num [vec])
    (by
      intro y hy
      interval_cases y <;>
        norm_num [sum_range_succ, vec, ent, hammingMatrix, List.range_succ, Real.rpow_neg_one])
  refine le_trans (le_of_eq ?_) h
  norm_num [sum_range_succ, vec]
  ring

/-- Non-vacuity (`rd_monotone`): `S = {(1,0), (0,1)}`, `β₁ = 1/2` is minimised at `(0,1)`,
`β₂ = 2` at `(1,0)`: distortion drops from 1 to 0, rate rises from 0 to 1. -/
example : ((0 : ℝ), (1 : ℝ)) ∈ ({(1, 0), (0, 1)} : Set (ℝ × ℝ))
    ∧ ((1 : ℝ), (0 : ℝ)) ∈ ({(1, 0), (0, 1)} : Set (ℝ × ℝ))
    ∧ (∀ z ∈ ({(1, 0), (0, 1)} : Set (ℝ × ℝ)), (0 : ℝ) + 1 / 2 * 1 ≤ z.1 + 1 / 2 * z.2)
    ∧ (∀ z ∈ ({(1, 0), (0, 1)} : Set (ℝ × ℝ)), (1 : ℝ) + 2 * 0 ≤ z.1 + 2 * z.2) := by
  refine ⟨by simp, by simp, ?_, ?_⟩
  · intro z hz
    rcases hz with rfl | rfl <;> norm_num
  · intro z hz
    rcases hz with rfl | rfl <;> norm_num

/-- Non-vacuity (`rd_certificate`, `useless_capacity`): a positive candidate output law; a channel
with equal rows. -/
example : ([(1 : ℝ) / 2, 1 / 2]).length = 2 ∧ ∀ a ∈ [(1 : ℝ) / 2, 1 / 2], 0 < a := by
  refine ⟨rfl, ?_⟩
  intro a ha; simp at ha; rw [ha]; norm_num
example : IsMat [[(1 : ℝ) / 3, 2 / 3], [1 / 3, 2 / 3]] 2 2
    ∧ ∀ row ∈ [[(1 : ℝ) / 3, 2 / 3], [1 / 3, 2 / 3]], row = [1 / 3, 2 / 3] := by
  refine ⟨⟨rfl, ?_⟩, ?_⟩
  · intro row hrow; simp at hrow; rw [hrow]; rfl
  · intro row hrow
    simp only [List.mem_cons, List.not_mem_nil, or_false, or_self] at hrow
    exact hrow

/-! ## Bernoulli source under Hamming distortion: `R(D) = H₂(p) − H₂(D)` -/

/-- **Achievability**: for a Bernoulli source `(1−p, p)`, `0 < p < 1`, and `0 < D < 1/2`, the
textbook test channel `bernTest p D` (output law `(1−s, s)`, `s = (p−D)/(1−2D)`, backward channel
BSC(`D`)) has joint `jointOf [1−p, p] (bernTest p D)` with rate `H₂(p) − H₂(D)` and Hamming
distortion exactly `D`. (`H₂(x) = entropyVals log₂ [x, 1−x]`.) -/
theorem bernoulli_hamming_achieves (p D : ℝ) (hp0 : 0 < p) (hp1 : p < 1) (hD0 : 0 < D)
    (hD2 : D < 1 / 2) :
    jointMI (Real.logb 2) (jointOf [1 - p, p] (bernTest p D))
      = entropyVals (Real.logb 2) [p, 1 - p] - entropyVals (Real.logb 2) [D, 1 - D]
    ∧ expDistortion (jointOf [1 - p, p] (bernTest p D)) (hammingMatrix 2) = D :=
  bern_achieves p D hp0 hp1 hD0 hD2

/-- **The dual bound matches**: with slope `β = log₂((1−D)/D)` and the textbook multipliers
`λ_x = (1−D)/p_x` (which make every column constraint an equality), `rd_dual_bound` gives, for
EVERY test channel `W` of the Bernoulli source, `R + β·dist ≥ H₂(p) − H₂(D) + β·D`. -/
theorem bernoulli_hamming_dual (p D : ℝ) (hp0 : 0 < p) (hp1 : p < 1) (hD0 : 0 < D) (hD1 : D < 1)
    (W Q : List (List ℝ)) (hW : IsChannel W 2 2) (hQ : IsMat Q 2 2)
    (hQe : ∀ x < 2, ∀ y < 2, ent Q x y = vec [1 - p, p] x * ent W x y) :
    entropyVals (Real.logb 2) [p, 1 - p] - entropyVals (Real.logb 2) [D, 1 - D]
        + Real.logb 2 ((1 - D) / D) * D
      ≤ jointMI (Real.logb 2) Q
        + Real.logb 2 ((1 - D) / D) * expDistortion Q (hammingMatrix 2) :=
  bern_dual p D hp0 hp1 hD0 hD1 W Q hW hQ hQe

/-- **`R(D) = H₂(p) − H₂(D)`** for `0 < p ≤ 1/2`, `0 < D ≤ p`, `D < 1/2`: the textbook test
channel is a channel, meets distortion `D` at rate `H₂(p) − H₂(D)`, and every test channel whose
distortion is at most `D` has rate at least `H₂(p) − H₂(D)`. -/
theorem bernoulli_hamming_rd (p D : ℝ) (hp0 : 0 < p) (hp : p ≤ 1 / 2) (hD0 : 0 < D) (hD : D ≤ p)
    (hD2 : D < 1 / 2) :
    IsChannel (bernTest p D) 2 2
    ∧ jointMI (Real.logb 2) (jointOf [1 - p, p] (bernTest p D))
        = entropyVals (Real.logb 2) [p, 1 - p] - entropyVals (Real.logb 2) [D, 1 - D]
    ∧ expDistortion (jointOf [1 - p, p] (bernTest p D)) (hammingMatrix 2) = D
    ∧ ∀ W Q : List (List ℝ), IsChannel W 2 2 → IsMat Q 2 2 →
        (∀ x < 2, ∀ y < 2, ent Q x y = vec [1 - p, p] x * ent W x y) →
        expDistortion Q (hammingMatrix 2) ≤ D →
        entropyVals (Real.logb 2) [p, 1 - p] - entropyVals (Real.logb 2) [D, 1 - D]
          ≤ jointMI (Real.logb 2) Q := by
  have hach := bern_achieves p D hp0 (by linarith) hD0 hD2
  refine ⟨bernTest_isChannel p D hp0 hp hD0 hD hD2, hach.1, hach.2, ?_⟩
  intro W Q hW hQ hQe hdist
  have h := bern_dual p D hp0 (by linarith) hD0 (by linarith) W Q hW hQ hQe
  have hβ : 0 ≤ Real.logb 2 ((1 - D) / D) := by
    apply Real.logb_nonneg (by norm_num)
    rw [le_div_iff₀ hD0]; linarith
  have := mul_le_mul_of_nonneg_left hdist hβ
  linarith

/-- Non-vacuity: `p = 1/2`, `D = 1/4` satisfy the hypotheses; the test channel is then BSC(1/4)
with uniform output. -/
example : (0 : ℝ) < 1 / 2 ∧ (1 : ℝ) / 2 ≤ 1 / 2 ∧ (0 : ℝ) < 1 / 4 ∧ (1 : ℝ) / 4 ≤ 1 / 2
    ∧ (1 : ℝ) / 4 < 1 / 2 := by norm_num
example : bernTest (1 / 2) (1 / 4) = bsc (1 / 4) := by
  simp only [bernTest, bsc]; norm_num

end Dit.Props.C13
