/-
C09 — Any history of mutations tracks a plain probability-table model.

The implementation model is the list-based state machine `Dit.Dist.step` (Core/Dist.lean:
insertion followed by re-sorting by sample-space index, filtering, mapping).  The
specification machine is `specStep` on `Spec` (Lemmas/Machine.lean): a sample space, a
*function* from outcomes to optional stored values, the sparse flag and the base tag, with
one-line transitions.  `abs d = ⟨d.space, lookup? d.tab, d.sparse, d.base⟩` forgets the list.
`WF d` is the representation invariant (stored keys = stored members of the sample space in
sample-space order; a dense state stores every member).

Theorems: one step refines (`step_refines`) and keeps the invariant (`wf_step`); hence whole
histories do (`history_refines`, `wf_history`), and every observable of the implementation
state equals the observable of the specification state (`history_observables`); illegal
operations are no-ops raising `InvalidOutcome` (`illegal_noop`); the sample space never
changes (`space_const`, `space_const_history`); `get` after `set`/`del` (`set_get`,
`del_get`); dense/sparse round trips (`dense_roundtrip`); copies (`copy_obs`,
`copy_independent`); the constructor establishes the invariant (`construct_wf`).
Helper lemmas: Lemmas/Machine.lean.
-/
import DitModel.Lemmas.Machine
import Mathlib.Algebra.Field.Defs
import Mathlib.Tactic.SplitIfs
import Mathlib.Algebra.Field.Rat

set_option linter.unusedSectionVars false

namespace Dit.Props.C09
open Dit Dit.Lemmas.Machine

variable {σ α : Type} [DecidableEq σ] [Field α]

/-- **One step refines.** For a well-formed state and every operation (legal or not), the
abstraction of the implementation's next state is the specification's next state, and the
outputs (ok / `InvalidOutcome` / the total returned by `normalize`) are equal. -/
theorem step_refines (cfg : NumCfg α) {d : Dist σ α} (h : WF d) (op : Op σ α) :
    abs (d.step cfg op).1 = (specStep cfg (abs d) op).1 ∧
      (d.step cfg op).2 = (specStep cfg (abs d) op).2 := by
  obtain ⟨s, hs, rfl⟩ := h.exists_conc
  rw [abs_conc hs, step_conc cfg hs op]
  exact ⟨abs_conc (ok_specStep cfg hs op), rfl⟩

/-- **One step keeps the invariant**: stored outcomes stay duplicate-free members of the
sample space in sample-space order (an inserted outcome is re-sorted to its place), and a
dense state keeps storing every member. -/
theorem wf_step (cfg : NumCfg α) {d : Dist σ α} (h : WF d) (op : Op σ α) :
    WF (d.step cfg op).1 := by
  obtain ⟨s, hs, rfl⟩ := h.exists_conc
  rw [step_conc cfg hs op]
  exact wf_conc (ok_specStep cfg hs op)

/-- **Histories keep the invariant.** -/
theorem wf_history (cfg : NumCfg α) {d : Dist σ α} (h : WF d) (ops : List (Op σ α)) :
    WF (ops.foldl (fun s o => (s.step cfg o).1) d) := by
  induction ops generalizing d with
  | nil => exact h
  | cons o os ih => exact ih (wf_step cfg h o)

/-- **Histories refine.** After any sequence of item assignments, deletions, `make_dense`,
`make_sparse`, `normalize`, `set_base` and `copy`, the abstraction of the implementation
state is the state of the plain table model put through the same operations, and the two
runs produced the same list of outputs. (`run` collects the outputs; its state component is
the `foldl`, see `Dit.Lemmas.Machine.run_fst`.) -/
theorem history_refines (cfg : NumCfg α) {d : Dist σ α} (h : WF d) (ops : List (Op σ α)) :
    abs (ops.foldl (fun s o => (s.step cfg o).1) d)
        = ops.foldl (fun s o => (specStep cfg s o).1) (abs d) ∧
      (run (Dist.step cfg) d ops).2 = (run (specStep cfg) (abs d) ops).2 := by
  induction ops generalizing d with
  | nil => exact ⟨rfl, rfl⟩
  | cons o os ih =>
    obtain ⟨h1, h2⟩ := step_refines cfg h o
    obtain ⟨i1, i2⟩ := ih (wf_step cfg h o)
    refine ⟨?_, ?_⟩
    · show abs (os.foldl _ (d.step cfg o).1) = os.foldl _ (specStep cfg (abs d) o).1
      rw [i1, h1]
    · show (d.step cfg o).2 :: (run (Dist.step cfg) (d.step cfg o).1 os).2
        = (specStep cfg (abs d) o).2 :: (run (specStep cfg) (specStep cfg (abs d) o).1 os).2
      rw [i2, h1, h2]

/-- **Observable state.** In every state reachable from a well-formed one, each observable of
the implementation — lookups over the whole sample space (`none` = `InvalidOutcome`), stored
outcomes and their order, the pmf, length, membership, the sparse flag, the base, the sample
space and the verdict of `validate()` — equals the observable computed from the state of the
plain table model after the same history. -/
theorem history_observables (cfg : NumCfg α) {d : Dist σ α} (h : WF d) (ops : List (Op σ α)) :
    let d' := ops.foldl (fun s o => (s.step cfg o).1) d
    let s' := ops.foldl (fun s o => (specStep cfg s o).1) (abs d)
    (∀ o, d'.get o = s'.get o) ∧ keys d'.tab = s'.outcomes ∧ vals d'.tab = s'.pmf ∧
      d'.tab.length = s'.length ∧ (∀ o, (keys d'.tab).contains o = s'.has o) ∧
      d'.sparse = s'.sparse ∧ d'.base = s'.base ∧ d'.space = s'.space ∧
      d'.validate cfg = s'.validate cfg := by
  intro d' s'
  have hw : WF d' := wf_history cfg h ops
  have he : abs d' = s' := (history_refines cfg h ops).1
  rw [← he]
  exact ⟨fun o => get_abs d' o, outcomes_abs hw, pmf_abs hw, length_abs hw,
    fun o => has_abs d' o, rfl, rfl, rfl, validate_abs cfg hw⟩

/-- **Illegal operations.** Assigning to or deleting an outcome outside the sample space
returns `InvalidOutcome` and leaves the state unchanged (equality of whole states; no
invariant needed). -/
theorem illegal_noop (cfg : NumCfg α) (d : Dist σ α) (o : List σ) (v : α)
    (ho : d.space.mem o = false) :
    d.step cfg (.set o v) = (d, .err .invalidOutcome) ∧
      d.step cfg (.del o) = (d, .err .invalidOutcome) := by
  simp [Dist.step, ho]

/-- **The sample space never changes** in one step — hence neither do the alphabets, the
outcome length and the sample-space enumeration, which are functions of it. -/
theorem space_const (cfg : NumCfg α) (d : Dist σ α) (op : Op σ α) :
    (d.step cfg op).1.space = d.space := by
  cases op with
  | set o v =>
    cases ho : d.space.mem o with
    | false => simp [Dist.step, ho]
    | true =>
      simp only [Dist.step, ho, if_true, Dist.setIn]
      cases lookup? d.tab o <;> rfl
  | del o =>
    cases ho : d.space.mem o with
    | false => simp [Dist.step, ho]
    | true =>
      simp only [Dist.step, ho, if_true, Dist.delIn]
      cases d.sparse <;> rfl
  | makeDense => rfl
  | makeSparse t => rfl
  | normalize => rfl
  | setBase b => rfl
  | copy => rfl

/-- **The sample space never changes** along any history (with it `Space.toList`,
`Space.alphabets` and the outcome length). -/
theorem space_const_history (cfg : NumCfg α) (d : Dist σ α) (ops : List (Op σ α)) :
    (ops.foldl (fun s o => (s.step cfg o).1) d).space = d.space := by
  induction ops generalizing d with
  | nil => rfl
  | cons o os ih => exact (ih _).trans (space_const cfg d o)

/-- **Lookup after assignment.** After `d[o] = v` (with `o` in the sample space) the touched
outcome reads `v` and every other outcome reads what it read before. -/
theorem set_get (cfg : NumCfg α) {d : Dist σ α} (h : WF d) (o : List σ) (v : α)
    (ho : d.space.mem o = true) (o' : List σ) :
    (d.step cfg (.set o v)).1.get o' = if o' = o then some v else d.get o' := by
  have ho2 : (abs d).space.mem o = true := ho
  rw [get_abs, (step_refines cfg h _).1, get_abs]
  simp only [specStep, ho2, if_true, Spec.get, upd]
  by_cases hk : o' = o
  · subst hk; simp [ho2]
  · simp [hk]

/-- **Lookup after deletion.** After `del d[o]` (with `o` in the sample space) the touched
outcome reads the null value — the row is removed (sparse) or zeroed (dense) — and every other
outcome reads what it read before. -/
theorem del_get (cfg : NumCfg α) {d : Dist σ α} (h : WF d) (o : List σ)
    (ho : d.space.mem o = true) (o' : List σ) :
    (d.step cfg (.del o)).1.get o' = if o' = o then some 0 else d.get o' := by
  have ho2 : (abs d).space.mem o = true := ho
  rw [get_abs, (step_refines cfg h _).1, get_abs]
  simp only [specStep, ho2, if_true, Spec.get, upd]
  by_cases hk : o' = o
  · subst hk
    cases (abs d).sparse <;> simp [ho2]
  · simp [hk]

/-- **Dense / sparse round trips.** `make_dense` followed by `make_sparse(trim=False)` keeps
every lookup; `make_sparse(trim=True)` followed by `make_dense` keeps every lookup except that
stored null values read as `0`. -/
theorem dense_roundtrip (cfg : NumCfg α) {d : Dist σ α} (h : WF d) (o : List σ) :
    ((d.step cfg .makeDense).1.step cfg (.makeSparse false)).1.get o = d.get o ∧
      ((d.step cfg (.makeSparse true)).1.step cfg .makeDense).1.get o
        = (d.get o).map (fun v => if cfg.isNull d.base v then 0 else v) := by
  constructor
  · rw [get_abs, (step_refines cfg (wf_step cfg h _) _).1, (step_refines cfg h _).1, get_abs]
    simp only [specStep, Spec.get]
    by_cases hm : (abs d).space.mem o = true <;> simp [hm]
  · rw [get_abs, (step_refines cfg (wf_step cfg h _) _).1, (step_refines cfg h _).1, get_abs]
    have hb : (abs d).base = d.base := rfl
    simp only [specStep, Spec.get, if_true, hb]
    cases hm : (abs d).space.mem o with
    | false => simp
    | true =>
      cases hst : (abs d).stored o with
      | none => simp
      | some w => cases hn : cfg.isNull d.base w <;> simp [Option.filter_some, hn]

/-- **A copy is observationally identical to its source**: it is an equal value. -/
theorem copy_obs (cfg : NumCfg α) (d : Dist σ α) : d.step cfg .copy = (d, .ok) := rfl

/-- **Copies are independent.** In this functional model states are values, so the clause is
immediate: the copy `c` is an equal value, any history run on `c` is a function of `c` alone
and produces exactly what the same history would produce on `d`, and `d` itself is not an
argument that could change. The force of this clause (no aliasing of the outcome list, pmf
array or index dict between a distribution and its copy) comes from the differential test
of the real code against this model, not from this theorem. -/
theorem copy_independent (cfg : NumCfg α) (d : Dist σ α) (ops : List (Op σ α)) :
    (d.step cfg .copy).1 = d ∧
      run (Dist.step cfg) (d.step cfg .copy).1 ops = run (Dist.step cfg) d ops :=
  ⟨rfl, rfl⟩

/-- **The constructor establishes the invariant.** Every distribution returned by
`construct` (sort=True, validate=True) is well formed, provided the given outcomes are
duplicate-free and the sample-space argument has a duplicate-free enumeration: a given list
or `SampleSpace` has no repeated outcome, the alphabets of a given `CartesianProduct` have no
repeated symbol (nothing is needed when the sample space is derived from the outcomes). The
hypotheses are needed because the model's sample space is a list and `Space.rank` is the
index of the first occurrence. -/
theorem construct_wf (cfg : NumCfg α) (symLt : σ → σ → Bool) (outLt : List σ → List σ → Bool)
    (outs : List (List σ)) (pmf : List α) (sp : SpaceArg σ) (base : Base) (sparse trim : Bool)
    (d : Dist σ α) (houts : outs.Nodup)
    (hsp : match sp with
      | .none => True
      | .list l => l.Nodup
      | .sampleSpace l => l.Nodup
      | .cartesian as => ∀ a ∈ as, a.Nodup)
    (h : construct cfg symLt outLt outs pmf sp base sparse trim = .ok d) : WF d := by
  have fin : ∀ D : Dist σ α,
      (match D.validate cfg with
        | some e => Except.error e
        | none => Except.ok D) = Except.ok d → d = D := by
    intro D hD
    split at hD
    · cases hD
    · cases hD; rfl
  have core : ∀ space : Space σ, space.WF → ¬ (!outs.all space.mem) = true →
      WF (if sparse then
            (Dist.mk space (sortBy space.rank (outs.zip pmf)) sparse base).makeSparse cfg trim
          else (Dist.mk space (sortBy space.rank (outs.zip pmf)) sparse base).makeDense) := by
    intro space hW hall
    have hmem := List.all_eq_true.mp (by simpa using hall)
    exact wf_construct_core cfg space hW outs pmf houts
      (fun o ho => (mem_iff _ _).mp (hmem o ho)) base sparse trim
  cases sp with
  | none =>
    have hW : (Space.cart ((alphabetsOf outs).map (isort symLt))).WF := by
      refine cartesian_nodup _ (fun a ha => ?_)
      obtain ⟨b, hb, rfl⟩ := List.mem_map.mp ha
      exact isort_nodup _ (alphabetsOf_nodup outs b hb)
    simp only [construct] at h
    split_ifs at h
    all_goals
      rw [fin _ h]
      have := core _ hW (by assumption)
      first
        | rwa [if_pos (by assumption)] at this
        | rwa [if_neg (by assumption)] at this
  | list l =>
    have hW : (Space.expl l).WF := hsp
    simp only [construct] at h
    split_ifs at h
    all_goals
      rw [fin _ h]
      have := core _ hW (by assumption)
      first
        | rwa [if_pos (by assumption)] at this
        | rwa [if_neg (by assumption)] at this
  | sampleSpace l =>
    have hW : (Space.expl (isort outLt l)).WF := isort_nodup _ hsp
    simp only [construct] at h
    split_ifs at h
    all_goals
      rw [fin _ h]
      have := core _ hW (by assumption)
      first
        | rwa [if_pos (by assumption)] at this
        | rwa [if_neg (by assumption)] at this
  | cartesian as =>
    have hW : (Space.cart (as.map (isort symLt))).WF := by
      refine cartesian_nodup _ (fun a ha => ?_)
      obtain ⟨b, hb, rfl⟩ := List.mem_map.mp ha
      exact isort_nodup _ (hsp b hb)
    simp only [construct] at h
    split_ifs at h
    all_goals
      rw [fin _ h]
      have := core _ hW (by assumption)
      first
        | rwa [if_pos (by assumption)] at this
        | rwa [if_neg (by assumption)] at this

/-! ### Non-vacuity -/

/-- The hypothesis `WF` is satisfiable by a non-trivial state. -/
example : WF exDist :=
  ⟨by unfold Space.WF; decide +kernel, by decide +kernel, by decide +kernel⟩

/-- The theorems, stated over a field, apply to the very machine the driver runs at `Rat`
(the `Field Rat` instance projects to the core `Add`/`Zero`/`Mul`/`Inv` instances). -/
example (ops : List (Op Nat Rat)) :
    WF (ops.foldl (fun s o => (s.step exCfg o).1) exDist) :=
  wf_history exCfg ⟨by unfold Space.WF; decide +kernel, by decide +kernel, by decide +kernel⟩ ops

/-- Delete the middle outcome, then assign it again: the implementation appends the row and
re-sorts, so that it lands in the middle again. -/
example :
    keys ([Op.del [0, 1], Op.set [0, 1] (1 / 8)].foldl (fun s o => (s.step exCfg o).1) exDist).tab
      = [[0, 0], [0, 1], [1, 1]] := by decide +kernel

example :
    ([Op.del [0, 1], Op.set [1, 0] (1 / 8), Op.set [0, 1] (1 / 8)].foldl
      (fun s o => (s.step exCfg o).1) exDist).tab
      = [([0, 0], 1 / 4), ([0, 1], 1 / 8), ([1, 0], 1 / 8), ([1, 1], 1 / 2)] := by decide +kernel

/-- An illegal assignment (hypothesis of `illegal_noop`) and a legal one (`set_get`). -/
example : exDist.space.mem [2, 0] = false ∧ exDist.space.mem [1, 0] = true := by decide +kernel

/-- The outputs of a history: ok, an error (`InvalidOutcome`), and the total returned by
`normalize`; implementation and specification agree on it, as `history_refines` says. -/
example :
    (run (specStep exCfg) (abs exDist) [Op.del [0, 1], Op.set [2, 0] 1, Op.normalize]).2.map outCode
      = [(0, 0), (1, 0), (2, 3 / 4)] ∧
    (run (Dist.step exCfg) exDist [Op.del [0, 1], Op.set [2, 0] 1, Op.normalize]).2.map outCode
      = [(0, 0), (1, 0), (2, 3 / 4)] := by decide +kernel

/-- The hypotheses of `construct_wf` are satisfiable and the constructor succeeds. -/
example :
    (construct exCfg (fun a b => decide (a < b)) lexLt [[1, 1], [0, 0]] [(1 : Rat) / 2, 1 / 2]
      (SpaceArg.none) Base.linear true true).toOption.map (fun d => keys d.tab)
      = some [[0, 0], [1, 1]] := by decide +kernel

end Dit.Props.C09
