/-
Helper lemmas for the binning clause of C19 (`dit.inference.binning`): `uniformBin` of
Core/Examples.lean and `sortAsc`, `quantileSorted`, `maxentThresholds`, `maxentLoop`,
`maxentBinning`, `countLE` of Core/Binning.lean.
Property theorems: Props/C19Binning.lean.
-/
import DitModel.Core.Examples
import DitModel.Core.Binning
import Mathlib.Algebra.Order.Field.Basic
import Mathlib.Data.Nat.Cast.Order.Field
import Mathlib.Tactic.Ring
import Mathlib.Tactic.Linarith
import Mathlib.Tactic.Positivity

set_option linter.unusedSectionVars false

namespace Dit.Lemmas.Binning
open Dit

/-! ## Folds that remember the last index satisfying a predicate -/

section LastIdx

/-- The fold `best := k if P k` over `0..n-1`: either no index satisfies `P` and the start
value is returned, or the largest index satisfying `P`. -/
theorem foldl_last_spec (P : Nat → Prop) [DecidablePred P] (b0 n : Nat) :
    ((List.range n).foldl (fun best k => if P k then k else best) b0 = b0 ∧ ∀ k, k < n → ¬ P k)
      ∨ ((List.range n).foldl (fun best k => if P k then k else best) b0 < n
          ∧ P ((List.range n).foldl (fun best k => if P k then k else best) b0)
          ∧ ∀ k, (List.range n).foldl (fun best k => if P k then k else best) b0 < k → k < n
              → ¬ P k) := by
  induction n with
  | zero => left; simp
  | succ n ih =>
    rw [List.range_succ, List.foldl_append, List.foldl_cons, List.foldl_nil]
    by_cases hP : P n
    · right
      rw [if_pos hP]
      exact ⟨Nat.lt_succ_self n, hP, fun k h1 h2 => by omega⟩
    · rw [if_neg hP]
      rcases ih with ⟨h1, h2⟩ | ⟨h1, h2, h3⟩
      · left
        refine ⟨h1, fun k hk => ?_⟩
        rcases Nat.lt_succ_iff_lt_or_eq.mp hk with hk | hk
        · exact h2 k hk
        · subst hk; exact hP
      · right
        refine ⟨Nat.lt_succ_of_lt h1, h2, fun k hk1 hk2 => ?_⟩
        rcases Nat.lt_succ_iff_lt_or_eq.mp hk2 with hk | hk
        · exact h3 k hk1 hk
        · subst hk; exact hP

/-- The `Option`-valued variant started from `none`. -/
theorem foldl_lastOpt_spec (P : Nat → Prop) [DecidablePred P] (n : Nat) :
    ((List.range n).foldl (fun lab k => if P k then some k else lab) none = none
        ∧ ∀ k, k < n → ¬ P k)
      ∨ ∃ r, (List.range n).foldl (fun lab k => if P k then some k else lab) none = some r
          ∧ r < n ∧ P r ∧ ∀ k, r < k → k < n → ¬ P k := by
  induction n with
  | zero => left; simp
  | succ n ih =>
    rw [List.range_succ, List.foldl_append, List.foldl_cons, List.foldl_nil]
    by_cases hP : P n
    · right
      rw [if_pos hP]
      exact ⟨n, rfl, Nat.lt_succ_self n, hP, fun k h1 h2 => by omega⟩
    · rw [if_neg hP]
      rcases ih with ⟨h1, h2⟩ | ⟨r, h1, hr, h2, h3⟩
      · left
        refine ⟨h1, fun k hk => ?_⟩
        rcases Nat.lt_succ_iff_lt_or_eq.mp hk with hk | hk
        · exact h2 k hk
        · subst hk; exact hP
      · right
        refine ⟨r, h1, Nat.lt_succ_of_lt hr, h2, fun k hk1 hk2 => ?_⟩
        rcases Nat.lt_succ_iff_lt_or_eq.mp hk2 with hk | hk
        · exact h3 k hk1 hk
        · subst hk; exact hP

end LastIdx

/-! ## `uniformBin` -/

section Uniform
variable {α : Type} [Field α] [LinearOrder α] [IsStrictOrderedRing α]

/-- The predicate tested by `uniformBin`. -/
theorem uniformBin_eq (bins : Nat) (lo range eps x : α) :
    uniformBin (Nat.cast : Nat → α) bins lo range eps x
      = (List.range bins).foldl
          (fun (best k : Nat) => if (k : α) * (range + eps) ≤ (bins : α) * (x - lo) then k else best)
          (0 : Nat) :=
  rfl

theorem uniformBin_lt {bins : Nat} (hb : 0 < bins) (lo range eps x : α) :
    uniformBin (Nat.cast : Nat → α) bins lo range eps x < bins := by
  rw [uniformBin_eq]
  rcases foldl_last_spec (fun k : Nat => (k : α) * (range + eps) ≤ (bins : α) * (x - lo)) 0 bins
    with ⟨h1, _⟩ | ⟨h1, _⟩
  · rw [h1]; exact hb
  · exact h1

/-- If some `k < bins` passes the test, the label is the largest such `k`. -/
theorem uniformBin_last (bins : Nat) (lo range eps x : α) (k : Nat) (hk : k < bins)
    (hP : (k : α) * (range + eps) ≤ (bins : α) * (x - lo)) :
    k ≤ uniformBin (Nat.cast : Nat → α) bins lo range eps x
      ∧ (uniformBin (Nat.cast : Nat → α) bins lo range eps x : α) * (range + eps)
          ≤ (bins : α) * (x - lo)
      ∧ ∀ j, uniformBin (Nat.cast : Nat → α) bins lo range eps x < j → j < bins →
          (bins : α) * (x - lo) < (j : α) * (range + eps) := by
  rw [uniformBin_eq]
  rcases foldl_last_spec (fun k : Nat => (k : α) * (range + eps) ≤ (bins : α) * (x - lo)) 0 bins
    with ⟨_, h2⟩ | ⟨_, h2, h3⟩
  · exact absurd hP (h2 k hk)
  · refine ⟨?_, h2, fun j hj1 hj2 => not_le.mp (h3 j hj1 hj2)⟩
    by_contra hlt
    exact h3 k (not_le.mp hlt) hk hP

/-- If no `k < bins` passes the test the label is `0`. -/
theorem uniformBin_none (bins : Nat) (lo range eps x : α)
    (h : ∀ k, k < bins → ¬ (k : α) * (range + eps) ≤ (bins : α) * (x - lo)) :
    uniformBin (Nat.cast : Nat → α) bins lo range eps x = 0 := by
  rw [uniformBin_eq]
  rcases foldl_last_spec (fun k : Nat => (k : α) * (range + eps) ≤ (bins : α) * (x - lo)) 0 bins
    with ⟨h1, _⟩ | ⟨h1, h2, _⟩
  · exact h1
  · exact absurd h2 (h _ h1)

/-- Monotone in the sample, with no hypothesis at all. -/
theorem uniformBin_mono (bins : Nat) (lo range eps : α) {x y : α} (hxy : x ≤ y) :
    uniformBin (Nat.cast : Nat → α) bins lo range eps x
      ≤ uniformBin (Nat.cast : Nat → α) bins lo range eps y := by
  by_cases h : ∃ k, k < bins ∧ (k : α) * (range + eps) ≤ (bins : α) * (x - lo)
  · obtain ⟨k, hk, hP⟩ := h
    obtain ⟨_, hPx, _⟩ := uniformBin_last bins lo range eps x k hk hP
    have hb : 0 < bins := by omega
    have hlt := uniformBin_lt hb lo range eps x
    have hB : (bins : α) * (x - lo) ≤ (bins : α) * (y - lo) :=
      mul_le_mul_of_nonneg_left (by linarith) (Nat.cast_nonneg _)
    exact (uniformBin_last bins lo range eps y _ hlt (le_trans hPx hB)).1
  · rw [uniformBin_none bins lo range eps x (fun k hk hP => h ⟨k, hk, hP⟩)]
    exact Nat.zero_le _

/-- Floor characterisation. -/
theorem uniformBin_spec {bins : Nat} (hb : 0 < bins) {lo range eps x : α} (hw : 0 < range + eps)
    (hlo : lo ≤ x) (hhi : (bins : α) * (x - lo) < (bins : α) * (range + eps)) (k : Nat) :
    k = uniformBin (Nat.cast : Nat → α) bins lo range eps x
      ↔ (k : α) * (range + eps) ≤ (bins : α) * (x - lo)
          ∧ (bins : α) * (x - lo) < ((k : α) + 1) * (range + eps) := by
  have h0 : ((0 : Nat) : α) * (range + eps) ≤ (bins : α) * (x - lo) := by
    rw [Nat.cast_zero, zero_mul]
    exact mul_nonneg (Nat.cast_nonneg _) (by linarith)
  obtain ⟨_, hP, hnext⟩ := uniformBin_last bins lo range eps x 0 hb h0
  have hlt := uniformBin_lt hb lo range eps x
  set r := uniformBin (Nat.cast : Nat → α) bins lo range eps x with hr
  -- the upper bound for `r`
  have hup : (bins : α) * (x - lo) < ((r : α) + 1) * (range + eps) := by
    by_cases hlast : r + 1 < bins
    · have := hnext (r + 1) (Nat.lt_succ_self r) hlast
      rwa [Nat.cast_add, Nat.cast_one] at this
    · have : r + 1 = bins := by omega
      have hc : ((r : α) + 1) = (bins : α) := by rw [← this]; push_cast; ring
      rw [hc]; exact hhi
  constructor
  · rintro rfl; exact ⟨hP, hup⟩
  · rintro ⟨h1, h2⟩
    -- two floors of the same number agree
    have a1 : (k : α) * (range + eps) < ((r : α) + 1) * (range + eps) := lt_of_le_of_lt h1 hup
    have a2 : (r : α) * (range + eps) < ((k : α) + 1) * (range + eps) := lt_of_le_of_lt hP h2
    have b1 : (k : α) < (r : α) + 1 := lt_of_mul_lt_mul_right a1 hw.le
    have b2 : (r : α) < (k : α) + 1 := lt_of_mul_lt_mul_right a2 hw.le
    have c1 : k < r + 1 := by exact_mod_cast b1
    have c2 : r < k + 1 := by exact_mod_cast b2
    omega

/-- The minimum lands in bin `0`. -/
theorem uniformBin_min (bins : Nat) {lo range eps : α} (hw : 0 < range + eps) :
    uniformBin (Nat.cast : Nat → α) bins lo range eps lo = 0 := by
  rcases Nat.eq_zero_or_pos bins with hb | hb
  · subst hb; rfl
  · have hlt := uniformBin_lt hb lo range eps lo
    have h0 : ((0 : Nat) : α) * (range + eps) ≤ (bins : α) * (lo - lo) := by simp
    obtain ⟨_, hP, _⟩ := uniformBin_last bins lo range eps lo 0 hb h0
    rw [sub_self, mul_zero] at hP
    by_contra hne
    have hpos : (0 : α) < (uniformBin (Nat.cast : Nat → α) bins lo range eps lo : α) := by
      exact_mod_cast Nat.pos_of_ne_zero hne
    have := mul_pos hpos hw
    linarith

/-- The maximum lands in bin `bins − 1` as long as the slack is small: `(bins−1)·eps ≤ range`. -/
theorem uniformBin_max {bins : Nat} (hb : 0 < bins) {lo range eps : α}
    (he : ((bins : α) - 1) * eps ≤ range) :
    uniformBin (Nat.cast : Nat → α) bins lo range eps (lo + range) = bins - 1 := by
  have hlt := uniformBin_lt hb lo range eps (lo + range)
  have hc : ((bins - 1 : Nat) : α) = (bins : α) - 1 := by
    rw [Nat.cast_sub hb, Nat.cast_one]
  have hP : ((bins - 1 : Nat) : α) * (range + eps) ≤ (bins : α) * (lo + range - lo) := by
    rw [hc]
    have : (bins : α) * (lo + range - lo) - ((bins : α) - 1) * (range + eps)
        = range - ((bins : α) - 1) * eps := by ring
    linarith
  have := (uniformBin_last bins lo range eps (lo + range) (bins - 1) (by omega) hP).1
  omega

/-- Interval form of the floor characterisation: bin `k` is `[lo + k·w, lo + (k+1)·w)` with the
common width `w = (range + eps)/bins`. -/
theorem uniformBin_interval {bins : Nat} (hb : 0 < bins) {lo range eps x : α}
    (hw : 0 < range + eps) (hlo : lo ≤ x) (hhi : x < lo + (range + eps)) (k : Nat) :
    k = uniformBin (Nat.cast : Nat → α) bins lo range eps x
      ↔ lo + (k : α) * ((range + eps) / (bins : α)) ≤ x
          ∧ x < lo + ((k : α) + 1) * ((range + eps) / (bins : α)) := by
  have hbpos : (0 : α) < (bins : α) := by exact_mod_cast hb
  have hhi' : (bins : α) * (x - lo) < (bins : α) * (range + eps) :=
    mul_lt_mul_of_pos_left (by linarith) hbpos
  rw [uniformBin_spec hb hw hlo hhi' k]
  have hW : range + eps = (bins : α) * ((range + eps) / (bins : α)) := by
    rw [mul_div_cancel₀ _ hbpos.ne']
  set w := (range + eps) / (bins : α)
  rw [hW]
  have e1 : (k : α) * ((bins : α) * w) = (bins : α) * ((k : α) * w) := by ring
  have e2 : ((k : α) + 1) * ((bins : α) * w) = (bins : α) * (((k : α) + 1) * w) := by ring
  rw [e1, e2]
  constructor
  · rintro ⟨h1, h2⟩
    have := le_of_mul_le_mul_left h1 hbpos
    have := lt_of_mul_lt_mul_left h2 hbpos.le
    constructor <;> linarith
  · rintro ⟨h1, h2⟩
    exact ⟨mul_le_mul_of_nonneg_left (by linarith) hbpos.le,
      mul_lt_mul_of_pos_left (by linarith) hbpos⟩

end Uniform

/-! ## `maxentLoop` and `countLE` -/

section Loop
variable {α : Type} [Field α] [LinearOrder α] [IsStrictOrderedRing α]

/-- The test of the `i`-th pass of the loop. -/
def hit (ths : List α) (bins : Nat) (x : α) (i : Nat) : Prop :=
  (i = 0 ∨ ths.getD i 0 ≤ x) ∧ (i + 1 = bins ∨ x < ths.getD (i + 1) 0)

instance (ths : List α) (bins : Nat) (x : α) : DecidablePred (hit ths bins x) := fun i => by
  unfold hit; infer_instance

theorem maxentLoop_eq (ths : List α) (bins : Nat) (x : α) :
    maxentLoop ths bins x
      = (List.range bins).foldl (fun lab i => if hit ths bins x i then some i else lab) none := by
  unfold maxentLoop hit
  congr 1

/-- Some pass of the loop fires, whatever the thresholds are: walk up from `i = 0` (whose lower
test is void) while the upper test fails; failing the upper test of pass `i` is passing the lower
test of pass `i + 1`, and the upper test of the last pass is void. -/
theorem exists_hit (ths : List α) {bins : Nat} (hb : 0 < bins) (x : α) :
    ∃ i, i < bins ∧ hit ths bins x i := by
  by_contra hno
  have key : ∀ m, m < bins → (m = 0 ∨ ths.getD m 0 ≤ x) := by
    intro m
    induction m with
    | zero => intro _; exact Or.inl rfl
    | succ m ih =>
      intro hm
      have hlow := ih (by omega)
      right
      by_contra hlt
      exact hno ⟨m, by omega, hlow, Or.inr (not_le.mp hlt)⟩
  exact hno ⟨bins - 1, by omega, key (bins - 1) (by omega), Or.inl (by omega)⟩

theorem maxentLoop_some (ths : List α) {bins : Nat} (hb : 0 < bins) (x : α) :
    ∃ r, maxentLoop ths bins x = some r ∧ r < bins ∧ hit ths bins x r
      ∧ ∀ k, r < k → k < bins → ¬ hit ths bins x k := by
  rw [maxentLoop_eq]
  rcases foldl_lastOpt_spec (hit ths bins x) bins with ⟨_, h2⟩ | h
  · obtain ⟨i, hi, hh⟩ := exists_hit ths hb x
    exact absurd hh (h2 i hi)
  · exact h

theorem maxentLoop_isSome (ths : List α) {bins : Nat} (hb : 0 < bins) (x : α) :
    (maxentLoop ths bins x).isSome = true := by
  obtain ⟨r, h, _⟩ := maxentLoop_some ths hb x
  rw [h]; rfl

/-- A label, if any, is below `bins` (no hypothesis). -/
theorem maxentLoop_lt (ths : List α) (bins : Nat) (x : α) (k : Nat)
    (h : maxentLoop ths bins x = some k) : k < bins := by
  rw [maxentLoop_eq] at h
  rcases foldl_lastOpt_spec (hit ths bins x) bins with ⟨h1, _⟩ | ⟨r, h1, hr, _⟩
  · rw [h1] at h; cases h
  · rw [h1] at h; cases h; exact hr

/-- Counting an initial segment: if `p` is downward closed on the positive indices below `n`, the
number of positive indices below `n` satisfying it is the largest of them. -/
theorem count_downward (p : Nat → Bool) (n : Nat)
    (hd : ∀ i j, 0 < i → i ≤ j → j < n → p j = true → p i = true) :
    ((List.range n).filter (fun i => decide (0 < i) && p i)).length ≤ n - 1
      ∧ ∀ i, 0 < i → i < n →
          (p i = true ↔ i ≤ ((List.range n).filter (fun i => decide (0 < i) && p i)).length) := by
  induction n with
  | zero => simp
  | succ n ih =>
    obtain ⟨ih1, ih2⟩ := ih (fun i j hi hij hj => hd i j hi hij (by omega))
    rw [List.range_succ, List.filter_append, List.length_append]
    set c := ((List.range n).filter (fun i => decide (0 < i) && p i)).length with hc
    by_cases hn : 0 < n ∧ p n = true
    · have hlen : ([n].filter (fun i => decide (0 < i) && p i)).length = 1 := by
        simp [hn.1, hn.2]
      rw [hlen]
      have hall : ∀ i, 0 < i → i < n → i ≤ c := fun i hi hin =>
        (ih2 i hi hin).mp (hd i n hi (by omega) (by omega) hn.2)
      have hcn : c = n - 1 := by
        rcases Nat.lt_or_ge 1 n with h1 | h1
        · have := hall (n - 1) (by omega) (by omega); omega
        · omega
      refine ⟨by omega, fun i hi hin => ?_⟩
      constructor
      · intro _; omega
      · intro _; exact hd i n hi (by omega) (by omega) hn.2
    · have hlen : ([n].filter (fun i => decide (0 < i) && p i)).length = 0 := by
        rcases Nat.eq_zero_or_pos n with h0 | h0
        · subst h0; simp
        · have : p n = false := by
            cases hp : p n
            · rfl
            · exact absurd ⟨h0, hp⟩ hn
          simp [this]
      rw [hlen]
      refine ⟨by omega, fun i hi hin => ?_⟩
      rcases Nat.lt_succ_iff_lt_or_eq.mp hin with hlt | heq
      · simpa using ih2 i hi hlt
      · subst heq
        constructor
        · intro hp; exact absurd ⟨hi, hp⟩ hn
        · intro hle; omega

theorem countLE_lt (ths : List α) {bins : Nat} (hb : 0 < bins) (x : α) :
    countLE ths bins x < bins := by
  unfold countLE
  have h : ∀ n, ((List.range n).filter
      (fun i => decide (0 < i) && decide (ths.getD i 0 ≤ x))).length ≤ n - 1 := by
    intro n
    induction n with
    | zero => simp
    | succ n ih =>
      rw [List.range_succ, List.filter_append, List.length_append]
      rcases Nat.eq_zero_or_pos n with h0 | h0
      · subst h0; simp
      · have : ([n].filter (fun i => decide (0 < i) && decide (ths.getD i 0 ≤ x))).length ≤ 1 := by
          exact le_trans (List.length_filter_le _ _) (by simp)
        omega
  have := h bins
  omega

/-- Monotone in the sample, for arbitrary thresholds. -/
theorem countLE_mono (ths : List α) (bins : Nat) {x y : α} (hxy : x ≤ y) :
    countLE ths bins x ≤ countLE ths bins y := by
  unfold countLE
  rw [← List.countP_eq_length_filter, ← List.countP_eq_length_filter]
  apply List.countP_mono_left
  intro i _ h
  simp only [Bool.and_eq_true, decide_eq_true_eq] at h ⊢
  exact ⟨h.1, le_trans h.2 hxy⟩

/-- With non-decreasing thresholds, interior threshold `i` is `≤ x` exactly when `i ≤ countLE`. -/
theorem countLE_iff (ths : List α) (bins : Nat) (x : α)
    (hs : ∀ i j, i ≤ j → j ≤ bins → ths.getD i 0 ≤ ths.getD j 0) (i : Nat) (hi : 0 < i)
    (hib : i < bins) : ths.getD i 0 ≤ x ↔ i ≤ countLE ths bins x := by
  have := (count_downward (fun i => decide (ths.getD i 0 ≤ x)) bins (by
    intro i j _ hij hj h
    simp only [decide_eq_true_eq] at h ⊢
    exact le_trans (hs i j hij (by omega)) h)).2 i hi hib
  simpa [countLE] using this

/-- With non-decreasing thresholds the loop computes `countLE`. -/
theorem maxentLoop_eq_countLE (ths : List α) {bins : Nat} (hb : 0 < bins) (x : α)
    (hs : ∀ i j, i ≤ j → j ≤ bins → ths.getD i 0 ≤ ths.getD j 0) :
    maxentLoop ths bins x = some (countLE ths bins x) := by
  obtain ⟨r, h, hr, ⟨hlo, hup⟩, _⟩ := maxentLoop_some ths hb x
  rw [h]
  have hc := countLE_lt ths hb x
  congr 1
  -- `r ≤ c` from the lower test, `c ≤ r` from the upper test
  have h1 : r ≤ countLE ths bins x := by
    rcases hlo with h0 | hle
    · omega
    · rcases Nat.eq_zero_or_pos r with h0 | h0
      · omega
      · exact (countLE_iff ths bins x hs r h0 hr).mp hle
  have h2 : countLE ths bins x ≤ r := by
    rcases hup with hlast | hlt
    · omega
    · by_contra hgt
      have hr1 : r + 1 < bins := by omega
      have := (countLE_iff ths bins x hs (r + 1) (by omega) hr1).mpr (by omega)
      exact absurd hlt (not_lt.mpr this)
  omega

end Loop

/-! ## `sortAsc` -/

section SortAsc
variable {α : Type} [Field α] [LinearOrder α] [IsStrictOrderedRing α]

theorem ins_perm {β : Type} (lt : β → β → Bool) (x : β) (l : List β) :
    (isort.ins lt x l).Perm (x :: l) := by
  induction l with
  | nil => exact List.Perm.refl _
  | cons y t ih =>
    unfold isort.ins
    by_cases h : lt y x = true
    · rw [if_pos h]
      exact ((List.Perm.cons y ih).trans (List.Perm.swap x y t))
    · rw [if_neg h]

theorem isort_perm {β : Type} (lt : β → β → Bool) (l : List β) : (isort lt l).Perm l := by
  induction l with
  | nil => exact List.Perm.refl _
  | cons x t ih =>
    unfold isort
    exact (ins_perm lt x _).trans (List.Perm.cons x ih)

theorem sortAsc_perm (ts : List α) : (sortAsc ts).Perm ts := isort_perm _ ts

theorem sortAsc_length (ts : List α) : (sortAsc ts).length = ts.length := (sortAsc_perm ts).length_eq

theorem ins_sorted (x : α) (l : List α) (hl : l.Pairwise (· ≤ ·)) :
    (isort.ins (fun a b : α => decide (a < b)) x l).Pairwise (· ≤ ·) := by
  induction l with
  | nil => unfold isort.ins; exact List.pairwise_singleton _ _
  | cons y t ih =>
    rw [List.pairwise_cons] at hl
    unfold isort.ins
    by_cases h : y < x
    · rw [if_pos (by simpa using h)]
      rw [List.pairwise_cons]
      refine ⟨fun z hz => ?_, ih hl.2⟩
      have := (ins_perm (fun a b : α => decide (a < b)) x t).mem_iff.mp hz
      rcases List.mem_cons.mp this with rfl | hzt
      · exact h.le
      · exact hl.1 z hzt
    · rw [if_neg (by simpa using h)]
      have hxy : x ≤ y := not_lt.mp h
      rw [List.pairwise_cons]
      refine ⟨fun z hz => ?_, List.pairwise_cons.mpr hl⟩
      rcases List.mem_cons.mp hz with rfl | hzt
      · exact hxy
      · exact le_trans hxy (hl.1 z hzt)

theorem sortAsc_sorted (ts : List α) : (sortAsc ts).Pairwise (· ≤ ·) := by
  unfold sortAsc
  induction ts with
  | nil => unfold isort; exact List.Pairwise.nil
  | cons x t ih => unfold isort; exact ins_sorted x _ ih

/-- A strict sort of pairwise distinct samples. -/
theorem sortAsc_strict (ts : List α) (hd : ts.Nodup) : (sortAsc ts).Pairwise (· < ·) := by
  have hs := sortAsc_sorted ts
  have hn : (sortAsc ts).Nodup := (sortAsc_perm ts).nodup_iff.mpr hd
  rw [List.pairwise_iff_getElem] at hs ⊢
  intro i j hi hj hij
  refine lt_of_le_of_ne (hs i j hi hj hij) (fun heq => ?_)
  have := (List.Nodup.getElem_inj_iff hn).mp heq
  omega

theorem getD_lt {a : List α} {i : Nat} (hi : i < a.length) : a.getD i 0 = a[i] := by
  rw [List.getD_eq_getElem?_getD, List.getElem?_eq_getElem hi, Option.getD_some]

theorem sorted_getD_le {a : List α} (hs : a.Pairwise (· ≤ ·)) {i j : Nat} (hij : i ≤ j)
    (hj : j < a.length) : a.getD i 0 ≤ a.getD j 0 := by
  have hi : i < a.length := by omega
  rw [getD_lt hi, getD_lt hj]
  rcases Nat.eq_or_lt_of_le hij with rfl | hlt
  · exact le_refl _
  · exact (List.pairwise_iff_getElem.mp hs) i j hi hj hlt

theorem sorted_head_le {a : List α} (hs : a.Pairwise (· ≤ ·)) :
    ∀ x ∈ a, a.getD 0 0 ≤ x := by
  intro x hx
  obtain ⟨i, hi, rfl⟩ := List.mem_iff_getElem.mp hx
  rw [← getD_lt hi]
  exact sorted_getD_le hs (Nat.zero_le _) hi

theorem sorted_le_last {a : List α} (hs : a.Pairwise (· ≤ ·)) (hne : 0 < a.length) :
    ∀ x ∈ a, x ≤ a.getD (a.length - 1) 0 := by
  intro x hx
  obtain ⟨i, hi, rfl⟩ := List.mem_iff_getElem.mp hx
  rw [← getD_lt hi]
  exact sorted_getD_le hs (by omega) (by omega)

theorem getD_mem {a : List α} {i : Nat} (hi : i < a.length) : a.getD i 0 ∈ a := by
  rw [getD_lt hi]; exact List.getElem_mem hi

end SortAsc

/-! ## `quantileSorted` -/

section Quantile
variable {α : Type} [Field α] [LinearOrder α] [IsStrictOrderedRing α]

theorem quantileSorted_eq (a : List α) (num den : Nat) :
    quantileSorted (Nat.cast : Nat → α) a num den
      = a.getD (num * (a.length - 1) / den) 0
        + (a.getD (min (num * (a.length - 1) / den + 1) (a.length - 1)) 0
            - a.getD (num * (a.length - 1) / den) 0)
          * (((num * (a.length - 1) % den : Nat) : α) / (den : α)) :=
  rfl

theorem frac_nonneg (p den : Nat) : (0 : α) ≤ ((p % den : Nat) : α) / (den : α) :=
  div_nonneg (Nat.cast_nonneg _) (Nat.cast_nonneg _)

theorem frac_lt_one (p : Nat) {den : Nat} (hd : 0 < den) :
    ((p % den : Nat) : α) / (den : α) < 1 := by
  rw [div_lt_one (by exact_mod_cast hd)]
  exact_mod_cast Nat.mod_lt p hd

/-- The lower index is a valid position when `num ≤ den`. -/
theorem lo_le {n num den : Nat} (hnd : num ≤ den) (_hd : 0 < den) : num * (n - 1) / den ≤ n - 1 := by
  apply Nat.div_le_of_le_mul
  exact Nat.mul_le_mul_right _ hnd

theorem quantileSorted_between {a : List α} (hs : a.Pairwise (· ≤ ·)) (hne : 0 < a.length)
    {num den : Nat} (hnd : num ≤ den) (hd : 0 < den) :
    a.getD (num * (a.length - 1) / den) 0 ≤ quantileSorted (Nat.cast : Nat → α) a num den
      ∧ quantileSorted (Nat.cast : Nat → α) a num den
          ≤ a.getD (min (num * (a.length - 1) / den + 1) (a.length - 1)) 0 := by
  rw [quantileSorted_eq]
  have hlo := lo_le (n := a.length) hnd hd
  have hxy : a.getD (num * (a.length - 1) / den) 0
      ≤ a.getD (min (num * (a.length - 1) / den + 1) (a.length - 1)) 0 :=
    sorted_getD_le hs (by omega) (by omega)
  have f0 := frac_nonneg (α := α) (num * (a.length - 1)) den
  have f1 := (frac_lt_one (α := α) (num * (a.length - 1)) hd).le
  set f := ((num * (a.length - 1) % den : Nat) : α) / (den : α)
  set x := a.getD (num * (a.length - 1) / den) 0
  set y := a.getD (min (num * (a.length - 1) / den + 1) (a.length - 1)) 0
  have h1 : 0 ≤ (y - x) * f := mul_nonneg (by linarith) f0
  have h2 : 0 ≤ (y - x) * (1 - f) := mul_nonneg (by linarith) (by linarith)
  constructor
  · linarith
  · nlinarith

theorem quantileSorted_zero (a : List α) (den : Nat) :
    quantileSorted (Nat.cast : Nat → α) a 0 den = a.getD 0 0 := by
  rw [quantileSorted_eq]
  simp

theorem quantileSorted_full (a : List α) {den : Nat} (hd : 0 < den) :
    quantileSorted (Nat.cast : Nat → α) a den den = a.getD (a.length - 1) 0 := by
  rw [quantileSorted_eq]
  rw [Nat.mul_div_cancel_left _ hd, Nat.mul_mod_right]
  simp

theorem quantileSorted_mono {a : List α} (hs : a.Pairwise (· ≤ ·)) (hne : 0 < a.length)
    {num num' den : Nat} (h1 : num ≤ num') (h2 : num' ≤ den) (hd : 0 < den) :
    quantileSorted (Nat.cast : Nat → α) a num den
      ≤ quantileSorted (Nat.cast : Nat → α) a num' den := by
  have hpos : num * (a.length - 1) ≤ num' * (a.length - 1) := Nat.mul_le_mul_right _ h1
  have hdiv : num * (a.length - 1) / den ≤ num' * (a.length - 1) / den :=
    Nat.div_le_div_right hpos
  have hlo' := lo_le (n := a.length) h2 hd
  rcases Nat.eq_or_lt_of_le hdiv with heq | hlt
  · -- same cell: the fraction grows
    have hmod : num * (a.length - 1) % den ≤ num' * (a.length - 1) % den := by
      have e1 := Nat.div_add_mod (num * (a.length - 1)) den
      have e2 := Nat.div_add_mod (num' * (a.length - 1)) den
      rw [heq] at e1
      omega
    rw [quantileSorted_eq, quantileSorted_eq, ← heq]
    have hxy : a.getD (num * (a.length - 1) / den) 0
        ≤ a.getD (min (num * (a.length - 1) / den + 1) (a.length - 1)) 0 :=
      sorted_getD_le hs (by omega) (by omega)
    have hf : ((num * (a.length - 1) % den : Nat) : α) / (den : α)
        ≤ ((num' * (a.length - 1) % den : Nat) : α) / (den : α) :=
      div_le_div_of_nonneg_right (by exact_mod_cast hmod) (Nat.cast_nonneg _)
    have := mul_le_mul_of_nonneg_left hf (sub_nonneg.mpr hxy)
    linarith
  · -- different cells: the upper node of the first is at most the lower node of the second
    have hA := (quantileSorted_between hs hne (le_trans h1 h2) hd).2
    have hB := (quantileSorted_between hs hne h2 hd).1
    have hmid : a.getD (min (num * (a.length - 1) / den + 1) (a.length - 1)) 0
        ≤ a.getD (num' * (a.length - 1) / den) 0 :=
      sorted_getD_le hs (by omega) (by omega)
    exact le_trans hA (le_trans hmid hB)

end Quantile

/-! ## `maxentThresholds`, `maxentBinning` -/

section Thresholds
variable {α : Type} [Field α] [LinearOrder α] [IsStrictOrderedRing α]

theorem maxentThresholds_length (bins : Nat) (ts : List α) :
    (maxentThresholds (Nat.cast : Nat → α) bins ts).length = bins + 1 := by
  unfold maxentThresholds; simp

theorem maxentThresholds_getD (bins : Nat) (ts : List α) {i : Nat} (hi : i ≤ bins) :
    (maxentThresholds (Nat.cast : Nat → α) bins ts).getD i 0
      = quantileSorted (Nat.cast : Nat → α) (sortAsc ts) i bins := by
  rw [List.getD_eq_getElem?_getD]
  unfold maxentThresholds
  rw [List.getElem?_map, List.getElem?_range (by omega)]
  rfl

/-- Percentiles of an empty sample list are all `0` in the model. -/
theorem quantileSorted_nil (num den : Nat) :
    quantileSorted (Nat.cast : Nat → α) [] num den = 0 := by
  rw [quantileSorted_eq]; simp

/-- The percentile thresholds are non-decreasing (for every sample list and every `bins`). -/
theorem maxentThresholds_mono (bins : Nat) (ts : List α) (i j : Nat) (hij : i ≤ j)
    (hj : j ≤ bins) :
    (maxentThresholds (Nat.cast : Nat → α) bins ts).getD i 0
      ≤ (maxentThresholds (Nat.cast : Nat → α) bins ts).getD j 0 := by
  rw [maxentThresholds_getD bins ts (le_trans hij hj), maxentThresholds_getD bins ts hj]
  rcases Nat.eq_zero_or_pos bins with hb | hb
  · have : i = j := by omega
    rw [this]
  · rcases Nat.eq_zero_or_pos ts.length with h0 | h0
    · have : ts = [] := List.length_eq_zero_iff.mp h0
      subst this
      have : sortAsc ([] : List α) = [] := rfl
      rw [this, quantileSorted_nil, quantileSorted_nil]
    · exact quantileSorted_mono (sortAsc_sorted ts) (by rw [sortAsc_length]; exact h0) hij hj hb

theorem maxentThresholds_sorted (bins : Nat) (ts : List α) :
    (maxentThresholds (Nat.cast : Nat → α) bins ts).Pairwise (· ≤ ·) := by
  rw [List.pairwise_iff_getElem]
  intro i j hi hj hij
  have hj' : j ≤ bins := by rw [maxentThresholds_length] at hj; omega
  have := maxentThresholds_mono bins ts i j hij.le hj'
  rwa [getD_lt hi, getD_lt hj] at this

theorem maxentBinning_eq_countLE {bins : Nat} (hb : 0 < bins) (ts : List α) :
    maxentBinning (Nat.cast : Nat → α) bins ts
      = ts.map (fun x => some (countLE (maxentThresholds (Nat.cast : Nat → α) bins ts) bins x)) := by
  unfold maxentBinning
  apply List.map_congr_left
  intro x _
  exact maxentLoop_eq_countLE _ hb x (maxentThresholds_mono bins ts)

end Thresholds

/-! ## Equally populated bins -/

section Population
variable {α : Type} [Field α] [LinearOrder α] [IsStrictOrderedRing α]

/-- A predicate that holds exactly on the first `k` positions is counted `k` times. -/
theorem countP_prefix (p : α → Bool) (a : List α) (k : Nat) (hk : k ≤ a.length)
    (h1 : ∀ j (hj : j < a.length), j < k → p a[j] = true)
    (h2 : ∀ j (hj : j < a.length), k ≤ j → p a[j] = false) : a.countP p = k := by
  conv_lhs => rw [← List.take_append_drop k a]
  rw [List.countP_append]
  have e1 : (a.take k).countP p = (a.take k).length := by
    rw [List.countP_eq_length]
    intro x hx
    obtain ⟨i, hi, rfl⟩ := List.mem_iff_getElem.mp hx
    rw [List.getElem_take]
    rw [List.length_take] at hi
    exact h1 i (by omega) (by omega)
  have e2 : (a.drop k).countP p = 0 := by
    rw [List.countP_eq_zero]
    intro x hx
    obtain ⟨i, hi, rfl⟩ := List.mem_iff_getElem.mp hx
    rw [List.getElem_drop]
    rw [List.length_drop] at hi
    rw [h2 (k + i) (by omega) (by omega)]
    simp
  rw [e1, e2, List.length_take]
  omega

/-- Ceiling division written with the quotient and the remainder. -/
theorem ceil_div (p : Nat) {den : Nat} (hd : 0 < den) :
    (p + den - 1) / den = p / den + (if p % den = 0 then 0 else 1) := by
  have e := Nat.div_add_mod p den
  have hm := Nat.mod_lt p hd
  apply Nat.div_eq_of_lt_le
  · rw [Nat.add_mul]
    rw [Nat.mul_comm (p / den) den]
    split_ifs with h <;> omega
  · rw [Nat.add_mul, Nat.add_mul]
    rw [Nat.mul_comm (p / den) den]
    split_ifs with h <;> omega

/-- For strictly increasing samples, the number of samples strictly below the percentile at
`num/den < 1` is `⌈num·(n−1)/den⌉`. -/
theorem countP_lt_quantile {a : List α} (hs : a.Pairwise (· < ·)) (hne : 0 < a.length)
    {num den : Nat} (hnd : num < den) :
    a.countP (fun x => decide (x < quantileSorted (Nat.cast : Nat → α) a num den))
      = (num * (a.length - 1) + den - 1) / den := by
  have hd : 0 < den := by omega
  have hle : a.Pairwise (· ≤ ·) := hs.imp (fun h => le_of_lt h)
  have hlo := lo_le (n := a.length) hnd.le hd
  have e := Nat.div_add_mod (num * (a.length - 1)) den
  have hm := Nat.mod_lt (num * (a.length - 1)) hd
  have hget := List.pairwise_iff_getElem.mp hs
  rw [ceil_div _ hd]
  by_cases hr : num * (a.length - 1) % den = 0
  · -- the percentile is a sample
    rw [if_pos hr, Nat.add_zero]
    have ht : quantileSorted (Nat.cast : Nat → α) a num den
        = a[num * (a.length - 1) / den]'(by omega) := by
      rw [quantileSorted_eq, hr, getD_lt (by omega : num * (a.length - 1) / den < a.length)]
      simp
    rw [ht]
    apply countP_prefix _ _ _ (by omega)
    · intro j hj hjk
      simpa using hget j _ hj (by omega) hjk
    · intro j hj hjk
      rw [decide_eq_false_iff_not, not_lt]
      rcases Nat.eq_or_lt_of_le hjk with heq | hlt
      · simp [heq]
      · exact (hget _ j (by omega) hj hlt).le
  · -- the percentile lies strictly between two consecutive samples
    rw [if_neg hr]
    have hlt : num * (a.length - 1) / den < a.length - 1 := by
      have h1 : den * (num * (a.length - 1) / den) < den * (a.length - 1) := by
        have h2 : num * (a.length - 1) ≤ den * (a.length - 1) := Nat.mul_le_mul_right _ hnd.le
        omega
      exact Nat.lt_of_mul_lt_mul_left h1
    have hmin : min (num * (a.length - 1) / den + 1) (a.length - 1)
        = num * (a.length - 1) / den + 1 := by omega
    have hxy : a[num * (a.length - 1) / den]'(by omega)
        < a[num * (a.length - 1) / den + 1]'(by omega) := hget _ _ _ _ (by omega)
    have f0 : (0 : α) < ((num * (a.length - 1) % den : Nat) : α) / (den : α) :=
      div_pos (by exact_mod_cast Nat.pos_of_ne_zero hr) (by exact_mod_cast hd)
    have f1 := frac_lt_one (α := α) (num * (a.length - 1)) hd
    have ht := quantileSorted_eq a num den
    rw [hmin, getD_lt (by omega : num * (a.length - 1) / den < a.length),
      getD_lt (by omega : num * (a.length - 1) / den + 1 < a.length)] at ht
    set f := ((num * (a.length - 1) % den : Nat) : α) / (den : α)
    set x := a[num * (a.length - 1) / den]'(by omega)
    set y := a[num * (a.length - 1) / den + 1]'(by omega)
    have g1 : 0 < (y - x) * f := mul_pos (by linarith) f0
    have g2 : 0 < (y - x) * (1 - f) := mul_pos (by linarith) (by linarith)
    have hxt : x < quantileSorted (Nat.cast : Nat → α) a num den := by rw [ht]; linarith
    have hty : quantileSorted (Nat.cast : Nat → α) a num den < y := by rw [ht]; nlinarith
    apply countP_prefix _ _ _ (by omega)
    · intro j hj hjk
      rw [decide_eq_true_iff]
      refine lt_of_le_of_lt ?_ hxt
      rcases Nat.eq_or_lt_of_le (Nat.lt_succ_iff.mp hjk) with heq | hlt'
      · simp [x, heq]
      · exact (hget j _ hj (by omega) hlt').le
    · intro j hj hjk
      rw [decide_eq_false_iff_not, not_lt]
      refine le_trans hty.le ?_
      rcases Nat.eq_or_lt_of_le hjk with heq | hlt'
      · simp [y, heq]
      · exact (hget _ j (by omega) hj hlt').le

/-- Counting one value of a `Nat`-valued function through its cumulative counts. -/
theorem countP_eq_add {β : Type} (f : β → Nat) (l : List β) (k : Nat) :
    l.countP (fun x => decide (f x = k)) + l.countP (fun x => decide (f x < k))
      = l.countP (fun x => decide (f x < k + 1)) := by
  induction l with
  | nil => rfl
  | cons x t ih =>
    rw [List.countP_cons, List.countP_cons, List.countP_cons]
    rcases Nat.lt_trichotomy (f x) k with h | h | h
    · have a1 : ¬ f x = k := by omega
      have a3 : f x < k + 1 := by omega
      simp only [decide_eq_true_eq, if_pos h, if_neg a1, if_pos a3]; omega
    · have a2 : ¬ f x < k := by omega
      have a3 : f x < k + 1 := by omega
      simp only [decide_eq_true_eq, if_pos h, if_neg a2, if_pos a3]; omega
    · have a1 : ¬ f x = k := by omega
      have a2 : ¬ f x < k := by omega
      have a3 : ¬ f x < k + 1 := by omega
      simp only [decide_eq_true_eq, if_neg a1, if_neg a2, if_neg a3]; omega

/-- The number of samples whose label is below `j`, for distinct samples: `⌈j·(n−1)/bins⌉` for
`j < bins`. -/
theorem cum_label {bins : Nat} (ts : List α) (hn : ts.Nodup) (hne : 0 < ts.length) {j : Nat}
    (hj : j < bins) :
    ts.countP (fun x => decide
        (countLE (maxentThresholds (Nat.cast : Nat → α) bins ts) bins x < j))
      = (j * (ts.length - 1) + bins - 1) / bins := by
  rcases Nat.eq_zero_or_pos j with h0 | h0
  · subst h0
    have hb : 0 < bins := hj
    rw [Nat.zero_mul, Nat.zero_add, Nat.div_eq_of_lt (by omega)]
    rw [List.countP_eq_zero]
    intro x _; simp
  · have hcong : ts.countP (fun x => decide
          (countLE (maxentThresholds (Nat.cast : Nat → α) bins ts) bins x < j))
        = ts.countP (fun x => decide
            (x < quantileSorted (Nat.cast : Nat → α) (sortAsc ts) j bins)) := by
      apply List.countP_congr
      intro x _
      rw [decide_eq_true_iff, decide_eq_true_iff]
      have := countLE_iff (maxentThresholds (Nat.cast : Nat → α) bins ts) bins x
        (maxentThresholds_mono bins ts) j h0 hj
      rw [maxentThresholds_getD bins ts hj.le] at this
      constructor
      · intro h
        exact not_le.mp (fun hle => absurd (this.mp hle) (by omega))
      · intro h
        have := mt this.mpr (not_le.mpr h)
        omega
    rw [hcong, ← (sortAsc_perm ts).countP_eq]
    have := countP_lt_quantile (sortAsc_strict ts hn) (by rw [sortAsc_length]; exact hne) hj
    rw [sortAsc_length] at this
    exact this

/-- The number of samples whose label is below `bins` is all of them. -/
theorem cum_label_all {bins : Nat} (hb : 0 < bins) (ts : List α) :
    ts.countP (fun x => decide
        (countLE (maxentThresholds (Nat.cast : Nat → α) bins ts) bins x < bins))
      = ts.length := by
  rw [List.countP_eq_length]
  intro x _
  rw [decide_eq_true_iff]
  exact countLE_lt _ hb x

/-- `⌈(k+1)m/b⌉ − ⌈km/b⌉` is `⌊m/b⌋` or `⌈m/b⌉`. -/
theorem ceil_step (k m : Nat) {b : Nat} (hb : 0 < b) :
    (k * m + b - 1) / b + m / b ≤ ((k + 1) * m + b - 1) / b
      ∧ ((k + 1) * m + b - 1) / b ≤ (k * m + b - 1) / b + (m + b - 1) / b := by
  have e1 := Nat.div_add_mod (k * m + b - 1) b
  have m1 := Nat.mod_lt (k * m + b - 1) hb
  have e2 := Nat.div_add_mod ((k + 1) * m + b - 1) b
  have m2 := Nat.mod_lt ((k + 1) * m + b - 1) hb
  have e3 := Nat.div_add_mod m b
  have m3 := Nat.mod_lt m hb
  have e4 := Nat.div_add_mod (m + b - 1) b
  have m4 := Nat.mod_lt (m + b - 1) hb
  have hk : (k + 1) * m = k * m + m := by rw [Nat.add_mul, Nat.one_mul]
  rw [hk] at e2 m2 ⊢
  generalize (k * m + b - 1) / b = c at *
  generalize (k * m + m + b - 1) / b = c' at *
  generalize m / b = q at *
  generalize (m + b - 1) / b = Q at *
  generalize k * m = km at *
  constructor
  · by_contra hlt
    have h : c' + 1 ≤ c + q := by omega
    have := Nat.mul_le_mul_left b h
    rw [Nat.mul_add, Nat.mul_add, Nat.mul_one] at this
    omega
  · by_contra hlt
    have h : c + Q + 1 ≤ c' := by omega
    have := Nat.mul_le_mul_left b h
    rw [Nat.mul_add, Nat.mul_add, Nat.mul_one] at this
    omega

/-- The last bin: `n − ⌈(b−1)(n−1)/b⌉ = ⌈n/b⌉`, bounded as the others. -/
theorem ceil_last (m : Nat) {b : Nat} (hb : 0 < b) :
    ((b - 1) * m + b - 1) / b + m / b ≤ m + 1
      ∧ m + 1 ≤ ((b - 1) * m + b - 1) / b + (m + 1 + b - 1) / b := by
  obtain ⟨b', rfl⟩ : ∃ b', b = b' + 1 := ⟨b - 1, by omega⟩
  rw [Nat.add_sub_cancel]
  have e1 := Nat.div_add_mod (b' * m + (b' + 1) - 1) (b' + 1)
  have m1 := Nat.mod_lt (b' * m + (b' + 1) - 1) hb
  have e3 := Nat.div_add_mod m (b' + 1)
  have m3 := Nat.mod_lt m hb
  have e4 := Nat.div_add_mod (m + 1 + (b' + 1) - 1) (b' + 1)
  have m4 := Nat.mod_lt (m + 1 + (b' + 1) - 1) hb
  generalize (b' * m + (b' + 1) - 1) / (b' + 1) = c at *
  generalize m / (b' + 1) = q at *
  generalize (m + 1 + (b' + 1) - 1) / (b' + 1) = Q at *
  have hbm : (b' + 1) * m = b' * m + m := by rw [Nat.add_mul, Nat.one_mul]
  constructor
  · by_contra hlt
    have h : m + 2 ≤ c + q := by omega
    have := Nat.mul_le_mul_left (b' + 1) h
    rw [Nat.mul_add, Nat.mul_add, hbm] at this
    omega
  · by_contra hlt
    have h : c + Q ≤ m := by omega
    have := Nat.mul_le_mul_left (b' + 1) h
    rw [Nat.mul_add, hbm] at this
    omega

/-- **Equally populated.** For pairwise distinct samples, every label `k < bins` is received by
at least `⌊(n−1)/bins⌋` and at most `⌈n/bins⌉` samples. -/
theorem label_population {bins : Nat} (hb : 0 < bins) (ts : List α) (hn : ts.Nodup) {k : Nat}
    (hk : k < bins) :
    (ts.length - 1) / bins
        ≤ ts.countP (fun x => decide
            (countLE (maxentThresholds (Nat.cast : Nat → α) bins ts) bins x = k))
      ∧ ts.countP (fun x => decide
            (countLE (maxentThresholds (Nat.cast : Nat → α) bins ts) bins x = k))
        ≤ (ts.length + bins - 1) / bins := by
  rcases Nat.eq_zero_or_pos ts.length with h0 | hne
  · have : ts = [] := List.length_eq_zero_iff.mp h0
    subst this
    simp
  · have hadd := countP_eq_add
      (fun x => countLE (maxentThresholds (Nat.cast : Nat → α) bins ts) bins x) ts k
    rw [cum_label ts hn hne hk] at hadd
    have hup : (ts.length - 1 + bins - 1) / bins ≤ (ts.length + bins - 1) / bins :=
      Nat.div_le_div_right (by omega)
    rcases Nat.lt_or_ge (k + 1) bins with hk1 | hk1
    · rw [cum_label ts hn hne hk1] at hadd
      have := ceil_step k (ts.length - 1) hb
      omega
    · have hkb : k + 1 = bins := by omega
      rw [hkb, cum_label_all hb ts] at hadd
      have := ceil_last (ts.length - 1) hb
      have hk' : k = bins - 1 := by omega
      subst hk'
      have e : ts.length - 1 + 1 + bins - 1 = ts.length + bins - 1 := by omega
      rw [e] at this
      omega

end Population

end Dit.Lemmas.Binning
