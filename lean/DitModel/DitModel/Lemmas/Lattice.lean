/-
Helper lemmas for C17 (information decomposition (PID) on the redundancy lattice).

* Möbius inversion for the model's `moebius` (a fold over the nodes sorted by the number of nodes
  below): existence (`moebius_sum`), uniqueness, total, equivariance under order automorphisms —
  for any duplicate-free list of nodes on which the strict order `rlt` is transitive.
* The redundancy lattice for 2 and 3 sources: order and lattice facts checked by evaluation
  (`decide +kernel`), relabelling of the sources as an order automorphism.
* `lminOf`, `I_mmi` (monotone, non-negative atoms for two sources), specific information averages
  to the mutual information (`I_min` self-redundancy), is non-negative and monotone in the source
  set (the core inequality of C05 restricted to one target value), hence `I_min` is monotone and
  has non-negative atoms for two sources.
* Redundancies of minimum type (`red x = min_{α ∈ x} f α`, `f ≥ 0` monotone) have non-negative
  atoms for 2 and 3 sources (linearity of Möbius inversion, atoms of up-set indicators), hence
  all `I_mmi` and `I_min` atoms are non-negative.
Property theorems are in Props/C17.lean.
-/
import DitModel.Core.Lattice
import DitModel.Lemmas.Table
import DitModel.Lemmas.InfoReal
import DitModel.Lemmas.Partition
import Mathlib.Tactic.Abel
import Mathlib.Algebra.Order.BigOperators.Group.List
import Mathlib.Algebra.BigOperators.Group.Finset.Sigma
import Mathlib.Algebra.BigOperators.Ring.List

set_option linter.unusedSectionVars false

namespace Dit.Lemmas.Lattice
open Dit Dit.Lemmas.InfoAlg Dit.Lemmas.InfoReal

/-! ### Lookup in appended tables -/

section Lookup
variable {κ α : Type} [DecidableEq κ]

theorem lookup?_append_of_mem {s t : Tab κ α} {k : κ} (h : k ∈ keys s) :
    lookup? (s ++ t) k = lookup? s k := by
  induction s with
  | nil => simp [keys] at h
  | cons r s ih =>
    obtain ⟨k', v'⟩ := r
    simp only [List.cons_append, lookup?]
    by_cases hk : k' = k
    · simp [hk]
    · simp only [hk, if_false]
      apply ih
      simp only [keys, List.map_cons, List.mem_cons] at h
      rcases h with h | h
      · exact absurd h.symm hk
      · exact h

theorem lookup?_append_of_not_mem {s t : Tab κ α} {k : κ} (h : k ∉ keys s) :
    lookup? (s ++ t) k = lookup? t k := by
  induction s with
  | nil => rfl
  | cons r s ih =>
    obtain ⟨k', v'⟩ := r
    simp only [keys, List.map_cons, List.mem_cons, not_or] at h
    simp only [List.cons_append, lookup?]
    rw [if_neg (fun e => h.1 e.symm)]
    exact ih h.2

end Lookup

theorem length_filter_lt {β : Type} {l : List β} {p q : β → Bool}
    (hpq : ∀ a ∈ l, p a = true → q a = true) {w : β} (hw : w ∈ l) (hq : q w = true)
    (hp : p w = false) : (l.filter p).length < (l.filter q).length := by
  induction l with
  | nil => simp at hw
  | cons a t ih =>
    have hmono : (t.filter p).length ≤ (t.filter q).length := by
      rw [← List.countP_eq_length_filter, ← List.countP_eq_length_filter]
      exact List.countP_mono_left (fun x hx => hpq x (List.mem_cons_of_mem _ hx))
    rcases List.mem_cons.mp hw with rfl | hwt
    · simp only [List.filter_cons, hq, hp, if_true, List.length_cons]
      simp only [Bool.false_eq_true, if_false]
      omega
    · have := ih (fun x hx => hpq x (List.mem_cons_of_mem _ hx)) hwt
      simp only [List.filter_cons]
      by_cases hpa : p a = true
      · simp only [hpa, hpq a List.mem_cons_self hpa, if_true, List.length_cons]; omega
      · by_cases hqa : q a = true
        · simp only [hpa, hqa, if_true, List.length_cons]
          simp only [Bool.false_eq_true, if_false]; omega
        · simp only [hpa, hqa]; simpa using this

/-! ### Möbius inversion -/

section Moebius
variable {α : Type} [AddCommGroup α]

theorem rlt_irrefl (a : RNode) : rlt a a = false := by simp [rlt]

theorem rlt_ne {a b : RNode} (h : rlt a b = true) : a ≠ b := by
  rintro rfl; rw [rlt_irrefl] at h; exact Bool.false_ne_true h

/-- Number of nodes strictly below `x`. -/
abbrev cnt (nodes : List RNode) (x : RNode) : Nat := (rbelow nodes x).length

/-- Transitivity of the strict order on the given nodes. -/
def TransOn (nodes : List RNode) : Prop :=
  ∀ a ∈ nodes, ∀ b ∈ nodes, ∀ c ∈ nodes, rlt a b = true → rlt b c = true → rlt a c = true

theorem mem_rbelow {nodes : List RNode} {m x : RNode} :
    m ∈ rbelow nodes x ↔ m ∈ nodes ∧ rlt m x = true := by
  unfold rbelow; simp

/-- A node strictly below `x` has strictly fewer nodes below it. -/
theorem cnt_lt {nodes : List RNode} (htr : TransOn nodes) {m x : RNode} (hm : m ∈ nodes)
    (hx : x ∈ nodes) (h : rlt m x = true) : cnt nodes m < cnt nodes x := by
  unfold cnt rbelow
  exact length_filter_lt (fun a ha ham => htr a ha m hm x hx ham h) hm h (rlt_irrefl m)

/-- One step of the fold in `moebius`. -/
def mstep (nodes : List RNode) (red : RNode → α) (acc : Tab RNode α) (x : RNode) :
    Tab RNode α :=
  acc ++ [(x, red x - lsum ((rbelow nodes x).map (fun m => lookupD 0 acc m)))]

/-- The processing order of `moebius`. -/
def mord (nodes : List RNode) : List RNode :=
  isort (fun a b => decide ((rbelow nodes a).length < (rbelow nodes b).length)) nodes

theorem moebius_eq (nodes : List RNode) (red : RNode → α) :
    moebius nodes red = (mord nodes).foldl (mstep nodes red) [] := rfl

theorem mord_perm (nodes : List RNode) : (mord nodes).Perm nodes :=
  Lemmas.Table.isort_perm _ _

theorem mord_sorted (nodes : List RNode) :
    (mord nodes).Pairwise (fun a b => cnt nodes a ≤ cnt nodes b) :=
  Lemmas.Table.isort_pairwise
    (fun a b => decide ((rbelow nodes a).length < (rbelow nodes b).length))
    (fun a b => cnt nodes a ≤ cnt nodes b)
    (fun _ _ h => Nat.le_of_lt (of_decide_eq_true h))
    (fun _ _ h => Nat.le_of_not_lt (of_decide_eq_false h)) (fun _ _ _ => Nat.le_trans) _

theorem keys_mstep (nodes : List RNode) (red : RNode → α) (acc : Tab RNode α) (x : RNode) :
    keys (mstep nodes red acc x) = keys acc ++ [x] := by
  simp [mstep, keys]

theorem keys_foldl (nodes : List RNode) (red : RNode → α) (l : List RNode)
    (acc : Tab RNode α) : keys (l.foldl (mstep nodes red) acc) = keys acc ++ l := by
  induction l generalizing acc with
  | nil => simp
  | cons x l ih => rw [List.foldl_cons, ih, keys_mstep]; simp

/-- Keys of the Möbius table: the nodes, in processing order. -/
theorem keys_moebius (nodes : List RNode) (red : RNode → α) :
    keys (moebius nodes red) = mord nodes := by
  rw [moebius_eq, keys_foldl]; rfl

theorem lookupD_foldl_stable (nodes : List RNode) (red : RNode → α) (l : List RNode)
    (acc : Tab RNode α) {k : RNode} (hk : k ∈ keys acc) :
    lookupD 0 (l.foldl (mstep nodes red) acc) k = lookupD 0 acc k := by
  induction l generalizing acc with
  | nil => rfl
  | cons x l ih =>
    rw [List.foldl_cons, ih (mstep nodes red acc x) (by rw [keys_mstep]; simp [hk])]
    unfold lookupD mstep
    rw [lookup?_append_of_mem hk]

theorem lookupD_foldl_new (nodes : List RNode) (red : RNode → α) (l : List RNode)
    (acc : Tab RNode α) {x : RNode} (hx : x ∉ keys acc) :
    lookupD 0 ((x :: l).foldl (mstep nodes red) acc) x
      = red x - ((rbelow nodes x).map (fun m => lookupD 0 acc m)).sum := by
  rw [List.foldl_cons, lookupD_foldl_stable nodes red l _ (by rw [keys_mstep]; simp)]
  unfold mstep
  rw [lookupD, lookup?_append_of_not_mem hx, Lemmas.InfoAlg.lsum_eq_sum]
  simp [lookup?]

/-- **Möbius inversion**: the table computed by `moebius` satisfies, for every node,
`red x = π(x) + Σ_{m < x} π(m)`. -/
theorem moebius_sum (nodes : List RNode) (red : RNode → α) (hnd : nodes.Nodup)
    (htr : TransOn nodes) {x : RNode} (hx : x ∈ nodes) :
    red x = lookupD 0 (moebius nodes red) x
      + ((rbelow nodes x).map (fun m => lookupD 0 (moebius nodes red) m)).sum := by
  have hxo : x ∈ mord nodes := (mord_perm nodes).mem_iff.mpr hx
  obtain ⟨pre, post, hsplit⟩ := List.append_of_mem hxo
  have hndo : (mord nodes).Nodup := (mord_perm nodes).nodup_iff.mpr hnd
  rw [hsplit] at hndo
  have hsorted := mord_sorted nodes
  rw [hsplit] at hsorted
  have hxpre : x ∉ pre := by
    intro h
    have := (List.nodup_append.mp hndo).2.2 x h x List.mem_cons_self
    exact this rfl
  have hxpost : x ∉ post := (List.nodup_cons.mp (List.nodup_append.mp hndo).2.1).1
  -- every node below `x` was processed before `x`
  have hbelow : ∀ m ∈ rbelow nodes x, m ∈ pre := by
    intro m hm
    obtain ⟨hmn, hmx⟩ := mem_rbelow.mp hm
    have hmo : m ∈ mord nodes := (mord_perm nodes).mem_iff.mpr hmn
    rw [hsplit, List.mem_append, List.mem_cons] at hmo
    rcases hmo with h | h | h
    · exact h
    · exact absurd h (rlt_ne hmx)
    · have h1 := (List.pairwise_cons.mp (List.pairwise_append.mp hsorted).2.1).1 m h
      have h2 := cnt_lt htr hmn hx hmx
      omega
  have hfold : moebius nodes red
      = (x :: post).foldl (mstep nodes red) (pre.foldl (mstep nodes red) []) := by
    rw [moebius_eq, hsplit, List.foldl_append]
  have hkeys : keys (pre.foldl (mstep nodes red) []) = pre := by
    rw [keys_foldl]; rfl
  have hval : lookupD 0 (moebius nodes red) x
      = red x - ((rbelow nodes x).map
          (fun m => lookupD 0 (pre.foldl (mstep nodes red) []) m)).sum := by
    rw [hfold]
    exact lookupD_foldl_new nodes red post _ (by rw [hkeys]; exact hxpre)
  have hsame : (rbelow nodes x).map (fun m => lookupD 0 (pre.foldl (mstep nodes red) []) m)
      = (rbelow nodes x).map (fun m => lookupD 0 (moebius nodes red) m) := by
    apply List.map_congr_left
    intro m hm
    rw [hfold]
    exact (lookupD_foldl_stable nodes red (x :: post) _ (by rw [hkeys]; exact hbelow m hm)).symm
  rw [hval, hsame, sub_add_cancel]

/-- **Uniqueness**: any assignment of atoms satisfying the inversion equations on the nodes
agrees with the Möbius table there. -/
theorem moebius_unique (nodes : List RNode) (red : RNode → α) (hnd : nodes.Nodup)
    (htr : TransOn nodes) (π' : RNode → α)
    (h : ∀ x ∈ nodes, red x = π' x + ((rbelow nodes x).map π').sum) :
    ∀ x ∈ nodes, π' x = lookupD 0 (moebius nodes red) x := by
  intro x
  induction hc : cnt nodes x using Nat.strong_induction_on generalizing x with
  | _ k ih =>
    intro hx
    have e1 := h x hx
    have e2 := moebius_sum nodes red hnd htr hx
    have e3 : (rbelow nodes x).map π'
        = (rbelow nodes x).map (fun m => lookupD 0 (moebius nodes red) m) := by
      apply List.map_congr_left
      intro m hm
      obtain ⟨hmn, hmx⟩ := mem_rbelow.mp hm
      exact ih _ (hc ▸ cnt_lt htr hmn hx hmx) m rfl hmn
    rw [e3] at e1
    exact add_right_cancel (e1.symm.trans e2)

/-- With a greatest node `top`, "at or below `top`" is everything. -/
theorem sum_at_or_below_top (nodes : List RNode) (π : RNode → α) (hnd : nodes.Nodup)
    {top : RNode} (htop : top ∈ nodes) (hle : ∀ a ∈ nodes, rle a top = true) :
    π top + ((rbelow nodes top).map π).sum = (nodes.map π).sum := by
  have h1 : rbelow nodes top = nodes.erase top := by
    rw [hnd.erase_eq_filter]
    unfold rbelow rlt
    apply List.filter_congr
    intro a ha
    rw [hle a ha]; simp [bne]
  rw [h1, ((List.perm_cons_erase htop).map π).sum_eq, List.map_cons, List.sum_cons]

/-- The atoms sum to the redundancy of the greatest node. -/
theorem moebius_total (nodes : List RNode) (red : RNode → α) (hnd : nodes.Nodup)
    (htr : TransOn nodes) {top : RNode} (htop : top ∈ nodes)
    (hle : ∀ a ∈ nodes, rle a top = true) :
    (nodes.map (fun x => lookupD 0 (moebius nodes red) x)).sum = red top := by
  rw [← sum_at_or_below_top nodes _ hnd htop hle]
  exact (moebius_sum nodes red hnd htr htop).symm

/-- Möbius inversion commutes with order automorphisms of the nodes. -/
theorem moebius_equivariant (nodes : List RNode) (hnd : nodes.Nodup) (htr : TransOn nodes)
    (f : RNode → RNode) (hperm : (nodes.map f).Perm nodes)
    (hord : ∀ a ∈ nodes, ∀ b ∈ nodes, rlt (f a) (f b) = rlt a b) (red : RNode → α) :
    ∀ x ∈ nodes, lookupD 0 (moebius nodes (fun y => red (f y))) x
      = lookupD 0 (moebius nodes red) (f x) := by
  intro x hx
  refine (moebius_unique nodes (fun y => red (f y)) hnd htr
    (fun y => lookupD 0 (moebius nodes red) (f y)) ?_ x hx).symm
  intro y hy
  have hfy : f y ∈ nodes := hperm.mem_iff.mp (List.mem_map_of_mem hy)
  have e := moebius_sum nodes red hnd htr hfy
  have hp : ((rbelow nodes y).map f).Perm (rbelow nodes (f y)) := by
    unfold rbelow
    have : nodes.filter (fun m => rlt m y) = nodes.filter ((fun m => rlt m (f y)) ∘ f) := by
      apply List.filter_congr
      intro a ha
      exact (hord a ha y hy).symm
    rw [this, ← List.filter_map]
    exact hperm.filter _
  rw [e, ← (hp.map _).sum_eq, List.map_map]
  rfl

end Moebius

/-! ### The redundancy lattice for 2 and 3 sources: facts checked by evaluation -/

section Checked

theorem length_rnodes : (rnodes 2).length = 4 ∧ (rnodes 3).length = 18 := by decide +kernel

private theorem nodup_checked : ∀ n ∈ [2, 3], (rnodes n).Nodup := by decide +kernel

private theorem refl_checked : ∀ n ∈ [2, 3], ∀ a ∈ rnodes n, rle a a = true := by
  decide +kernel

private theorem antisymm_checked : ∀ n ∈ [2, 3], ∀ a ∈ rnodes n, ∀ b ∈ rnodes n,
    rle a b = true → rle b a = true → a = b := by decide +kernel

private theorem trans_checked : ∀ n ∈ [2, 3], ∀ a ∈ rnodes n, ∀ b ∈ rnodes n, ∀ c ∈ rnodes n,
    rle a b = true → rle b c = true → rle a c = true := by decide +kernel

private theorem ltrans_checked : ∀ n ∈ [2, 3], ∀ a ∈ rnodes n, ∀ b ∈ rnodes n, ∀ c ∈ rnodes n,
    rlt a b = true → rlt b c = true → rlt a c = true := by decide +kernel

private theorem bounds_checked : ∀ n ∈ [2, 3], rtop n ∈ rnodes n ∧ rbottom n ∈ rnodes n
    ∧ ∀ a ∈ rnodes n, rle a (rtop n) = true ∧ rle (rbottom n) a = true := by decide +kernel

private theorem lub_checked : ∀ n ∈ [2, 3], ∀ a ∈ rnodes n, ∀ b ∈ rnodes n,
    ∃ j ∈ rnodes n, rle a j = true ∧ rle b j = true
      ∧ ∀ c ∈ rnodes n, rle a c = true → rle b c = true → rle j c = true := by decide +kernel

private theorem glb_checked : ∀ n ∈ [2, 3], ∀ a ∈ rnodes n, ∀ b ∈ rnodes n,
    ∃ m ∈ rnodes n, rle m a = true ∧ rle m b = true
      ∧ ∀ c ∈ rnodes n, rle c a = true → rle c b = true → rle c m = true := by decide +kernel

variable {n : Nat} (hn : n = 2 ∨ n = 3)
include hn

theorem mem23 : n ∈ [2, 3] := by rcases hn with rfl | rfl <;> simp

theorem nodup_rnodes : (rnodes n).Nodup := nodup_checked n (mem23 hn)
theorem rle_refl {a : RNode} (ha : a ∈ rnodes n) : rle a a = true := refl_checked n (mem23 hn) a ha
theorem rle_antisymm {a b : RNode} (ha : a ∈ rnodes n) (hb : b ∈ rnodes n)
    (h1 : rle a b = true) (h2 : rle b a = true) : a = b :=
  antisymm_checked n (mem23 hn) a ha b hb h1 h2
theorem rle_trans {a b c : RNode} (ha : a ∈ rnodes n) (hb : b ∈ rnodes n) (hc : c ∈ rnodes n)
    (h1 : rle a b = true) (h2 : rle b c = true) : rle a c = true :=
  trans_checked n (mem23 hn) a ha b hb c hc h1 h2
theorem transOn_rnodes : TransOn (rnodes n) := ltrans_checked n (mem23 hn)
theorem rtop_mem : rtop n ∈ rnodes n := (bounds_checked n (mem23 hn)).1
theorem rbottom_mem : rbottom n ∈ rnodes n := (bounds_checked n (mem23 hn)).2.1
theorem rle_rtop {a : RNode} (ha : a ∈ rnodes n) : rle a (rtop n) = true :=
  ((bounds_checked n (mem23 hn)).2.2 a ha).1
theorem rbottom_rle {a : RNode} (ha : a ∈ rnodes n) : rle (rbottom n) a = true :=
  ((bounds_checked n (mem23 hn)).2.2 a ha).2
theorem exists_lub {a b : RNode} (ha : a ∈ rnodes n) (hb : b ∈ rnodes n) :
    ∃ j ∈ rnodes n, rle a j = true ∧ rle b j = true
      ∧ ∀ c ∈ rnodes n, rle a c = true → rle b c = true → rle j c = true :=
  lub_checked n (mem23 hn) a ha b hb
theorem exists_glb {a b : RNode} (ha : a ∈ rnodes n) (hb : b ∈ rnodes n) :
    ∃ m ∈ rnodes n, rle m a = true ∧ rle m b = true
      ∧ ∀ c ∈ rnodes n, rle c a = true → rle c b = true → rle c m = true :=
  glb_checked n (mem23 hn) a ha b hb

end Checked

/-! ### Two sources: the four atoms in closed form -/

section TwoSources
variable {α : Type} [AddCommGroup α]

/-- The Möbius table for two sources, for any redundancy function. -/
theorem moebius_n2 (red : RNode → α) :
    lookupD 0 (moebius (rnodes 2) red) [[0], [1]] = red [[0], [1]]
    ∧ lookupD 0 (moebius (rnodes 2) red) [[0]] = red [[0]] - red [[0], [1]]
    ∧ lookupD 0 (moebius (rnodes 2) red) [[1]] = red [[1]] - red [[0], [1]]
    ∧ lookupD 0 (moebius (rnodes 2) red) [[0, 1]]
        = red [[0, 1]] - red [[0]] - red [[1]] + red [[0], [1]] := by
  have hnd := nodup_rnodes (n := 2) (Or.inl rfl)
  have htr := transOn_rnodes (n := 2) (Or.inl rfl)
  have b0 : rbelow (rnodes 2) [[0], [1]] = [] := by decide +kernel
  have b1 : rbelow (rnodes 2) [[0]] = [[[0], [1]]] := by decide +kernel
  have b2 : rbelow (rnodes 2) [[1]] = [[[0], [1]]] := by decide +kernel
  have b3 : rbelow (rnodes 2) [[0, 1]] = [[[0]], [[1]], [[0], [1]]] := by decide +kernel
  have e0 := moebius_sum (rnodes 2) red hnd htr (x := [[0], [1]]) (by decide +kernel)
  have e1 := moebius_sum (rnodes 2) red hnd htr (x := [[0]]) (by decide +kernel)
  have e2 := moebius_sum (rnodes 2) red hnd htr (x := [[1]]) (by decide +kernel)
  have e3 := moebius_sum (rnodes 2) red hnd htr (x := [[0, 1]]) (by decide +kernel)
  rw [b0] at e0; rw [b1] at e1; rw [b2] at e2; rw [b3] at e3
  simp only [List.map_cons, List.map_nil, List.sum_cons, List.sum_nil, add_zero] at e0 e1 e2 e3
  generalize lookupD 0 (moebius (rnodes 2) red) [[0], [1]] = p0 at *
  generalize lookupD 0 (moebius (rnodes 2) red) [[0]] = p1 at *
  generalize lookupD 0 (moebius (rnodes 2) red) [[1]] = p2 at *
  generalize lookupD 0 (moebius (rnodes 2) red) [[0, 1]] = p3 at *
  rw [e0, e1, e2, e3]
  refine ⟨rfl, ?_, ?_, ?_⟩ <;> abel

end TwoSources

/-! ### Consistency -/

section Consistent
variable {α : Type} [AddCommGroup α] [LinearOrder α]

/-- `consistentP` with the exact tolerance test, as a proposition. -/
theorem consistentP_iff (nodes : List RNode) (red : RNode → α) (pis : Tab RNode α)
    (mi : VSet → α) :
    consistentP (fun a b => decide (a = b)) nodes red pis mi = true
      ↔ (∀ x ∈ nodes, red x = lookupD 0 pis x
            + ((rbelow nodes x).map (fun m => lookupD 0 pis m)).sum)
        ∧ ∀ s, [s] ∈ nodes → red [s] = mi s := by
  unfold consistentP
  simp only [Bool.and_eq_true, List.all_eq_true, decide_eq_true_eq, Lemmas.InfoAlg.lsum_eq_sum]
  refine and_congr Iff.rfl ⟨fun h s hs => of_decide_eq_true (h [s] hs), fun h x hx => ?_⟩
  split
  · rename_i s; exact decide_eq_true (h s hx)
  · rfl

end Consistent

/-! ### Relabelling the sources -/

section Relabel
open Dit.Lemmas.Partition

/-- The map induced on nodes by a relabelling `σ` of the sources. -/
def nodeMap (σ : Nat → Nat) (a : RNode) : RNode := nodeNorm (a.map (fun s => s.map σ))

/-- The relabelling given by a list of images. -/
def permFun (p : List Nat) : Nat → Nat := fun i => p.getD i i

/-- The relabelling `p` induces an order automorphism of `rnodes n`. -/
def equivOK (n : Nat) (p : List Nat) : Bool :=
  let f := nodeMap (permFun p)
  ((rnodes n).map f).isPerm (rnodes n)
    && (rnodes n).all (fun a => (rnodes n).all (fun b =>
      rle (f a) (f b) == rle a b && rlt (f a) (f b) == rlt a b))

private theorem equiv_checked : ∀ n ∈ [2, 3], ∀ p ∈ listsOfLen (List.range n) n, p.Nodup →
    equivOK n p = true := by decide +kernel

private theorem indices_lt : ∀ n ∈ [2, 3], ∀ a ∈ rnodes n, ∀ s ∈ a, ∀ i ∈ s, i < n := by
  decide +kernel

theorem nodeMap_congr {n : Nat} (hn : n = 2 ∨ n = 3) {σ τ : Nat → Nat}
    (h : ∀ i < n, σ i = τ i) {a : RNode} (ha : a ∈ rnodes n) : nodeMap σ a = nodeMap τ a := by
  unfold nodeMap
  congr 1
  apply List.map_congr_left
  intro s hs
  apply List.map_congr_left
  intro i hi
  exact h i (indices_lt n (by rcases hn with rfl | rfl <;> simp) a ha s hs i hi)

theorem permFun_map_range {n : Nat} (σ : Nat → Nat) :
    ∀ i < n, permFun ((List.range n).map σ) i = σ i := by
  intro i hi
  simp [permFun, List.getD_eq_getElem?_getD, hi]

/-- For a permutation `σ` of `{0..n-1}` (`n ∈ {2,3}`), the induced map is an order
automorphism of `rnodes n`. -/
theorem nodeMap_auto {n : Nat} (hn : n = 2 ∨ n = 3) (σ : Nat → Nat)
    (hσ : ((List.range n).map σ).Perm (List.range n)) :
    ((rnodes n).map (nodeMap σ)).Perm (rnodes n)
      ∧ ∀ a ∈ rnodes n, ∀ b ∈ rnodes n,
          rle (nodeMap σ a) (nodeMap σ b) = rle a b
          ∧ rlt (nodeMap σ a) (nodeMap σ b) = rlt a b := by
  set p := (List.range n).map σ with hp
  have hmem : p ∈ listsOfLen (List.range n) n := by
    have := mem_listsOfLen (l := List.range n) p (fun x hx => hσ.mem_iff.mp hx)
    simpa [hp] using this
  have hnd : p.Nodup := hσ.nodup_iff.mpr List.nodup_range
  have hok := equiv_checked n (by rcases hn with rfl | rfl <;> simp) p hmem hnd
  have hcongr : ∀ a ∈ rnodes n, nodeMap (permFun p) a = nodeMap σ a :=
    fun a ha => nodeMap_congr hn (permFun_map_range σ) ha
  unfold equivOK at hok
  simp only [Bool.and_eq_true, List.all_eq_true, beq_iff_eq] at hok
  constructor
  · rw [← List.map_congr_left hcongr]
    exact List.isPerm_iff.mp hok.1
  · intro a ha b hb
    rw [← hcongr a ha, ← hcongr b hb]
    exact hok.2 a ha b hb

end Relabel

/-! ### `lminOf` -/

section Lmin
variable {α : Type} [Zero α] [LinearOrder α]

theorem foldl_min_spec (t : List α) (x : α) :
    t.foldl (fun m y => if y < m then y else m) x ∈ x :: t
      ∧ ∀ y ∈ x :: t, t.foldl (fun m y => if y < m then y else m) x ≤ y := by
  induction t generalizing x with
  | nil => simp
  | cons a t ih =>
    rw [List.foldl_cons]
    obtain ⟨h1, h2⟩ := ih (if a < x then a else x)
    constructor
    · rcases List.mem_cons.mp h1 with h | h
      · rw [h]; split <;> simp
      · simp [h]
    · intro y hy
      have hle := h2 _ List.mem_cons_self
      rcases List.mem_cons.mp hy with rfl | hy
      · refine hle.trans ?_
        split
        · rename_i h; exact h.le
        · exact le_rfl
      · rcases List.mem_cons.mp hy with rfl | hy
        · refine hle.trans ?_
          split
          · exact le_rfl
          · rename_i h; exact not_lt.mp h
        · exact h2 y (List.mem_cons_of_mem _ hy)

/-- `lminOf` of a non-empty list is a member and a lower bound: the minimum. -/
theorem lminOf_spec {l : List α} (hl : l ≠ []) : lminOf l ∈ l ∧ ∀ y ∈ l, lminOf l ≤ y := by
  match l, hl with
  | x :: t, _ => exact foldl_min_spec t x

theorem lminOf_singleton (x : α) : lminOf [x] = x := rfl

theorem lminOf_pair (x y : α) : lminOf [x, y] = min x y := by
  show (if y < x then y else x) = min x y
  rw [min_def]
  split
  · rename_i h; rw [if_neg (not_le.mpr h)]
  · rename_i h; rw [if_pos (not_lt.mp h)]

end Lmin

/-! ### `I_mmi` -/

section Immi
variable {σ : Type} [DecidableEq σ] (t : Tab (List σ) ℝ)

local notation "Hℝ" => entropyOf (Real.logb 2)

theorem miOf_eq (S T : VSet) :
    miOf (Real.logb 2) t S T = Hℝ t (vnorm S) + Hℝ t (vnorm T) - Hℝ t (vunion S T) := rfl

/-- `miOf` is the value of the combination `cmiC S T []` when `H(∅) = 0`. -/
theorem miOf_eq_cmi (hmass : (t.map (·.2)).sum = 1) (S T : VSet) :
    miOf (Real.logb 2) t S T = Comb.eval (Rat.castHom ℝ) (Hℝ t) (cmiC S T []) := by
  rw [eval_cmiC, miOf_eq]
  unfold Hc
  have e0 : vnorm ([] : VSet) = [] := rfl
  have e1 : ∀ X : VSet, vunion X [] = vnorm X := by intro X; simp [vunion]
  rw [e0, e1, e1, e1, entropyOf_nil t hmass, ← entropyOf_vnorm t (vunion S T)]
  ring

variable (hnn : ∀ r ∈ t, 0 ≤ r.2)
include hnn

theorem miOf_nonneg (hmass : (t.map (·.2)).sum = 1) (S T : VSet) :
    0 ≤ miOf (Real.logb 2) t S T := by
  rw [miOf_eq_cmi t hmass, eval_cmiC]
  exact entropy_Submod t hnn S T []

/-- Mutual information with the target is monotone in the source set. -/
theorem miOf_mono (T : VSet) {a b : VSet} (h : ∀ x ∈ a, x ∈ b) :
    miOf (Real.logb 2) t a T ≤ miOf (Real.logb 2) t b T := by
  have := entropy_submod t hnn b T a
  rw [miOf_eq, miOf_eq]
  have e1 : Hℝ t (vunion b a) = Hℝ t (vnorm b) :=
    entropyOf_congr t (by intro v; simp only [mem_vunion, mem_vnorm]; have := h v; tauto)
  have e2 : Hℝ t (vunion T a) = Hℝ t (vunion a T) :=
    entropyOf_congr t (by intro v; simp only [mem_vunion]; tauto)
  have e3 : Hℝ t (vunion (vunion b T) a) = Hℝ t (vunion b T) :=
    entropyOf_congr t (by intro v; simp only [mem_vunion]; have := h v; tauto)
  rw [e1, e2, e3] at this
  linarith

/-- `I_mmi` is monotone along the redundancy order. -/
theorem immi_mono (T : VSet) {a b : RNode} (hb : b ≠ []) (h : rle a b = true) :
    immi (Real.logb 2) t T a ≤ immi (Real.logb 2) t T b := by
  unfold immi
  have hb' : b.map (fun s => miOf (Real.logb 2) t s T) ≠ [] := by simpa using hb
  obtain ⟨hmem, _⟩ := lminOf_spec hb'
  obtain ⟨β, hβ, hβe⟩ := List.mem_map.mp hmem
  unfold rle at h
  obtain ⟨α', hα, hsub⟩ := List.any_eq_true.mp (List.all_eq_true.mp h β hβ)
  have ha' : a.map (fun s => miOf (Real.logb 2) t s T) ≠ [] := by
    intro e; rw [List.map_eq_nil_iff] at e; subst e; simp at hα
  have h1 := (lminOf_spec ha').2 _ (List.mem_map_of_mem (f := fun s => miOf (Real.logb 2) t s T) hα)
  rw [← hβe]
  exact h1.trans (miOf_mono t hnn T ((vsubset_iff _ _).mp hsub))

end Immi

section Immi2
variable {σ : Type} [DecidableEq σ] (t : Tab (List σ) ℝ) (hnn : ∀ r ∈ t, 0 ≤ r.2)
include hnn

/-- For two sources all four `I_mmi` atoms are non-negative (table of non-negative values with
total mass 1). -/
theorem immi_atoms_nonneg_n2 (hmass : (t.map (·.2)).sum = 1) (T : VSet) :
    ∀ x ∈ rnodes 2, 0 ≤ lookupD 0 (moebius (rnodes 2) (immi (Real.logb 2) t T)) x := by
  obtain ⟨e0, e1, e2, e3⟩ := moebius_n2 (immi (Real.logb 2) t T)
  have r0 : immi (Real.logb 2) t T [[0], [1]]
      = min (miOf (Real.logb 2) t [0] T) (miOf (Real.logb 2) t [1] T) := lminOf_pair _ _
  have r1 : immi (Real.logb 2) t T [[0]] = miOf (Real.logb 2) t [0] T := rfl
  have r2 : immi (Real.logb 2) t T [[1]] = miOf (Real.logb 2) t [1] T := rfl
  have r3 : immi (Real.logb 2) t T [[0, 1]] = miOf (Real.logb 2) t [0, 1] T := rfl
  have n0 := miOf_nonneg t hnn hmass [0] T
  have n1 := miOf_nonneg t hnn hmass [1] T
  have m0 : miOf (Real.logb 2) t [0] T ≤ miOf (Real.logb 2) t [0, 1] T :=
    miOf_mono t hnn T (by simp)
  have m1 : miOf (Real.logb 2) t [1] T ≤ miOf (Real.logb 2) t [0, 1] T :=
    miOf_mono t hnn T (by simp)
  intro x hx
  have hx' : x = [[0, 1]] ∨ x = [[0]] ∨ x = [[1]] ∨ x = [[0], [1]] := by
    have : rnodes 2 = [[[0, 1]], [[0]], [[1]], [[0], [1]]] := by decide +kernel
    rw [this] at hx; simpa using hx
  rcases hx' with rfl | rfl | rfl | rfl
  · rw [e3, r0, r1, r2, r3]
    rcases le_total (miOf (Real.logb 2) t [0] T) (miOf (Real.logb 2) t [1] T) with h | h
    · rw [min_eq_left h]; linarith
    · rw [min_eq_right h]; linarith
  · rw [e1, r0, r1]
    linarith [min_le_left (miOf (Real.logb 2) t [0] T) (miOf (Real.logb 2) t [1] T)]
  · rw [e2, r0, r2]
    linarith [min_le_right (miOf (Real.logb 2) t [0] T) (miOf (Real.logb 2) t [1] T)]
  · rw [e0, r0]; exact le_min n0 n1

end Immi2

/-! ### Specific information averages to the mutual information -/

section Specific

theorem lookupD_pushforward_eq {κ κ' : Type} [DecidableEq κ'] (f : κ → κ') (t : Tab κ ℝ)
    (k : κ') : lookupD 0 (pushforward f t) k = fibreSum f t k := by
  by_cases hk : k ∈ keys (pushforward f t)
  · obtain ⟨v, hv⟩ := Lemmas.Table.mem_keys.mp hk
    have := (Lemmas.Table.lookup?_eq_some_iff (pushforward_inv f t).1).mpr hv
    unfold lookupD; rw [this]; exact pushforward_val f t _ hv
  · rw [Lemmas.Table.lookupD_of_not_mem 0 hk, fibreSum_eq_zero]
    intro r hr e; exact hk (e ▸ (pushforward_inv f t).2.1 r hr)

theorem le_fibreSum {κ κ' : Type} [DecidableEq κ'] (g : κ → κ') (t : Tab κ ℝ)
    (hnn : ∀ r ∈ t, 0 ≤ r.2) {r : κ × ℝ} (hr : r ∈ t) : r.2 ≤ fibreSum g t (g r.1) := by
  unfold fibreSum
  apply List.single_le_sum
  · intro x hx
    obtain ⟨r', hr', rfl⟩ := List.mem_map.mp hx
    exact hnn r' (List.mem_filter.mp hr').1
  · exact List.mem_map_of_mem (List.mem_filter.mpr ⟨hr, by simp⟩)

/-- A double sum over two duplicate-free lists of a function supported on a duplicate-free list
of pairs inside their product is the sum over that list. -/
theorem sum_prod_eq_sum_support {A B : Type} [DecidableEq A] [DecidableEq B]
    (LA : List A) (LB : List B) (K : List (A × B)) (hA : LA.Nodup) (hB : LB.Nodup)
    (hK : K.Nodup) (hsub : ∀ k ∈ K, k.1 ∈ LA ∧ k.2 ∈ LB) (h : A → B → ℝ)
    (hz : ∀ a b, (a, b) ∉ K → h a b = 0) :
    (LB.map (fun b => (LA.map (fun a => h a b)).sum)).sum
      = (K.map (fun k => h k.1 k.2)).sum := by
  rw [← List.sum_toFinset _ hB, ← List.sum_toFinset _ hK]
  have : ∀ b, (LA.map (fun a => h a b)).sum = ∑ a ∈ LA.toFinset, h a b :=
    fun b => (List.sum_toFinset _ hA).symm
  simp only [this]
  rw [← Finset.sum_product_right' LA.toFinset LB.toFinset h]
  symm
  apply Finset.sum_subset
  · intro k hk
    have := hsub k (List.mem_toFinset.mp hk)
    simp [Finset.mem_product, this.1, this.2]
  · intro k _ hk
    exact hz k.1 k.2 (by simpa using hk)

variable {σ : Type} [DecidableEq σ] (t : Tab (List σ) ℝ)

/-- The pair projection used by `specificInfo`. -/
abbrev fST (S T : VSet) : List σ → List σ × List σ := fun o => (project S o, project T o)

/-- `p(a,τ) log₂ (p(a,τ) / p(a) / p(τ))`, zero when one of the three vanishes. -/
noncomputable def hterm (S T : VSet) (a τ : List σ) : ℝ :=
  if fibreSum (fST S T) t (a, τ) = 0 ∨ fibreSum (project S) t a = 0
      ∨ fibreSum (project T) t τ = 0 then 0
  else fibreSum (fST S T) t (a, τ)
    * Real.logb 2 (fibreSum (fST S T) t (a, τ) / fibreSum (project S) t a
        / fibreSum (project T) t τ)

theorem specific_term (S T : VSet) (τ : List σ × ℝ) (hτ : τ ∈ pushforward (project T) t) :
    (if τ.2 == 0 then 0 else τ.2 * specificInfo (Real.logb 2) t S T τ.1)
      = ((pushforward (project S) t).map (fun a => hterm t S T a.1 τ.1)).sum := by
  have hτ2 : τ.2 = fibreSum (project T) t τ.1 := pushforward_val _ t τ hτ
  by_cases h0 : τ.2 = 0
  · rw [if_pos (by simpa using h0)]
    symm
    apply List.sum_eq_zero
    intro x hx
    obtain ⟨a, _, rfl⟩ := List.mem_map.mp hx
    unfold hterm
    rw [if_pos (Or.inr (Or.inr (hτ2 ▸ h0)))]
  · rw [if_neg (by simpa using h0)]
    unfold specificInfo
    simp only [lsum_eq_sum, lookupD_pushforward_eq]
    rw [← List.sum_map_mul_left]
    congr 1
    apply List.map_congr_left
    intro a ha
    have ha2 : a.2 = fibreSum (project S) t a.1 := pushforward_val _ t a ha
    unfold hterm
    rw [← ha2, ← hτ2]
    by_cases hc : fibreSum (fST S T) t (a.1, τ.1) = 0 ∨ a.2 = 0 ∨ τ.2 = 0
    · rw [if_pos hc, if_pos (by simpa [or_assoc] using hc), mul_zero]
    · rw [if_neg hc, if_neg (by simpa [or_assoc] using hc)]
      field_simp

/-- `log₂ (p(a,τ) / p(a) / p(τ))` for a pair `k = (a, τ)`. -/
noncomputable def lterm (S T : VSet) (k : List σ × List σ) : ℝ :=
  if fibreSum (project S) t k.1 = 0 ∨ fibreSum (project T) t k.2 = 0 then 0
  else Real.logb 2 (fibreSum (fST S T) t k / fibreSum (project S) t k.1
        / fibreSum (project T) t k.2)

/-- The average of the specific informations as a sum over the rows of the table. -/
theorem specific_avg_rows (S T : VSet) :
    lsum ((pushforward (project T) t).map (fun τ =>
        if τ.2 == 0 then 0 else τ.2 * specificInfo (Real.logb 2) t S T τ.1))
      = (t.map (fun r => r.2 * lterm t S T (fST S T r.1))).sum := by
  rw [lsum_eq_sum, List.map_congr_left (fun τ hτ => specific_term t S T τ hτ)]
  have e1 : ∀ τ : List σ × ℝ, ((pushforward (project S) t).map (fun a => hterm t S T a.1 τ.1)).sum
      = ((keys (pushforward (project S) t)).map (fun a => hterm t S T a τ.1)).sum := by
    intro τ; rw [keys, List.map_map]; rfl
  simp only [e1]
  have e2 : ((pushforward (project T) t).map (fun τ =>
        ((keys (pushforward (project S) t)).map (fun a => hterm t S T a τ.1)).sum))
      = (keys (pushforward (project T) t)).map (fun b =>
        ((keys (pushforward (project S) t)).map (fun a => hterm t S T a b)).sum) := by
    simp only [keys, List.map_map, Function.comp_def]
  rw [e2, sum_prod_eq_sum_support _ _ (keys (pushforward (fST S T) t))
    (pushforward_inv _ t).1 (pushforward_inv _ t).1 (pushforward_inv _ t).1]
  · rw [keys, List.map_map]
    rw [← sum_pushforward (fun k v => v * lterm t S T k) (by intro k v v'; ring) (fST S T) t]
    congr 1
    apply List.map_congr_left
    intro r hr
    have hr2 : r.2 = fibreSum (fST S T) t r.1 := pushforward_val _ t r hr
    simp only [Function.comp_apply]
    unfold hterm lterm
    rw [← hr2]
    by_cases h0 : r.2 = 0
    · rw [if_pos (Or.inl h0), h0, zero_mul]
    · by_cases hc : fibreSum (project S) t r.1.1 = 0 ∨ fibreSum (project T) t r.1.2 = 0
      · rw [if_pos (Or.inr hc), if_pos hc, mul_zero]
      · rw [if_neg (by tauto), if_neg hc]
  · intro k hk
    rw [keys_pushforward, mem_dedup] at hk
    obtain ⟨r, hr, rfl⟩ := List.mem_map.mp hk
    exact ⟨(pushforward_inv _ t).2.1 r hr, (pushforward_inv _ t).2.1 r hr⟩
  · intro a b hab
    unfold hterm
    rw [if_pos (Or.inl ?_)]
    apply fibreSum_eq_zero
    intro r hr e
    exact hab (e ▸ (pushforward_inv (fST S T) t).2.1 r hr)

/-- The fibres of the pair projection are those of the projection on the union. -/
theorem fibreSum_pair (S T : VSet) (o : List σ) :
    fibreSum (fST S T) t (fST S T o)
      = fibreSum (project (vunion S T)) t (project (vunion S T) o) := by
  rw [fibreSum_eq_ite, fibreSum_eq_ite]
  congr 1
  apply List.map_congr_left
  intro r _
  have : fST S T r.1 = fST S T o ↔ project (vunion S T) r.1 = project (vunion S T) o := by
    simp only [fST, Prod.mk.injEq, project_eq_iff, mem_vunion]
    constructor
    · rintro ⟨h1, h2⟩ i (hi | hi)
      · exact h1 i hi
      · exact h2 i hi
    · intro h; exact ⟨fun i hi => h i (Or.inl hi), fun i hi => h i (Or.inr hi)⟩
  simp only [this]

variable (hnn : ∀ r ∈ t, 0 ≤ r.2)
include hnn

theorem rows_eq_miOf (S T : VSet) :
    (t.map (fun r => r.2 * lterm t S T (fST S T r.1))).sum = miOf (Real.logb 2) t S T := by
  have hpt : ∀ r ∈ t, r.2 * lterm t S T (fST S T r.1)
      = (r.2 * Real.logb 2 (fibreSum (project (vunion S T)) t (project (vunion S T) r.1))
          - r.2 * Real.logb 2 (fibreSum (project S) t (project S r.1)))
        - r.2 * Real.logb 2 (fibreSum (project T) t (project T r.1)) := by
    intro r hr
    by_cases h0 : r.2 = 0
    · rw [h0]; simp
    · have hpos : 0 < r.2 := lt_of_le_of_ne (hnn r hr) (Ne.symm h0)
      have h1 : 0 < fibreSum (fST S T) t (fST S T r.1) :=
        lt_of_lt_of_le hpos (le_fibreSum (fST S T) t hnn hr)
      have h2 : 0 < fibreSum (project S) t (project S r.1) :=
        lt_of_lt_of_le hpos (le_fibreSum (project S) t hnn hr)
      have h3 : 0 < fibreSum (project T) t (project T r.1) :=
        lt_of_lt_of_le hpos (le_fibreSum (project T) t hnn hr)
      unfold lterm
      rw [if_neg (by
        intro h; rcases h with h | h
        · exact h2.ne' h
        · exact h3.ne' h)]
      rw [Real.logb_div (div_pos h1 h2).ne' h3.ne', Real.logb_div h1.ne' h2.ne', fibreSum_pair]
      ring
  rw [List.map_congr_left hpt, Lemmas.Partition.sum_map_sub, Lemmas.Partition.sum_map_sub,
    miOf, ← entropyOf_vnorm, ← entropyOf_vnorm, entropyOf_rows, entropyOf_rows, entropyOf_rows]
  ring

/-- **Specific information averages to the mutual information**:
`Σ_τ p(τ) I(S ; T = τ) = I(S : T)`, for a table with non-negative values. -/
theorem specific_avg (S T : VSet) :
    lsum ((pushforward (project T) t).map (fun τ =>
        if τ.2 == 0 then 0 else τ.2 * specificInfo (Real.logb 2) t S T τ.1))
      = miOf (Real.logb 2) t S T := by
  rw [specific_avg_rows, rows_eq_miOf t hnn]

/-- Self-redundancy of `I_min`: on a single-set node it is the mutual information. -/
theorem imin_single (S T : VSet) : imin (Real.logb 2) t T [S] = miOf (Real.logb 2) t S T := by
  rw [← specific_avg t hnn S T]
  rfl

end Specific
/-! ### The core inequality restricted to a union of classes -/

section CoreQ
open Finset
variable {ι : Type} [Fintype ι] {β : Type} [DecidableEq β] {w : ι → ℝ} (hw : ∀ i, 0 ≤ w i)
include hw

/-- `core_T_le` restricted to a set `Q` of indices that is a union of `c`-classes. -/
theorem core_T_le_on (a b c d : ι → β) (Q : ι → Prop) [DecidablePred Q]
    (hQ : ∀ i j, c i = c j → Q i → Q j)
    (hbd : ∀ i j, b i = b j → d i = d j) (hcd : ∀ i j, c i = c j → d i = d j)
    (hbc : ∀ i j, b i = b j → c i = c j → a i = a j) :
    ∑ i, (if Q i then w i * cm w b i * cm w c i / (cm w a i * cm w d i) else 0)
      ≤ ∑ i, (if Q i then w i else 0) := by
  have e : ∀ i ∈ Finset.univ,
      (if Q i then w i * cm w b i * cm w c i / (cm w a i * cm w d i) else 0)
        = ∑ j, ∑ k, (if Q i then (if b i = b j ∧ c i = c k then w i / cm w a i else 0) else 0)
            * (w j * w k / cm w d j) := by
    intro i _
    by_cases hi : Q i
    · simp only [hi, if_true]; exact term_expand a b c d hbd i
    · simp [hi]
  rw [Finset.sum_congr rfl e, Finset.sum_comm]
  -- now `∑ j, ∑ i, ∑ k`
  have e2 : ∀ j ∈ Finset.univ,
      ∑ i, ∑ k, (if Q i then (if b i = b j ∧ c i = c k then w i / cm w a i else 0) else 0)
            * (w j * w k / cm w d j)
        = ∑ k, (∑ i, (if Q i then (if b i = b j ∧ c i = c k then w i / cm w a i else 0) else 0))
            * (w j * w k / cm w d j) := by
    intro j _
    rw [Finset.sum_comm]
    apply Finset.sum_congr rfl
    intro k _
    rw [Finset.sum_mul]
  rw [Finset.sum_congr rfl e2]
  have hjk : ∀ j k : ι,
      (∑ i, (if Q i then (if b i = b j ∧ c i = c k then w i / cm w a i else 0) else 0))
            * (w j * w k / cm w d j)
        ≤ (if d j = d k then w j / cm w d k else 0) * (if Q k then w k else 0) := by
    intro j k
    have hg : 0 ≤ w j * w k / cm w d j :=
      div_nonneg (mul_nonneg (hw j) (hw k)) (cm_nonneg hw d j)
    by_cases hk : Q k
    · have h1 : ∑ i, (if Q i then (if b i = b j ∧ c i = c k then w i / cm w a i else 0) else 0)
          ≤ ∑ i, (if b i = b j ∧ c i = c k then w i / cm w a i else 0) := by
        apply Finset.sum_le_sum
        intro i _
        by_cases hi : Q i
        · simp [hi]
        · simp only [hi, if_false]
          split
          · exact div_nonneg (hw i) (cm_nonneg hw a i)
          · exact le_rfl
      have h2 := h1.trans (key_le hw a b c d hbd hcd hbc j k)
      refine (mul_le_mul_of_nonneg_right h2 hg).trans (le_of_eq ?_)
      by_cases hd : d j = d k
      · have : cm w d j = cm w d k := cm_congr_cls d hd
        rw [if_pos hd, if_pos hd, if_pos hk, this]; ring
      · rw [if_neg hd, if_neg hd]; ring
    · have h0 : ∑ i, (if Q i then (if b i = b j ∧ c i = c k then w i / cm w a i else 0) else 0)
          = 0 := by
        apply Finset.sum_eq_zero
        intro i _
        by_cases hi : Q i
        · rw [if_pos hi, if_neg]
          rintro ⟨_, hc⟩
          exact hk (hQ i k hc hi)
        · rw [if_neg hi]
      rw [h0, zero_mul, if_neg hk, mul_zero]
  refine (Finset.sum_le_sum (fun j _ => Finset.sum_le_sum (fun k _ => hjk j k))).trans ?_
  rw [Finset.sum_comm]
  apply Finset.sum_le_sum
  intro k _
  rw [← Finset.sum_mul]
  have hle : ∑ j, (if d j = d k then w j / cm w d k else 0) ≤ 1 := by
    have : ∑ j, (if d j = d k then w j / cm w d k else 0) = cm w d k / cm w d k := by
      unfold cm
      rw [Finset.sum_div]
      apply Finset.sum_congr rfl
      intro j _
      split <;> simp
    rw [this]
    exact div_self_le_one _
  have hnn : 0 ≤ (if Q k then w k else 0) := by split; exact hw k; exact le_rfl
  calc _ ≤ 1 * (if Q k then w k else 0) := mul_le_mul_of_nonneg_right hle hnn
    _ = _ := one_mul _

/-- `core_log` restricted to a union `Q` of `c`-classes. -/
theorem core_log_on (a b c d : ι → β) (Q : ι → Prop) [DecidablePred Q]
    (hQ : ∀ i j, c i = c j → Q i → Q j)
    (hbd : ∀ i j, b i = b j → d i = d j) (hcd : ∀ i j, c i = c j → d i = d j)
    (hbc : ∀ i j, b i = b j → c i = c j → a i = a j) :
    0 ≤ ∑ i, (if Q i then w i * (Real.log (cm w a i) + Real.log (cm w d i)
                      - Real.log (cm w b i) - Real.log (cm w c i)) else 0) := by
  have h1 : ∑ i, ((if Q i then w i else 0)
        - (if Q i then w i * cm w b i * cm w c i / (cm w a i * cm w d i) else 0))
      ≤ ∑ i, (if Q i then w i * (Real.log (cm w a i) + Real.log (cm w d i)
                      - Real.log (cm w b i) - Real.log (cm w c i)) else 0) := by
    apply Finset.sum_le_sum
    intro i _
    by_cases hi : Q i
    · simp only [hi, if_true]
      rcases (hw i).eq_or_lt with h0 | hpos
      · rw [← h0]; simp
      · have pos : ∀ f : ι → β, 0 < cm w f i := fun f => hpos.trans_le (le_cm hw f i)
        have := mul_le_mul_of_nonneg_left
          (log_term _ _ _ _ (pos a) (pos b) (pos c) (pos d)) hpos.le
        refine le_trans (le_of_eq ?_) this
        ring
    · simp [hi]
  have h2 := core_T_le_on hw a b c d Q hQ hbd hcd hbc
  rw [Finset.sum_sub_distrib] at h1
  linarith

end CoreQ
/-! ### Specific information: row form for one target value, monotonicity -/

section SpecificMono
variable {σ : Type} [DecidableEq σ] (t : Tab (List σ) ℝ)

/-- `p(τ) · I(S ; T = τ)` as a sum over the rows of the table with target value `τ`. -/
theorem specific_rows (S T : VSet) (τ : List σ × ℝ) (hτ : τ ∈ pushforward (project T) t) :
    (if τ.2 == 0 then 0 else τ.2 * specificInfo (Real.logb 2) t S T τ.1)
      = (t.map (fun r => if project T r.1 = τ.1 then r.2 * lterm t S T (fST S T r.1)
          else 0)).sum := by
  rw [specific_term t S T τ hτ]
  have hτk : τ.1 ∈ keys (pushforward (project T) t) := Lemmas.Table.mem_keys_of_mem hτ
  have e1 : ((pushforward (project S) t).map (fun a => hterm t S T a.1 τ.1)).sum
      = ((keys (pushforward (project T) t)).map (fun b =>
          ((keys (pushforward (project S) t)).map (fun a =>
            if τ.1 = b then hterm t S T a b else 0)).sum)).sum := by
    have : ∀ b : List σ, ((keys (pushforward (project S) t)).map (fun a =>
            if τ.1 = b then hterm t S T a b else 0)).sum
        = if τ.1 = b then ((keys (pushforward (project S) t)).map
            (fun a => hterm t S T a b)).sum else 0 := by
      intro b; split <;> simp
    simp only [this]
    rw [Lemmas.Table.sum_map_ite_eq_of_nodup (pushforward_inv _ t).1 hτk
      (fun b => ((keys (pushforward (project S) t)).map (fun a => hterm t S T a b)).sum),
      keys, List.map_map]
    rfl
  rw [e1, sum_prod_eq_sum_support _ _ (keys (pushforward (fST S T) t))
    (pushforward_inv _ t).1 (pushforward_inv _ t).1 (pushforward_inv _ t).1]
  · rw [keys, List.map_map]
    have e3 : (t.map (fun r => if project T r.1 = τ.1 then r.2 * lterm t S T (fST S T r.1)
          else 0)).sum
        = (t.map (fun r => (fun (k : List σ × List σ) (v : ℝ) =>
            if k.2 = τ.1 then v * lterm t S T k else 0) (fST S T r.1) r.2)).sum := rfl
    rw [e3, ← sum_pushforward (fun (k : List σ × List σ) (v : ℝ) =>
        if k.2 = τ.1 then v * lterm t S T k else 0)
      (by intro k v v'; split <;> ring) (fST S T) t]
    congr 1
    apply List.map_congr_left
    intro r hr
    have hr2 : r.2 = fibreSum (fST S T) t r.1 := pushforward_val _ t r hr
    simp only [Function.comp_apply]
    by_cases hb : r.1.2 = τ.1
    · rw [if_pos hb.symm, if_pos hb]
      unfold hterm lterm
      rw [← hr2]
      by_cases h0 : r.2 = 0
      · rw [if_pos (Or.inl h0), h0, zero_mul]
      · by_cases hc : fibreSum (project S) t r.1.1 = 0 ∨ fibreSum (project T) t r.1.2 = 0
        · rw [if_pos (Or.inr hc), if_pos hc, mul_zero]
        · rw [if_neg (by tauto), if_neg hc]
    · rw [if_neg (fun e => hb e.symm), if_neg hb]
  · intro k hk
    rw [keys_pushforward, mem_dedup] at hk
    obtain ⟨r, hr, rfl⟩ := List.mem_map.mp hk
    exact ⟨(pushforward_inv _ t).2.1 r hr, (pushforward_inv _ t).2.1 r hr⟩
  · intro a b hab
    split
    · unfold hterm
      rw [if_pos (Or.inl ?_)]
      apply fibreSum_eq_zero
      intro r hr e
      exact hab (e ▸ (pushforward_inv (fST S T) t).2.1 r hr)
    · rfl

variable (hnn : ∀ r ∈ t, 0 ≤ r.2)
include hnn

/-- A row's contribution in terms of the three class masses. -/
theorem mul_lterm (S T : VSet) {r : List σ × ℝ} (hr : r ∈ t) :
    r.2 * lterm t S T (fST S T r.1)
      = r.2 * (Real.logb 2 (fibreSum (project (vunion S T)) t (project (vunion S T) r.1))
          - Real.logb 2 (fibreSum (project S) t (project S r.1))
          - Real.logb 2 (fibreSum (project T) t (project T r.1))) := by
  by_cases h0 : r.2 = 0
  · rw [h0]; simp
  · have hpos : 0 < r.2 := lt_of_le_of_ne (hnn r hr) (Ne.symm h0)
    have h1 : 0 < fibreSum (fST S T) t (fST S T r.1) :=
      lt_of_lt_of_le hpos (le_fibreSum (fST S T) t hnn hr)
    have h2 : 0 < fibreSum (project S) t (project S r.1) :=
      lt_of_lt_of_le hpos (le_fibreSum (project S) t hnn hr)
    have h3 : 0 < fibreSum (project T) t (project T r.1) :=
      lt_of_lt_of_le hpos (le_fibreSum (project T) t hnn hr)
    unfold lterm
    rw [if_neg (by
      intro h; rcases h with h | h
      · exact h2.ne' h
      · exact h3.ne' h)]
    rw [Real.logb_div (div_pos h1 h2).ne' h3.ne', Real.logb_div h1.ne' h2.ne', fibreSum_pair]

/-- **Specific information is monotone in the source set**, in row form: for `S ⊆ S'` and any
target value `τ₀`. -/
theorem specific_rows_mono (S S' T : VSet) (hsub : ∀ v ∈ S, v ∈ S') (τ₀ : List σ) :
    (t.map (fun r => if project T r.1 = τ₀ then r.2 * lterm t S T (fST S T r.1) else 0)).sum
      ≤ (t.map (fun r => if project T r.1 = τ₀ then r.2 * lterm t S' T (fST S' T r.1)
          else 0)).sum := by
  rw [← sub_nonneg, ← Lemmas.Partition.sum_map_sub]
  have hw : ∀ i : Fin t.length, 0 ≤ (fun j : Fin t.length => t[j.1].2) i :=
    fun i => hnn _ (List.getElem_mem i.2)
  have hmem : ∀ (X X' : List Nat) (_ : ∀ v ∈ X', v ∈ X) (i j : Fin t.length),
      project X t[i.1].1 = project X t[j.1].1 → project X' t[i.1].1 = project X' t[j.1].1 := by
    intro X X' hX i j h
    rw [project_eq_iff] at h ⊢
    exact fun v hv => h v (hX v hv)
  have hcore := core_log_on hw
    (fun j : Fin t.length => project (vunion S' T) t[j.1].1)
    (fun j : Fin t.length => project S' t[j.1].1)
    (fun j : Fin t.length => project (vunion S T) t[j.1].1)
    (fun j : Fin t.length => project S t[j.1].1)
    (fun j : Fin t.length => project T t[j.1].1 = τ₀)
    (by
      intro i j h hi
      have := hmem (vunion S T) T (by intro v hv; exact (mem_vunion _ _ _).mpr (Or.inr hv)) i j h
      exact this ▸ hi)
    (hmem _ _ hsub)
    (hmem _ _ (by intro v hv; exact (mem_vunion _ _ _).mpr (Or.inl hv)))
    (by
      intro i j h1 h2
      simp only [project_eq_iff] at h1 h2 ⊢
      intro v hv
      rcases (mem_vunion _ _ _).mp hv with hv | hv
      · exact h1 v hv
      · exact h2 v ((mem_vunion _ _ _).mpr (Or.inr hv)))
  have hl : 0 < Real.log 2 := Real.log_pos (by norm_num)
  refine le_trans (div_nonneg hcore hl.le) (le_of_eq ?_)
  rw [Finset.sum_div, ← Fin.sum_univ_fun_getElem t]
  apply Finset.sum_congr rfl
  intro i _
  have hi : t[i.1] ∈ t := List.getElem_mem i.2
  by_cases hq : project T t[i.1].1 = τ₀
  · simp only [hq, if_true]
    rw [mul_lterm t hnn S' T hi, mul_lterm t hnn S T hi]
    simp only [fibreSum_eq_rowMass, rowMass_eq_cm, ← Real.log_div_log]
    ring
  · simp [hq]

/-- For a table of total mass 1 the specific information of the empty source set vanishes
(row form). -/
theorem specific_rows_nil (hmass : (t.map (·.2)).sum = 1) (T : VSet) (τ₀ : List σ) :
    (t.map (fun r => if project T r.1 = τ₀ then r.2 * lterm t [] T (fST [] T r.1) else 0)).sum
      = 0 := by
  apply List.sum_eq_zero
  intro x hx
  obtain ⟨r, hr, rfl⟩ := List.mem_map.mp hx
  split
  · rw [mul_lterm t hnn [] T hr]
    have e1 : fibreSum (project (vunion [] T)) t (project (vunion [] T) r.1)
        = fibreSum (project T) t (project T r.1) := by
      rw [fibreSum_eq_ite, fibreSum_eq_ite]
      congr 1
      apply List.map_congr_left
      intro r' _
      have : project (vunion [] T) r'.1 = project (vunion [] T) r.1
          ↔ project T r'.1 = project T r.1 := by
        simp only [project_eq_iff, mem_vunion, List.not_mem_nil, false_or]
      simp only [this]
    have e2 : fibreSum (project []) t (project [] r.1) = 1 := by
      rw [fibreSum_eq_ite, ← hmass]
      congr 1
    rw [e1, e2]; simp
  · rfl

omit hnn in
theorem fibreSum_nonneg' {κ κ' : Type} [DecidableEq κ'] (g : κ → κ') (u : Tab κ ℝ)
    (hu : ∀ r ∈ u, 0 ≤ r.2) (x : κ') : 0 ≤ fibreSum g u x := by
  unfold fibreSum
  apply List.sum_nonneg
  intro y hy
  obtain ⟨r, hr, rfl⟩ := List.mem_map.mp hy
  exact hu r (List.mem_filter.mp hr).1

/-- A stored target value of non-zero probability has positive probability. -/
theorem target_pos (T : VSet) {τ : List σ × ℝ} (hτ : τ ∈ pushforward (project T) t)
    (h0 : τ.2 ≠ 0) : 0 < τ.2 := by
  have : 0 ≤ τ.2 := by
    rw [pushforward_val _ t τ hτ]; exact fibreSum_nonneg' _ t hnn _
  exact lt_of_le_of_ne this (Ne.symm h0)

/-- **Specific information is monotone in the source set** (`S ⊆ S'`), at every stored target
value of non-zero probability. -/
theorem specific_mono (S S' T : VSet) (hsub : ∀ v ∈ S, v ∈ S') {τ : List σ × ℝ}
    (hτ : τ ∈ pushforward (project T) t) (h0 : τ.2 ≠ 0) :
    specificInfo (Real.logb 2) t S T τ.1 ≤ specificInfo (Real.logb 2) t S' T τ.1 := by
  have h1 := specific_rows t S T τ hτ
  have h2 := specific_rows t S' T τ hτ
  rw [if_neg (by simpa using h0)] at h1 h2
  have := specific_rows_mono t hnn S S' T hsub τ.1
  rw [← h1, ← h2] at this
  exact le_of_mul_le_mul_left this (target_pos t hnn T hτ h0)

/-- **Specific information is non-negative** for a table of total mass 1. -/
theorem specific_nonneg (hmass : (t.map (·.2)).sum = 1) (S T : VSet) {τ : List σ × ℝ}
    (hτ : τ ∈ pushforward (project T) t) (h0 : τ.2 ≠ 0) :
    0 ≤ specificInfo (Real.logb 2) t S T τ.1 := by
  have h1 := specific_rows t [] T τ hτ
  rw [if_neg (by simpa using h0), specific_rows_nil t hnn hmass] at h1
  have hz : specificInfo (Real.logb 2) t [] T τ.1 = 0 := by
    rcases mul_eq_zero.mp h1 with h | h
    · exact absurd h h0
    · exact h
  rw [← hz]
  exact specific_mono t hnn [] S T (by simp) hτ h0

omit hnn in
/-- `I_min` as a plain sum over the stored target values. -/
theorem imin_eq_sum (T : VSet) (node : RNode) :
    imin (Real.logb 2) t T node
      = ((pushforward (project T) t).map (fun τ =>
          if τ.2 = 0 then 0
          else τ.2 * lminOf (node.map (fun s => specificInfo (Real.logb 2) t s T τ.1)))).sum := by
  unfold imin
  rw [lsum_eq_sum]
  congr 1
  apply List.map_congr_left
  intro τ _
  by_cases h : τ.2 = 0 <;> simp [h]

/-- `I_min` is monotone along the redundancy order. -/
theorem imin_mono (T : VSet) {a b : RNode} (hb : b ≠ []) (h : rle a b = true) :
    imin (Real.logb 2) t T a ≤ imin (Real.logb 2) t T b := by
  rw [imin_eq_sum, imin_eq_sum]
  apply List.sum_le_sum
  intro τ hτ
  by_cases h0 : τ.2 = 0
  · simp [h0]
  · rw [if_neg h0, if_neg h0]
    apply mul_le_mul_of_nonneg_left _ (target_pos t hnn T hτ h0).le
    have hb' : b.map (fun s => specificInfo (Real.logb 2) t s T τ.1) ≠ [] := by simpa using hb
    obtain ⟨hmem, _⟩ := lminOf_spec hb'
    obtain ⟨β, hβ, hβe⟩ := List.mem_map.mp hmem
    unfold rle at h
    obtain ⟨α', hα, hsub⟩ := List.any_eq_true.mp (List.all_eq_true.mp h β hβ)
    have ha' : a.map (fun s => specificInfo (Real.logb 2) t s T τ.1) ≠ [] := by
      intro e; rw [List.map_eq_nil_iff] at e; subst e; simp at hα
    have h1 := (lminOf_spec ha').2 _
      (List.mem_map_of_mem (f := fun s => specificInfo (Real.logb 2) t s T τ.1) hα)
    rw [← hβe]
    exact h1.trans (specific_mono t hnn α' β T ((vsubset_iff _ _).mp hsub) hτ h0)

/-- For two sources all four `I_min` atoms are non-negative (Williams–Beer): table of
non-negative values with total mass 1. -/
theorem imin_atoms_nonneg_n2 (hmass : (t.map (·.2)).sum = 1) (T : VSet) :
    ∀ x ∈ rnodes 2, 0 ≤ lookupD 0 (moebius (rnodes 2) (imin (Real.logb 2) t T)) x := by
  obtain ⟨e0, e1, e2, e3⟩ := moebius_n2 (imin (Real.logb 2) t T)
  have nonneg_sum : ∀ f : List σ × ℝ → ℝ,
      (∀ τ ∈ pushforward (project T) t, 0 ≤ f τ) →
      0 ≤ ((pushforward (project T) t).map f).sum := by
    intro f hf
    apply List.sum_nonneg
    intro y hy
    obtain ⟨τ, hτ, rfl⟩ := List.mem_map.mp hy
    exact hf τ hτ
  intro x hx
  have hx' : x = [[0, 1]] ∨ x = [[0]] ∨ x = [[1]] ∨ x = [[0], [1]] := by
    have : rnodes 2 = [[[0, 1]], [[0]], [[1]], [[0], [1]]] := by decide +kernel
    rw [this] at hx; simpa using hx
  rcases hx' with rfl | rfl | rfl | rfl
  · rw [e3]
    simp only [imin_eq_sum, ← Lemmas.Partition.sum_map_sub, ← List.sum_map_add]
    apply nonneg_sum
    intro τ hτ
    by_cases h0 : τ.2 = 0
    · simp [h0]
    · simp only [h0, if_false, List.map_cons, List.map_nil, lminOf_singleton, lminOf_pair]
      have hp := target_pos t hnn T hτ h0
      have m0 := specific_mono t hnn [0] [0, 1] T (by simp) hτ h0
      have m1 := specific_mono t hnn [1] [0, 1] T (by simp) hτ h0
      rcases le_total (specificInfo (Real.logb 2) t [0] T τ.1)
        (specificInfo (Real.logb 2) t [1] T τ.1) with h | h
      · rw [min_eq_left h]; nlinarith
      · rw [min_eq_right h]; nlinarith
  · rw [e1]
    simp only [imin_eq_sum, ← Lemmas.Partition.sum_map_sub]
    apply nonneg_sum
    intro τ hτ
    by_cases h0 : τ.2 = 0
    · simp [h0]
    · simp only [h0, if_false, List.map_cons, List.map_nil, lminOf_singleton, lminOf_pair]
      have hp := target_pos t hnn T hτ h0
      have := min_le_left (specificInfo (Real.logb 2) t [0] T τ.1)
        (specificInfo (Real.logb 2) t [1] T τ.1)
      nlinarith
  · rw [e2]
    simp only [imin_eq_sum, ← Lemmas.Partition.sum_map_sub]
    apply nonneg_sum
    intro τ hτ
    by_cases h0 : τ.2 = 0
    · simp [h0]
    · simp only [h0, if_false, List.map_cons, List.map_nil, lminOf_singleton, lminOf_pair]
      have hp := target_pos t hnn T hτ h0
      have := min_le_right (specificInfo (Real.logb 2) t [0] T τ.1)
        (specificInfo (Real.logb 2) t [1] T τ.1)
      nlinarith
  · rw [e0, imin_eq_sum]
    apply nonneg_sum
    intro τ hτ
    by_cases h0 : τ.2 = 0
    · simp [h0]
    · simp only [h0, if_false, List.map_cons, List.map_nil, lminOf_pair]
      exact mul_nonneg (target_pos t hnn T hτ h0).le
        (le_min (specific_nonneg t hnn hmass [0] T hτ h0)
          (specific_nonneg t hnn hmass [1] T hτ h0))

end SpecificMono

section MinTypeAll
open Dit.Lemmas.Partition

/-! ### Redundancies of minimum type have non-negative atoms -/

section Lin
variable {A : Type} [CommRing A] (nodes : List RNode) (hnd : nodes.Nodup) (htr : TransOn nodes)
include hnd htr

/-- The Möbius table only depends on the redundancies of the nodes. -/
theorem moebius_congr {red red' : RNode → A} (h : ∀ x ∈ nodes, red x = red' x) :
    ∀ x ∈ nodes, lookupD 0 (moebius nodes red) x = lookupD 0 (moebius nodes red') x := by
  intro x hx
  refine (moebius_unique nodes red' hnd htr (fun m => lookupD 0 (moebius nodes red) m) ?_ x hx)
  intro y hy
  rw [← h y hy]
  exact moebius_sum nodes red hnd htr hy

/-- Möbius inversion is linear in the redundancy function. -/
theorem moebius_linear (a : A) (r1 r2 : RNode → A) :
    ∀ x ∈ nodes, lookupD 0 (moebius nodes (fun x => a * r1 x + r2 x)) x
      = a * lookupD 0 (moebius nodes r1) x + lookupD 0 (moebius nodes r2) x := by
  intro x hx
  refine (moebius_unique nodes (fun x => a * r1 x + r2 x) hnd htr
    (fun m => a * lookupD 0 (moebius nodes r1) m + lookupD 0 (moebius nodes r2) m) ?_ x hx).symm
  intro y hy
  have e1 := moebius_sum nodes r1 hnd htr hy
  have e2 := moebius_sum nodes r2 hnd htr hy
  rw [List.sum_map_add, List.sum_map_mul_left, e1, e2]; ring

theorem moebius_zero : ∀ x ∈ nodes, lookupD 0 (moebius nodes (fun _ => (0 : A))) x = 0 := by
  intro x hx
  exact (moebius_unique nodes (fun _ => (0 : A)) hnd htr (fun _ => 0) (by intro y _; simp) x
    hx).symm

/-- Möbius inversion of a finite linear combination of redundancy functions. -/
theorem moebius_list_sum {ι : Type} (l : List ι) (c : ι → A) (r : ι → RNode → A) :
    ∀ x ∈ nodes, lookupD 0 (moebius nodes (fun x => (l.map (fun i => c i * r i x)).sum)) x
      = (l.map (fun i => c i * lookupD 0 (moebius nodes (r i)) x)).sum := by
  induction l with
  | nil => intro x hx; simpa using moebius_zero nodes hnd htr x hx
  | cons i l ih =>
    intro x hx
    simp only [List.map_cons, List.sum_cons]
    rw [moebius_linear nodes hnd htr (c i) (r i) _ x hx, ih x hx]

/-- The atoms of the indicator of the up-set of a node `y`: one unit at `y`. -/
theorem moebius_indicator {y : RNode} (hy : y ∈ nodes) (hrefl : rle y y = true) :
    ∀ x ∈ nodes, lookupD 0 (moebius nodes (fun x => if rle y x = true then (1 : A) else 0)) x
      = if y = x then 1 else 0 := by
  intro x hx
  refine (moebius_unique nodes _ hnd htr (fun m => if y = m then (1 : A) else 0) ?_ x hx).symm
  intro z hz
  have hs : ((rbelow nodes z).map (fun m => if y = m then (1 : A) else 0)).sum
      = if rlt y z = true then 1 else 0 := by
    by_cases hlt : rlt y z = true
    · rw [if_pos hlt]
      exact Lemmas.Table.sum_map_ite_eq_of_nodup (hnd.filter _) (mem_rbelow.mpr ⟨hy, hlt⟩)
        (fun _ => (1 : A))
    · rw [if_neg hlt]
      apply List.sum_eq_zero
      intro v hv
      obtain ⟨m, hm, rfl⟩ := List.mem_map.mp hv
      rw [if_neg]
      rintro rfl
      exact hlt (mem_rbelow.mp hm).2
  rw [hs]
  by_cases hyz : y = z
  · subst hyz
    simp [hrefl, rlt_irrefl]
  · have : rlt y z = rle y z := by simp [rlt, hyz]
    rw [this, if_neg hyz, zero_add]

end Lin

section MinType

/-- `U` is closed under supersets among the non-empty subsets of `{0..n-1}`. -/
def isUp (n : Nat) (U : List VSet) : Bool :=
  U.all (fun α => (atomSets n).all (fun β => !vsubset α β || U.contains β))

private theorem upset_checked : ∀ n ∈ [2, 3], ∀ U ∈ sublists (atomSets n), U ≠ [] →
    isUp n U = true →
    ∃ y ∈ rnodes n, ∀ x ∈ rnodes n, x.all (fun α => U.contains α) = rle y x := by
  decide +kernel

private theorem node_sets_checked : ∀ n ∈ [2, 3], ∀ x ∈ rnodes n,
    x ≠ [] ∧ ∀ α ∈ x, α ∈ atomSets n := by decide +kernel

theorem lminOf_eq_of_spec {l : List ℝ} {v : ℝ} (hv : v ∈ l) (hle : ∀ y ∈ l, v ≤ y) :
    lminOf l = v := by
  have hl : l ≠ [] := by rintro rfl; simp at hv
  obtain ⟨h1, h2⟩ := lminOf_spec hl
  exact le_antisymm (h2 v hv) (hle _ h1)

theorem lminOf_map_sub (l : List VSet) (hl : l ≠ []) (f : VSet → ℝ) (m : ℝ) :
    lminOf (l.map (fun α => f α - m)) = lminOf (l.map f) - m := by
  have hl' : l.map f ≠ [] := by simpa using hl
  obtain ⟨h1, h2⟩ := lminOf_spec hl'
  obtain ⟨α, hα, hαe⟩ := List.mem_map.mp h1
  apply lminOf_eq_of_spec
  · rw [← hαe]; exact List.mem_map_of_mem (f := fun α => f α - m) hα
  · intro y hy
    obtain ⟨β, hβ, rfl⟩ := List.mem_map.mp hy
    have := h2 (f β) (List.mem_map_of_mem hβ)
    linarith

/-- **Minimum-type redundancies have non-negative atoms** (2 or 3 sources): if
`red(x) = min_{α ∈ x} f(α)` with `f` non-negative and monotone under inclusion of source sets,
every Möbius atom is non-negative. (Peeling off the smallest positive value of `f`: `red` is a
non-negative combination of indicators of up-sets of nodes, whose atoms are unit masses.) -/
theorem min_type_atoms_nonneg {n : Nat} (hn : n = 2 ∨ n = 3) (f : VSet → ℝ)
    (hmono : ∀ α ∈ atomSets n, ∀ β ∈ atomSets n, vsubset α β = true → f α ≤ f β)
    (hnn : ∀ α ∈ atomSets n, 0 ≤ f α) :
    ∀ x ∈ rnodes n, 0 ≤ lookupD 0 (moebius (rnodes n) (fun x => lminOf (x.map f))) x := by
  have hnd := nodup_rnodes hn
  have htr := transOn_rnodes hn
  have hsets := node_sets_checked n (mem23 hn)
  induction hk : ((atomSets n).filter (fun α => decide (0 < f α))).length
    using Nat.strong_induction_on generalizing f with
  | _ k ih =>
    intro x hx
    by_cases hU : (atomSets n).filter (fun α => decide (0 < f α)) = []
    · -- `f` vanishes: all redundancies are zero
      have hf0 : ∀ α ∈ atomSets n, f α = 0 := by
        intro α hα
        have : ¬ 0 < f α := by
          intro h
          have : α ∈ (atomSets n).filter (fun α => decide (0 < f α)) :=
            List.mem_filter.mpr ⟨hα, by simpa using h⟩
          rw [hU] at this; simp at this
        exact le_antisymm (not_lt.mp this) (hnn α hα)
      have hred : ∀ z ∈ rnodes n, (fun x : RNode => lminOf (x.map f)) z = (fun _ => (0 : ℝ)) z := by
        intro z hz
        obtain ⟨hne, hmem⟩ := hsets z hz
        obtain ⟨α, hα⟩ := List.exists_mem_of_ne_nil z hne
        apply lminOf_eq_of_spec
        · rw [← hf0 α (hmem α hα)]; exact List.mem_map_of_mem hα
        · intro v hv
          obtain ⟨β, hβ, rfl⟩ := List.mem_map.mp hv
          exact (hf0 β (hmem β hβ)).ge
      rw [moebius_congr (rnodes n) hnd htr hred x hx, moebius_zero (rnodes n) hnd htr x hx]
    · -- peel off the smallest positive value
      set U := (atomSets n).filter (fun α => decide (0 < f α)) with hUdef
      have hUmem : ∀ α, α ∈ U ↔ α ∈ atomSets n ∧ 0 < f α := by
        intro α; rw [hUdef, List.mem_filter]; simp
      have hUf : U.map f ≠ [] := by simpa using hU
      obtain ⟨hm1, hm2⟩ := lminOf_spec hUf
      set m := lminOf (U.map f) with hmdef
      obtain ⟨αs, hαs, hαe⟩ := List.mem_map.mp hm1
      have hmpos : 0 < m := by rw [← hαe]; exact ((hUmem αs).mp hαs).2
      have hmle : ∀ α ∈ atomSets n, 0 < f α → m ≤ f α :=
        fun α hα hpos => hm2 _ (List.mem_map_of_mem ((hUmem α).mpr ⟨hα, hpos⟩))
      have hup : isUp n U = true := by
        unfold isUp
        rw [List.all_eq_true]
        intro α hα
        rw [List.all_eq_true]
        intro β hβ
        by_cases hs : vsubset α β = true
        · have h1 := (hUmem α).mp hα
          have : β ∈ U := (hUmem β).mpr ⟨hβ, lt_of_lt_of_le h1.2 (hmono α h1.1 β hβ hs)⟩
          simp [this]
        · simp [hs]
      obtain ⟨y, hy, hyx⟩ := upset_checked n (mem23 hn) U
        (mem_sublists.mpr List.filter_sublist) hU hup
      let f' : VSet → ℝ := fun α => if 0 < f α then f α - m else 0
      have hf'nn : ∀ α ∈ atomSets n, 0 ≤ f' α := by
        intro α hα
        show 0 ≤ (if 0 < f α then f α - m else 0)
        split
        · rename_i h; linarith [hmle α hα h]
        · exact le_rfl
      have hf'mono : ∀ α ∈ atomSets n, ∀ β ∈ atomSets n, vsubset α β = true → f' α ≤ f' β := by
        intro α hα β hβ hs
        have hle := hmono α hα β hβ hs
        show (if 0 < f α then f α - m else 0) ≤ (if 0 < f β then f β - m else 0)
        by_cases h1 : 0 < f α
        · rw [if_pos h1, if_pos (lt_of_lt_of_le h1 hle)]; linarith
        · rw [if_neg h1]; exact hf'nn β hβ
      have hcount : ((atomSets n).filter (fun α => decide (0 < f' α))).length < k := by
        rw [← hk]
        apply length_filter_lt (w := αs)
        · intro a _ ha
          have ha' : 0 < (if 0 < f a then f a - m else 0) := by simpa using ha
          by_cases h1 : 0 < f a
          · simpa using h1
          · rw [if_neg h1] at ha'; exact absurd ha' (lt_irrefl 0)
        · exact ((hUmem αs).mp hαs).1
        · simpa using ((hUmem αs).mp hαs).2
        · have : f' αs = 0 := by
            show (if 0 < f αs then f αs - m else 0) = 0
            rw [if_pos ((hUmem αs).mp hαs).2, hαe, sub_self]
          simp [this]
      have key : ∀ z ∈ rnodes n, (fun x : RNode => lminOf (x.map f)) z
          = (fun x : RNode =>
              m * (if rle y x = true then (1 : ℝ) else 0) + lminOf (x.map f')) z := by
        intro z hz
        obtain ⟨hne, hmem⟩ := hsets z hz
        have hall := hyx z hz
        by_cases hle : rle y z = true
        · rw [hle, List.all_eq_true] at hall
          have hmap : z.map f' = z.map (fun α => f α - m) := by
            apply List.map_congr_left
            intro α hα
            have : α ∈ U := by simpa using hall α hα
            show (if 0 < f α then f α - m else 0) = f α - m
            rw [if_pos ((hUmem α).mp this).2]
          simp only [hle, if_true, hmap, lminOf_map_sub z hne f m]
          ring
        · have hle' : rle y z = false := by simpa using hle
          rw [hle'] at hall
          obtain ⟨α, hα, hαU⟩ : ∃ α ∈ z, α ∉ U := by
            by_contra hcon
            have : z.all (fun α => U.contains α) = true := by
              rw [List.all_eq_true]
              intro α hα
              by_contra h
              exact hcon ⟨α, hα, by simpa using h⟩
            rw [this] at hall; exact Bool.noConfusion hall
          have hfα : f α = 0 := by
            have h1 : ¬ 0 < f α := fun h => hαU ((hUmem α).mpr ⟨hmem α hα, h⟩)
            exact le_antisymm (not_lt.mp h1) (hnn α (hmem α hα))
          have e1 : lminOf (z.map f) = 0 := by
            apply lminOf_eq_of_spec
            · rw [← hfα]; exact List.mem_map_of_mem hα
            · intro v hv
              obtain ⟨β, hβ, rfl⟩ := List.mem_map.mp hv
              exact hnn β (hmem β hβ)
          have e2 : lminOf (z.map f') = 0 := by
            apply lminOf_eq_of_spec
            · have : f' α = 0 := by
                show (if 0 < f α then f α - m else 0) = 0
                rw [if_neg (by rw [hfα]; exact lt_irrefl 0)]
              rw [← this]; exact List.mem_map_of_mem hα
            · intro v hv
              obtain ⟨β, hβ, rfl⟩ := List.mem_map.mp hv
              exact hf'nn β (hmem β hβ)
          simp only [hle, e1, e2]
          simp
      rw [moebius_congr (rnodes n) hnd htr key x hx,
        moebius_linear (rnodes n) hnd htr m _ _ x hx,
        moebius_indicator (rnodes n) hnd htr hy (rle_refl hn hy) x hx]
      have ih' := ih _ hcount f' hf'mono hf'nn rfl x hx
      have : 0 ≤ m * (if y = x then (1 : ℝ) else 0) := by
        split
        · linarith
        · simp
      linarith

end MinType
section Apply
variable {σ : Type} [DecidableEq σ] (t : Tab (List σ) ℝ) (hnn : ∀ r ∈ t, 0 ≤ r.2)
include hnn

/-- All `I_mmi` atoms are non-negative, for 2 or 3 sources. -/
theorem immi_atoms_nonneg {n : Nat} (hn : n = 2 ∨ n = 3) (hmass : (t.map (·.2)).sum = 1)
    (T : VSet) :
    ∀ x ∈ rnodes n, 0 ≤ lookupD 0 (moebius (rnodes n) (immi (Real.logb 2) t T)) x :=
  min_type_atoms_nonneg hn (fun s => miOf (Real.logb 2) t s T)
    (fun _ _ _ _ hs => miOf_mono t hnn T ((vsubset_iff _ _).mp hs))
    (fun α _ => miOf_nonneg t hnn hmass α T)

/-- All `I_min` atoms are non-negative, for 2 or 3 sources (Williams–Beer). -/
theorem imin_atoms_nonneg {n : Nat} (hn : n = 2 ∨ n = 3) (hmass : (t.map (·.2)).sum = 1)
    (T : VSet) :
    ∀ x ∈ rnodes n, 0 ≤ lookupD 0 (moebius (rnodes n) (imin (Real.logb 2) t T)) x := by
  intro x hx
  have hnd := nodup_rnodes hn
  have htr := transOn_rnodes hn
  let g : List σ × ℝ → VSet → ℝ :=
    fun τ s => if τ.2 = 0 then 0 else specificInfo (Real.logb 2) t s T τ.1
  have hred : ∀ z ∈ rnodes n, imin (Real.logb 2) t T z
      = (fun z : RNode => ((pushforward (project T) t).map
          (fun τ => τ.2 * (fun z : RNode => lminOf (z.map (g τ))) z)).sum) z := by
    intro z _
    rw [imin_eq_sum]
    congr 1
    apply List.map_congr_left
    intro τ _
    by_cases h0 : τ.2 = 0
    · simp [h0]
    · have : g τ = fun s => specificInfo (Real.logb 2) t s T τ.1 := by
        funext s; show (if τ.2 = 0 then 0 else _) = _; rw [if_neg h0]
      simp only [h0, if_false, this]
  rw [moebius_congr (rnodes n) hnd htr hred x hx,
    moebius_list_sum (rnodes n) hnd htr (pushforward (project T) t) (fun τ => τ.2)
      (fun τ z => lminOf (z.map (g τ))) x hx]
  apply List.sum_nonneg
  intro v hv
  obtain ⟨τ, hτ, rfl⟩ := List.mem_map.mp hv
  by_cases h0 : τ.2 = 0
  · simp [h0]
  · apply mul_nonneg (target_pos t hnn T hτ h0).le
    apply min_type_atoms_nonneg hn (g τ) _ _ x hx
    · intro α _ β _ hs
      show (if τ.2 = 0 then 0 else _) ≤ (if τ.2 = 0 then 0 else _)
      rw [if_neg h0, if_neg h0]
      exact specific_mono t hnn α β T ((vsubset_iff _ _).mp hs) hτ h0
    · intro α _
      show 0 ≤ (if τ.2 = 0 then 0 else _)
      rw [if_neg h0]
      exact specific_nonneg t hnn hmass α T hτ h0

end Apply

end MinTypeAll

end Dit.Lemmas.Lattice
