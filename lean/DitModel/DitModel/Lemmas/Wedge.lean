/-
Helper lemmas for `I_∧` (`Core/Wedge.lean`). Property theorems are in Wip/C17Wedge.lean.

* `Hmap_submod`: the core inequality (`I(B : C | D) ≥ 0`) for the entropies of the laws of four maps
  on one table, `Imap f y t = H(f) + H(y) − H(f, y)` and data processing (`Imap_le_of_function`);
* dropping the stored zeros of a table changes no entropy (`Hmap_support`, `entropyOf_supportTab`);
* `iwedge` as the `Imap` of the coded meet label with the projection on the target on `supportTab t`;
* the meet label of a single group, and of a node below another one.
-/
import DitModel.Core.Wedge
import DitModel.Props.C16
import DitModel.Props.C17

set_option linter.unusedSectionVars false

namespace Dit.Lemmas.Wedge
open Dit Dit.Lemmas.Table Dit.Lemmas.Meet Dit.Lemmas.InfoAlg Dit.Lemmas.InfoReal Dit.Lemmas.Lattice

/-! ## Submodularity and data processing for maps on one table -/

section Maps
variable {κ κ₁ κ₂ κ₃ κ₄ : Type} [DecidableEq κ₁] [DecidableEq κ₂] [DecidableEq κ₃] [DecidableEq κ₄]

/-- **Conditional mutual information is non-negative, for maps**: if `d` is a function of `b` and
of `c`, and `a` is a function of the pair `(b, c)` on the stored outcomes of a table with
non-negative values, then `H(a) + H(d) ≤ H(b) + H(c)`. -/
theorem Hmap_submod (a : κ → κ₁) (b : κ → κ₂) (c : κ → κ₃) (d : κ → κ₄) (t : Tab κ ℝ)
    (hnn : ∀ r ∈ t, 0 ≤ r.2)
    (hbd : ∀ k ∈ keys t, ∀ k' ∈ keys t, b k = b k' → d k = d k')
    (hcd : ∀ k ∈ keys t, ∀ k' ∈ keys t, c k = c k' → d k = d k')
    (hbc : ∀ k ∈ keys t, ∀ k' ∈ keys t, b k = b k' → c k = c k' → a k = a k') :
    Hmap a t + Hmap d t ≤ Hmap b t + Hmap c t := by
  have hw : ∀ i : Fin t.length, 0 ≤ wOf t i := fun i => hnn _ (List.getElem_mem i.2)
  have hcore := core_log hw
    (fun j => (Sum.inl (atRow a t j) : κ₁ ⊕ (κ₂ ⊕ (κ₃ ⊕ κ₄))))
    (fun j => Sum.inr (Sum.inl (atRow b t j)))
    (fun j => Sum.inr (Sum.inr (Sum.inl (atRow c t j))))
    (fun j => Sum.inr (Sum.inr (Sum.inr (atRow d t j))))
    (by
      intro i j e
      have e' : atRow b t i = atRow b t j := by simpa using e
      rw [show atRow d t i = atRow d t j from
        hbd _ (mem_keys_getElem t i) _ (mem_keys_getElem t j) e'])
    (by
      intro i j e
      have e' : atRow c t i = atRow c t j := by simpa using e
      rw [show atRow d t i = atRow d t j from
        hcd _ (mem_keys_getElem t i) _ (mem_keys_getElem t j) e'])
    (by
      intro i j e1 e2
      have e1' : atRow b t i = atRow b t j := by simpa using e1
      have e2' : atRow c t i = atRow c t j := by simpa using e2
      rw [show atRow a t i = atRow a t j from
        hbc _ (mem_keys_getElem t i) _ (mem_keys_getElem t j) e1' e2'])
  have ea : ∀ i, cm (wOf t) (fun j => (Sum.inl (atRow a t j) : κ₁ ⊕ (κ₂ ⊕ (κ₃ ⊕ κ₄)))) i
      = cm (wOf t) (atRow a t) i :=
    fun i => cm_congr_equiv _ _ _ i (fun j => by simp)
  have eb : ∀ i, cm (wOf t)
      (fun j => (Sum.inr (Sum.inl (atRow b t j)) : κ₁ ⊕ (κ₂ ⊕ (κ₃ ⊕ κ₄)))) i
      = cm (wOf t) (atRow b t) i :=
    fun i => cm_congr_equiv _ _ _ i (fun j => by simp)
  have ec : ∀ i, cm (wOf t)
      (fun j => (Sum.inr (Sum.inr (Sum.inl (atRow c t j))) : κ₁ ⊕ (κ₂ ⊕ (κ₃ ⊕ κ₄)))) i
      = cm (wOf t) (atRow c t) i :=
    fun i => cm_congr_equiv _ _ _ i (fun j => by simp)
  have ed : ∀ i, cm (wOf t)
      (fun j => (Sum.inr (Sum.inr (Sum.inr (atRow d t j))) : κ₁ ⊕ (κ₂ ⊕ (κ₃ ⊕ κ₄)))) i
      = cm (wOf t) (atRow d t) i :=
    fun i => cm_congr_equiv _ _ _ i (fun j => by simp)
  simp only [ea, eb, ec, ed] at hcore
  rw [Hmap_fin, Hmap_fin, Hmap_fin, Hmap_fin]
  have hl : 0 < Real.log 2 := Real.log_pos (by norm_num)
  have hdiv := div_nonneg hcore hl.le
  rw [← sub_nonneg]
  refine le_trans hdiv (le_of_eq ?_)
  rw [Finset.sum_div, ← Finset.sum_neg_distrib, ← Finset.sum_neg_distrib,
    ← Finset.sum_neg_distrib, ← Finset.sum_neg_distrib, ← Finset.sum_add_distrib,
    ← Finset.sum_add_distrib, ← Finset.sum_sub_distrib]
  apply Finset.sum_congr rfl
  intro i _
  simp only [← Real.log_div_log]
  ring

/-- Mutual information (bits) of the laws of two maps under a table: `H(f) + H(y) − H(f, y)`. -/
noncomputable def Imap (f : κ → κ₁) (y : κ → κ₂) (t : Tab κ ℝ) : ℝ :=
  Hmap f t + Hmap y t - Hmap (fun k => (f k, y k)) t

/-- **Data processing**: if `f` is a function of `g` on the stored outcomes of a table with
non-negative values, `I(f : y) ≤ I(g : y)`. -/
theorem Imap_le_of_function (f : κ → κ₁) (g : κ → κ₂) (y : κ → κ₃) (t : Tab κ ℝ)
    (hnn : ∀ r ∈ t, 0 ≤ r.2)
    (h : ∀ k ∈ keys t, ∀ k' ∈ keys t, g k = g k' → f k = f k') :
    Imap f y t ≤ Imap g y t := by
  have hs := Hmap_submod (fun k => (g k, y k)) g (fun k => (f k, y k)) f t hnn h
    (fun k _ k' _ e => (Prod.mk.inj e).1)
    (fun k _ k' _ e1 e2 => by rw [e1, (Prod.mk.inj e2).2])
  unfold Imap
  linarith

/-- Equivalent maps carry the same information about `y`. -/
theorem Imap_equiv (f : κ → κ₁) (g : κ → κ₂) (y : κ → κ₃) (t : Tab κ ℝ)
    (h : ∀ k ∈ keys t, ∀ k' ∈ keys t, f k = f k' ↔ g k = g k') :
    Imap f y t = Imap g y t := by
  unfold Imap
  rw [Hmap_equiv f g t h,
    Hmap_equiv (fun k => (f k, y k)) (fun k => (g k, y k)) t (fun k hk k' hk' => by
      simp only [Prod.mk.injEq]; rw [h k hk k' hk'])]

end Maps

/-! ## Dropping the stored zeros -/

section Support
variable {κ κ₁ : Type} [DecidableEq κ₁]

theorem sum_map_filter {β : Type} (l : List β) (p : β → Bool) (g : β → ℝ)
    (h : ∀ r ∈ l, p r = false → g r = 0) : ((l.filter p).map g).sum = (l.map g).sum := by
  induction l with
  | nil => rfl
  | cons x l ih =>
    have ih' := ih (fun r hr => h r (List.mem_cons_of_mem _ hr))
    cases hp : p x with
    | true => rw [List.filter_cons_of_pos hp, List.map_cons, List.map_cons, List.sum_cons,
        List.sum_cons, ih']
    | false =>
      rw [List.filter_cons_of_neg (by simp [hp]), List.map_cons, List.sum_cons, ih',
        h x List.mem_cons_self hp, zero_add]

theorem support_pred_false {r : κ × ℝ} (h : (!(r.2 == 0)) = false) : r.2 = 0 := by
  simpa using h

theorem fibreSum_support (f : κ → κ₁) (t : Tab κ ℝ) (x : κ₁) :
    fibreSum f (t.filter (fun r => !(r.2 == 0))) x = fibreSum f t x := by
  rw [fibreSum_eq_ite, fibreSum_eq_ite]
  apply sum_map_filter
  intro r _ hr
  rw [support_pred_false hr]; simp

/-- **Stored zeros contribute to no entropy**: the law of `f` under the rows of non-zero value has
the entropy of the law of `f` under the whole table. -/
theorem Hmap_support (f : κ → κ₁) (t : Tab κ ℝ) :
    Hmap f (t.filter (fun r => !(r.2 == 0))) = Hmap f t := by
  rw [Hmap_rows, Hmap_rows]
  congr 1
  simp only [fibreSum_support]
  apply sum_map_filter
  intro r _ hr
  rw [support_pred_false hr, zero_mul]

theorem sum_vals_support (t : Tab κ ℝ) :
    ((t.filter (fun r => !(r.2 == 0))).map (·.2)).sum = (t.map (·.2)).sum := by
  apply sum_map_filter
  intro r _ hr
  exact support_pred_false hr

end Support

/-! ## `supportTab`, `withMeet`, `iwedge` -/

section Wedge
variable {σ : Type} [DecidableEq σ]

theorem supportTab_eq (t : Tab (List σ) ℝ) :
    supportTab t = t.filter (fun r => !(r.2 == 0)) := rfl

theorem mem_supportTab {t : Tab (List σ) ℝ} {r : List σ × ℝ} (h : r ∈ supportTab t) : r ∈ t :=
  (List.mem_filter.mp h).1

theorem mem_keys_supportTab {t : Tab (List σ) ℝ} {k : List σ} (h : k ∈ keys (supportTab t)) :
    k ∈ keys t := by
  obtain ⟨r, hr, rfl⟩ := List.mem_map.mp h
  exact List.mem_map_of_mem (mem_supportTab hr)

theorem entropyOf_supportTab (t : Tab (List σ) ℝ) (X : List Nat) :
    entropyOf (Real.logb 2) (supportTab t) X = entropyOf (Real.logb 2) t X :=
  Hmap_support (project X) t

theorem miOf_supportTab (t : Tab (List σ) ℝ) (S T : VSet) :
    miOf (Real.logb 2) (supportTab t) S T = miOf (Real.logb 2) t S T := by
  unfold miOf
  rw [entropyOf_supportTab, entropyOf_supportTab, entropyOf_supportTab]

theorem supportTab_nonneg {t : Tab (List σ) ℝ} (hnn : ∀ r ∈ t, 0 ≤ r.2) :
    ∀ r ∈ supportTab t, 0 ≤ r.2 := fun r hr => hnn r (mem_supportTab hr)

theorem supportTab_mass (t : Tab (List σ) ℝ) :
    ((supportTab t).map (·.2)).sum = (t.map (·.2)).sum := sum_vals_support t

/-- The symbol appended by `withMeet` to the outcome `o`. -/
noncomputable def wlabel (code : Nat → σ) (t : Tab (List σ) ℝ) (node : RNode) (o : List σ) : σ :=
  code (labelOf (meetClasses node (keys (supportTab t))) o)

theorem withMeet_eq (code : Nat → σ) (t : Tab (List σ) ℝ) (node : RNode) :
    withMeet code t node
      = insertRvf (fun o => [wlabel code t node o]) none (supportTab t) := rfl

theorem withMeet_nonneg (code : Nat → σ) {t : Tab (List σ) ℝ} (node : RNode)
    (hnn : ∀ r ∈ t, 0 ≤ r.2) : ∀ r ∈ withMeet code t node, 0 ≤ r.2 := by
  intro r hr
  rw [withMeet_eq, Lemmas.Constructors.insertRvf_eq_map] at hr
  obtain ⟨r', hr', rfl⟩ := List.mem_map.mp hr
  exact supportTab_nonneg hnn r' hr'

theorem withMeet_mass (code : Nat → σ) (t : Tab (List σ) ℝ) (node : RNode) :
    ((withMeet code t node).map (·.2)).sum = (t.map (·.2)).sum := by
  rw [withMeet_eq, Lemmas.Constructors.insertRvf_eq_map, List.map_map, ← supportTab_mass t]
  rfl

/-- The mutual information of two sets of variables is the `Imap` of the two projections. -/
theorem miOf_eq_Imap (t : Tab (List σ) ℝ) (S T : VSet) :
    miOf (Real.logb 2) t S T = Imap (project S) (project T) t := by
  unfold miOf Imap
  rw [← entropyOf_vnorm, ← entropyOf_vnorm, entropyOf_eq_Hmap, entropyOf_eq_Hmap,
    entropyOf_eq_Hmap]
  congr 1
  apply Hmap_equiv
  intro k _ k' _
  simp only [Prod.mk.injEq, project_eq_iff, mem_vunion]
  constructor
  · intro h; exact ⟨fun i hi => h i (Or.inl hi), fun i hi => h i (Or.inr hi)⟩
  · rintro ⟨h1, h2⟩ i (hi | hi)
    · exact h1 i hi
    · exact h2 i hi

variable (code : Nat → σ) (t : Tab (List σ) ℝ) (n : Nat) (hlen : ∀ k ∈ keys t, k.length = n)
include hlen

theorem supportTab_len : ∀ k ∈ keys (supportTab t), k.length = n :=
  fun k hk => hlen k (mem_keys_supportTab hk)

/-- Appending the meet label (and dropping stored zeros) changes no entropy of old variables. -/
theorem withMeet_old (node : RNode) (S : VSet) (hS : ∀ v ∈ S, v < n) :
    entropyOf (Real.logb 2) (withMeet code t node) S = entropyOf (Real.logb 2) t S := by
  rw [withMeet_eq, entropyOf_old _ n _ (supportTab_len t n hlen) S hS, entropyOf_supportTab]

/-- `I_∧` is the mutual information, on the support, of the coded meet label with the target. -/
theorem iwedge_eq_Imap (node : RNode) (T : VSet) (hT : ∀ v ∈ T, v < n) :
    iwedge (Real.logb 2) code t n T node
      = Imap (wlabel code t node) (project T) (supportTab t) := by
  have hl := supportTab_len t n hlen
  unfold iwedge miOf
  rw [← entropyOf_vnorm, ← entropyOf_vnorm,
    entropyOf_congr (withMeet code t node) (X := vunion [n] T) (X' := T ++ [n])
      (by intro v; rw [mem_vunion]; simp [or_comm]),
    withMeet_eq, entropyOf_new _ n _ hl, entropyOf_old _ n _ hl T hT,
    entropyOf_old_new _ n _ hl T hT]
  rfl

omit hlen

/-- Mutual information of old variables as an `Imap` on the support. -/
theorem miOf_eq_Imap_support (S T : VSet) :
    miOf (Real.logb 2) t S T = Imap (project S) (project T) (supportTab t) := by
  rw [← miOf_supportTab, miOf_eq_Imap]

/-- The meet label of a node is a function of (the projection on) each of its source sets. -/
theorem wlabel_function_of_source (node : RNode) {s : VSet} (hs : s ∈ node) :
    ∀ k ∈ keys (supportTab t), ∀ k' ∈ keys (supportTab t),
      project s k = project s k' → wlabel code t node k = wlabel code t node k' := by
  intro k hk k' hk' e
  unfold wlabel
  rw [Props.C16.meet_function_of_each node (keys (supportTab t)) hs hk hk' e]

/-- For a single source set the meet label is equivalent to the projection on that set. -/
theorem wlabel_single (hcode : Function.Injective code) (s : VSet) :
    ∀ k ∈ keys (supportTab t), ∀ k' ∈ keys (supportTab t),
      wlabel code t [s] k = wlabel code t [s] k' ↔ project s k = project s k' := by
  intro k hk k' hk'
  constructor
  · intro e
    have e' := hcode e
    rw [Props.C16.meet_label_iff [s] (keys (supportTab t)) hk hk'] at e'
    refine const_of_reach [s] (keys (supportTab t)) (project s) ?_ hk e'
    intro g hg o _ o' _ h
    rw [List.mem_singleton] at hg
    subst hg
    exact h
  · exact wlabel_function_of_source code t [s] (List.mem_singleton_self s) k hk k' hk'

/-- For `rle a b`, the meet label of `a` is a function of the meet label of `b`. -/
theorem wlabel_function_of_upper (hcode : Function.Injective code) (a b : RNode)
    (h : rle a b = true) :
    ∀ k ∈ keys (supportTab t), ∀ k' ∈ keys (supportTab t),
      wlabel code t b k = wlabel code t b k' → wlabel code t a k = wlabel code t a k' := by
  intro k hk k' hk' e
  have e' := hcode e
  refine (Props.C16.meet_finest b (keys (supportTab t)) (wlabel code t a) ?_).1 k hk k' hk' e'
  intro β hβ o ho o' ho' hp
  unfold rle at h
  obtain ⟨α', hα, hsub⟩ := List.any_eq_true.mp (List.all_eq_true.mp h β hβ)
  have hsub' := (vsubset_iff _ _).mp hsub
  apply wlabel_function_of_source code t a hα o ho o' ho'
  rw [project_eq_iff] at hp ⊢
  exact fun i hi => hp i (hsub' i hi)

end Wedge

end Dit.Lemmas.Wedge
