/-
Helper lemmas for the f-divergence model. Property theorems are in Props/C06FDiv.lean.
-/
import DitModel.Core.FDiv
import DitModel.Props.C06
import Mathlib.Analysis.Convex.Jensen
import Mathlib.Algebra.BigOperators.Fin

set_option linter.unusedSectionVars false

namespace Dit.Lemmas.FDiv
open Dit Dit.Lemmas.Table Dit.Lemmas.InfoReal Dit.Lemmas.Diverge

/-! ### The fold of `fdivVals` -/

/-- One step of the fold of `fdivVals`. -/
noncomputable def step (f : ℝ → ℝ) (finf : Option ℝ) (acc : Option ℝ) (r : ℝ × ℝ) : Option ℝ :=
  match acc, fdivTerm f finf r with
  | some a, some b => some (a + b)
  | _, _ => none

theorem fdivVals_eq_foldl (f : ℝ → ℝ) (finf : Option ℝ) (pq : List (ℝ × ℝ)) :
    fdivVals f finf pq = pq.foldl (step f finf) (some 0) := by
  unfold fdivVals
  congr 1
  funext acc r
  unfold step
  cases acc <;> cases fdivTerm f finf r <;> rfl

theorem step_none (f : ℝ → ℝ) (finf : Option ℝ) (r : ℝ × ℝ) : step f finf none r = none := rfl

theorem step_some_some (f : ℝ → ℝ) (finf : Option ℝ) (a b : ℝ) (r : ℝ × ℝ)
    (h : fdivTerm f finf r = some b) : step f finf (some a) r = some (a + b) := by
  unfold step; rw [h]

theorem step_some_none (f : ℝ → ℝ) (finf : Option ℝ) (a : ℝ) (r : ℝ × ℝ)
    (h : fdivTerm f finf r = none) : step f finf (some a) r = none := by
  unfold step; rw [h]

theorem foldl_step_none (f : ℝ → ℝ) (finf : Option ℝ) (pq : List (ℝ × ℝ)) :
    pq.foldl (step f finf) none = none := by
  induction pq with
  | nil => rfl
  | cons r t ih => rw [List.foldl_cons, step_none, ih]

/-- If every term is finite the fold is the sum of the terms (accumulator generalised). -/
theorem foldl_step_some (f : ℝ → ℝ) (finf : Option ℝ) (h : ℝ × ℝ → ℝ) (pq : List (ℝ × ℝ))
    (hg : ∀ r ∈ pq, fdivTerm f finf r = some (h r)) (a : ℝ) :
    pq.foldl (step f finf) (some a) = some (a + (pq.map h).sum) := by
  induction pq generalizing a with
  | nil => simp
  | cons r t ih =>
    rw [List.foldl_cons, step_some_some f finf a (h r) r (hg r List.mem_cons_self),
      ih (fun y hy => hg y (List.mem_cons_of_mem _ hy)), List.map_cons, List.sum_cons, add_assoc]

/-- If some term is infinite the fold is infinite. -/
theorem foldl_step_of_none (f : ℝ → ℝ) (finf : Option ℝ) (pq : List (ℝ × ℝ))
    (hg : ∃ r ∈ pq, fdivTerm f finf r = none) (acc : Option ℝ) :
    pq.foldl (step f finf) acc = none := by
  induction pq generalizing acc with
  | nil => obtain ⟨r, hr, _⟩ := hg; simp at hr
  | cons x t ih =>
    rw [List.foldl_cons]
    cases acc with
    | none => rw [step_none, foldl_step_none]
    | some a =>
      obtain ⟨r, hr, hn⟩ := hg
      rcases List.mem_cons.mp hr with rfl | hr
      · rw [step_some_none f finf a r hn, foldl_step_none]
      · exact ih ⟨r, hr, hn⟩ _

theorem fdivVals_of_some (f : ℝ → ℝ) (finf : Option ℝ) (h : ℝ × ℝ → ℝ) (pq : List (ℝ × ℝ))
    (hg : ∀ r ∈ pq, fdivTerm f finf r = some (h r)) :
    fdivVals f finf pq = some ((pq.map h).sum) := by
  rw [fdivVals_eq_foldl, foldl_step_some f finf h pq hg, zero_add]

theorem fdivVals_of_none (f : ℝ → ℝ) (finf : Option ℝ) (pq : List (ℝ × ℝ))
    (hg : ∃ r ∈ pq, fdivTerm f finf r = none) : fdivVals f finf pq = none := by
  rw [fdivVals_eq_foldl, foldl_step_of_none f finf pq hg]

/-! ### The terms -/

/-- The (finite) value of one term, `c` standing for `f'(∞)`. -/
noncomputable def termR (f : ℝ → ℝ) (c : ℝ) (r : ℝ × ℝ) : ℝ :=
  if r.2 = 0 then (if r.1 = 0 then 0 else r.1 * c) else r.2 * f (r.1 / r.2)

theorem fdivTerm_some (f : ℝ → ℝ) (c : ℝ) (r : ℝ × ℝ) :
    fdivTerm f (some c) r = some (termR f c r) := by
  unfold fdivTerm termR
  by_cases h2 : r.2 = 0
  · by_cases h1 : r.1 = 0 <;> simp [h1, h2]
  · simp [h2]

theorem fdivTerm_of_ne (f : ℝ → ℝ) (finf : Option ℝ) (r : ℝ × ℝ) (h2 : r.2 ≠ 0) :
    fdivTerm f finf r = some (r.2 * f (r.1 / r.2)) := by
  unfold fdivTerm
  simp [h2]

theorem fdivTerm_zero_zero (f : ℝ → ℝ) (finf : Option ℝ) (r : ℝ × ℝ) (h2 : r.2 = 0)
    (h1 : r.1 = 0) : fdivTerm f finf r = some 0 := by
  unfold fdivTerm
  simp [h1, h2]

theorem fdivTerm_none_iff (f : ℝ → ℝ) (r : ℝ × ℝ) :
    fdivTerm f none r = none ↔ r.2 = 0 ∧ r.1 ≠ 0 := by
  unfold fdivTerm
  by_cases h2 : r.2 = 0
  · by_cases h1 : r.1 = 0 <;> simp [h1, h2]
  · simp [h2]

/-- Away from a support violation the term does not depend on `f'(∞)`. -/
theorem fdivTerm_of_ac (f : ℝ → ℝ) (finf : Option ℝ) (c : ℝ) (r : ℝ × ℝ)
    (h : r.2 = 0 → r.1 = 0) : fdivTerm f finf r = some (termR f c r) := by
  by_cases h2 : r.2 = 0
  · rw [fdivTerm_zero_zero f finf r h2 (h h2)]
    unfold termR; simp [h2, h h2]
  · rw [fdivTerm_of_ne f finf r h2]
    unfold termR; simp [h2]

/-! ### Termwise identities of the classical instances -/

theorem tv_term (r : ℝ × ℝ) (h1 : 0 ≤ r.1) (h2 : 0 ≤ r.2) :
    termR (fun t => |t - 1| / 2) (1 / 2) r = |r.1 - r.2| / 2 := by
  unfold termR
  by_cases hq : r.2 = 0
  · by_cases hp : r.1 = 0
    · simp [hp, hq]
    · simp only [hq, if_true, hp, if_false, sub_zero, abs_of_nonneg h1]; ring
  · have hpos : 0 < r.2 := lt_of_le_of_ne h2 (Ne.symm hq)
    simp only [hq, if_false]
    have e : r.1 / r.2 - 1 = (r.1 - r.2) / r.2 := by field_simp
    rw [e, abs_div, abs_of_pos hpos]
    field_simp

theorem kl_term (r : ℝ × ℝ) (h : r.2 = 0 → r.1 = 0) :
    termR (fun t => t * Real.logb 2 t) 0 r = r.1 * Real.logb 2 (r.1 / r.2) := by
  unfold termR
  by_cases hq : r.2 = 0
  · simp [hq, h hq]
  · simp only [hq, if_false]
    field_simp

theorem chi2_term (r : ℝ × ℝ) (hq : r.2 ≠ 0) :
    r.2 * (r.1 / r.2 - 1) ^ 2 = (r.1 - r.2) ^ 2 / r.2 := by
  field_simp

/-! ### Jensen -/

/-- Jensen's inequality on a list of pairs: weights `q`, points `p / q`. -/
theorem jensen_list (f : ℝ → ℝ) (hconv : ConvexOn ℝ (Set.Ici 0) f) (pq : List (ℝ × ℝ))
    (hnn : ∀ r ∈ pq, 0 ≤ r.1 ∧ 0 ≤ r.2) (hq : (pq.map (·.2)).sum = 1) :
    f ((pq.map (fun r => r.2 * (r.1 / r.2))).sum) ≤ (pq.map (fun r => r.2 * f (r.1 / r.2))).sum := by
  rw [← Fin.sum_univ_fun_getElem, ← Fin.sum_univ_fun_getElem]
  rw [← Fin.sum_univ_fun_getElem] at hq
  have := hconv.map_sum_le (t := Finset.univ) (w := fun i : Fin pq.length => pq[i.1].2)
    (p := fun i : Fin pq.length => pq[i.1].1 / pq[i.1].2)
    (fun i _ => (hnn _ (List.getElem_mem i.2)).2) hq
    (fun i _ => div_nonneg (hnn _ (List.getElem_mem i.2)).1 (hnn _ (List.getElem_mem i.2)).2)
  simpa only [smul_eq_mul] using this

theorem sum_mul_div (pq : List (ℝ × ℝ)) (hac : ∀ r ∈ pq, r.2 = 0 → r.1 = 0) :
    (pq.map (fun r => r.2 * (r.1 / r.2))).sum = (pq.map (·.1)).sum := by
  apply congrArg
  apply List.map_congr_left
  intro r hr
  by_cases h : r.2 = 0
  · simp [h, hac r hr h]
  · field_simp

theorem termR_of_ac (f : ℝ → ℝ) (c : ℝ) (r : ℝ × ℝ) (h : r.2 = 0 → r.1 = 0) :
    termR f c r = r.2 * f (r.1 / r.2) := by
  unfold termR
  by_cases h2 : r.2 = 0
  · simp [h2, h h2]
  · simp [h2]

theorem termR_sum_nonneg (f : ℝ → ℝ) (hconv : ConvexOn ℝ (Set.Ici 0) f) (hf1 : f 1 = 0) (c : ℝ)
    (pq : List (ℝ × ℝ)) (hnn : ∀ r ∈ pq, 0 ≤ r.1 ∧ 0 ≤ r.2)
    (hp : (pq.map (·.1)).sum = 1) (hq : (pq.map (·.2)).sum = 1)
    (hac : ∀ r ∈ pq, r.2 = 0 → r.1 = 0) : 0 ≤ (pq.map (termR f c)).sum := by
  have e : pq.map (termR f c) = pq.map (fun r => r.2 * f (r.1 / r.2)) :=
    List.map_congr_left (fun r hr => termR_of_ac f c r (hac r hr))
  have := jensen_list f hconv pq hnn hq
  rw [sum_mul_div pq hac, hp, hf1] at this
  rw [e]; exact this

end Dit.Lemmas.FDiv
