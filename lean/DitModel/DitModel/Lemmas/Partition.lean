/-
Helper lemmas for C18 (information partitions, complexity profile, entropy triangles).

The key device is `eval_eq_of_canon_eq`: two entropy combinations with the same canonical form
have the same value for every set function `H` with `H ∅ = 0` that depends only on the
normalised set. Canonical forms are computable, so identities between combinations over a finite
range of variable counts can be checked by `decide +kernel` and lifted to all such `H`
(kept here for a small range as a cross-check). The theorems for every number of variables are
proved by inclusion–exclusion in the section "General number of variables".
Property theorems are in Props/C18.lean.
-/
import DitModel.Core.Partition
import DitModel.Lemmas.InfoAlg
import Mathlib.Data.List.Sublists

set_option linter.unusedSectionVars false

namespace Dit.Lemmas.Partition
open Dit Dit.Lemmas.InfoAlg

/-! ### The canonical-form device -/

section Device
variable {R : Type} [CommRing R] (cast : ℚ →+* R) (H : VSet → R)

/-- Two combinations with the same canonical form evaluate equally. -/
theorem eval_eq_of_canon_eq (h0 : H [] = 0) (hn : ∀ s, H s = H (vnorm s)) {c₁ c₂ : Comb}
    (h : c₁.canon = c₂.canon) : Comb.eval cast H c₁ = Comb.eval cast H c₂ := by
  rw [← canon_eval cast H h0 hn c₁, h, canon_eval cast H h0 hn c₂]

end Device

/-! ### `sublists`, subsets of `range n` -/

section Sublists
variable {β : Type}

theorem sublists_eq (l : List β) : sublists l = l.sublists' := by
  induction l with
  | nil => rfl
  | cons x t ih => simp only [sublists, List.sublists'_cons, ih]

theorem mem_sublists {s l : List β} : s ∈ sublists l ↔ s.Sublist l := by
  rw [sublists_eq]; exact List.mem_sublists'

theorem sublists_map (f : β → β) (l : List β) :
    sublists (l.map f) = (sublists l).map (List.map f) := by
  induction l with
  | nil => rfl
  | cons x t ih =>
    simp only [List.map_cons, sublists, ih, List.map_append, List.map_map]
    rfl

/-- A strictly increasing list of numbers below `n` is a sublist of `range n`. -/
theorem sublist_range_of_sorted {l : List Nat} {n : Nat} (hs : l.Pairwise (· < ·))
    (hb : ∀ x ∈ l, x < n) : l.Sublist (List.range n) := by
  have h : l = (List.range n).filter (fun x => decide (x ∈ l)) := by
    refine sorted_ext hs (List.pairwise_lt_range.filter _) ?_
    intro x
    simp only [List.mem_filter, List.mem_range, decide_eq_true_eq]
    exact ⟨fun hx => ⟨hb x hx, hx⟩, fun hx => hx.2⟩
  rw [h]
  exact List.filter_sublist

theorem sorted_of_mem_sublists_range {s : List Nat} {n : Nat}
    (h : s ∈ sublists (List.range n)) : s.Pairwise (· < ·) :=
  List.pairwise_lt_range.sublist (mem_sublists.mp h)

theorem vnorm_mem_sublists_range {g : List Nat} {n : Nat} (hb : ∀ x ∈ g, x < n) :
    vnorm g ∈ sublists (List.range n) :=
  mem_sublists.mpr (sublist_range_of_sorted (vnorm_sorted g)
    (fun x hx => hb x ((mem_vnorm g x).mp hx)))

/-- Lists of length exactly `k` over `l`. -/
def listsOfLen (l : List β) : Nat → List (List β)
  | 0 => [[]]
  | k + 1 => l.flatMap (fun x => (listsOfLen l k).map (x :: ·))

theorem mem_listsOfLen {l : List β} (gs : List β) (h : ∀ x ∈ gs, x ∈ l) :
    gs ∈ listsOfLen l gs.length := by
  induction gs with
  | nil => simp [listsOfLen]
  | cons x t ih =>
    simp only [List.length_cons, listsOfLen, List.mem_flatMap, List.mem_map]
    exact ⟨x, h x List.mem_cons_self, t, ih (fun y hy => h y (List.mem_cons_of_mem _ hy)), rfl⟩

end Sublists

/-! ### Queries depend only on the sets -/

theorem covers_iff (S : VSet) (groups : List VSet) (crvs : VSet) :
    covers S groups crvs = true
      ↔ (∀ g ∈ groups, ∃ v ∈ g, v ∈ S) ∧ ∀ c ∈ crvs, c ∉ S := by
  unfold covers
  simp

theorem covers_norm (S : VSet) (groups : List VSet) (crvs : VSet) :
    covers S (groups.map vnorm) (vnorm crvs) = covers S groups crvs := by
  rw [Bool.eq_iff_iff, covers_iff, covers_iff]
  simp only [List.mem_map, forall_exists_index, and_imp, forall_apply_eq_imp_iff₂, mem_vnorm]

/-- The query combination only depends on the groups and the conditioning variables as sets. -/
theorem queryC_norm (n : Nat) (groups : List VSet) (crvs : VSet) :
    queryC n (groups.map vnorm) (vnorm crvs) = queryC n groups crvs := by
  unfold queryC
  simp only [covers_norm]

theorem vunions_map_vnorm (Xs : List VSet) : vunions (Xs.map vnorm) = vunions Xs := by
  unfold vunions
  refine vnorm_congr ?_
  intro x
  simp only [List.mem_flatten, List.mem_map, exists_exists_and_eq_and, mem_vnorm]

/-- The value of the co-information only depends on the groups and the conditioning variables as
sets. -/
theorem eval_coinfoC_norm {R : Type} [CommRing R] (cast : ℚ →+* R) (H : VSet → R)
    (groups : List VSet) (crvs : VSet) :
    Comb.eval cast H (coinfoC (groups.map vnorm) (vnorm crvs))
      = Comb.eval cast H (coinfoC groups crvs) := by
  rw [eval_coinfoC, eval_coinfoC, sublists_map, List.map_map]
  congr 1
  apply List.map_congr_left
  intro Xs _
  simp only [Function.comp_apply, List.length_map, vunions_map_vnorm]
  congr 1
  exact Hc_congr H (mem_vnorm crvs) (by intro x; rw [mem_vnorm])

/-! ### The atom sets -/

theorem atomSets_eq (n : Nat) :
    atomSets n = (sublists (List.range n)).filter (fun s => !s.isEmpty) := by
  unfold atomSets
  conv_rhs => rw [← List.map_id ((sublists (List.range n)).filter (fun s => !s.isEmpty))]
  apply List.map_congr_left
  intro s hs
  exact vnorm_of_sorted (sorted_of_mem_sublists_range (List.mem_filter.mp hs).1)

theorem nodup_sublists_range (n : Nat) : (sublists (List.range n)).Nodup := by
  rw [sublists_eq]; exact List.nodup_sublists'.mpr List.nodup_range

theorem nodup_atomSets (n : Nat) : (atomSets n).Nodup := by
  rw [atomSets_eq]; exact (nodup_sublists_range n).filter _

theorem mem_atomSets {n : Nat} {S : VSet} :
    S ∈ atomSets n ↔ S.Sublist (List.range n) ∧ S ≠ [] := by
  rw [atomSets_eq, List.mem_filter, mem_sublists]
  simp

theorem filter_eq_singleton {β : Type} {l : List β} {p : β → Bool} {x : β} (hnd : l.Nodup)
    (hx : x ∈ l) (hpx : p x = true) (huniq : ∀ y ∈ l, p y = true → y = x) :
    l.filter p = [x] := by
  induction l with
  | nil => simp at hx
  | cons a t ih =>
    have hnd' := List.nodup_cons.mp hnd
    by_cases ha : a = x
    · subst ha
      have : t.filter p = [] := by
        rw [List.filter_eq_nil_iff]
        intro y hy hpy
        have := huniq y (List.mem_cons_of_mem _ hy) hpy
        exact hnd'.1 (this ▸ hy)
      simp [hpx, this]
    · have hxt : x ∈ t := by
        rcases List.mem_cons.mp hx with h | h
        · exact absurd h.symm ha
        · exact h
      have hpa : p a = false := by
        by_contra h
        exact ha (huniq a List.mem_cons_self (by simpa using h))
      rw [List.filter_cons, hpa]
      simpa using ih hnd'.2 hxt (fun y hy => huniq y (List.mem_cons_of_mem _ hy))

/-- The only atom shared by all `n` variables is the top atom `{0..n-1}`. -/
theorem atomSets_filter_top (n : Nat) (hn : 0 < n) :
    (atomSets n).filter (fun S => decide (n ≤ S.length)) = [List.range n] := by
  apply filter_eq_singleton (nodup_atomSets n)
  · rw [mem_atomSets]
    refine ⟨List.Sublist.refl _, ?_⟩
    intro h
    have := congrArg List.length h
    simp at this; omega
  · simp
  · intro y hy hlen
    have hsub := (mem_atomSets.mp hy).1
    exact hsub.eq_of_length_le (by simpa using hlen)

/-! ### Facts checked by evaluation of canonical forms -/

/-- `query = co-information` on canonical forms, for one query. -/
def queryOK (n : Nat) (groups : List VSet) (crvs : VSet) : Bool :=
  decide ((queryC n groups crvs).canon = (coinfoC groups crvs).canon)

/-- All queries over `n` variables with `k + 1` groups, the first of which is in `firsts`. -/
def queryAllOn (firsts : List VSet) (n k : Nat) : Bool :=
  firsts.all (fun g => (listsOfLen (sublists (List.range n)) k).all (fun gs =>
    (sublists (List.range n)).all (fun z => queryOK n (g :: gs) z)))

private theorem atomsTotal_canon : ∀ n ∈ [0, 1, 2, 3, 4],
    (atomsTotalC n).canon = Comb.canon [(1, List.range n)] := by decide +kernel

private theorem profile_one_canon : ∀ n ∈ [0, 1, 2, 3, 4],
    (profileC n 1).canon = Comb.canon [(1, List.range n)] := by decide +kernel

private theorem profile_sum_canon : ∀ n ∈ [0, 1, 2, 3, 4],
    (Comb.sum ((List.range n).map (fun k => profileC n (k + 1)))).canon
      = (marginalsC n).canon := by decide +kernel

private theorem query_small : ∀ n ∈ [0, 1, 2], ∀ k ∈ [0, 1, 2],
    queryAllOn (sublists (List.range n)) n k = true := by decide +kernel

private theorem query_3_01 : ∀ k ∈ [0, 1],
    queryAllOn (sublists (List.range 3)) 3 k = true := by decide +kernel

private theorem query_4_0 : queryAllOn (sublists (List.range 4)) 4 0 = true := by decide +kernel

/-- The range of queries checked by evaluation (`k + 1` groups): up to 2 groups for `n ≤ 3`
variables, 1 group for `n = 4`. (An independent cross-check of `eval_queryC_general` below, which
covers every `n` and any number of groups.) -/
theorem query_checked (n k : Nat) (h : (n ≤ 3 ∧ k ≤ 1) ∨ (n = 4 ∧ k = 0)) :
    queryAllOn (sublists (List.range n)) n k = true := by
  rcases h with ⟨hn, hk⟩ | ⟨rfl, rfl⟩
  · rcases Nat.lt_or_ge n 3 with h3 | h3
    · exact query_small n (by simp; omega) k (by simp; omega)
    · obtain rfl : n = 3 := by omega
      exact query_3_01 k (by simp; omega)
  · exact query_4_0

/-! ### Lifting the checked facts to every set function -/

theorem eval_marginalsC {R : Type} [CommRing R] (cast : ℚ →+* R) (H : VSet → R) (n : Nat) :
    Comb.eval cast H (marginalsC n) = ((List.range n).map (fun i => H [i])).sum := by
  unfold marginalsC
  rw [eval_eq_sum, List.map_map]
  congr 1
  apply List.map_congr_left
  intro i _
  simp

section Lift
variable {R : Type} [CommRing R] (cast : ℚ →+* R) (H : VSet → R)
  (h0 : H [] = 0) (hn : ∀ s, H s = H (vnorm s))
include h0 hn

theorem eval_single (s : VSet) : Comb.eval cast H [((1 : Rat), s)] = H s := by
  simp

theorem atoms_sum_le4 (n : Nat) (h4 : n ≤ 4) :
    Comb.eval cast H (atomsTotalC n) = H (List.range n) := by
  rw [eval_eq_of_canon_eq cast H h0 hn (atomsTotal_canon n (by simp; omega))]
  simp

theorem profile_one_le4 (n : Nat) (h4 : n ≤ 4) :
    Comb.eval cast H (profileC n 1) = H (List.range n) := by
  rw [eval_eq_of_canon_eq cast H h0 hn (profile_one_canon n (by simp; omega))]
  simp

theorem profile_sum_le4 (n : Nat) (h4 : n ≤ 4) :
    ((List.range n).map (fun k => Comb.eval cast H (profileC n (k + 1)))).sum
      = ((List.range n).map (fun i => H [i])).sum := by
  rw [← eval_marginalsC cast H,
    ← eval_eq_of_canon_eq cast H h0 hn (profile_sum_canon n (by simp; omega)), eval_sum,
    List.map_map]
  rfl

/-- Lift of the query check: a query with `k + 1` groups of variables below `n`. -/
theorem query_lift (n k : Nat) (hall : queryAllOn (sublists (List.range n)) n k = true)
    (groups : List VSet) (crvs : VSet) (hlen : groups.length = k + 1)
    (hg : ∀ g ∈ groups, ∀ v ∈ g, v < n) (hc : ∀ c ∈ crvs, c < n) :
    Comb.eval cast H (queryC n groups crvs) = Comb.eval cast H (coinfoC groups crvs) := by
  rw [← queryC_norm, ← eval_coinfoC_norm]
  apply eval_eq_of_canon_eq cast H h0 hn
  match groups, hlen, hg with
  | g :: gs, hlen, hg =>
    have hk : gs.length = k := by simpa using hlen
    have h1 : vnorm g ∈ sublists (List.range n) :=
      vnorm_mem_sublists_range (hg g List.mem_cons_self)
    have h2 : gs.map vnorm ∈ listsOfLen (sublists (List.range n)) k := by
      have := mem_listsOfLen (l := sublists (List.range n)) (gs.map vnorm) (by
        intro x hx
        obtain ⟨g', hg', rfl⟩ := List.mem_map.mp hx
        exact vnorm_mem_sublists_range (hg g' (List.mem_cons_of_mem _ hg')))
      simpa [hk] using this
    have h3 : vnorm crvs ∈ sublists (List.range n) := vnorm_mem_sublists_range hc
    unfold queryAllOn at hall
    have := List.all_eq_true.mp (List.all_eq_true.mp (List.all_eq_true.mp hall _ h1) _ h2) _ h3
    simpa [queryOK] using this

end Lift

theorem sum_map_sub {β R : Type} [AddCommGroup R] (l : List β) (f g : β → R) :
    (l.map (fun x => f x - g x)).sum = (l.map f).sum - (l.map g).sum := by
  induction l with
  | nil => simp
  | cons x t ih => simp only [List.map_cons, List.sum_cons, ih]; exact sub_add_sub_comm _ _ _ _

/-! ### General number of variables: inclusion–exclusion -/

section General
variable {R : Type} [CommRing R] (cast : ℚ →+* R) (H : VSet → R)

/-- The sign `(−1)^{k+1}` attached to a sub-family of `k` groups. -/
def sgn (R : Type) [CommRing R] (k : Nat) : R := if k % 2 = 1 then 1 else -1

theorem sgn_succ (k : Nat) : sgn R (k + 1) = - sgn R k := by
  unfold sgn
  rcases Nat.mod_two_eq_zero_or_one k with h | h
  · have : (k + 1) % 2 = 1 := by omega
    simp [h, this]
  · have : (k + 1) % 2 = 0 := by omega
    simp [h, this]

/-- `Σ_{Xs ⊆ G} (−1)^{|Xs|+1}`: `−1` for no groups, `0` otherwise. -/
def sgnSum (R : Type) [CommRing R] (G : List VSet) : R :=
  ((sublists G).map (fun Xs => sgn R Xs.length)).sum

theorem sgnSum_nil : sgnSum R [] = -1 := by
  simp [sgnSum, sublists, sgn]

theorem sgnSum_cons (g : VSet) (G : List VSet) : sgnSum R (g :: G) = 0 := by
  unfold sgnSum
  simp only [sublists, List.map_append, List.sum_append, List.map_map]
  have : ∀ l : List (List VSet),
      (l.map ((fun Xs => sgn R Xs.length) ∘ fun x => g :: x)).sum
        = - (l.map (fun Xs => sgn R Xs.length)).sum := by
    intro l
    induction l with
    | nil => simp
    | cons a t ih =>
      simp only [List.map_cons, List.sum_cons, Function.comp_apply, List.length_cons, sgn_succ, ih]
      ring
  rw [this]; ring

/-- Chain rule `H(X ∪ Y | Z) = H(X | Z) + H(Y | X ∪ Z)` over a commutative ring. -/
theorem Hc_chain' (X Y Z : VSet) :
    Hc H (vunion X Y) Z = Hc H X Z + Hc H Y (vunion X Z) := by
  unfold Hc
  have e1 : vunion (vunion X Y) Z = vunion Y (vunion X Z) :=
    vunion_congr (by intro x; simp only [mem_vunion]; tauto)
  have e2 : vnorm (vunion X Z) = vunion X Z := vnorm_idem _
  rw [e1, e2]; ring

theorem eval_coinfoC' (G : List VSet) (Z : VSet) :
    Comb.eval cast H (coinfoC G Z)
      = ((sublists G).map (fun Xs => sgn R Xs.length * Hc H (vunions Xs) Z)).sum :=
  eval_coinfoC cast H G Z

/-- The value of a co-information depends on the conditioning variables only as a set. -/
theorem eval_coinfoC_congr (G : List VSet) {Z Z' : VSet} (h : ∀ v, v ∈ Z ↔ v ∈ Z') :
    Comb.eval cast H (coinfoC G Z) = Comb.eval cast H (coinfoC G Z') := by
  rw [eval_coinfoC', eval_coinfoC']
  congr 1
  apply List.map_congr_left
  intro Xs _
  congr 1
  exact Hc_congr H h (by intro x; rw [h x])

/-- **Recursion for the co-information**: splitting off the first group,
`I[g : G | Z] = I[G | Z] − I[G | g ∪ Z] − (Σ_{Xs ⊆ G} ±1) · H(g | Z)`; the last term is only
present for `G = []`. -/
theorem eval_coinfoC_cons (g : VSet) (G : List VSet) (Z : VSet) :
    Comb.eval cast H (coinfoC (g :: G) Z)
      = Comb.eval cast H (coinfoC G Z) - Comb.eval cast H (coinfoC G (g ++ Z))
        - sgnSum R G * Hc H g Z := by
  rw [eval_coinfoC', eval_coinfoC', eval_coinfoC']
  unfold sgnSum
  simp only [sublists, List.map_append, List.sum_append, List.map_map]
  have : ∀ l : List (List VSet),
      (l.map ((fun Xs => sgn R Xs.length * Hc H (vunions Xs) Z) ∘ fun x => g :: x)).sum
        = - (l.map (fun Xs => sgn R Xs.length * Hc H (vunions Xs) (g ++ Z))).sum
          - (l.map (fun Xs => sgn R Xs.length)).sum * Hc H g Z := by
    intro l
    induction l with
    | nil => simp
    | cons a t ih =>
      simp only [List.map_cons, List.sum_cons, Function.comp_apply, List.length_cons, sgn_succ,
        ih]
      have e : Hc H (vunions (g :: a)) Z = Hc H g Z + Hc H (vunions a) (g ++ Z) := by
        rw [vunions_cons, Hc_chain']
        congr 1
        exact Hc_congr H (by intro x; rw [mem_vunion, List.mem_append])
          (by intro x; rw [mem_vunion, List.mem_append])
      rw [e]; ring
  rw [this]; ring

/-- One group: `I[g | Z] = H(g | Z)`. -/
theorem eval_coinfoC_single (g Z : VSet) :
    Comb.eval cast H (coinfoC [g] Z) = Hc H g Z := by
  rw [eval_coinfoC_cons, sgnSum_nil, eval_coinfoC', eval_coinfoC']
  simp [sublists, vunions_nil, Hc_nil]

/-! #### Non-empty sublists -/

/-- The non-empty sublists, in the order of `sublists`. -/
def nes {β : Type} : List β → List (List β)
  | [] => []
  | x :: t => nes t ++ ([x] :: (nes t).map (x :: ·))

theorem sublists_eq_nes {β : Type} (L : List β) : sublists L = [] :: nes L := by
  induction L with
  | nil => rfl
  | cons x t ih => simp [sublists, nes, ih]

theorem nes_ne_nil {β : Type} {L : List β} {S : List β} (h : S ∈ nes L) : S ≠ [] := by
  induction L with
  | nil => simp [nes] at h
  | cons x t ih =>
    simp only [nes, List.mem_append, List.mem_cons, List.mem_map] at h
    rcases h with h | rfl | ⟨S', _, rfl⟩
    · exact ih h
    · simp
    · simp

theorem mem_nes_sublist {β : Type} {L S : List β} (h : S ∈ nes L) : S.Sublist L := by
  apply mem_sublists.mp
  rw [sublists_eq_nes]; exact List.mem_cons_of_mem _ h

theorem filter_sublists_eq_nes {β : Type} (L : List β) :
    (sublists L).filter (fun s => !s.isEmpty) = nes L := by
  rw [sublists_eq_nes]
  simp only [List.filter_cons, List.isEmpty_nil, Bool.not_true, Bool.false_eq_true, if_false]
  rw [List.filter_eq_self]
  intro S hS
  have := nes_ne_nil hS
  cases S <;> simp_all

theorem atomSets_eq_nes (n : Nat) : atomSets n = nes (List.range n) := by
  rw [atomSets_eq, filter_sublists_eq_nes]

/-! #### The atoms below a set of variables telescope to a conditional entropy -/

/-- The value of the atom-like term `I[S | Z]` (the variables of `S` as singleton groups). -/
abbrev cval (S Z : VSet) : R := Comb.eval cast H (coinfoC (S.map (fun i => [i])) Z)

/-- **Telescoping**: for distinct variables `L` and any `B`,
`Σ_{∅ ≠ S ⊆ L} I[S | (L ∖ S) ∪ B] = H(L | B)`. -/
theorem atoms_telescope (L : List Nat) (hnd : L.Nodup) (B : VSet) :
    ((nes L).map (fun S => cval cast H S (vdiff L S ++ B))).sum = Hc H L B := by
  induction L generalizing B with
  | nil => simp [nes, Hc_nil]
  | cons x L' ih =>
    obtain ⟨hx, hnd'⟩ := List.nodup_cons.mp hnd
    have hxS : ∀ S ∈ nes L', x ∉ S := fun S hS h => hx ((mem_nes_sublist hS).subset h)
    simp only [nes, List.map_append, List.sum_append, List.map_cons, List.sum_cons, List.map_map]
    -- the atoms not containing `x`
    have T1 : ((nes L').map (fun S => cval cast H S (vdiff (x :: L') S ++ B))).sum
        = Hc H L' (x :: B) := by
      rw [← ih hnd' (x :: B)]
      congr 1
      apply List.map_congr_left
      intro S hS
      apply eval_coinfoC_congr
      intro v
      have := hxS S hS
      simp only [List.mem_append, mem_vdiff, List.mem_cons]
      constructor
      · rintro ((⟨rfl | h1, h2⟩) | h)
        · exact Or.inr (Or.inl rfl)
        · exact Or.inl ⟨h1, h2⟩
        · exact Or.inr (Or.inr h)
      · rintro (⟨h1, h2⟩ | rfl | h)
        · exact Or.inl ⟨Or.inr h1, h2⟩
        · exact Or.inl ⟨Or.inl rfl, this⟩
        · exact Or.inr h
    -- the atom `{x}`
    have T2 : cval cast H [x] (vdiff (x :: L') [x] ++ B) = Hc H [x] (L' ++ B) := by
      unfold cval
      rw [List.map_cons, List.map_nil, eval_coinfoC_single]
      apply Hc_congr
      · intro v
        simp only [List.mem_append, mem_vdiff, List.mem_cons, List.not_mem_nil, or_false]
        constructor
        · rintro (⟨rfl | h1, h2⟩ | h)
          · exact absurd rfl h2
          · exact Or.inl h1
          · exact Or.inr h
        · rintro (h | h)
          · exact Or.inl ⟨Or.inr h, fun e => hx (e ▸ h)⟩
          · exact Or.inr h
      · intro v
        simp only [List.mem_append, mem_vdiff, List.mem_cons, List.not_mem_nil, or_false]
        constructor
        · rintro (h | ⟨rfl | h1, h2⟩ | h)
          · exact Or.inl h
          · exact Or.inl rfl
          · exact Or.inr (Or.inl h1)
          · exact Or.inr (Or.inr h)
        · rintro (h | h | h)
          · exact Or.inl h
          · by_cases e : v = x
            · exact Or.inl e
            · exact Or.inr (Or.inl ⟨Or.inr h, e⟩)
          · exact Or.inr (Or.inr h)
    -- the atoms `{x} ∪ S'`, `S' ≠ ∅`
    have T3 : ((nes L').map
          ((fun S => cval cast H S (vdiff (x :: L') S ++ B)) ∘ fun S' => x :: S')).sum
        = Hc H L' B - Hc H L' (x :: B) := by
      rw [← ih hnd' B, ← ih hnd' (x :: B), ← sum_map_sub]
      congr 1
      apply List.map_congr_left
      intro S hS
      have hne : S.map (fun i => [i]) ≠ [] := by
        have := nes_ne_nil hS
        simpa using this
      simp only [Function.comp_apply, cval, List.map_cons]
      obtain ⟨g, G, hG⟩ := List.exists_cons_of_ne_nil hne
      rw [eval_coinfoC_cons, hG, sgnSum_cons, zero_mul, sub_zero, ← hG]
      have hxS' := hxS S hS
      congr 1
      · apply eval_coinfoC_congr
        intro v
        simp only [List.mem_append, mem_vdiff, List.mem_cons, not_or]
        constructor
        · rintro (⟨rfl | h1, h2, h3⟩ | h)
          · exact absurd rfl h2
          · exact Or.inl ⟨h1, h3⟩
          · exact Or.inr h
        · rintro (⟨h1, h2⟩ | h)
          · exact Or.inl ⟨Or.inr h1, fun e => hx (e ▸ h1), h2⟩
          · exact Or.inr h
      · apply eval_coinfoC_congr
        intro v
        simp only [List.mem_append, mem_vdiff, List.mem_cons, not_or, List.not_mem_nil, or_false]
        constructor
        · rintro (rfl | ⟨rfl | h1, h2, h3⟩ | h)
          · exact Or.inr (Or.inl rfl)
          · exact absurd rfl h2
          · exact Or.inl ⟨h1, h3⟩
          · exact Or.inr (Or.inr h)
        · rintro (⟨h1, h2⟩ | rfl | h)
          · exact Or.inr (Or.inl ⟨Or.inr h1, fun e => hx (e ▸ h1), h2⟩)
          · exact Or.inl rfl
          · exact Or.inr (Or.inr h)
    rw [T1, T2, T3]
    have chain : Hc H (x :: L') B = Hc H L' B + Hc H [x] (L' ++ B) := by
      have := Hc_chain' H L' [x] B
      rw [← Hc_congr H (X := x :: L') (Z := B) (fun _ => Iff.rfl)
        (by intro v; simp only [mem_vunion, List.mem_cons, List.not_mem_nil, or_false]; tauto)]
        at this
      rw [this]
      congr 1
      exact Hc_congr H (by intro v; rw [mem_vunion, List.mem_append])
        (by intro v; rw [mem_vunion, List.mem_append])
    rw [chain]; ring

/-! #### Queries -/

theorem filter_map_cons_all {β : Type} (p : β → Bool) (x : β) (l : List (List β)) :
    (l.map (x :: ·)).filter (fun S => S.all p)
      = if p x then (l.filter (fun S => S.all p)).map (x :: ·) else [] := by
  induction l with
  | nil => simp
  | cons a t ih =>
    by_cases hp : p x = true
    · simp only [List.map_cons, List.filter_cons, List.all_cons, hp, Bool.true_and, if_true] at ih ⊢
      by_cases ha : a.all p = true
      · simp [ha, ih]
      · simp [ha, ih]
    · simp [hp]

/-- The non-empty sublists all of whose members satisfy `p` are those of the filtered list. -/
theorem nes_filter {β : Type} (p : β → Bool) (L : List β) :
    (nes L).filter (fun S => S.all p) = nes (L.filter p) := by
  induction L with
  | nil => rfl
  | cons x t ih =>
    simp only [nes, List.filter_append, List.filter_cons, List.all_cons, List.all_nil,
      Bool.and_true, filter_map_cons_all, ih]
    by_cases hp : p x = true
    · simp [hp, nes]
    · simp [hp]

/-- Splitting a filtered sum along a further condition. -/
theorem sum_filter_split {β : Type} (l : List β) (f : β → R) (p q r : β → Bool)
    (h : ∀ x ∈ l, (p x = true ↔ (q x = true ∨ r x = true)) ∧ ¬ (q x = true ∧ r x = true)) :
    ((l.filter p).map f).sum = ((l.filter q).map f).sum + ((l.filter r).map f).sum := by
  induction l with
  | nil => simp
  | cons a t ih =>
    have iht := ih (fun x hx => h x (List.mem_cons_of_mem _ hx))
    obtain ⟨h1, h2⟩ := h a List.mem_cons_self
    simp only [List.filter_cons]
    cases hq : q a <;> cases hr : r a <;> cases hp : p a <;>
      simp only [hq, hr, hp, Bool.false_eq_true, if_false, if_true, List.map_cons, List.sum_cons,
        iht, or_self, or_true, true_or, and_self, not_true_eq_false, iff_false,
        iff_true] at h1 h2 ⊢
    · ring
    · ring

theorem eval_queryC (n : Nat) (G : List VSet) (Z : VSet) :
    Comb.eval cast H (queryC n G Z)
      = (((atomSets n).filter (fun S => covers S G Z)).map
          (fun S => Comb.eval cast H (atomC n S))).sum := by
  unfold queryC
  rw [eval_sum, List.map_map]
  rfl

/-- **Recursion for queries**: the atoms meeting `g` are those not avoiding `g`. -/
theorem eval_queryC_cons (n : Nat) (g : VSet) (G : List VSet) (Z : VSet) :
    Comb.eval cast H (queryC n (g :: G) Z)
      = Comb.eval cast H (queryC n G Z) - Comb.eval cast H (queryC n G (g ++ Z)) := by
  rw [eval_queryC, eval_queryC, eval_queryC, eq_sub_iff_add_eq]
  symm
  apply sum_filter_split
  intro S _
  simp only [covers_iff, List.mem_cons, List.mem_append, forall_eq_or_imp]
  constructor
  · constructor
    · rintro ⟨h1, h2⟩
      by_cases hg : ∃ v ∈ g, v ∈ S
      · exact Or.inl ⟨⟨hg, h1⟩, h2⟩
      · refine Or.inr ⟨h1, ?_⟩
        intro c hc
        rcases hc with hc | hc
        · exact fun hcS => hg ⟨c, hc, hcS⟩
        · exact h2 c hc
    · rintro (⟨⟨_, h1⟩, h2⟩ | ⟨h1, h2⟩)
      · exact ⟨h1, h2⟩
      · exact ⟨h1, fun c hc => h2 c (Or.inr hc)⟩
  · rintro ⟨⟨⟨⟨v, hv, hvS⟩, _⟩, _⟩, ⟨_, h2⟩⟩
    exact h2 v (Or.inl hv) hvS

/-- **No groups**: the atoms avoiding `Z` sum to `H(all | Z)`. -/
theorem eval_queryC_nil (n : Nat) (Z : VSet) (hZ : ∀ c ∈ Z, c < n) :
    Comb.eval cast H (queryC n [] Z) = Hc H (List.range n) Z := by
  rw [eval_queryC, atomSets_eq_nes]
  have hcov : ∀ S : VSet, covers S [] Z = S.all (fun v => !Z.contains v) := by
    intro S
    rw [Bool.eq_iff_iff, covers_iff]
    simp only [List.not_mem_nil, false_imp_iff, implies_true, true_and, List.all_eq_true,
      Bool.not_eq_true', List.contains_eq_mem, decide_eq_false_iff_not]
    exact ⟨fun h v hv hz => h v hz hv, fun h c hc hs => h c hs hc⟩
  simp only [hcov]
  rw [nes_filter]
  have hW : (List.range n).filter (fun v => !Z.contains v) = vdiff (List.range n) Z := rfl
  rw [hW]
  have hnd : (vdiff (List.range n) Z).Nodup := List.nodup_range.filter _
  rw [← Hc_congr H (X := vdiff (List.range n) Z) (Z := Z) (fun _ => Iff.rfl)
    (by intro v; simp only [mem_vdiff]; tauto), ← atoms_telescope cast H _ hnd Z]
  congr 1
  apply List.map_congr_left
  intro S hS
  have hsub := (mem_nes_sublist hS).subset
  unfold atomC
  apply eval_coinfoC_congr
  intro v
  simp only [mem_vdiff, List.mem_append, List.mem_range]
  constructor
  · rintro ⟨h1, h2⟩
    by_cases hz : v ∈ Z
    · exact Or.inr hz
    · exact Or.inl ⟨⟨h1, hz⟩, h2⟩
  · rintro (⟨⟨h1, _⟩, h2⟩ | hz)
    · exact ⟨h1, h2⟩
    · refine ⟨hZ v hz, fun hvS => ?_⟩
      have := hsub hvS
      rw [mem_vdiff] at this
      exact this.2 hz

/-- **Queries in general**: for any number of variables, any groups and conditioning variables
below `n`, the covered atoms sum to the co-information, corrected for the empty list of
groups. -/
theorem eval_queryC_general (n : Nat) (G : List VSet) (Z : VSet)
    (hG : ∀ g ∈ G, ∀ v ∈ g, v < n) (hZ : ∀ c ∈ Z, c < n) :
    Comb.eval cast H (queryC n G Z)
      = Comb.eval cast H (coinfoC G Z) - sgnSum R G * Hc H (List.range n) Z := by
  induction G generalizing Z with
  | nil =>
    rw [eval_queryC_nil cast H n Z hZ, sgnSum_nil, eval_coinfoC']
    simp [sublists, vunions_nil, Hc_nil]
  | cons g G ih =>
    have hG' : ∀ g' ∈ G, ∀ v ∈ g', v < n := fun g' hg' => hG g' (List.mem_cons_of_mem _ hg')
    have hg : ∀ v ∈ g, v < n := hG g List.mem_cons_self
    have hgZ : ∀ c ∈ g ++ Z, c < n := by
      intro c hc
      rcases List.mem_append.mp hc with h | h
      · exact hg c h
      · exact hZ c h
    rw [eval_queryC_cons, ih Z hG' hZ, ih (g ++ Z) hG' hgZ, eval_coinfoC_cons, sgnSum_cons]
    have e : Hc H (List.range n) Z - Hc H (List.range n) (g ++ Z) = Hc H g Z := by
      unfold Hc
      have e1 : vunion (List.range n) (g ++ Z) = vunion (List.range n) Z :=
        vunion_congr (by
          intro v
          simp only [List.mem_append, List.mem_range]
          constructor
          · rintro (h | h | h)
            · exact Or.inl h
            · exact Or.inl (hg v h)
            · exact Or.inr h
          · rintro (h | h)
            · exact Or.inl h
            · exact Or.inr (Or.inr h))
      have e2 : vnorm (g ++ Z) = vunion g Z := rfl
      rw [e1, e2]; ring
    rw [← e]; ring

/-! #### Totals and the complexity profile -/

theorem atomsTotalC_eq_query (n : Nat) : atomsTotalC n = queryC n [] [] := by
  unfold atomsTotalC queryC
  have : ∀ S : VSet, covers S [] [] = true := fun _ => rfl
  simp only [this, List.filter_true]

/-- The atoms sum to `H(all) − H(∅)`, for any number of variables and any set function. -/
theorem eval_atomsTotalC (n : Nat) :
    Comb.eval cast H (atomsTotalC n) = H (List.range n) - H [] := by
  rw [atomsTotalC_eq_query, eval_queryC_nil cast H n [] (by simp)]
  unfold Hc vunion
  rw [List.append_nil, vnorm_of_sorted List.pairwise_lt_range]
  rfl

theorem profileC_one (n : Nat) : profileC n 1 = atomsTotalC n := by
  unfold profileC atomsTotalC
  rw [List.filter_eq_self.mpr]
  intro S hS
  have := (mem_atomSets.mp hS).2
  cases S with
  | nil => exact absurd rfl this
  | cons a t => simp

theorem sum_filter_eq_sum_ite {β : Type} (l : List β) (f : β → R) (p : β → Bool) :
    ((l.filter p).map f).sum = (l.map (fun x => if p x then f x else 0)).sum := by
  induction l with
  | nil => rfl
  | cons a t ih =>
    by_cases h : p a = true
    · simp [h, ih]
    · simp [h, ih]

/-- Counting a family of filtered sums element by element. -/
theorem sum_sum_filter {ι β : Type} (I : List ι) (l : List β) (f : β → R) (P : ι → β → Bool) :
    (I.map (fun i => ((l.filter (P i)).map f).sum)).sum
      = (l.map (fun x => (I.countP (fun i => P i x) : R) * f x)).sum := by
  induction I with
  | nil => simp
  | cons i I ih =>
    rw [List.map_cons, List.sum_cons, ih, sum_filter_eq_sum_ite, ← List.sum_map_add]
    congr 1
    apply List.map_congr_left
    intro x _
    rw [List.countP_cons]
    by_cases h : P i x = true
    · simp [h]; ring
    · simp [h]

theorem countP_succ_le_range (m n : Nat) :
    (List.range n).countP (fun k => decide (k + 1 ≤ m)) = min m n := by
  induction n with
  | zero => simp
  | succ n ih =>
    rw [List.range_succ, List.countP_append, ih]
    by_cases h : n + 1 ≤ m
    · simp [h]; omega
    · simp [h]; omega

theorem countP_mem_range {S : VSet} {n : Nat} (h : S.Sublist (List.range n)) :
    (List.range n).countP (fun i => S.contains i) = S.length := by
  rw [List.countP_eq_length_filter]
  congr 1
  symm
  refine sorted_ext (List.pairwise_lt_range.sublist h) (List.pairwise_lt_range.filter _) ?_
  intro x
  simp only [List.mem_filter, List.mem_range, List.contains_eq_mem, decide_eq_true_eq]
  exact ⟨fun hx => ⟨List.mem_range.mp (h.subset hx), hx⟩, fun hx => hx.2⟩

theorem eval_profileC (n k : Nat) :
    Comb.eval cast H (profileC n k)
      = (((atomSets n).filter (fun S => decide (k ≤ S.length))).map
          (fun S => Comb.eval cast H (atomC n S))).sum := by
  unfold profileC
  rw [eval_sum, List.map_map]
  rfl

/-- The scales of the complexity profile sum to `Σ_i H(i | ∅)`, for any number of variables. -/
theorem profile_sum_general (n : Nat) :
    ((List.range n).map (fun k => Comb.eval cast H (profileC n (k + 1)))).sum
      = ((List.range n).map (fun i => Hc H [i] [])).sum := by
  have hR : ∀ i ∈ List.range n, Hc H [i] []
      = (((atomSets n).filter (fun S => S.contains i)).map
          (fun S => Comb.eval cast H (atomC n S))).sum := by
    intro i hi
    rw [← eval_coinfoC_single cast H [i] [],
      ← sub_zero (Comb.eval cast H (coinfoC [[i]] [])), ← zero_mul (Hc H (List.range n) []),
      ← sgnSum_cons (R := R) [i] [],
      ← eval_queryC_general cast H n [[i]] [] (by simpa using List.mem_range.mp hi) (by simp),
      eval_queryC]
    congr 2
    apply List.filter_congr
    intro S _
    rw [Bool.eq_iff_iff, covers_iff]
    simp
  rw [List.map_congr_left hR, List.map_congr_left (fun k _ => eval_profileC cast H n (k + 1)),
    sum_sum_filter, sum_sum_filter]
  congr 1
  apply List.map_congr_left
  intro S hS
  have hsub := (mem_atomSets.mp hS).1
  rw [countP_succ_le_range, countP_mem_range hsub, Nat.min_eq_left]
  simpa using hsub.length_le

end General

/-! ### Singleton groups, residual entropy and the entropy triangles -/

/-- The singleton groups `{0},{1},…,{n-1}` (what dit uses when no grouping is given). -/
abbrev singles (n : Nat) : List VSet := (List.range n).map (fun i => [i])

theorem mem_vunions_singles (n x : Nat) : x ∈ vunions (singles n) ↔ x < n := by
  rw [mem_vunions]
  simp [singles]

theorem singles_disjoint (n : Nat) : (singles n).Pairwise VDisj := by
  unfold singles
  rw [List.pairwise_map]
  refine (List.nodup_range (n := n)).imp ?_
  intro a b hab x hx hx'
  simp only [List.mem_singleton] at hx hx'
  exact hab (hx.symm.trans hx')

section TriAlg
variable {R : Type} [CommRing R] (cast : ℚ →+* R) (H : VSet → R)
  (h0 : H [] = 0) (hn : ∀ s, H s = H (vnorm s))
include h0 hn

/-- One term of `H_P − R`: `H(i) − H(i | rest) = I(i : rest)`. -/
theorem marg_sub_residual_term (n i : Nat) :
    H [i] - Hc H [i] (vunion (vdiff (vunions (singles n)) (vnorm [i])) [])
      = Comb.eval cast H (cmiC [i] (vdiff (List.range n) [i]) []) := by
  rw [eval_cmiC]
  unfold Hc
  have e0 : vnorm ([] : VSet) = [] := rfl
  have e1 : vunion [i] ([] : VSet) = vnorm [i] := by simp [vunion]
  have e2 : vunion [i] (vunion (vdiff (vunions (singles n)) (vnorm [i])) [])
      = vunion (vunion [i] (vdiff (List.range n) [i])) [] :=
    vunion_congr (by
      intro x
      simp only [mem_vunion, mem_vdiff, mem_vnorm, mem_vunions_singles, List.mem_range]
      tauto)
  have e3 : vnorm (vunion (vdiff (vunions (singles n)) (vnorm [i])) [])
      = vunion (vdiff (List.range n) [i]) [] := by
    refine (vnorm_idem _).trans (vunion_congr ?_)
    intro x
    simp only [mem_vdiff, mem_vnorm, mem_vunions_singles, List.mem_range]
  rw [e0, e1, e2, e3, h0, ← hn [i]]
  ring

/-- `H_P − R = Σᵢ I(Xᵢ : rest)`: the middle coordinate of the first entropy triangle. -/
theorem marg_sub_residual (n : Nat) :
    Comb.eval cast H (marginalsC n) - Comb.eval cast H (residualC (singles n) [])
      = ((List.range n).map (fun i =>
          Comb.eval cast H (cmiC [i] (vdiff (List.range n) [i]) []))).sum := by
  rw [eval_marginalsC cast H, eval_residualC, List.map_map, ← sum_map_sub]
  congr 1
  apply List.map_congr_left
  intro i _
  exact marg_sub_residual_term cast H h0 hn n i

end TriAlg

theorem residual_sum_nonneg {R : Type} [CommRing R] [LinearOrder R] [IsStrictOrderedRing R]
    {H : VSet → R} (h : Submod H) (groups : List VSet) (Z : VSet) :
    0 ≤ (groups.map (fun g =>
        Hc H g (vunion (vdiff (vunions groups) (vnorm g)) Z))).sum := by
  generalize vunions groups = U
  induction groups with
  | nil => simp
  | cons g gs ih =>
    rw [List.map_cons, List.sum_cons]
    exact add_nonneg (Hc_nonneg h g _) ih

end Dit.Lemmas.Partition
