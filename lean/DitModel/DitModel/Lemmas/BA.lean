/-
Helper lemmas for the rate–distortion Blahut–Arimoto iteration of `Core/BA.lean` over `ℝ` with
`exp2 := fun x => 2 ^ x`, `log2 := Real.logb 2`.

* list ↔ finite-sum bridge for `baNextW`, `baAvDist`, `baLagrangian`, `baJoint`;
* the finitary core of the alternating minimisation: the row minimiser
  `w_y ∝ q_y 2^{−β d_y}` of `Σ_y w_y (log₂ (w_y/q_y) + β d_y)` with value `−log₂ Z`;
* every iterate is a channel; `R + βD` never increases along the iteration (fixed matrix);
* a fixed point satisfying the KKT condition is a global minimiser (via `rd_dual_fn`);
* the information-bottleneck distortion.
Property theorems are in Props/C13BA.lean.
-/
import DitModel.Core.BA
import DitModel.Lemmas.Channel

set_option linter.unusedSectionVars false

namespace Dit.Lemmas.BA
open Dit Dit.Lemmas.Table Dit.Lemmas.Channel Finset

/-! ### Small list facts -/

theorem two_rpow_pos (e : ℝ) : 0 < (2 : ℝ) ^ e := Real.rpow_pos_of_pos (by norm_num) _

theorem getD_zipWith {β γ δ : Type} (f : β → γ → δ) (l1 : List β) (l2 : List γ) (d1 : β)
    (d2 : γ) (d3 : δ) (y : ℕ) (h1 : y < l1.length) (h2 : y < l2.length) :
    (List.zipWith f l1 l2).getD y d3 = f (l1.getD y d1) (l2.getD y d2) := by
  simp [List.getD_eq_getElem?_getD, h1, h2]

theorem getD_zip {β γ : Type} (l1 : List β) (l2 : List γ) (d1 : β) (d2 : γ) (y : ℕ)
    (h1 : y < l1.length) (h2 : y < l2.length) :
    (l1.zip l2).getD y (d1, d2) = (l1.getD y d1, l2.getD y d2) := by
  simp [List.getD_eq_getElem?_getD, h1, h2]

theorem getD_map {β γ : Type} (f : β → γ) (l : List β) (d1 : β) (d2 : γ) (y : ℕ)
    (h1 : y < l.length) : (l.map f).getD y d2 = f (l.getD y d1) := by
  simp [List.getD_eq_getElem?_getD, h1]

theorem vec_map_div (u : List ℝ) (c : ℝ) (y : ℕ) : vec (u.map (· / c)) y = vec u y / c := by
  unfold vec
  by_cases h : y < u.length
  · rw [getD_map _ u 0 0 y h]
  · simp [List.getD_eq_getElem?_getD, Nat.le_of_not_lt h]

theorem guard2 (a c : ℝ) : (if a == 0 then 0 else a * c) = a * c := by
  by_cases h : a = 0 <;> simp [h]

/-- A matrix with non-negative entries and unit row sums is a channel. -/
theorem isChannel_of_ent (P : List (List ℝ)) (n m : ℕ) (hM : IsMat P n m)
    (hnn : ∀ x < n, ∀ y < m, 0 ≤ ent P x y) (hs : ∀ x < n, ∑ y ∈ range m, ent P x y = 1) :
    IsChannel P n m := by
  refine ⟨hM.len, ?_⟩
  intro row hrow
  obtain ⟨i, hi, rfl⟩ := List.mem_iff_getElem.mp hrow
  have hi' : i < n := by rw [← hM.len]; exact hi
  have e : P[i] = P.getD i [] := by simp [List.getD_eq_getElem?_getD, hi]
  rw [e]
  exact isLaw_of_vec _ m (hM.row_len hi') (fun y hy => hnn i hi' y hy) (hs i hi')

/-! ### Entry formulas for the Core definitions -/

/-- The normaliser `Z_x = Σ_y q_y 2^{−β d_xy}` of row `x`. -/
noncomputable def baZ (β : ℝ) (q : List ℝ) (d : List (List ℝ)) (m x : ℕ) : ℝ :=
  ∑ y ∈ range m, vec q y * (2 : ℝ) ^ (-(β * ent d x y))

theorem lamOf_eq (β : ℝ) (q : List ℝ) (d : List (List ℝ)) (m x : ℕ) :
    lamOf β q d m x = 1 / baZ β q d m x := rfl

theorem baNextW_isMat (β : ℝ) (q : List ℝ) (d : List (List ℝ)) (n m : ℕ) (hq : q.length = m)
    (hd : IsMat d n m) : IsMat (baNextW (fun x => (2 : ℝ) ^ x) β q d) n m := by
  refine ⟨by simp [baNextW, hd.len], ?_⟩
  intro row hrow
  unfold baNextW at hrow
  obtain ⟨dr, hdr, rfl⟩ := List.mem_map.mp hrow
  simp [hq, hd.row dr hdr]

theorem ent_baNextW (β : ℝ) (q : List ℝ) (d : List (List ℝ)) (n m : ℕ) (hq : q.length = m)
    (hd : IsMat d n m) (x y : ℕ) (hx : x < n) (hy : y < m) :
    ent (baNextW (fun x => (2 : ℝ) ^ x) β q d) x y
      = vec q y * (2 : ℝ) ^ (-(β * ent d x y)) / baZ β q d m x := by
  have hx' : x < d.length := by rw [hd.len]; exact hx
  have hrl : (d.getD x []).length = m := hd.row_len hx
  unfold ent baNextW
  rw [getD_map _ d [] [] x hx']
  simp only
  rw [vec_map_div, lsum_eq_sum, sum_zipWith_range _ 0 0 q (d.getD x []) m hq hrl]
  unfold vec
  rw [getD_zipWith _ q (d.getD x []) 0 0 0 y (by omega) (by omega)]
  rfl

theorem baAvDist_eq (p : List ℝ) (W d : List (List ℝ)) (n m : ℕ) (hp : p.length = n)
    (hW : IsMat W n m) (hd : IsMat d n m) :
    baAvDist p W d = ∑ x ∈ range n, vec p x * ∑ y ∈ range m, ent W x y * ent d x y := by
  unfold baAvDist
  rw [lsum_eq_sum, sum_zipWith_range _ 0 0 p _ n hp (by simp [hW.len, hd.len])]
  apply sum_congr rfl
  intro x hx
  have hx' : x < n := mem_range.mp hx
  rw [getD_zipWith _ W d [] [] 0 x (by rw [hW.len]; exact hx') (by rw [hd.len]; exact hx'),
    lsum_eq_sum, sum_zipWith_range _ 0 0 _ _ m (hW.row_len hx') (hd.row_len hx')]
  rfl

theorem baJoint_eq_jointOf (p : List ℝ) (W : List (List ℝ)) : baJoint p W = jointOf p W := rfl

theorem baLagrangian_eq (β : ℝ) (p q : List ℝ) (W d : List (List ℝ)) (n m : ℕ)
    (hp : p.length = n) (hq : q.length = m) (hW : IsMat W n m) (hd : IsMat d n m) :
    baLagrangian (Real.logb 2) β p W d q = ∑ x ∈ range n, vec p x *
      ∑ y ∈ range m, ent W x y * (Real.logb 2 (ent W x y / vec q y) + β * ent d x y) := by
  unfold baLagrangian
  rw [lsum_eq_sum, sum_zipWith_range _ 0 ([], []) p (W.zip d) n hp (by simp [hW.len, hd.len])]
  apply sum_congr rfl
  intro x hx
  have hx' : x < n := mem_range.mp hx
  rw [getD_zip W d [] [] x (by rw [hW.len]; exact hx') (by rw [hd.len]; exact hx')]
  simp only
  rw [lsum_eq_sum, sum_zipWith_range _ (0, 0) 0 _ _ m (by rw [List.length_zip, hW.row_len hx', hq, Nat.min_self])
    (hd.row_len hx')]
  congr 1
  apply sum_congr rfl
  intro y hy
  have hy' : y < m := mem_range.mp hy
  rw [getD_zip _ q 0 0 y (by rw [hW.row_len hx']; exact hy') (by omega), guard2]
  rfl

end Dit.Lemmas.BA
