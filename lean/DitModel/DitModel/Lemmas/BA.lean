/-
Helper lemmas for the rate–distortion Blahut–Arimoto iteration of `Core/BA.lean` over `ℝ` with
`exp2 := fun x => 2 ^ x`, `log2 := Real.logb 2`.

* list ↔ finite-sum bridge for `baNextW`, `baAvDist`, `baLagrangian`, `baJoint`;
* the finitary core of the alternating minimisation: the row minimiser
  `w_y ∝ q_y 2^{−β d_y}` of `Σ_y w_y (log₂ (w_y/q_y) + β d_y)` with value `−log₂ Z`;
* every iterate is a channel; `R + βD` never increases along the iteration (fixed matrix);
* a fixed point satisfying the KKT condition is a global minimiser (via `rd_dual_fn`);
* the information-bottleneck distortion.
Property theorems are in Props/C13BA.lean.
-/
import DitModel.Core.BA
import DitModel.Lemmas.Channel

set_option linter.unusedSectionVars false

namespace Dit.Lemmas.BA
open Dit Dit.Lemmas.Table Dit.Lemmas.Channel Finset

/-! ### Small list facts -/

theorem two_rpow_pos (e : ℝ) : 0 < (2 : ℝ) ^ e := Real.rpow_pos_of_pos (by norm_num) _

theorem getD_zipWith {β γ δ : Type} (f : β → γ → δ) (l1 : List β) (l2 : List γ) (d1 : β)
    (d2 : γ) (d3 : δ) (y : ℕ) (h1 : y < l1.length) (h2 : y < l2.length) :
    (List.zipWith f l1 l2).getD y d3 = f (l1.getD y d1) (l2.getD y d2) := by
  simp [List.getD_eq_getElem?_getD, h1, h2]

theorem getD_zip {β γ : Type} (l1 : List β) (l2 : List γ) (d1 : β) (d2 : γ) (y : ℕ)
    (h1 : y < l1.length) (h2 : y < l2.length) :
    (l1.zip l2).getD y (d1, d2) = (l1.getD y d1, l2.getD y d2) := by
  simp [List.getD_eq_getElem?_getD, h1, h2]

theorem getD_map {β γ : Type} (f : β → γ) (l : List β) (d1 : β) (d2 : γ) (y : ℕ)
    (h1 : y < l.length) : (l.map f).getD y d2 = f (l.getD y d1) := by
  simp [List.getD_eq_getElem?_getD, h1]

theorem vec_map_div (u : List ℝ) (c : ℝ) (y : ℕ) : vec (u.map (· / c)) y = vec u y / c := by
  unfold vec
  by_cases h : y < u.length
  · rw [getD_map _ u 0 0 y h]
  · simp [List.getD_eq_getElem?_getD, Nat.le_of_not_lt h]

theorem guard2 (a c : ℝ) : (if a == 0 then 0 else a * c) = a * c := by
  by_cases h : a = 0 <;> simp [h]

/-- A matrix with non-negative entries and unit row sums is a channel. -/
theorem isChannel_of_ent (P : List (List ℝ)) (n m : ℕ) (hM : IsMat P n m)
    (hnn : ∀ x < n, ∀ y < m, 0 ≤ ent P x y) (hs : ∀ x < n, ∑ y ∈ range m, ent P x y = 1) :
    IsChannel P n m := by
  refine ⟨hM.len, ?_⟩
  intro row hrow
  obtain ⟨i, hi, rfl⟩ := List.mem_iff_getElem.mp hrow
  have hi' : i < n := by rw [← hM.len]; exact hi
  have e : P[i] = P.getD i [] := by simp [List.getD_eq_getElem?_getD, hi]
  rw [e]
  exact isLaw_of_vec _ m (hM.row_len hi') (fun y hy => hnn i hi' y hy) (hs i hi')

/-! ### Entry formulas for the Core definitions -/

/-- The normaliser `Z_x = Σ_y q_y 2^{−β d_xy}` of row `x`. -/
noncomputable def baZ (β : ℝ) (q : List ℝ) (d : List (List ℝ)) (m x : ℕ) : ℝ :=
  ∑ y ∈ range m, vec q y * (2 : ℝ) ^ (-(β * ent d x y))

theorem lamOf_eq (β : ℝ) (q : List ℝ) (d : List (List ℝ)) (m x : ℕ) :
    lamOf β q d m x = 1 / baZ β q d m x := rfl

theorem baNextW_isMat (β : ℝ) (q : List ℝ) (d : List (List ℝ)) (n m : ℕ) (hq : q.length = m)
    (hd : IsMat d n m) : IsMat (baNextW (fun x => (2 : ℝ) ^ x) β q d) n m := by
  refine ⟨by simp [baNextW, hd.len], ?_⟩
  intro row hrow
  unfold baNextW at hrow
  obtain ⟨dr, hdr, rfl⟩ := List.mem_map.mp hrow
  simp [hq, hd.row dr hdr]

theorem ent_baNextW (β : ℝ) (q : List ℝ) (d : List (List ℝ)) (n m : ℕ) (hq : q.length = m)
    (hd : IsMat d n m) (x y : ℕ) (hx : x < n) (hy : y < m) :
    ent (baNextW (fun x => (2 : ℝ) ^ x) β q d) x y
      = vec q y * (2 : ℝ) ^ (-(β * ent d x y)) / baZ β q d m x := by
  have hx' : x < d.length := by rw [hd.len]; exact hx
  have hrl : (d.getD x []).length = m := hd.row_len hx
  unfold ent baNextW
  rw [getD_map _ d [] [] x hx']
  simp only
  rw [vec_map_div, lsum_eq_sum, sum_zipWith_range _ 0 0 q (d.getD x []) m hq hrl]
  unfold vec
  rw [getD_zipWith _ q (d.getD x []) 0 0 0 y (by omega) (by omega)]
  rfl

theorem baAvDist_eq (p : List ℝ) (W d : List (List ℝ)) (n m : ℕ) (hp : p.length = n)
    (hW : IsMat W n m) (hd : IsMat d n m) :
    baAvDist p W d = ∑ x ∈ range n, vec p x * ∑ y ∈ range m, ent W x y * ent d x y := by
  unfold baAvDist
  rw [lsum_eq_sum, sum_zipWith_range _ 0 0 p _ n hp (by simp [hW.len, hd.len])]
  apply sum_congr rfl
  intro x hx
  have hx' : x < n := mem_range.mp hx
  rw [getD_zipWith _ W d [] [] 0 x (by rw [hW.len]; exact hx') (by rw [hd.len]; exact hx'),
    lsum_eq_sum, sum_zipWith_range _ 0 0 _ _ m (hW.row_len hx') (hd.row_len hx')]
  rfl

theorem baJoint_eq_jointOf (p : List ℝ) (W : List (List ℝ)) : baJoint p W = jointOf p W := rfl

theorem baLagrangian_eq (β : ℝ) (p q : List ℝ) (W d : List (List ℝ)) (n m : ℕ)
    (hp : p.length = n) (hq : q.length = m) (hW : IsMat W n m) (hd : IsMat d n m) :
    baLagrangian (Real.logb 2) β p W d q = ∑ x ∈ range n, vec p x *
      ∑ y ∈ range m, ent W x y * (Real.logb 2 (ent W x y / vec q y) + β * ent d x y) := by
  unfold baLagrangian
  rw [lsum_eq_sum, sum_zipWith_range _ 0 ([], []) p (W.zip d) n hp (by simp [hW.len, hd.len])]
  apply sum_congr rfl
  intro x hx
  have hx' : x < n := mem_range.mp hx
  rw [getD_zip W d [] [] x (by rw [hW.len]; exact hx') (by rw [hd.len]; exact hx')]
  simp only
  rw [lsum_eq_sum, sum_zipWith_range _ (0, 0) 0 _ _ m (by rw [List.length_zip, hW.row_len hx', hq, Nat.min_self])
    (hd.row_len hx')]
  congr 1
  apply sum_congr rfl
  intro y hy
  have hy' : y < m := mem_range.mp hy
  rw [getD_zip _ q 0 0 y (by rw [hW.row_len hx']; exact hy') (by omega), guard2]
  rfl

/-! ### The finitary core: the row minimiser -/

section Core
variable {κ : Type}

theorem row_term (w q Z dd β : ℝ) (hZ : 0 < Z) (hdom : q = 0 → w = 0) :
    w * Real.logb 2 (w / (q * (2 : ℝ) ^ (-(β * dd)) / Z))
      = w * (Real.logb 2 (w / q) + β * dd) + w * Real.logb 2 Z := by
  by_cases h1 : w = 0
  · simp [h1]
  have hq' : q ≠ 0 := fun h => h1 (hdom h)
  have h2 := two_rpow_pos (-(β * dd))
  rw [Real.logb_div h1 (div_ne_zero (mul_ne_zero hq' h2.ne') hZ.ne'),
    Real.logb_div (mul_ne_zero hq' h2.ne') hZ.ne', Real.logb_mul hq' h2.ne',
    Real.logb_rpow (by norm_num) (by norm_num), Real.logb_div h1 hq']
  ring

/-- For a probability vector `w` dominated by `q ≥ 0`:
`Σ_y w_y (log₂ (w_y/q_y) + β d_y) ≥ −log₂ Σ_y q_y 2^{−β d_y}` (Gibbs against `q_y 2^{−βd_y}/Z`). -/
theorem row_lower (t : Finset κ) (w q dd : κ → ℝ) (β : ℝ) (hw : ∀ y ∈ t, 0 ≤ w y)
    (hws : ∑ y ∈ t, w y = 1) (hq : ∀ y ∈ t, 0 ≤ q y)
    (hZ : 0 < ∑ y ∈ t, q y * (2 : ℝ) ^ (-(β * dd y)))
    (hdom : ∀ y ∈ t, q y = 0 → w y = 0) :
    -Real.logb 2 (∑ y ∈ t, q y * (2 : ℝ) ^ (-(β * dd y)))
      ≤ ∑ y ∈ t, w y * (Real.logb 2 (w y / q y) + β * dd y) := by
  set Z := ∑ y ∈ t, q y * (2 : ℝ) ^ (-(β * dd y)) with hZdef
  have hg := Lemmas.InfoReal.gibbs t w (fun y => q y * (2 : ℝ) ^ (-(β * dd y)) / Z) hw
    (fun y hy => div_nonneg (mul_nonneg (hq y hy) (two_rpow_pos _).le) hZ.le)
    (by rw [← sum_div, div_self hZ.ne', hws])
    (fun y hy h0 => hdom y hy (by
      rcases div_eq_zero_iff.mp h0 with h | h
      · rcases mul_eq_zero.mp h with h | h
        · exact h
        · exact absurd h (two_rpow_pos _).ne'
      · exact absurd h hZ.ne'))
  rw [sum_congr rfl (fun y hy => row_term (w y) (q y) Z (dd y) β hZ (hdom y hy)),
    sum_add_distrib, ← sum_mul, hws, one_mul] at hg
  linarith

/-- The minimiser `w_y = q_y 2^{−β d_y}/Z` attains `−log₂ Z`. -/
theorem row_min (t : Finset κ) (q dd : κ → ℝ) (β : ℝ)
    (hZ : 0 < ∑ y ∈ t, q y * (2 : ℝ) ^ (-(β * dd y))) :
    ∑ y ∈ t, (q y * (2 : ℝ) ^ (-(β * dd y)) / ∑ y ∈ t, q y * (2 : ℝ) ^ (-(β * dd y)))
        * (Real.logb 2 ((q y * (2 : ℝ) ^ (-(β * dd y)) / ∑ y ∈ t, q y * (2 : ℝ) ^ (-(β * dd y)))
            / q y) + β * dd y)
      = -Real.logb 2 (∑ y ∈ t, q y * (2 : ℝ) ^ (-(β * dd y))) := by
  set Z := ∑ y ∈ t, q y * (2 : ℝ) ^ (-(β * dd y)) with hZdef
  have h : ∀ y ∈ t, (q y * (2 : ℝ) ^ (-(β * dd y)) / Z)
        * (Real.logb 2 ((q y * (2 : ℝ) ^ (-(β * dd y)) / Z) / q y) + β * dd y)
      = -((q y * (2 : ℝ) ^ (-(β * dd y)) / Z) * Real.logb 2 Z) := by
    intro y _
    have := row_term (q y * (2 : ℝ) ^ (-(β * dd y)) / Z) (q y) Z (dd y) β hZ
      (by intro h0; simp [h0])
    have e : (q y * (2 : ℝ) ^ (-(β * dd y)) / Z) *
        Real.logb 2 ((q y * (2 : ℝ) ^ (-(β * dd y)) / Z) / (q y * (2 : ℝ) ^ (-(β * dd y)) / Z))
        = 0 := by
      by_cases h0 : q y * (2 : ℝ) ^ (-(β * dd y)) / Z = 0
      · rw [h0]; simp
      · rw [div_self h0]; simp
    rw [e] at this
    linarith
  rw [sum_congr rfl h, sum_neg_distrib, ← sum_mul, ← sum_div, div_self hZ.ne', one_mul]

end Core

/-! ### Every iterate is a channel -/

theorem baZ_pos (β : ℝ) (q : List ℝ) (d : List (List ℝ)) (m x : ℕ) (hq : IsLaw q m) :
    0 < baZ β q d m x :=
  weighted_pos m (vec q) _ (fun y _ => hq.vec_nonneg y) hq.sum_vec (fun _ _ => two_rpow_pos _)

/-- The general form: non-negative weights `q` with positive normalisers. -/
theorem baNextW_isChannel_of_pos (β : ℝ) (q : List ℝ) (d : List (List ℝ)) (n m : ℕ)
    (hq : q.length = m) (hqnn : ∀ y < m, 0 ≤ vec q y) (hd : IsMat d n m)
    (hZ : ∀ x < n, 0 < baZ β q d m x) :
    IsChannel (baNextW (fun x => (2 : ℝ) ^ x) β q d) n m := by
  apply isChannel_of_ent _ n m (baNextW_isMat β q d n m hq hd)
  · intro x hx y hy
    rw [ent_baNextW β q d n m hq hd x y hx hy]
    exact div_nonneg (mul_nonneg (hqnn y hy) (two_rpow_pos _).le) (hZ x hx).le
  · intro x hx
    rw [sum_congr rfl (fun y hy => ent_baNextW β q d n m hq hd x y hx (mem_range.mp hy)),
      ← sum_div]
    exact div_self (hZ x hx).ne'

theorem baNextW_isChannel (β : ℝ) (q : List ℝ) (d : List (List ℝ)) (n m : ℕ) (hq : IsLaw q m)
    (hd : IsMat d n m) : IsChannel (baNextW (fun x => (2 : ℝ) ^ x) β q d) n m :=
  baNextW_isChannel_of_pos β q d n m hq.len (fun y _ => hq.vec_nonneg y) hd
    (fun x _ => baZ_pos β q d m x hq)

theorem baStep_fst (e : ℝ → ℝ) (β : ℝ) (p : List ℝ) (distFn : List (List ℝ) → List (List ℝ))
    (W : List (List ℝ)) :
    (baStep e β p distFn W).1 = baNextW e β (outputLaw p W) (distFn W) := rfl

theorem baStep_snd (e : ℝ → ℝ) (β : ℝ) (p : List ℝ) (distFn : List (List ℝ) → List (List ℝ))
    (W : List (List ℝ)) :
    (baStep e β p distFn W).2
      = baAvDist p (baStep e β p distFn W).1 (distFn (baStep e β p distFn W).1) := rfl

theorem baStep_isChannel (β : ℝ) (p : List ℝ) (distFn : List (List ℝ) → List (List ℝ))
    (W : List (List ℝ)) (n m : ℕ) (hp : IsLaw p n) (hW : IsChannel W n m)
    (hdist : IsMat (distFn W) n m) :
    IsChannel (baStep (fun x => (2 : ℝ) ^ x) β p distFn W).1 n m :=
  baNextW_isChannel β _ _ n m (outputLaw_isLaw p W n m hp hW) hdist

/-- The `k`-th iterate of the step map. -/
noncomputable def baIter (β : ℝ) (p : List ℝ) (distFn : List (List ℝ) → List (List ℝ)) (k : ℕ)
    (W : List (List ℝ)) : List (List ℝ) :=
  (fun V => (baStep (fun x => (2 : ℝ) ^ x) β p distFn V).1)^[k] W

theorem baIter_zero (β : ℝ) (p : List ℝ) (distFn : List (List ℝ) → List (List ℝ))
    (W : List (List ℝ)) : baIter β p distFn 0 W = W := rfl

theorem baIter_succ (β : ℝ) (p : List ℝ) (distFn : List (List ℝ) → List (List ℝ)) (k : ℕ)
    (W : List (List ℝ)) :
    baIter β p distFn (k + 1) W
      = baIter β p distFn k (baStep (fun x => (2 : ℝ) ^ x) β p distFn W).1 :=
  Function.iterate_succ_apply _ _ _

theorem baIter_succ' (β : ℝ) (p : List ℝ) (distFn : List (List ℝ) → List (List ℝ)) (k : ℕ)
    (W : List (List ℝ)) :
    baIter β p distFn (k + 1) W
      = (baStep (fun x => (2 : ℝ) ^ x) β p distFn (baIter β p distFn k W)).1 :=
  Function.iterate_succ_apply' _ _ _

theorem baIter_isChannel (β : ℝ) (p : List ℝ) (distFn : List (List ℝ) → List (List ℝ))
    (n m : ℕ) (hp : IsLaw p n) (hdist : ∀ V, IsChannel V n m → IsMat (distFn V) n m) (k : ℕ)
    (W : List (List ℝ)) (hW : IsChannel W n m) : IsChannel (baIter β p distFn k W) n m := by
  induction k with
  | zero => exact hW
  | succ k ih =>
    rw [baIter_succ']
    exact baStep_isChannel β p distFn _ n m hp ih (hdist _ ih)

/-- What the loop returns: some iterate `k ≤ fuel`, its own distortion value, `it + k`. -/
theorem baLoop_spec (β : ℝ) (p : List ℝ) (distFn : List (List ℝ) → List (List ℝ))
    (close : ℝ → ℝ → Bool) (fuel : ℕ) (W : List (List ℝ)) (prev dv : ℝ) (it : ℕ)
    (hdv : dv = baAvDist p W (distFn W)) :
    ∃ k, k ≤ fuel ∧ baLoop (fun x => (2 : ℝ) ^ x) β p distFn close fuel W prev dv it
      = (baIter β p distFn k W,
          baAvDist p (baIter β p distFn k W) (distFn (baIter β p distFn k W)), it + k) := by
  induction fuel generalizing W prev dv it with
  | zero => exact ⟨0, le_refl _, by simp [baLoop, baIter_zero, hdv]⟩
  | succ fuel ih =>
    by_cases hc : close prev dv = true
    · exact ⟨0, Nat.zero_le _, by rw [baLoop, if_pos hc, baIter_zero, hdv]; rfl⟩
    · obtain ⟨k, hk, he⟩ := ih (baStep (fun x => (2 : ℝ) ^ x) β p distFn W).1 dv
        (baStep (fun x => (2 : ℝ) ^ x) β p distFn W).2 (it + 1) (baStep_snd _ _ _ _ _)
      refine ⟨k + 1, by omega, ?_⟩
      rw [baIter_succ]
      rw [baLoop, if_neg hc]
      simp only
      rw [he]
      simp [Nat.add_assoc, Nat.add_comm 1 k]

/-- The same without assuming anything about `prev`, `dv`: the channel and the counter. -/
theorem baLoop_fst (β : ℝ) (p : List ℝ) (distFn : List (List ℝ) → List (List ℝ))
    (close : ℝ → ℝ → Bool) (fuel : ℕ) (W : List (List ℝ)) (prev dv : ℝ) (it : ℕ) :
    ∃ k, k ≤ fuel ∧
      (baLoop (fun x => (2 : ℝ) ^ x) β p distFn close fuel W prev dv it).1 = baIter β p distFn k W
      ∧ (baLoop (fun x => (2 : ℝ) ^ x) β p distFn close fuel W prev dv it).2.2 = it + k := by
  induction fuel generalizing W prev dv it with
  | zero => exact ⟨0, le_refl _, by simp [baLoop, baIter_zero]⟩
  | succ fuel ih =>
    by_cases hc : close prev dv = true
    · exact ⟨0, Nat.zero_le _, by rw [baLoop, if_pos hc, baIter_zero]; simp⟩
    · obtain ⟨k, hk, he1, he2⟩ := ih (baStep (fun x => (2 : ℝ) ^ x) β p distFn W).1 dv
        (baStep (fun x => (2 : ℝ) ^ x) β p distFn W).2 (it + 1)
      refine ⟨k + 1, by omega, ?_⟩
      rw [baIter_succ, baLoop, if_neg hc]
      simp only
      exact ⟨he1, by rw [he2]; omega⟩

theorem baRun_spec (β : ℝ) (p : List ℝ) (distFn : List (List ℝ) → List (List ℝ))
    (close : ℝ → ℝ → Bool) (maxIters : ℕ) (W0 : List (List ℝ)) :
    ∃ k, k ≤ maxIters ∧ baRun (fun x => (2 : ℝ) ^ x) β p distFn close maxIters W0
      = (baIter β p distFn k W0,
          baAvDist p (baIter β p distFn k W0) (distFn (baIter β p distFn k W0)), k) := by
  obtain ⟨k, hk, he⟩ := baLoop_spec β p distFn close maxIters W0 0
    (baAvDist p W0 (distFn W0)) 0 rfl
  exact ⟨k, hk, by rw [baRun, he, Nat.zero_add]⟩

theorem baIterates_mem (β : ℝ) (p : List ℝ) (distFn : List (List ℝ) → List (List ℝ)) (k : ℕ)
    (W : List (List ℝ)) (e : List (List ℝ) × ℝ)
    (he : e ∈ baIterates (fun x => (2 : ℝ) ^ x) β p distFn k W) :
    ∃ j, j ≤ k ∧ e = (baIter β p distFn j W,
      baAvDist p (baIter β p distFn j W) (distFn (baIter β p distFn j W))) := by
  induction k generalizing W with
  | zero =>
    simp only [baIterates, List.mem_singleton] at he
    exact ⟨0, le_refl _, he⟩
  | succ k ih =>
    simp only [baIterates, List.mem_cons] at he
    rcases he with he | he
    · exact ⟨0, Nat.zero_le _, he⟩
    · obtain ⟨j, hj, hej⟩ := ih _ he
      exact ⟨j + 1, by omega, by rw [baIter_succ]; exact hej⟩

theorem baIterates_length (e2 : ℝ → ℝ) (β : ℝ) (p : List ℝ)
    (distFn : List (List ℝ) → List (List ℝ)) (k : ℕ) (W : List (List ℝ)) :
    (baIterates e2 β p distFn k W).length = k + 1 := by
  induction k generalizing W with
  | zero => rfl
  | succ k ih => simp [baIterates, ih]


/-! ### Descent for a fixed distortion matrix -/

/-- The objective `F(W) = I(p;W) + β·E[d]`. -/
noncomputable def baF (β : ℝ) (p : List ℝ) (W d : List (List ℝ)) : ℝ :=
  channelMI (Real.logb 2) p W + β * baAvDist p W d

theorem lagrangian_split (β : ℝ) (p q : List ℝ) (W d : List (List ℝ)) (n m : ℕ)
    (hp : p.length = n) (hq : q.length = m) (hW : IsMat W n m) (hd : IsMat d n m) :
    baLagrangian (Real.logb 2) β p W d q
      = ∑ x ∈ range n, vec p x * ∑ y ∈ range m, ent W x y * Real.logb 2 (ent W x y / vec q y)
        + β * baAvDist p W d := by
  rw [baLagrangian_eq β p q W d n m hp hq hW hd, baAvDist_eq p W d n m hp hW hd, mul_sum,
    ← sum_add_distrib]
  apply sum_congr rfl
  intro x _
  have : ∑ y ∈ range m, ent W x y * (Real.logb 2 (ent W x y / vec q y) + β * ent d x y)
      = ∑ y ∈ range m, ent W x y * Real.logb 2 (ent W x y / vec q y)
        + β * ∑ y ∈ range m, ent W x y * ent d x y := by
    rw [mul_sum, ← sum_add_distrib]
    exact sum_congr rfl (fun _ _ => by ring)
  rw [this]; ring

/-- `L(W, pW) = I(p;W) + β·E[d]`. -/
theorem baLagrangian_outputLaw (β : ℝ) (p : List ℝ) (W d : List (List ℝ)) (n m : ℕ)
    (hp : p.length = n) (hn : 0 < n) (hW : IsMat W n m) (hd : IsMat d n m) :
    baLagrangian (Real.logb 2) β p W d (outputLaw p W) = baF β p W d := by
  rw [lagrangian_split β p _ W d n m hp (outputLaw_length p W n m hW hn) hW hd, baF,
    channelMI_eq p W n m hp hW]

/-- (a) The output law of `W` is the best `q` for `W`: `F(W) = L(W, pW) ≤ L(W, q)`. -/
theorem baF_le_lagrangian (β : ℝ) (p q : List ℝ) (W d : List (List ℝ)) (n m : ℕ)
    (hp : IsLaw p n) (hW : IsChannel W n m) (hd : IsMat d n m) (hq : IsLaw q m)
    (hdom : ∀ x < n, vec p x ≠ 0 → ∀ y < m, vec q y = 0 → ent W x y = 0) :
    baF β p W d ≤ baLagrangian (Real.logb 2) β p W d q := by
  rw [lagrangian_split β p q W d n m hp.len hq.len hW.isMat hd, baF,
    channelMI_eq p W n m hp.len hW.isMat]
  simp only [vec_outputLaw p W n m hp.len hW.isMat]
  have h := mi_le_cross (range n) (range m) (vec p) (ent W) (vec q)
    (fun x _ => hp.vec_nonneg x) (fun x _ y _ => hW.ent_nonneg x y)
    (fun y _ => hq.vec_nonneg y)
    (by
      rw [sum_out (range n) (range m) (vec p) (ent W)
        (fun x hx => hW.sum_ent (mem_range.mp hx)), hp.sum_vec, hq.sum_vec])
    (fun x hx hne y hy => hdom x (mem_range.mp hx) hne y (mem_range.mp hy))
  linarith

/-- The closed form of `L` at the minimising channel: `L(W', q) = −Σ_x p_x log₂ Z_x`. -/
theorem lagrangian_nextW (β : ℝ) (p q : List ℝ) (d : List (List ℝ)) (n m : ℕ)
    (hp : p.length = n) (hq : IsLaw q m) (hd : IsMat d n m) :
    baLagrangian (Real.logb 2) β p (baNextW (fun x => (2 : ℝ) ^ x) β q d) d q
      = -∑ x ∈ range n, vec p x * Real.logb 2 (baZ β q d m x) := by
  rw [baLagrangian_eq β p q _ d n m hp hq.len (baNextW_isMat β q d n m hq.len hd) hd,
    ← sum_neg_distrib]
  apply sum_congr rfl
  intro x hx
  have hx' : x < n := mem_range.mp hx
  rw [sum_congr rfl (fun y hy => by
    rw [ent_baNextW β q d n m hq.len hd x y hx' (mem_range.mp hy)])]
  have := row_min (range m) (vec q) (ent d x) β (baZ_pos β q d m x hq)
  unfold baZ
  rw [this]; ring

/-- (b) `L(W, q) ≥ −Σ_x p_x log₂ Z_x` for every channel `W` (rows of positive source
probability dominated by `q`). -/
theorem lagrangian_ge (β : ℝ) (p q : List ℝ) (W d : List (List ℝ)) (n m : ℕ)
    (hp : IsLaw p n) (hW : IsChannel W n m) (hd : IsMat d n m) (hq : IsLaw q m)
    (hdom : ∀ x < n, vec p x ≠ 0 → ∀ y < m, vec q y = 0 → ent W x y = 0) :
    -∑ x ∈ range n, vec p x * Real.logb 2 (baZ β q d m x)
      ≤ baLagrangian (Real.logb 2) β p W d q := by
  rw [baLagrangian_eq β p q W d n m hp.len hq.len hW.isMat hd, ← sum_neg_distrib]
  apply sum_le_sum
  intro x hx
  have hx' : x < n := mem_range.mp hx
  by_cases h0 : vec p x = 0
  · simp [h0]
  have h := row_lower (range m) (ent W x) (vec q) (ent d x) β
    (fun y _ => hW.ent_nonneg x y) (hW.sum_ent hx') (fun y _ => hq.vec_nonneg y)
    (baZ_pos β q d m x hq) (fun y hy => hdom x hx' h0 y (mem_range.mp hy))
  have := mul_le_mul_of_nonneg_left h (hp.vec_nonneg x)
  unfold baZ
  linarith

theorem lagrangian_nextW_le (β : ℝ) (p q : List ℝ) (W d : List (List ℝ)) (n m : ℕ)
    (hp : IsLaw p n) (hW : IsChannel W n m) (hd : IsMat d n m) (hq : IsLaw q m)
    (hdom : ∀ x < n, vec p x ≠ 0 → ∀ y < m, vec q y = 0 → ent W x y = 0) :
    baLagrangian (Real.logb 2) β p (baNextW (fun x => (2 : ℝ) ^ x) β q d) d q
      ≤ baLagrangian (Real.logb 2) β p W d q := by
  rw [lagrangian_nextW β p q d n m hp.len hq hd]
  exact lagrangian_ge β p q W d n m hp hW hd hq hdom

/-- Rows of positive source probability are dominated by the output law. -/
theorem outputLaw_dom (p : List ℝ) (W : List (List ℝ)) (n m : ℕ) (hp : IsLaw p n)
    (hW : IsChannel W n m) :
    ∀ x < n, vec p x ≠ 0 → ∀ y < m, vec (outputLaw p W) y = 0 → ent W x y = 0 := by
  intro x hx hne y _ h0
  rw [vec_outputLaw p W n m hp.len hW.isMat] at h0
  have hle : vec p x * ent W x y ≤ ∑ x' ∈ range n, vec p x' * ent W x' y :=
    single_le_sum (f := fun x' => vec p x' * ent W x' y)
      (fun x' _ => mul_nonneg (hp.vec_nonneg x') (hW.ent_nonneg x' y)) (mem_range.mpr hx)
  rw [h0] at hle
  have h1 := hW.ent_nonneg x y
  have hpos : 0 < vec p x := lt_of_le_of_ne (hp.vec_nonneg x) (Ne.symm hne)
  by_contra hne'
  have : 0 < vec p x * ent W x y := mul_pos hpos (lt_of_le_of_ne h1 (Ne.symm hne'))
  linarith

/-- One step never increases `R + βD` (fixed matrix). -/
theorem baStep_descent (β : ℝ) (p : List ℝ) (W d : List (List ℝ)) (n m : ℕ) (hp : IsLaw p n)
    (hW : IsChannel W n m) (hd : IsMat d n m) :
    baF β p (baStep (fun x => (2 : ℝ) ^ x) β p (fun _ => d) W).1 d ≤ baF β p W d := by
  rw [baStep_fst]
  have hq := outputLaw_isLaw p W n m hp hW
  have hW' := baNextW_isChannel β (outputLaw p W) d n m hq hd
  have h1 := baF_le_lagrangian β p (outputLaw p W) _ d n m hp hW' hd hq (by
    intro x hx _ y hy h0
    rw [ent_baNextW β _ d n m hq.len hd x y hx hy, h0]; simp)
  have h2 := lagrangian_nextW_le β p (outputLaw p W) W d n m hp hW hd hq
    (outputLaw_dom p W n m hp hW)
  rw [baLagrangian_outputLaw β p W d n m hp.len hp.pos_len hW.isMat hd] at h2
  linarith

theorem baIter_descent (β : ℝ) (p : List ℝ) (d : List (List ℝ)) (n m : ℕ) (hp : IsLaw p n)
    (hd : IsMat d n m) (k : ℕ) (W : List (List ℝ)) (hW : IsChannel W n m) :
    baF β p (baIter β p (fun _ => d) (k + 1) W) d ≤ baF β p (baIter β p (fun _ => d) k W) d := by
  rw [baIter_succ']
  exact baStep_descent β p _ d n m hp (baIter_isChannel β p _ n m hp (fun _ _ => hd) k W hW) hd

theorem baIter_antitone (β : ℝ) (p : List ℝ) (d : List (List ℝ)) (n m : ℕ) (hp : IsLaw p n)
    (hd : IsMat d n m) (W : List (List ℝ)) (hW : IsChannel W n m) (j k : ℕ) (hjk : j ≤ k) :
    baF β p (baIter β p (fun _ => d) k W) d ≤ baF β p (baIter β p (fun _ => d) j W) d := by
  induction k with
  | zero =>
    have : j = 0 := by omega
    subst this; exact le_refl _
  | succ k ih =>
    rcases Nat.eq_or_lt_of_le hjk with h | h
    · subst h; exact le_refl _
    · exact le_trans (baIter_descent β p d n m hp hd k W hW) (ih (by omega))

theorem baIterates_le_head (β : ℝ) (p : List ℝ) (d : List (List ℝ)) (n m : ℕ) (hp : IsLaw p n)
    (hd : IsMat d n m) (k : ℕ) (W : List (List ℝ)) (hW : IsChannel W n m)
    (e : List (List ℝ) × ℝ)
    (he : e ∈ baIterates (fun x => (2 : ℝ) ^ x) β p (fun _ => d) k W) :
    baF β p e.1 d ≤ baF β p W d := by
  obtain ⟨j, _, rfl⟩ := baIterates_mem β p (fun _ => d) k W e he
  exact baIter_antitone β p d n m hp hd W hW 0 j (Nat.zero_le _)

theorem baIterates_pairwise (β : ℝ) (p : List ℝ) (d : List (List ℝ)) (n m : ℕ) (hp : IsLaw p n)
    (hd : IsMat d n m) (k : ℕ) (W : List (List ℝ)) (hW : IsChannel W n m) :
    List.Pairwise (fun a b : List (List ℝ) × ℝ => baF β p b.1 d ≤ baF β p a.1 d)
      (baIterates (fun x => (2 : ℝ) ^ x) β p (fun _ => d) k W) := by
  induction k generalizing W with
  | zero => simp [baIterates]
  | succ k ih =>
    rw [baIterates, List.pairwise_cons]
    refine ⟨?_, ih _ (baStep_isChannel β p _ W n m hp hW hd)⟩
    intro e he
    exact le_trans (baIterates_le_head β p d n m hp hd k _
      (baStep_isChannel β p _ W n m hp hW hd) e he) (baStep_descent β p W d n m hp hW hd)

/-! ### Fixed points and optimality -/

theorem expDistortion_joint (p : List ℝ) (V d : List (List ℝ)) (n m : ℕ) (hp : p.length = n)
    (hV : IsMat V n m) (hd : IsMat d n m) :
    expDistortion (baJoint p V) d = baAvDist p V d := by
  rw [baJoint_eq_jointOf, expDistortion_eq _ d n m (jointOf_isMat p V n m hp hV) hd,
    baAvDist_eq p V d n m hp hV hd]
  apply sum_congr rfl; intro x hx
  rw [mul_sum]
  apply sum_congr rfl; intro y hy
  rw [ent_jointOf p V n m hp hV x y (mem_range.mp hx) (mem_range.mp hy)]; ring

theorem jointMI_joint (p : List ℝ) (V : List (List ℝ)) (n m : ℕ) (hp : p.length = n)
    (hV : IsChannel V n m) :
    jointMI (Real.logb 2) (baJoint p V) = channelMI (Real.logb 2) p V :=
  Lemmas.Channel.jointMI_eq_channelMI p V _ n m hp hV.isMat
    (fun row hr => (hV.row row hr).sum_one) (jointOf_isMat p V n m hp hV.isMat)
    (fun x hx y hy => ent_jointOf p V n m hp hV.isMat x y hx hy)

/-- Lower bound from the multipliers `1/Z_x` of ANY output law `q` whose column constraints hold:
every test channel has `F(V) ≥ −Σ_x p_x log₂ Z_x`. -/
theorem baF_ge_of_constraints (β : ℝ) (p q : List ℝ) (V d : List (List ℝ)) (n m : ℕ)
    (hp : IsLaw p n) (hV : IsChannel V n m) (hd : IsMat d n m) (hq : IsLaw q m)
    (hc : ∀ y < m, ∑ x ∈ range n,
      vec p x * (1 / baZ β q d m x) * (2 : ℝ) ^ (-(β * ent d x y)) ≤ 1) :
    -∑ x ∈ range n, vec p x * Real.logb 2 (baZ β q d m x) ≤ baF β p V d := by
  have h := rd_dual_fn p V d (baJoint p V) (fun x => 1 / baZ β q d m x) β n m hp hV hd
    (jointOf_isMat p V n m hp.len hV.isMat)
    (fun x hx y hy => ent_jointOf p V n m hp.len hV.isMat x y hx hy)
    (fun x _ => one_div_pos.mpr (baZ_pos β q d m x hq)) hc
  rw [jointMI_joint p V n m hp.len hV, expDistortion_joint p V d n m hp.len hV.isMat hd] at h
  refine le_trans (le_of_eq ?_) h
  rw [← sum_neg_distrib]
  apply sum_congr rfl; intro x _
  rw [one_div, Real.logb_inv]; ring

/-- Value at a fixed point: `F(W) = −Σ_x p_x log₂ Z_x`. -/
theorem baF_fixed (β : ℝ) (p : List ℝ) (W d : List (List ℝ)) (n m : ℕ) (hp : IsLaw p n)
    (hW : IsChannel W n m) (hd : IsMat d n m)
    (hfix : (baStep (fun x => (2 : ℝ) ^ x) β p (fun _ => d) W).1 = W) :
    baF β p W d = -∑ x ∈ range n, vec p x * Real.logb 2 (baZ β (outputLaw p W) d m x) := by
  have hfix' : baNextW (fun x => (2 : ℝ) ^ x) β (outputLaw p W) d = W := hfix
  have h := lagrangian_nextW β p (outputLaw p W) d n m hp.len (outputLaw_isLaw p W n m hp hW) hd
  rw [hfix', baLagrangian_outputLaw β p W d n m hp.len hp.pos_len hW.isMat hd] at h
  exact h

/-- At a fixed point the column constraint is an equality on the support of the output law. -/
theorem fixed_constraint (β : ℝ) (p : List ℝ) (W d : List (List ℝ)) (n m : ℕ) (hp : IsLaw p n)
    (hW : IsChannel W n m) (hd : IsMat d n m)
    (hfix : (baStep (fun x => (2 : ℝ) ^ x) β p (fun _ => d) W).1 = W) (y : ℕ) (hy : y < m)
    (hqy : vec (outputLaw p W) y ≠ 0) :
    ∑ x ∈ range n, vec p x * (1 / baZ β (outputLaw p W) d m x) * (2 : ℝ) ^ (-(β * ent d x y))
      = 1 := by
  have hfix' : baNextW (fun x => (2 : ℝ) ^ x) β (outputLaw p W) d = W := hfix
  have hq := outputLaw_isLaw p W n m hp hW
  have h := vec_outputLaw p W n m hp.len hW.isMat y
  have e : ∀ x ∈ range n, vec p x * ent W x y = vec (outputLaw p W) y *
      (vec p x * (1 / baZ β (outputLaw p W) d m x) * (2 : ℝ) ^ (-(β * ent d x y))) := by
    intro x hx
    conv_lhs => rw [← hfix']
    rw [ent_baNextW β _ d n m hq.len hd x y (mem_range.mp hx) hy]
    ring
  rw [sum_congr rfl e, ← mul_sum] at h
  exact mul_left_cancel₀ hqy (by rw [mul_one]; exact h.symm)

/-- **KKT**: a fixed point whose column constraints hold off the support of its output law
minimises `R + βD` over all test channels. -/
theorem ba_kkt_optimal (β : ℝ) (p : List ℝ) (W d : List (List ℝ)) (n m : ℕ) (hp : IsLaw p n)
    (hW : IsChannel W n m) (hd : IsMat d n m)
    (hfix : (baStep (fun x => (2 : ℝ) ^ x) β p (fun _ => d) W).1 = W)
    (hkkt : ∀ y < m, vec (outputLaw p W) y = 0 → ∑ x ∈ range n,
      vec p x * (1 / baZ β (outputLaw p W) d m x) * (2 : ℝ) ^ (-(β * ent d x y)) ≤ 1)
    (V : List (List ℝ)) (hV : IsChannel V n m) : baF β p W d ≤ baF β p V d := by
  rw [baF_fixed β p W d n m hp hW hd hfix]
  apply baF_ge_of_constraints β p (outputLaw p W) V d n m hp hV hd
    (outputLaw_isLaw p W n m hp hW)
  intro y hy
  by_cases h0 : vec (outputLaw p W) y = 0
  · exact hkkt y hy h0
  · exact le_of_eq (fixed_constraint β p W d n m hp hW hd hfix y hy h0)


/-! ### The returned joint -/

theorem baJoint_isMat (p : List ℝ) (W : List (List ℝ)) (n m : ℕ) (hp : p.length = n)
    (hW : IsMat W n m) : IsMat (baJoint p W) n m := jointOf_isMat p W n m hp hW

theorem ent_baJoint (p : List ℝ) (W : List (List ℝ)) (n m : ℕ) (hp : p.length = n)
    (hW : IsMat W n m) (x y : ℕ) (hx : x < n) (hy : y < m) :
    ent (baJoint p W) x y = vec p x * ent W x y := ent_jointOf p W n m hp hW x y hx hy

theorem baJoint_rowSums (p : List ℝ) (W : List (List ℝ)) (n m : ℕ) (hp : p.length = n)
    (hW : IsChannel W n m) : rowSums (baJoint p W) = p :=
  rowSums_eq p W _ n m hp hW.isMat (fun row hr => (hW.row row hr).sum_one)
    (baJoint_isMat p W n m hp hW.isMat) (fun x hx y hy => ent_baJoint p W n m hp hW.isMat x y hx hy)

theorem baJoint_colSums (p : List ℝ) (W : List (List ℝ)) (n m : ℕ) (hp : p.length = n)
    (hW : IsMat W n m) (y : ℕ) (hy : y < m) :
    vec (colSums (baJoint p W)) y = vec (outputLaw p W) y :=
  colSums_getD p W _ n m hp hW (baJoint_isMat p W n m hp hW)
    (fun x hx y hy => ent_baJoint p W n m hp hW x y hx hy) y hy

theorem baJoint_nonneg (p : List ℝ) (W : List (List ℝ)) (n m : ℕ) (hp : IsLaw p n)
    (hW : IsChannel W n m) : ∀ row ∈ baJoint p W, ∀ a ∈ row, 0 ≤ a := by
  intro row hrow a ha
  obtain ⟨i, hi, rfl⟩ := List.mem_iff_getElem.mp hrow
  obtain ⟨j, hj, rfl⟩ := List.mem_iff_getElem.mp ha
  have hM := baJoint_isMat p W n m hp.len hW.isMat
  have hi' : i < n := by rw [← hM.len]; exact hi
  have hj' : j < m := by rw [← hM.row _ (List.getElem_mem hi)]; exact hj
  have e : ((baJoint p W)[i])[j] = ent (baJoint p W) i j := by
    simp [ent, vec, List.getD_eq_getElem?_getD, hi, hj]
  rw [e, ent_baJoint p W n m hp.len hW.isMat i j hi' hj']
  exact mul_nonneg (hp.vec_nonneg i) (hW.ent_nonneg i j)

/-! ### Hamming distortion -/

theorem hammingDist_isMat (n m : ℕ) : IsMat (hammingDist n m : List (List ℝ)) n m := by
  refine ⟨by simp [hammingDist], ?_⟩
  intro row hrow
  unfold hammingDist at hrow
  obtain ⟨i, _, rfl⟩ := List.mem_map.mp hrow
  simp

theorem ent_hammingDist (n m x y : ℕ) (hx : x < n) (hy : y < m) :
    ent (hammingDist n m : List (List ℝ)) x y = if x = y then 0 else 1 := by
  unfold ent hammingDist
  rw [getD_map _ (List.range n) 0 [] x (by simpa using hx)]
  rw [vec_range_map m _ y hy]
  have : (List.range n).getD x 0 = x := by simp [List.getD_eq_getElem?_getD, hx]
  rw [this]
  by_cases h : x = y <;> simp [h]

/-! ### The information-bottleneck distortion -/

section IBCore
variable {ι τ κ : Type}

theorem ib_term (a w px py Q qt r : ℝ) (ha : 0 ≤ a) (hw : 0 ≤ w) (hpx : a ≤ px) (hpy : a ≤ py)
    (hQ : a * w ≤ Q) (hqt : Q ≤ qt) (hr : qt ≠ 0 → r = Q / qt) :
    px * (w * ((a / px) * Real.logb 2 ((a / px) / r)))
      = w * (a * Real.logb 2 (a / (px * py))) - a * w * Real.logb 2 (Q / (qt * py)) := by
  by_cases h1 : a = 0
  · simp [h1]
  by_cases h2 : w = 0
  · simp [h2]
  have hapos : 0 < a := lt_of_le_of_ne ha (Ne.symm h1)
  have hwpos : 0 < w := lt_of_le_of_ne hw (Ne.symm h2)
  have hpxpos : 0 < px := lt_of_lt_of_le hapos hpx
  have hpypos : 0 < py := lt_of_lt_of_le hapos hpy
  have hQpos : 0 < Q := lt_of_lt_of_le (mul_pos hapos hwpos) hQ
  have hqtpos : 0 < qt := lt_of_lt_of_le hQpos hqt
  rw [hr hqtpos.ne']
  have e1 : px * (w * ((a / px) * Real.logb 2 ((a / px) / (Q / qt))))
      = w * a * Real.logb 2 ((a / px) / (Q / qt)) := by field_simp
  rw [e1, Real.logb_div (div_ne_zero h1 hpxpos.ne') (div_ne_zero hQpos.ne' hqtpos.ne'),
    Real.logb_div h1 hpxpos.ne', Real.logb_div hQpos.ne' hqtpos.ne',
    Real.logb_div h1 (mul_ne_zero hpxpos.ne' hpypos.ne'),
    Real.logb_div hQpos.ne' (mul_ne_zero hqtpos.ne' hpypos.ne'),
    Real.logb_mul hpxpos.ne' hpypos.ne', Real.logb_mul hqtpos.ne' hpypos.ne']
  ring

/-- `Σ_x p_x Σ_t W_xt D(p(·|x) ‖ q(·|t)) = I(X;Y) − I(T;Y)`. -/
theorem ib_core (s : Finset ι) (t : Finset τ) (u : Finset κ) (a : ι → κ → ℝ) (W : ι → τ → ℝ)
    (r : τ → κ → ℝ) (ha : ∀ x ∈ s, ∀ y ∈ u, 0 ≤ a x y) (hW : ∀ x ∈ s, ∀ t' ∈ t, 0 ≤ W x t')
    (hrow : ∀ x ∈ s, ∑ t' ∈ t, W x t' = 1)
    (hr : ∀ t' ∈ t, ∀ y ∈ u, (∑ y' ∈ u, ∑ x ∈ s, a x y' * W x t') ≠ 0 →
      r t' y = (∑ x ∈ s, a x y * W x t') / (∑ y' ∈ u, ∑ x ∈ s, a x y' * W x t')) :
    ∑ x ∈ s, (∑ y ∈ u, a x y) * ∑ t' ∈ t, W x t' *
        ∑ y ∈ u, (a x y / ∑ y' ∈ u, a x y') * Real.logb 2 ((a x y / ∑ y' ∈ u, a x y') / r t' y)
      = ∑ x ∈ s, ∑ y ∈ u, a x y * Real.logb 2 (a x y / ((∑ y' ∈ u, a x y') * ∑ x' ∈ s, a x' y))
        - ∑ t' ∈ t, ∑ y ∈ u, (∑ x ∈ s, a x y * W x t') *
            Real.logb 2 ((∑ x ∈ s, a x y * W x t')
              / ((∑ y' ∈ u, ∑ x ∈ s, a x y' * W x t') * ∑ x ∈ s, a x y)) := by
  have hterm : ∀ x ∈ s, ∀ t' ∈ t, ∀ y ∈ u,
      (∑ y' ∈ u, a x y') * (W x t' * ((a x y / ∑ y' ∈ u, a x y') *
          Real.logb 2 ((a x y / ∑ y' ∈ u, a x y') / r t' y)))
        = W x t' * (a x y * Real.logb 2 (a x y / ((∑ y' ∈ u, a x y') * ∑ x' ∈ s, a x' y)))
          - a x y * W x t' * Real.logb 2 ((∑ x ∈ s, a x y * W x t')
              / ((∑ y' ∈ u, ∑ x ∈ s, a x y' * W x t') * ∑ x ∈ s, a x y)) := by
    intro x hx t' ht y hy
    apply ib_term _ _ _ _ _ _ _ (ha x hx y hy) (hW x hx t' ht)
    · exact single_le_sum (f := fun y' => a x y') (fun y' hy' => ha x hx y' hy') hy
    · exact single_le_sum (f := fun x' => a x' y) (fun x' hx' => ha x' hx' y hy) hx
    · exact single_le_sum (f := fun x' => a x' y * W x' t')
        (fun x' hx' => mul_nonneg (ha x' hx' y hy) (hW x' hx' t' ht)) hx
    · exact single_le_sum (f := fun y' => ∑ x ∈ s, a x y' * W x t')
        (fun y' hy' => sum_nonneg (fun x' hx' => mul_nonneg (ha x' hx' y' hy') (hW x' hx' t' ht)))
        hy
    · exact hr t' ht y hy
  have e1 : ∑ x ∈ s, (∑ y ∈ u, a x y) * ∑ t' ∈ t, W x t' *
        ∑ y ∈ u, (a x y / ∑ y' ∈ u, a x y') * Real.logb 2 ((a x y / ∑ y' ∈ u, a x y') / r t' y)
      = ∑ x ∈ s, ∑ t' ∈ t, ∑ y ∈ u,
          (W x t' * (a x y * Real.logb 2 (a x y / ((∑ y' ∈ u, a x y') * ∑ x' ∈ s, a x' y)))
          - a x y * W x t' * Real.logb 2 ((∑ x ∈ s, a x y * W x t')
              / ((∑ y' ∈ u, ∑ x ∈ s, a x y' * W x t') * ∑ x ∈ s, a x y))) := by
    apply sum_congr rfl; intro x hx
    rw [mul_sum]
    apply sum_congr rfl; intro t' ht
    rw [mul_sum, mul_sum]
    apply sum_congr rfl; intro y hy
    exact hterm x hx t' ht y hy
  rw [e1]
  simp only [sum_sub_distrib]
  congr 1
  · apply sum_congr rfl; intro x hx
    rw [sum_comm]
    apply sum_congr rfl; intro y _
    rw [← sum_mul, hrow x hx, one_mul]
  · rw [sum_comm]
    apply sum_congr rfl; intro t' _
    rw [sum_comm]
    apply sum_congr rfl; intro y _
    exact (sum_mul _ _ _).symm

end IBCore

/-- `Q(t,y) = Σ_x p(x,y) W(t|x)`. -/
noncomputable def ibQ (pxy W : List (List ℝ)) (n t y : ℕ) : ℝ :=
  ∑ x ∈ range n, ent pxy x y * ent W x t

/-- `q(t) = Σ_y Q(t,y)`. -/
noncomputable def ibQt (pxy W : List (List ℝ)) (n k t : ℕ) : ℝ :=
  ∑ y ∈ range k, ibQ pxy W n t y

theorem ibQyt_row (pxy W : List (List ℝ)) (n m k : ℕ) (hn : 0 < n) (hP : IsMat pxy n k)
    (hW : IsMat W n m) :
    ibQyt pxy W = (List.range m).map (fun t =>
      if ibQt pxy W n k t = 0 then (List.range k).map (fun _ => (1 : ℝ))
      else (List.range k).map (fun y => ibQ pxy W n t y / ibQt pxy W n k t)) := by
  cases W with
  | nil => have := hW.len; simp at this; omega
  | cons w0 W' =>
    cases pxy with
    | nil => have := hP.len; simp at this; omega
    | cons r0 P' =>
      have hw0 : w0.length = m := hW.row w0 List.mem_cons_self
      have hr0 : r0.length = k := hP.row r0 List.mem_cons_self
      unfold ibQyt
      simp only
      rw [hw0, hr0]
      apply List.map_congr_left
      intro t _
      have hcol : (List.range k).map (fun y => lsum (List.zipWith
            (fun prow wrow => prow.getD y 0 * wrow.getD t 0) (r0 :: P') (w0 :: W')))
          = (List.range k).map (fun y => ibQ (r0 :: P') (w0 :: W') n t y) := by
        apply List.map_congr_left
        intro y _
        rw [lsum_eq_sum, sum_zipWith_range _ [] [] _ _ n hP.len hW.len]
        rfl
      rw [hcol]
      have hz : lsum ((List.range k).map (fun y => ibQ (r0 :: P') (w0 :: W') n t y))
          = ibQt (r0 :: P') (w0 :: W') n k t := by
        rw [lsum_eq_sum, sum_range_map]; rfl
      rw [hz]
      by_cases h0 : ibQt (r0 :: P') (w0 :: W') n k t = 0
      · simp [h0, Function.comp_def]
      · simp [h0]

theorem ibQyt_isMat (pxy W : List (List ℝ)) (n m k : ℕ) (hn : 0 < n) (hP : IsMat pxy n k)
    (hW : IsMat W n m) : IsMat (ibQyt pxy W) m k := by
  rw [ibQyt_row pxy W n m k hn hP hW]
  refine ⟨by simp, ?_⟩
  intro row hrow
  obtain ⟨t, _, rfl⟩ := List.mem_map.mp hrow
  split <;> simp

theorem ent_ibQyt (pxy W : List (List ℝ)) (n m k : ℕ) (hn : 0 < n) (hP : IsMat pxy n k)
    (hW : IsMat W n m) (t y : ℕ) (ht : t < m) (hy : y < k) :
    ent (ibQyt pxy W) t y
      = if ibQt pxy W n k t = 0 then 1 else ibQ pxy W n t y / ibQt pxy W n k t := by
  rw [ibQyt_row pxy W n m k hn hP hW]
  unfold ent
  rw [getD_map _ (List.range m) 0 [] t (by simpa using ht)]
  have : (List.range m).getD t 0 = t := by simp [List.getD_eq_getElem?_getD, ht]
  rw [this]
  split
  · rw [vec_range_map k _ y hy]
  · rw [vec_range_map k _ y hy]

/-- `q(t) = Σ_x p(x) W(t|x)` with `p(x) = Σ_y p(x,y)`. -/
theorem ibQt_eq (pxy W : List (List ℝ)) (n k t : ℕ) :
    ibQt pxy W n k t = ∑ x ∈ range n, (∑ y ∈ range k, ent pxy x y) * ent W x t := by
  unfold ibQt ibQ
  rw [sum_comm]
  apply sum_congr rfl; intro x _
  rw [sum_mul]

theorem ibQ_nonneg (pxy W : List (List ℝ)) (n m k : ℕ)
    (hPnn : ∀ x < n, ∀ y < k, 0 ≤ ent pxy x y) (hW : IsChannel W n m) (t y : ℕ) (hy : y < k) :
    0 ≤ ibQ pxy W n t y :=
  sum_nonneg (fun x hx => mul_nonneg (hPnn x (mem_range.mp hx) y hy) (hW.ent_nonneg x t))

/-- Rows of `ibQyt` at bottleneck values of positive probability are probability vectors. -/
theorem ibQyt_row_isLaw (pxy W : List (List ℝ)) (n m k : ℕ) (hn : 0 < n) (hP : IsMat pxy n k)
    (hPnn : ∀ x < n, ∀ y < k, 0 ≤ ent pxy x y) (hW : IsChannel W n m) (t : ℕ) (ht : t < m)
    (hqt : ibQt pxy W n k t ≠ 0) : IsLaw ((ibQyt pxy W).getD t []) k := by
  have hM := ibQyt_isMat pxy W n m k hn hP hW.isMat
  apply isLaw_of_vec _ k (hM.row_len ht)
  · intro y hy
    have := ent_ibQyt pxy W n m k hn hP hW.isMat t y ht hy
    unfold ent at this
    rw [this, if_neg hqt]
    apply div_nonneg (ibQ_nonneg pxy W n m k hPnn hW t y hy)
    exact sum_nonneg (fun y' hy' => ibQ_nonneg pxy W n m k hPnn hW t y' (mem_range.mp hy'))
  · have e : ∀ y ∈ range k, vec ((ibQyt pxy W).getD t []) y
        = ibQ pxy W n t y / ibQt pxy W n k t := by
      intro y hy
      have := ent_ibQyt pxy W n m k hn hP hW.isMat t y ht (mem_range.mp hy)
      unfold ent at this
      rw [this, if_neg hqt]
    rw [sum_congr rfl e, ← sum_div]
    exact div_self hqt

theorem ibDist_isMat (pxy W : List (List ℝ)) (n m k : ℕ) (hn : 0 < n) (hP : IsMat pxy n k)
    (hW : IsMat W n m) : IsMat (ibDist (Real.logb 2) pxy W) n m := by
  have hM := ibQyt_isMat pxy W n m k hn hP hW
  refine ⟨by simp [ibDist, hP.len], ?_⟩
  intro row hrow
  unfold ibDist at hrow
  obtain ⟨pr, _, rfl⟩ := List.mem_map.mp hrow
  simp [hM.len]

theorem ent_ibDist (pxy W : List (List ℝ)) (n m k : ℕ) (hn : 0 < n) (hP : IsMat pxy n k)
    (hW : IsMat W n m) (x t : ℕ) (hx : x < n) (ht : t < m) :
    ent (ibDist (Real.logb 2) pxy W) x t
      = ∑ y ∈ range k, (ent pxy x y / ∑ y' ∈ range k, ent pxy x y') *
          Real.logb 2 ((ent pxy x y / ∑ y' ∈ range k, ent pxy x y') / ent (ibQyt pxy W) t y) := by
  have hM := ibQyt_isMat pxy W n m k hn hP hW
  have hx' : x < pxy.length := by rw [hP.len]; exact hx
  have hrl : (pxy.getD x []).length = k := hP.row_len hx
  unfold ent ibDist
  simp only
  rw [getD_map _ pxy [] [] x hx']
  unfold vec
  rw [getD_map _ (ibQyt pxy W) [] 0 t (by rw [hM.len]; exact ht),
    klRow_eq _ _ k (by rw [List.length_map]; exact hrl) (hM.row_len ht)]
  apply sum_congr rfl
  intro y _
  have hz : lsum (pxy.getD x []) = ∑ y' ∈ range k, (pxy.getD x []).getD y' 0 := by
    have := sum_map_range (fun a => a) 0 (pxy.getD x []) k hrl
    rw [List.map_id'] at this
    rw [lsum_eq_sum, this]
  rw [vec_map_div, hz]
  rfl

/-- Gibbs: the IB distortion `D(p(·|x) ‖ q(·|t))` is non-negative when `p(x) > 0`, `q(t) > 0`
and `q(·|t)` dominates `p(·|x)`. -/
theorem ibDist_nonneg (pxy W : List (List ℝ)) (n m k : ℕ) (hn : 0 < n) (hP : IsMat pxy n k)
    (hPnn : ∀ x < n, ∀ y < k, 0 ≤ ent pxy x y) (hW : IsChannel W n m) (x t : ℕ) (hx : x < n)
    (ht : t < m) (hpx : ∑ y ∈ range k, ent pxy x y ≠ 0) (hqt : ibQt pxy W n k t ≠ 0)
    (hdom : ∀ y < k, ent (ibQyt pxy W) t y = 0 → ent pxy x y = 0) :
    0 ≤ ent (ibDist (Real.logb 2) pxy W) x t := by
  rw [ent_ibDist pxy W n m k hn hP hW.isMat x t hx ht]
  have hpxpos : 0 < ∑ y ∈ range k, ent pxy x y :=
    lt_of_le_of_ne (sum_nonneg (fun y hy => hPnn x hx y (mem_range.mp hy))) (Ne.symm hpx)
  have hlaw := ibQyt_row_isLaw pxy W n m k hn hP hPnn hW t ht hqt
  apply Lemmas.InfoReal.gibbs (range k) (fun y => ent pxy x y / ∑ y' ∈ range k, ent pxy x y')
    (fun y => ent (ibQyt pxy W) t y)
  · intro y hy; exact div_nonneg (hPnn x hx y (mem_range.mp hy)) hpxpos.le
  · intro y _; exact hlaw.vec_nonneg y
  · rw [← sum_div, div_self hpx]; exact le_of_eq hlaw.sum_vec
  · intro y hy h0
    rw [hdom y (mem_range.mp hy) h0, zero_div]

/-- Domination is automatic where the channel puts mass: `p(x) W(t|x) > 0`. -/
theorem ibQyt_dom (pxy W : List (List ℝ)) (n m k : ℕ) (hn : 0 < n) (hP : IsMat pxy n k)
    (hPnn : ∀ x < n, ∀ y < k, 0 ≤ ent pxy x y) (hW : IsChannel W n m) (x t : ℕ) (hx : x < n)
    (ht : t < m) (hpx : ∑ y ∈ range k, ent pxy x y ≠ 0) (hw : ent W x t ≠ 0) :
    ibQt pxy W n k t ≠ 0 ∧ ∀ y < k, ent (ibQyt pxy W) t y = 0 → ent pxy x y = 0 := by
  have hwpos : 0 < ent W x t := lt_of_le_of_ne (hW.ent_nonneg x t) (Ne.symm hw)
  have hpxpos : 0 < ∑ y ∈ range k, ent pxy x y :=
    lt_of_le_of_ne (sum_nonneg (fun y hy => hPnn x hx y (mem_range.mp hy))) (Ne.symm hpx)
  have hqt : 0 < ibQt pxy W n k t := by
    rw [ibQt_eq]
    refine lt_of_lt_of_le (mul_pos hpxpos hwpos) ?_
    exact single_le_sum (f := fun x' => (∑ y ∈ range k, ent pxy x' y) * ent W x' t)
      (fun x' hx' => mul_nonneg (sum_nonneg (fun y hy =>
        hPnn x' (mem_range.mp hx') y (mem_range.mp hy))) (hW.ent_nonneg x' t)) (mem_range.mpr hx)
  refine ⟨hqt.ne', ?_⟩
  intro y hy h0
  rw [ent_ibQyt pxy W n m k hn hP hW.isMat t y ht hy, if_neg hqt.ne'] at h0
  have hQ0 : ibQ pxy W n t y = 0 := by
    rcases div_eq_zero_iff.mp h0 with h | h
    · exact h
    · exact absurd h hqt.ne'
  have hle : ent pxy x y * ent W x t ≤ ibQ pxy W n t y :=
    single_le_sum (f := fun x' => ent pxy x' y * ent W x' t)
      (fun x' hx' => mul_nonneg (hPnn x' (mem_range.mp hx') y hy) (hW.ent_nonneg x' t))
      (mem_range.mpr hx)
  rw [hQ0] at hle
  by_contra hne
  have : 0 < ent pxy x y * ent W x t :=
    mul_pos (lt_of_le_of_ne (hPnn x hx y hy) (Ne.symm hne)) hwpos
  linarith

/-- `E[d_IB] = I(X;Y) − I(T;Y)`. `Q` is any `m × k` matrix holding `Q(t,y) = Σ_x p(x,y) W(t|x)`. -/
theorem ib_expected_distortion (pxy W Q : List (List ℝ)) (n m k : ℕ) (hP : IsMat pxy n k)
    (hPnn : ∀ x < n, ∀ y < k, 0 ≤ ent pxy x y) (hW : IsChannel W n m) (hn : 0 < n)
    (hQ : IsMat Q m k) (hQe : ∀ t < m, ∀ y < k, ent Q t y = ibQ pxy W n t y) :
    baAvDist (rowSums pxy) W (ibDist (Real.logb 2) pxy W)
      = jointMI (Real.logb 2) pxy - jointMI (Real.logb 2) Q := by
  rw [baAvDist_eq _ W _ n m (by simp [rowSums, hP.len]) hW.isMat
    (ibDist_isMat pxy W n m k hn hP hW.isMat), jointMI_eq pxy n k hP, jointMI_eq Q m k hQ]
  have h := ib_core (range n) (range m) (range k) (ent pxy) (ent W) (ent (ibQyt pxy W))
    (fun x hx y hy => hPnn x (mem_range.mp hx) y (mem_range.mp hy))
    (fun x _ t _ => hW.ent_nonneg x t) (fun x hx => hW.sum_ent (mem_range.mp hx))
    (fun t ht y hy hne => by
      rw [ent_ibQyt pxy W n m k hn hP hW.isMat t y (mem_range.mp ht) (mem_range.mp hy)]
      have : ibQt pxy W n k t = ∑ y' ∈ range k, ∑ x ∈ range n, ent pxy x y' * ent W x t := rfl
      rw [if_neg (by rw [this]; exact hne)]
      rfl)
  refine Eq.trans ?_ (Eq.trans h ?_)
  · apply sum_congr rfl; intro x hx
    rw [vec_rowSums pxy n k hP x (mem_range.mp hx)]
    congr 1
    apply sum_congr rfl; intro t ht
    rw [ent_ibDist pxy W n m k hn hP hW.isMat x t (mem_range.mp hx) (mem_range.mp ht)]
  · congr 1
    · apply sum_congr rfl; intro x hx
      apply sum_congr rfl; intro y hy
      rw [vec_rowSums pxy n k hP x (mem_range.mp hx), vec_colSums pxy n k hP y (mem_range.mp hy)]
    · apply sum_congr rfl; intro t ht
      apply sum_congr rfl; intro y hy
      have hcol : vec (colSums Q) y = ∑ x ∈ range n, ent pxy x y := by
        rw [vec_colSums Q m k hQ y (mem_range.mp hy),
          sum_congr rfl (fun t' ht' => hQe t' (mem_range.mp ht') y (mem_range.mp hy))]
        unfold ibQ
        rw [sum_comm]
        apply sum_congr rfl; intro x' hx'
        rw [← mul_sum, hW.sum_ent (mem_range.mp hx'), mul_one]
      have hrowQ : vec (rowSums Q) t = ∑ y' ∈ range k, ∑ x ∈ range n, ent pxy x y' * ent W x t := by
        rw [vec_rowSums Q m k hQ t (mem_range.mp ht)]
        exact sum_congr rfl (fun y' hy' => hQe t (mem_range.mp ht) y' (mem_range.mp hy'))
      rw [hcol, hrowQ, hQe t (mem_range.mp ht) y (mem_range.mp hy)]
      rfl

/-- A concrete matrix for `Q(t,y)`. -/
noncomputable def ibJointTY (pxy W : List (List ℝ)) (n m k : ℕ) : List (List ℝ) :=
  (List.range m).map (fun t => (List.range k).map (fun y => ibQ pxy W n t y))

theorem ibJointTY_isMat (pxy W : List (List ℝ)) (n m k : ℕ) : IsMat (ibJointTY pxy W n m k) m k := by
  refine ⟨by simp [ibJointTY], ?_⟩
  intro row hrow
  unfold ibJointTY at hrow
  obtain ⟨t, _, rfl⟩ := List.mem_map.mp hrow
  simp

theorem ent_ibJointTY (pxy W : List (List ℝ)) (n m k t y : ℕ) (ht : t < m) (hy : y < k) :
    ent (ibJointTY pxy W n m k) t y = ibQ pxy W n t y := by
  unfold ent ibJointTY
  rw [getD_map _ (List.range m) 0 [] t (by simpa using ht), vec_range_map k _ y hy]
  have : (List.range m).getD t 0 = t := by simp [List.getD_eq_getElem?_getD, ht]
  rw [this]


/-! ### Concrete instances (used by the non-vacuity examples of Props/C13BA.lean) -/

theorem ex_hamming : (hammingDist 2 2 : List (List ℝ)) = [[0, 1], [1, 0]] := by
  simp [hammingDist, List.range_succ]

/-- Uniform binary source, Hamming distortion, `β = 1`: BSC(1/3) is a fixed point. -/
theorem ex_fix : (baStep (fun x => (2 : ℝ) ^ x) 1 [1 / 2, 1 / 2] (fun _ => hammingDist 2 2)
    (bsc (1 / 3))).1 = bsc (1 / 3) := by
  rw [baStep_fst, bsc_out, ex_hamming]
  simp only [baNextW, bsc, lsum, List.map, List.zipWith, List.foldl]
  norm_num [Real.rpow_neg_one]

theorem ex_fix_pos : ∀ y < 2, 0 < vec (outputLaw [(1 : ℝ) / 2, 1 / 2] (bsc (1 / 3))) y := by
  rw [bsc_out]
  intro y hy
  interval_cases y <;> norm_num [vec]

theorem ex_law34 : IsLaw [(3 : ℝ) / 4, 1 / 4] 2 :=
  ⟨rfl, by intro a ha; simp at ha; rcases ha with rfl | rfl <;> norm_num, by norm_num⟩

theorem ex_collapse : IsChannel [[(1 : ℝ), 0], [1, 0]] 2 2 := by
  refine ⟨rfl, ?_⟩
  intro row hrow
  simp only [List.mem_cons, List.not_mem_nil, or_false, or_self] at hrow
  subst hrow
  exact ⟨rfl, by intro a ha; simp at ha; rcases ha with rfl | rfl <;> norm_num, by norm_num⟩

theorem ex_kkt_out : outputLaw [(3 : ℝ) / 4, 1 / 4] [[1, 0], [1, 0]] = [1, 0] := by
  simp [outputLaw, lsum, List.range_succ]; norm_num

/-- Source `(3/4, 1/4)`, Hamming, `β = 1`: the channel sending everything to output `0` is a
fixed point with a zero output marginal … -/
theorem ex_kkt_fix : (baStep (fun x => (2 : ℝ) ^ x) 1 [3 / 4, 1 / 4] (fun _ => hammingDist 2 2)
    [[1, 0], [1, 0]]).1 = [[1, 0], [1, 0]] := by
  rw [baStep_fst, ex_hamming, ex_kkt_out]
  simp only [baNextW, lsum, List.map, List.zipWith, List.foldl]
  norm_num [Real.rpow_neg_one]

/-- … and its column constraint on the unused output letter is `7/8 ≤ 1`. -/
theorem ex_kkt_c : ∀ y < 2, vec (outputLaw [(3 : ℝ) / 4, 1 / 4] [[1, 0], [1, 0]]) y = 0 →
    ∑ x ∈ range 2, vec [(3 : ℝ) / 4, 1 / 4] x
      * (1 / ∑ y' ∈ range 2, vec (outputLaw [(3 : ℝ) / 4, 1 / 4] [[1, 0], [1, 0]]) y'
          * (2 : ℝ) ^ (-(1 * ent (hammingDist 2 2) x y')))
      * (2 : ℝ) ^ (-(1 * ent (hammingDist 2 2) x y)) ≤ 1 := by
  rw [ex_kkt_out, ex_hamming]
  intro y hy h0
  interval_cases y
  · norm_num [vec] at h0
  · norm_num [sum_range_succ, vec, ent, Real.rpow_neg_one]

/-- A joint law `p(x,y)` for the information-bottleneck examples. -/
theorem ex_pxy : IsMat [[(1 : ℝ) / 4, 1 / 4], [0, 1 / 2]] 2 2
    ∧ ∀ x < 2, ∀ y < 2, 0 ≤ ent [[(1 : ℝ) / 4, 1 / 4], [0, 1 / 2]] x y := by
  refine ⟨⟨rfl, ?_⟩, ?_⟩
  · intro row hrow
    simp only [List.mem_cons, List.not_mem_nil, or_false] at hrow
    rcases hrow with rfl | rfl <;> rfl
  · intro x hx y hy
    interval_cases x <;> interval_cases y <;> norm_num [ent, vec]


end Dit.Lemmas.BA
