/- Helper lemmas for Props/C12More. -/
import DitModel.Core.Generator
import DitModel.Lemmas.Sampling

set_option linter.unusedSectionVars false

namespace Dit.Lemmas.Sampling
open Dit

variable {α : Type} [Field α] [LinearOrder α] [IsStrictOrderedRing α]

theorem cum_cons_succ (p : α) (ps : List α) (i : Nat) : cum (p :: ps) (i + 1) = p + cum ps i := by
  simp [cum]

theorem cum_nonneg (pmf : List α) (hnn : ∀ p ∈ pmf, 0 ≤ p) (j : Nat) : 0 ≤ cum pmf j := by
  have := cum_mono pmf hnn 0 j (Nat.zero_le _)
  simpa [cum] using this

theorem cum_length (pmf : List α) : cum pmf pmf.length = pmf.sum := by
  simp [cum]

/-- Converse of `scanFrom_some` for non-negative entries: an index whose (shifted) cumulative interval contains `u`
is the one the scan returns. -/
theorem scanFrom_of_interval (ps : List α) (hnn : ∀ p ∈ ps, 0 ≤ p) (u t : α) (j0 i : Nat)
    (hi : i < ps.length) (hlo : t + cum ps i ≤ u) (hhi : u < t + cum ps (i + 1)) :
    scanFrom ps u t j0 = some (j0 + i) := by
  induction ps generalizing t j0 i with
  | nil => simp at hi
  | cons p ps ih =>
    have hnn' : ∀ q ∈ ps, 0 ≤ q := fun q hq => hnn q (List.mem_cons_of_mem _ hq)
    unfold scanFrom
    cases i with
    | zero =>
      have : u < t + p := by simpa [cum] using hhi
      simp [this]
    | succ i =>
      rw [cum_cons_succ p ps i] at hlo
      rw [cum_cons_succ p ps (i + 1)] at hhi
      have h0 := cum_nonneg ps hnn' i
      have hnot : ¬ (u < t + p) := by intro h; linarith
      simp only [hnot, if_false]
      have := ih hnn' (t + p) (j0 + 1) i (by simpa using hi) (by linarith) (by linarith)
      rw [this]; congr 1; omega

/-- Dropping the zeros of a non-negative list does not change its sum. -/
theorem sum_filter_pos (l : List α) (hnn : ∀ p ∈ l, 0 ≤ p) :
    (l.filter (fun p => decide (0 < p))).sum = l.sum := by
  induction l with
  | nil => simp
  | cons p ps ih =>
    have hnn' : ∀ q ∈ ps, 0 ≤ q := fun q hq => hnn q (List.mem_cons_of_mem _ hq)
    by_cases hp : 0 < p
    · simp [hp, ih hnn']
    · have hp0 : p = 0 := le_antisymm (not_lt.mp hp) (hnn p (by simp))
      subst hp0
      simp [ih hnn']

theorem take_filter_len (l : List α) (P : α → Bool) (j : Nat) :
    (l.filter P).take ((l.take j).filter P).length = (l.take j).filter P := by
  have h : l.filter P = (l.take j).filter P ++ (l.drop j).filter P := by
    rw [← List.filter_append, List.take_append_drop]
  rw [h]
  simp

/-- The cumulative sum of the filtered table at the rank of `j` is the cumulative sum of the table at `j`. -/
theorem cum_filter_rank (pmf : List α) (hnn : ∀ p ∈ pmf, 0 ≤ p) (j : Nat) :
    cum (pmf.filter (fun p => decide (0 < p))) ((pmf.take j).filter (fun p => decide (0 < p))).length
      = cum pmf j := by
  unfold cum
  rw [take_filter_len, sum_filter_pos _ (fun p hp => hnn p (List.mem_of_mem_take hp))]

theorem rank_succ (pmf : List α) (j : Nat) (hj : j < pmf.length) (hpos : 0 < pmf[j]) :
    ((pmf.take (j + 1)).filter (fun p => decide (0 < p))).length
      = ((pmf.take j).filter (fun p => decide (0 < p))).length + 1 := by
  rw [List.take_succ_eq_append_getElem hj, List.filter_append]
  simp [hpos]

theorem rank_le (pmf : List α) (j : Nat) :
    ((pmf.take j).filter (fun p => decide (0 < p))).length
      ≤ (pmf.filter (fun p => decide (0 < p))).length :=
  List.Sublist.length_le ((List.take_sublist j pmf).filter _)

section generator
variable {S : Type} {β : Type}

theorem drawN_length' (next : S → β × S) (n : Nat) (s : S) : (drawN next n s).1.length = n := by
  induction n generalizing s with
  | zero => simp [drawN]
  | succ n ih => simp [drawN, ih]

theorem drawN_add' (next : S → β × S) (n m : Nat) (s : S) :
    drawN next (n + m) s
      = ((drawN next n s).1 ++ (drawN next m (drawN next n s).2).1, (drawN next m (drawN next n s).2).2) := by
  induction n generalizing s with
  | zero => simp [drawN]
  | succ n ih =>
    rw [Nat.succ_add]
    simp only [drawN]
    rw [ih]
    simp

end generator

end Dit.Lemmas.Sampling
