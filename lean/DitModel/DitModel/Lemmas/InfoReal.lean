/-
Helper lemmas for C04/C05 over `ℝ`: what `pushforward` computes (fibre sums, keys in order of
first appearance), Shannon entropy of a list / of a marginal as explicit sums, Gibbs' inequality,
non-negativity of conditional mutual information of the marginals of one table, and the
Rényi / Tsallis family.
-/
import DitModel.Lemmas.InfoAlg
import Mathlib.Data.List.Induction
import Mathlib.Algebra.BigOperators.Fin
import Mathlib.Algebra.Order.BigOperators.Ring.Finset
import Mathlib.Analysis.SpecialFunctions.Log.Base
import Mathlib.Analysis.SpecialFunctions.Pow.Real
import Mathlib.Analysis.SpecialFunctions.Pow.Deriv
import Mathlib.Analysis.SpecialFunctions.Log.Deriv
import Mathlib.Analysis.Calculus.Deriv.Slope
import Mathlib.Tactic.Positivity

set_option linter.unusedSectionVars false

namespace Dit.Lemmas.InfoReal
open Dit Dit.Lemmas.InfoAlg

/-! ### What `pushforward` computes -/

section Push
variable {κ κ' α : Type} [DecidableEq κ'] [AddCommMonoid α]

/-- Sum of the values of the rows of `t` whose key is mapped to `x` by `f`. -/
def fibreSum (f : κ → κ') (t : Tab κ α) (x : κ') : α :=
  ((t.filter (fun r => f r.1 = x)).map (·.2)).sum

theorem fibreSum_nil (f : κ → κ') (x : κ') : fibreSum f ([] : Tab κ α) x = 0 := rfl

theorem fibreSum_append (f : κ → κ') (s t : Tab κ α) (x : κ') :
    fibreSum f (s ++ t) x = fibreSum f s x + fibreSum f t x := by
  simp [fibreSum]

theorem fibreSum_single (f : κ → κ') (r : κ × α) (x : κ') :
    fibreSum f [r] x = if f r.1 = x then r.2 else 0 := by
  unfold fibreSum
  by_cases h : f r.1 = x <;> simp [h]

theorem fibreSum_eq_zero (f : κ → κ') (t : Tab κ α) (x : κ') (h : ∀ r ∈ t, f r.1 ≠ x) :
    fibreSum f t x = 0 := by
  unfold fibreSum
  have : t.filter (fun r => f r.1 = x) = [] := by
    simpa [List.filter_eq_nil_iff] using h
  rw [this]; rfl

theorem keys_accum (acc : Tab κ' α) (k : κ') (v : α) :
    keys (accum acc k v) = if k ∈ keys acc then keys acc else keys acc ++ [k] := by
  induction acc with
  | nil => simp [accum, keys]
  | cons r t ih =>
    obtain ⟨k', v'⟩ := r
    unfold accum
    by_cases h : k' = k
    · subst h; simp [keys]
    · have h' : ¬ k = k' := fun e => h e.symm
      simp only [h, if_false]
      have : keys ((k', v') :: accum t k v) = k' :: keys (accum t k v) := rfl
      rw [this, ih]
      have hk : keys ((k', v') :: t) = k' :: keys t := rfl
      rw [hk]
      by_cases hm : k ∈ keys t <;> simp [hm, h']

/-- Rows of `accum acc k₀ v₀` when the keys of `acc` are distinct. -/
theorem accum_spec (acc : Tab κ' α) (k₀ : κ') (v₀ : α) (hnd : (keys acc).Nodup)
    (r : κ' × α) (hr : r ∈ accum acc k₀ v₀) :
    (r.1 ≠ k₀ ∧ r ∈ acc) ∨ (r.1 = k₀ ∧ ∃ v', (k₀, v') ∈ acc ∧ r.2 = v' + v₀)
      ∨ (r.1 = k₀ ∧ k₀ ∉ keys acc ∧ r.2 = v₀) := by
  induction acc with
  | nil =>
    simp only [accum, List.mem_singleton] at hr
    subst hr
    right; right; simp [keys]
  | cons a t ih =>
    obtain ⟨k', v'⟩ := a
    have hk : keys ((k', v') :: t) = k' :: keys t := rfl
    rw [hk, List.nodup_cons] at hnd
    unfold accum at hr
    by_cases h : k' = k₀
    · subst h
      simp only [if_true, List.mem_cons] at hr
      rcases hr with rfl | hr
      · right; left; exact ⟨rfl, v', List.mem_cons_self, rfl⟩
      · left
        refine ⟨?_, List.mem_cons_of_mem _ hr⟩
        intro e
        apply hnd.1
        rw [← e]
        exact List.mem_map.mpr ⟨r, hr, rfl⟩
    · simp only [h, if_false, List.mem_cons] at hr
      rcases hr with rfl | hr
      · left; exact ⟨h, List.mem_cons_self⟩
      · rcases ih hnd.2 hr with h1 | h1 | h1
        · left; exact ⟨h1.1, List.mem_cons_of_mem _ h1.2⟩
        · right; left
          obtain ⟨e, v'', hv, hv'⟩ := h1
          exact ⟨e, v'', List.mem_cons_of_mem _ hv, hv'⟩
        · right; right
          refine ⟨h1.1, ?_, h1.2.2⟩
          rw [hk, List.mem_cons, not_or]
          exact ⟨fun e => h e.symm, h1.2.1⟩

theorem pushforward_snoc (f : κ → κ') (t : Tab κ α) (r : κ × α) :
    pushforward f (t ++ [r]) = accum (pushforward f t) (f r.1) r.2 := by
  simp [pushforward, List.foldl_append]

/-- Invariant of the `pushforward` fold: distinct keys, every image is a key, and each stored
value is the sum of its fibre. -/
theorem pushforward_inv (f : κ → κ') (t : Tab κ α) :
    (keys (pushforward f t)).Nodup ∧ (∀ r ∈ t, f r.1 ∈ keys (pushforward f t)) ∧
      (∀ r ∈ pushforward f t, r.2 = fibreSum f t r.1) := by
  induction t using List.reverseRecOn with
  | nil => simp [pushforward, keys]
  | append_singleton t r ih =>
    obtain ⟨hnd, himg, hval⟩ := ih
    rw [pushforward_snoc]
    have hkeys := keys_accum (pushforward f t) (f r.1) r.2
    refine ⟨?_, ?_, ?_⟩
    · rw [hkeys]
      split
      · exact hnd
      · rename_i hm
        exact List.nodup_append.mpr ⟨hnd, by simp, by
          intro a ha b hb
          simp only [List.mem_singleton] at hb
          subst hb
          intro e; subst e; exact hm ha⟩
    · intro r' hr'
      rw [hkeys]
      rcases List.mem_append.mp hr' with hr' | hr'
      · have := himg r' hr'
        split
        · exact this
        · exact List.mem_append_left _ this
      · simp only [List.mem_singleton] at hr'
        subst hr'
        split
        · assumption
        · simp
    · intro r' hr'
      rw [fibreSum_append, fibreSum_single]
      rcases accum_spec _ _ _ hnd r' hr' with h1 | h1 | h1
      · rw [if_neg (fun e => h1.1 e.symm), add_zero]
        exact hval r' h1.2
      · obtain ⟨e, v', hv, hv'⟩ := h1
        rw [if_pos e.symm, hv', e]
        congr 1
        exact hval (f r.1, v') hv
      · obtain ⟨e, hk, hv⟩ := h1
        rw [if_pos e.symm, hv, e, fibreSum_eq_zero, zero_add]
        intro r'' hr'' e'
        exact hk (e' ▸ himg r'' hr'')

theorem pushforward_val (f : κ → κ') (t : Tab κ α) (r : κ' × α) (hr : r ∈ pushforward f t) :
    r.2 = fibreSum f t r.1 := (pushforward_inv f t).2.2 r hr

theorem dedup_snoc (l : List κ') (x : κ') :
    dedup (l ++ [x]) = if x ∈ l then dedup l else dedup l ++ [x] := by
  induction l with
  | nil => simp [dedup]
  | cons y t ih =>
    have : dedup ((y :: t) ++ [x]) = y :: (dedup (t ++ [x])).filter (· ≠ y) := rfl
    rw [this, ih]
    have hd : dedup (y :: t) = y :: (dedup t).filter (· ≠ y) := rfl
    rw [hd]
    by_cases hxy : x = y
    · subst hxy
      by_cases hm : x ∈ t <;> simp [hm]
    · by_cases hm : x ∈ t <;> simp [hm, hxy]

/-- The keys of a pushforward are the distinct images, in order of first appearance. -/
theorem keys_pushforward (f : κ → κ') (t : Tab κ α) :
    keys (pushforward f t) = dedup (t.map (fun r => f r.1)) := by
  induction t using List.reverseRecOn with
  | nil => simp [pushforward, keys, dedup]
  | append_singleton t r ih =>
    rw [pushforward_snoc, keys_accum, ih, List.map_append, List.map_singleton, dedup_snoc]
    simp only [mem_dedup]

/-- `pushforward f t` is exactly the table of fibre sums over the distinct images. -/
theorem pushforward_eq (f : κ → κ') (t : Tab κ α) :
    pushforward f t
      = (dedup (t.map (fun r => f r.1))).map (fun x => (x, fibreSum f t x)) := by
  rw [← keys_pushforward, keys, List.map_map]
  conv_lhs => rw [← List.map_id (pushforward f t)]
  apply List.map_congr_left
  intro r hr
  simp only [Function.comp_apply, id]
  rw [← pushforward_val f t r hr]

end Push

/-! ### Shannon entropy of a list of reals -/

section Shannon

theorem plogp_zero {α : Type} [BEq α] [LawfulBEq α] [Zero α] [Mul α] (log : α → α) :
    plogp log (0 : α) = 0 := by
  simp [plogp]

theorem plogp_eq (p : ℝ) : plogp (Real.logb 2) p = p * Real.logb 2 p := by
  unfold plogp
  by_cases h : p = 0 <;> simp [h]

theorem entropyVals_eq_sum_plogp (log : ℝ → ℝ) (ps : List ℝ) :
    entropyVals log ps = -(ps.map (plogp log)).sum := by
  unfold entropyVals; rw [lsum_eq_sum]

theorem entropyVals_eq_sum (ps : List ℝ) :
    entropyVals (Real.logb 2) ps = -(ps.map (fun p => p * Real.logb 2 p)).sum := by
  rw [entropyVals_eq_sum_plogp]
  congr 2
  exact List.map_congr_left (fun p _ => plogp_eq p)

theorem entropyVals_perm (log : ℝ → ℝ) {ps qs : List ℝ} (h : ps.Perm qs) :
    entropyVals log ps = entropyVals log qs := by
  rw [entropyVals_eq_sum_plogp, entropyVals_eq_sum_plogp, (h.map _).sum_eq]

theorem entropyVals_filter (log : ℝ → ℝ) (ps : List ℝ) :
    entropyVals log (ps.filter (fun p => decide (p ≠ 0))) = entropyVals log ps := by
  rw [entropyVals_eq_sum_plogp, entropyVals_eq_sum_plogp, sum_map_filter_of_zero]
  intro x _ hx
  have : x = 0 := by simpa using hx
  rw [this]; exact plogp_zero log

theorem supportSize_cons (p : ℝ) (ps : List ℝ) :
    supportSize (p :: ps) = if p = 0 then supportSize ps else supportSize ps + 1 := by
  unfold supportSize
  by_cases h : p = 0 <;> simp [h]

theorem list_sum_nonpos (l : List ℝ) (h : ∀ x ∈ l, x ≤ 0) : l.sum ≤ 0 := by
  induction l with
  | nil => simp
  | cons x t ih =>
    rw [List.sum_cons]
    have := h x List.mem_cons_self
    have := ih (fun y hy => h y (List.mem_cons_of_mem _ hy))
    linarith

theorem list_sum_map_div (l : List ℝ) (g : ℝ → ℝ) (c : ℝ) :
    (l.map (fun x => g x / c)).sum = (l.map g).sum / c := by
  induction l with
  | nil => simp
  | cons x t ih => simp only [List.map_cons, List.sum_cons, ih]; ring

theorem entropy_nonneg (ps : List ℝ) (h : ∀ p ∈ ps, 0 ≤ p ∧ p ≤ 1) :
    0 ≤ entropyVals (Real.logb 2) ps := by
  rw [entropyVals_eq_sum, neg_nonneg]
  apply list_sum_nonpos
  intro x hx
  obtain ⟨p, hp, rfl⟩ := List.mem_map.mp hx
  exact mul_nonpos_of_nonneg_of_nonpos (h p hp).1
    (Real.logb_nonpos (by norm_num) (h p hp).1 (h p hp).2)

/-- One term of Gibbs' inequality against the constant `1/c`. -/
theorem neg_mul_log_le (c p : ℝ) (hc : 0 < c) (hp : 0 < p) :
    -(p * Real.log p) ≤ p * Real.log c + (1 / c - p) := by
  have h := Real.log_le_sub_one_of_pos (x := 1 / (c * p)) (by positivity)
  rw [Real.log_div one_ne_zero (by positivity), Real.log_one,
    Real.log_mul hc.ne' hp.ne'] at h
  have h2 := mul_le_mul_of_nonneg_left h hp.le
  have e : p * (1 / (c * p) - 1) = 1 / c - p := by field_simp
  rw [e] at h2
  linarith

theorem entropy_le_aux (c : ℝ) (hc : 0 < c) (ps : List ℝ) (h : ∀ p ∈ ps, 0 ≤ p) :
    -(ps.map (fun p => p * Real.log p)).sum
      ≤ ps.sum * Real.log c + ((supportSize ps : ℝ) / c - ps.sum) := by
  induction ps with
  | nil => simp [supportSize]
  | cons p ps ih =>
    have ih' := ih (fun q hq => h q (List.mem_cons_of_mem _ hq))
    rw [supportSize_cons, List.map_cons, List.sum_cons, List.sum_cons]
    rcases (h p List.mem_cons_self).eq_or_lt with h0 | hpos
    · subst h0; simpa using ih'
    · rw [if_neg hpos.ne']
      have := neg_mul_log_le c p hc hpos
      push_cast
      have e : ((supportSize ps : ℝ) + 1) / c = (supportSize ps : ℝ) / c + 1 / c := by ring
      rw [e]; linarith

theorem entropyVals_eq_log (ps : List ℝ) :
    entropyVals (Real.logb 2) ps = -(ps.map (fun p => p * Real.log p)).sum / Real.log 2 := by
  rw [entropyVals_eq_sum, neg_div, ← list_sum_map_div]
  congr 2
  apply List.map_congr_left
  intro p _
  rw [← Real.log_div_log, mul_div_assoc]

theorem supportSize_pos (ps : List ℝ) (h : ps.sum ≠ 0) : 0 < supportSize ps := by
  induction ps with
  | nil => simp at h
  | cons p ps ih =>
    rw [supportSize_cons]
    by_cases hp : p = 0
    · subst hp; simpa using ih (by simpa using h)
    · simp [hp]

theorem entropy_le_log_card (ps : List ℝ) (h : ∀ p ∈ ps, 0 ≤ p) (hs : ps.sum = 1) :
    entropyVals (Real.logb 2) ps ≤ Real.logb 2 (supportSize ps) := by
  have hk : 0 < supportSize ps := supportSize_pos ps (by rw [hs]; exact one_ne_zero)
  have hc : (0 : ℝ) < supportSize ps := by exact_mod_cast hk
  have := entropy_le_aux _ hc ps h
  rw [hs, div_self hc.ne', sub_self, add_zero, one_mul] at this
  rw [entropyVals_eq_log, ← Real.log_div_log]
  exact div_le_div_of_nonneg_right this (Real.log_pos (by norm_num)).le

end Shannon

/-! ### `project`: equality of projections is pointwise equality on the index set -/

section Project
variable {σ : Type}

theorem project_cons (i : Nat) (S : List Nat) (o : List σ) :
    project (i :: S) o = match o[i]? with
      | none => project S o
      | some x => x :: project S o := by
  unfold project; rw [List.filterMap_cons]; cases o[i]? <;> rfl

theorem length_project_le (S : List Nat) (o o' : List σ) (h : o'.length ≤ o.length) :
    (project S o').length ≤ (project S o).length := by
  induction S with
  | nil => simp [project]
  | cons i S ih =>
    rw [project_cons, project_cons]
    rcases h2 : o'[i]? with _ | y
    · rcases h1 : o[i]? with _ | x
      · simpa using ih
      · simp only [List.length_cons]; omega
    · have hi : i < o'.length := by
        by_contra hc
        rw [List.getElem?_eq_none (by omega)] at h2; cases h2
      have hi' : i < o.length := by omega
      rw [List.getElem?_eq_getElem hi']
      simpa using ih

theorem project_eq_iff (S : List Nat) (o o' : List σ) :
    project S o = project S o' ↔ ∀ i ∈ S, o[i]? = o'[i]? := by
  constructor
  · induction S with
    | nil => simp
    | cons i S ih =>
      intro h
      rw [project_cons, project_cons] at h
      rcases h1 : o[i]? with _ | x <;> rcases h2 : o'[i]? with _ | y <;> rw [h1, h2] at h
      · simpa [h1, h2] using ih h
      · exfalso
        have hl : o.length ≤ o'.length := by
          have := List.getElem?_eq_none_iff.mp h1
          have : i < o'.length := by
            by_contra hc
            rw [List.getElem?_eq_none (by omega)] at h2; cases h2
          omega
        have := length_project_le S o' o hl
        have e := congrArg List.length h
        simp only [List.length_cons] at e
        omega
      · exfalso
        have hl : o'.length ≤ o.length := by
          have := List.getElem?_eq_none_iff.mp h2
          have : i < o.length := by
            by_contra hc
            rw [List.getElem?_eq_none (by omega)] at h1; cases h1
          omega
        have := length_project_le S o o' hl
        have e := congrArg List.length h
        simp only [List.length_cons] at e
        omega
      · simp only [List.cons.injEq] at h
        simp only [List.mem_cons, forall_eq_or_imp, h1, h2, h.1, true_and]
        exact ih h.2
  · intro h
    unfold project
    apply List.filterMap_congr
    intro i hi
    exact h i hi

end Project

/-! ### Entropy of a marginal as an explicit sum -/

section EntropyOf
variable {σ : Type} [DecidableEq σ]

/-- Defining formula: `H(X) = −Σ_x P_X(x) log₂ P_X(x)` over the distinct projections `x` of the
stored outcomes, in order of first appearance; `P_X(x)` is the sum of the rows projecting to `x`. -/
theorem entropyOf_eq_def (t : Tab (List σ) ℝ) (X : List Nat) :
    entropyOf (Real.logb 2) t X
      = -((dedup (t.map (fun r => project X r.1))).map (fun x =>
          fibreSum (project X) t x * Real.logb 2 (fibreSum (project X) t x))).sum := by
  unfold entropyOf
  rw [entropyVals_eq_sum, pushforward_eq, vals, List.map_map, List.map_map]
  rfl

/-- Row form: `H(X) = −Σ_rows v · log₂ P_X(project X key)`. -/
theorem entropyOf_rows (t : Tab (List σ) ℝ) (X : List Nat) :
    entropyOf (Real.logb 2) t X
      = -(t.map (fun r =>
          r.2 * Real.logb 2 (fibreSum (project X) t (project X r.1)))).sum := by
  unfold entropyOf
  rw [entropyVals_eq_sum, vals, List.map_map]
  congr 1
  rw [← sum_pushforward (fun k v => v * Real.logb 2 (fibreSum (project X) t k))
    (by intro k v v'; ring) (project X) t]
  congr 1
  apply List.map_congr_left
  intro r hr
  simp only [Function.comp_apply]
  rw [← pushforward_val (project X) t r hr]

theorem fibreSum_eq_ite {κ κ' : Type} [DecidableEq κ'] (f : κ → κ') (t : Tab κ ℝ) (x : κ') :
    fibreSum f t x = (t.map (fun r => if f r.1 = x then r.2 else 0)).sum := by
  induction t with
  | nil => rfl
  | cons r t ih =>
    have : fibreSum f (r :: t) x = fibreSum f [r] x + fibreSum f t x :=
      fibreSum_append f [r] t x
    rw [this, fibreSum_single, ih, List.map_cons, List.sum_cons]

/-- Mass of the `X`-class of row `i`: the rows with the same projection on `X`. -/
noncomputable def rowMass (t : Tab (List σ) ℝ) (X : List Nat) (i : Fin t.length) : ℝ :=
  ∑ j : Fin t.length, if project X t[j.1].1 = project X t[i.1].1 then t[j.1].2 else 0

theorem fibreSum_eq_rowMass (t : Tab (List σ) ℝ) (X : List Nat) (i : Fin t.length) :
    fibreSum (project X) t (project X t[i.1].1) = rowMass t X i := by
  rw [fibreSum_eq_ite, rowMass]
  exact (Fin.sum_univ_fun_getElem t
    (fun r => if project X r.1 = project X t[i.1].1 then r.2 else 0)).symm

/-- Finset form of the row formula. -/
theorem entropyOf_fin (t : Tab (List σ) ℝ) (X : List Nat) :
    entropyOf (Real.logb 2) t X
      = -∑ i : Fin t.length, t[i.1].2 * Real.logb 2 (rowMass t X i) := by
  rw [entropyOf_rows]
  congr 1
  rw [← Fin.sum_univ_fun_getElem t
    (fun r => r.2 * Real.logb 2 (fibreSum (project X) t (project X r.1)))]
  apply Finset.sum_congr rfl
  intro i _
  rw [fibreSum_eq_rowMass]

end EntropyOf

/-! ### The core inequality: `I(X:Y|Z) ≥ 0` for class masses of a weighted finite set -/

section Core
open Finset

theorem log_term (A B C D : ℝ) (hA : 0 < A) (hB : 0 < B) (hC : 0 < C) (hD : 0 < D) :
    1 - B * C / (A * D) ≤ Real.log A + Real.log D - Real.log B - Real.log C := by
  have := Real.log_le_sub_one_of_pos (x := B * C / (A * D)) (by positivity)
  rw [Real.log_div (by positivity) (by positivity), Real.log_mul hB.ne' hC.ne',
    Real.log_mul hA.ne' hD.ne'] at this
  linarith

variable {ι : Type} [Fintype ι]

/-- Mass of the `f`-class of `i`. -/
noncomputable def cm {β : Type} [DecidableEq β] (w : ι → ℝ) (f : ι → β) (i : ι) : ℝ :=
  ∑ j, if f j = f i then w j else 0

variable {β : Type} [DecidableEq β] {w : ι → ℝ} (hw : ∀ i, 0 ≤ w i)
include hw

omit hw in
theorem cm_congr_cls (f : ι → β) {i j : ι} (h : f i = f j) : cm w f i = cm w f j := by
  unfold cm; rw [h]

theorem le_cm (f : ι → β) (i : ι) : w i ≤ cm w f i := by
  unfold cm
  have := Finset.single_le_sum (f := fun j => if f j = f i then w j else 0)
    (fun j _ => by split; exact hw j; exact le_rfl) (Finset.mem_univ i)
  simpa using this

theorem cm_nonneg (f : ι → β) (i : ι) : 0 ≤ cm w f i := (hw i).trans (le_cm hw f i)

/-- A set of indices inside one `a`-class carries at most the whole class. -/
theorem sum_div_cm_le_one (a : ι → β) (q : ι → Prop) [DecidablePred q]
    (hq : ∀ i j, q i → q j → a i = a j) :
    ∑ i, (if q i then w i / cm w a i else 0) ≤ 1 := by
  by_cases h : ∃ i0, q i0
  · obtain ⟨i0, h0⟩ := h
    have e : ∀ i ∈ Finset.univ, (if q i then w i / cm w a i else 0)
        = (if q i then w i else 0) / cm w a i0 := by
      intro i _
      split
      · rename_i hi; rw [cm_congr_cls a (hq i i0 hi h0)]
      · simp
    rw [Finset.sum_congr rfl e, ← Finset.sum_div]
    apply div_le_one_of_le₀ _ (cm_nonneg hw a i0)
    unfold cm
    apply Finset.sum_le_sum
    intro i _
    by_cases hi : q i
    · rw [if_pos hi, if_pos (hq i i0 hi h0)]
    · rw [if_neg hi]; split; exact hw i; exact le_rfl
  · have : ∀ i ∈ Finset.univ, (if q i then w i / cm w a i else 0) = 0 := by
      intro i _; rw [if_neg (fun hi => h ⟨i, hi⟩)]
    rw [Finset.sum_eq_zero this]; exact zero_le_one

theorem key_le (a b c d : ι → β)
    (hbd : ∀ i j, b i = b j → d i = d j) (hcd : ∀ i j, c i = c j → d i = d j)
    (hbc : ∀ i j, b i = b j → c i = c j → a i = a j) (j k : ι) :
    ∑ i, (if b i = b j ∧ c i = c k then w i / cm w a i else 0)
      ≤ if d j = d k then 1 else 0 := by
  by_cases hd : d j = d k
  · rw [if_pos hd]
    exact sum_div_cm_le_one hw a (fun i => b i = b j ∧ c i = c k)
      (fun i i' hi hi' => hbc i i' (hi.1.trans hi'.1.symm) (hi.2.trans hi'.2.symm))
  · rw [if_neg hd]
    apply le_of_eq
    apply Finset.sum_eq_zero
    intro i _
    rw [if_neg]
    rintro ⟨h1, h2⟩
    exact hd ((hbd _ _ h1).symm.trans (hcd _ _ h2))

omit hw in
theorem term_expand (a b c d : ι → β) (hbd : ∀ i j, b i = b j → d i = d j) (i : ι) :
    w i * cm w b i * cm w c i / (cm w a i * cm w d i)
      = ∑ j, ∑ k, (if b i = b j ∧ c i = c k then w i / cm w a i else 0)
          * (w j * w k / cm w d j) := by
  have e1 : w i * cm w b i * cm w c i / (cm w a i * cm w d i)
      = (w i / cm w a i / cm w d i) * (cm w b i * cm w c i) := by ring
  have e2 : cm w b i * cm w c i
      = ∑ j, ∑ k, (if b j = b i then w j else 0) * (if c k = c i then w k else 0) := by
    unfold cm; rw [Finset.sum_mul_sum]
  rw [e1, e2, Finset.mul_sum]
  apply Finset.sum_congr rfl
  intro j _
  rw [Finset.mul_sum]
  apply Finset.sum_congr rfl
  intro k _
  by_cases h1 : b j = b i
  · by_cases h2 : c k = c i
    · rw [if_pos h1, if_pos h2, if_pos ⟨h1.symm, h2.symm⟩, cm_congr_cls d (hbd j i h1)]
      ring
    · have hn : ¬(b i = b j ∧ c i = c k) := fun h => h2 h.2.symm
      rw [if_neg h2, if_neg hn]; ring
  · have hn : ¬(b i = b j ∧ c i = c k) := fun h => h1 h.1.symm
    rw [if_neg h1, if_neg hn]; ring

theorem core_T_le (a b c d : ι → β)
    (hbd : ∀ i j, b i = b j → d i = d j) (hcd : ∀ i j, c i = c j → d i = d j)
    (hbc : ∀ i j, b i = b j → c i = c j → a i = a j) :
    ∑ i, w i * cm w b i * cm w c i / (cm w a i * cm w d i) ≤ ∑ i, w i := by
  rw [Finset.sum_congr rfl (fun i _ => term_expand a b c d hbd i), Finset.sum_comm]
  apply Finset.sum_le_sum
  intro j _
  rw [Finset.sum_comm]
  have hjk : ∀ k ∈ Finset.univ,
      ∑ i, (if b i = b j ∧ c i = c k then w i / cm w a i else 0) * (w j * w k / cm w d j)
        ≤ (w j / cm w d j) * (if d k = d j then w k else 0) := by
    intro k _
    rw [← Finset.sum_mul]
    have hg : 0 ≤ w j * w k / cm w d j :=
      div_nonneg (mul_nonneg (hw j) (hw k)) (cm_nonneg hw d j)
    have := mul_le_mul_of_nonneg_right (key_le hw a b c d hbd hcd hbc j k) hg
    refine this.trans (le_of_eq ?_)
    by_cases hd : d j = d k
    · rw [if_pos hd, if_pos hd.symm]; ring
    · rw [if_neg hd, if_neg (fun h => hd h.symm)]; ring
  refine (Finset.sum_le_sum hjk).trans ?_
  rw [← Finset.mul_sum]
  change w j / cm w d j * cm w d j ≤ w j
  by_cases h0 : cm w d j = 0
  · rw [h0, mul_zero]; exact hw j
  · rw [div_mul_cancel₀ _ h0]

/-- **Core inequality** (conditional mutual information of class masses is non-negative). -/
theorem core_log (a b c d : ι → β)
    (hbd : ∀ i j, b i = b j → d i = d j) (hcd : ∀ i j, c i = c j → d i = d j)
    (hbc : ∀ i j, b i = b j → c i = c j → a i = a j) :
    0 ≤ ∑ i, w i * (Real.log (cm w a i) + Real.log (cm w d i)
                      - Real.log (cm w b i) - Real.log (cm w c i)) := by
  have h1 : ∑ i, (w i - w i * cm w b i * cm w c i / (cm w a i * cm w d i))
      ≤ ∑ i, w i * (Real.log (cm w a i) + Real.log (cm w d i)
                      - Real.log (cm w b i) - Real.log (cm w c i)) := by
    apply Finset.sum_le_sum
    intro i _
    rcases (hw i).eq_or_lt with h0 | hpos
    · rw [← h0]; simp
    · have pos : ∀ f : ι → β, 0 < cm w f i := fun f => hpos.trans_le (le_cm hw f i)
      have := mul_le_mul_of_nonneg_left
        (log_term _ _ _ _ (pos a) (pos b) (pos c) (pos d)) hpos.le
      refine le_trans (le_of_eq ?_) this
      ring
  have h2 := core_T_le hw a b c d hbd hcd hbc
  rw [Finset.sum_sub_distrib] at h1
  linarith

end Core

/-! ### Submodularity of the entropy of the marginals of one table -/

section Bridge
variable {σ : Type} [DecidableEq σ]

theorem rowMass_eq_cm (t : Tab (List σ) ℝ) (S : List Nat) (i : Fin t.length) :
    rowMass t S i
      = cm (fun j : Fin t.length => t[j.1].2) (fun j : Fin t.length => project S t[j.1].1) i :=
  rfl

/-- **Conditional mutual information is non-negative** for the marginals of any table with
non-negative values: `H(X∪Z) + H(Y∪Z) − H(X∪Y∪Z) − H(Z) ≥ 0`. -/
theorem entropy_submod (t : Tab (List σ) ℝ) (hnn : ∀ r ∈ t, 0 ≤ r.2) (X Y Z : List Nat) :
    0 ≤ entropyOf (Real.logb 2) t (vunion X Z) + entropyOf (Real.logb 2) t (vunion Y Z)
        - entropyOf (Real.logb 2) t (vunion (vunion X Y) Z)
        - entropyOf (Real.logb 2) t (vnorm Z) := by
  have hw : ∀ i : Fin t.length, 0 ≤ (fun j : Fin t.length => t[j.1].2) i :=
    fun i => hnn _ (List.getElem_mem i.2)
  have hmem : ∀ (S S' : List Nat) (_ : ∀ v ∈ S', v ∈ S) (i j : Fin t.length),
      project S t[i.1].1 = project S t[j.1].1 → project S' t[i.1].1 = project S' t[j.1].1 := by
    intro S S' hS i j h
    rw [project_eq_iff] at h ⊢
    exact fun v hv => h v (hS v hv)
  have hcore := core_log hw
    (fun j : Fin t.length => project (vunion (vunion X Y) Z) t[j.1].1)
    (fun j : Fin t.length => project (vunion X Z) t[j.1].1)
    (fun j : Fin t.length => project (vunion Y Z) t[j.1].1)
    (fun j : Fin t.length => project (vnorm Z) t[j.1].1)
    (hmem _ _ (by intro v; simp only [mem_vunion, mem_vnorm]; tauto))
    (hmem _ _ (by intro v; simp only [mem_vunion, mem_vnorm]; tauto))
    (by
      intro i j h1 h2
      simp only [project_eq_iff] at h1 h2 ⊢
      intro v hv
      simp only [mem_vunion] at hv h1 h2
      rcases hv with (hv | hv) | hv
      · exact h1 v (Or.inl hv)
      · exact h2 v (Or.inl hv)
      · exact h1 v (Or.inr hv))
  simp only [entropyOf_fin, rowMass_eq_cm]
  have hl : 0 < Real.log 2 := Real.log_pos (by norm_num)
  have hdiv := div_nonneg hcore hl.le
  refine le_trans hdiv (le_of_eq ?_)
  rw [Finset.sum_div, ← Finset.sum_neg_distrib, ← Finset.sum_neg_distrib,
    ← Finset.sum_neg_distrib, ← Finset.sum_neg_distrib, ← Finset.sum_add_distrib,
    ← Finset.sum_sub_distrib, ← Finset.sum_sub_distrib]
  apply Finset.sum_congr rfl
  intro i _
  simp only [← Real.log_div_log]
  ring

theorem entropy_Submod (t : Tab (List σ) ℝ) (hnn : ∀ r ∈ t, 0 ≤ r.2) :
    Submod (entropyOf (Real.logb 2) t) := by
  intro X Y Z
  have := entropy_submod t hnn X Y Z
  unfold Hc
  linarith

end Bridge

/-! ### Gibbs' inequality; the Rényi / Tsallis family -/

section Gibbs
variable {ι : Type}

/-- Gibbs' inequality in nats, with `Σq ≤ Σp` allowed. -/
theorem gibbs_log (s : Finset ι) (p q : ι → ℝ) (hp : ∀ i ∈ s, 0 ≤ p i) (hq : ∀ i ∈ s, 0 ≤ q i)
    (hac : ∀ i ∈ s, q i = 0 → p i = 0) :
    ∑ i ∈ s, p i - ∑ i ∈ s, q i ≤ ∑ i ∈ s, p i * Real.log (p i / q i) := by
  rw [← Finset.sum_sub_distrib]
  apply Finset.sum_le_sum
  intro i hi
  rcases (hp i hi).eq_or_lt with h0 | hpos
  · rw [← h0]; simpa using hq i hi
  · have hqpos : 0 < q i := by
      rcases (hq i hi).eq_or_lt with h | h
      · exact absurd (hac i hi h.symm) hpos.ne'
      · exact h
    have := Real.log_le_sub_one_of_pos (x := q i / p i) (by positivity)
    rw [Real.log_div hqpos.ne' hpos.ne'] at this
    rw [Real.log_div hpos.ne' hqpos.ne']
    have h2 := mul_le_mul_of_nonneg_left this hpos.le
    have e : p i * (q i / p i - 1) = q i - p i := by field_simp
    rw [e] at h2
    linarith

theorem gibbs (s : Finset ι) (p q : ι → ℝ) (hp : ∀ i ∈ s, 0 ≤ p i) (hq : ∀ i ∈ s, 0 ≤ q i)
    (hsum : ∑ i ∈ s, q i ≤ ∑ i ∈ s, p i) (hac : ∀ i ∈ s, q i = 0 → p i = 0) :
    0 ≤ ∑ i ∈ s, p i * Real.logb 2 (p i / q i) := by
  have h := gibbs_log s p q hp hq hac
  have hl : 0 < Real.log 2 := Real.log_pos (by norm_num)
  have : ∑ i ∈ s, p i * Real.logb 2 (p i / q i)
      = (∑ i ∈ s, p i * Real.log (p i / q i)) / Real.log 2 := by
    rw [Finset.sum_div]
    apply Finset.sum_congr rfl
    intro i _
    rw [← Real.log_div_log, mul_div_assoc]
  rw [this]
  apply div_nonneg _ hl.le
  linarith
end Gibbs

section Renyi

/-- The real instance of the transcendental operations used by the entropy family. -/
noncomputable def realOps : RealOps ℝ :=
  ⟨Real.logb 2, fun x a => x ^ a, fun n => (n : ℝ), Real.logb 2 (Real.exp 1)⟩

theorem filter_ne_zero (ps : List ℝ) :
    ps.filter (fun p => !(p == 0)) = ps.filter (fun p => decide (p ≠ 0)) := by
  apply List.filter_congr
  intro p _
  by_cases h : p = 0 <;> simp [h]

theorem foldl_max_spec (ps : List ℝ) (m0 : ℝ) :
    let r := ps.foldl (fun m p => if m < p then p else m) m0
    m0 ≤ r ∧ (∀ p ∈ ps, p ≤ r) ∧ (r = m0 ∨ r ∈ ps) := by
  induction ps generalizing m0 with
  | nil => simp
  | cons p ps ih =>
    simp only [List.foldl_cons]
    obtain ⟨h1, h2, h3⟩ := ih (if m0 < p then p else m0)
    by_cases hlt : m0 < p
    · simp only [hlt, if_true] at h1 h2 h3 ⊢
      refine ⟨hlt.le.trans h1, ?_, ?_⟩
      · intro x hx
        rcases List.mem_cons.mp hx with rfl | hx
        · exact h1
        · exact h2 x hx
      · rcases h3 with h3 | h3
        · right; rw [h3]; exact List.mem_cons_self
        · right; exact List.mem_cons_of_mem _ h3
    · simp only [hlt, if_false] at h1 h2 h3 ⊢
      refine ⟨h1, ?_, ?_⟩
      · intro x hx
        rcases List.mem_cons.mp hx with rfl | hx
        · exact (not_lt.mp hlt).trans h1
        · exact h2 x hx
      · rcases h3 with h3 | h3
        · left; exact h3
        · right; exact List.mem_cons_of_mem _ h3

/-- `lmax` of a non-empty list of non-negative reals is its greatest element. -/
theorem lmax_spec (ps : List ℝ) (hne : ps ≠ []) (hnn : ∀ p ∈ ps, 0 ≤ p) :
    lmax ps ∈ ps ∧ ∀ p ∈ ps, p ≤ lmax ps := by
  obtain ⟨_, h2, h3⟩ := foldl_max_spec ps 0
  refine ⟨?_, h2⟩
  rcases h3 with h3 | h3
  · obtain ⟨x, hx⟩ := List.exists_mem_of_ne_nil ps hne
    have hx0 : x = 0 := le_antisymm (by have := h2 x hx; rw [h3] at this; exact this) (hnn x hx)
    change lmax ps = 0 at h3
    rw [h3, ← hx0]; exact hx
  · exact h3

theorem renyi_inf (ps : List ℝ) :
    renyiVals realOps .inf ps = -Real.logb 2 (lmax ps) := rfl

theorem renyi_zero (ps : List ℝ) :
    renyiVals realOps (.fin 0) ps = Real.logb 2 (supportSize ps) := by
  simp [renyiVals, realOps]

theorem renyi_one (ps : List ℝ) :
    renyiVals realOps (.fin 1) ps = entropyVals (Real.logb 2) ps := by
  simp [renyiVals, realOps]

theorem renyi_fin (a : ℝ) (h0 : a ≠ 0) (h1 : a ≠ 1) (ps : List ℝ) :
    renyiVals realOps (.fin a) ps
      = (1 / (1 - a)) * Real.logb 2 (((ps.filter (fun p => decide (p ≠ 0))).map (· ^ a)).sum) := by
  simp only [renyiVals, realOps, beq_iff_eq, h0, h1, if_false, lsum_eq_sum, filter_ne_zero]

theorem sum_rpow_filter (a : ℝ) (ha : 0 < a) (ps : List ℝ) :
    ((ps.filter (fun p => decide (p ≠ 0))).map (· ^ a)).sum = (ps.map (· ^ a)).sum := by
  apply sum_map_filter_of_zero
  intro x _ hx
  have : x = 0 := by simpa using hx
  rw [this, Real.zero_rpow ha.ne']

theorem renyi_fin_pos (a : ℝ) (h0 : 0 < a) (h1 : a ≠ 1) (ps : List ℝ) :
    renyiVals realOps (.fin a) ps = (1 / (1 - a)) * Real.logb 2 ((ps.map (· ^ a)).sum) := by
  rw [renyi_fin a h0.ne' h1, sum_rpow_filter a h0]

theorem tsallis_fin (q : ℝ) (h1 : q ≠ 1) (ps : List ℝ) :
    tsallisVals realOps q ps
      = (1 / (q - 1)) * (1 - ((ps.filter (fun p => decide (p ≠ 0))).map (· ^ q)).sum) := by
  simp only [tsallisVals, realOps, beq_iff_eq, h1, if_false, lsum_eq_sum, filter_ne_zero]

theorem tsallis_fin_pos (q : ℝ) (h0 : 0 < q) (h1 : q ≠ 1) (ps : List ℝ) :
    tsallisVals realOps q ps = (1 / (q - 1)) * (1 - (ps.map (· ^ q)).sum) := by
  rw [tsallis_fin q h1, sum_rpow_filter q h0]

/-- Tsallis entropy of order 1 is the Shannon entropy in nats. -/
theorem tsallis_one (ps : List ℝ) :
    tsallisVals realOps 1 ps = -(ps.map (fun p => p * Real.log p)).sum := by
  have hl : Real.log 2 ≠ 0 := (Real.log_pos (by norm_num)).ne'
  simp only [tsallisVals, realOps, beq_self_eq_true, if_true]
  rw [entropyVals_eq_log, ← Real.log_div_log, Real.log_exp]
  field_simp

theorem tsallis_one_bits (ps : List ℝ) :
    tsallisVals realOps 1 ps = entropyVals (Real.logb 2) ps / Real.logb 2 (Real.exp 1) := by
  simp [tsallisVals, realOps]

theorem extropy_eq (ps : List ℝ) :
    extropyVals (Real.logb 2) ps = -(ps.map (fun p => (1 - p) * Real.logb 2 (1 - p))).sum := by
  unfold extropyVals
  rw [entropyVals_eq_sum, List.map_map]; rfl

theorem perplexity_eq (ps : List ℝ) :
    perplexityVals realOps 2 ps = (2 : ℝ) ^ entropyVals (Real.logb 2) ps := rfl

end Renyi

/-! ### The entropy of a marginal depends only on the set of variables -/

section Congr
variable {σ : Type} [DecidableEq σ]

theorem entropyOf_congr (t : Tab (List σ) ℝ) {X X' : List Nat} (h : ∀ v, v ∈ X ↔ v ∈ X') :
    entropyOf (Real.logb 2) t X = entropyOf (Real.logb 2) t X' := by
  rw [entropyOf_fin, entropyOf_fin]
  congr 1
  apply Finset.sum_congr rfl
  intro i _
  congr 2
  unfold rowMass
  apply Finset.sum_congr rfl
  intro j _
  have : project X t[j.1].1 = project X t[i.1].1 ↔ project X' t[j.1].1 = project X' t[i.1].1 := by
    rw [project_eq_iff, project_eq_iff]
    exact ⟨fun hh v hv => hh v ((h v).mpr hv), fun hh v hv => hh v ((h v).mp hv)⟩
  simp only [this]

theorem entropyOf_vnorm (t : Tab (List σ) ℝ) (X : List Nat) :
    entropyOf (Real.logb 2) t X = entropyOf (Real.logb 2) t (vnorm X) :=
  entropyOf_congr t (fun v => (mem_vnorm X v).symm)

/-- The entropy of the empty set of variables vanishes for a table of total mass 1. -/
theorem entropyOf_nil (t : Tab (List σ) ℝ) (h : (t.map (·.2)).sum = 1) :
    entropyOf (Real.logb 2) t [] = 0 := by
  rw [entropyOf_rows]
  have : ∀ r : List σ × ℝ, fibreSum (project []) t (project [] r.1) = 1 := by
    intro r
    rw [fibreSum_eq_ite, ← h]
    congr 1
  simp [this]

end Congr

/-! ### The limits `a → 1` -/

section Limit

theorem hasDerivAt_sum_rpow (l : List ℝ) (hl : ∀ p ∈ l, 0 < p) (x : ℝ) :
    HasDerivAt (fun a => (l.map (fun p => p ^ a)).sum)
      (l.map (fun p => p ^ x * Real.log p)).sum x := by
  induction l with
  | nil => simpa using hasDerivAt_const x (0 : ℝ)
  | cons p l ih =>
    simp only [List.map_cons, List.sum_cons]
    exact ((Real.hasStrictDerivAt_const_rpow (hl p List.mem_cons_self) x).hasDerivAt).add
      (ih (fun q hq => hl q (List.mem_cons_of_mem _ hq)))

/-- **Rényi → Shannon**: for a probability vector the Rényi entropy of order `a` tends to the
Shannon entropy as `a → 1`, `a ≠ 1`. -/
theorem renyi_tendsto_one (ps : List ℝ) (hnn : ∀ p ∈ ps, 0 ≤ p) (hs : ps.sum = 1) :
    Filter.Tendsto (fun a => renyiVals realOps (.fin a) ps) (nhdsWithin 1 {1}ᶜ)
      (nhds (entropyVals (Real.logb 2) ps)) := by
  set supp := ps.filter (fun p => decide (p ≠ 0)) with hsupp
  have hpos : ∀ p ∈ supp, 0 < p := by
    intro p hp
    rw [hsupp, List.mem_filter] at hp
    exact lt_of_le_of_ne (hnn p hp.1) (Ne.symm (by simpa using hp.2))
  have hS1 : (supp.map (fun p => p ^ (1 : ℝ))).sum = 1 := by
    simp only [Real.rpow_one, List.map_id']
    rw [← hs, hsupp]
    have := sum_map_filter_of_zero (fun p : ℝ => decide (p ≠ 0)) id ps
      (by intro x _ hx; simpa using hx)
    simpa using this
  have hd := (hasDerivAt_sum_rpow supp hpos 1).log (by rw [hS1]; exact one_ne_zero)
  rw [hS1, div_one] at hd
  have hslope := hasDerivAt_iff_tendsto_slope.mp hd
  have hlim : (supp.map (fun p => p ^ (1 : ℝ) * Real.log p)).sum
      = (ps.map (fun p => p * Real.log p)).sum := by
    simp only [Real.rpow_one]
    rw [hsupp]
    apply sum_map_filter_of_zero
    intro x _ hx
    have : x = 0 := by simpa using hx
    rw [this]; simp
  have ht := (hslope.neg).div_const (Real.log 2)
  rw [hlim, ← entropyVals_eq_log] at ht
  refine ht.congr' ?_
  have h0 : ∀ᶠ a in nhdsWithin (1 : ℝ) {1}ᶜ, a ≠ 0 :=
    eventually_ne_nhdsWithin one_ne_zero
  have h1 : ∀ᶠ a in nhdsWithin (1 : ℝ) {1}ᶜ, a ≠ 1 := eventually_mem_nhdsWithin
  filter_upwards [h0, h1] with a ha0 ha1
  rw [renyi_fin a ha0 ha1, slope_def_field, hS1, Real.log_one, sub_zero, ← Real.log_div_log]
  have : (1 : ℝ) - a ≠ 0 := sub_ne_zero.mpr (Ne.symm ha1)
  have : a - 1 ≠ 0 := sub_ne_zero.mpr ha1
  field_simp
  ring

/-- **Tsallis → Shannon (nats)**: for a probability vector the Tsallis entropy of order `q` tends
to `−Σ p ln p` as `q → 1`, `q ≠ 1`. -/
theorem tsallis_tendsto_one (ps : List ℝ) (hnn : ∀ p ∈ ps, 0 ≤ p) (hs : ps.sum = 1) :
    Filter.Tendsto (fun q => tsallisVals realOps q ps) (nhdsWithin 1 {1}ᶜ)
      (nhds (tsallisVals realOps 1 ps)) := by
  set supp := ps.filter (fun p => decide (p ≠ 0)) with hsupp
  have hpos : ∀ p ∈ supp, 0 < p := by
    intro p hp
    rw [hsupp, List.mem_filter] at hp
    exact lt_of_le_of_ne (hnn p hp.1) (Ne.symm (by simpa using hp.2))
  have hS1 : (supp.map (fun p => p ^ (1 : ℝ))).sum = 1 := by
    simp only [Real.rpow_one, List.map_id']
    rw [← hs, hsupp]
    have := sum_map_filter_of_zero (fun p : ℝ => decide (p ≠ 0)) id ps
      (by intro x _ hx; simpa using hx)
    simpa using this
  have hslope := hasDerivAt_iff_tendsto_slope.mp (hasDerivAt_sum_rpow supp hpos 1)
  have hlim : (supp.map (fun p => p ^ (1 : ℝ) * Real.log p)).sum
      = (ps.map (fun p => p * Real.log p)).sum := by
    simp only [Real.rpow_one]
    rw [hsupp]
    apply sum_map_filter_of_zero
    intro x _ hx
    have : x = 0 := by simpa using hx
    rw [this]; simp
  have ht := hslope.neg
  rw [hlim, ← tsallis_one] at ht
  refine ht.congr' ?_
  have h1 : ∀ᶠ a in nhdsWithin (1 : ℝ) {1}ᶜ, a ≠ 1 := eventually_mem_nhdsWithin
  filter_upwards [h1] with a ha1
  rw [tsallis_fin a ha1, slope_def_field, hS1]
  have : a - 1 ≠ 0 := sub_ne_zero.mpr ha1
  field_simp
  ring

end Limit

end Dit.Lemmas.InfoReal
