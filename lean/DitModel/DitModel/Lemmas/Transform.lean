/-
Helper lemmas for C08 (invariance of the information measures under changes of representation):
relabelling of symbols, permutation of stored rows, zero padding / trimming, permutation of the
variables. Property theorems are in Props/C08.lean.
-/
import DitModel.Core.Transform
import DitModel.Lemmas.Table
import DitModel.Lemmas.InfoReal
import DitModel.Lemmas.Diverge
import Mathlib.Algebra.Order.Group.Multiset

set_option linter.unusedSectionVars false

namespace Dit.Lemmas.Transform
open Dit Dit.Lemmas.Table
open Dit.Lemmas.InfoReal (fibreSum fibreSum_append fibreSum_eq_zero pushforward_eq project_eq_iff)
open Dit.Lemmas.InfoAlg (sum_map_filter_of_zero)

/-! ## Relabelling an outcome -/

section Relabel
variable {σ τ : Type}

theorem length_relabelOutcome (ρ : Nat → σ → τ) (o : List σ) :
    (relabelOutcome ρ o).length = o.length := by
  simp [relabelOutcome]

/-- Component `i` of the relabelled outcome is component `i` mapped by `ρ i`. -/
theorem getElem?_relabelOutcome (ρ : Nat → σ → τ) (o : List σ) (i : Nat) :
    (relabelOutcome ρ o)[i]? = (o[i]?).map (ρ i) := by
  unfold relabelOutcome
  by_cases h : i < o.length
  · simp [h]
  · simp [h]

theorem project_relabel_filterMap (ρ : Nat → σ → τ) (X : List Nat) (o : List σ) :
    project X (relabelOutcome ρ o) = X.filterMap (fun i => (o[i]?).map (ρ i)) := by
  unfold project
  apply List.filterMap_congr
  intro i _
  exact getElem?_relabelOutcome ρ o i

/-- Projection commutes with relabelling: the selected components are relabelled with the maps
of the selected positions. -/
theorem project_relabel (ρ : Nat → σ → τ) (X : List Nat) (o : List σ)
    (h : ∀ i ∈ X, i < o.length) :
    project X (relabelOutcome ρ o)
      = (List.zip X (project X o)).map (fun p => ρ p.1 p.2) := by
  induction X with
  | nil => rfl
  | cons i X ih =>
    have hi := h i (by simp)
    rw [Table.project_cons, Table.project_cons, getElem?_relabelOutcome,
      List.getElem?_eq_getElem hi]
    simp [ih (fun j hj => h j (List.mem_cons_of_mem _ hj))]

/-- With injective symbol maps, two outcomes have the same relabelled projection iff they have
the same projection (no length assumption). -/
theorem relabel_project_inj (ρ : Nat → σ → τ) (hρ : ∀ i, Function.Injective (ρ i))
    (X : List Nat) (o o' : List σ) :
    project X (relabelOutcome ρ o) = project X (relabelOutcome ρ o')
      ↔ project X o = project X o' := by
  rw [project_eq_iff, project_eq_iff]
  refine forall₂_congr (fun i _ => ?_)
  rw [getElem?_relabelOutcome, getElem?_relabelOutcome]
  exact (Option.map_injective (hρ i)).eq_iff

/-- Sharper form: it is enough that each symbol map is injective on the symbols that occur at
that position in the two outcomes. -/
theorem relabel_project_inj_on (ρ : Nat → σ → τ) (X : List Nat) (o o' : List σ)
    (h : ∀ i ∈ X, ∀ s s', o[i]? = some s → o'[i]? = some s' → ρ i s = ρ i s' → s = s') :
    project X (relabelOutcome ρ o) = project X (relabelOutcome ρ o')
      ↔ project X o = project X o' := by
  rw [project_eq_iff, project_eq_iff]
  refine forall₂_congr (fun i hi => ?_)
  rw [getElem?_relabelOutcome, getElem?_relabelOutcome]
  cases h1 : o[i]? with
  | none => cases h2 : o'[i]? <;> simp
  | some s =>
    cases h2 : o'[i]? with
    | none => simp
    | some s' =>
      simp only [Option.map_some, Option.some.injEq]
      exact ⟨h i hi s s' h1 h2, fun e => by rw [e]⟩

/-- Relabelling with injective symbol maps is injective on outcomes. -/
theorem relabelOutcome_injective (ρ : Nat → σ → τ) (hρ : ∀ i, Function.Injective (ρ i)) :
    Function.Injective (relabelOutcome ρ) := by
  intro o o' h
  apply List.ext_getElem?
  intro i
  have := congrArg (fun l => l[i]?) h
  simp only [getElem?_relabelOutcome] at this
  exact Option.map_injective (hρ i) this

end Relabel

/-! ## Representatives of the classes of a key map, and `pushforward` -/

section Reps
variable {β γ γ' : Type} [DecidableEq γ] [DecidableEq γ']

/-- First element of each `F`-class, in list order. -/
def reps (F : β → γ) : List β → List β
  | [] => []
  | x :: t => x :: (reps F t).filter (fun y => decide (F y ≠ F x))

theorem reps_sublist (F : β → γ) (l : List β) : (reps F l).Sublist l := by
  induction l with
  | nil => exact List.Sublist.slnil
  | cons x t ih => exact (List.filter_sublist.trans ih).cons_cons x

theorem mem_of_mem_reps {F : β → γ} {l : List β} {a : β} (h : a ∈ reps F l) : a ∈ l :=
  (reps_sublist F l).subset h

/-- The distinct images in order of first appearance are the images of the representatives. -/
theorem dedup_map_eq (F : β → γ) (l : List β) : dedup (l.map F) = (reps F l).map F := by
  induction l with
  | nil => rfl
  | cons x t ih =>
    show F x :: (dedup (t.map F)).filter (fun y => decide (y ≠ F x)) = _
    rw [ih, List.filter_map]
    rfl

/-- Two key maps with the same classes on `l` have the same representatives. -/
theorem reps_congr (F : β → γ) (G : β → γ') (l : List β)
    (h : ∀ a ∈ l, ∀ b ∈ l, F a = F b ↔ G a = G b) : reps F l = reps G l := by
  induction l with
  | nil => rfl
  | cons x t ih =>
    have ih' := ih (fun a ha b hb => h a (List.mem_cons_of_mem _ ha) b (List.mem_cons_of_mem _ hb))
    show x :: (reps F t).filter _ = x :: (reps G t).filter _
    rw [ih']
    congr 1
    apply List.filter_congr
    intro y hy
    have := h y (List.mem_cons_of_mem _ (mem_of_mem_reps hy)) x (by simp)
    by_cases e : F y = F x
    · simp [e, this.mp e]
    · have e' : ¬ G y = G x := fun e' => e (this.mpr e')
      simp [e, e']

end Reps

section Push
variable {κ κ' κ'' α : Type} [DecidableEq κ'] [DecidableEq κ''] [AddCommMonoid α]

/-- Mapping the keys first and pushing forward is pushing forward along the composite. -/
theorem pushforward_map_key (h : κ → κ'') (f : κ'' → κ') (t : Tab κ α) :
    pushforward f (t.map (fun r => (h r.1, r.2))) = pushforward (fun k => f (h k)) t := by
  unfold pushforward
  rw [List.foldl_map]

theorem foldl_accum_congr (f g : κ → κ') (t : Tab κ α) (h : ∀ r ∈ t, f r.1 = g r.1)
    (acc : Tab κ' α) :
    t.foldl (fun acc r => accum acc (f r.1) r.2) acc
      = t.foldl (fun acc r => accum acc (g r.1) r.2) acc := by
  induction t generalizing acc with
  | nil => rfl
  | cons r t ih =>
    rw [List.foldl_cons, List.foldl_cons, h r (by simp),
      ih (fun x hx => h x (List.mem_cons_of_mem _ hx))]

/-- `pushforward` only looks at the key map on the stored keys. -/
theorem pushforward_congr (f g : κ → κ') (t : Tab κ α) (h : ∀ r ∈ t, f r.1 = g r.1) :
    pushforward f t = pushforward g t :=
  foldl_accum_congr f g t h []

/-- Values of the marginal: fibre sums over the distinct images in order of first appearance. -/
theorem vals_pushforward_eq (f : κ → κ') (t : Tab κ α) :
    vals (pushforward f t) = (dedup (t.map (fun r => f r.1))).map (fibreSum f t) := by
  rw [pushforward_eq, vals, List.map_map]
  rfl

theorem vals_pushforward_eq_reps (f : κ → κ') (t : Tab κ α) :
    vals (pushforward f t)
      = (reps (fun r : κ × α => f r.1) t).map (fun r => fibreSum f t (f r.1)) := by
  rw [vals_pushforward_eq, dedup_map_eq, List.map_map]
  rfl

/-- **Marginals along equivalent key maps.** If two key maps (into possibly different key
types) identify the same pairs of rows of `t`, the two marginals store the same values in the
same order: first-appearance order and fibre sums coincide. -/
theorem vals_pushforward_of_equiv (f : κ → κ') (g : κ → κ'') (t : Tab κ α)
    (h : ∀ r ∈ t, ∀ r' ∈ t, f r.1 = f r'.1 ↔ g r.1 = g r'.1) :
    vals (pushforward f t) = vals (pushforward g t) := by
  rw [vals_pushforward_eq_reps, vals_pushforward_eq_reps,
    reps_congr (fun r : κ × α => f r.1) (fun r : κ × α => g r.1) t h]
  apply List.map_congr_left
  intro r hr
  have hr' := mem_of_mem_reps hr
  unfold fibreSum
  congr 2
  apply List.filter_congr
  intro r' hr''
  have := h r' hr'' r hr'
  by_cases e : f r'.1 = f r.1
  · simp [e, this.mp e]
  · have e' : ¬ g r'.1 = g r.1 := fun e' => e (this.mpr e')
    simp [e, e']

theorem fibreSum_perm (f : κ → κ') {s t : Tab κ α} (h : s.Perm t) (x : κ') :
    fibreSum f s x = fibreSum f t x :=
  ((h.filter _).map _).sum_eq

/-- **Row order.** Permuting the stored rows permutes the values of the marginal. -/
theorem vals_pushforward_perm (f : κ → κ') {s t : Tab κ α} (h : s.Perm t) :
    (vals (pushforward f s)).Perm (vals (pushforward f t)) := by
  rw [vals_pushforward_eq, vals_pushforward_eq]
  have e : fibreSum f s = fibreSum f t := funext (fibreSum_perm f h)
  rw [e]
  apply List.Perm.map
  rw [List.perm_ext_iff_of_nodup (nodup_dedup _) (nodup_dedup _)]
  intro a
  rw [Table.mem_dedup, Table.mem_dedup]
  exact (h.map _).mem_iff

theorem fibreSum_of_not_mem (f : κ → κ') (t : Tab κ α) (x : κ')
    (h : x ∉ dedup (t.map (fun r => f r.1))) : fibreSum f t x = 0 := by
  apply fibreSum_eq_zero
  intro r hr e
  apply h
  rw [Table.mem_dedup]
  exact List.mem_map.mpr ⟨r, hr, e⟩

theorem sum_fibre_restrict {M : Type} [AddCommMonoid M] (φ : α → M) (hφ : φ 0 = 0)
    (f : κ → κ') (s t : Tab κ α) (h : ∀ x, fibreSum f s x = fibreSum f t x) :
    ((vals (pushforward f s)).map φ).sum
      = (((dedup (s.map (fun r => f r.1))).filter
          (fun x => decide (x ∈ dedup (t.map (fun r => f r.1))))).map
            (fun x => φ (fibreSum f s x))).sum := by
  rw [vals_pushforward_eq, List.map_map, sum_map_filter_of_zero]
  · rfl
  · intro x _ hx
    have hx' : x ∉ dedup (t.map (fun r => f r.1)) := by simpa using hx
    rw [h x, fibreSum_of_not_mem f t x hx', hφ]

/-- **Equal fibre sums.** If two tables have the same fibre sums along `f` (at every key), then
any sum `Σ φ(value)` over their marginals with `φ 0 = 0` agrees: the marginals differ only in
the order of the rows and in rows of value zero. -/
theorem sum_vals_pushforward_of_fibre {M : Type} [AddCommMonoid M] (φ : α → M) (hφ : φ 0 = 0)
    (f : κ → κ') (s t : Tab κ α) (h : ∀ x, fibreSum f s x = fibreSum f t x) :
    ((vals (pushforward f s)).map φ).sum = ((vals (pushforward f t)).map φ).sum := by
  rw [sum_fibre_restrict φ hφ f s t h, sum_fibre_restrict φ hφ f t s (fun x => (h x).symm)]
  have e : (fun x => φ (fibreSum f s x)) = fun x => φ (fibreSum f t x) := by
    funext x; rw [h x]
  rw [e]
  apply List.Perm.sum_eq
  apply List.Perm.map
  rw [List.perm_ext_iff_of_nodup ((nodup_dedup _).filter _) ((nodup_dedup _).filter _)]
  intro a
  simp only [List.mem_filter, decide_eq_true_eq]
  exact And.comm

end Push

/-! ## Zero rows -/

section ZeroRows
variable {κ κ' α : Type} [DecidableEq κ'] [AddCommMonoid α]

theorem fibreSum_of_vals_zero (f : κ → κ') (zs : Tab κ α) (hz : ∀ r ∈ zs, r.2 = 0) (x : κ') :
    fibreSum f zs x = 0 := by
  unfold fibreSum
  apply List.sum_eq_zero
  intro v hv
  obtain ⟨r, hr, rfl⟩ := List.mem_map.mp hv
  exact hz r (List.mem_filter.mp hr).1

/-- Appending rows of value zero changes no fibre sum. -/
theorem fibreSum_append_zero (f : κ → κ') (t zs : Tab κ α) (hz : ∀ r ∈ zs, r.2 = 0) (x : κ') :
    fibreSum f (t ++ zs) x = fibreSum f t x := by
  rw [fibreSum_append, fibreSum_of_vals_zero f zs hz, add_zero]

/-- Dropping rows of value zero changes no fibre sum. -/
theorem fibreSum_filter_of_zero (f : κ → κ') (q : κ × α → Bool) (t : Tab κ α)
    (h : ∀ r ∈ t, q r = false → r.2 = 0) (x : κ') :
    fibreSum f (t.filter q) x = fibreSum f t x := by
  unfold fibreSum
  rw [List.filter_filter]
  have e : (t.filter (fun a => (decide (f a.1 = x)) && q a))
      = (t.filter (fun r => decide (f r.1 = x))).filter q := by
    rw [List.filter_filter]
    apply List.filter_congr
    intro a _
    exact Bool.and_comm _ _
  rw [e, sum_map_filter_of_zero]
  intro r hr hq
  exact h r (List.mem_filter.mp hr).1 hq

/-- **Zero padding, explicitly.** The marginal of a table with appended zero rows is the old
marginal followed by one zero per new image: an existing image gets `0` added, a new image gets a
row of value `0`. -/
theorem vals_pushforward_append_zero (f : κ → κ') (t zs : Tab κ α) (hz : ∀ r ∈ zs, r.2 = 0) :
    vals (pushforward f (t ++ zs))
      = vals (pushforward f t)
        ++ ((dedup (zs.map (fun r => f r.1))).filter
            (fun x => decide (x ∉ t.map (fun r => f r.1)))).map (fun _ => 0) := by
  rw [vals_pushforward_eq, vals_pushforward_eq, List.map_append, Lemmas.Diverge.dedup_append,
    List.map_append]
  congr 1
  · apply List.map_congr_left
    intro x _
    exact fibreSum_append_zero f t zs hz x
  · apply List.map_congr_left
    intro x hx
    have hx' : x ∉ t.map (fun r => f r.1) := by simpa using (List.mem_filter.mp hx).2
    rw [fibreSum_append_zero f t zs hz x]
    apply fibreSum_eq_zero
    intro r hr e
    exact hx' (List.mem_map.mpr ⟨r, hr, e⟩)

theorem padZeros_eq_append {σ : Type} [DecidableEq σ] (extra : List (List σ))
    (t : Tab (List σ) α) :
    ∃ zs : Tab (List σ) α, padZeros extra t = t ++ zs ∧ (∀ r ∈ zs, r.2 = 0)
      ∧ ∀ r ∈ zs, r.1 ∉ keys t := by
  refine ⟨_, rfl, ?_, ?_⟩
  · intro r hr
    obtain ⟨o, _, rfl⟩ := List.mem_map.mp hr
    rfl
  · intro r hr
    obtain ⟨o, ho, rfl⟩ := List.mem_map.mp hr
    simpa using (List.mem_filter.mp ho).2

end ZeroRows

/-! ## Permuting the variables -/

section PermVars
variable {σ : Type}

theorem getElem?_newIndex (π : List Nat) (x : Nat) :
    π[newIndex π x]? = if x ∈ π then some x else none := by
  unfold newIndex
  cases h : indexOf? π x with
  | none =>
    have : x ∉ π := indexOf?_eq_none_iff.mp h
    simp [this]
  | some i =>
    have h1 := (indexOf?_eq_some h).1
    have : x ∈ π := List.mem_of_getElem? h1
    simpa [this] using h1

theorem filterMap_newIndex (π X : List Nat) :
    (X.map (newIndex π)).filterMap (fun j => π[j]?) = X.filter (fun x => decide (x ∈ π)) := by
  induction X with
  | nil => rfl
  | cons x X ih =>
    rw [List.map_cons, List.filterMap_cons, getElem?_newIndex, List.filter_cons]
    by_cases hx : x ∈ π
    · simp only [hx, if_true, decide_true, ih]
    · simp only [hx, if_false, decide_false, Bool.false_eq_true, ih]

/-- Out-of-range indices outside `π` are dropped anyway. -/
theorem project_filter_mem (π X : List Nat) (o : List σ)
    (h : ∀ x ∈ X, x ∉ π → o.length ≤ x) :
    project (X.filter (fun x => decide (x ∈ π))) o = project X o := by
  induction X with
  | nil => rfl
  | cons x X ih =>
    have ih' := ih (fun y hy => h y (List.mem_cons_of_mem _ hy))
    rw [List.filter_cons]
    by_cases hx : x ∈ π
    · simp only [hx, decide_true, if_true, Table.project_cons, ih']
    · simp only [hx, decide_false, Bool.false_eq_true, if_false, Table.project_cons, ih',
        List.getElem?_eq_none (h x (by simp) hx)]

/-- **Permuting the variables together with the arguments.** After rearranging an outcome by
`π` (valid indices), the components `X` are found at the positions `X.map (newIndex π)`. -/
theorem project_permuteOutcome (π X : List Nat) (o : List σ) (hπ : ∀ i ∈ π, i < o.length)
    (hX : ∀ x ∈ X, x ∈ π ∨ o.length ≤ x) :
    project (X.map (newIndex π)) (permuteOutcome π o) = project X o := by
  unfold permuteOutcome
  rw [project_project hπ, filterMap_newIndex]
  exact project_filter_mem π X o (fun x hx hn => (hX x hx).resolve_left hn)

variable {α : Type} [DecidableEq σ] [AddCommMonoid α]

/-- The marginal of the rearranged table on the renamed indices is the marginal of the original
table: the very same table of rows. -/
theorem pushforward_permuteTab (π X : List Nat) (n : Nat) (t : Tab (List σ) α)
    (hlen : ∀ r ∈ t, r.1.length = n) (hπ : ∀ i ∈ π, i < n) (hX : ∀ x ∈ X, x ∈ π ∨ n ≤ x) :
    pushforward (project (X.map (newIndex π))) (permuteTab π t) = pushforward (project X) t := by
  unfold permuteTab
  rw [pushforward_map_key]
  apply pushforward_congr
  intro r hr
  have hl := hlen r hr
  exact project_permuteOutcome π X r.1 (fun i hi => hl ▸ hπ i hi) (fun x hx => hl ▸ hX x hx)

theorem perm_range_valid {π : List Nat} {n : Nat} (h : π.Perm (List.range n)) :
    (∀ i ∈ π, i < n) ∧ ∀ x, x ∈ π ∨ n ≤ x := by
  refine ⟨fun i hi => List.mem_range.mp (h.mem_iff.mp hi), fun x => ?_⟩
  rcases Nat.lt_or_ge x n with hx | hx
  · exact Or.inl (h.mem_iff.mpr (List.mem_range.mpr hx))
  · exact Or.inr hx

end PermVars

/-! ## Marginal of a relabelled table -/

section RelabelPush
variable {α σ τ : Type} [AddCommMonoid α] [DecidableEq σ] [DecidableEq τ]

/-- Marginal of the relabelled table: same values in the same order. -/
theorem vals_pushforward_relabel (ρ : Nat → σ → τ) (hρ : ∀ i, Function.Injective (ρ i))
    (t : Tab (List σ) α) (X : List Nat) :
    vals (pushforward (project X) (relabelTab ρ t)) = vals (pushforward (project X) t) := by
  unfold relabelTab
  rw [pushforward_map_key]
  apply vals_pushforward_of_equiv
  intro r _ r' _
  exact relabel_project_inj ρ hρ X r.1 r'.1

theorem vals_pushforward_relabel_on (ρ : Nat → σ → τ) (t : Tab (List σ) α) (X : List Nat)
    (hρ : ∀ i ∈ X, ∀ r ∈ t, ∀ r' ∈ t, ∀ s s',
      r.1[i]? = some s → r'.1[i]? = some s' → ρ i s = ρ i s' → s = s') :
    vals (pushforward (project X) (relabelTab ρ t)) = vals (pushforward (project X) t) := by
  unfold relabelTab
  rw [pushforward_map_key]
  apply vals_pushforward_of_equiv
  intro r hr r' hr'
  exact relabel_project_inj_on ρ X r.1 r'.1 (fun i hi => hρ i hi r hr r' hr')

end RelabelPush

/-! ## Entropy of a marginal under the four transformations -/

section Entropy
variable {α : Type} [Ring α] [DecidableEq α]

theorem entropyVals_eq_neg_sum (log : α → α) (ps : List α) :
    entropyVals log ps = -(ps.map (plogp log)).sum := by
  unfold entropyVals
  rw [Table.lsum_eq_sum]

theorem plogp_zero (log : α → α) : plogp log (0 : α) = 0 := by
  simp [plogp]

/-- The entropy of a list of values does not depend on their order (any ring, any `log`). -/
theorem entropyVals_perm (log : α → α) {ps qs : List α} (h : ps.Perm qs) :
    entropyVals log ps = entropyVals log qs := by
  rw [entropyVals_eq_neg_sum, entropyVals_eq_neg_sum, (h.map _).sum_eq]

/-- Zero values contribute nothing to the entropy (any ring, any `log`). -/
theorem entropyVals_append_zeros (log : α → α) (ps zs : List α) (hz : ∀ z ∈ zs, z = 0) :
    entropyVals log (ps ++ zs) = entropyVals log ps := by
  rw [entropyVals_eq_neg_sum, entropyVals_eq_neg_sum, List.map_append, List.sum_append]
  have : (zs.map (plogp log)).sum = 0 := by
    apply List.sum_eq_zero
    intro v hv
    obtain ⟨z, hz', rfl⟩ := List.mem_map.mp hv
    rw [hz z hz', plogp_zero]
  rw [this, add_zero]

variable {σ τ : Type} [DecidableEq σ] [DecidableEq τ]

theorem entropyOf_def (log : α → α) (t : Tab (List σ) α) (X : List Nat) :
    entropyOf log t X = entropyVals log (vals (pushforward (project X) t)) := rfl

theorem entropyOf_relabel (log : α → α) (ρ : Nat → σ → τ) (hρ : ∀ i, Function.Injective (ρ i))
    (t : Tab (List σ) α) (X : List Nat) :
    entropyOf log (relabelTab ρ t) X = entropyOf log t X := by
  rw [entropyOf_def, entropyOf_def, vals_pushforward_relabel ρ hρ]

theorem entropyOf_relabel_on (log : α → α) (ρ : Nat → σ → τ) (t : Tab (List σ) α) (X : List Nat)
    (hρ : ∀ i ∈ X, ∀ r ∈ t, ∀ r' ∈ t, ∀ s s',
      r.1[i]? = some s → r'.1[i]? = some s' → ρ i s = ρ i s' → s = s') :
    entropyOf log (relabelTab ρ t) X = entropyOf log t X := by
  rw [entropyOf_def, entropyOf_def, vals_pushforward_relabel_on ρ t X hρ]

theorem entropyOf_perm_rows (log : α → α) {t t' : Tab (List σ) α} (h : t'.Perm t)
    (X : List Nat) : entropyOf log t' X = entropyOf log t X :=
  entropyVals_perm log (vals_pushforward_perm (project X) h)

/-- Tables with equal fibre sums on `X` have the same entropy on `X`. -/
theorem entropyOf_of_fibre (log : α → α) (s t : Tab (List σ) α) (X : List Nat)
    (h : ∀ x, fibreSum (project X) s x = fibreSum (project X) t x) :
    entropyOf log s X = entropyOf log t X := by
  rw [entropyOf_def, entropyOf_def, entropyVals_eq_neg_sum, entropyVals_eq_neg_sum,
    sum_vals_pushforward_of_fibre (plogp log) (plogp_zero log) (project X) s t h]

theorem entropyOf_append_zero (log : α → α) (t zs : Tab (List σ) α) (hz : ∀ r ∈ zs, r.2 = 0)
    (X : List Nat) : entropyOf log (t ++ zs) X = entropyOf log t X :=
  entropyOf_of_fibre log _ _ X (fibreSum_append_zero (project X) t zs hz)

theorem entropyOf_padZeros (log : α → α) (extra : List (List σ)) (t : Tab (List σ) α)
    (X : List Nat) : entropyOf log (padZeros extra t) X = entropyOf log t X := by
  obtain ⟨zs, e, hz, _⟩ := padZeros_eq_append extra t
  rw [e]
  exact entropyOf_append_zero log t zs hz X

theorem entropyOf_filter_of_zero (log : α → α) (q : List σ × α → Bool) (t : Tab (List σ) α)
    (h : ∀ r ∈ t, q r = false → r.2 = 0) (X : List Nat) :
    entropyOf log (t.filter q) X = entropyOf log t X :=
  entropyOf_of_fibre log _ _ X (fibreSum_filter_of_zero (project X) q t h)

theorem entropyOf_trim (log : α → α) (t : Tab (List σ) α) (X : List Nat) :
    entropyOf log (t.filter (fun r => decide (r.2 ≠ 0))) X = entropyOf log t X :=
  entropyOf_filter_of_zero log _ t (fun r _ hq => by simpa using hq) X

theorem entropyOf_permuteVars_gen (log : α → α) (π X : List Nat) (n : Nat) (t : Tab (List σ) α)
    (hlen : ∀ r ∈ t, r.1.length = n) (hπ : ∀ i ∈ π, i < n) (hX : ∀ x ∈ X, x ∈ π ∨ n ≤ x) :
    entropyOf log (permuteTab π t) (X.map (newIndex π)) = entropyOf log t X := by
  rw [entropyOf_def, entropyOf_def, pushforward_permuteTab π X n t hlen hπ hX]

theorem entropyOf_permuteVars (log : α → α) (π : List Nat) (n : Nat) (t : Tab (List σ) α)
    (hlen : ∀ r ∈ t, r.1.length = n) (hπ : π.Perm (List.range n)) (X : List Nat) :
    entropyOf log (permuteTab π t) (X.map (newIndex π)) = entropyOf log t X :=
  entropyOf_permuteVars_gen log π X n t hlen (perm_range_valid hπ).1
    (fun x _ => (perm_range_valid hπ).2 x)

end Entropy

/-! ## Entropy combinations -/

section Eval
variable {α : Type} [Zero α] [Add α] [Mul α]

/-- `Comb.eval` only looks at the set function on the sets occurring in the combination. -/
theorem eval_congr (cast : Rat → α) (H₁ H₂ : VSet → α) (c : Comb)
    (h : ∀ r ∈ c, H₁ r.2 = H₂ r.2) : Comb.eval cast H₁ c = Comb.eval cast H₂ c := by
  unfold Comb.eval
  congr 1
  apply List.map_congr_left
  intro r hr
  rw [h r hr]

end Eval

/-! ## Label alignment under an injective key map and under zero padding -/

section Align
variable {κ κ' α : Type} [DecidableEq κ] [DecidableEq κ'] [AddCommMonoid α]

theorem lookup?_map_inj (φ : κ → κ') (hφ : Function.Injective φ) (t : Tab κ α) (k : κ) :
    lookup? (t.map (fun r => (φ r.1, r.2))) (φ k) = lookup? t k := by
  induction t with
  | nil => rfl
  | cons r t ih =>
    rw [List.map_cons, lookup?_cons, lookup?_cons, ih]
    by_cases e : r.1 = k
    · simp [e]
    · have e' : ¬ φ r.1 = φ k := fun h => e (hφ h)
      simp [e, e']

theorem lookupD_map_inj (φ : κ → κ') (hφ : Function.Injective φ) (t : Tab κ α) (k : κ) :
    lookupD 0 (t.map (fun r => (φ r.1, r.2))) (φ k) = lookupD 0 t k := by
  unfold lookupD
  rw [lookup?_map_inj φ hφ]

/-- **Alignment along the first table is label-blind**: renaming the labels of both tables by
an injective map gives the very same list of pairs. -/
theorem alignPair_map_inj (φ : κ → κ') (hφ : Function.Injective φ) (t1 t2 : Tab κ α) :
    alignPair (t1.map (fun r => (φ r.1, r.2))) (t2.map (fun r => (φ r.1, r.2)))
      = alignPair t1 t2 := by
  unfold alignPair
  rw [List.map_map]
  apply List.map_congr_left
  intro r _
  simp only [Function.comp_apply]
  rw [lookupD_map_inj φ hφ]

theorem dedup_map_inj (φ : κ → κ') (hφ : Function.Injective φ) (l : List κ) :
    dedup (l.map φ) = (dedup l).map φ := by
  have h1 := dedup_map_eq φ l
  have h2 := dedup_map_eq (fun x : κ => x) l
  rw [List.map_id'] at h2
  rw [h1, h2, reps_congr φ (fun x : κ => x) l (fun a _ b _ => hφ.eq_iff)]
  simp

/-- **Alignment over the union of labels is label-blind** as well. -/
theorem alignUnion_map_inj (φ : κ → κ') (hφ : Function.Injective φ) (t1 t2 : Tab κ α) :
    alignUnion (t1.map (fun r => (φ r.1, r.2))) (t2.map (fun r => (φ r.1, r.2)))
      = alignUnion t1 t2 := by
  unfold alignUnion
  have hk : ∀ t : Tab κ α, keys (t.map (fun r => (φ r.1, r.2))) = (keys t).map φ := by
    intro t; simp [keys, Function.comp_def]
  rw [hk, hk, ← List.map_append, dedup_map_inj φ hφ, List.map_map]
  apply List.map_congr_left
  intro k _
  simp only [Function.comp_apply]
  rw [lookupD_map_inj φ hφ, lookupD_map_inj φ hφ]

theorem lookupD_of_vals_zero (zs : Tab κ α) (hz : ∀ r ∈ zs, r.2 = 0) (k : κ) :
    lookupD 0 zs k = 0 := by
  induction zs with
  | nil => rfl
  | cons r zs ih =>
    unfold lookupD at ih ⊢
    rw [lookup?_cons]
    by_cases e : r.1 = k
    · simp [e, hz r (by simp)]
    · simp only [e, if_false]
      exact ih (fun x hx => hz x (List.mem_cons_of_mem _ hx))

/-- Appended rows of value zero are invisible to `lookupD 0`. -/
theorem lookupD_append_zero (t zs : Tab κ α) (hz : ∀ r ∈ zs, r.2 = 0) (k : κ) :
    lookupD 0 (t ++ zs) k = lookupD 0 t k := by
  induction t with
  | nil => rw [List.nil_append, lookupD_of_vals_zero zs hz]; rfl
  | cons r t ih =>
    unfold lookupD at ih ⊢
    rw [List.cons_append, lookup?_cons, lookup?_cons]
    by_cases e : r.1 = k
    · simp [e]
    · simp only [e, if_false]
      exact ih

theorem alignPair_append_zero_right (t1 t2 zs : Tab κ α) (hz : ∀ r ∈ zs, r.2 = 0) :
    alignPair t1 (t2 ++ zs) = alignPair t1 t2 := by
  unfold alignPair
  apply List.map_congr_left
  intro r _
  rw [lookupD_append_zero t2 zs hz]

theorem alignPair_append_left (t1 zs t2 : Tab κ α) :
    alignPair (t1 ++ zs) t2 = alignPair t1 t2 ++ alignPair zs t2 := by
  simp [alignPair]

theorem alignPair_zero_left (zs t2 : Tab κ α) (hz : ∀ r ∈ zs, r.2 = 0) :
    ∀ p ∈ alignPair zs t2, p.1 = 0 := by
  intro p hp
  obtain ⟨r, hr, rfl⟩ := List.mem_map.mp hp
  exact hz r hr

/-- **Union alignment under zero padding**: the padded tables give the old pairs, possibly in
another order (new labels of the first table come before the old labels of the second), plus
pairs `(0, 0)` for the labels that only the padding has. -/
theorem alignUnion_append_zero_perm (t1 z1 t2 z2 : Tab κ α) (hz1 : ∀ r ∈ z1, r.2 = 0)
    (hz2 : ∀ r ∈ z2, r.2 = 0) :
    ∃ zs : List (α × α), (∀ p ∈ zs, p = (0, 0))
      ∧ (alignUnion (t1 ++ z1) (t2 ++ z2)).Perm (alignUnion t1 t2 ++ zs) := by
  let D := dedup (keys t1 ++ keys t2)
  let D' := dedup (keys (t1 ++ z1) ++ keys (t2 ++ z2))
  let P : κ → α × α := fun k => (lookupD 0 t1 k, lookupD 0 t2 k)
  have hP : (fun k => (lookupD 0 (t1 ++ z1) k, lookupD 0 (t2 ++ z2) k)) = P := by
    funext k
    rw [lookupD_append_zero t1 z1 hz1, lookupD_append_zero t2 z2 hz2]
  have hsub : ∀ a, a ∈ D → a ∈ D' := by
    intro a ha
    simp only [D, D', Table.mem_dedup, keys_append, List.mem_append] at ha ⊢
    rcases ha with h | h
    · exact Or.inl (Or.inl h)
    · exact Or.inr (Or.inl h)
  have hperm : D'.Perm (D ++ D'.filter (fun a => decide (a ∉ D))) := by
    rw [List.perm_ext_iff_of_nodup (nodup_dedup _)]
    · intro a
      simp only [List.mem_append, List.mem_filter, decide_eq_true_eq]
      constructor
      · intro h
        by_cases ha : a ∈ D
        · exact Or.inl ha
        · exact Or.inr ⟨h, ha⟩
      · rintro (h | h)
        · exact hsub a h
        · exact h.1
    · refine List.nodup_append.mpr ⟨nodup_dedup _, (nodup_dedup _).filter _, ?_⟩
      intro a ha b hb e
      subst e
      have := (List.mem_filter.mp hb).2
      simp only [decide_eq_true_eq] at this
      exact this ha
  refine ⟨(D'.filter (fun a => decide (a ∉ D))).map P, ?_, ?_⟩
  · intro p hp
    obtain ⟨k, hk, rfl⟩ := List.mem_map.mp hp
    have hk' : k ∉ D := by simpa using (List.mem_filter.mp hk).2
    simp only [D, Table.mem_dedup, List.mem_append, not_or] at hk'
    simp only [P]
    rw [lookupD_of_not_mem 0 hk'.1, lookupD_of_not_mem 0 hk'.2]
  · show (D'.map _).Perm (D.map _ ++ _)
    rw [hP, ← List.map_append]
    exact hperm.map P

/-- Any sum `Σ g(p, q)` over the union alignment with `g (0, 0) = 0` is unchanged by zero
padding of both tables. -/
theorem sum_alignUnion_append_zero {M : Type} [AddCommMonoid M] (g : α × α → M)
    (hg : g (0, 0) = 0) (t1 z1 t2 z2 : Tab κ α) (hz1 : ∀ r ∈ z1, r.2 = 0)
    (hz2 : ∀ r ∈ z2, r.2 = 0) :
    ((alignUnion (t1 ++ z1) (t2 ++ z2)).map g).sum = ((alignUnion t1 t2).map g).sum := by
  obtain ⟨zs, hzs, hp⟩ := alignUnion_append_zero_perm t1 z1 t2 z2 hz1 hz2
  rw [(hp.map g).sum_eq, List.map_append, List.sum_append]
  have : (zs.map g).sum = 0 := by
    apply List.sum_eq_zero
    intro v hv
    obtain ⟨p, hp', rfl⟩ := List.mem_map.mp hv
    rw [hzs p hp', hg]
  rw [this, add_zero]

end Align

/-! ## Reordering the groups -/

section Groups
variable {β M : Type} [AddCommMonoid M]

theorem vunions_perm {l l' : List VSet} (h : l.Perm l') : vunions l = vunions l' := by
  unfold vunions
  apply Lemmas.InfoAlg.vnorm_congr
  intro x
  simp only [List.mem_flatten]
  exact ⟨fun ⟨g, hg, hx⟩ => ⟨g, h.mem_iff.mp hg, hx⟩, fun ⟨g, hg, hx⟩ => ⟨g, h.mem_iff.mpr hg, hx⟩⟩

/-- A sum over all sublists of a function that ignores the order inside a sublist does not depend
on the order of the list. -/
theorem sum_sublists_perm {l l' : List β} (h : l.Perm l') :
    ∀ F : List β → M, (∀ a b, a.Perm b → F a = F b) →
      ((sublists l).map F).sum = ((sublists l').map F).sum := by
  induction h with
  | nil => intro F _; rfl
  | cons x _ ih =>
    intro F hF
    simp only [sublists, List.map_append, List.sum_append, List.map_map]
    rw [ih F hF, ih (F ∘ fun s => x :: s) (fun a b hab => hF _ _ (hab.cons x))]
  | swap x y l =>
    intro F hF
    simp only [sublists, List.map_append, List.sum_append, List.map_map]
    have e : ((sublists l).map (F ∘ (fun s => y :: s) ∘ fun s => x :: s)).sum
        = ((sublists l).map (F ∘ (fun s => x :: s) ∘ fun s => y :: s)).sum := by
      congr 1
      apply List.map_congr_left
      intro s _
      exact hF _ _ (List.Perm.swap x y s)
    rw [e]
    abel
  | trans _ _ ih1 ih2 => intro F hF; rw [ih1 F hF, ih2 F hF]

/-- The same for the `k`-element sublists. -/
theorem sum_combos_perm {l l' : List β} (h : l.Perm l') :
    ∀ (k : Nat) (F : List β → M), (∀ a b, a.Perm b → F a = F b) →
      ((combos k l).map F).sum = ((combos k l').map F).sum := by
  induction h with
  | nil => intro k F _; rfl
  | cons x _ ih =>
    intro k F hF
    cases k with
    | zero => rfl
    | succ k =>
      simp only [combos, List.map_append, List.sum_append, List.map_map]
      rw [ih k (F ∘ fun s => x :: s) (fun a b hab => hF _ _ (hab.cons x)), ih (k + 1) F hF]
  | swap x y l =>
    intro k F hF
    rcases k with _ | _ | k
    · rfl
    · simp only [combos, List.map_append, List.sum_append, List.map_cons,
        List.map_nil, List.sum_cons, List.sum_nil]
      abel
    · simp only [combos, List.map_append, List.sum_append, List.map_map]
      have e : ((combos k l).map (F ∘ (fun s => y :: s) ∘ fun s => x :: s)).sum
          = ((combos k l).map (F ∘ (fun s => x :: s) ∘ fun s => y :: s)).sum := by
        congr 1
        apply List.map_congr_left
        intro s _
        exact hF _ _ (List.Perm.swap x y s)
      rw [e]
      abel
  | trans _ _ ih1 ih2 => intro k F hF; rw [ih1 k F hF, ih2 k F hF]

end Groups

/-! ## Set partitions of a reordered list (for the CAEKL candidates) -/

section Partitions
variable {β N : Type} [AddCommMonoid N]

/-- Sum of `F` over the results of applying `g` to one block of `p` (all positions). -/
def modSum (g : List β → List β) : (List (List β) → N) → List (List β) → N
  | _, [] => 0
  | F, b :: p => F (g b :: p) + modSum g (fun q => F (b :: q)) p

theorem modSum_eq (g : List β → List β) (F : List (List β) → N) (p : List (List β)) :
    ((List.range p.length).map (fun i => F (p.modify i g))).sum = modSum g F p := by
  induction p generalizing F with
  | nil => rfl
  | cons b p ih =>
    rw [List.length_cons, List.range_succ_eq_map, List.map_cons, List.sum_cons, List.map_map]
    show F (g b :: p) + _ = F (g b :: p) + modSum g (fun q => F (b :: q)) p
    rw [← ih]
    rfl

theorem modSum_congr (g : List β → List β) (F F' : List (List β) → N) (p : List (List β))
    (h : ∀ q, F q = F' q) : modSum g F p = modSum g F' p := by
  have : F = F' := funext h
  rw [this]

theorem modSum_add (g : List β → List β) (F F' : List (List β) → N) (p : List (List β)) :
    modSum g (fun q => F q + F' q) p = modSum g F p + modSum g F' p := by
  induction p generalizing F F' with
  | nil => simp [modSum]
  | cons b p ih =>
    simp only [modSum]
    rw [ih]
    abel

/-- Invariance of a function of partitions under the order of the blocks. -/
def InvBlocks (F : List (List β) → N) : Prop := ∀ p q : List (List β), p.Perm q → F p = F q
/-- Invariance of a function of partitions under the order inside the blocks. -/
def InvInner (F : List (List β) → N) : Prop :=
  ∀ p q : List (List β), List.Forall₂ List.Perm p q → F p = F q

theorem forall₂_perm_refl (p : List (List β)) : List.Forall₂ List.Perm p p :=
  List.forall₂_same.mpr (fun _ _ => List.Perm.refl _)

theorem InvBlocks.cons {F : List (List β) → N} (h : InvBlocks F) (b : List β) :
    InvBlocks (fun q => F (b :: q)) := fun _ _ hpq => h _ _ (hpq.cons b)

theorem InvInner.cons {F : List (List β) → N} (h : InvInner F) (b : List β) :
    InvInner (fun q => F (b :: q)) :=
  fun _ _ hpq => h _ _ (List.Forall₂.cons (List.Perm.refl b) hpq)

theorem modSum_perm (g : List β → List β) {p p' : List (List β)} (h : p.Perm p') :
    ∀ F : List (List β) → N, InvBlocks F → modSum g F p = modSum g F p' := by
  induction h with
  | nil => intro F _; rfl
  | cons b h ih =>
    intro F hF
    simp only [modSum]
    rw [hF _ _ (h.cons (g b)), ih _ (hF.cons b)]
  | swap a b p =>
    intro F hF
    simp only [modSum]
    rw [hF (g b :: a :: p) (a :: g b :: p) (List.Perm.swap _ _ _),
      hF (b :: g a :: p) (g a :: b :: p) (List.Perm.swap _ _ _),
      modSum_congr g (fun q => F (b :: a :: q)) (fun q => F (a :: b :: q)) p
        (fun q => hF _ _ (List.Perm.swap _ _ _))]
    abel
  | trans _ _ ih1 ih2 => intro F hF; rw [ih1 F hF, ih2 F hF]

theorem modSum_inner (x : β) {p p' : List (List β)} (h : List.Forall₂ List.Perm p p') :
    ∀ F : List (List β) → N, InvInner F →
      modSum (fun b => x :: b) F p = modSum (fun b => x :: b) F p' := by
  induction h with
  | nil => intro F _; rfl
  | cons hab hrest ih =>
    intro F hF
    rename_i a b p p'
    simp only [modSum]
    rw [hF _ _ (List.Forall₂.cons (hab.cons x) hrest), ih _ (hF.cons a)]
    congr 1
    apply modSum_congr
    intro q
    exact hF _ _ (List.Forall₂.cons hab (forall₂_perm_refl q))

/-- Sum of `F` over all ways of adding `x` to the partition `p`. -/
def insSum (x : β) (F : List (List β) → N) (p : List (List β)) : N :=
  F ([x] :: p) + modSum (fun b => x :: b) F p

theorem insSum_invBlocks (x : β) {F : List (List β) → N} (h : InvBlocks F) :
    InvBlocks (insSum x F) := by
  intro p q hpq
  unfold insSum
  rw [h _ _ (hpq.cons [x]), modSum_perm _ hpq F h]

theorem insSum_invInner (x : β) {F : List (List β) → N} (h : InvInner F) :
    InvInner (insSum x F) := by
  intro p q hpq
  unfold insSum
  rw [h _ _ (List.Forall₂.cons (List.Perm.refl _) hpq), modSum_inner x hpq F h]

theorem sum_setPartitions_cons (x : β) (l : List β) (F : List (List β) → N) :
    ((setPartitions (x :: l)).map F).sum = ((setPartitions l).map (insSum x F)).sum := by
  show (((setPartitions l).flatMap _).map F).sum = _
  induction setPartitions l with
  | nil => rfl
  | cons p ps ih =>
    rw [List.flatMap_cons, List.map_append, List.sum_append, ih, List.map_cons, List.sum_cons,
      List.map_cons, List.sum_cons, List.map_map]
    congr 1
    unfold insSum
    rw [← modSum_eq]
    rfl

/-- Adding `x` to one block and `y` to one block commute. -/
theorem modSum_modSum_comm (x y : β) (p : List (List β)) :
    ∀ F : List (List β) → N, InvInner F →
      modSum (fun b => x :: b) (fun q => modSum (fun b => y :: b) F q) p
        = modSum (fun b => y :: b) (fun q => modSum (fun b => x :: b) F q) p := by
  induction p with
  | nil => intro F _; rfl
  | cons b p ih =>
    intro F hF
    simp only [modSum]
    rw [modSum_add, modSum_add, ih _ (hF.cons b),
      hF ((y :: x :: b) :: p) ((x :: y :: b) :: p)
        (List.Forall₂.cons (List.Perm.swap _ _ _) (forall₂_perm_refl p))]
    abel

theorem insSum_comm (x y : β) (p : List (List β)) (F : List (List β) → N)
    (h1 : InvBlocks F) (h2 : InvInner F) :
    insSum x (insSum y F) p = insSum y (insSum x F) p := by
  unfold insSum
  simp only [modSum]
  rw [modSum_add, modSum_add, modSum_modSum_comm x y p F h2,
    h1 ([y] :: [x] :: p) ([x] :: [y] :: p) (List.Perm.swap _ _ _),
    h2 ([y, x] :: p) ([x, y] :: p)
      (List.Forall₂.cons (List.Perm.swap _ _ _) (forall₂_perm_refl p))]
  abel

/-- **Set partitions of a reordered list.** A sum over all set partitions of a function that
ignores the order of the blocks and the order inside the blocks does not depend on the order of
the list. -/
theorem sum_setPartitions_perm {l l' : List β} (h : l.Perm l') :
    ∀ F : List (List β) → N, InvBlocks F → InvInner F →
      ((setPartitions l).map F).sum = ((setPartitions l').map F).sum := by
  induction h with
  | nil => intro F _ _; rfl
  | cons x _ ih =>
    intro F h1 h2
    rw [sum_setPartitions_cons, sum_setPartitions_cons,
      ih _ (insSum_invBlocks x h1) (insSum_invInner x h2)]
  | swap x y l =>
    intro F h1 h2
    rw [sum_setPartitions_cons, sum_setPartitions_cons, sum_setPartitions_cons,
      sum_setPartitions_cons]
    congr 1
    apply List.map_congr_left
    intro p _
    exact insSum_comm x y p F h1 h2
  | trans _ _ ih1 ih2 => intro F h1 h2; rw [ih1 F h1 h2, ih2 F h1 h2]

/-- Multiset form: the values of `v` on the set partitions satisfying `q`. -/
theorem map_filter_setPartitions_perm {R : Type} {l l' : List β} (h : l.Perm l')
    (q : List (List β) → Bool) (v : List (List β) → R)
    (hq1 : ∀ p p' : List (List β), p.Perm p' → q p = q p')
    (hq2 : ∀ p p' : List (List β), List.Forall₂ List.Perm p p' → q p = q p')
    (hv1 : ∀ p p' : List (List β), p.Perm p' → v p = v p')
    (hv2 : ∀ p p' : List (List β), List.Forall₂ List.Perm p p' → v p = v p') :
    (((setPartitions l).filter q).map v).Perm (((setPartitions l').filter q).map v) := by
  have key : ∀ L : List (List (List β)),
      (L.map (fun p => if q p = true then ({v p} : Multiset R) else 0)).sum
        = ((L.filter q).map v : List R) := by
    intro L
    induction L with
    | nil => rfl
    | cons p L ih =>
      rw [List.map_cons, List.sum_cons, ih, List.filter_cons]
      by_cases hp : q p = true
      · rw [if_pos hp, if_pos hp, List.map_cons]
        rfl
      · rw [if_neg hp, if_neg hp, zero_add]
  have := sum_setPartitions_perm h (fun p => if q p = true then ({v p} : Multiset R) else 0)
    (fun p p' hp => by simp only [hq1 p p' hp, hv1 p p' hp])
    (fun p p' hp => by simp only [hq2 p p' hp, hv2 p p' hp])
  rw [key, key] at this
  exact Multiset.coe_eq_coe.mp this

end Partitions

theorem map_eq_of_forall₂ {β γ : Type} {R : β → β → Prop} (f : β → γ)
    (hR : ∀ a b, R a b → f a = f b) {p p' : List β} (h : List.Forall₂ R p p') :
    p.map f = p'.map f := by
  induction h with
  | nil => rfl
  | cons hab _ ih => rw [List.map_cons, List.map_cons, hR _ _ hab, ih]

/-! ## Key maps that are injective on the stored keys only; trimming -/

section AlignOn
variable {κ κ' α : Type} [DecidableEq κ] [DecidableEq κ'] [AddCommMonoid α]

theorem lookup?_map_injOn (φ : κ → κ') (t : Tab κ α) (k : κ)
    (hφ : ∀ a ∈ keys t, φ a = φ k → a = k) :
    lookup? (t.map (fun r => (φ r.1, r.2))) (φ k) = lookup? t k := by
  induction t with
  | nil => rfl
  | cons r t ih =>
    rw [List.map_cons, lookup?_cons, lookup?_cons,
      ih (fun a ha => hφ a (List.mem_cons_of_mem _ ha))]
    by_cases e : r.1 = k
    · simp [e]
    · have e' : ¬ φ r.1 = φ k := fun h => e (hφ r.1 (by simp) h)
      simp [e, e']

theorem alignPair_map_injOn (φ : κ → κ') (t1 t2 : Tab κ α)
    (hφ : ∀ a ∈ keys t2, ∀ b ∈ keys t1, φ a = φ b → a = b) :
    alignPair (t1.map (fun r => (φ r.1, r.2))) (t2.map (fun r => (φ r.1, r.2)))
      = alignPair t1 t2 := by
  unfold alignPair
  rw [List.map_map]
  apply List.map_congr_left
  intro r hr
  simp only [Function.comp_apply]
  unfold lookupD
  rw [lookup?_map_injOn φ t2 r.1 (fun a ha => hφ a ha r.1 (mem_keys_of_mem hr))]

theorem alignUnion_map_injOn (φ : κ → κ') (t1 t2 : Tab κ α)
    (hφ : ∀ a ∈ keys t1 ++ keys t2, ∀ b ∈ keys t1 ++ keys t2, φ a = φ b → a = b) :
    alignUnion (t1.map (fun r => (φ r.1, r.2))) (t2.map (fun r => (φ r.1, r.2)))
      = alignUnion t1 t2 := by
  unfold alignUnion
  have hk : ∀ t : Tab κ α, keys (t.map (fun r => (φ r.1, r.2))) = (keys t).map φ := by
    intro t; simp [keys, Function.comp_def]
  have hd : dedup ((keys t1 ++ keys t2).map φ) = (dedup (keys t1 ++ keys t2)).map φ := by
    have h1 := dedup_map_eq φ (keys t1 ++ keys t2)
    have h2 := dedup_map_eq (fun x : κ => x) (keys t1 ++ keys t2)
    rw [List.map_id'] at h2
    rw [h1, h2, reps_congr φ (fun x : κ => x) _
      (fun a ha b hb => ⟨hφ a ha b hb, fun e => by rw [e]⟩)]
    simp
  rw [hk, hk, ← List.map_append, hd, List.map_map]
  apply List.map_congr_left
  intro k hk'
  have hk'' : k ∈ keys t1 ++ keys t2 := Table.mem_dedup.mp hk'
  simp only [Function.comp_apply]
  unfold lookupD
  rw [lookup?_map_injOn φ t1 k (fun a ha => hφ a (List.mem_append_left _ ha) k hk''),
    lookup?_map_injOn φ t2 k (fun a ha => hφ a (List.mem_append_right _ ha) k hk'')]

/-- Rearranging the variables by a permutation is injective on outcomes of the right length. -/
theorem permuteOutcome_inj {σ : Type} {π : List Nat} {n : Nat} (hπ : π.Perm (List.range n))
    {o o' : List σ} (ho : o.length = n) (ho' : o'.length = n)
    (h : permuteOutcome π o = permuteOutcome π o') : o = o' := by
  unfold permuteOutcome at h
  rw [project_eq_iff] at h
  apply List.ext_getElem?
  intro i
  by_cases hi : i < n
  · exact h i (hπ.mem_iff.mpr (List.mem_range.mpr hi))
  · rw [List.getElem?_eq_none (by omega), List.getElem?_eq_none (by omega)]

/-- Trimming the second table (pairwise distinct keys) does not change any lookup with default
`0`. -/
theorem lookupD_trim [DecidableEq α] (t : Tab κ α) (hnd : (keys t).Nodup) (k : κ) :
    lookupD 0 (t.filter (fun r => decide (r.2 ≠ 0))) k = lookupD 0 t k := by
  rw [lookupD_filter _ hnd]
  unfold lookupD
  cases lookup? t k with
  | none => rfl
  | some v =>
    by_cases hv : v = 0
    · simp [hv]
    · simp [hv]

theorem alignPair_trim [DecidableEq α] (t1 t2 : Tab κ α) (hnd : (keys t2).Nodup) :
    alignPair (t1.filter (fun r => decide (r.2 ≠ 0))) (t2.filter (fun r => decide (r.2 ≠ 0)))
      = (alignPair t1 t2).filter (fun p => decide (p.1 ≠ 0)) := by
  unfold alignPair
  rw [List.filter_map]
  apply List.map_congr_left
  intro r _
  rw [lookupD_trim t2 hnd]

end AlignOn

/-- Pairs `(0, q)` may be dropped from KL and cross entropy. -/
theorem klVals_filter_fst (log : ℝ → ℝ) (pq : List (ℝ × ℝ)) :
    klVals log (pq.filter (fun p => decide (p.1 ≠ 0))) = klVals log pq
      ∧ crossEntropyVals log (pq.filter (fun p => decide (p.1 ≠ 0)))
          = crossEntropyVals log pq := by
  have hp := List.filter_append_perm (fun p : ℝ × ℝ => decide (p.1 ≠ 0)) pq
  have hz : ∀ r ∈ pq.filter (fun x => !decide (x.1 ≠ 0)), r.1 = 0 := by
    intro r hr
    simpa using (List.mem_filter.mp hr).2
  rw [← Lemmas.Diverge.klVals_perm log hp, ← Lemmas.Diverge.xentVals_perm log hp,
    Lemmas.Diverge.klVals_append_zero log _ _ hz, Lemmas.Diverge.xentVals_append_zero log _ _ hz]
  exact ⟨rfl, rfl⟩

end Dit.Lemmas.Transform
