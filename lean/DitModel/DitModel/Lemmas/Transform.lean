/-
Helper lemmas for C08 (invariance of the information measures under changes of representation):
relabelling of symbols, permutation of stored rows, zero padding / trimming, permutation of the
variables. Property theorems are in Props/C08.lean.
-/
import DitModel.Core.Transform
import DitModel.Lemmas.Table
import DitModel.Lemmas.InfoReal
import DitModel.Lemmas.Diverge

set_option linter.unusedSectionVars false

namespace Dit.Lemmas.Transform
open Dit Dit.Lemmas.Table
open Dit.Lemmas.InfoReal (fibreSum fibreSum_append fibreSum_eq_zero pushforward_eq project_eq_iff)
open Dit.Lemmas.InfoAlg (sum_map_filter_of_zero)

/-! ## Relabelling an outcome -/

section Relabel
variable {σ τ : Type}

theorem length_relabelOutcome (ρ : Nat → σ → τ) (o : List σ) :
    (relabelOutcome ρ o).length = o.length := by
  simp [relabelOutcome]

/-- Component `i` of the relabelled outcome is component `i` mapped by `ρ i`. -/
theorem getElem?_relabelOutcome (ρ : Nat → σ → τ) (o : List σ) (i : Nat) :
    (relabelOutcome ρ o)[i]? = (o[i]?).map (ρ i) := by
  unfold relabelOutcome
  by_cases h : i < o.length
  · simp [h]
  · simp [h]

theorem project_relabel_filterMap (ρ : Nat → σ → τ) (X : List Nat) (o : List σ) :
    project X (relabelOutcome ρ o) = X.filterMap (fun i => (o[i]?).map (ρ i)) := by
  unfold project
  apply List.filterMap_congr
  intro i _
  exact getElem?_relabelOutcome ρ o i

/-- Projection commutes with relabelling: the selected components are relabelled with the maps
of the selected positions. -/
theorem project_relabel (ρ : Nat → σ → τ) (X : List Nat) (o : List σ)
    (h : ∀ i ∈ X, i < o.length) :
    project X (relabelOutcome ρ o)
      = (List.zip X (project X o)).map (fun p => ρ p.1 p.2) := by
  induction X with
  | nil => rfl
  | cons i X ih =>
    have hi := h i (by simp)
    rw [Table.project_cons, Table.project_cons, getElem?_relabelOutcome,
      List.getElem?_eq_getElem hi]
    simp [ih (fun j hj => h j (List.mem_cons_of_mem _ hj))]

/-- With injective symbol maps, two outcomes have the same relabelled projection iff they have
the same projection (no length assumption). -/
theorem relabel_project_inj (ρ : Nat → σ → τ) (hρ : ∀ i, Function.Injective (ρ i))
    (X : List Nat) (o o' : List σ) :
    project X (relabelOutcome ρ o) = project X (relabelOutcome ρ o')
      ↔ project X o = project X o' := by
  rw [project_eq_iff, project_eq_iff]
  refine forall₂_congr (fun i _ => ?_)
  rw [getElem?_relabelOutcome, getElem?_relabelOutcome]
  exact (Option.map_injective (hρ i)).eq_iff

/-- Relabelling with injective symbol maps is injective on outcomes. -/
theorem relabelOutcome_injective (ρ : Nat → σ → τ) (hρ : ∀ i, Function.Injective (ρ i)) :
    Function.Injective (relabelOutcome ρ) := by
  intro o o' h
  apply List.ext_getElem?
  intro i
  have := congrArg (fun l => l[i]?) h
  simp only [getElem?_relabelOutcome] at this
  exact Option.map_injective (hρ i) this

end Relabel

/-! ## Representatives of the classes of a key map, and `pushforward` -/

section Reps
variable {β γ γ' : Type} [DecidableEq γ] [DecidableEq γ']

/-- First element of each `F`-class, in list order. -/
def reps (F : β → γ) : List β → List β
  | [] => []
  | x :: t => x :: (reps F t).filter (fun y => decide (F y ≠ F x))

theorem reps_sublist (F : β → γ) (l : List β) : (reps F l).Sublist l := by
  induction l with
  | nil => exact List.Sublist.slnil
  | cons x t ih => exact (List.filter_sublist.trans ih).cons_cons x

theorem mem_of_mem_reps {F : β → γ} {l : List β} {a : β} (h : a ∈ reps F l) : a ∈ l :=
  (reps_sublist F l).subset h

/-- The distinct images in order of first appearance are the images of the representatives. -/
theorem dedup_map_eq (F : β → γ) (l : List β) : dedup (l.map F) = (reps F l).map F := by
  induction l with
  | nil => rfl
  | cons x t ih =>
    show F x :: (dedup (t.map F)).filter (fun y => decide (y ≠ F x)) = _
    rw [ih, List.filter_map]
    rfl

/-- Two key maps with the same classes on `l` have the same representatives. -/
theorem reps_congr (F : β → γ) (G : β → γ') (l : List β)
    (h : ∀ a ∈ l, ∀ b ∈ l, F a = F b ↔ G a = G b) : reps F l = reps G l := by
  induction l with
  | nil => rfl
  | cons x t ih =>
    have ih' := ih (fun a ha b hb => h a (List.mem_cons_of_mem _ ha) b (List.mem_cons_of_mem _ hb))
    show x :: (reps F t).filter _ = x :: (reps G t).filter _
    rw [ih']
    congr 1
    apply List.filter_congr
    intro y hy
    have := h y (List.mem_cons_of_mem _ (mem_of_mem_reps hy)) x (by simp)
    by_cases e : F y = F x
    · simp [e, this.mp e]
    · have e' : ¬ G y = G x := fun e' => e (this.mpr e')
      simp [e, e']

end Reps

section Push
variable {κ κ' κ'' α : Type} [DecidableEq κ'] [DecidableEq κ''] [AddCommMonoid α]

/-- Mapping the keys first and pushing forward is pushing forward along the composite. -/
theorem pushforward_map_key (h : κ → κ'') (f : κ'' → κ') (t : Tab κ α) :
    pushforward f (t.map (fun r => (h r.1, r.2))) = pushforward (fun k => f (h k)) t := by
  unfold pushforward
  rw [List.foldl_map]

theorem foldl_accum_congr (f g : κ → κ') (t : Tab κ α) (h : ∀ r ∈ t, f r.1 = g r.1)
    (acc : Tab κ' α) :
    t.foldl (fun acc r => accum acc (f r.1) r.2) acc
      = t.foldl (fun acc r => accum acc (g r.1) r.2) acc := by
  induction t generalizing acc with
  | nil => rfl
  | cons r t ih =>
    rw [List.foldl_cons, List.foldl_cons, h r (by simp),
      ih (fun x hx => h x (List.mem_cons_of_mem _ hx))]

/-- `pushforward` only looks at the key map on the stored keys. -/
theorem pushforward_congr (f g : κ → κ') (t : Tab κ α) (h : ∀ r ∈ t, f r.1 = g r.1) :
    pushforward f t = pushforward g t :=
  foldl_accum_congr f g t h []

/-- Values of the marginal: fibre sums over the distinct images in order of first appearance. -/
theorem vals_pushforward_eq (f : κ → κ') (t : Tab κ α) :
    vals (pushforward f t) = (dedup (t.map (fun r => f r.1))).map (fibreSum f t) := by
  rw [pushforward_eq, vals, List.map_map]
  rfl

theorem vals_pushforward_eq_reps (f : κ → κ') (t : Tab κ α) :
    vals (pushforward f t)
      = (reps (fun r : κ × α => f r.1) t).map (fun r => fibreSum f t (f r.1)) := by
  rw [vals_pushforward_eq, dedup_map_eq, List.map_map]
  rfl

/-- **Marginals along equivalent key maps.** If two key maps (into possibly different key
types) identify the same pairs of rows of `t`, the two marginals store the same values in the
same order: first-appearance order and fibre sums coincide. -/
theorem vals_pushforward_of_equiv (f : κ → κ') (g : κ → κ'') (t : Tab κ α)
    (h : ∀ r ∈ t, ∀ r' ∈ t, f r.1 = f r'.1 ↔ g r.1 = g r'.1) :
    vals (pushforward f t) = vals (pushforward g t) := by
  rw [vals_pushforward_eq_reps, vals_pushforward_eq_reps,
    reps_congr (fun r : κ × α => f r.1) (fun r : κ × α => g r.1) t h]
  apply List.map_congr_left
  intro r hr
  have hr' := mem_of_mem_reps hr
  unfold fibreSum
  congr 2
  apply List.filter_congr
  intro r' hr''
  have := h r' hr'' r hr'
  by_cases e : f r'.1 = f r.1
  · simp [e, this.mp e]
  · have e' : ¬ g r'.1 = g r.1 := fun e' => e (this.mpr e')
    simp [e, e']

theorem fibreSum_perm (f : κ → κ') {s t : Tab κ α} (h : s.Perm t) (x : κ') :
    fibreSum f s x = fibreSum f t x :=
  ((h.filter _).map _).sum_eq

/-- **Row order.** Permuting the stored rows permutes the values of the marginal. -/
theorem vals_pushforward_perm (f : κ → κ') {s t : Tab κ α} (h : s.Perm t) :
    (vals (pushforward f s)).Perm (vals (pushforward f t)) := by
  rw [vals_pushforward_eq, vals_pushforward_eq]
  have e : fibreSum f s = fibreSum f t := funext (fibreSum_perm f h)
  rw [e]
  apply List.Perm.map
  rw [List.perm_ext_iff_of_nodup (nodup_dedup _) (nodup_dedup _)]
  intro a
  rw [Table.mem_dedup, Table.mem_dedup]
  exact (h.map _).mem_iff

theorem fibreSum_of_not_mem (f : κ → κ') (t : Tab κ α) (x : κ')
    (h : x ∉ dedup (t.map (fun r => f r.1))) : fibreSum f t x = 0 := by
  apply fibreSum_eq_zero
  intro r hr e
  apply h
  rw [Table.mem_dedup]
  exact List.mem_map.mpr ⟨r, hr, e⟩

theorem sum_fibre_restrict {M : Type} [AddCommMonoid M] (φ : α → M) (hφ : φ 0 = 0)
    (f : κ → κ') (s t : Tab κ α) (h : ∀ x, fibreSum f s x = fibreSum f t x) :
    ((vals (pushforward f s)).map φ).sum
      = (((dedup (s.map (fun r => f r.1))).filter
          (fun x => decide (x ∈ dedup (t.map (fun r => f r.1))))).map
            (fun x => φ (fibreSum f s x))).sum := by
  rw [vals_pushforward_eq, List.map_map, sum_map_filter_of_zero]
  · rfl
  · intro x _ hx
    have hx' : x ∉ dedup (t.map (fun r => f r.1)) := by simpa using hx
    rw [h x, fibreSum_of_not_mem f t x hx', hφ]

/-- **Equal fibre sums.** If two tables have the same fibre sums along `f` (at every key), then
any sum `Σ φ(value)` over their marginals with `φ 0 = 0` agrees: the marginals differ only in
the order of the rows and in rows of value zero. -/
theorem sum_vals_pushforward_of_fibre {M : Type} [AddCommMonoid M] (φ : α → M) (hφ : φ 0 = 0)
    (f : κ → κ') (s t : Tab κ α) (h : ∀ x, fibreSum f s x = fibreSum f t x) :
    ((vals (pushforward f s)).map φ).sum = ((vals (pushforward f t)).map φ).sum := by
  rw [sum_fibre_restrict φ hφ f s t h, sum_fibre_restrict φ hφ f t s (fun x => (h x).symm)]
  have e : (fun x => φ (fibreSum f s x)) = fun x => φ (fibreSum f t x) := by
    funext x; rw [h x]
  rw [e]
  apply List.Perm.sum_eq
  apply List.Perm.map
  rw [List.perm_ext_iff_of_nodup ((nodup_dedup _).filter _) ((nodup_dedup _).filter _)]
  intro a
  simp only [List.mem_filter, decide_eq_true_eq]
  exact And.comm

end Push

end Dit.Lemmas.Transform
