/-
Helper lemmas for the connected informations (`Core/Connected.lean`, property C18):

* `negDiffs` (`-np.diff`): length, entries, telescoping sums, sign for an antitone list;
* `combos` / `kWayGroups`: membership, the two extreme orders (`k = 1`: the singletons, `k = n`:
  the single group of all variables), every `k`-subset extends to a `(k+1)`-subset;
* `IsMaxentChain`: what `marginal_maxent_dists` is supposed to return, stated with the notions of
  C14 (`Feasible`, optimality among the feasible tables), and the entropies along such a chain;
* the joint entropy `entropyVals (vals t)` is `entropyOf t (range n)`, and the total correlation of
  the single variables in the notation of C05.

Property theorems are in Props/C18Conn.lean.
-/
import DitModel.Core.Connected
import DitModel.Props.C14
import DitModel.Props.C05

set_option linter.unusedSectionVars false

namespace Dit.Lemmas.Connected
open Dit Dit.Lemmas.Table Dit.Lemmas.InfoAlg Dit.Lemmas.InfoReal Dit.Lemmas.Maxent

/-! ### `negDiffs` -/

section NegDiffs
variable {α : Type} [AddCommGroup α]

@[simp] theorem negDiffs_nil : negDiffs ([] : List α) = [] := rfl
@[simp] theorem negDiffs_single (a : α) : negDiffs [a] = [] := rfl
theorem negDiffs_cons_cons (a b : α) (t : List α) :
    negDiffs (a :: b :: t) = (a - b) :: negDiffs (b :: t) := rfl

theorem negDiffs_length (l : List α) : (negDiffs l).length = l.length - 1 := by
  induction l with
  | nil => rfl
  | cons a t ih =>
    cases t with
    | nil => rfl
    | cons b t =>
      rw [negDiffs_cons_cons, List.length_cons, ih]
      simp

theorem negDiffs_getElem (l : List α) (k : Nat) (h : k + 1 < l.length) :
    (negDiffs l)[k]'(by rw [negDiffs_length]; omega) = l[k] - l[k + 1] := by
  induction l generalizing k with
  | nil => simp at h
  | cons a t ih =>
    cases t with
    | nil => simp at h
    | cons b t =>
      cases k with
      | zero => rfl
      | succ k =>
        simp only [negDiffs_cons_cons, List.getElem_cons_succ]
        exact ih k (by simpa using h)

/-- Option form: entry `k` exists iff entries `k` and `k+1` of the list exist, and then it is
their difference. -/
theorem negDiffs_getElem? (l : List α) (k : Nat) (v : α) :
    (negDiffs l)[k]? = some v ↔ ∃ a b, l[k]? = some a ∧ l[k + 1]? = some b ∧ v = a - b := by
  constructor
  · intro h
    obtain ⟨hk, rfl⟩ := List.getElem?_eq_some_iff.mp h
    have hk' : k + 1 < l.length := by rw [negDiffs_length] at hk; omega
    exact ⟨l[k], l[k + 1], List.getElem?_eq_getElem (by omega), List.getElem?_eq_getElem hk',
      negDiffs_getElem l k hk'⟩
  · rintro ⟨a, b, ha, hb, rfl⟩
    obtain ⟨h1, rfl⟩ := List.getElem?_eq_some_iff.mp ha
    obtain ⟨h2, rfl⟩ := List.getElem?_eq_some_iff.mp hb
    rw [List.getElem?_eq_some_iff]
    exact ⟨by rw [negDiffs_length]; omega, negDiffs_getElem l k h2⟩

theorem negDiffs_drop (l : List α) (j : Nat) : (negDiffs l).drop j = negDiffs (l.drop j) := by
  induction j generalizing l with
  | zero => rfl
  | succ j ih =>
    cases l with
    | nil => rfl
    | cons a t =>
      cases t with
      | nil => simp
      | cons b t =>
        rw [negDiffs_cons_cons, List.drop_succ_cons, List.drop_succ_cons]
        exact ih (b :: t)

/-- Telescoping: the entries sum to first minus last. -/
theorem negDiffs_sum (l : List α) (hne : l ≠ []) :
    (negDiffs l).sum = l.head hne - l.getLast hne := by
  induction l with
  | nil => exact absurd rfl hne
  | cons a t ih =>
    cases t with
    | nil => simp
    | cons b t =>
      rw [negDiffs_cons_cons, List.sum_cons, ih (by simp)]
      simp

/-- Telescoping from index `j` on. -/
theorem negDiffs_sum_drop (l : List α) (j : Nat) (hj : j < l.length) :
    ((negDiffs l).drop j).sum = l[j] - l.getLast (List.ne_nil_of_length_pos (by omega)) := by
  have hne : l.drop j ≠ [] := by
    intro e
    have := congrArg List.length e
    rw [List.length_drop] at this
    simp at this
    omega
  rw [negDiffs_drop, negDiffs_sum _ hne, List.getLast_drop hne]
  congr 1
  rw [List.head_drop]

end NegDiffs

section NegDiffsOrder
variable {α : Type} [AddCommGroup α] [PartialOrder α] [IsOrderedAddMonoid α]

/-- For a list that does not increase from one entry to the next, every difference is
non-negative. -/
theorem negDiffs_nonneg (l : List α)
    (h : ∀ (k : Nat) (hk : k + 1 < l.length), l[k + 1] ≤ l[k]) : ∀ x ∈ negDiffs l, 0 ≤ x := by
  intro x hx
  obtain ⟨k, hk, rfl⟩ := List.getElem_of_mem hx
  have hk' : k + 1 < l.length := by rw [negDiffs_length] at hk; omega
  rw [negDiffs_getElem l k hk']
  exact sub_nonneg.mpr (h k hk')

end NegDiffsOrder

/-! ### `combos` and `kWayGroups` -/

section Combos
variable {β : Type}

theorem mem_combos {k : Nat} {l g : List β} : g ∈ combos k l ↔ g.Sublist l ∧ g.length = k := by
  induction l generalizing k g with
  | nil =>
    cases k with
    | zero => simp [combos]
    | succ k =>
      simp only [combos, List.not_mem_nil, List.sublist_nil, false_iff, not_and]
      rintro rfl; simp
  | cons x t ih =>
    cases k with
    | zero =>
      simp only [combos, List.mem_singleton, List.length_eq_zero_iff]
      exact ⟨fun h => ⟨h ▸ List.nil_sublist _, h⟩, fun h => h.2⟩
    | succ k =>
      simp only [combos, List.mem_append, List.mem_map]
      constructor
      · rintro (⟨g', hg', rfl⟩ | hg)
        · obtain ⟨h1, h2⟩ := ih.mp hg'
          exact ⟨h1.cons_cons x, by simp [h2]⟩
        · obtain ⟨h1, h2⟩ := ih.mp hg
          exact ⟨h1.cons x, h2⟩
      · rintro ⟨h1, h2⟩
        cases h1 with
        | cons _ h => exact Or.inr (ih.mpr ⟨h, h2⟩)
        | cons_cons _ h =>
          rename_i g'
          exact Or.inl ⟨g', ih.mpr ⟨h, by simpa using h2⟩, rfl⟩

theorem combos_length_self (l : List β) : combos l.length l = [l] := by
  induction l with
  | nil => rfl
  | cons x t ih =>
    have h0 : combos (t.length + 1) t = [] := by
      rw [List.eq_nil_iff_forall_not_mem]
      intro g hg
      obtain ⟨h1, h2⟩ := mem_combos.mp hg
      have := h1.length_le
      omega
    show (combos t.length t).map (x :: ·) ++ combos (t.length + 1) t = [x :: t]
    rw [ih, h0]; rfl

/-- A sublist that is shorter than the list extends by one element. -/
theorem exists_sublist_succ {g l : List β} (h : g.Sublist l) (hlt : g.length < l.length) :
    ∃ g', g'.Sublist l ∧ g'.length = g.length + 1 ∧ g.Sublist g' := by
  induction h with
  | slnil => simp at hlt
  | cons a h ih =>
    rename_i g l
    by_cases hl : g.length < l.length
    · obtain ⟨g', h1, h2, h3⟩ := ih hl
      exact ⟨g', h1.cons a, h2, h3⟩
    · have he : g = l := h.eq_of_length_le (by omega)
      subst he
      exact ⟨a :: g, List.Sublist.refl _, rfl, (List.Sublist.refl g).cons a⟩
  | cons_cons a h ih =>
    rename_i g l
    obtain ⟨g', h1, h2, h3⟩ := ih (by simpa using hlt)
    exact ⟨a :: g', h1.cons_cons a, by simp [h2], h3.cons_cons a⟩

theorem kWayGroups_one (n : Nat) : kWayGroups n 1 = singletons n := by
  unfold kWayGroups singletons
  exact combos_one _

theorem kWayGroups_self (n : Nat) : kWayGroups n n = [List.range n] := by
  unfold kWayGroups
  have := combos_length_self (List.range n)
  rwa [List.length_range] at this

theorem mem_kWayGroups {n k : Nat} {g : List Nat} :
    g ∈ kWayGroups n k ↔ g.Sublist (List.range n) ∧ g.length = k := mem_combos

/-- Every `k`-way group lies inside some `(k+1)`-way group, as long as `k < n`. -/
theorem kWayGroups_coarse {n k : Nat} (hk : k < n) :
    ∀ g ∈ kWayGroups n k, ∃ g' ∈ kWayGroups n (k + 1), ∀ i ∈ g, i ∈ g' := by
  intro g hg
  obtain ⟨h1, h2⟩ := mem_kWayGroups.mp hg
  obtain ⟨g', h3, h4, h5⟩ := exists_sublist_succ h1 (by rw [h2, List.length_range]; exact hk)
  exact ⟨g', mem_kWayGroups.mpr ⟨h3, by rw [h4, h2]⟩, fun i hi => h5.subset hi⟩

/-- The indices of a `k`-way group are valid variable indices. -/
theorem kWayGroups_valid {n k : Nat} {g : List Nat} (hg : g ∈ kWayGroups n k) :
    ∀ i ∈ g, i < n :=
  fun _ hi => List.mem_range.mp ((mem_kWayGroups.mp hg).1.subset hi)

end Combos

/-! ### The chain of `marginal_maxent_dists` -/

section Chain
variable {σ : Type} [DecidableEq σ]

/-- The entropy functional of C14: `H(p) = −Σ p log₂ p` over the stored values. -/
noncomputable def Hbits (p : Tab (List σ) ℝ) : ℝ := entropyVals (Real.logb 2) (vals p)

/-- What `marginal_maxent_dists(d)` is meant to return for a source table `t` on the product
space of the alphabets `as` (`n = as.length` variables): `n + 1` tables, the first the uniform
table on the space, and the `k`-th (`1 ≤ k ≤ n`) feasible for the `k`-way marginal constraints
of `t` (`Feasible` of C14 with the groups `kWayGroups n k`) and of maximal entropy among the
feasible tables (optimality as stated in C14: `∀ p, Feasible … p → H p ≤ H P`). -/
structure IsMaxentChain (t : Tab (List σ) ℝ) (as : List (List σ))
    (chain : List (Tab (List σ) ℝ)) : Prop where
  len : chain.length = as.length + 1
  zero : chain[0]? = some (uniformOn (fun k : Nat => (k : ℝ)) (cartesian as))
  feas : ∀ k P, 1 ≤ k → k ≤ as.length → chain[k]? = some P →
    Feasible t (cartesian as) (kWayGroups as.length k) P
  opt : ∀ k P, 1 ≤ k → k ≤ as.length → chain[k]? = some P →
    ∀ p, Feasible t (cartesian as) (kWayGroups as.length k) p → Hbits p ≤ Hbits P

variable (t : Tab (List σ) ℝ) (as : List (List σ)) (chain : List (Tab (List σ) ℝ))
  (hnd : ∀ a ∈ as, a.Nodup) (hk : keys t = cartesian as) (htn : ∀ r ∈ t, 0 ≤ r.2)
  (hmass : mass t = 1) (hc : IsMaxentChain t as chain)

include hnd hk htn hmass hc

/-- The first entropy is `log₂ |space|`. -/
theorem chain_H_zero :
    (chain.map Hbits)[0]? = some (Real.logb 2 ((cartesian as).length : ℝ)) := by
  rw [List.getElem?_map, hc.zero]
  exact congrArg some (entropy_uniformOn _)

/-- The order-1 member has the entropy of the product of the marginals, `Σ_i H(X_i)`. -/
theorem chain_H_one (hn : 1 ≤ as.length) :
    (chain.map Hbits)[1]?
      = some ((List.range as.length).map (fun i => entropyOf (Real.logb 2) t [i])).sum := by
  have hlt : 1 < chain.length := by rw [hc.len]; omega
  have hP : chain[1]? = some chain[1] := List.getElem?_eq_getElem hlt
  have hf := hc.feas 1 _ (le_refl _) hn hP
  have ho := hc.opt 1 _ (le_refl _) hn hP
  rw [kWayGroups_one] at hf ho
  have h1 := (Props.C14.maxent_singletons t _ as hnd hk htn hmass hf).1
  have h2 := ho _ (Props.C14.maxent_singletons_feasible t as hnd hk htn hmass)
  rw [List.getElem?_map, hP]
  refine congrArg some ?_
  rw [← Props.C14.maxent_singletons_entropy t as hnd hk htn hmass]
  exact le_antisymm h1 h2

/-- The last member is the source. -/
theorem chain_last (hn : 1 ≤ as.length) : chain[as.length]? = some t := by
  have hlt : as.length < chain.length := by rw [hc.len]; omega
  have hP : chain[as.length]? = some chain[as.length] := List.getElem?_eq_getElem hlt
  have hf := hc.feas _ _ hn (le_refl _) hP
  rw [kWayGroups_self] at hf
  rw [hP]
  exact congrArg some (Props.C14.chain_end t _ (cartesian as) (nodup_cartesian hnd) hk as.length
    (fun o ho => length_of_mem_cartesian ho) hf)

/-- The entropies do not increase along the chain. -/
theorem chain_antitone (k : Nat) (hk' : k + 1 < (chain.map Hbits).length) :
    (chain.map Hbits)[k + 1] ≤ (chain.map Hbits)[k] := by
  rw [List.length_map] at hk'
  have hkn : k + 1 ≤ as.length := by rw [hc.len] at hk'; omega
  rw [List.getElem_map, List.getElem_map]
  have hP2 : chain[k + 1]? = some chain[k + 1] := List.getElem?_eq_getElem hk'
  have hf2 := hc.feas (k + 1) _ (by omega) hkn hP2
  cases k with
  | zero =>
    have h0 := hc.zero
    rw [List.getElem?_eq_getElem (by omega)] at h0
    rw [Option.some.inj h0]
    exact (Props.C14.uniform_max_entropy _ (cartesian as) (nodup_cartesian hnd) hf2.keys_eq
      hf2.nonneg (hf2.mass_eq.trans hmass)).2.1
  | succ j =>
    have hP1 : chain[j + 1]? = some chain[j + 1] := List.getElem?_eq_getElem (by omega)
    have ho1 := hc.opt (j + 1) _ (by omega) (by omega) hP1
    exact (Props.C14.chain_monotone t _ _ (cartesian as) _ _ hk
      (kWayGroups_coarse (by omega))
      (fun o ho g' hg' i hi => by
        rw [length_of_mem_cartesian ho]; exact kWayGroups_valid hg' i hi)
      ho1 hf2).2

end Chain

section ChainExample
variable {σ : Type} [DecidableEq σ]

/-- Non-vacuity of `IsMaxentChain`: for two variables, `[uniform, product of marginals, t]` is a
maximum-entropy chain of every probability table `t` on a product space. -/
theorem isMaxentChain_two (t : Tab (List σ) ℝ) (a b : List σ)
    (hnd : ∀ x ∈ [a, b], x.Nodup) (hk : keys t = cartesian [a, b]) (htn : ∀ r ∈ t, 0 ≤ r.2)
    (hmass : mass t = 1) :
    IsMaxentChain t [a, b]
      [uniformOn (fun k : Nat => (k : ℝ)) (cartesian [a, b]),
       prodMarg t (singletons 2) (cartesian [a, b]), t] := by
  have hend : ∀ p, Feasible t (cartesian [a, b]) (kWayGroups 2 2) p → p = t := by
    intro p hp
    rw [kWayGroups_self] at hp
    exact Props.C14.chain_end t p _ (nodup_cartesian hnd) hk 2
      (fun o ho => length_of_mem_cartesian ho) hp
  refine ⟨rfl, rfl, ?_, ?_⟩
  · intro k P h1 h2 hP
    have h2' : k ≤ 2 := h2
    obtain rfl | rfl : k = 1 ∨ k = 2 := by omega
    · obtain rfl : prodMarg t (singletons 2) (cartesian [a, b]) = P := by simpa using hP
      show Feasible t _ (kWayGroups 2 1) _
      rw [kWayGroups_one]
      exact Props.C14.maxent_singletons_feasible t [a, b] hnd hk htn hmass
    · obtain rfl : t = P := by simpa using hP
      exact Feasible.self t _ _ hk htn
  · intro k P h1 h2 hP p hp
    have h2' : k ≤ 2 := h2
    obtain rfl | rfl : k = 1 ∨ k = 2 := by omega
    · obtain rfl : prodMarg t (singletons 2) (cartesian [a, b]) = P := by simpa using hP
      have hp' : Feasible t (cartesian [a, b]) (singletons 2) p := by
        rw [← kWayGroups_one]; exact hp
      exact (Props.C14.maxent_singletons t p [a, b] hnd hk htn hmass hp').1
    · obtain rfl : t = P := by simpa using hP
      rw [hend p hp]

end ChainExample

/-! ### Joint entropy and total correlation in the notation of C05 -/

section TC
variable {σ : Type} [DecidableEq σ]

/-- For a table that lists each outcome once, all outcomes of length `n`, the entropy of the
stored values is the entropy of the marginal on all variables. -/
theorem entropyOf_range_eq (t : Tab (List σ) ℝ) (n : Nat) (hnd : (keys t).Nodup)
    (hlen : ∀ o ∈ keys t, o.length = n) :
    entropyOf (Real.logb 2) t (List.range n) = entropyVals (Real.logb 2) (vals t) := by
  rw [entropyOf_rows, entropyVals_eq_sum, vals, List.map_map]
  congr 2
  apply List.map_congr_left
  intro r hr
  have hfull : ∀ o ∈ keys t, project (List.range n) o = o := fun o ho => by
    rw [← hlen o ho]; exact project_range_length o
  have hr1 := mem_keys_of_mem hr
  have h1 : fibreSum (project (List.range n)) t (project (List.range n) r.1)
      = margAt t (List.range n) (project (List.range n) r.1) := by
    rw [fibreSum_eq_ite, margAt_eq_wtBy]; rfl
  have h2 : lookupD 0 t r.1 = r.2 := by
    unfold lookupD
    rw [(lookup?_eq_some_iff hnd).mpr hr]; rfl
  simp only [Function.comp_apply]
  rw [h1, hfull r.1 hr1, ← lookupD_eq_margAt_of_full t hnd _ hfull, h2]

theorem vunions_singletons (n : Nat) : vunions (singletons n) = List.range n := by
  unfold vunions
  rw [← vnorm_of_sorted (List.pairwise_lt_range (n := n))]
  apply vnorm_congr
  intro x
  simp [singletons]

/-- The total correlation of the single variables, in the notation of C05, is
`Σ_i H(X_i) − H(X_0 … X_{n−1})` for a table of mass 1. -/
theorem eval_tc_singletons (t : Tab (List σ) ℝ) (n : Nat) (hmass : mass t = 1) :
    Comb.eval (Rat.castHom ℝ) (entropyOf (Real.logb 2) t) (tcC (singletons n) [])
      = ((List.range n).map (fun i => entropyOf (Real.logb 2) t [i])).sum
        - entropyOf (Real.logb 2) t (List.range n) := by
  have h0 : entropyOf (Real.logb 2) t [] = 0 := by
    apply entropyOf_nil
    rw [← hmass, mass_eq_sum]; rfl
  have hc : ∀ X : List Nat, Hc (entropyOf (Real.logb 2) t) X []
      = entropyOf (Real.logb 2) t X := by
    intro X
    unfold Hc vunion
    rw [List.append_nil, ← entropyOf_vnorm, show vnorm ([] : List Nat) = [] from rfl, h0, sub_zero]
  rw [eval_tcC, vunions_singletons, hc]
  congr 1
  unfold singletons
  rw [List.map_map]
  congr 1
  apply List.map_congr_left
  intro i _
  exact hc [i]

end TC

end Dit.Lemmas.Connected
