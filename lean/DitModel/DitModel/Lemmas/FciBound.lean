/-
Helper lemmas for the link between product-form feasibility (`blockIndep`) and entropy-level conditional
independence. Property theorems are in Props/C16FciBound.lean.
-/
import DitModel.Props.C16
import DitModel.Props.C16Fci
import Mathlib.Algebra.BigOperators.Ring.List
import Mathlib.Tactic.LinearCombination

set_option linter.unusedSectionVars false

namespace Dit.Lemmas.FciBound
open Dit Dit.Lemmas.Table Dit.Lemmas.Meet Dit.Lemmas.InfoAlg Dit.Lemmas.InfoReal Dit.Props.C16Fci

/-! ### Event weights: filtering, disintegration over the values of a map, blocks of outcomes -/

/-- `wtBy_congr` with the decidability instances left to unification. -/
theorem wtBy_congr' {κ : Type} {p q : κ → Prop} {ip : DecidablePred p} {iq : DecidablePred q}
    (t : Tab κ ℝ) (h : ∀ k ∈ keys t, p k ↔ q k) : @wtBy κ ℝ _ p ip t = @wtBy κ ℝ _ q iq t :=
  wtBy_congr p q t h

section Wt
variable {κ κ' : Type} [DecidableEq κ] [DecidableEq κ']

/-- Restricting the table to the rows in `E` restricts every event to `E`. -/
theorem wtBy_filter (p E : κ → Prop) [DecidablePred p] [DecidablePred E] (t : Tab κ ℝ) :
    wtBy p (t.filter (fun r => decide (E r.1))) = wtBy (fun k => E k ∧ p k) t := by
  induction t with
  | nil => rfl
  | cons r t ih =>
    by_cases h : E r.1
    · rw [List.filter_cons_of_pos (by simpa using h), wtBy_cons, wtBy_cons, ih]
      simp [h]
    · rw [List.filter_cons_of_neg (by simpa using h), wtBy_cons, ih]
      simp [h]

/-- Disintegration of an event `E` over the values of `f` (listed without repetition in `l`). -/
theorem sum_wtBy_fibre_on {l : List κ'} (hl : l.Nodup) (f : κ → κ') (E : κ → Prop)
    [DecidablePred E] (t : Tab κ ℝ) (h : ∀ k ∈ keys t, E k → f k ∈ l) :
    (l.map (fun x => wtBy (fun k => E k ∧ f k = x) t)).sum = wtBy E t := by
  have hkeys : ∀ k ∈ keys (t.filter (fun r => decide (E r.1))), f k ∈ l := by
    intro k hk
    obtain ⟨r, hr, rfl⟩ := List.mem_map.mp hk
    obtain ⟨hr1, hr2⟩ := List.mem_filter.mp hr
    exact h r.1 (List.mem_map_of_mem hr1) (by simpa using hr2)
  have := sum_map_wtBy_fibre hl f (fun _ => True) (t.filter (fun r => decide (E r.1))) hkeys
  simp only [if_true, wtBy_filter] at this
  rw [this]
  exact wtBy_congr' t (fun k _ => by simp)

/-- The mass, inside a duplicate-free block `B`, of the members satisfying `q`, as an event weight. -/
theorem sum_block_filter (t : Tab κ ℝ) (hk : (keys t).Nodup) (B : List κ) (hB : B.Nodup)
    (q : κ → Bool) :
    ((B.filter q).map (fun o => lookupD 0 t o)).sum = wtBy (fun o => o ∈ B ∧ q o = true) t := by
  induction B with
  | nil =>
    rw [wtBy_eq_zero _ t (by rintro k _ ⟨h, _⟩; exact List.not_mem_nil h)]
    rfl
  | cons x B ih =>
    have hnd := List.nodup_cons.mp hB
    rw [wtBy_split (fun o => o ∈ x :: B ∧ q o = true) (fun o => o = x) t]
    have e2 : wtBy (fun o => (o ∈ x :: B ∧ q o = true) ∧ ¬ o = x) t
        = wtBy (fun o => o ∈ B ∧ q o = true) t := by
      apply wtBy_congr
      intro k _
      constructor
      · rintro ⟨⟨hm, hq⟩, hne⟩
        rcases List.mem_cons.mp hm with h | h
        · exact absurd h hne
        · exact ⟨h, hq⟩
      · rintro ⟨hm, hq⟩
        exact ⟨⟨List.mem_cons_of_mem _ hm, hq⟩, fun e => hnd.1 (e ▸ hm)⟩
    rw [e2, ← ih hnd.2]
    cases hq : q x
    · rw [List.filter_cons_of_neg (by simp [hq]),
        wtBy_eq_zero _ t (by
          rintro k _ ⟨⟨_, h⟩, rfl⟩
          rw [hq] at h
          cases h), zero_add]
    · rw [List.filter_cons_of_pos hq, List.map_cons, List.sum_cons, lookupD_eq_wtBy hk]
      congr 1
      apply wtBy_congr
      intro k _
      constructor
      · rintro rfl
        exact ⟨⟨List.mem_cons_self, hq⟩, rfl⟩
      · rintro ⟨_, h⟩
        exact h

end Wt

/-! ### The block quantities of `Core/SetPart.lean` as event weights -/

section Block
variable {σ : Type} [DecidableEq σ]

theorem blockMass_eq_wtBy (t : Tab (List σ) ℝ) (hk : (keys t).Nodup) (B : List (List σ))
    (hB : B.Nodup) : blockMass t B = wtBy (fun o => o ∈ B) t := by
  have := sum_block_filter t hk B hB (fun _ => true)
  rw [List.filter_true] at this
  unfold blockMass
  rw [InfoAlg.lsum_eq_sum, this]
  exact wtBy_congr' t (fun k _ => by simp)

theorem blockMargin_eq_wtBy (t : Tab (List σ) ℝ) (hk : (keys t).Nodup) (B : List (List σ))
    (hB : B.Nodup) (g : List Nat) (v : List σ) :
    blockMargin t B g v = wtBy (fun o => o ∈ B ∧ project g o = v) t := by
  unfold blockMargin
  rw [InfoAlg.lsum_eq_sum, sum_block_filter t hk B hB]
  exact wtBy_congr' t (fun k _ => by simp)

theorem blockJoint_eq_wtBy (t : Tab (List σ) ℝ) (hk : (keys t).Nodup) (B : List (List σ))
    (hB : B.Nodup) (groups : List (List Nat)) (vs : List (List σ)) :
    blockJoint t B groups vs
      = wtBy (fun o => o ∈ B ∧ groups.map (fun g => project g o) = vs) t := by
  unfold blockJoint
  rw [InfoAlg.lsum_eq_sum, sum_block_filter t hk B hB]
  exact wtBy_congr' t (fun k _ => by simp)

end Block

/-! ### One coordinate of the product test against all the others -/

section Factor
variable {σ : Type} [DecidableEq σ]
open Dit.Lemmas.SetPart

theorem map_project_mem_blockValueTuples {B : List (List σ)} {o : List σ} (ho : o ∈ B)
    (gs : List (List Nat)) : gs.map (fun g => project g o) ∈ blockValueTuples B gs := by
  induction gs with
  | nil => simp [blockValueTuples]
  | cons g gs ih =>
    simp only [blockValueTuples, List.map_cons, List.mem_flatMap, List.mem_map, InfoAlg.mem_dedup]
    exact ⟨project g o, ⟨o, ho, rfl⟩, _, ih, rfl⟩

/-- The tuple of the values of `o` with the value of one group replaced by any value seen in the block is
one of the tuples `blockIndep` tests. -/
theorem mem_blockValueTuples_split {B : List (List σ)} {o : List σ} (ho : o ∈ B)
    (pre post : List (List Nat)) (g : List Nat) {v : List σ} (hv : v ∈ B.map (project g)) :
    pre.map (fun g' => project g' o) ++ v :: post.map (fun g' => project g' o)
      ∈ blockValueTuples B (pre ++ g :: post) := by
  induction pre with
  | nil =>
    simp only [blockValueTuples, List.map_nil, List.nil_append, List.mem_flatMap, List.mem_map,
      InfoAlg.mem_dedup]
    exact ⟨v, List.mem_map.mp hv, _, map_project_mem_blockValueTuples ho post, rfl⟩
  | cons g' pre ih =>
    simp only [blockValueTuples, List.map_cons, List.cons_append, List.mem_flatMap, List.mem_map,
      InfoAlg.mem_dedup]
    exact ⟨project g' o, ⟨o, ho, rfl⟩, _, ih, rfl⟩

/-- Agreement with `o` on all the groups of `pre` and `post`. -/
def Rel (pre post : List (List Nat)) (o x : List σ) : Prop :=
  pre.map (fun g' => project g' x) = pre.map (fun g' => project g' o)
    ∧ post.map (fun g' => project g' x) = post.map (fun g' => project g' o)

instance (pre post : List (List Nat)) (o : List σ) : DecidablePred (Rel pre post o) :=
  fun _ => inferInstanceAs (Decidable (_ ∧ _))

theorem map_split_eq_iff (pre post : List (List Nat)) (g : List Nat) (o x v : List σ) :
    (pre ++ g :: post).map (fun g' => project g' x)
        = pre.map (fun g' => project g' o) ++ v :: post.map (fun g' => project g' o)
      ↔ (Rel pre post o x) ∧ project g x = v := by
  rw [List.map_append, List.map_cons]
  constructor
  · intro h
    obtain ⟨h1, h2⟩ := List.append_inj h (by simp)
    obtain ⟨h3, h4⟩ := List.cons.inj h2
    exact ⟨⟨h1, h4⟩, h3⟩
  · rintro ⟨⟨h1, h4⟩, h3⟩
    rw [h1, h3, h4]

/-- The product of the margins along a split list of groups. -/
theorem foldl_margins_split (t : Tab (List σ) ℝ) (B : List (List σ)) (pre post : List (List Nat))
    (g : List Nat) (o v : List σ) :
    (((pre ++ g :: post).zip
        (pre.map (fun g' => project g' o) ++ v :: post.map (fun g' => project g' o))).map
        (fun gv => blockMargin t B gv.1 gv.2)).foldl (· * ·) 1
      = ((pre.zip (pre.map (fun g' => project g' o))).map
          (fun gv => blockMargin t B gv.1 gv.2)).prod
        * (blockMargin t B g v
          * ((post.zip (post.map (fun g' => project g' o))).map
            (fun gv => blockMargin t B gv.1 gv.2)).prod) := by
  rw [foldl_mul_eq, one_mul, List.zip_append (by simp), List.map_append, List.prod_append,
    List.zip_cons_cons, List.map_cons, List.prod_cons]

/-- **One group against the others inside a block.** If the product test holds in the block `B` (of non-zero
mass), then for every member `o` of the block
`P(g = g(o), others = others(o), B) · P(B) = P(g = g(o), B) · P(others = others(o), B)`. -/
theorem block_factor (t : Tab (List σ) ℝ) (hk : (keys t).Nodup) (B : List (List σ)) (hB : B.Nodup)
    (pre post : List (List Nat)) (g : List Nat)
    (hind : blockIndep t (pre ++ g :: post) B = true) (hM : blockMass t B ≠ 0)
    (o : List σ) (ho : o ∈ B) :
    wtBy (fun x => (x ∈ B ∧ Rel pre post o x) ∧ project g x = project g o) t
        * wtBy (fun x => x ∈ B) t
      = wtBy (fun x => x ∈ B ∧ project g x = project g o) t
        * wtBy (fun x => x ∈ B ∧ Rel pre post o x) t := by
  set L := dedup (B.map (project g)) with hL
  set X := mpow (blockMass t B) ((pre ++ g :: post).length - 1) with hX
  set Cpre := ((pre.zip (pre.map (fun g' => project g' o))).map
          (fun gv => blockMargin t B gv.1 gv.2)).prod with hCpre
  set Cpost := ((post.zip (post.map (fun g' => project g' o))).map
          (fun gv => blockMargin t B gv.1 gv.2)).prod with hCpost
  have hX0 : X ≠ 0 := by
    rw [hX, mpow_eq]
    exact pow_ne_zero _ hM
  have key : ∀ v ∈ L,
      wtBy (fun x => (x ∈ B ∧ Rel pre post o x) ∧ project g x = v) t * X
        = Cpre * (wtBy (fun x => x ∈ B ∧ project g x = v) t * Cpost) := by
    intro v hv
    have hv' : v ∈ B.map (project g) := (InfoAlg.mem_dedup _ _).mp hv
    unfold blockIndep at hind
    have h := List.all_eq_true.mp hind _ (mem_blockValueTuples_split ho pre post g hv')
    rw [decide_eq_true_eq, foldl_margins_split, blockJoint_eq_wtBy t hk B hB,
      blockMargin_eq_wtBy t hk B hB g v] at h
    rw [← h]
    congr 1
    refine wtBy_congr' t (fun k _ => ?_)
    rw [map_split_eq_iff, and_assoc]
  have sumJ : (L.map (fun v => wtBy (fun x => (x ∈ B ∧ Rel pre post o x) ∧ project g x = v) t)).sum
      = wtBy (fun x => x ∈ B ∧ Rel pre post o x) t :=
    sum_wtBy_fibre_on (InfoAlg.nodup_dedup _) (project g) (fun x => x ∈ B ∧ Rel pre post o x) t
      (fun k _ hk' => (InfoAlg.mem_dedup _ _).mpr (List.mem_map_of_mem hk'.1))
  have sumM : (L.map (fun v => wtBy (fun x => x ∈ B ∧ project g x = v) t)).sum
      = wtBy (fun x => x ∈ B) t :=
    sum_wtBy_fibre_on (InfoAlg.nodup_dedup _) (project g) (fun x => x ∈ B) t
      (fun k _ hk' => (InfoAlg.mem_dedup _ _).mpr (List.mem_map_of_mem hk'))
  have hsum : wtBy (fun x => x ∈ B ∧ Rel pre post o x) t * X
      = Cpre * (wtBy (fun x => x ∈ B) t * Cpost) := by
    rw [← sumJ, ← sumM, ← List.sum_map_mul_right, ← List.sum_map_mul_right,
      ← List.sum_map_mul_left]
    congr 1
    exact List.map_congr_left key
  have h1 := key (project g o) ((InfoAlg.mem_dedup _ _).mpr (List.mem_map_of_mem ho))
  apply mul_right_cancel₀ hX0
  linear_combination (wtBy (fun x => x ∈ B) t) * h1
    - (wtBy (fun x => x ∈ B ∧ project g x = project g o) t) * hsum

end Factor

/-! ### Entropy form of conditional independence from the product form -/

section Entropy
variable {κ κ₁ κ₂ κ₃ : Type} [DecidableEq κ₁] [DecidableEq κ₂] [DecidableEq κ₃]

theorem cm_eq_wtBy (f : κ → κ₁) (t : Tab κ ℝ) (i : Fin t.length) :
    cm (wOf t) (atRow f t) i = wtBy (fun o => f o = f t[i.1].1) t := by
  rw [wtBy_eq_fin]; rfl

/-- **Product form ⇒ entropy form.** If inside every cell of `W` of positive mass the joint law of `(a, b)` is the
product of its marginals — `P(W, a, b) · P(W) = P(W, a) · P(W, b)` at every stored outcome — then
`H(W, a, b) + H(W) = H(W, a) + H(W, b)`, i.e. `I(a : b | W) = 0`.  Non-negative table. -/
theorem Hmap_cond_indep (W : κ → κ₃) (a : κ → κ₁) (b : κ → κ₂) (t : Tab κ ℝ)
    (hnn : ∀ r ∈ t, 0 ≤ r.2)
    (h : ∀ k ∈ keys t, 0 < wtBy (fun o => W o = W k) t →
      wtBy (fun o => W o = W k ∧ a o = a k ∧ b o = b k) t * wtBy (fun o => W o = W k) t
        = wtBy (fun o => W o = W k ∧ a o = a k) t * wtBy (fun o => W o = W k ∧ b o = b k) t) :
    Hmap (fun k => (W k, a k, b k)) t + Hmap W t
      = Hmap (fun k => (W k, a k)) t + Hmap (fun k => (W k, b k)) t := by
  have hw : ∀ i : Fin t.length, 0 ≤ wOf t i := fun i => hnn _ (List.getElem_mem i.2)
  rw [Hmap_fin, Hmap_fin, Hmap_fin, Hmap_fin, ← neg_add, ← neg_add, ← Finset.sum_add_distrib,
    ← Finset.sum_add_distrib]
  congr 1
  apply Finset.sum_congr rfl
  intro i _
  rcases (hw i).eq_or_lt with h0 | hpos
  · rw [← h0]; simp
  · have p1 := hpos.trans_le (le_cm hw (atRow (fun k => (W k, a k, b k)) t) i)
    have p2 := hpos.trans_le (le_cm hw (atRow (fun k => (W k, a k)) t) i)
    have p3 := hpos.trans_le (le_cm hw (atRow (fun k => (W k, b k)) t) i)
    have p4 := hpos.trans_le (le_cm hw (atRow W t) i)
    have hprod : cm (wOf t) (atRow (fun k => (W k, a k, b k)) t) i * cm (wOf t) (atRow W t) i
        = cm (wOf t) (atRow (fun k => (W k, a k)) t) i
          * cm (wOf t) (atRow (fun k => (W k, b k)) t) i := by
      have hk := h _ (mem_keys_getElem t i) (by rw [← cm_eq_wtBy]; exact p4)
      rw [cm_eq_wtBy, cm_eq_wtBy, cm_eq_wtBy, cm_eq_wtBy]
      refine Eq.trans ?_ (hk.trans ?_)
      · congr 1
        exact wtBy_congr' t (fun k _ => by simp only [Prod.mk.injEq])
      · congr 1
        · exact wtBy_congr' t (fun k _ => by simp only [Prod.mk.injEq])
        · exact wtBy_congr' t (fun k _ => by simp only [Prod.mk.injEq])
    rw [← mul_add, ← mul_add, ← Real.logb_mul p1.ne' p4.ne', ← Real.logb_mul p2.ne' p3.ne', hprod]

end Entropy

/-! ### The label of a set partition -/

section Label
variable {σ : Type} [DecidableEq σ]

/-- In a set partition the label of a covered outcome is `i` exactly when the outcome is in block `i`. -/
theorem labelOf_eq_index_iff {P : List (List (List σ))} {l : List (List σ)}
    (hP : IsSetPartition P l) {i : Nat} (hi : i < P.length) {o : List σ} (ho : o ∈ l) :
    labelOf P o = i ↔ o ∈ P[i] := by
  obtain ⟨j, ej, hj, hoj⟩ := labelOf_spec ((hP.cover o).mpr ho)
  rw [ej]
  constructor
  · intro e; subst e; exact hoj
  · intro hoi; exact index_unique hP.disjoint hj hi hoj hoi

/-- Same label as a member of block `B` iff member of `B`. -/
theorem labelOf_eq_iff_mem {P : List (List (List σ))} {l : List (List σ)}
    (hP : IsSetPartition P l) {B : List (List σ)} (hB : B ∈ P) {k : List σ} (hkB : k ∈ B)
    {o : List σ} (ho : o ∈ l) : labelOf P o = labelOf P k ↔ o ∈ B := by
  obtain ⟨i, hi, rfl⟩ := List.getElem_of_mem hB
  have hk : k ∈ l := (hP.cover k).mp ⟨_, hB, hkB⟩
  rw [(labelOf_eq_index_iff hP hi hk).mpr hkB]
  exact labelOf_eq_index_iff hP hi ho

/-- **The law of the label is the list of block masses** (up to order): its entropy is the entropy of
`partMasses`. -/
theorem Hmap_label (code : Nat → σ) (hcode : Function.Injective code) (t : Tab (List σ) ℝ)
    (hk : (keys t).Nodup) (P : List (List (List σ))) (hP : IsSetPartition P (keys t)) :
    Hmap (fun o => code (labelOf P o)) t = entropyVals (Real.logb 2) (partMasses t P) := by
  unfold Hmap
  rw [pushforward_eq, vals, List.map_map]
  apply entropyVals_perm
  have hperm : (dedup (t.map (fun r => code (labelOf P r.1)))).Perm
      ((List.finRange P.length).map (fun i => code i.1)) := by
    rw [List.perm_ext_iff_of_nodup (InfoAlg.nodup_dedup _)
      ((List.nodup_finRange _).map (fun a b e => Fin.ext (hcode e)))]
    intro x
    rw [InfoAlg.mem_dedup, List.mem_map, List.mem_map]
    constructor
    · rintro ⟨r, hr, rfl⟩
      have hr1 : r.1 ∈ keys t := List.mem_map_of_mem hr
      obtain ⟨j, ej, hj, -⟩ := labelOf_spec ((hP.cover r.1).mpr hr1)
      exact ⟨⟨j, hj⟩, List.mem_finRange _, by rw [ej]⟩
    · rintro ⟨i, -, rfl⟩
      obtain ⟨k, hkB⟩ := List.exists_mem_of_ne_nil _ (hP.nonempty _ (List.getElem_mem i.2))
      have hkl : k ∈ keys t := (hP.cover k).mp ⟨_, List.getElem_mem i.2, hkB⟩
      obtain ⟨r, hr, rfl⟩ := List.mem_map.mp hkl
      exact ⟨r, hr, by rw [(labelOf_eq_index_iff hP i.2 hkl).mpr hkB]⟩
  refine (hperm.map _).trans (List.Perm.of_eq ?_)
  unfold partMasses
  conv_rhs => rw [← List.map_getElem_finRange P]
  rw [List.map_map, List.map_map]
  apply List.map_congr_left
  intro i _
  simp only [Function.comp_apply]
  rw [fibreSum_eq_ite, blockMass_eq_wtBy t hk _ (hP.nodup _ (List.getElem_mem i.2))]
  show wtBy (fun o => code (labelOf P o) = code i.1) t = _
  refine wtBy_congr' t (fun o ho => ?_)
  rw [hcode.eq_iff]
  exact labelOf_eq_index_iff hP i.2 ho

end Label

/-! ### Conditional independence of one group from the others given the label -/

section CondIndep
variable {σ : Type} [DecidableEq σ]

theorem project_union_eq_iff {S X Y : List Nat} (h : ∀ v, v ∈ S ↔ v ∈ X ∨ v ∈ Y) (o o' : List σ) :
    project S o = project S o' ↔ project X o = project X o' ∧ project Y o = project Y o' := by
  simp only [project_eq_iff]
  constructor
  · intro H
    exact ⟨fun i hi => H i ((h i).mpr (Or.inl hi)), fun i hi => H i ((h i).mpr (Or.inr hi))⟩
  · rintro ⟨H1, H2⟩ i hi
    rcases (h i).mp hi with hx | hy
    · exact H1 i hx
    · exact H2 i hy

/-- Agreeing on the variables of all the other groups is agreeing on each of them. -/
theorem project_others_eq_iff (pre post : List (List Nat)) (g : List Nat)
    (hdisj : ∀ g' ∈ pre ++ post, ∀ v ∈ g', v ∉ g) (o x : List σ) :
    project (vdiff (vunions (pre ++ g :: post)) (vnorm g)) x
        = project (vdiff (vunions (pre ++ g :: post)) (vnorm g)) o
      ↔ Rel pre post o x := by
  unfold Rel
  rw [project_eq_iff, List.map_inj_left, List.map_inj_left]
  simp only [project_eq_iff]
  constructor
  · intro H
    constructor
    · intro g' hg' i hi
      apply H i
      rw [mem_vdiff, mem_vunions, mem_vnorm]
      exact ⟨⟨g', by simp [hg'], hi⟩, hdisj g' (by simp [hg']) i hi⟩
    · intro g' hg' i hi
      apply H i
      rw [mem_vdiff, mem_vunions, mem_vnorm]
      exact ⟨⟨g', by simp [hg'], hi⟩, hdisj g' (by simp [hg']) i hi⟩
  · rintro ⟨H1, H2⟩ i hi
    rw [mem_vdiff, mem_vunions, mem_vnorm] at hi
    obtain ⟨⟨g', hg', hig'⟩, hni⟩ := hi
    rcases List.mem_append.mp hg' with h | h
    · exact H1 g' h i hig'
    · rcases List.mem_cons.mp h with rfl | h
      · exact absurd hig' hni
      · exact H2 g' h i hig'

/-- **Entropy form of feasibility**, on the original table: with `ℓ` the (coded) label of a feasible partition,
`a` the values of one group and `b` the values of all the others,
`H(ℓ, a, b) + H(ℓ) = H(ℓ, a) + H(ℓ, b)`. -/
theorem Hmap_feasible (code : Nat → σ) (hcode : Function.Injective code) (t : Tab (List σ) ℝ)
    (hnn : ∀ r ∈ t, 0 ≤ r.2) (hk : (keys t).Nodup)
    (P : List (List (List σ))) (hP : IsSetPartition P (keys t))
    (pre post : List (List Nat)) (g : List Nat)
    (hdisj : ∀ g' ∈ pre ++ post, ∀ v ∈ g', v ∉ g)
    (hf : fciFeasible t (pre ++ g :: post) P = true) :
    Hmap (fun o => (code (labelOf P o), project g o,
        project (vdiff (vunions (pre ++ g :: post)) (vnorm g)) o)) t
        + Hmap (fun o => code (labelOf P o)) t
      = Hmap (fun o => (code (labelOf P o), project g o)) t
        + Hmap (fun o => (code (labelOf P o),
            project (vdiff (vunions (pre ++ g :: post)) (vnorm g)) o)) t := by
  apply Hmap_cond_indep _ _ _ t hnn
  intro k hkk hpos
  obtain ⟨B, hB, hkB⟩ := (hP.cover k).mpr hkk
  have hW : ∀ o ∈ keys t, code (labelOf P o) = code (labelOf P k) ↔ o ∈ B := fun o ho =>
    hcode.eq_iff.trans (labelOf_eq_iff_mem hP hB hkB ho)
  have hBnd := hP.nodup B hB
  have e0 : wtBy (fun o => code (labelOf P o) = code (labelOf P k)) t = wtBy (fun x => x ∈ B) t :=
    wtBy_congr' t hW
  have hind : blockIndep t (pre ++ g :: post) B = true := by
    unfold fciFeasible at hf
    exact List.all_eq_true.mp hf B hB
  have hM : blockMass t B ≠ 0 := by
    rw [blockMass_eq_wtBy t hk B hBnd, ← e0]
    exact hpos.ne'
  have hfac := block_factor t hk B hBnd pre post g hind hM k hkB
  rw [e0]
  refine Eq.trans ?_ (hfac.trans ?_)
  · congr 1
    refine wtBy_congr' t (fun o ho => ?_)
    rw [hW o ho, project_others_eq_iff pre post g hdisj k o]
    tauto
  · congr 1
    · exact wtBy_congr' t (fun o ho => by rw [hW o ho])
    · refine wtBy_congr' t (fun o ho => ?_)
      rw [hW o ho, project_others_eq_iff pre post g hdisj k o]

variable (ℓ : List σ → σ) (n : Nat) (t : Tab (List σ) ℝ) (hn : ∀ k ∈ keys t, k.length = n)
include hn

/-- Entropy, in the table with the label appended as variable `n`, of a set made of old variables `S₀` and `n`. -/
theorem entropyOf_with_new (S₀ : List Nat) (hS₀ : ∀ i ∈ S₀, i < n) (S : List Nat)
    (hS : ∀ v, v ∈ S ↔ v ∈ S₀ ∨ v = n) :
    entropyOf (Real.logb 2) (insertRvf (fun o => [ℓ o]) none t) S
      = Hmap (fun o => (ℓ o, project S₀ o)) t := by
  rw [entropyOf_congr _ (X' := S₀ ++ [n])
    (by intro v; rw [hS, List.mem_append, List.mem_singleton])]
  exact entropyOf_old_new ℓ n t hn S₀ hS₀

end CondIndep

/-! ### The table with the label of a feasible partition appended -/

section Insert
variable {σ : Type} [DecidableEq σ]

/-- **A feasible partition renders each group independent of the others given its label**, entropy form, in the
table with the label appended as variable `n`. -/
theorem cond_indep_insert (code : Nat → σ) (hcode : Function.Injective code) (t : Tab (List σ) ℝ)
    (n : Nat) (hnn : ∀ r ∈ t, 0 ≤ r.2) (hk : (keys t).Nodup) (hlen : ∀ k ∈ keys t, k.length = n)
    (groups : List VSet) (hg : ∀ g ∈ groups, ∀ v ∈ g, v < n)
    (hdisj : groups.Pairwise (fun a b => ∀ v, v ∈ a → v ∉ b))
    (P : List (List (List σ))) (hP : IsSetPartition P (keys t))
    (hf : fciFeasible t groups P = true) :
    ∀ g ∈ groups,
      Hc (entropyOf (Real.logb 2) (insertRvf (fun o => [code (labelOf P o)]) none t)) g
          (vunion (vdiff (vunions groups) (vnorm g)) [n])
        = Hc (entropyOf (Real.logb 2) (insertRvf (fun o => [code (labelOf P o)]) none t)) g [n] := by
  intro g hgm
  have hgn : ∀ i ∈ g, i < n := hg g hgm
  have hon : ∀ i ∈ vdiff (vunions groups) (vnorm g), i < n := by
    intro i hi
    rw [mem_vdiff, mem_vunions] at hi
    obtain ⟨⟨g', hg', hig'⟩, _⟩ := hi
    exact hg g' hg' i hig'
  obtain ⟨pre, post, rfl⟩ := List.append_of_mem hgm
  have hdisj' : ∀ g' ∈ pre ++ post, ∀ v ∈ g', v ∉ g := by
    have h := List.pairwise_append.mp hdisj
    intro g' hg' v hv
    rcases List.mem_append.mp hg' with h1 | h1
    · exact h.2.2 g' h1 g List.mem_cons_self v hv
    · intro hvg
      exact (List.pairwise_cons.mp h.2.1).1 g' h1 v hvg hv
  have hmain := Hmap_feasible code hcode t hnn hk P hP pre post g hdisj' hf
  have e1 : Hmap (fun o => (code (labelOf P o),
        project (g ++ vdiff (vunions (pre ++ g :: post)) (vnorm g)) o)) t
      = Hmap (fun o => (code (labelOf P o), project g o,
        project (vdiff (vunions (pre ++ g :: post)) (vnorm g)) o)) t := by
    apply Hmap_equiv
    intro k _ k' _
    simp only [Prod.mk.injEq]
    rw [project_union_eq_iff (fun v => List.mem_append) k k']
  have e4 : Hmap (fun o => (code (labelOf P o), project [] o)) t
      = Hmap (fun o => code (labelOf P o)) t := by
    apply Hmap_equiv
    intro k _ k' _
    simp [project]
  unfold Hc
  rw [entropyOf_with_new (fun o => code (labelOf P o)) n t hlen
      (g ++ vdiff (vunions (pre ++ g :: post)) (vnorm g))
      (fun i hi => (List.mem_append.mp hi).elim (hgn i) (hon i)) _
      (by
        intro v
        simp only [mem_vunion, List.mem_append, List.mem_singleton]
        tauto),
    entropyOf_with_new (fun o => code (labelOf P o)) n t hlen
      (vdiff (vunions (pre ++ g :: post)) (vnorm g)) hon
      (vnorm (vunion (vdiff (vunions (pre ++ g :: post)) (vnorm g)) [n]))
      (by
        intro v
        simp only [mem_vnorm, mem_vunion, List.mem_singleton]),
    entropyOf_with_new (fun o => code (labelOf P o)) n t hlen g hgn (vunion g [n])
      (by
        intro v
        simp only [mem_vunion, List.mem_singleton]),
    entropyOf_with_new (fun o => code (labelOf P o)) n t hlen [] (by simp) (vnorm [n])
      (by
        intro v
        simp only [mem_vnorm, List.mem_singleton, List.not_mem_nil, false_or]),
    e1, e4]
  linarith

/-- Appending a variable changes neither the signs nor the total mass. -/
theorem insertRvf_nonneg (F : List σ → List σ) (t : Tab (List σ) ℝ) (hnn : ∀ r ∈ t, 0 ≤ r.2) :
    ∀ r ∈ insertRvf F none t, 0 ≤ r.2 := by
  intro r hr
  rw [Lemmas.Constructors.insertRvf_eq_map] at hr
  obtain ⟨r', hr', rfl⟩ := List.mem_map.mp hr
  exact hnn r' hr'

theorem insertRvf_mass (F : List σ → List σ) (t : Tab (List σ) ℝ) :
    ((insertRvf F none t).map (·.2)).sum = (t.map (·.2)).sum := by
  have := Lemmas.Constructors.vals_insertRvf F none t
  unfold vals at this
  rw [this]

/-- The dual total correlation of groups of old variables is unchanged by appending a variable. -/
theorem eval_dtcC_insert (ℓ : List σ → σ) (n : Nat) (t : Tab (List σ) ℝ)
    (hlen : ∀ k ∈ keys t, k.length = n) (groups : List VSet) (hg : ∀ g ∈ groups, ∀ v ∈ g, v < n) :
    Comb.eval (Rat.castHom ℝ) (entropyOf (Real.logb 2) (insertRvf (fun o => [ℓ o]) none t))
        (dtcC groups [])
      = Comb.eval (Rat.castHom ℝ) (entropyOf (Real.logb 2) t) (dtcC groups []) := by
  have hHc : ∀ X Z : VSet, (∀ i ∈ X, i < n) → (∀ i ∈ Z, i < n) →
      Hc (entropyOf (Real.logb 2) (insertRvf (fun o => [ℓ o]) none t)) X Z
        = Hc (entropyOf (Real.logb 2) t) X Z := by
    intro X Z hX hZ
    unfold Hc
    rw [entropyOf_old ℓ n t hlen (vunion X Z) (by
        intro i hi
        rcases (mem_vunion X Z i).mp hi with h | h
        · exact hX i h
        · exact hZ i h),
      entropyOf_old ℓ n t hlen (vnorm Z) (fun i hi => hZ i ((mem_vnorm Z i).mp hi))]
  have hU : ∀ i ∈ vunions groups, i < n := by
    intro i hi
    obtain ⟨g', hg', hig'⟩ := (mem_vunions groups i).mp hi
    exact hg g' hg' i hig'
  rw [eval_dtcC, eval_dtcC, eval_residualC, eval_residualC, hHc _ _ hU (by simp)]
  congr 1
  congr 1
  apply List.map_congr_left
  intro g hgm
  apply hHc _ _ (hg g hgm)
  intro i hi
  rcases (mem_vunion _ _ i).mp hi with h | h
  · exact hU i ((mem_vdiff _ _ i).mp h).1
  · exact absurd h List.not_mem_nil

end Insert

end Dit.Lemmas.FciBound
