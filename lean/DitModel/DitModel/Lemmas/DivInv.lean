/-
Helper lemmas for the C08 invariance statements about the divergences of `Core/Diverge.lean`
that are not covered in Props/C08.lean: Jensen–Shannon divergence of several tables, cross entropy,
Hellinger distance, the power-sum family, the companion matrix / characteristic polynomial of the
maximum correlation, the cost of a transport plan. Property theorems are in Props/C08Div.lean.
-/
import DitModel.Lemmas.Transform
import DitModel.Lemmas.Diverge

set_option linter.unusedSectionVars false

namespace Dit.Lemmas.DivInv
open Dit Dit.Lemmas.Table Dit.Lemmas.Transform

/-! ### List helpers -/

section ListHelpers

theorem zipWith_congr_left {β γ δ : Type} (f g : β → γ → δ) (l1 : List β) (l2 : List γ)
    (h : ∀ a ∈ l1, ∀ b, f a b = g a b) : List.zipWith f l1 l2 = List.zipWith g l1 l2 := by
  induction l1 generalizing l2 with
  | nil => rfl
  | cons a t ih =>
    cases l2 with
    | nil => rfl
    | cons b u =>
      rw [List.zipWith_cons_cons, List.zipWith_cons_cons, h a List.mem_cons_self b,
        ih u (fun a' ha' => h a' (List.mem_cons_of_mem _ ha'))]

theorem map_eq_map_of_forall₂ {β β' γ : Type} {R : β → β' → Prop} (f : β → γ) (g : β' → γ)
    (hR : ∀ a b, R a b → f a = g b) {p : List β} {p' : List β'} (h : List.Forall₂ R p p') :
    p.map f = p'.map g := by
  induction h with
  | nil => rfl
  | cons hab _ ih => rw [List.map_cons, List.map_cons, hR _ _ hab, ih]

/-- A duplicate-free list that contains another duplicate-free list is, up to order, that list
followed by the rest. -/
theorem perm_append_filter_of_subset {κ : Type} [DecidableEq κ] {L L' : List κ} (hL : L.Nodup)
    (hL' : L'.Nodup) (hsub : ∀ a ∈ L, a ∈ L') :
    L'.Perm (L ++ L'.filter (fun a => decide (a ∉ L))) := by
  rw [List.perm_ext_iff_of_nodup hL']
  · intro a
    simp only [List.mem_append, List.mem_filter, decide_eq_true_eq]
    constructor
    · intro h
      by_cases ha : a ∈ L
      · exact Or.inl ha
      · exact Or.inr ⟨h, ha⟩
    · rintro (h | h)
      · exact hsub a h
      · exact h.1
  · refine List.nodup_append.mpr ⟨hL, hL'.filter _, ?_⟩
    intro a ha b hb e
    subst e
    have := (List.mem_filter.mp hb).2
    simp only [decide_eq_true_eq] at this
    exact this ha

end ListHelpers

/-! ### Jensen–Shannon divergence of a family of columns

The pmfs are given as `items.map (fun t => L.map (F t))`: component `t` has the value `F t k` at
the label `k`, and all components are listed along the same labels `L`. -/

section Cols
variable {α ι κ : Type} [Ring α] [DecidableEq α]

def cols (F : ι → κ → α) (items : List ι) (L : List κ) : List (List α) :=
  items.map (fun t => L.map (F t))

theorem cols_congr (F F' : ι → κ → α) (items : List ι) (L : List κ)
    (h : ∀ t ∈ items, ∀ k ∈ L, F t k = F' t k) : cols F items L = cols F' items L := by
  unfold cols
  apply List.map_congr_left
  intro t ht
  apply List.map_congr_left
  intro k hk
  exact h t ht k hk

theorem mixVals_cols (F : ι → κ → α) (items : List ι) (w : List α) (L : List κ)
    (hne : items ≠ []) :
    mixVals (cols F items L) w
      = L.map (fun k => (List.zipWith (fun t wi => wi * F t k) items w).sum) := by
  cases items with
  | nil => exact absurd rfl hne
  | cons t0 ts =>
    show (List.range (L.map (F t0)).length).map _ = _
    apply List.ext_getElem
    · simp
    · intro j h1 h2
      have hj : j < L.length := by simpa using h2
      simp only [List.getElem_map, List.getElem_range]
      rw [lsum_eq_sum]
      show (List.zipWith _ (List.map _ (t0 :: ts)) w).sum = _
      rw [List.zipWith_map_left]
      congr 1
      apply zipWith_congr_left
      intro t _ wi
      rw [List.getD_eq_getElem?_getD, List.getElem?_map, List.getElem?_eq_getElem hj]
      rfl

theorem jsdVals_cols (log : α → α) (F : ι → κ → α) (items : List ι) (w : List α) (L : List κ) :
    jsdVals log (cols F items L) w
      = entropyVals log (mixVals (cols F items L) w)
        - (List.zipWith (fun t wi => wi * entropyVals log (L.map (F t))) items w).sum := by
  unfold jsdVals
  rw [lsum_eq_sum]
  congr 2
  unfold cols
  rw [List.zipWith_map_left]

/-- A common permutation of the labels does not change the JSD. -/
theorem jsd_cols_perm (log : α → α) (F : ι → κ → α) (items : List ι) (w : List α)
    {L L' : List κ} (h : L.Perm L') :
    jsdVals log (cols F items L) w = jsdVals log (cols F items L') w := by
  by_cases hne : items = []
  · subst hne; rfl
  rw [jsdVals_cols, jsdVals_cols, mixVals_cols F items w L hne, mixVals_cols F items w L' hne,
    entropyVals_perm log (h.map _)]
  congr 2
  apply zipWith_congr_left
  intro t _ wi
  rw [entropyVals_perm log (h.map _)]

theorem sum_zipWith_mul_zero (items : List ι) (w : List α) :
    (List.zipWith (fun (_ : ι) wi => wi * (0 : α)) items w).sum = 0 := by
  induction items generalizing w with
  | nil => rfl
  | cons a t ih =>
    cases w with
    | nil => rfl
    | cons b u => rw [List.zipWith_cons_cons, List.sum_cons, ih u, mul_zero, add_zero]

/-- Labels at which every component vanishes do not change the JSD. -/
theorem jsd_cols_append_zero (log : α → α) (F : ι → κ → α) (items : List ι) (w : List α)
    (L Z : List κ) (hZ : ∀ k ∈ Z, ∀ t ∈ items, F t k = 0) :
    jsdVals log (cols F items (L ++ Z)) w = jsdVals log (cols F items L) w := by
  by_cases hne : items = []
  · subst hne; rfl
  rw [jsdVals_cols, jsdVals_cols, mixVals_cols F items w _ hne, mixVals_cols F items w L hne,
    List.map_append, entropyVals_append_zeros]
  · congr 2
    apply zipWith_congr_left
    intro t ht wi
    rw [List.map_append, entropyVals_append_zeros]
    intro z hz
    obtain ⟨k, hk, rfl⟩ := List.mem_map.mp hz
    exact hZ k hk t ht
  · intro z hz
    obtain ⟨k, hk, rfl⟩ := List.mem_map.mp hz
    rw [zipWith_congr_left (fun t wi => wi * F t k) (fun _ wi => wi * 0) items w
      (fun t ht wi => by rw [hZ k hk t ht])]
    exact sum_zipWith_mul_zero items w

/-- Permuting the components together with their weights does not change the JSD. -/
theorem jsd_cols_perm_items (log : α → α) (F : ι → κ → α) {l l' : List (ι × α)} (h : l.Perm l')
    (L : List κ) :
    jsdVals log (cols F (l.map Prod.fst) L) (l.map Prod.snd)
      = jsdVals log (cols F (l'.map Prod.fst) L) (l'.map Prod.snd) := by
  by_cases hne : l = []
  · subst hne
    rw [List.nil_perm.mp h]
  have hne' : l' ≠ [] := fun e => hne (List.perm_nil.mp (e ▸ h))
  rw [jsdVals_cols, jsdVals_cols, mixVals_cols F _ _ L (by simpa using hne),
    mixVals_cols F _ _ L (by simpa using hne'), Lemmas.Diverge.zipWith_fst_snd,
    Lemmas.Diverge.zipWith_fst_snd, (h.map _).sum_eq]
  congr 3
  funext k
  rw [Lemmas.Diverge.zipWith_fst_snd, Lemmas.Diverge.zipWith_fst_snd, (h.map _).sum_eq]

end Cols

/-! ### Several tables aligned over the union of their labels -/

section Many
variable {α κ κ' : Type} [DecidableEq κ] [DecidableEq κ']

/-- The labels of several tables, in order of first appearance (`alignUnion` for any number of
tables; for two tables these are the labels of `alignUnion`). -/
def unionKeys (ts : List (Tab κ α)) : List κ := dedup (ts.flatMap keys)

/-- Every table listed along the common labels (absent labels read `0`): the pmfs that
`jsdVals` / `mixVals` take. -/
def alignMany [Zero α] (ts : List (Tab κ α)) : List (List α) :=
  ts.map (fun t => (unionKeys ts).map (lookupD 0 t))

theorem mem_unionKeys {ts : List (Tab κ α)} {k : κ} :
    k ∈ unionKeys ts ↔ ∃ t ∈ ts, k ∈ keys t := by
  unfold unionKeys
  rw [mem_dedup, List.mem_flatMap]

theorem nodup_unionKeys (ts : List (Tab κ α)) : (unionKeys ts).Nodup := nodup_dedup _

theorem unionKeys_perm_of_mem {ts ts' : List (Tab κ α)}
    (h : ∀ k, (∃ t ∈ ts, k ∈ keys t) ↔ (∃ t ∈ ts', k ∈ keys t)) :
    (unionKeys ts).Perm (unionKeys ts') := by
  rw [List.perm_ext_iff_of_nodup (nodup_unionKeys _) (nodup_unionKeys _)]
  intro k
  rw [mem_unionKeys, mem_unionKeys, h k]

theorem mem_keys_forall₂_perm {ts ts' : List (Tab κ α)} (h : List.Forall₂ List.Perm ts' ts)
    (k : κ) : (∃ t ∈ ts', k ∈ keys t) ↔ (∃ t ∈ ts, k ∈ keys t) := by
  induction h with
  | nil => simp
  | @cons a b _ _ hab _ ih =>
    simp only [List.mem_cons, exists_eq_or_imp]
    have e : k ∈ keys a ↔ k ∈ keys b := (hab.map (·.1)).mem_iff
    rw [ih, e]

theorem forall₂_and_nodup {ts ts' : List (Tab κ α)} (h : List.Forall₂ List.Perm ts' ts)
    (hnd : ∀ t ∈ ts, (keys t).Nodup) :
    List.Forall₂ (fun t' t => t'.Perm t ∧ (keys t).Nodup) ts' ts := by
  induction h with
  | nil => exact List.Forall₂.nil
  | cons hab _ ih =>
    exact List.Forall₂.cons ⟨hab, hnd _ List.mem_cons_self⟩
      (ih (fun t ht => hnd t (List.mem_cons_of_mem _ ht)))

variable [Ring α] [DecidableEq α]

theorem alignMany_eq_cols (ts : List (Tab κ α)) :
    alignMany ts = cols (fun t k => lookupD 0 t k) ts (unionKeys ts) := rfl

/-- For two tables, `alignMany` lists the two components of `alignUnion`. -/
theorem alignMany_pair (t1 t2 : Tab κ α) :
    alignMany [t1, t2]
      = [(alignUnion t1 t2).map Prod.fst, (alignUnion t1 t2).map Prod.snd] := by
  unfold alignMany alignUnion unionKeys
  simp [List.flatMap_cons, Function.comp_def]

theorem keys_map_key (φ : κ → κ') (t : Tab κ α) :
    keys (t.map (fun r => (φ r.1, r.2))) = (keys t).map φ := by
  simp [keys, Function.comp_def]

theorem unionKeys_map_inj (φ : κ → κ') (hφ : Function.Injective φ) (ts : List (Tab κ α)) :
    unionKeys (ts.map (fun t => t.map (fun r => (φ r.1, r.2)))) = (unionKeys ts).map φ := by
  unfold unionKeys
  rw [← dedup_map_inj φ hφ, List.flatMap_map, List.map_flatMap]
  congr 1
  apply List.flatMap_congr
  intro t _
  exact keys_map_key φ t

/-- **Relabelling**: the aligned pmfs of relabelled tables are the aligned pmfs. -/
theorem alignMany_map_inj (φ : κ → κ') (hφ : Function.Injective φ) (ts : List (Tab κ α)) :
    alignMany (ts.map (fun t => t.map (fun r => (φ r.1, r.2)))) = alignMany ts := by
  unfold alignMany
  rw [unionKeys_map_inj φ hφ, List.map_map]
  apply List.map_congr_left
  intro t _
  simp only [Function.comp_apply]
  rw [List.map_map]
  apply List.map_congr_left
  intro k _
  simp only [Function.comp_apply]
  exact lookupD_map_inj φ hφ t k

/-- **Row order** of every table (keys pairwise distinct). -/
theorem jsd_perm_rows (log : α → α) {ts ts' : List (Tab κ α)} (w : List α)
    (h : List.Forall₂ List.Perm ts' ts) (hnd : ∀ t ∈ ts, (keys t).Nodup) :
    jsdVals log (alignMany ts') w = jsdVals log (alignMany ts) w := by
  have hk : ∀ k, (∃ t ∈ ts', k ∈ keys t) ↔ (∃ t ∈ ts, k ∈ keys t) := mem_keys_forall₂_perm h
  have hnd' := forall₂_and_nodup h hnd
  have e : alignMany ts' = cols (fun t k => lookupD 0 t k) ts (unionKeys ts') := by
    unfold alignMany cols
    apply map_eq_map_of_forall₂ _ _ _ hnd'
    intro t' t ⟨hp, hn⟩
    apply List.map_congr_left
    intro k _
    exact (lookupD_perm hp.symm hn 0 k).symm
  rw [e, alignMany_eq_cols, jsd_cols_perm log _ ts w (unionKeys_perm_of_mem hk)]

/-- **Order of the distributions**: permuting the (table, weight) pairs. -/
theorem jsd_perm_dists (log : α → α) {l l' : List (Tab κ α × α)} (h : l'.Perm l) :
    jsdVals log (alignMany (l'.map Prod.fst)) (l'.map Prod.snd)
      = jsdVals log (alignMany (l.map Prod.fst)) (l.map Prod.snd) := by
  have hk : ∀ k, (∃ t ∈ l'.map Prod.fst, k ∈ keys t) ↔ (∃ t ∈ l.map Prod.fst, k ∈ keys t) := by
    intro k
    constructor
    · rintro ⟨t, ht, hk⟩; exact ⟨t, ((h.map _).mem_iff).mp ht, hk⟩
    · rintro ⟨t, ht, hk⟩; exact ⟨t, ((h.map _).mem_iff).mpr ht, hk⟩
  rw [alignMany_eq_cols, alignMany_eq_cols,
    jsd_cols_perm log _ _ _ (unionKeys_perm_of_mem hk),
    jsd_cols_perm_items log _ h]

/-- **Appended rows of value zero** in every table. -/
theorem jsd_append_zero (log : α → α) (tz : List (Tab κ α × Tab κ α)) (w : List α)
    (hz : ∀ r ∈ tz, ∀ x ∈ r.2, x.2 = 0) :
    jsdVals log (alignMany (tz.map (fun r => r.1 ++ r.2))) w
      = jsdVals log (alignMany (tz.map Prod.fst)) w := by
  let L := unionKeys (tz.map Prod.fst)
  let L' := unionKeys (tz.map (fun r => r.1 ++ r.2))
  have hsub : ∀ a ∈ L, a ∈ L' := by
    intro a ha
    obtain ⟨t, ht, hk⟩ := mem_unionKeys.mp ha
    obtain ⟨r, hr, rfl⟩ := List.mem_map.mp ht
    refine mem_unionKeys.mpr ⟨r.1 ++ r.2, List.mem_map.mpr ⟨r, hr, rfl⟩, ?_⟩
    rw [keys_append]
    exact List.mem_append_left _ hk
  have hperm := perm_append_filter_of_subset (nodup_unionKeys _) (nodup_unionKeys _) hsub
  have e : alignMany (tz.map (fun r => r.1 ++ r.2))
      = cols (fun t k => lookupD 0 t k) (tz.map Prod.fst) L' := by
    unfold alignMany cols
    rw [List.map_map, List.map_map]
    apply List.map_congr_left
    intro r hr
    apply List.map_congr_left
    intro k _
    exact lookupD_append_zero r.1 r.2 (hz r hr) k
  rw [e, alignMany_eq_cols, jsd_cols_perm log _ _ w hperm, jsd_cols_append_zero]
  intro k hk t ht
  have hk' : k ∉ L := of_decide_eq_true (List.mem_filter.mp hk).2
  apply lookupD_of_not_mem
  intro hkt
  exact hk' (mem_unionKeys.mpr ⟨t, ht, hkt⟩)

/-- **Trimming** the stored zeros of every table (keys pairwise distinct). -/
theorem jsd_trim (log : α → α) (ts : List (Tab κ α)) (w : List α)
    (hnd : ∀ t ∈ ts, (keys t).Nodup) :
    jsdVals log (alignMany (ts.map (fun t => t.filter (fun r => decide (r.2 ≠ 0))))) w
      = jsdVals log (alignMany ts) w := by
  let L := unionKeys ts
  let L' := unionKeys (ts.map (fun t => t.filter (fun r => decide (r.2 ≠ 0))))
  have hsub : ∀ a ∈ L', a ∈ L := by
    intro a ha
    obtain ⟨t', ht', hk⟩ := mem_unionKeys.mp ha
    obtain ⟨t, ht, rfl⟩ := List.mem_map.mp ht'
    exact mem_unionKeys.mpr ⟨t, ht, (keys_filter_sublist _ t).subset hk⟩
  have hperm := perm_append_filter_of_subset (nodup_unionKeys _) (nodup_unionKeys _) hsub
  have e : alignMany (ts.map (fun t => t.filter (fun r => decide (r.2 ≠ 0))))
      = cols (fun t k => lookupD 0 t k) ts L' := by
    unfold alignMany cols
    rw [List.map_map]
    apply List.map_congr_left
    intro t ht
    apply List.map_congr_left
    intro k _
    exact lookupD_trim t (hnd t ht) k
  rw [e, alignMany_eq_cols, jsd_cols_perm log _ _ w hperm, jsd_cols_append_zero]
  intro k hk t ht
  have hk' : k ∉ L' := of_decide_eq_true (List.mem_filter.mp hk).2
  rw [← lookupD_trim t (hnd t ht) k]
  apply lookupD_of_not_mem
  intro hkt
  exact hk' (mem_unionKeys.mpr ⟨_, List.mem_map.mpr ⟨t, ht, rfl⟩, hkt⟩)

end Many

/-! ### Divergences of two tables through the union alignment -/

section Pairs

theorem hellingerVals_perm (sqrt : ℝ → ℝ) {pq pq' : List (ℝ × ℝ)} (h : pq.Perm pq') :
    hellingerVals sqrt pq = hellingerVals sqrt pq' := by
  unfold hellingerVals
  rw [Lemmas.Diverge.bcVals_perm sqrt h]

theorem renyiDiv_perm (R : RealOps ℝ) (a : ℝ) {pq pq' : List (ℝ × ℝ)} (h : pq.Perm pq') :
    renyiDiv R a pq = renyiDiv R a pq' := by
  unfold renyiDiv
  rw [Lemmas.Diverge.powerSum_perm R _ _ h]

theorem tsallisDiv_perm (R : RealOps ℝ) (a : ℝ) {pq pq' : List (ℝ × ℝ)} (h : pq.Perm pq') :
    tsallisDiv R a pq = tsallisDiv R a pq' := by
  unfold tsallisDiv
  rw [Lemmas.Diverge.powerSum_perm R _ _ h]

theorem alphaDiv_perm (R : RealOps ℝ) (two four a : ℝ) {pq pq' : List (ℝ × ℝ)}
    (h : pq.Perm pq') : alphaDiv R two four a pq = alphaDiv R two four a pq' := by
  unfold alphaDiv
  rw [Lemmas.Diverge.powerSum_perm R _ _ h]

variable {κ α : Type} [DecidableEq κ] [AddCommMonoid α]

/-- The union alignment of tables with pairwise distinct keys depends on the stored orders only
up to the order of the pairs (any number type). -/
theorem alignUnion_perm_gen {t1 t1' t2 t2' : Tab κ α} (h1 : t1.Perm t1') (h2 : t2.Perm t2')
    (hnd1 : (keys t1).Nodup) (hnd2 : (keys t2).Nodup) :
    (alignUnion t1 t2).Perm (alignUnion t1' t2') := by
  unfold alignUnion
  have hp : (dedup (keys t1 ++ keys t2)).Perm (dedup (keys t1' ++ keys t2')) := by
    rw [List.perm_ext_iff_of_nodup (nodup_dedup _) (nodup_dedup _)]
    intro a
    simp only [mem_dedup, List.mem_append]
    have e1 : a ∈ keys t1 ↔ a ∈ keys t1' := (h1.map (·.1)).mem_iff
    have e2 : a ∈ keys t2 ↔ a ∈ keys t2' := (h2.map (·.1)).mem_iff
    rw [e1, e2]
  have e : (dedup (keys t1' ++ keys t2')).map (fun k => (lookupD 0 t1' k, lookupD 0 t2' k))
      = (dedup (keys t1' ++ keys t2')).map (fun k => (lookupD 0 t1 k, lookupD 0 t2 k)) := by
    apply List.map_congr_left
    intro k _
    rw [lookupD_perm h1 hnd1, lookupD_perm h2 hnd2]
  rw [e]
  exact hp.map _

/-- **Union alignment under trimming**: the full tables give the pairs of the trimmed tables,
possibly in another order, plus pairs `(0, 0)` for the labels stored with value zero only. -/
theorem alignUnion_trim_perm [DecidableEq α] (t1 t2 : Tab κ α) (hnd1 : (keys t1).Nodup)
    (hnd2 : (keys t2).Nodup) :
    ∃ zs : List (α × α), (∀ p ∈ zs, p = (0, 0))
      ∧ (alignUnion t1 t2).Perm
          (alignUnion (t1.filter (fun r => decide (r.2 ≠ 0)))
            (t2.filter (fun r => decide (r.2 ≠ 0))) ++ zs) := by
  let s1 := t1.filter (fun r => decide (r.2 ≠ 0))
  let s2 := t2.filter (fun r => decide (r.2 ≠ 0))
  let D := dedup (keys t1 ++ keys t2)
  let D' := dedup (keys s1 ++ keys s2)
  let P : κ → α × α := fun k => (lookupD 0 t1 k, lookupD 0 t2 k)
  have hP : (fun k => (lookupD 0 s1 k, lookupD 0 s2 k)) = P := by
    funext k
    show (lookupD 0 (t1.filter _) k, lookupD 0 (t2.filter _) k) = _
    rw [lookupD_trim t1 hnd1, lookupD_trim t2 hnd2]
  have hsub : ∀ a, a ∈ D' → a ∈ D := by
    intro a ha
    simp only [D, D', mem_dedup, List.mem_append] at ha ⊢
    rcases ha with h | h
    · exact Or.inl ((keys_filter_sublist _ t1).subset h)
    · exact Or.inr ((keys_filter_sublist _ t2).subset h)
  have hperm := perm_append_filter_of_subset (nodup_dedup _) (nodup_dedup _) hsub
  refine ⟨(D.filter (fun a => decide (a ∉ D'))).map P, ?_, ?_⟩
  · intro p hp
    obtain ⟨k, hk, rfl⟩ := List.mem_map.mp hp
    have hk' : k ∉ D' := of_decide_eq_true (List.mem_filter.mp hk).2
    simp only [D', mem_dedup, List.mem_append, not_or] at hk'
    rw [← hP]
    show (lookupD 0 s1 k, lookupD 0 s2 k) = _
    rw [lookupD_of_not_mem 0 hk'.1, lookupD_of_not_mem 0 hk'.2]
  · show (D.map _).Perm (D'.map _ ++ _)
    rw [hP, ← List.map_append]
    exact hperm.map P

theorem sum_alignUnion_trim [DecidableEq α] {M : Type} [AddCommMonoid M] (g : α × α → M)
    (hg : g (0, 0) = 0) (t1 t2 : Tab κ α) (hnd1 : (keys t1).Nodup) (hnd2 : (keys t2).Nodup) :
    ((alignUnion (t1.filter (fun r => decide (r.2 ≠ 0)))
        (t2.filter (fun r => decide (r.2 ≠ 0)))).map g).sum
      = ((alignUnion t1 t2).map g).sum := by
  obtain ⟨zs, hzs, hp⟩ := alignUnion_trim_perm t1 t2 hnd1 hnd2
  rw [(hp.map g).sum_eq, List.map_append, List.sum_append]
  have : (zs.map g).sum = 0 := by
    apply List.sum_eq_zero
    intro v hv
    obtain ⟨p, hp', rfl⟩ := List.mem_map.mp hv
    rw [hzs p hp', hg]
  rw [this, add_zero]

end Pairs

/-! ### Matrices indexed by labels -/

section LMat
variable {α ι τ : Type}

theorem map_range_eq_map {β : Type} (ys : List τ) (G : Nat → β) (g : τ → β)
    (h : ∀ k (hk : k < ys.length), G k = g ys[k]) :
    (List.range ys.length).map G = ys.map g := by
  apply List.ext_getElem
  · simp
  · intro i h1 h2
    simp only [List.getElem_map, List.getElem_range]
    exact h i (by simpa using h2)

theorem getD_map_lt {β : Type} (ys : List τ) (g : τ → β) (d : β) (k : Nat)
    (hk : k < ys.length) : (ys.map g).getD k d = g ys[k] := by
  rw [List.getD_eq_getElem?_getD, List.getElem?_map, List.getElem?_eq_getElem hk]
  rfl

theorem getD_range_map {β : Type} (n : Nat) (G : Nat → β) (d : β) (k : Nat) (hk : k < n) :
    ((List.range n).map G).getD k d = G k := by
  rw [List.getD_eq_getElem?_getD, List.getElem?_map,
    List.getElem?_eq_getElem (by simpa using hk)]
  simp

/-- The matrix (list of rows) with entry `v x y` at row `x ∈ xs`, column `y ∈ ys`. -/
def lmatrix (xs : List ι) (ys : List τ) (v : ι → τ → α) : List (List α) :=
  xs.map (fun x => ys.map (v x))

/-- The square matrix with entry `a y y'`. -/
def lmat (ys : List τ) (a : τ → τ → α) : List (List α) := lmatrix ys ys a

theorem lmatrix_getD [Zero α] (xs : List ι) (ys : List τ) (v : ι → τ → α) (i j : Nat)
    (hi : i < xs.length) (hj : j < ys.length) :
    ((lmatrix xs ys v).getD i []).getD j 0 = v xs[i] ys[j] := by
  unfold lmatrix
  rw [getD_map_lt xs _ [] i hi, getD_map_lt ys _ 0 j hj]

end LMat

section Plan
variable {α ι τ : Type} [Semiring α]

/-- The cost of a plan is `Σ_x Σ_y D(x,y) π(x,y)`. -/
theorem planCost_lmatrix (xs : List ι) (ys : List τ) (D P : ι → τ → α) :
    planCost (lmatrix xs ys D) (lmatrix xs ys P)
      = (xs.map (fun x => (ys.map (fun y => D x y * P x y)).sum)).sum := by
  unfold planCost lmatrix
  rw [lsum_eq_sum, Lemmas.Diverge.zipWith_map_map]
  congr 1
  apply List.map_congr_left
  intro x _
  rw [lsum_eq_sum, Lemmas.Diverge.zipWith_map_map]

theorem planCost_perm {xs xs' : List ι} {ys ys' : List τ} (hx : xs'.Perm xs) (hy : ys'.Perm ys)
    (D P : ι → τ → α) :
    planCost (lmatrix xs' ys' D) (lmatrix xs' ys' P)
      = planCost (lmatrix xs ys D) (lmatrix xs ys P) := by
  rw [planCost_lmatrix, planCost_lmatrix, (hx.map _).sum_eq]
  congr 1
  apply List.map_congr_left
  intro x _
  exact (hy.map _).sum_eq

end Plan

/-! ### Maximum correlation: companion matrix and characteristic polynomial -/

section MaxCorr
variable {α ι τ : Type} [Field α] [DecidableEq α] [DecidableEq τ]

/-- Entry `(y, y')` of the companion matrix of the joint `v` on `xs × ys`:
`Σ_x v(x,y) v(x,y') / (p_X(x) p_Y(y'))`, rows / columns of zero marginal skipped. -/
def ccL (v : ι → τ → α) (xs : List ι) (ys : List τ) (y y' : τ) : α :=
  (xs.map (fun x =>
    if (ys.map (v x)).sum = 0 ∨ (xs.map (fun x' => v x' y')).sum = 0 then 0
    else v x y * v x y' / ((ys.map (v x)).sum * (xs.map (fun x' => v x' y')).sum))).sum

theorem ccL_perm (v : ι → τ → α) {xs xs' : List ι} {ys ys' : List τ} (hx : xs'.Perm xs)
    (hy : ys'.Perm ys) : ccL v xs' ys' = ccL v xs ys := by
  funext y y'
  unfold ccL
  rw [(hx.map _).sum_eq]
  congr 1
  apply List.map_congr_left
  intro x _
  rw [(hy.map (v x)).sum_eq, (hx.map (fun x' => v x' y')).sum_eq]

theorem maxcorrCompanion_nil : maxcorrCompanion ([] : List (List α)) = [] := rfl

/-- The companion matrix of a label-indexed joint matrix is label-indexed. -/
theorem maxcorrCompanion_lmatrix (v : ι → τ → α) (xs : List ι) (ys : List τ) (hne : xs ≠ []) :
    maxcorrCompanion (lmatrix xs ys v) = lmat ys (ccL v xs ys) := by
  have hny : ((lmatrix xs ys v).head?.getD []).length = ys.length := by
    cases xs with
    | nil => exact absurd rfl hne
    | cons x t => simp [lmatrix]
  unfold maxcorrCompanion
  simp only [hny]
  unfold lmat
  conv_rhs => unfold lmatrix
  apply map_range_eq_map
  intro j hj
  apply map_range_eq_map
  intro k hk
  rw [lsum_eq_sum, Lemmas.Diverge.zipWith_map_self, getD_range_map _ _ _ k hk, lsum_eq_sum]
  unfold ccL lmatrix
  rw [List.map_map, List.map_map]
  congr 1
  apply List.map_congr_left
  intro x _
  simp only [Function.comp_apply, lsum_eq_sum, Bool.or_eq_true, beq_iff_eq]
  rw [getD_map_lt ys _ 0 j hj, getD_map_lt ys _ 0 k hk]
  have e : (xs.map ((fun row : List α => row.getD k 0) ∘ fun x => ys.map (v x)))
      = xs.map (fun x' => v x' ys[k]) := by
    apply List.map_congr_left
    intro x' _
    exact getD_map_lt ys _ 0 k hk
  rw [e]

/-! The Faddeev–LeVerrier recursion on label-indexed matrices. -/

theorem charPoly_eq (ofNat : Nat → α) (A : List (List α)) :
    charPoly ofNat A
      = ((List.range A.length).foldl (fun (acc : List (List α) × List α) k =>
          (matAddScalar (matMul A acc.1) (-(matTrace (matMul A acc.1)) / ofNat (k + 1)),
            acc.2 ++ [-(matTrace (matMul A acc.1)) / ofNat (k + 1)]))
          ((List.range A.length).map (fun i => (List.range A.length).map
            (fun j => if i = j then (1 : α) else 0)), [])).2 := rfl

theorem length_lmat (ys : List τ) (a : τ → τ → α) : (lmat ys a).length = ys.length := by
  simp [lmat, lmatrix]

theorem matMul_lmat (ys : List τ) (a m : τ → τ → α) :
    matMul (lmat ys a) (lmat ys m)
      = lmat ys (fun y y' => (ys.map (fun z => a y z * m z y')).sum) := by
  by_cases hne : ys = []
  · subst hne; rfl
  have hny : (((lmat ys m).head?).getD []).length = ys.length := by
    cases ys with
    | nil => exact absurd rfl hne
    | cons x t => simp [lmat, lmatrix]
  unfold matMul
  simp only [hny]
  conv_lhs => unfold lmat lmatrix
  conv_rhs => unfold lmat lmatrix
  rw [List.map_map]
  apply List.map_congr_left
  intro y _
  simp only [Function.comp_apply]
  apply map_range_eq_map
  intro k hk
  rw [lsum_eq_sum, Lemmas.Diverge.zipWith_map_map]
  congr 1
  apply List.map_congr_left
  intro z _
  rw [getD_map_lt ys _ 0 k hk]

theorem matTrace_lmat (ys : List τ) (f : τ → τ → α) :
    matTrace (lmat ys f) = (ys.map (fun y => f y y)).sum := by
  unfold matTrace
  rw [lsum_eq_sum, length_lmat]
  congr 1
  apply map_range_eq_map
  intro i hi
  exact lmatrix_getD ys ys f i i hi hi

theorem matAddScalar_lmat (ys : List τ) (hnd : ys.Nodup) (f : τ → τ → α) (c : α) :
    matAddScalar (lmat ys f) c = lmat ys (fun y y' => f y y' + if y = y' then c else 0) := by
  unfold matAddScalar
  rw [length_lmat]
  conv_rhs => unfold lmat lmatrix
  apply map_range_eq_map
  intro i hi
  apply map_range_eq_map
  intro j hj
  rw [show lmat ys f = lmatrix ys ys f from rfl, lmatrix_getD ys ys f i j hi hj]
  congr 1
  by_cases e : i = j
  · subst e; simp
  · have : ys[i] ≠ ys[j] := fun h => e ((hnd.getElem_inj_iff).mp h)
    simp [e, this]

theorem ident_lmat (ys : List τ) (hnd : ys.Nodup) :
    (List.range ys.length).map (fun i => (List.range ys.length).map
        (fun j => if i = j then (1 : α) else 0))
      = lmat ys (fun y y' => if y = y' then 1 else 0) := by
  conv_rhs => unfold lmat lmatrix
  apply map_range_eq_map
  intro i hi
  apply map_range_eq_map
  intro j hj
  by_cases e : i = j
  · subst e; simp
  · have : ys[i] ≠ ys[j] := fun h => e ((hnd.getElem_inj_iff).mp h)
    simp [e, this]

/-- One step of the recursion on entry functions; depends on `ys` only through sums over it. -/
def stepL (ofNat : Nat → α) (ys : List τ) (a : τ → τ → α) (acc : (τ → τ → α) × List α)
    (k : Nat) : (τ → τ → α) × List α :=
  (fun y y' => (ys.map (fun z => a y z * acc.1 z y')).sum
      + if y = y' then
          -((ys.map (fun y => (ys.map (fun z => a y z * acc.1 z y)).sum)).sum) / ofNat k
        else 0,
    acc.2 ++ [-((ys.map (fun y => (ys.map (fun z => a y z * acc.1 z y)).sum)).sum) / ofNat k])

theorem stepL_perm (ofNat : Nat → α) {ys ys' : List τ} (h : ys'.Perm ys) (a : τ → τ → α) :
    stepL ofNat ys' a = stepL ofNat ys a := by
  funext acc k
  have h1 : ∀ y y', (ys'.map (fun z => a y z * acc.1 z y')).sum
      = (ys.map (fun z => a y z * acc.1 z y')).sum := fun y y' => (h.map _).sum_eq
  have h2 : (ys'.map (fun y => (ys.map (fun z => a y z * acc.1 z y)).sum)).sum
      = (ys.map (fun y => (ys.map (fun z => a y z * acc.1 z y)).sum)).sum := (h.map _).sum_eq
  unfold stepL
  simp only [h1, h2]

theorem foldl_step_lmat (ofNat : Nat → α) (ys : List τ) (hnd : ys.Nodup) (a : τ → τ → α)
    (ks : List Nat) (m : τ → τ → α) (cs : List α) :
    ks.foldl (fun (acc : List (List α) × List α) k =>
        (matAddScalar (matMul (lmat ys a) acc.1)
            (-(matTrace (matMul (lmat ys a) acc.1)) / ofNat (k + 1)),
          acc.2 ++ [-(matTrace (matMul (lmat ys a) acc.1)) / ofNat (k + 1)]))
        (lmat ys m, cs)
      = (lmat ys (ks.foldl (fun acc k => stepL ofNat ys a acc (k + 1)) (m, cs)).1,
          (ks.foldl (fun acc k => stepL ofNat ys a acc (k + 1)) (m, cs)).2) := by
  induction ks generalizing m cs with
  | nil => rfl
  | cons k ks ih =>
    rw [List.foldl_cons, List.foldl_cons]
    simp only [matMul_lmat, matTrace_lmat, matAddScalar_lmat ys hnd]
    exact ih _ _

theorem charPoly_lmat (ofNat : Nat → α) (ys : List τ) (hnd : ys.Nodup) (a : τ → τ → α) :
    charPoly ofNat (lmat ys a)
      = ((List.range ys.length).foldl (fun acc k => stepL ofNat ys a acc (k + 1))
          (fun y y' => if y = y' then 1 else 0, [])).2 := by
  rw [charPoly_eq, length_lmat, ident_lmat ys hnd, foldl_step_lmat ofNat ys hnd]

/-- **Permutation similarity preserves the characteristic polynomial** as computed by `charPoly`:
listing the labels in another order gives the same coefficients. -/
theorem charPoly_lmat_perm (ofNat : Nat → α) {ys ys' : List τ} (h : ys'.Perm ys) (hnd : ys.Nodup)
    (a : τ → τ → α) : charPoly ofNat (lmat ys' a) = charPoly ofNat (lmat ys a) := by
  rw [charPoly_lmat ofNat ys hnd, charPoly_lmat ofNat ys' (h.nodup_iff.mpr hnd), h.length_eq,
    stepL_perm ofNat h]

/-- Permuting the rows (symbols of `X`) leaves the companion matrix itself unchanged. -/
theorem maxcorrCompanion_perm_rows (v : ι → τ → α) {xs xs' : List ι} (hx : xs'.Perm xs)
    (ys : List τ) :
    maxcorrCompanion (lmatrix xs' ys v) = maxcorrCompanion (lmatrix xs ys v) := by
  by_cases hne : xs = []
  · subst hne
    rw [List.perm_nil.mp hx]
  have hne' : xs' ≠ [] := fun e => hne (List.nil_perm.mp (e ▸ hx))
  rw [maxcorrCompanion_lmatrix v xs ys hne, maxcorrCompanion_lmatrix v xs' ys hne',
    ccL_perm v hx (List.Perm.refl ys)]

/-- Permuting rows and columns (symbols of `X` and of `Y`) leaves the characteristic polynomial
of the companion matrix unchanged. -/
theorem charPoly_maxcorr_perm (ofNat : Nat → α) (v : ι → τ → α) {xs xs' : List ι}
    {ys ys' : List τ} (hx : xs'.Perm xs) (hy : ys'.Perm ys) (hnd : ys.Nodup) :
    charPoly ofNat (maxcorrCompanion (lmatrix xs' ys' v))
      = charPoly ofNat (maxcorrCompanion (lmatrix xs ys v)) := by
  by_cases hne : xs = []
  · subst hne
    rw [List.perm_nil.mp hx]
    rfl
  have hne' : xs' ≠ [] := fun e => hne (List.nil_perm.mp (e ▸ hx))
  rw [maxcorrCompanion_lmatrix v xs ys hne, maxcorrCompanion_lmatrix v xs' ys' hne',
    ccL_perm v hx hy, charPoly_lmat_perm ofNat hy hnd]

/-- Every rectangular list-of-rows matrix is label-indexed by its row and column numbers. -/
theorem lmatrix_getD_self (M : List (List α)) (n : Nat) (hrow : ∀ row ∈ M, row.length = n) :
    M = lmatrix (List.range M.length) (List.range n) (fun i j => (M.getD i []).getD j 0) := by
  unfold lmatrix
  apply List.ext_getElem
  · simp
  · intro i h1 h2
    have hr : (M[i]).length = n := hrow _ (List.getElem_mem h1)
    simp only [List.getElem_map, List.getElem_range]
    have e : M.getD i [] = M[i] := by
      rw [List.getD_eq_getElem?_getD, List.getElem?_eq_getElem h1]; rfl
    rw [e]
    apply List.ext_getElem
    · simp [hr]
    · intro j h3 h4
      simp only [List.getElem_map, List.getElem_range]
      rw [List.getD_eq_getElem?_getD, List.getElem?_eq_getElem h3]
      rfl

end MaxCorr

/-! ### The joint matrix of a two-variable table; zero padding of several tables -/

section Joint
variable {α σ τ : Type} [DecidableEq σ] [DecidableEq τ]

/-- The joint pmf matrix (rows `x ∈ xs`, columns `y ∈ ys`) of a table of two-variable outcomes
`[x, y]`, absent outcomes read `0`: the input of `maxcorrCompanion`. -/
def jointMat [Zero α] (xs ys : List σ) (t : Tab (List σ) α) : List (List α) :=
  lmatrix xs ys (fun x y => lookupD 0 t [x, y])

theorem jointMat_congr [Zero α] (xs ys : List σ) (t t' : Tab (List σ) α)
    (h : ∀ o, lookupD 0 t' o = lookupD 0 t o) : jointMat xs ys t' = jointMat xs ys t := by
  unfold jointMat
  simp only [h]

theorem jointMat_relabel [AddCommMonoid α] (ρ : Nat → σ → τ) (hρ : ∀ i, Function.Injective (ρ i))
    (xs ys : List σ) (t : Tab (List σ) α) :
    jointMat (xs.map (ρ 0)) (ys.map (ρ 1)) (relabelTab ρ t) = jointMat xs ys t := by
  unfold jointMat lmatrix
  rw [List.map_map]
  apply List.map_congr_left
  intro x _
  simp only [Function.comp_apply]
  rw [List.map_map]
  apply List.map_congr_left
  intro y _
  simp only [Function.comp_apply]
  exact lookupD_map_inj (relabelOutcome ρ) (relabelOutcome_injective ρ hρ) t [x, y]

theorem jsd_padZeros [Ring α] [DecidableEq α] (log : α → α)
    (ets : List (List (List σ) × Tab (List σ) α)) (w : List α) :
    jsdVals log (alignMany (ets.map (fun r => padZeros r.1 r.2))) w
      = jsdVals log (alignMany (ets.map Prod.snd)) w := by
  have h := jsd_append_zero log
    (ets.map (fun r => (r.2, (r.1.filter (fun o => !(keys r.2).contains o)).map
      (fun o => (o, (0 : α)))))) w (by
        intro r hr x hx
        obtain ⟨e, _, rfl⟩ := List.mem_map.mp hr
        obtain ⟨o, _, rfl⟩ := List.mem_map.mp hx
        rfl)
  rw [List.map_map, List.map_map] at h
  exact h

end Joint

/-! ### Bhattacharyya coefficient and power sums under zero rows -/

section PairsReal
variable {κ : Type} [DecidableEq κ]

theorem bcVals_append_zero (sqrt : ℝ → ℝ) (hs : sqrt 0 = 0) (t1 z1 t2 z2 : Tab κ ℝ)
    (hz1 : ∀ r ∈ z1, r.2 = 0) (hz2 : ∀ r ∈ z2, r.2 = 0) :
    bcVals sqrt (alignUnion (t1 ++ z1) (t2 ++ z2)) = bcVals sqrt (alignUnion t1 t2) := by
  unfold bcVals
  rw [lsum_eq_sum, lsum_eq_sum]
  exact sum_alignUnion_append_zero (fun r : ℝ × ℝ => sqrt (r.1 * r.2)) (by simp [hs])
    t1 z1 t2 z2 hz1 hz2

theorem powerSum_append_zero (R : RealOps ℝ) (a b : ℝ) (t1 z1 t2 z2 : Tab κ ℝ)
    (hz1 : ∀ r ∈ z1, r.2 = 0) (hz2 : ∀ r ∈ z2, r.2 = 0) :
    powerSum R a b (alignUnion (t1 ++ z1) (t2 ++ z2)) = powerSum R a b (alignUnion t1 t2) := by
  unfold powerSum
  rw [lsum_eq_sum, lsum_eq_sum]
  exact sum_alignUnion_append_zero
    (fun r : ℝ × ℝ => if (r.1 == 0 || r.2 == 0) = true then 0 else R.pow r.1 a * R.pow r.2 b)
    (by simp) t1 z1 t2 z2 hz1 hz2

theorem bcVals_trim (sqrt : ℝ → ℝ) (hs : sqrt 0 = 0) (t1 t2 : Tab κ ℝ)
    (hnd1 : (keys t1).Nodup) (hnd2 : (keys t2).Nodup) :
    bcVals sqrt (alignUnion (t1.filter (fun r => decide (r.2 ≠ 0)))
        (t2.filter (fun r => decide (r.2 ≠ 0)))) = bcVals sqrt (alignUnion t1 t2) := by
  unfold bcVals
  rw [lsum_eq_sum, lsum_eq_sum]
  exact sum_alignUnion_trim (fun r : ℝ × ℝ => sqrt (r.1 * r.2)) (by simp [hs]) t1 t2 hnd1 hnd2

theorem powerSum_trim (R : RealOps ℝ) (a b : ℝ) (t1 t2 : Tab κ ℝ)
    (hnd1 : (keys t1).Nodup) (hnd2 : (keys t2).Nodup) :
    powerSum R a b (alignUnion (t1.filter (fun r => decide (r.2 ≠ 0)))
        (t2.filter (fun r => decide (r.2 ≠ 0)))) = powerSum R a b (alignUnion t1 t2) := by
  unfold powerSum
  rw [lsum_eq_sum, lsum_eq_sum]
  exact sum_alignUnion_trim
    (fun r : ℝ × ℝ => if (r.1 == 0 || r.2 == 0) = true then 0 else R.pow r.1 a * R.pow r.2 b)
    (by simp) t1 t2 hnd1 hnd2

theorem tvVals_append_zero (two : ℝ) (t1 z1 t2 z2 : Tab κ ℝ)
    (hz1 : ∀ r ∈ z1, r.2 = 0) (hz2 : ∀ r ∈ z2, r.2 = 0) :
    tvVals two (alignUnion (t1 ++ z1) (t2 ++ z2)) = tvVals two (alignUnion t1 t2) := by
  unfold tvVals
  rw [lsum_eq_sum, lsum_eq_sum]
  congr 1
  exact sum_alignUnion_append_zero (fun r : ℝ × ℝ => absV (r.1 - r.2)) (by simp [absV])
    t1 z1 t2 z2 hz1 hz2

/-- Cross entropy over the union alignment equals cross entropy along `t1`. -/
theorem xent_alignUnion (log : ℝ → ℝ) (t1 t2 : Tab κ ℝ) (hnd : (keys t1).Nodup) :
    crossEntropyVals log (alignUnion t1 t2) = crossEntropyVals log (alignPair t1 t2) := by
  rw [Lemmas.Diverge.alignUnion_eq t1 t2 hnd]
  apply Lemmas.Diverge.xentVals_append_zero
  intro r hr
  obtain ⟨k, _, rfl⟩ := List.mem_map.mp hr
  rfl

end PairsReal

end Dit.Lemmas.DivInv
