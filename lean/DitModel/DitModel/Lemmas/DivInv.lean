/-
Helper lemmas for the C08 invariance statements about the divergences of `Core/Diverge.lean`
that are not covered in Props/C08.lean: Jensen–Shannon divergence of several tables, cross entropy,
Hellinger distance, the power-sum family, the companion matrix / characteristic polynomial of the
maximum correlation, the cost of a transport plan. Property theorems are in Props/C08Div.lean.
-/
import DitModel.Lemmas.Transform
import DitModel.Lemmas.Diverge

set_option linter.unusedSectionVars false

namespace Dit.Lemmas.DivInv
open Dit Dit.Lemmas.Table Dit.Lemmas.Transform

/-! ### List helpers -/

section ListHelpers

theorem zipWith_congr_left {β γ δ : Type} (f g : β → γ → δ) (l1 : List β) (l2 : List γ)
    (h : ∀ a ∈ l1, ∀ b, f a b = g a b) : List.zipWith f l1 l2 = List.zipWith g l1 l2 := by
  induction l1 generalizing l2 with
  | nil => rfl
  | cons a t ih =>
    cases l2 with
    | nil => rfl
    | cons b u =>
      rw [List.zipWith_cons_cons, List.zipWith_cons_cons, h a List.mem_cons_self b,
        ih u (fun a' ha' => h a' (List.mem_cons_of_mem _ ha'))]

theorem map_eq_map_of_forall₂ {β β' γ : Type} {R : β → β' → Prop} (f : β → γ) (g : β' → γ)
    (hR : ∀ a b, R a b → f a = g b) {p : List β} {p' : List β'} (h : List.Forall₂ R p p') :
    p.map f = p'.map g := by
  induction h with
  | nil => rfl
  | cons hab _ ih => rw [List.map_cons, List.map_cons, hR _ _ hab, ih]

/-- A duplicate-free list that contains another duplicate-free list is, up to order, that list
followed by the rest. -/
theorem perm_append_filter_of_subset {κ : Type} [DecidableEq κ] {L L' : List κ} (hL : L.Nodup)
    (hL' : L'.Nodup) (hsub : ∀ a ∈ L, a ∈ L') :
    L'.Perm (L ++ L'.filter (fun a => decide (a ∉ L))) := by
  rw [List.perm_ext_iff_of_nodup hL']
  · intro a
    simp only [List.mem_append, List.mem_filter, decide_eq_true_eq]
    constructor
    · intro h
      by_cases ha : a ∈ L
      · exact Or.inl ha
      · exact Or.inr ⟨h, ha⟩
    · rintro (h | h)
      · exact hsub a h
      · exact h.1
  · refine List.nodup_append.mpr ⟨hL, hL'.filter _, ?_⟩
    intro a ha b hb e
    subst e
    have := (List.mem_filter.mp hb).2
    simp only [decide_eq_true_eq] at this
    exact this ha

end ListHelpers

/-! ### Jensen–Shannon divergence of a family of columns

The pmfs are given as `items.map (fun t => L.map (F t))`: component `t` has the value `F t k` at
the label `k`, and all components are listed along the same labels `L`. -/

section Cols
variable {α ι κ : Type} [Ring α] [DecidableEq α]

def cols (F : ι → κ → α) (items : List ι) (L : List κ) : List (List α) :=
  items.map (fun t => L.map (F t))

theorem cols_congr (F F' : ι → κ → α) (items : List ι) (L : List κ)
    (h : ∀ t ∈ items, ∀ k ∈ L, F t k = F' t k) : cols F items L = cols F' items L := by
  unfold cols
  apply List.map_congr_left
  intro t ht
  apply List.map_congr_left
  intro k hk
  exact h t ht k hk

theorem mixVals_cols (F : ι → κ → α) (items : List ι) (w : List α) (L : List κ)
    (hne : items ≠ []) :
    mixVals (cols F items L) w
      = L.map (fun k => (List.zipWith (fun t wi => wi * F t k) items w).sum) := by
  cases items with
  | nil => exact absurd rfl hne
  | cons t0 ts =>
    show (List.range (L.map (F t0)).length).map _ = _
    apply List.ext_getElem
    · simp
    · intro j h1 h2
      have hj : j < L.length := by simpa using h2
      simp only [List.getElem_map, List.getElem_range]
      rw [lsum_eq_sum]
      show (List.zipWith _ (List.map _ (t0 :: ts)) w).sum = _
      rw [List.zipWith_map_left]
      congr 1
      apply zipWith_congr_left
      intro t _ wi
      rw [List.getD_eq_getElem?_getD, List.getElem?_map, List.getElem?_eq_getElem hj]
      rfl

theorem jsdVals_cols (log : α → α) (F : ι → κ → α) (items : List ι) (w : List α) (L : List κ) :
    jsdVals log (cols F items L) w
      = entropyVals log (mixVals (cols F items L) w)
        - (List.zipWith (fun t wi => wi * entropyVals log (L.map (F t))) items w).sum := by
  unfold jsdVals
  rw [lsum_eq_sum]
  congr 2
  unfold cols
  rw [List.zipWith_map_left]

/-- A common permutation of the labels does not change the JSD. -/
theorem jsd_cols_perm (log : α → α) (F : ι → κ → α) (items : List ι) (w : List α)
    {L L' : List κ} (h : L.Perm L') :
    jsdVals log (cols F items L) w = jsdVals log (cols F items L') w := by
  by_cases hne : items = []
  · subst hne; rfl
  rw [jsdVals_cols, jsdVals_cols, mixVals_cols F items w L hne, mixVals_cols F items w L' hne,
    entropyVals_perm log (h.map _)]
  congr 2
  apply zipWith_congr_left
  intro t _ wi
  rw [entropyVals_perm log (h.map _)]

theorem sum_zipWith_mul_zero (items : List ι) (w : List α) :
    (List.zipWith (fun (_ : ι) wi => wi * (0 : α)) items w).sum = 0 := by
  apply List.sum_eq_zero
  intro v hv
  obtain ⟨i, _, _, h⟩ := List.mem_iff_getElem.mp hv |>.imp (fun i h => by
    obtain ⟨hi, e⟩ := h
    exact ⟨hi, trivial, trivial, e⟩)
  rw [List.getElem_zipWith] at h
  rw [← h, mul_zero]

/-- Labels at which every component vanishes do not change the JSD. -/
theorem jsd_cols_append_zero (log : α → α) (F : ι → κ → α) (items : List ι) (w : List α)
    (L Z : List κ) (hZ : ∀ k ∈ Z, ∀ t ∈ items, F t k = 0) :
    jsdVals log (cols F items (L ++ Z)) w = jsdVals log (cols F items L) w := by
  by_cases hne : items = []
  · subst hne; rfl
  rw [jsdVals_cols, jsdVals_cols, mixVals_cols F items w _ hne, mixVals_cols F items w L hne,
    List.map_append, entropyVals_append_zeros]
  · congr 2
    apply zipWith_congr_left
    intro t ht wi
    rw [List.map_append, entropyVals_append_zeros]
    intro z hz
    obtain ⟨k, hk, rfl⟩ := List.mem_map.mp hz
    exact hZ k hk t ht
  · intro z hz
    obtain ⟨k, hk, rfl⟩ := List.mem_map.mp hz
    rw [zipWith_congr_left (fun t wi => wi * F t k) (fun _ wi => wi * 0) items w
      (fun t ht wi => by rw [hZ k hk t ht])]
    exact sum_zipWith_mul_zero items w

/-- Permuting the components together with their weights does not change the JSD. -/
theorem jsd_cols_perm_items (log : α → α) (F : ι → κ → α) {l l' : List (ι × α)} (h : l.Perm l')
    (L : List κ) :
    jsdVals log (cols F (l.map Prod.fst) L) (l.map Prod.snd)
      = jsdVals log (cols F (l'.map Prod.fst) L) (l'.map Prod.snd) := by
  by_cases hne : l = []
  · subst hne
    rw [List.nil_perm.mp h]
  have hne' : l' ≠ [] := fun e => hne (List.perm_nil.mp (e ▸ h))
  rw [jsdVals_cols, jsdVals_cols, mixVals_cols F _ _ L (by simpa using hne),
    mixVals_cols F _ _ L (by simpa using hne'), Lemmas.Diverge.zipWith_fst_snd,
    Lemmas.Diverge.zipWith_fst_snd, (h.map _).sum_eq]
  congr 3
  apply List.map_congr_left
  intro k _
  rw [Lemmas.Diverge.zipWith_fst_snd, Lemmas.Diverge.zipWith_fst_snd, (h.map _).sum_eq]

end Cols

end Dit.Lemmas.DivInv
