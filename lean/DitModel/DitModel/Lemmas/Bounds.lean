/-
Helper lemmas for the trivial bounds of the secret-key measures. Property theorems are in
Props/C15Bounds.lean.

* `Hc_transfer_gen`, `Hc_transfer`, `tc_transfer`, `residual_transfer`, `dtc_transfer`,
  `caekl_transfer`: if `H (S ∪ {n}) = H' (S ∪ Z')` for every set `S` of variables `< n`, then every
  combination built from conditional entropies of sets `< n` given `D ∪ {n}` (with `D` a set of
  variables `< n`) has under `H` the value that the same combination given `D ∪ Z'` has under `H'`.
* `dpi_abstract`: the data-processing inequality `I(X:Y) − I(X:Z) ≤ I(X:Y|W)` for a submodular set
  function in which `I(W:X|Z) = 0`.
* `cmi_symm`: `I(X:Y|Z) = I(Y:X|Z)` as values of combinations.
* row sums / non-negativity of the constant and the copy channel on a table that fits.
-/
import DitModel.Props.C15

set_option linter.unusedSectionVars false

namespace Dit.Lemmas.Bounds
open Dit Dit.Lemmas.Table Dit.Lemmas.InfoAlg Dit.Lemmas.InfoReal
open Dit.Lemmas.AuxJoint (constChan copyChan)

/-! ## Transfer of conditional entropies given the new variable -/

section Transfer
variable {R : Type} [CommRing R] (cast : ℚ →+* R) (H H' : VSet → R) (n : Nat) (Z' : VSet)
  (h : ∀ S : List Nat, (∀ v ∈ S, v < n) → H (vunion S [n]) = H' (vunion S Z'))

include h

/-- `H(X | D ∪ {n}) = H'(X | D ∪ Z')` for sets `X`, `D` of variables `< n`. -/
theorem Hc_transfer_gen (X D : VSet) (hX : ∀ v ∈ X, v < n) (hD : ∀ v ∈ D, v < n) :
    Hc H X (vunion D [n]) = Hc H' X (vunion D Z') := by
  unfold Hc
  have e1 : vunion X (vunion D [n]) = vunion (vunion X D) [n] :=
    vunion_congr (by intro v; simp only [mem_vunion]; tauto)
  have e2 : vunion X (vunion D Z') = vunion (vunion X D) Z' :=
    vunion_congr (by intro v; simp only [mem_vunion]; tauto)
  have e3 : vnorm (vunion D [n]) = vunion D [n] := vnorm_idem _
  have e4 : vnorm (vunion D Z') = vunion D Z' := vnorm_idem _
  have hXD : ∀ v ∈ vunion X D, v < n := by
    intro v hv
    rcases (mem_vunion _ _ _).mp hv with hv | hv
    · exact hX v hv
    · exact hD v hv
  rw [e1, e2, e3, e4, h _ hXD, h D hD]

/-- `H(X | {n}) = H'(X | Z')` for a set `X` of variables `< n`. -/
theorem Hc_transfer (X : VSet) (hX : ∀ v ∈ X, v < n) : Hc H X [n] = Hc H' X Z' := by
  have e1 : Hc H X [n] = Hc H X (vunion [] [n]) :=
    Hc_congr H (by intro v; simp [mem_vunion]) (by intro v; simp [mem_vunion])
  have e2 : Hc H' X (vunion [] Z') = Hc H' X Z' :=
    Hc_congr H' (by intro v; simp [mem_vunion]) (by intro v; simp [mem_vunion])
  rw [e1, Hc_transfer_gen H H' n Z' h X [] hX (by simp), e2]

omit h in
theorem mem_vunions_lt' (n : Nat) (gs : List VSet) (hg : ∀ g ∈ gs, ∀ v ∈ g, v < n) :
    ∀ v ∈ vunions gs, v < n := by
  intro v hv
  obtain ⟨g, hgm, hvg⟩ := (mem_vunions _ _).mp hv
  exact hg g hgm v hvg

/-- Total correlation given the new variable. -/
theorem tc_transfer (groups : List VSet) (hg : ∀ g ∈ groups, ∀ v ∈ g, v < n) :
    Comb.eval cast H (tcC groups [n]) = Comb.eval cast H' (tcC groups Z') := by
  rw [eval_tcC, eval_tcC, Hc_transfer H H' n Z' h _ (mem_vunions_lt' n groups hg)]
  congr 2
  apply List.map_congr_left
  intro g hgm
  exact Hc_transfer H H' n Z' h g (hg g hgm)

/-- Residual entropy given the new variable. -/
theorem residual_transfer (groups : List VSet) (hg : ∀ g ∈ groups, ∀ v ∈ g, v < n) :
    Comb.eval cast H (residualC groups [n]) = Comb.eval cast H' (residualC groups Z') := by
  rw [eval_residualC, eval_residualC]
  congr 1
  apply List.map_congr_left
  intro g hgm
  apply Hc_transfer_gen H H' n Z' h g _ (hg g hgm)
  intro v hv
  exact mem_vunions_lt' n groups hg v ((mem_vdiff _ _ _).mp hv).1

/-- Dual total correlation given the new variable. -/
theorem dtc_transfer (groups : List VSet) (hg : ∀ g ∈ groups, ∀ v ∈ g, v < n) :
    Comb.eval cast H (dtcC groups [n]) = Comb.eval cast H' (dtcC groups Z') := by
  rw [eval_dtcC, eval_dtcC, residual_transfer cast H H' n Z' h groups hg,
    Hc_transfer H H' n Z' h _ (mem_vunions_lt' n groups hg)]

/-- Every CAEKL candidate given the new variable (blocks made of groups). -/
theorem caekl_transfer (groups : List VSet) (hg : ∀ g ∈ groups, ∀ v ∈ g, v < n)
    (P : List (List VSet)) (hP : ∀ B ∈ P, ∀ g ∈ B, g ∈ groups) :
    Comb.eval cast H (caeklCand groups [n] P) = Comb.eval cast H' (caeklCand groups Z' P) := by
  rw [eval_caeklCand, eval_caeklCand, Hc_transfer H H' n Z' h _ (mem_vunions_lt' n groups hg)]
  congr 3
  apply List.map_congr_left
  intro B hB
  exact Hc_transfer H H' n Z' h _
    (mem_vunions_lt' n B (fun g hgB => hg g (hP B hB g hgB)))

end Transfer

/-! ## Symmetry and data processing for a set function -/

section Order
variable {R : Type} [CommRing R] (cast : ℚ →+* R) (H : VSet → R)

/-- `I(X:Y|Z) = I(Y:X|Z)` as values. -/
theorem cmi_symm (X Y Z : VSet) :
    Comb.eval cast H (cmiC X Y Z) = Comb.eval cast H (cmiC Y X Z) := by
  rw [eval_cmiC, eval_cmiC]
  have : Hc H (vunion X Y) Z = Hc H (vunion Y X) Z := by
    rw [vunion_congr (a := X) (b := Y) (a' := Y) (b' := X) (by intro v; tauto)]
  rw [this]; ring

end Order

section DPI
variable {R : Type} [CommRing R] [LinearOrder R] [IsStrictOrderedRing R] {H : VSet → R}

/-- Data processing for a submodular set function: if `I(W:X|Z) = 0` (`W = [n]`, `Z = [z]`) then
`I(X:Y) − I(X:Z) ≤ I(X:Y|W)`. -/
theorem dpi_abstract (hs : Submod H) (X Y : VSet) (n z : Nat)
    (hmk : Hc H [n] [z] + Hc H X [z] - Hc H (vunion [n] X) [z] = 0) :
    (Hc H X [] + Hc H Y [] - Hc H (vunion X Y) [])
        - (Hc H X [] + Hc H [z] [] - Hc H (vunion X [z]) [])
      ≤ Hc H X [n] + Hc H Y [n] - Hc H (vunion X Y) [n] := by
  have s1 := hs X [n] Y
  have s2 := hs X [z] [n]
  unfold Hc at *
  have c1 : H (vunion Y []) = H (vnorm Y) := by
    unfold vunion; rw [vnorm_congr (a := Y ++ []) (b := Y) (by intro v; simp)]
  have c2 : H (vunion (vunion X Y) []) = H (vunion X Y) :=
    congrArg H (vunion_congr (by intro v; simp only [mem_vunion, List.not_mem_nil]; tauto))
  have c3 : H (vunion [z] []) = H (vnorm [z]) := rfl
  have c4 : H (vunion (vunion X [z]) []) = H (vunion X [z]) :=
    congrArg H (vunion_congr (by intro v; simp only [mem_vunion, List.not_mem_nil]; tauto))
  have c5 : H (vunion [n] Y) = H (vunion Y [n]) :=
    congrArg H (vunion_congr (by intro v; tauto))
  have c6 : H (vunion (vunion X [n]) Y) = H (vunion (vunion X Y) [n]) :=
    congrArg H (vunion_congr (by intro v; simp only [mem_vunion]; tauto))
  have c7 : H (vunion [n] [z]) = H (vunion [z] [n]) :=
    congrArg H (vunion_congr (by intro v; tauto))
  have c8 : H (vunion (vunion [n] X) [z]) = H (vunion (vunion X [z]) [n]) :=
    congrArg H (vunion_congr (by intro v; simp only [mem_vunion]; tauto))
  linarith

end DPI

/-! ## The two special channels are channels -/

section Channels

theorem constChan_nonneg (b : List Nat) (k : Nat) : (0 : ℝ) ≤ constChan b k := by
  unfold constChan; split <;> norm_num

theorem copyChan_nonneg (b : List Nat) (k : Nat) : (0 : ℝ) ≤ copyChan b k := by
  unfold copyChan; split <;> norm_num

/-- Rows of the copy channel sum to one on a table whose `z`-values fit the alphabet. -/
theorem copyChan_row_of_fit (t : Tab (List Nat) ℝ) (av : AuxVar) (n z : Nat)
    (hbases : av.bases = [z]) (hz : z < n)
    (hfit : ∀ o ∈ keys t, ∀ j, o[z]? = some j → j < av.bound)
    (hlen : ∀ o ∈ keys t, o.length = n) :
    ∀ o ∈ keys t, ((List.range av.bound).map (copyChan (α := ℝ) (project av.bases o))).sum = 1 := by
  intro o ho
  have hzl : z < o.length := by rw [hlen o ho]; exact hz
  have : project av.bases o = [o[z]] := by
    rw [hbases]; simp [project, List.getElem?_eq_getElem hzl]
  rw [this]
  exact Lemmas.AuxJoint.copyChan_row_sum _ _ (hfit o ho _ (List.getElem?_eq_getElem hzl))

end Channels

/-! ## Example data for the non-vacuity checks of Wip/C15Bounds.lean -/

/-- Example input: `X₀, X₁` fair and independent, `Z = X₀ xor X₁` (coordinate 2). -/
noncomputable def xorT : Tab (List Nat) ℝ :=
  [([0, 0, 0], 1 / 4), ([0, 1, 1], 1 / 4), ([1, 0, 1], 1 / 4), ([1, 1, 0], 1 / 4)]

/-- A noisy copy of the parent: the parent's value with weight 3/4, any other symbol with 1/4. -/
noncomputable def noisyChan : List Nat → Nat → ℝ := fun b k => if b = [k] then 3 / 4 else 1 / 4

theorem xorT_row : ∀ o ∈ keys xorT, ((List.range (⟨[2], 2⟩ : AuxVar).bound).map
    (noisyChan (project (⟨[2], 2⟩ : AuxVar).bases o))).sum = 1 := by
  intro o ho; simp [keys, xorT] at ho
  rcases ho with rfl | rfl | rfl | rfl <;> simp [noisyChan, project, List.range_succ] <;>
    norm_num

theorem xorT_chan : ∀ o ∈ keys xorT, ∀ k < (⟨[2], 2⟩ : AuxVar).bound,
    0 ≤ noisyChan (project (⟨[2], 2⟩ : AuxVar).bases o) k := by
  intro o _ k _; unfold noisyChan; split <;> norm_num

theorem xorT_len : ∀ o ∈ keys xorT, o.length = 3 := by
  intro o ho; simp [keys, xorT] at ho; rcases ho with rfl | rfl | rfl | rfl <;> rfl

theorem xorT_nonneg : ∀ r ∈ xorT, 0 ≤ r.2 := by
  intro r hr; simp [xorT] at hr; rcases hr with rfl | rfl | rfl | rfl <;> norm_num

theorem xorT_fit : ∀ o ∈ keys xorT, ∀ j, o[2]? = some j → j < (⟨[2], 2⟩ : AuxVar).bound := by
  intro o ho j hj; simp [keys, xorT] at ho
  rcases ho with rfl | rfl | rfl | rfl <;> simp at hj <;> show j < 2 <;> omega

end Dit.Lemmas.Bounds
