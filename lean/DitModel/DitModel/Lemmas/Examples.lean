/-
Helper lemmas for C11 (example-distribution part) and the binning clause of C19: `words`,
`giantBit`, `nModM`, `iidSum`, `gateTab`, `binomialTab`, `hypergeometricTab`, `uniformRange`,
`summedDice`, `uniformBin` of Core/Examples.lean.
Property theorems: Props/C11Examples.lean.
-/
import DitModel.Core.Examples
import DitModel.Lemmas.Table
import DitModel.Lemmas.Constructors
import Mathlib.Data.Nat.Choose.Sum
import Mathlib.Data.Nat.Choose.Vandermonde
import Mathlib.Algebra.BigOperators.Group.Finset.Basic
import Mathlib.Algebra.BigOperators.NatAntidiagonal
import Mathlib.Algebra.BigOperators.Field
import Mathlib.Algebra.Order.Field.Basic
import Mathlib.Tactic.Ring
import Mathlib.Tactic.FieldSimp
import Mathlib.Tactic.Linarith
import Mathlib.Tactic.Positivity

set_option linter.unusedSectionVars false

namespace Dit.Lemmas.Examples
open Dit Dit.Lemmas.Table Dit.Lemmas.Cond Dit.Lemmas.Constructors

/-! ## `cartesian`, `words` -/

section Words

theorem length_cartesian {σ : Type} (as : List (List σ)) :
    (cartesian as).length = (as.map List.length).prod := by
  induction as with
  | nil => simp [cartesian]
  | cons a rest ih =>
    simp only [cartesian, List.length_flatMap, List.length_map, ih, List.map_const',
      List.sum_replicate, smul_eq_mul, List.map_cons, List.prod_cons]

theorem words_zero (k : Nat) : words k 0 = [[]] := rfl

theorem words_succ (k n : Nat) :
    words k (n + 1) = (List.range k).flatMap (fun x => (words k n).map (x :: ·)) := rfl

theorem mem_words {k n : Nat} {w : List Nat} :
    w ∈ words k n ↔ w.length = n ∧ ∀ x ∈ w, x < k := by
  unfold words
  rw [mem_cartesian_iff_getElem]
  simp only [List.length_replicate, List.getElem_replicate, List.mem_range]
  constructor
  · rintro ⟨hl, h⟩
    refine ⟨hl, fun x hx => ?_⟩
    obtain ⟨i, hi, rfl⟩ := List.mem_iff_getElem.mp hx
    exact h i hi (hl ▸ hi)
  · rintro ⟨hl, h⟩
    exact ⟨hl, fun i h1 _ => h _ (List.getElem_mem h1)⟩

theorem nodup_words (k n : Nat) : (words k n).Nodup := by
  unfold words
  apply nodup_cartesian
  intro a ha
  rw [List.eq_of_mem_replicate ha]
  exact List.nodup_range

theorem length_words (k n : Nat) : (words k n).length = k ^ n := by
  unfold words
  rw [length_cartesian]
  simp

theorem words_ne_nil {k n : Nat} (hk : 1 ≤ k) : words k n ≠ [] := by
  intro h
  have := length_words k n
  rw [h] at this
  have : 0 < k ^ n := Nat.pow_pos hk
  simp_all

end Words

/-! ## Tables with a constant value: `L.map (fun w => (key w, c))` -/

section Const
variable {ι κ α : Type} [DecidableEq κ] [AddCommMonoid α]

theorem keys_map_const (L : List ι) (key : ι → κ) (c : α) :
    keys (L.map (fun w => (key w, c))) = L.map key := by
  simp [keys, Function.comp_def]

theorem vals_map_const (L : List ι) (key : ι → κ) (c : α) :
    vals (L.map (fun w => (key w, c))) = List.replicate L.length c := by
  simp [vals, Function.comp_def]

theorem mass_map_const (L : List ι) (key : ι → κ) (c : α) :
    mass (L.map (fun w => (key w, c))) = L.length • c := by
  rw [mass_eq_sum, vals_map_const, List.sum_replicate]

theorem mem_map_const {L : List ι} {key : ι → κ} {c : α} {r : κ × α}
    (h : r ∈ L.map (fun w => (key w, c))) : ∃ w ∈ L, r.1 = key w ∧ r.2 = c := by
  obtain ⟨w, hw, rfl⟩ := List.mem_map.mp h
  exact ⟨w, hw, rfl, rfl⟩

theorem lookup?_map_const (L : List ι) (key : ι → κ) (c : α) (k : κ) :
    lookup? (L.map (fun w => (key w, c))) k = if k ∈ L.map key then some c else none := by
  induction L with
  | nil => simp
  | cons x L ih =>
    rw [List.map_cons, lookup?_cons, ih]
    by_cases h : key x = k
    · simp [h]
    · have h' : ¬ k = key x := fun e => h e.symm
      simp only [h, if_false, List.map_cons, List.mem_cons, h', false_or]

/-- Value of a constant-valued table: `c` on the listed keys, the null value elsewhere. -/
theorem lookupD_map_const (z : α) (L : List ι) (key : ι → κ) (c : α) (k : κ) :
    lookupD z (L.map (fun w => (key w, c))) k = if k ∈ L.map key then c else z := by
  unfold lookupD
  rw [lookup?_map_const]
  split <;> rfl

/-- Event weights of a constant-valued table. -/
theorem wtBy_map_const (q : κ → Prop) [DecidablePred q] (L : List ι) (key : ι → κ) (c : α) :
    wtBy q (L.map (fun w => (key w, c))) = (L.map (fun w => if q (key w) then c else 0)).sum := by
  simp [wtBy, Function.comp_def]

/-- `n · (1/n) = 1` in characteristic zero. -/
theorem nsmul_one_div_cast {α : Type} [Field α] [CharZero α] {n : Nat} (hn : n ≠ 0) :
    n • (1 / (n : α)) = 1 := by
  rw [nsmul_eq_mul]
  have : (n : α) ≠ 0 := Nat.cast_ne_zero.mpr hn
  field_simp

end Const

/-! ## Inputs followed by a function of the inputs: `L.map (fun w => (w ++ [g w], c))`
(`nModM`, `iidSum`, `gateTab`) -/

section App
variable {σ α : Type} [DecidableEq σ] [AddCommMonoid α]

theorem append_singleton_injective (g : List σ → σ) :
    Function.Injective (fun w : List σ => w ++ [g w]) := by
  intro w w' h
  exact (List.append_inj' h rfl).1

theorem app_keys_nodup {L : List (List σ)} (hL : L.Nodup) (g : List σ → σ) (c : α) :
    (keys (L.map (fun w => (w ++ [g w], c)))).Nodup := by
  rw [keys_map_const]
  exact hL.map (append_singleton_injective g)

theorem app_mem_keys {L : List (List σ)} (g : List σ → σ) (c : α) (o : List σ) :
    o ∈ keys (L.map (fun w => (w ++ [g w], c)))
      ↔ o.dropLast ∈ L ∧ o.getLast? = some (g o.dropLast) := by
  rw [keys_map_const, List.mem_map]
  constructor
  · rintro ⟨w, hw, rfl⟩
    simp [hw]
  · rintro ⟨h1, h2⟩
    exact ⟨o.dropLast, h1, List.dropLast_append_getLast? _ h2⟩

/-- Event weights of the marginal on the inputs, for any map `f` that recovers the inputs. -/
theorem app_lookupD_inputs {L : List (List σ)} (hL : L.Nodup) (g : List σ → σ)
    (c : α) (f : List σ → List σ) (hf : ∀ w ∈ L, f (w ++ [g w]) = w) (w : List σ) :
    lookupD 0 (pushforward f (L.map (fun w => (w ++ [g w], c)))) w
      = if w ∈ L then c else 0 := by
  rw [lookupD_pushforward, wtBy_map_const]
  have e : L.map (fun w' => if f (w' ++ [g w']) = w then c else 0)
      = L.map (fun w' => if w = w' then (fun _ => c) w' else 0) := by
    apply List.map_congr_left
    intro w' hw'
    rw [hf w' hw']
    by_cases h : w' = w
    · subst h; simp
    · have h' : ¬ w = w' := fun e => h e.symm
      simp [h, h']
  rw [e]
  by_cases hw : w ∈ L
  · rw [if_pos hw, sum_map_ite_eq_of_nodup hL hw]
  · rw [if_neg hw]
    apply List.sum_eq_zero
    intro x hx
    obtain ⟨w', hw', rfl⟩ := List.mem_map.mp hx
    have : ¬ w = w' := fun e => hw (e ▸ hw')
    simp [this]

end App

/-- Stored outcomes of `L.map (fun w => (w ++ [g w], c))` for `L = words k n`: the words of
length `n + 1` whose first `n` symbols are `< k` and whose last symbol is `g` of the others. -/
theorem app_words_mem_keys {α : Type} [AddCommMonoid α] (k n : Nat) (g : List Nat → Nat) (c : α) (o : List Nat) :
    o ∈ keys ((words k n).map (fun w => (w ++ [g w], c)))
      ↔ o.length = n + 1 ∧ (∀ x ∈ o.dropLast, x < k) ∧ o.getLast? = some (g o.dropLast) := by
  rw [keys_map_const, List.mem_map]
  constructor
  · rintro ⟨w, hw, rfl⟩
    obtain ⟨h1, h2⟩ := mem_words.mp hw
    refine ⟨by simp [h1], ?_, by simp⟩
    rw [List.dropLast_concat]; exact h2
  · rintro ⟨h1, h2, h3⟩
    refine ⟨o.dropLast, mem_words.mpr ⟨by rw [List.length_dropLast, h1]; rfl, h2⟩, ?_⟩
    exact List.dropLast_append_getLast? _ h3

/-- Keys, values of `(words k n).map (fun w => (w ++ [g w], c))`. -/
theorem app_words_table {α : Type} [AddCommMonoid α] (k n : Nat) (g : List Nat → Nat) (c : α) :
    keys ((words k n).map (fun w => (w ++ [g w], c))) = (words k n).map (fun w => w ++ [g w])
      ∧ (keys ((words k n).map (fun w => (w ++ [g w], c)))).Nodup
      ∧ (∀ w ∈ words k n, lookupD 0 ((words k n).map (fun w => (w ++ [g w], c))) (w ++ [g w]) = c)
      ∧ (∀ o, o ∉ keys ((words k n).map (fun w => (w ++ [g w], c))) →
          lookupD 0 ((words k n).map (fun w => (w ++ [g w], c))) o = 0) := by
  refine ⟨keys_map_const _ _ _, app_keys_nodup (nodup_words k n) g c, fun w hw => ?_,
    fun o ho => lookupD_of_not_mem 0 ho⟩
  rw [lookupD_map_const, if_pos]
  exact List.mem_map.mpr ⟨w, hw, rfl⟩

/-- The marginal on the inputs (by `dropLast`, or by projecting onto the first `n` positions) is
uniform with value `c` on `words k n`. -/
theorem app_words_marginal {α : Type} [AddCommMonoid α] (k n : Nat) (g : List Nat → Nat) (c : α)
    (w : List Nat) :
    lookupD 0 (pushforward List.dropLast ((words k n).map (fun w => (w ++ [g w], c)))) w
        = (if w ∈ words k n then c else 0)
      ∧ lookupD 0 (pushforward (project (List.range n))
          ((words k n).map (fun w => (w ++ [g w], c)))) w = (if w ∈ words k n then c else 0) := by
  constructor
  · exact app_lookupD_inputs (nodup_words k n) g c List.dropLast
      (fun w _ => List.dropLast_concat) w
  · refine app_lookupD_inputs (nodup_words k n) g c (project (List.range n)) (fun w' hw' => ?_) w
    rw [project_range, List.take_left' (mem_words.mp hw').1]

/-- Total mass `k^n · c`. -/
theorem app_words_mass {α : Type} [AddCommMonoid α] (k n : Nat) (g : List Nat → Nat) (c : α) :
    mass ((words k n).map (fun w => (w ++ [g w], c))) = (k ^ n) • c := by
  rw [mass_map_const, length_words]

/-! ## Logic gates on bits -/

section Gates

theorem xorGate_lt (w : List Nat) : xorGate w < 2 := Nat.mod_lt _ (by decide)

theorem andGate_eq_ite (w : List Nat) : andGate w = if ∀ x ∈ w, x = 1 then 1 else 0 := by
  unfold andGate
  by_cases h : ∀ x ∈ w, x = 1
  · rw [if_pos h, if_pos]; simpa using h
  · rw [if_neg h, if_neg]; simpa using h

theorem orGate_eq_ite (w : List Nat) : orGate w = if ∃ x ∈ w, x = 1 then 1 else 0 := by
  unfold orGate
  by_cases h : ∃ x ∈ w, x = 1
  · rw [if_pos h, if_pos]; simpa using h
  · rw [if_neg h, if_neg]; simpa using h

/-- On bits, AND is the product. -/
theorem andGate_eq_prod {w : List Nat} (h : ∀ x ∈ w, x < 2) : andGate w = w.prod := by
  rw [andGate_eq_ite]
  induction w with
  | nil => simp
  | cons x w ih =>
    have hx : x < 2 := h x (by simp)
    have ih' := ih (fun y hy => h y (List.mem_cons_of_mem _ hy))
    rw [List.prod_cons, ← ih']
    have : x = 0 ∨ x = 1 := by omega
    rcases this with rfl | rfl
    · simp
    · by_cases hw : ∀ y ∈ w, y = 1 <;> simp [hw]

/-- On bits, OR is "the sum is positive". -/
theorem orGate_eq_sum_pos {w : List Nat} (h : ∀ x ∈ w, x < 2) :
    orGate w = if 0 < w.sum then 1 else 0 := by
  rw [orGate_eq_ite]
  induction w with
  | nil => simp
  | cons x w ih =>
    have hx : x < 2 := h x (by simp)
    have ih' := ih (fun y hy => h y (List.mem_cons_of_mem _ hy))
    have : x = 0 ∨ x = 1 := by omega
    rcases this with rfl | rfl
    · simpa using ih'
    · simp

end Gates

/-! ## `choose`, list sums over `List.range` -/

section Choose

/-- The model's binomial coefficient is Mathlib's. -/
theorem choose_eq_natChoose (n k : Nat) : Dit.choose n k = Nat.choose n k := by
  induction n generalizing k with
  | zero => cases k <;> simp [Dit.choose]
  | succ n ih =>
    cases k with
    | zero => simp [Dit.choose]
    | succ k => rw [Dit.choose, ih, ih, Nat.choose_succ_succ]

/-- A list sum over `List.range n` is the `Finset.range n` sum. -/
theorem sum_map_range_eq {β : Type} [AddCommMonoid β] (f : Nat → β) (n : Nat) :
    ((List.range n).map f).sum = ∑ i ∈ Finset.range n, f i := by
  rw [← List.sum_toFinset f (List.nodup_range), List.toFinset_range]

end Choose

/-! ## `binomialTab` -/

section Binomial
variable {α : Type} [Field α]

/-- The `k`-th binomial term with Mathlib's operations. -/
theorem binomialTab_eq (n : Nat) (p : α) :
    binomialTab (fun m : Nat => (m : α)) n p
      = (List.range (n + 1)).map (fun k => (k, (Nat.choose n k : α) * p ^ k * (1 - p) ^ (n - k))) := by
  unfold binomialTab
  apply List.map_congr_left
  intro k _
  rw [choose_eq_natChoose, Constructors.npow_eq_pow, Constructors.npow_eq_pow]

theorem keys_binomialTab (n : Nat) (p : α) :
    keys (binomialTab (fun m : Nat => (m : α)) n p) = List.range (n + 1) := by
  rw [binomialTab_eq, keys_map_graph]

theorem mass_binomialTab (n : Nat) (p : α) :
    mass (binomialTab (fun m : Nat => (m : α)) n p) = 1 := by
  rw [binomialTab_eq, mass_eq_sum]
  simp only [vals, List.map_map, Function.comp_def]
  rw [sum_map_range_eq]
  have h := add_pow p (1 - p) n
  rw [show p + (1 - p) = 1 by ring, one_pow] at h
  refine (Finset.sum_congr rfl ?_).trans h.symm
  intro k _
  ring

theorem lookupD_binomialTab [DecidableEq α] (n : Nat) (p : α) (k : Nat) :
    lookupD 0 (binomialTab (fun m : Nat => (m : α)) n p) k
      = if k ≤ n then (Nat.choose n k : α) * p ^ k * (1 - p) ^ (n - k) else 0 := by
  rw [binomialTab_eq]
  unfold lookupD
  rw [lookup?_map_graph]
  by_cases h : k ≤ n
  · rw [if_pos (List.mem_range.mpr (by omega)), if_pos h]; rfl
  · rw [if_neg (by rw [List.mem_range]; omega), if_neg h]; rfl

/-- `Σ_k k · C(n,k) p^k q^(n−k) = n p (p+q)^(n−1)`. -/
theorem sum_mul_binomial (n : Nat) (p q : α) :
    ∑ k ∈ Finset.range (n + 1), (k : α) * ((Nat.choose n k : α) * p ^ k * q ^ (n - k))
      = n * p * (p + q) ^ (n - 1) := by
  cases n with
  | zero => simp
  | succ m =>
    rw [Finset.sum_range_succ']
    simp only [Nat.cast_zero, zero_mul, add_zero, Nat.add_sub_cancel, Nat.add_sub_add_right]
    rw [add_pow, Finset.mul_sum]
    apply Finset.sum_congr rfl
    intro k _
    have h := Nat.add_one_mul_choose_eq m k
    have h' : ((m + 1 : Nat) : α) * (Nat.choose m k : α)
        = (Nat.choose (m + 1) (k + 1) : α) * ((k + 1 : Nat) : α) := by
      rw [← Nat.cast_mul, ← Nat.cast_mul, ← h]
    push_cast at h' ⊢
    calc ((k : α) + 1) * ((Nat.choose (m + 1) (k + 1) : α) * p ^ (k + 1) * q ^ (m - k))
        = ((Nat.choose (m + 1) (k + 1) : α) * ((k : α) + 1)) * (p ^ (k + 1) * q ^ (m - k)) := by ring
      _ = (((m : α) + 1) * (Nat.choose m k : α)) * (p ^ (k + 1) * q ^ (m - k)) := by rw [h']
      _ = ((m : α) + 1) * p * (p ^ k * q ^ (m - k) * (Nat.choose m k : α)) := by ring

theorem mean_binomialTab (n : Nat) (p : α) :
    ((binomialTab (fun m : Nat => (m : α)) n p).map (fun r => (r.1 : α) * r.2)).sum = n * p := by
  rw [binomialTab_eq]
  simp only [List.map_map, Function.comp_def]
  rw [sum_map_range_eq, sum_mul_binomial]
  rw [show p + (1 - p) = 1 by ring, one_pow, mul_one]

end Binomial

/-! ## `hypergeometricTab` -/

section Hyper
variable {α : Type} [Field α]

/-- The listed support `max(0, n+K−N) ≤ k ≤ min(K, n)`. -/
def hyperSupport (N K n : Nat) : List Nat :=
  (List.range (min K n + 1)).filter (fun k => decide (n + K ≤ N + k))

theorem mem_hyperSupport {N K n k : Nat} :
    k ∈ hyperSupport N K n ↔ n + K ≤ N + k ∧ k ≤ K ∧ k ≤ n := by
  unfold hyperSupport
  rw [List.mem_filter, List.mem_range, decide_eq_true_eq]
  omega

theorem nodup_hyperSupport (N K n : Nat) : (hyperSupport N K n).Nodup :=
  List.nodup_range.filter _

theorem hypergeometricTab_eq (N K n : Nat) :
    hypergeometricTab (fun m : Nat => (m : α)) N K n
      = (hyperSupport N K n).map (fun k =>
          (k, ((Nat.choose K k * Nat.choose (N - K) (n - k) : Nat) : α) / (Nat.choose N n : α))) := by
  unfold hypergeometricTab hyperSupport
  apply List.map_congr_left
  intro k _
  rw [choose_eq_natChoose, choose_eq_natChoose, choose_eq_natChoose]

/-- Outside `n + K − N ≤ k ≤ K` the hypergeometric term vanishes (`K ≤ N`, so that the truncated
subtraction `N - K` is the true one). -/
theorem hyper_term_eq_zero {N K n k : Nat} (hK : K ≤ N) (h : ¬ (n + K ≤ N + k ∧ k ≤ K)) :
    Nat.choose K k * Nat.choose (N - K) (n - k) = 0 := by
  by_cases hk : k ≤ K
  · have : N - K < n - k := by omega
    rw [Nat.choose_eq_zero_of_lt this, Nat.mul_zero]
  · rw [Nat.choose_eq_zero_of_lt (by omega), Nat.zero_mul]

/-- **Vandermonde** on the listed support: the numerators add up to `C(N, n)`. -/
theorem hyper_vandermonde {N K : Nat} (hK : K ≤ N) (n : Nat) :
    ∑ k ∈ (hyperSupport N K n).toFinset, Nat.choose K k * Nat.choose (N - K) (n - k)
      = Nat.choose N n := by
  have hN : N = K + (N - K) := by omega
  conv_rhs => rw [hN]
  rw [Nat.add_choose_eq,
    Finset.Nat.sum_antidiagonal_eq_sum_range_succ (fun i j => Nat.choose K i * Nat.choose (N - K) j)]
  apply Finset.sum_subset
  · intro k hk
    rw [List.mem_toFinset, mem_hyperSupport] at hk
    rw [Finset.mem_range]; omega
  · intro k _ hk
    rw [List.mem_toFinset, mem_hyperSupport] at hk
    apply hyper_term_eq_zero hK
    intro h; apply hk; rw [Finset.mem_range] at *; omega

theorem keys_hypergeometricTab (N K n : Nat) :
    keys (hypergeometricTab (fun m : Nat => (m : α)) N K n) = hyperSupport N K n := by
  rw [hypergeometricTab_eq, keys_map_graph]

theorem mass_hypergeometricTab [CharZero α] {N K n : Nat} (hK : K ≤ N) (hn : n ≤ N) :
    mass (hypergeometricTab (fun m : Nat => (m : α)) N K n) = 1 := by
  rw [hypergeometricTab_eq, mass_eq_sum]
  simp only [vals, List.map_map, Function.comp_def]
  rw [← List.sum_toFinset _ (nodup_hyperSupport N K n), ← Finset.sum_div, ← Nat.cast_sum,
    hyper_vandermonde hK]
  have : (Nat.choose N n : α) ≠ 0 := Nat.cast_ne_zero.mpr (Nat.choose_pos hn).ne'
  exact div_self this

theorem lookupD_hypergeometricTab [DecidableEq α] (N K n k : Nat) :
    lookupD 0 (hypergeometricTab (fun m : Nat => (m : α)) N K n) k
      = if n + K ≤ N + k ∧ k ≤ K ∧ k ≤ n then
          ((Nat.choose K k * Nat.choose (N - K) (n - k) : Nat) : α) / (Nat.choose N n : α)
        else 0 := by
  rw [hypergeometricTab_eq]
  unfold lookupD
  rw [lookup?_map_graph]
  by_cases h : n + K ≤ N + k ∧ k ≤ K ∧ k ≤ n
  · rw [if_pos (mem_hyperSupport.mpr h), if_pos h]; rfl
  · rw [if_neg (fun hm => h (mem_hyperSupport.mp hm)), if_neg h]; rfl

end Hyper

/-! ## `summedDice` -/

section Dice
variable {α : Type} [Field α]

theorem dice_pairs :
    cartesian [List.range' 1 6, List.range' 1 6]
      = [[1, 1], [1, 2], [1, 3], [1, 4], [1, 5], [1, 6], [2, 1], [2, 2], [2, 3], [2, 4], [2, 5], [2, 6],
         [3, 1], [3, 2], [3, 3], [3, 4], [3, 5], [3, 6], [4, 1], [4, 2], [4, 3], [4, 4], [4, 5], [4, 6],
         [5, 1], [5, 2], [5, 3], [5, 4], [5, 5], [5, 6], [6, 1], [6, 2], [6, 3], [6, 4], [6, 5], [6, 6]] := by
  decide

theorem mem_dice_pairs {o : List Nat} :
    o ∈ cartesian [List.range' 1 6, List.range' 1 6]
      ↔ ∃ i j, (1 ≤ i ∧ i ≤ 6) ∧ (1 ≤ j ∧ j ≤ 6) ∧ o = [i, j] := by
  rw [mem_cartesian]
  constructor
  · intro h
    cases h with
    | cons hi h2 =>
      cases h2 with
      | cons hj h3 =>
        cases h3
        rw [List.mem_range'_1] at hi hj
        exact ⟨_, _, by omega, by omega, rfl⟩
  · rintro ⟨i, j, hi, hj, rfl⟩
    refine List.Forall₂.cons ?_ (List.Forall₂.cons ?_ List.Forall₂.nil) <;>
      rw [List.mem_range'_1] <;> omega

theorem keys_summedDice_nodup (ofNat : Nat → α) (a : α) (b : Nat) :
    (keys (summedDice ofNat a b)).Nodup := by
  unfold summedDice keys
  rw [List.map_map]
  refine (nodup_cartesian ?_).map_on ?_
  · intro l hl
    simp only [List.mem_cons, List.not_mem_nil, or_false, or_self] at hl
    rw [hl]; exact List.nodup_range'
  · intro o ho o' ho' e
    obtain ⟨i, j, _, _, rfl⟩ := mem_dice_pairs.mp ho
    obtain ⟨i', j', _, _, rfl⟩ := mem_dice_pairs.mp ho'
    simp only [Function.comp_apply, List.getD_cons_zero, List.getD_cons_succ, List.cons.injEq,
      and_true] at e
    rw [e.1, e.2.1]

/-- The 36 values of `summed_dice` add up to one: `36·a/36 + 6·(1−a)/6`. -/
theorem mass_summedDice [CharZero α] (a : α) (b : Nat) :
    mass (summedDice (fun m : Nat => (m : α)) a b) = 1 := by
  unfold summedDice
  rw [mass_eq_sum, dice_pairs]
  simp only [vals, List.map_cons, List.map_nil, List.getD_cons_zero, List.getD_cons_succ,
    List.sum_cons, List.sum_nil, Nat.cast_ofNat]
  norm_num
  ring

end Dice

/-! ## `uniformBin`: the last index satisfying a predicate -/

section LastIdx

/-- The fold `best := k if P k` over `0..n-1`: either no index satisfies `P` and the start
value is returned, or the largest index satisfying `P`. -/
theorem foldl_last_spec (P : Nat → Prop) [DecidablePred P] (b0 n : Nat) :
    ((List.range n).foldl (fun best k => if P k then k else best) b0 = b0 ∧ ∀ k, k < n → ¬ P k)
      ∨ ((List.range n).foldl (fun best k => if P k then k else best) b0 < n
          ∧ P ((List.range n).foldl (fun best k => if P k then k else best) b0)
          ∧ ∀ k, (List.range n).foldl (fun best k => if P k then k else best) b0 < k → k < n
              → ¬ P k) := by
  induction n with
  | zero => left; simp
  | succ n ih =>
    rw [List.range_succ, List.foldl_append, List.foldl_cons, List.foldl_nil]
    by_cases hP : P n
    · right
      rw [if_pos hP]
      exact ⟨Nat.lt_succ_self n, hP, fun k h1 h2 => by omega⟩
    · rw [if_neg hP]
      rcases ih with ⟨h1, h2⟩ | ⟨h1, h2, h3⟩
      · left
        refine ⟨h1, fun k hk => ?_⟩
        rcases Nat.lt_succ_iff_lt_or_eq.mp hk with hk | hk
        · exact h2 k hk
        · subst hk; exact hP
      · right
        refine ⟨Nat.lt_succ_of_lt h1, h2, fun k hk1 hk2 => ?_⟩
        rcases Nat.lt_succ_iff_lt_or_eq.mp hk2 with hk | hk
        · exact h3 k hk1 hk
        · subst hk; exact hP

end LastIdx

section Bin
variable {α : Type} [Field α] [LinearOrder α] [IsStrictOrderedRing α]

/-- The predicate tested by `uniformBin`. -/
theorem uniformBin_eq (bins : Nat) (lo range eps x : α) :
    uniformBin (fun m : Nat => (m : α)) bins lo range eps x
      = (List.range bins).foldl
          (fun (best k : Nat) => if (k : α) * (range + eps) ≤ (bins : α) * (x - lo) then k else best)
          (0 : Nat) :=
  rfl

theorem uniformBin_lt {bins : Nat} (hb : 1 ≤ bins) (lo range eps x : α) :
    uniformBin (fun m : Nat => (m : α)) bins lo range eps x < bins := by
  rw [uniformBin_eq]
  rcases foldl_last_spec (fun k : Nat => (k : α) * (range + eps) ≤ (bins : α) * (x - lo)) 0 bins
    with ⟨h1, _⟩ | ⟨h1, _⟩
  · rw [h1]; omega
  · exact h1

/-- The label is the largest `k < bins` with `k·(range+eps) ≤ bins·(x−lo)`, if there is one. -/
theorem uniformBin_last (bins : Nat) (lo range eps x : α) (k : Nat) (hk : k < bins)
    (hP : (k : α) * (range + eps) ≤ (bins : α) * (x - lo)) :
    k ≤ uniformBin (fun m : Nat => (m : α)) bins lo range eps x
      ∧ (uniformBin (fun m : Nat => (m : α)) bins lo range eps x : α) * (range + eps)
          ≤ (bins : α) * (x - lo)
      ∧ ∀ j, uniformBin (fun m : Nat => (m : α)) bins lo range eps x < j → j < bins →
          (bins : α) * (x - lo) < (j : α) * (range + eps) := by
  rw [uniformBin_eq]
  rcases foldl_last_spec (fun k : Nat => (k : α) * (range + eps) ≤ (bins : α) * (x - lo)) 0 bins
    with ⟨_, h2⟩ | ⟨_, h2, h3⟩
  · exact absurd hP (h2 k hk)
  · refine ⟨?_, h2, fun j hj1 hj2 => not_le.mp (h3 j hj1 hj2)⟩
    by_contra hlt
    exact h3 k (not_le.mp hlt) hk hP

/-- Either the label is `0`, or it is an index `< bins` satisfying the tested inequality. -/
theorem uniformBin_cases (bins : Nat) (lo range eps x : α) :
    uniformBin (fun m : Nat => (m : α)) bins lo range eps x = 0
      ∨ (uniformBin (fun m : Nat => (m : α)) bins lo range eps x < bins
          ∧ (uniformBin (fun m : Nat => (m : α)) bins lo range eps x : α) * (range + eps)
              ≤ (bins : α) * (x - lo)) := by
  rw [uniformBin_eq]
  rcases foldl_last_spec (fun k : Nat => (k : α) * (range + eps) ≤ (bins : α) * (x - lo)) 0 bins
    with ⟨h1, _⟩ | ⟨h1, h2, _⟩
  · exact Or.inl h1
  · exact Or.inr ⟨h1, h2⟩

theorem uniformBin_mono (bins : Nat) (lo range eps : α) {x y : α} (hxy : x ≤ y) :
    uniformBin (fun m : Nat => (m : α)) bins lo range eps x
      ≤ uniformBin (fun m : Nat => (m : α)) bins lo range eps y := by
  rcases uniformBin_cases bins lo range eps x with h | ⟨h1, h2⟩
  · rw [h]; exact Nat.zero_le _
  · have hle : (bins : α) * (x - lo) ≤ (bins : α) * (y - lo) :=
      mul_le_mul_of_nonneg_left (by linarith) (Nat.cast_nonneg _)
    exact (uniformBin_last bins lo range eps y _ h1 (le_trans h2 hle)).1

end Bin

end Dit.Lemmas.Examples
