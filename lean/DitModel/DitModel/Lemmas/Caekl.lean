/-
Helper lemmas for `caeklCand` under reordering of a partition. Property theorems are in Props/C05Partitions.lean.
-/
import DitModel.Props.C05
import DitModel.Props.C16Fci

set_option linter.unusedSectionVars false

namespace Dit.Lemmas.Caekl
open Dit Dit.Lemmas.InfoAlg Dit.Lemmas.SetPart Dit.Props.C16Fci

/-- `vunions` depends on the set of members of the block only. -/
theorem vunions_congr {B B' : List VSet} (h : ∀ g, g ∈ B ↔ g ∈ B') : vunions B = vunions B' := by
  unfold vunions
  refine vnorm_congr (fun x => ?_)
  simp only [List.mem_flatten, h]

theorem vunions_toFinset_toList (B : List VSet) : vunions B.toFinset.toList = vunions B :=
  vunions_congr (fun g => by rw [Finset.mem_toList, List.mem_toFinset])

theorem isPart_of {β : Type} [DecidableEq β] {P : List (List β)} {l : List β}
    (h : IsSetPartition P l) : IsPart P l :=
  ⟨h.nonempty, h.nodup, h.disjoint, h.cover⟩

section Sum
variable {R : Type} [CommRing R] (H : VSet → R)

/-- The block terms of a candidate, read off the blocks as finsets. -/
theorem map_Hc_eq_blocksF (Z : VSet) (P : List (List VSet)) :
    P.map (fun B => Hc H (vunions B) Z)
      = (blocksF P).map (fun S : Finset VSet => Hc H (vunions S.toList) Z) := by
  unfold blocksF
  rw [List.map_map]
  refine List.map_congr_left (fun B _ => ?_)
  simp only [Function.comp, vunions_toFinset_toList]

/-- Two presentations of the same set partition have the same block terms up to order. -/
theorem map_Hc_perm (Z : VSet) {P Q : List (List VSet)} {l l' : List VSet}
    (hP : IsPart P l) (hQ : IsPart Q l') (h : Same P Q) :
    (P.map (fun B => Hc H (vunions B) Z)).Perm (Q.map (fun B => Hc H (vunions B) Z)) := by
  rw [map_Hc_eq_blocksF, map_Hc_eq_blocksF]
  exact (h.perm_blocksF hP hQ).map _

theorem sum_Hc_eq (Z : VSet) {P Q : List (List VSet)} {l l' : List VSet}
    (hP : IsPart P l) (hQ : IsPart Q l') (h : Same P Q) :
    (P.map (fun B => Hc H (vunions B) Z)).sum = (Q.map (fun B => Hc H (vunions B) Z)).sum :=
  (map_Hc_perm H Z hP hQ h).sum_eq

end Sum

end Dit.Lemmas.Caekl
