/-
Helper lemmas for C19 (sliding-window word counts). Property theorems are in Props/C19.lean.

The facts about `accum`/`pushforward` needed here are proved locally (namespace
`Dit.Lemmas.Counts`) so that this file depends on `Core/` only.
-/
import DitModel.Core.Counts
import Mathlib.Algebra.BigOperators.Group.List.Basic
import Mathlib.Algebra.BigOperators.Ring.List
import Mathlib.Algebra.BigOperators.Ring.Finset
import Mathlib.Algebra.Field.Basic
import Mathlib.Algebra.CharZero.Defs

set_option linter.unusedSectionVars false

namespace Dit.Lemmas.Counts
open Dit

/-! ### `accum` and `pushforward` -/

section Accum
variable {κ κ' α : Type} [DecidableEq κ] [DecidableEq κ'] [AddCommMonoid α]

theorem lookupD_nil (k : κ) : lookupD (0 : α) ([] : Tab κ α) k = 0 := rfl

theorem lookupD_cons (k0 : κ) (v0 : α) (t : Tab κ α) (k : κ) :
    lookupD (0 : α) ((k0, v0) :: t) k = if k0 = k then v0 else lookupD 0 t k := by
  unfold lookupD
  rw [lookup?]
  split <;> rfl

/-- Value stored after `d[k] += v`. -/
theorem lookupD_accum (t : Tab κ α) (k : κ) (v : α) (k' : κ) :
    lookupD 0 (accum t k v) k' = if k = k' then lookupD 0 t k' + v else lookupD 0 t k' := by
  induction t with
  | nil =>
    simp only [accum, lookupD_cons, lookupD_nil, zero_add]
  | cons r t ih =>
    obtain ⟨k0, v0⟩ := r
    unfold accum
    by_cases h0 : k0 = k
    · subst h0
      simp only [if_true, lookupD_cons]
      by_cases h1 : k0 = k' <;> simp [h1]
    · simp only [h0, if_false, lookupD_cons, ih]
      by_cases h1 : k0 = k'
      · have : ¬ k = k' := fun h => h0 (h1.trans h.symm)
        simp [h1, this]
      · simp [h1]

theorem keys_accum (t : Tab κ α) (k : κ) (v : α) :
    keys (accum t k v) = if k ∈ keys t then keys t else keys t ++ [k] := by
  induction t with
  | nil => simp [accum, keys]
  | cons r t ih =>
    obtain ⟨k0, v0⟩ := r
    unfold accum
    by_cases h0 : k0 = k
    · subst h0; simp [keys]
    · have h0' : ¬ k = k0 := fun h => h0 h.symm
      have ih' := ih
      unfold keys at ih' ⊢
      simp only [h0, if_false, List.map_cons, ih', List.mem_cons, h0', false_or]
      split <;> simp

theorem mem_keys_accum (t : Tab κ α) (k : κ) (v : α) (k' : κ) :
    k' ∈ keys (accum t k v) ↔ k' ∈ keys t ∨ k' = k := by
  rw [keys_accum]
  split
  · rename_i h
    constructor
    · exact Or.inl
    · rintro (h' | rfl)
      · exact h'
      · exact h
  · simp

theorem nodup_keys_accum (t : Tab κ α) (k : κ) (v : α) (h : (keys t).Nodup) :
    (keys (accum t k v)).Nodup := by
  rw [keys_accum]
  split
  · exact h
  · rename_i hk
    rw [List.nodup_append]
    refine ⟨h, by simp, ?_⟩
    intro a ha b hb
    simp only [List.mem_singleton] at hb
    subst hb
    exact fun hab => hk (hab ▸ ha)

theorem sum_vals_accum (t : Tab κ α) (k : κ) (v : α) :
    (vals (accum t k v)).sum = (vals t).sum + v := by
  induction t with
  | nil => simp [accum, vals]
  | cons r t ih =>
    obtain ⟨k0, v0⟩ := r
    unfold accum
    by_cases h0 : k0 = k
    · simp only [h0, if_true, vals, List.map_cons, List.sum_cons]
      rw [add_right_comm]
    · have ih' := ih
      unfold vals at ih' ⊢
      simp only [h0, if_false, List.map_cons, List.sum_cons, ih', add_assoc]

/-- The fold underlying `pushforward`, started from an arbitrary accumulator. -/
def pushFrom (f : κ → κ') (acc : Tab κ' α) (t : Tab κ α) : Tab κ' α :=
  t.foldl (fun acc r => accum acc (f r.1) r.2) acc

theorem pushforward_eq (f : κ → κ') (t : Tab κ α) : pushforward f t = pushFrom f [] t := rfl

theorem pushFrom_nil (f : κ → κ') (acc : Tab κ' α) : pushFrom f acc ([] : Tab κ α) = acc := rfl

theorem pushFrom_cons (f : κ → κ') (acc : Tab κ' α) (r : κ × α) (t : Tab κ α) :
    pushFrom f acc (r :: t) = pushFrom f (accum acc (f r.1) r.2) t := rfl

/-- Mass that `t` sends to the image key `k'`. -/
def fibreSum (f : κ → κ') (t : Tab κ α) (k' : κ') : α :=
  ((t.filter (fun r => f r.1 = k')).map (·.2)).sum

theorem fibreSum_nil (f : κ → κ') (k' : κ') : fibreSum f ([] : Tab κ α) k' = 0 := rfl

theorem fibreSum_cons (f : κ → κ') (r : κ × α) (t : Tab κ α) (k' : κ') :
    fibreSum f (r :: t) k' = (if f r.1 = k' then r.2 else 0) + fibreSum f t k' := by
  unfold fibreSum
  by_cases h : f r.1 = k' <;> simp [h]

theorem lookupD_pushFrom (f : κ → κ') (acc : Tab κ' α) (t : Tab κ α) (k' : κ') :
    lookupD 0 (pushFrom f acc t) k' = lookupD 0 acc k' + fibreSum f t k' := by
  induction t generalizing acc with
  | nil => simp [pushFrom_nil, fibreSum_nil]
  | cons r t ih =>
    rw [pushFrom_cons, ih, lookupD_accum, fibreSum_cons]
    by_cases h : f r.1 = k' <;> simp [h, add_assoc]

theorem mem_keys_pushFrom (f : κ → κ') (acc : Tab κ' α) (t : Tab κ α) (k' : κ') :
    k' ∈ keys (pushFrom f acc t) ↔ k' ∈ keys acc ∨ ∃ r ∈ t, f r.1 = k' := by
  induction t generalizing acc with
  | nil => simp [pushFrom_nil]
  | cons r t ih =>
    rw [pushFrom_cons, ih, mem_keys_accum]
    simp only [List.mem_cons, exists_eq_or_imp]
    constructor
    · rintro ((h | h) | h)
      · exact Or.inl h
      · exact Or.inr (Or.inl h.symm)
      · exact Or.inr (Or.inr h)
    · rintro (h | h | h)
      · exact Or.inl (Or.inl h)
      · exact Or.inl (Or.inr h.symm)
      · exact Or.inr h

theorem nodup_keys_pushFrom (f : κ → κ') (acc : Tab κ' α) (t : Tab κ α)
    (h : (keys acc).Nodup) : (keys (pushFrom f acc t)).Nodup := by
  induction t generalizing acc with
  | nil => exact h
  | cons r t ih => exact ih _ (nodup_keys_accum _ _ _ h)

theorem sum_vals_pushFrom (f : κ → κ') (acc : Tab κ' α) (t : Tab κ α) :
    (vals (pushFrom f acc t)).sum = (vals acc).sum + (vals t).sum := by
  induction t generalizing acc with
  | nil => simp [pushFrom_nil, vals]
  | cons r t ih =>
    rw [pushFrom_cons, ih, sum_vals_accum]
    simp [vals, add_assoc]

/-- Stored value of a pushforward: the sum over the fibre. -/
theorem lookupD_pushforward (f : κ → κ') (t : Tab κ α) (k' : κ') :
    lookupD 0 (pushforward f t) k' = fibreSum f t k' := by
  rw [pushforward_eq, lookupD_pushFrom, lookupD_nil, zero_add]

theorem mem_keys_pushforward (f : κ → κ') (t : Tab κ α) (k' : κ') :
    k' ∈ keys (pushforward f t) ↔ ∃ r ∈ t, f r.1 = k' := by
  rw [pushforward_eq, mem_keys_pushFrom]; simp [keys]

theorem nodup_keys_pushforward (f : κ → κ') (t : Tab κ α) :
    (keys (pushforward f t)).Nodup :=
  nodup_keys_pushFrom f [] t (by simp [keys])

theorem sum_vals_pushforward (f : κ → κ') (t : Tab κ α) :
    (vals (pushforward f t)).sum = (vals t).sum := by
  rw [pushforward_eq, sum_vals_pushFrom]; simp [vals]

end Accum

/-! ### Sliding windows -/

section Windows
variable {σ : Type}

theorem windows_nil (L : Nat) : windows L ([] : List σ) = [] := rfl

theorem windows_cons (L : Nat) (x : σ) (xs : List σ) :
    windows L (x :: xs) =
      if L ≤ xs.length + 1 then (x :: xs).take L :: windows L xs else [] := rfl

theorem windows_eq_nil_of_lt (L : Nat) (data : List σ) (h : data.length < L) :
    windows L data = [] := by
  cases data with
  | nil => rfl
  | cons x xs =>
    rw [windows_cons, if_neg]
    simpa using h

/-- Number of windows, for every `L` (the `L = 0` clause is the degenerate behaviour of the
definition, not used by callers). -/
theorem windows_length_gen (L : Nat) (data : List σ) :
    (windows L data).length = if L = 0 then data.length else data.length + 1 - L := by
  induction data with
  | nil => cases L <;> simp [windows_nil]
  | cons x xs ih =>
    rw [windows_cons]
    by_cases h : L ≤ xs.length + 1
    · simp only [h, if_true, List.length_cons, ih]
      split <;> omega
    · simp only [h, if_false, List.length_nil, List.length_cons]
      split <;> omega

theorem windows_length (L : Nat) (data : List σ) (hL : 1 ≤ L) :
    (windows L data).length = data.length + 1 - L := by
  rw [windows_length_gen, if_neg (by omega)]

theorem windows_getElem (L : Nat) (data : List σ) (i : Nat) (hi : i < (windows L data).length) :
    (windows L data)[i] = (data.drop i).take L := by
  induction data generalizing i with
  | nil => simp [windows_nil] at hi
  | cons x xs ih =>
    have hc := windows_cons L x xs
    by_cases h : L ≤ xs.length + 1
    · rw [if_pos h] at hc
      cases i with
      | zero => simp [hc]
      | succ i =>
        have hi' : i < (windows L xs).length := by
          rw [hc] at hi; simpa using hi
        have := ih i hi'
        simp only [hc, List.getElem_cons_succ, List.drop_succ_cons]
        exact this
    · rw [if_neg h] at hc
      rw [hc] at hi; simp at hi

theorem windows_mem_length (L : Nat) (data : List σ) (w : List σ) (hw : w ∈ windows L data) :
    w.length = L := by
  induction data with
  | nil => simp [windows_nil] at hw
  | cons x xs ih =>
    rw [windows_cons] at hw
    by_cases h : L ≤ xs.length + 1
    · rw [if_pos h] at hw
      rcases List.mem_cons.mp hw with rfl | h'
      · simp [List.length_take]; omega
      · exact ih h'
    · rw [if_neg h] at hw; simp at hw

/-- A word is a window iff it is `L` consecutive symbols starting at some position. -/
theorem mem_windows_iff (L : Nat) (data : List σ) (w : List σ) :
    w ∈ windows L data ↔ ∃ i, i < (windows L data).length ∧ w = (data.drop i).take L := by
  rw [List.mem_iff_getElem]
  constructor
  · rintro ⟨i, hi, rfl⟩
    exact ⟨i, hi, windows_getElem L data i hi⟩
  · rintro ⟨i, hi, rfl⟩
    exact ⟨i, hi, windows_getElem L data i hi⟩

/-- Histories of the length-`(h+f)` windows are the first `#windows(h+f)` windows of length `h`. -/
theorem map_take_windows (h f : Nat) (data : List σ) :
    (windows (h + f) data).map (List.take h) =
      (windows h data).take (windows (h + f) data).length := by
  apply List.ext_getElem
  · rw [List.length_map, List.length_take, windows_length_gen, windows_length_gen]
    split <;> split <;> omega
  · intro i h1 h2
    rw [List.length_map] at h1
    have h3 : i < (windows h data).length := by
      rw [List.length_take] at h2; omega
    rw [List.getElem_map, List.getElem_take, windows_getElem _ _ _ h1, windows_getElem _ _ _ h3,
      List.take_take, Nat.min_eq_left (Nat.le_add_right h f)]

end Windows

/-! ### Word counts -/

section Words
variable {σ : Type} [DecidableEq σ]

theorem fibreSum_ones (ws : List (List σ)) (w : List σ) :
    fibreSum (fun w => w) (ws.map (fun w => (w, 1))) w = ws.count w := by
  induction ws with
  | nil => rfl
  | cons a ws ih =>
    rw [List.map_cons, fibreSum_cons, ih, List.count_cons]
    by_cases h : a = w <;> simp [h, Nat.add_comm]

theorem lookupD_countWords (ws : List (List σ)) (w : List σ) :
    lookupD 0 (countWords ws) w = ws.count w := by
  unfold countWords
  rw [lookupD_pushforward, fibreSum_ones]

theorem mem_keys_countWords (ws : List (List σ)) (w : List σ) :
    w ∈ keys (countWords ws) ↔ w ∈ ws := by
  unfold countWords
  rw [mem_keys_pushforward]
  simp

theorem nodup_keys_countWords (ws : List (List σ)) : (keys (countWords ws)).Nodup :=
  nodup_keys_pushforward _ _

theorem sum_vals_countWords (ws : List (List σ)) : (vals (countWords ws)).sum = ws.length := by
  unfold countWords
  rw [sum_vals_pushforward]
  induction ws with
  | nil => rfl
  | cons a ws ih =>
    simp only [vals, List.map_cons, List.sum_cons, List.length_cons] at ih ⊢
    omega

/-- In a table with duplicate-free keys every row is found by lookup. -/
theorem lookupD_of_mem {κ : Type} [DecidableEq κ] (t : Tab κ Nat) (hn : (keys t).Nodup)
    (k : κ) (v : Nat) (h : (k, v) ∈ t) : lookupD 0 t k = v := by
  induction t with
  | nil => simp at h
  | cons r t ih =>
    obtain ⟨k0, v0⟩ := r
    rw [lookupD_cons]
    have hn' : k0 ∉ keys t ∧ (keys t).Nodup := by simpa [keys] using hn
    rcases List.mem_cons.mp h with h' | h'
    · cases h'; simp
    · have hk : k ∈ keys t := by
        unfold keys; exact List.mem_map.mpr ⟨(k, v), h', rfl⟩
      have : ¬ k0 = k := fun e => hn'.1 (e ▸ hk)
      rw [if_neg this]
      exact ih hn'.2 h'

/-- Summing the counts of a `Counter` of words over the words with history `h'` counts the
list elements whose history is `h'`. -/
theorem fibreSum_countWords (h : Nat) (ws : List (List σ)) (h' : List σ) :
    fibreSum (fun w => w.take h) (countWords ws) h' = (ws.map (List.take h)).count h' := by
  have key : ∀ (acc : Tab (List σ) Nat) (ws : List (List σ)),
      fibreSum (fun w : List σ => w.take h)
        (pushFrom (fun w => w) acc (ws.map (fun w => (w, 1)))) h' =
      fibreSum (fun w : List σ => w.take h) acc h' + (ws.map (List.take h)).count h' := by
    intro acc ws
    induction ws generalizing acc with
    | nil => simp [pushFrom_nil]
    | cons a ws ih =>
      rw [List.map_cons, pushFrom_cons, ih, List.map_cons, List.count_cons]
      have hacc : ∀ (acc : Tab (List σ) Nat) (k : List σ) (v : Nat),
          fibreSum (fun w : List σ => w.take h) (accum acc k v) h' =
            fibreSum (fun w : List σ => w.take h) acc h' + (if k.take h = h' then v else 0) := by
        intro acc k v
        induction acc with
        | nil => simp [accum, fibreSum_cons, fibreSum_nil]
        | cons r acc ih2 =>
          obtain ⟨k0, v0⟩ := r
          unfold accum
          by_cases e : k0 = k
          · subst e
            simp only [if_true, fibreSum_cons]
            by_cases e2 : k0.take h = h' <;> simp [e2]
            omega
          · simp only [e, if_false, fibreSum_cons, ih2]; omega
      rw [hacc]
      by_cases e : a.take h = h'
      · simp [e]; omega
      · simp [e]
  have := key [] ws
  rw [fibreSum_nil, Nat.zero_add] at this
  exact this

end Words

/-! ### Frequencies -/

section Freq
variable {α : Type} [Field α] [CharZero α]

theorem sum_map_cast_div (l : List Nat) (N : Nat) (hN : N ≠ 0) (hs : l.sum = N) :
    (l.map (fun c : Nat => (c : α) / (N : α))).sum = 1 := by
  have hN' : (N : α) ≠ 0 := Nat.cast_ne_zero.mpr hN
  simp only [div_eq_mul_inv]
  rw [List.sum_map_mul_right l (fun c : Nat => (c : α)) ((N : α)⁻¹), ← Nat.cast_list_sum, hs,
    mul_inv_cancel₀ hN']

end Freq

end Dit.Lemmas.Counts
