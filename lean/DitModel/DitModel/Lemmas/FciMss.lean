/-
Helper lemmas: the classes of the minimal sufficient statistic are a feasible partition for the functional common
information. Property theorems are in Props/C16FciMss.lean.

Everything is over an arbitrary field with decidable equality (values may be zero or negative): the block quantities
of `Core/SetPart.lean` are rewritten as event weights `wtBy`, the conditional law of `condLawAt` is the quotient
`condP` of two event weights (`lookupD_condLawAt`), and the product test of `blockIndep` follows from the
"cross-multiplied" equality of the conditional laws of two rows of one class, summed over the `X`-values of the class.
-/
import DitModel.Props.C16
import DitModel.Props.C16Fci
import Mathlib.Algebra.BigOperators.Ring.List

set_option linter.unusedSectionVars false

namespace Dit.Lemmas.FciMss
open Dit Dit.Lemmas.Table Dit.Lemmas.Meet Dit.Props.C16Fci

/-! ### Event weights over a commutative monoid: blocks of outcomes, disintegration -/

section Wt
variable {κ κ' α : Type} [DecidableEq κ] [DecidableEq κ'] [AddCommMonoid α]

/-- `wtBy_congr` with the decidability instances left to unification. -/
theorem wtBy_congr' {p q : κ → Prop} {ip : DecidablePred p} {iq : DecidablePred q}
    (t : Tab κ α) (h : ∀ k ∈ keys t, p k ↔ q k) : @wtBy κ α _ p ip t = @wtBy κ α _ q iq t :=
  wtBy_congr p q t h

/-- The mass, inside a duplicate-free block `B`, of the members satisfying `q`, as an event weight. -/
theorem sum_block_filter (t : Tab κ α) (hk : (keys t).Nodup) (B : List κ) (hB : B.Nodup)
    (q : κ → Bool) :
    ((B.filter q).map (fun o => lookupD 0 t o)).sum = wtBy (fun o => o ∈ B ∧ q o = true) t := by
  induction B with
  | nil =>
    rw [wtBy_eq_zero _ t (by rintro k _ ⟨h, _⟩; exact List.not_mem_nil h)]
    rfl
  | cons x B ih =>
    have hnd := List.nodup_cons.mp hB
    rw [wtBy_split (fun o => o ∈ x :: B ∧ q o = true) (fun o => o = x) t]
    have e2 : wtBy (fun o => (o ∈ x :: B ∧ q o = true) ∧ ¬ o = x) t
        = wtBy (fun o => o ∈ B ∧ q o = true) t := by
      apply wtBy_congr
      intro k _
      constructor
      · rintro ⟨⟨hm, hq⟩, hne⟩
        rcases List.mem_cons.mp hm with h | h
        · exact absurd h hne
        · exact ⟨h, hq⟩
      · rintro ⟨hm, hq⟩
        exact ⟨⟨List.mem_cons_of_mem _ hm, hq⟩, fun e => hnd.1 (e ▸ hm)⟩
    rw [e2, ← ih hnd.2]
    cases hq : q x
    · rw [List.filter_cons_of_neg (by simp [hq]),
        wtBy_eq_zero _ t (by
          rintro k _ ⟨⟨_, h⟩, rfl⟩
          rw [hq] at h
          cases h), zero_add]
    · rw [List.filter_cons_of_pos hq, List.map_cons, List.sum_cons, lookupD_eq_wtBy hk]
      congr 1
      apply wtBy_congr
      intro k _
      constructor
      · rintro rfl
        exact ⟨⟨List.mem_cons_self, hq⟩, rfl⟩
      · rintro ⟨_, h⟩
        exact h

/-- Disintegration of an event `E` over the values of `f` (listed without repetition in `l`). -/
theorem sum_wtBy_fibre_on {l : List κ'} (hl : l.Nodup) (f : κ → κ') (E : κ → Prop)
    [DecidablePred E] (t : Tab κ α) (h : ∀ k ∈ keys t, E k → f k ∈ l) :
    (l.map (fun x => wtBy (fun k => E k ∧ f k = x) t)).sum = wtBy E t := by
  have := Cond.sum_map_wtBy_fibre_and hl f E t
  rw [wtBy_congr' (q := E) t (fun k hk => ⟨fun h' => h'.1, fun h' => ⟨h', h k hk h'⟩⟩)] at this
  rw [← this]
  congr 1
  refine List.map_congr_left (fun x _ => ?_)
  exact wtBy_congr' t (fun k _ => and_comm)

end Wt

/-! ### The block quantities of `Core/SetPart.lean` as event weights -/

section Block
variable {σ : Type} [DecidableEq σ] {α : Type} [Field α] [DecidableEq α]

theorem blockMass_eq_wtBy (t : Tab (List σ) α) (hk : (keys t).Nodup) (B : List (List σ))
    (hB : B.Nodup) : blockMass t B = wtBy (fun o => o ∈ B) t := by
  have := sum_block_filter t hk B hB (fun _ => true)
  rw [List.filter_true] at this
  unfold blockMass
  rw [Table.lsum_eq_sum, this]
  exact wtBy_congr' t (fun k _ => by simp)

theorem blockMargin_eq_wtBy (t : Tab (List σ) α) (hk : (keys t).Nodup) (B : List (List σ))
    (hB : B.Nodup) (g : List Nat) (v : List σ) :
    blockMargin t B g v = wtBy (fun o => o ∈ B ∧ project g o = v) t := by
  unfold blockMargin
  rw [Table.lsum_eq_sum, sum_block_filter t hk B hB]
  exact wtBy_congr' t (fun k _ => by simp)

theorem blockJoint_eq_wtBy (t : Tab (List σ) α) (hk : (keys t).Nodup) (B : List (List σ))
    (hB : B.Nodup) (groups : List (List Nat)) (vs : List (List σ)) :
    blockJoint t B groups vs
      = wtBy (fun o => o ∈ B ∧ groups.map (fun g => project g o) = vs) t := by
  unfold blockJoint
  rw [Table.lsum_eq_sum, sum_block_filter t hk B hB]
  exact wtBy_congr' t (fun k _ => by simp)

end Block

/-! ### The classes of the minimal sufficient statistic -/

section Mss
variable {σ : Type} [DecidableEq σ] {α : Type} [Field α] [DecidableEq α]

/-- `P(X = x)`. -/
def pW (t : Tab (List σ) α) (X : List Nat) (x : List σ) : α :=
  wtBy (fun k => project X k = x) t

/-- `P(X = x, Y = y)`. -/
def jW (t : Tab (List σ) α) (X Y : List Nat) (x y : List σ) : α :=
  wtBy (fun k => project X k = x ∧ project Y k = y) t

theorem condP_eq (t : Tab (List σ) α) (X Y : List Nat) (o y : List σ) :
    condP t X Y o y = jW t X Y (project X o) y / pW t X (project X o) := by
  unfold condP jW pW
  congr 1
  exact wtBy_congr' t (fun k _ => and_comm)

/-- The marginal is the sum of the joint weights over the observed values of `Y`. -/
theorem pW_eq_sum (t : Tab (List σ) α) (X Y : List Nat) (x : List σ) :
    pW t X x = ((dedup ((keys t).map (project Y))).map (fun y => jW t X Y x y)).sum := by
  unfold pW jW
  rw [sum_wtBy_fibre_on (nodup_dedup _) (project Y) (fun k => project X k = x) t]
  intro k hk _
  exact mem_dedup.mpr (List.mem_map_of_mem hk)

/-- If the conditional law at `x` vanishes identically, so does the marginal weight of `x`. -/
theorem pW_eq_zero_of_law_zero (t : Tab (List σ) α) (X Y : List Nat) (x : List σ)
    (h : ∀ y, jW t X Y x y / pW t X x = 0) : pW t X x = 0 := by
  by_contra hne
  apply hne
  rw [pW_eq_sum t X Y x]
  apply List.sum_eq_zero
  intro z hz
  obtain ⟨y, -, rfl⟩ := List.mem_map.mp hz
  rcases div_eq_zero_iff.mp (h y) with h0 | h0
  · exact h0
  · exact absurd h0 hne

/-- **Cross-multiplied equality of the conditional laws** of two related rows: no division, valid whether or not
the marginal weights vanish. -/
theorem cross_of_mssRel (t : Tab (List σ) α) (X Y : List Nat) {o o' : List σ}
    (h : mssRel t X Y o o' = true) (y : List σ) :
    jW t X Y (project X o) y * pW t X (project X o')
      = pW t X (project X o) * jW t X Y (project X o') y := by
  rw [mssRel_iff] at h
  simp only [condP_eq] at h
  by_cases hx : pW t X (project X o) = 0
  · have hx' : pW t X (project X o') = 0 := by
      apply pW_eq_zero_of_law_zero t X Y
      intro y'
      rw [← h y', hx, div_zero]
    rw [hx, hx', mul_zero, zero_mul]
  · by_cases hx' : pW t X (project X o') = 0
    · exfalso
      apply hx
      apply pW_eq_zero_of_law_zero t X Y
      intro y'
      rw [h y', hx', div_zero]
    · have := (div_eq_div_iff hx hx').mp (h y)
      rw [this, mul_comm]

variable (t : Tab (List σ) α) (X Y : List Nat)

/-- A class holds every stored outcome that shares its `X`-value with a member. -/
theorem mem_class_of_project_eq {B : List (List σ)} (hB : B ∈ mssClasses t X Y) {a k : List σ}
    (ha : a ∈ B) (hk : k ∈ keys t) (h : project X k = project X a) : k ∈ B := by
  rw [mssClasses_eq] at hB
  exact (mem_class_iff (mss_equivOn t X Y (keys t)) hB ha hk).mpr
    (mssRel_of_project_eq t X Y h.symm)

theorem mssRel_of_mem_class {B : List (List σ)} (hB : B ∈ mssClasses t X Y) {a a' : List σ}
    (ha : a ∈ B) (ha' : a' ∈ B) : mssRel t X Y a a' = true := by
  rw [mssClasses_eq] at hB
  have he := mss_equivOn t X Y (keys t)
  exact (mem_class_iff he hB ha (mem_rows_of_mem_class he hB ha')).mp ha'

theorem class_nodup (hk : (keys t).Nodup) {B : List (List σ)} (hB : B ∈ mssClasses t X Y) :
    B.Nodup := by
  rw [mssClasses_eq] at hB
  obtain ⟨o, -, rfl⟩ := class_eq_filter (mss_equivOn t X Y (keys t)) hB
  exact hk.filter _

/-- Inside a class, restricting to the class an event that fixes the `X`-value of a member changes nothing. -/
theorem wtBy_class_fibre {B : List (List σ)} (hB : B ∈ mssClasses t X Y) {a : List σ} (ha : a ∈ B)
    (E : List σ → Prop) [DecidablePred E] :
    wtBy (fun k => (k ∈ B ∧ E k) ∧ project X k = project X a) t
      = wtBy (fun k => project X k = project X a ∧ E k) t := by
  apply wtBy_congr' t
  intro k hk
  constructor
  · rintro ⟨⟨-, hE⟩, hx⟩; exact ⟨hx, hE⟩
  · rintro ⟨hx, hE⟩; exact ⟨⟨mem_class_of_project_eq t X Y hB ha hk hx, hE⟩, hx⟩

/-- `X`-margin inside a class at the `X`-value of a member: the whole marginal weight. -/
theorem class_marginX {B : List (List σ)} (hB : B ∈ mssClasses t X Y) {a : List σ} (ha : a ∈ B) :
    wtBy (fun k => k ∈ B ∧ project X k = project X a) t = pW t X (project X a) := by
  unfold pW
  apply wtBy_congr' t
  intro k hk
  exact ⟨fun h => h.2, fun h => ⟨mem_class_of_project_eq t X Y hB ha hk h, h⟩⟩

/-- Mass of a class: the sum of the marginal weights of its `X`-values. -/
theorem class_mass {B : List (List σ)} (hB : B ∈ mssClasses t X Y) :
    wtBy (fun k => k ∈ B) t = ((dedup (B.map (project X))).map (fun x => pW t X x)).sum := by
  rw [← sum_wtBy_fibre_on (nodup_dedup (B.map (project X))) (project X) (fun k => k ∈ B) t
    (fun k _ hkB => mem_dedup.mpr (List.mem_map_of_mem hkB))]
  congr 1
  refine List.map_congr_left (fun x hx => ?_)
  obtain ⟨a, ha, rfl⟩ := List.mem_map.mp (mem_dedup.mp hx)
  exact class_marginX t X Y hB ha

/-- `Y`-margin inside a class: the sum of the joint weights over the `X`-values of the class. -/
theorem class_marginY {B : List (List σ)} (hB : B ∈ mssClasses t X Y) (y : List σ) :
    wtBy (fun k => k ∈ B ∧ project Y k = y) t
      = ((dedup (B.map (project X))).map (fun x => jW t X Y x y)).sum := by
  rw [← sum_wtBy_fibre_on (nodup_dedup (B.map (project X))) (project X)
    (fun k => k ∈ B ∧ project Y k = y) t
    (fun k _ hkB => mem_dedup.mpr (List.mem_map_of_mem hkB.1))]
  congr 1
  refine List.map_congr_left (fun x hx => ?_)
  obtain ⟨a, ha, rfl⟩ := List.mem_map.mp (mem_dedup.mp hx)
  exact wtBy_class_fibre t X Y hB ha (fun k => project Y k = y)

/-- Joint weight inside a class at the `X`-value of a member: the whole joint weight. -/
theorem class_joint {B : List (List σ)} (hB : B ∈ mssClasses t X Y) {a : List σ} (ha : a ∈ B)
    (y : List σ) :
    wtBy (fun k => k ∈ B ∧ [X, Y].map (fun g => project g k) = [project X a, y]) t
      = jW t X Y (project X a) y := by
  unfold jW
  apply wtBy_congr' t
  intro k hk
  simp only [List.map_cons, List.map_nil, List.cons.injEq, and_true]
  constructor
  · rintro ⟨-, h⟩; exact h
  · rintro ⟨hx, hy⟩; exact ⟨mem_class_of_project_eq t X Y hB ha hk hx, hx, hy⟩

/-- **The product identity inside a class** (no division): for a member `a` and any `y`,
`P(x_a, y, B) · P(B) = P(x_a, B) · P(y, B)`. -/
theorem class_product (hk : (keys t).Nodup) {B : List (List σ)} (hB : B ∈ mssClasses t X Y)
    {a : List σ} (ha : a ∈ B) (y : List σ) :
    blockJoint t B [X, Y] [project X a, y] * blockMass t B
      = blockMargin t B X (project X a) * blockMargin t B Y y := by
  have hnd := class_nodup t X Y hk hB
  rw [blockJoint_eq_wtBy t hk B hnd, blockMass_eq_wtBy t hk B hnd, blockMargin_eq_wtBy t hk B hnd,
    blockMargin_eq_wtBy t hk B hnd, class_joint t X Y hB ha, class_marginX t X Y hB ha,
    class_marginY t X Y hB, class_mass t X Y hB, ← List.sum_map_mul_left, ← List.sum_map_mul_left]
  congr 1
  refine List.map_congr_left (fun x hx => ?_)
  obtain ⟨a', ha', rfl⟩ := List.mem_map.mp (mem_dedup.mp hx)
  exact cross_of_mssRel t X Y (mssRel_of_mem_class t X Y hB ha ha') y

/-- Every class passes the test of `blockIndep` for the two groups `X`, `Y`. -/
theorem blockIndep_class (hk : (keys t).Nodup) {B : List (List σ)} (hB : B ∈ mssClasses t X Y) :
    blockIndep t [X, Y] B = true := by
  unfold blockIndep
  rw [List.all_eq_true]
  intro vs hvs
  simp only [blockValueTuples, List.mem_flatMap, List.mem_map, List.mem_singleton] at hvs
  obtain ⟨x, hx, vs', ⟨y, -, vs'', rfl, rfl⟩, rfl⟩ := hvs
  obtain ⟨a, ha, rfl⟩ := List.mem_map.mp (mem_dedup.mp hx)
  rw [decide_eq_true_eq]
  simp only [List.length_cons, List.length_nil, Nat.zero_add, Nat.add_sub_cancel, mpow,
    List.zip_cons_cons, List.zip_nil_right, List.map_cons, List.map_nil, List.foldl_cons,
    List.foldl_nil, mul_one, one_mul]
  exact class_product t X Y hk hB ha y

/-- The partition into the classes is feasible for `[X, Y]` — with duplicate-free keys only: no hypothesis that
the two groups determine the outcome is needed (rows that agree on `X` and `Y` lie in the same class and are
summed together on both sides of the product test). -/
theorem fciFeasible_mssClasses (hk : (keys t).Nodup) :
    fciFeasible t [X, Y] (mssClasses t X Y) = true := by
  unfold fciFeasible
  rw [List.all_eq_true]
  intro B hB
  exact blockIndep_class t X Y hk hB

end Mss

end Dit.Lemmas.FciMss
