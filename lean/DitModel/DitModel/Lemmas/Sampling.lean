/-
Helper lemmas for C12 (sampling scan). Property theorems are in Props/C12.lean.
-/
import DitModel.Core.Sampling
import Mathlib.Algebra.Order.Field.Basic
import Mathlib.Algebra.BigOperators.Group.List.Basic
import Mathlib.Tactic.Linarith

set_option linter.unusedSectionVars false

namespace Dit.Lemmas.Sampling
open Dit

variable {α : Type} [Field α] [LinearOrder α] [IsStrictOrderedRing α]

/-- Cumulative probability of the first `j` stored entries, `F(j-1)` in the statement. -/
def cum (pmf : List α) (j : Nat) : α := (pmf.take j).sum

theorem cum_succ (pmf : List α) (j : Nat) (hj : j < pmf.length) :
    cum pmf (j + 1) = cum pmf j + pmf[j] := by
  unfold cum
  rw [List.take_succ_eq_append_getElem hj, List.sum_append]
  simp

/-- General scan invariant: started with running total `t` at index `j0`, a returned index
`j0 + i` satisfies `t + cum i ≤ u < t + cum (i+1)`, provided `t ≤ u`. -/
theorem scanFrom_some (ps : List α) (u t : α) (j0 k : Nat) (ht : t ≤ u)
    (h : scanFrom ps u t j0 = some k) :
    ∃ i, i < ps.length ∧ k = j0 + i ∧ t + cum ps i ≤ u ∧ u < t + cum ps (i + 1) := by
  induction ps generalizing t j0 with
  | nil => simp [scanFrom] at h
  | cons p ps ih =>
    unfold scanFrom at h
    split at h
    · rename_i hlt
      refine ⟨0, by simp, ?_, ?_, ?_⟩
      · simpa using (Option.some.inj h).symm
      · simpa [cum] using ht
      · simpa [cum] using hlt
    · rename_i hnlt
      have ht' : t + p ≤ u := not_lt.mp hnlt
      obtain ⟨i, hi, hk, hlo, hhi⟩ := ih (t + p) (j0 + 1) ht' h
      refine ⟨i + 1, by simpa using hi, by omega, ?_, ?_⟩
      · have : cum (p :: ps) (i + 1) = p + cum ps i := by simp [cum]
        rw [this]; linarith
      · have : cum (p :: ps) (i + 1 + 1) = p + cum ps (i + 1) := by simp [cum]
        rw [this]; linarith

theorem scanFrom_total (ps : List α) (u t : α) (j0 : Nat) (ht : t ≤ u) (h : u < t + ps.sum) :
    ∃ k, scanFrom ps u t j0 = some k := by
  induction ps generalizing t j0 with
  | nil => simp at h; exact absurd h (not_lt.mpr ht)
  | cons p ps ih =>
    unfold scanFrom
    split
    · exact ⟨j0, rfl⟩
    · rename_i hnlt
      have ht' : t + p ≤ u := not_lt.mp hnlt
      have h' : u < t + p + ps.sum := by simpa [add_assoc] using h
      exact ih (t + p) (j0 + 1) ht' h'

theorem cum_mono (pmf : List α) (hnn : ∀ p ∈ pmf, 0 ≤ p) (i j : Nat) (hij : i ≤ j) :
    cum pmf i ≤ cum pmf j := by
  induction j with
  | zero => simp [Nat.le_zero.mp hij]
  | succ j ih =>
    rcases Nat.lt_or_ge i (j + 1) with hlt | hge
    · have hi : i ≤ j := by omega
      by_cases hj : j < pmf.length
      · rw [cum_succ pmf j hj]
        have := hnn pmf[j] (List.getElem_mem hj)
        linarith [ih hi]
      · have hlen : pmf.length ≤ j := by omega
        have e1 : cum pmf (j + 1) = cum pmf j := by
          unfold cum; rw [List.take_of_length_le (by omega), List.take_of_length_le hlen]
        rw [e1]; exact ih hi
    · have : i = j + 1 := by omega
      rw [this]

theorem scanFrom_onto (ps : List α) (t : α) (j0 i : Nat) (hi : i < ps.length)
    (hnn : ∀ p ∈ ps, 0 ≤ p) (hpos : 0 < ps[i]) :
    scanFrom ps (t + cum ps i) t j0 = some (j0 + i) := by
  induction ps generalizing t j0 i with
  | nil => simp at hi
  | cons p ps ih =>
    unfold scanFrom
    cases i with
    | zero =>
      have : t + cum (p :: ps) 0 < t + p := by simpa [cum] using hpos
      simp [this]
    | succ i =>
      have hc : cum (p :: ps) (i + 1) = p + cum ps i := by simp [cum]
      have hnn' : ∀ q ∈ ps, 0 ≤ q := fun q hq => hnn q (List.mem_cons_of_mem _ hq)
      have h0 : 0 ≤ cum ps i := by
        have := cum_mono ps hnn' 0 i (Nat.zero_le _)
        simpa [cum] using this
      have hnot : ¬ (t + cum (p :: ps) (i + 1) < t + p) := by
        rw [hc]; intro h; linarith
      simp only [hnot, if_false]
      have hi' : i < ps.length := by simpa using hi
      have hpos' : 0 < ps[i] := by simpa using hpos
      have := ih (t + p) (j0 + 1) i hi' hnn' hpos'
      rw [hc, ← add_assoc]
      rw [this]
      congr 1; omega

/-- **Fallback.** When the scan falls off the end (possible only for `u ≥ ΣP`, i.e. through
floating-point rounding of the total), the fallback index carries positive probability. -/
theorem lastPos_pos (ps : List α) (j0 : Nat) (acc : Option Nat) (k : Nat)
    (hacc : ∀ a, acc = some a → a < j0)
    (h : lastPos ps j0 acc = some k) :
    (acc = some k) ∨ (∃ i, ∃ hi : i < ps.length, k = j0 + i ∧ 0 < ps[i]) := by
  induction ps generalizing j0 acc with
  | nil => left; simpa [lastPos] using h
  | cons p ps ih =>
    unfold lastPos at h
    by_cases hp : (0 : α) < p
    · simp only [hp, if_true] at h
      rcases ih (j0 + 1) (some j0) (fun a ha => by cases ha; omega) h with h1 | ⟨i, hi, hk, hpi⟩
      · right; refine ⟨0, by simp, ?_, by simpa using hp⟩
        cases h1; rfl
      · right; exact ⟨i + 1, by simpa using hi, by omega, by simpa using hpi⟩
    · simp only [hp, if_false] at h
      rcases ih (j0 + 1) acc (fun a ha => by have := hacc a ha; omega) h with h1 | ⟨i, hi, hk, hpi⟩
      · left; exact h1
      · right; exact ⟨i + 1, by simpa using hi, by omega, by simpa using hpi⟩

end Dit.Lemmas.Sampling
