/-
Helper lemmas for C15 (auxiliary-variable optimisers): channels built from parameter blocks are
row-stochastic; `auxStep` / `constructJoint` preserve mass and the marginal on the old
coordinates, factorise along the declared parents, and the entropy consequences (Markov chain,
deterministic / copied coordinates). Property theorems are in Props/C15.lean.
-/
import DitModel.Core.AuxJoint
import DitModel.Lemmas.Table
import DitModel.Lemmas.InfoReal
import DitModel.Lemmas.Transform
import Mathlib.Algebra.Order.Field.Basic
import Mathlib.Algebra.Order.BigOperators.Group.List
import Mathlib.Tactic.Linarith
import Mathlib.Tactic.FieldSimp

set_option linter.unusedSectionVars false

namespace Dit.Lemmas.AuxJoint
open Dit Dit.Lemmas.Table
open Dit.Lemmas.InfoReal (fibreSum project_eq_iff)

/-! ## Channels from parameter blocks -/

section Channel
variable {α : Type} [Field α] [DecidableEq α]

/-- The row of parameters read by `channelOf` for the parent values `parents`. -/
def paramRow (shape : List Nat) (bound : Nat) (params : List α) (parents : List Nat) : List α :=
  (List.range bound).map (fun j => params.getD (flatIndex shape parents * bound + j) 0)

theorem length_paramRow (shape : List Nat) (bound : Nat) (params : List α) (parents : List Nat) :
    (paramRow shape bound params parents).length = bound := by
  simp [paramRow]

theorem channelOf_eq (ofNat : Nat → α) (shape : List Nat) (bound : Nat) (params : List α)
    (parents : List Nat) (k : Nat) :
    channelOf ofNat shape bound params parents k
      = if (paramRow shape bound params parents).sum = 0 then 1 / ofNat bound
        else (paramRow shape bound params parents).getD k 0
              / (paramRow shape bound params parents).sum := by
  unfold channelOf paramRow
  simp only [lsum_eq_sum, beq_iff_eq]

/-- Summing `l.getD k 0` over all positions of `l` gives the sum of `l`. -/
theorem sum_range_getD (l : List α) :
    ((List.range l.length).map (fun k => l.getD k 0)).sum = l.sum := by
  induction l with
  | nil => simp
  | cons x l ih =>
    rw [List.length_cons, List.range_succ_eq_map, List.map_cons, List.map_map, List.sum_cons,
      List.sum_cons]
    congr 1

theorem sum_replicate_const (n : Nat) (c : α) :
    ((List.range n).map (fun _ => c)).sum = (n : α) * c := by
  induction n with
  | zero => simp
  | succ n ih =>
    rw [List.range_succ, List.map_append, List.sum_append, ih]
    simp; ring

/-- **Rows sum to one** (general cast): both branches of `channelOf`. -/
theorem channel_row_sum (ofNat : Nat → α) (shape : List Nat) (bound : Nat) (params : List α)
    (parents : List Nat) (hof : ofNat bound = (bound : α)) (hb : (bound : α) ≠ 0) :
    ((List.range bound).map (fun k => channelOf ofNat shape bound params parents k)).sum = 1 := by
  simp only [channelOf_eq]
  by_cases h : (paramRow shape bound params parents).sum = 0
  · simp only [h, if_true, hof]
    rw [sum_replicate_const]
    field_simp
  · simp only [h, if_false]
    have e : ((List.range bound).map
          (fun k => (paramRow shape bound params parents).getD k 0
            / (paramRow shape bound params parents).sum)).sum
        = ((List.range bound).map
          (fun k => (paramRow shape bound params parents).getD k 0)).sum
            / (paramRow shape bound params parents).sum := by
      rw [div_eq_mul_inv, ← List.sum_map_mul_right]
      simp only [div_eq_mul_inv]
    rw [e]
    have := sum_range_getD (paramRow shape bound params parents)
    rw [length_paramRow] at this
    rw [this, div_self h]

end Channel

section ChannelOrd
variable {α : Type} [Field α] [LinearOrder α] [IsStrictOrderedRing α]

theorem paramRow_nonneg (shape : List Nat) (bound : Nat) (params : List α) (parents : List Nat)
    (hp : ∀ p ∈ params, 0 ≤ p) : ∀ v ∈ paramRow shape bound params parents, 0 ≤ v := by
  intro v hv
  obtain ⟨j, _, rfl⟩ := List.mem_map.mp hv
  rw [List.getD_eq_getElem?_getD]
  cases h : params[flatIndex shape parents * bound + j]? with
  | none => simp
  | some p => simpa using hp p (List.mem_of_getElem? h)

/-- **Entries are non-negative** when the parameters and the cast of the bound are. -/
theorem channel_nonneg' (ofNat : Nat → α) (shape : List Nat) (bound : Nat) (params : List α)
    (parents : List Nat) (k : Nat) (hof : 0 ≤ ofNat bound) (hp : ∀ p ∈ params, 0 ≤ p) :
    0 ≤ channelOf ofNat shape bound params parents k := by
  rw [channelOf_eq]
  have hrow := paramRow_nonneg shape bound params parents hp
  split
  · exact div_nonneg zero_le_one hof
  · apply div_nonneg
    · rw [List.getD_eq_getElem?_getD]
      cases h : (paramRow shape bound params parents)[k]? with
      | none => simp
      | some p => simpa using hrow p (List.mem_of_getElem? h)
    · exact List.sum_nonneg hrow

end ChannelOrd

/-! ## One conditioning step -/

section Step
variable {α : Type} [CommSemiring α]

theorem auxStep_nil (av : AuxVar) (chan : List Nat → Nat → α) : auxStep [] av chan = [] := rfl

theorem auxStep_cons (r : List Nat × α) (joint : Tab (List Nat) α) (av : AuxVar)
    (chan : List Nat → Nat → α) :
    auxStep (r :: joint) av chan
      = (List.range av.bound).map (fun k => (r.1 ++ [k], r.2 * chan (project av.bases r.1) k))
        ++ auxStep joint av chan := by
  simp [auxStep]

/-- Row-wise sums over the extended table. -/
theorem sum_map_auxStep {M : Type} [AddCommMonoid M] (g : List Nat × α → M)
    (joint : Tab (List Nat) α) (av : AuxVar) (chan : List Nat → Nat → α) :
    ((auxStep joint av chan).map g).sum
      = (joint.map (fun r => ((List.range av.bound).map (fun k =>
          g (r.1 ++ [k], r.2 * chan (project av.bases r.1) k))).sum)).sum := by
  induction joint with
  | nil => rfl
  | cons r joint ih =>
    rw [auxStep_cons, List.map_append, List.sum_append, ih, List.map_cons, List.sum_cons,
      List.map_map]
    rfl

/-- A row of the extended table comes from a row of the old one and a value of the new
variable. -/
theorem mem_auxStep {joint : Tab (List Nat) α} {av : AuxVar} {chan : List Nat → Nat → α}
    {s : List Nat × α} :
    s ∈ auxStep joint av chan ↔ ∃ r ∈ joint, ∃ k < av.bound,
      s = (r.1 ++ [k], r.2 * chan (project av.bases r.1) k) := by
  simp only [auxStep, List.mem_flatMap, List.mem_map, List.mem_range]
  constructor
  · rintro ⟨r, hr, k, hk, rfl⟩; exact ⟨r, hr, k, hk, rfl⟩
  · rintro ⟨r, hr, k, hk, rfl⟩; exact ⟨r, hr, k, hk, rfl⟩

/-- Weight of an arbitrary event in the extended table. -/
theorem wtBy_auxStep (q : List Nat → Prop) [DecidablePred q] (joint : Tab (List Nat) α)
    (av : AuxVar) (chan : List Nat → Nat → α) :
    wtBy q (auxStep joint av chan)
      = (joint.map (fun r => ((List.range av.bound).map (fun k =>
          if q (r.1 ++ [k]) then r.2 * chan (project av.bases r.1) k else 0)).sum)).sum := by
  unfold wtBy
  rw [sum_map_auxStep]

/-- **Old events keep their weight**: an event that does not look at the new coordinate has the
weight it had before, if every channel row used sums to one. -/
theorem wtBy_auxStep_old (q q' : List Nat → Prop) [DecidablePred q] [DecidablePred q']
    (joint : Tab (List Nat) α) (av : AuxVar) (chan : List Nat → Nat → α)
    (hrow : ∀ o ∈ keys joint, ((List.range av.bound).map (chan (project av.bases o))).sum = 1)
    (hq : ∀ o ∈ keys joint, ∀ k < av.bound, (q (o ++ [k]) ↔ q' o)) :
    wtBy q (auxStep joint av chan) = wtBy q' joint := by
  rw [wtBy_auxStep]
  unfold wtBy
  congr 1
  apply List.map_congr_left
  intro r hr
  have hk := mem_keys_of_mem hr
  by_cases h : q' r.1
  · have e : (List.range av.bound).map (fun k =>
        if q (r.1 ++ [k]) then r.2 * chan (project av.bases r.1) k else 0)
        = (List.range av.bound).map (fun k => r.2 * chan (project av.bases r.1) k) := by
      apply List.map_congr_left
      intro k hk'
      rw [if_pos ((hq r.1 hk k (List.mem_range.mp hk')).mpr h)]
    rw [e, if_pos h, List.sum_map_mul_left, hrow r.1 hk, mul_one]
  · have e : (List.range av.bound).map (fun k =>
        if q (r.1 ++ [k]) then r.2 * chan (project av.bases r.1) k else 0)
        = (List.range av.bound).map (fun _ => (0 : α)) := by
      apply List.map_congr_left
      intro k hk'
      rw [if_neg (fun hh => h ((hq r.1 hk k (List.mem_range.mp hk')).mp hh))]
    rw [e, if_neg h]
    simp

/-- **Mass is preserved** by one conditioning step. -/
theorem auxStep_mass (joint : Tab (List Nat) α) (av : AuxVar) (chan : List Nat → Nat → α)
    (hrow : ∀ o ∈ keys joint, ((List.range av.bound).map (chan (project av.bases o))).sum = 1) :
    mass (auxStep joint av chan) = mass joint := by
  rw [← wtBy_true, ← wtBy_true]
  exact wtBy_auxStep_old _ _ joint av chan hrow (fun _ _ _ _ => Iff.rfl)

theorem sum_range_ite_eq (n k : Nat) (F : Nat → α) :
    ((List.range n).map (fun k' => if k' = k then F k' else 0)).sum
      = if k < n then F k else 0 := by
  induction n with
  | zero => simp
  | succ n ih =>
    rw [List.range_succ, List.map_append, List.sum_append, ih]
    simp only [List.map_cons, List.map_nil, List.sum_cons, List.sum_nil, add_zero]
    by_cases h1 : k < n
    · have : n ≠ k := by omega
      simp [h1, this, Nat.lt_succ_of_lt h1]
    · by_cases h2 : n = k
      · subst h2; simp
      · have : ¬ k < n + 1 := by omega
        simp [h1, h2, this]

/-- Weight of "old event and new coordinate `= k`". -/
theorem wtBy_auxStep_new (q : List Nat → Prop) [DecidablePred q] (k : Nat)
    (joint : Tab (List Nat) α) (av : AuxVar) (chan : List Nat → Nat → α) :
    wtBy (fun o' => q o'.dropLast ∧ o'.getLast? = some k) (auxStep joint av chan)
      = (joint.map (fun r => if q r.1 then
          r.2 * (if k < av.bound then chan (project av.bases r.1) k else 0) else 0)).sum := by
  rw [wtBy_auxStep]
  congr 1
  apply List.map_congr_left
  intro r _
  simp only [List.dropLast_concat, List.getLast?_concat, Option.some.injEq]
  by_cases h : q r.1
  · simp only [h, true_and, if_true]
    rw [sum_range_ite_eq av.bound k (fun k' => r.2 * chan (project av.bases r.1) k')]
    split <;> simp
  · simp [h]

end Step

/-! ## Keys and values of one step -/

section StepKeys
variable {α : Type} [CommSemiring α]

theorem keys_auxStep (joint : Tab (List Nat) α) (av : AuxVar) (chan : List Nat → Nat → α) :
    keys (auxStep joint av chan)
      = (keys joint).flatMap (fun o => (List.range av.bound).map (fun k => o ++ [k])) := by
  induction joint with
  | nil => rfl
  | cons r joint ih =>
    rw [auxStep_cons, keys_append, ih, keys_cons, List.flatMap_cons]
    congr 1
    simp [keys, Function.comp_def]

theorem mem_keys_auxStep {joint : Tab (List Nat) α} {av : AuxVar} {chan : List Nat → Nat → α}
    {o' : List Nat} :
    o' ∈ keys (auxStep joint av chan) ↔ ∃ o ∈ keys joint, ∃ k < av.bound, o' = o ++ [k] := by
  rw [keys_auxStep]
  simp only [List.mem_flatMap, List.mem_map, List.mem_range]
  constructor
  · rintro ⟨o, ho, k, hk, rfl⟩; exact ⟨o, ho, k, hk, rfl⟩
  · rintro ⟨o, ho, k, hk, rfl⟩; exact ⟨o, ho, k, hk, rfl⟩

/-- One step keeps the keys pairwise distinct. -/
theorem nodup_keys_auxStep (joint : Tab (List Nat) α) (av : AuxVar) (chan : List Nat → Nat → α)
    (hnd : (keys joint).Nodup) : (keys (auxStep joint av chan)).Nodup := by
  rw [keys_auxStep, List.nodup_flatMap]
  refine ⟨fun o _ => ?_, ?_⟩
  · refine (List.nodup_range).map ?_
    intro k k' e
    simpa using e
  · refine hnd.imp ?_
    intro o o' hne
    simp only [Function.onFun]
    rw [List.disjoint_left]
    intro x hx hx'
    obtain ⟨k, _, rfl⟩ := List.mem_map.mp hx
    obtain ⟨k', _, e⟩ := List.mem_map.mp hx'
    exact hne (List.append_inj_left' e rfl).symm

theorem lookup?_append_of_mem {κ : Type} [DecidableEq κ] (s t : Tab κ α) (k : κ)
    (h : k ∈ keys s) : lookup? (s ++ t) k = lookup? s k := by
  induction s with
  | nil => simp at h
  | cons r s ih =>
    rw [List.cons_append, lookup?_cons, lookup?_cons]
    by_cases e : r.1 = k
    · simp [e]
    · simp only [e, if_false]
      apply ih
      rw [keys_cons, List.mem_cons] at h
      rcases h with h | h
      · exact absurd h.symm e
      · exact h

theorem lookup?_append_of_not_mem {κ : Type} [DecidableEq κ] (s t : Tab κ α) (k : κ)
    (h : k ∉ keys s) : lookup? (s ++ t) k = lookup? t k := by
  induction s with
  | nil => rfl
  | cons r s ih =>
    rw [keys_cons, List.mem_cons, not_or] at h
    rw [List.cons_append, lookup?_cons, if_neg (fun e => h.1 e.symm)]
    exact ih h.2

/-- **Factorisation of one step**: the stored value at `o ++ [k]` (for `k` in the alphabet of
the new variable) is the old value at `o` times the channel entry for the parents' values. No
assumption on the table (first stored row wins on both sides). -/
theorem auxStep_lookup (joint : Tab (List Nat) α) (av : AuxVar) (chan : List Nat → Nat → α)
    (o : List Nat) (k : Nat) (hk : k < av.bound) :
    lookupD 0 (auxStep joint av chan) (o ++ [k])
      = lookupD 0 joint o * chan (project av.bases o) k := by
  induction joint with
  | nil => simp [auxStep_nil, lookupD]
  | cons r joint ih =>
    rw [auxStep_cons]
    unfold lookupD at ih ⊢
    by_cases e : r.1 = o
    · have hmem : o ++ [k] ∈ keys ((List.range av.bound).map
          (fun k => (r.1 ++ [k], r.2 * chan (project av.bases r.1) k))) := by
        simp only [keys, List.map_map, List.mem_map, List.mem_range, Function.comp_apply]
        exact ⟨k, hk, by rw [e]⟩
      rw [lookup?_append_of_mem _ _ _ hmem, lookup?_cons, if_pos e]
      have := lookup?_map_graph (List.range av.bound |>.map (fun k => r.1 ++ [k]))
        (fun o' => r.2 * chan (project av.bases r.1) (o'.getLast?.getD 0)) (o ++ [k])
      rw [List.map_map] at this
      have e2 : ((List.range av.bound).map
          (fun k => (r.1 ++ [k], r.2 * chan (project av.bases r.1) k)))
          = (List.range av.bound).map ((fun o' => (o', r.2 * chan (project av.bases r.1)
              (o'.getLast?.getD 0))) ∘ fun k => r.1 ++ [k]) := by
        apply List.map_congr_left
        intro k' _
        simp
      rw [e2, this]
      have hm : o ++ [k] ∈ (List.range av.bound).map (fun k => r.1 ++ [k]) :=
        List.mem_map.mpr ⟨k, List.mem_range.mpr hk, by rw [e]⟩
      rw [if_pos hm]
      simp [e]
    · have hmem : o ++ [k] ∉ keys ((List.range av.bound).map
          (fun k => (r.1 ++ [k], r.2 * chan (project av.bases r.1) k))) := by
        simp only [keys, List.map_map, List.mem_map, List.mem_range, Function.comp_apply]
        rintro ⟨k', _, e'⟩
        exact e (List.append_inj_left' e' rfl)
      rw [lookup?_append_of_not_mem _ _ _ hmem, lookup?_cons, if_neg e]
      exact ih

/-- All keys get one symbol longer. -/
theorem length_keys_auxStep {joint : Tab (List Nat) α} {av : AuxVar} {chan : List Nat → Nat → α}
    {n : Nat} (hlen : ∀ o ∈ keys joint, o.length = n) :
    ∀ o' ∈ keys (auxStep joint av chan), o'.length = n + 1 := by
  intro o' ho'
  obtain ⟨o, ho, k, _, rfl⟩ := mem_keys_auxStep.mp ho'
  simp [hlen o ho]

end StepKeys

/-! ## `constructJoint`: induction over the auxiliary variables -/

section Construct
variable {α : Type} [Field α] [DecidableEq α]

/-- The channel `constructJoint` builds for `av` when the alphabet sizes so far are `sizes` and
the remaining parameter vector is `x`. -/
def chanAt (ofNat : Nat → α) (sizes : List Nat) (av : AuxVar) (x : List α) :
    List Nat → Nat → α :=
  channelOf ofNat (av.bases.map (fun b => sizes.getD b 0)) av.bound (x.take (blockSize sizes av))

theorem constructJoint_nil (ofNat : Nat → α) (sizes : List Nat) (t : Tab (List Nat) α)
    (x : List α) : constructJoint ofNat sizes t [] x = t := rfl

theorem constructJoint_cons (ofNat : Nat → α) (sizes : List Nat) (t : Tab (List Nat) α)
    (av : AuxVar) (rest : List AuxVar) (x : List α) :
    constructJoint ofNat sizes t (av :: rest) x
      = constructJoint ofNat (sizes ++ [av.bound]) (auxStep t av (chanAt ofNat sizes av x)) rest
          (x.drop (blockSize sizes av)) := rfl

/-- The cast used for the uniform fallback row is the genuine one and does not vanish on the
alphabet sizes of the auxiliary variables. -/
def GoodCast (ofNat : Nat → α) (avs : List AuxVar) : Prop :=
  ∀ av ∈ avs, ofNat av.bound = (av.bound : α) ∧ (av.bound : α) ≠ 0

theorem goodCast_natCast [CharZero α] (avs : List AuxVar) (h : ∀ av ∈ avs, 1 ≤ av.bound) :
    GoodCast (fun n : Nat => (n : α)) avs := by
  intro av hav
  refine ⟨rfl, ?_⟩
  have := h av hav
  exact Nat.cast_ne_zero.mpr (by omega)

theorem chanAt_row_sum (ofNat : Nat → α) (sizes : List Nat) (av : AuxVar) (x : List α)
    (hof : ofNat av.bound = (av.bound : α) ∧ (av.bound : α) ≠ 0) (parents : List Nat) :
    ((List.range av.bound).map (chanAt ofNat sizes av x parents)).sum = 1 :=
  channel_row_sum ofNat _ av.bound _ parents hof.1 hof.2

/-- Events on the first `n₀` coordinates keep their weight through `constructJoint`. -/
theorem constructJoint_wtBy_take (ofNat : Nat → α) (n₀ : Nat) (p : List Nat → Prop)
    [DecidablePred p] (avs : List AuxVar) (sizes : List Nat) (t : Tab (List Nat) α) (x : List α)
    (hof : GoodCast ofNat avs) (hlen : ∀ o ∈ keys t, n₀ ≤ o.length) :
    wtBy (fun o => p (o.take n₀)) (constructJoint ofNat sizes t avs x)
      = wtBy (fun o => p (o.take n₀)) t := by
  induction avs generalizing sizes t x with
  | nil => rfl
  | cons av rest ih =>
    rw [constructJoint_cons, ih _ _ _ (fun a ha => hof a (List.mem_cons_of_mem _ ha))]
    · apply wtBy_auxStep_old
      · intro o _
        exact chanAt_row_sum ofNat sizes av x (hof av (by simp)) _
      · intro o ho k _
        rw [List.take_append_of_le_length (hlen o ho)]
    · intro o' ho'
      obtain ⟨o, ho, k, _, rfl⟩ := mem_keys_auxStep.mp ho'
      have := hlen o ho
      simp; omega

/-- **Mass is preserved** by `constructJoint`, for every parameter vector. -/
theorem constructJoint_mass (ofNat : Nat → α) (avs : List AuxVar) (sizes : List Nat)
    (t : Tab (List Nat) α) (x : List α) (hof : GoodCast ofNat avs) :
    mass (constructJoint ofNat sizes t avs x) = mass t := by
  rw [← wtBy_true, ← wtBy_true]
  exact constructJoint_wtBy_take ofNat 0 (fun _ => True) avs sizes t x hof (fun _ _ => Nat.zero_le _)

/-- Keys of the result: old key followed by one in-range symbol per auxiliary variable. -/
theorem mem_keys_constructJoint (ofNat : Nat → α) (avs : List AuxVar) (sizes : List Nat)
    (t : Tab (List Nat) α) (x : List α) (o' : List Nat) :
    o' ∈ keys (constructJoint ofNat sizes t avs x)
      ↔ ∃ o ∈ keys t, ∃ ks, List.Forall₂ (fun k (av : AuxVar) => k < av.bound) ks avs
          ∧ o' = o ++ ks := by
  induction avs generalizing sizes t x with
  | nil =>
    rw [constructJoint_nil]
    constructor
    · intro h; exact ⟨o', h, [], List.Forall₂.nil, by simp⟩
    · rintro ⟨o, ho, ks, hks, rfl⟩
      cases hks; simpa using ho
  | cons av rest ih =>
    rw [constructJoint_cons, ih]
    constructor
    · rintro ⟨o1, ho1, ks, hks, rfl⟩
      obtain ⟨o, ho, k, hk, rfl⟩ := mem_keys_auxStep.mp ho1
      exact ⟨o, ho, k :: ks, List.Forall₂.cons hk hks, by simp⟩
    · rintro ⟨o, ho, ks, hks, rfl⟩
      cases hks with
      | cons hk hks' =>
        rename_i k ks'
        exact ⟨o ++ [k], mem_keys_auxStep.mpr ⟨o, ho, k, hk, rfl⟩, ks', hks', by simp⟩

theorem nodup_keys_constructJoint (ofNat : Nat → α) (avs : List AuxVar) (sizes : List Nat)
    (t : Tab (List Nat) α) (x : List α) (hnd : (keys t).Nodup) :
    (keys (constructJoint ofNat sizes t avs x)).Nodup := by
  induction avs generalizing sizes t x with
  | nil => exact hnd
  | cons av rest ih =>
    rw [constructJoint_cons]
    exact ih _ _ _ (nodup_keys_auxStep t av _ hnd)

theorem length_keys_constructJoint (ofNat : Nat → α) (avs : List AuxVar) (sizes : List Nat)
    (t : Tab (List Nat) α) (x : List α) (n₀ : Nat) (hlen : ∀ o ∈ keys t, o.length = n₀) :
    ∀ o' ∈ keys (constructJoint ofNat sizes t avs x), o'.length = n₀ + avs.length := by
  intro o' ho'
  obtain ⟨o, ho, ks, hks, rfl⟩ := (mem_keys_constructJoint ofNat avs sizes t x o').mp ho'
  rw [List.length_append, hlen o ho, hks.length_eq]

/-- The product of channel entries along the auxiliary variables: the `i`-th factor is the
channel of variable `i` at the values of its parents in `o ++ ks[:i]` and at `ks[i]`. -/
def chanProd (ofNat : Nat → α) : List Nat → List AuxVar → List α → List Nat → List Nat → α
  | _, [], _, _, _ => 1
  | _, _ :: _, _, _, [] => 1
  | sizes, av :: rest, x, o, k :: ks =>
    chanAt ofNat sizes av x (project av.bases o) k
      * chanProd ofNat (sizes ++ [av.bound]) rest (x.drop (blockSize sizes av)) (o ++ [k]) ks

/-- **The joint factorises along the declared parent sets.** -/
theorem constructJoint_lookup (ofNat : Nat → α) (avs : List AuxVar) (sizes : List Nat)
    (t : Tab (List Nat) α) (x : List α) (o ks : List Nat)
    (hks : List.Forall₂ (fun k (av : AuxVar) => k < av.bound) ks avs) :
    lookupD 0 (constructJoint ofNat sizes t avs x) (o ++ ks)
      = lookupD 0 t o * chanProd ofNat sizes avs x o ks := by
  induction avs generalizing sizes t x o ks with
  | nil =>
    cases hks
    simp [constructJoint_nil, chanProd]
  | cons av rest ih =>
    cases hks with
    | cons hk hks' =>
      rename_i k ks'
      rw [constructJoint_cons]
      have e : o ++ k :: ks' = (o ++ [k]) ++ ks' := by simp
      rw [e, ih _ _ _ _ _ hks', auxStep_lookup t av _ o k hk]
      simp only [chanProd]
      ring

end Construct

/-! ## The marginal on the original variables -/

section Marginal
variable {α : Type} [Field α] [DecidableEq α]

/-- `wtBy` form of "the restriction to the original variables is the input". -/
theorem constructJoint_wtBy_old (ofNat : Nat → α) (n₀ : Nat) (p : List Nat → Prop)
    [DecidablePred p] (avs : List AuxVar) (sizes : List Nat) (t : Tab (List Nat) α) (x : List α)
    (hof : GoodCast ofNat avs) (hlen : ∀ o ∈ keys t, o.length = n₀) :
    wtBy (fun o => p (o.take n₀)) (constructJoint ofNat sizes t avs x) = wtBy p t := by
  rw [constructJoint_wtBy_take ofNat n₀ p avs sizes t x hof (fun o ho => (hlen o ho).ge)]
  apply wtBy_congr
  intro o ho
  rw [List.take_of_length_le (hlen o ho).le]

/-- Summing out the auxiliary coordinates gives back the stored values of the input. -/
theorem lookupD_dropLastVars (ofNat : Nat → α) (n₀ : Nat) (avs : List AuxVar) (sizes : List Nat)
    (t : Tab (List Nat) α) (x : List α) (hof : GoodCast ofNat avs)
    (hlen : ∀ o ∈ keys t, o.length = n₀) (hnd : (keys t).Nodup) (o : List Nat) :
    lookupD 0 (dropLastVars avs.length (constructJoint ofNat sizes t avs x)) o = lookupD 0 t o := by
  unfold dropLastVars
  rw [lookupD_pushforward, lookupD_eq_wtBy hnd,
    ← constructJoint_wtBy_old ofNat n₀ (fun o' => o' = o) avs sizes t x hof hlen]
  apply wtBy_congr
  intro o' ho'
  rw [length_keys_constructJoint ofNat avs sizes t x n₀ hlen o' ho', Nat.add_sub_cancel]

/-- The keys after summing out the auxiliary coordinates are the input's keys. -/
theorem mem_keys_dropLastVars (ofNat : Nat → α) (avs : List AuxVar) (sizes : List Nat)
    (t : Tab (List Nat) α) (x : List α) (hb : ∀ av ∈ avs, 1 ≤ av.bound) (o : List Nat) :
    o ∈ keys (dropLastVars avs.length (constructJoint ofNat sizes t avs x)) ↔ o ∈ keys t := by
  unfold dropLastVars
  rw [mem_keys_pushforward]
  constructor
  · rintro ⟨o', ho', rfl⟩
    obtain ⟨o, ho, ks, hks, rfl⟩ := (mem_keys_constructJoint ofNat avs sizes t x o').mp ho'
    rw [List.length_append, hks.length_eq, Nat.add_sub_cancel, List.take_left']
    · exact ho
    · rfl
  · intro ho
    have hex : ∃ ks, List.Forall₂ (fun k (av : AuxVar) => k < av.bound) ks avs := by
      clear ho
      induction avs with
      | nil => exact ⟨[], List.Forall₂.nil⟩
      | cons av rest ih =>
        obtain ⟨ks, hks⟩ := ih (fun a ha => hb a (List.mem_cons_of_mem _ ha))
        exact ⟨0 :: ks, List.Forall₂.cons (hb av (by simp)) hks⟩
    obtain ⟨ks, hks⟩ := hex
    refine ⟨o ++ ks, (mem_keys_constructJoint ofNat avs sizes t x _).mpr ⟨o, ho, ks, hks, rfl⟩, ?_⟩
    rw [List.length_append, hks.length_eq, Nat.add_sub_cancel, List.take_left']
    rfl

end Marginal

/-! ## The Markov property of one step -/

section Markov
variable {α : Type} [CommSemiring α]

theorem wtBy_auxStep_new_parents (q : List Nat → Prop) [DecidablePred q] (b : List Nat) (k : Nat)
    (joint : Tab (List Nat) α) (av : AuxVar) (chan : List Nat → Nat → α)
    (hq : ∀ o ∈ keys joint, q o → project av.bases o = b) :
    wtBy (fun o' => q o'.dropLast ∧ o'.getLast? = some k) (auxStep joint av chan)
      = wtBy q joint * (if k < av.bound then chan b k else 0) := by
  rw [wtBy_auxStep_new]
  unfold wtBy
  rw [← List.sum_map_mul_right]
  congr 1
  apply List.map_congr_left
  intro r hr
  by_cases h : q r.1
  · rw [if_pos h, if_pos h, hq r.1 (mem_keys_of_mem hr) h]
  · rw [if_neg h, if_neg h, zero_mul]

/-- **Conditional independence given the parents** (one step): for every event `E` on the old
coordinates, all parent values `b` and every value `k` of the new variable,
`P(E, B=b, W=k) · P(B=b) = P(E, B=b) · P(B=b, W=k)` in the extended table. Events are phrased on
`dropLast` (old coordinates) and `getLast?` (new coordinate), so no length assumption is needed. -/
theorem auxStep_markov (joint : Tab (List Nat) α) (av : AuxVar) (chan : List Nat → Nat → α)
    (hrow : ∀ o ∈ keys joint, ((List.range av.bound).map (chan (project av.bases o))).sum = 1)
    (E : List Nat → Prop) [DecidablePred E] (b : List Nat) (k : Nat) :
    wtBy (fun o' => (E o'.dropLast ∧ project av.bases o'.dropLast = b) ∧ o'.getLast? = some k)
        (auxStep joint av chan)
      * wtBy (fun o' => project av.bases o'.dropLast = b) (auxStep joint av chan)
    = wtBy (fun o' => E o'.dropLast ∧ project av.bases o'.dropLast = b) (auxStep joint av chan)
      * wtBy (fun o' => project av.bases o'.dropLast = b ∧ o'.getLast? = some k)
          (auxStep joint av chan) := by
  rw [wtBy_auxStep_new_parents (fun o => E o ∧ project av.bases o = b) b k joint av chan
      (fun _ _ h => h.2),
    wtBy_auxStep_new_parents (fun o => project av.bases o = b) b k joint av chan
      (fun _ _ h => h),
    wtBy_auxStep_old (fun o' => project av.bases o'.dropLast = b)
      (fun o => project av.bases o = b) joint av chan hrow
      (fun o _ k _ => by simp),
    wtBy_auxStep_old (fun o' => E o'.dropLast ∧ project av.bases o'.dropLast = b)
      (fun o => E o ∧ project av.bases o = b) joint av chan hrow
      (fun o _ k _ => by simp)]
  ring

/-- The conditional law of the new variable: `P(old = o, W = k) = P(old = o) · chan(parents, k)`
as event weights (rows with repeated keys all count). -/
theorem auxStep_conditional (joint : Tab (List Nat) α) (av : AuxVar) (chan : List Nat → Nat → α)
    (o : List Nat) (k : Nat) (hk : k < av.bound) :
    wtBy (fun o' => o'.dropLast = o ∧ o'.getLast? = some k) (auxStep joint av chan)
      = wtBy (fun o' => o' = o) joint * chan (project av.bases o) k := by
  rw [wtBy_auxStep_new_parents (fun o' => o' = o) (project av.bases o) k joint av chan
    (fun _ _ h => by rw [h]), if_pos hk]

end Markov

/-! ## Entropy: coordinates that are functions of others -/

section EntropyFun
variable {α : Type} [Ring α] [DecidableEq α] {σ : Type} [DecidableEq σ]
open Dit.Lemmas.Transform (entropyOf_def entropyOf_trim vals_pushforward_of_equiv
  entropyOf_of_fibre)
open Dit.Lemmas.InfoAlg (mem_vunion)

/-- **A coordinate that is a function of `S` on the support adds nothing to `H(S)`.** -/
theorem entropyOf_add_function (log : α → α) (t : Tab (List σ) α) (S : List Nat) (w : Nat)
    (h : ∀ r ∈ t, ∀ r' ∈ t, r.2 ≠ 0 → r'.2 ≠ 0 → project S r.1 = project S r'.1 →
      r.1[w]? = r'.1[w]?) :
    entropyOf log t (vunion S [w]) = entropyOf log t S := by
  rw [← entropyOf_trim log t (vunion S [w]), ← entropyOf_trim log t S, entropyOf_def,
    entropyOf_def]
  congr 1
  apply vals_pushforward_of_equiv
  intro r hr r' hr'
  obtain ⟨hr1, hr2⟩ := List.mem_filter.mp hr
  obtain ⟨hr1', hr2'⟩ := List.mem_filter.mp hr'
  have hne : r.2 ≠ 0 := by simpa using hr2
  have hne' : r'.2 ≠ 0 := by simpa using hr2'
  constructor
  · intro e
    rw [project_eq_iff] at e ⊢
    intro i hi
    exact e i ((mem_vunion _ _ _).mpr (Or.inl hi))
  · intro e
    have hw := h r hr1 r' hr1' hne hne' e
    rw [project_eq_iff] at e ⊢
    intro i hi
    rcases (mem_vunion _ _ _).mp hi with hi | hi
    · exact e i hi
    · have : i = w := by simpa using hi
      rw [this]; exact hw

/-- **Adding a deterministic coordinate** (constant on the support) changes no subset entropy. -/
theorem entropy_add_deterministic (log : α → α) (t : Tab (List σ) α) (S : List Nat) (w : Nat)
    (c : Option σ) (h : ∀ r ∈ t, r.2 ≠ 0 → r.1[w]? = c) :
    entropyOf log t (vunion S [w]) = entropyOf log t S :=
  entropyOf_add_function log t S w
    (fun r hr r' hr' hne hne' _ => (h r hr hne).trans (h r' hr' hne').symm)

/-- **Adding a copy of a coordinate already in `S`** changes nothing. -/
theorem entropy_add_copy (log : α → α) (t : Tab (List σ) α) (S : List Nat) (w z : Nat)
    (hz : z ∈ S) (h : ∀ r ∈ t, r.2 ≠ 0 → r.1[w]? = r.1[z]?) :
    entropyOf log t (vunion S [w]) = entropyOf log t S := by
  apply entropyOf_add_function
  intro r hr r' hr' hne hne' e
  rw [h r hr hne, h r' hr' hne']
  exact (project_eq_iff S r.1 r'.1).mp e z hz

end EntropyFun

/-! ## Entropy of the extended table on old coordinates -/

section EntropyOld
variable {σ : Type}

theorem project_append_of_lt (S : List Nat) (o e : List σ) (h : ∀ i ∈ S, i < o.length) :
    project S (o ++ e) = project S o := by
  unfold project
  apply List.filterMap_congr
  intro i hi
  exact List.getElem?_append_left (h i hi)

theorem fibreSum_eq_wtBy {κ κ' α : Type} [DecidableEq κ'] [AddCommMonoid α] (f : κ → κ')
    (t : Tab κ α) (x : κ') : fibreSum f t x = wtBy (fun o => f o = x) t := by
  induction t with
  | nil => rfl
  | cons r t ih =>
    have : fibreSum f (r :: t) x = fibreSum f [r] x + fibreSum f t x :=
      InfoReal.fibreSum_append f [r] t x
    rw [this, InfoReal.fibreSum_single, ih, wtBy_cons]

variable {α : Type} [CommRing α] [DecidableEq α]

/-- Fibre sums over old coordinates are unchanged by one step. -/
theorem fibreSum_auxStep_old (joint : Tab (List Nat) α) (av : AuxVar) (chan : List Nat → Nat → α)
    (n : Nat) (S : List Nat)
    (hrow : ∀ o ∈ keys joint, ((List.range av.bound).map (chan (project av.bases o))).sum = 1)
    (hlen : ∀ o ∈ keys joint, o.length = n) (hS : ∀ i ∈ S, i < n) (x : List Nat) :
    fibreSum (project S) (auxStep joint av chan) x = fibreSum (project S) joint x := by
  rw [fibreSum_eq_wtBy, fibreSum_eq_wtBy]
  apply wtBy_auxStep_old _ _ joint av chan hrow
  intro o ho k _
  rw [project_append_of_lt S o [k] (fun i hi => by rw [hlen o ho]; exact hS i hi)]

/-- **Entropies of old variables are those of the input.** -/
theorem entropyOf_auxStep_old (log : α → α) (joint : Tab (List Nat) α) (av : AuxVar)
    (chan : List Nat → Nat → α) (n : Nat) (S : List Nat)
    (hrow : ∀ o ∈ keys joint, ((List.range av.bound).map (chan (project av.bases o))).sum = 1)
    (hlen : ∀ o ∈ keys joint, o.length = n) (hS : ∀ i ∈ S, i < n) :
    entropyOf log (auxStep joint av chan) S = entropyOf log joint S :=
  Transform.entropyOf_of_fibre log _ _ S (fibreSum_auxStep_old joint av chan n S hrow hlen hS)

end EntropyOld

/-! ## The constant and the copy channel -/

section SpecialChannels
variable {α : Type} [CommRing α] [DecidableEq α]

/-- The constant channel: the auxiliary variable is always `0`. -/
def constChan : List Nat → Nat → α := fun _ k => if k = 0 then 1 else 0

/-- The copy channel: the auxiliary variable repeats its single parent. -/
def copyChan : List Nat → Nat → α := fun b k => if b = [k] then 1 else 0

theorem constChan_row_sum (bound : Nat) (hb : 1 ≤ bound) (b : List Nat) :
    ((List.range bound).map (constChan (α := α) b)).sum = 1 := by
  have := sum_range_ite_eq (α := α) bound 0 (fun _ => 1)
  unfold constChan
  rw [this, if_pos (by omega)]

theorem copyChan_row_sum (bound j : Nat) (hj : j < bound) :
    ((List.range bound).map (copyChan (α := α) [j])).sum = 1 := by
  have e : (List.range bound).map (copyChan (α := α) [j])
      = (List.range bound).map (fun k' => if k' = j then (1 : α) else 0) := by
    apply List.map_congr_left
    intro k _
    unfold copyChan
    by_cases h : k = j
    · rw [if_pos h, h, if_pos rfl]
    · rw [if_neg h, if_neg]
      simpa using fun e => h e.symm
  rw [e, sum_range_ite_eq bound j (fun _ => 1), if_pos hj]

/-- Support of the extended table at the constant channel: the new coordinate is `0`. -/
theorem auxStep_const_support (joint : Tab (List Nat) α) (av : AuxVar) (n : Nat)
    (hlen : ∀ o ∈ keys joint, o.length = n) :
    ∀ s ∈ auxStep joint av constChan, s.2 ≠ 0 → s.1[n]? = some 0 := by
  intro s hs hne
  obtain ⟨r, hr, k, _, rfl⟩ := mem_auxStep.mp hs
  have hl := hlen r.1 (mem_keys_of_mem hr)
  by_cases hk : k = 0
  · subst hk
    simp [← hl]
  · exfalso; apply hne
    simp [constChan, hk]

/-- Support of the extended table at the copy channel: the new coordinate equals the parent. -/
theorem auxStep_copy_support (joint : Tab (List Nat) α) (av : AuxVar) (n z : Nat)
    (hbases : av.bases = [z]) (hz : z < n) (hlen : ∀ o ∈ keys joint, o.length = n) :
    ∀ s ∈ auxStep joint av copyChan, s.2 ≠ 0 → s.1[n]? = s.1[z]? := by
  intro s hs hne
  obtain ⟨r, hr, k, _, rfl⟩ := mem_auxStep.mp hs
  have hl := hlen r.1 (mem_keys_of_mem hr)
  have hzl : z < r.1.length := by omega
  by_cases hk : project av.bases r.1 = [k]
  · rw [hbases] at hk
    have e1 : r.1[z]? = some k := by
      simp only [project, List.filterMap_cons, List.filterMap_nil,
        List.getElem?_eq_getElem hzl] at hk
      rw [List.getElem?_eq_getElem hzl]
      simpa using hk
    show (r.1 ++ [k])[n]? = (r.1 ++ [k])[z]?
    rw [List.getElem?_append_left hzl, e1, ← hl]
    simp
  · exfalso; apply hne
    simp [copyChan, hk]

end SpecialChannels

/-! ## Transfer of `I(X:Y|W)` on the extended table to the input table -/

section Transfer
open Dit.Lemmas.InfoAlg

theorem cmi_transfer {R : Type} [CommRing R] (cast : ℚ →+* R) (H H' : VSet → R) (n : Nat)
    (Z' : VSet)
    (h : ∀ S : List Nat, (∀ v ∈ S, v < n) → H (vunion S [n]) = H' (vunion S Z'))
    (X Y : VSet) (hX : ∀ v ∈ X, v < n) (hY : ∀ v ∈ Y, v < n) :
    Comb.eval cast H (cmiC X Y [n]) = Comb.eval cast H' (cmiC X Y Z') := by
  rw [eval_cmiC, eval_cmiC]
  unfold Hc
  have e0 : vnorm [n] = vunion [] [n] := rfl
  have e0' : vnorm Z' = vunion [] Z' := rfl
  have hXY : ∀ v ∈ vunion X Y, v < n := by
    intro v hv
    rcases (mem_vunion _ _ _).mp hv with hv | hv
    · exact hX v hv
    · exact hY v hv
  rw [e0, e0', h X hX, h Y hY, h (vunion X Y) hXY, h [] (by simp)]

variable {σ : Type} [DecidableEq σ]

/-- At the constant channel, conditioning on the auxiliary variable is not conditioning:
`H_T(S ∪ {n}) = H_t(S)`. -/
theorem entropyOf_const (joint : Tab (List Nat) ℝ) (av : AuxVar) (n : Nat) (hb : 1 ≤ av.bound)
    (hlen : ∀ o ∈ keys joint, o.length = n) (S : List Nat) (hS : ∀ v ∈ S, v < n) :
    entropyOf (Real.logb 2) (auxStep joint av constChan) (vunion S [n])
      = entropyOf (Real.logb 2) joint (vunion S []) := by
  rw [entropy_add_deterministic _ _ S n (some 0) (auxStep_const_support joint av n hlen),
    entropyOf_auxStep_old _ joint av constChan n S
      (fun o _ => constChan_row_sum av.bound hb _) hlen hS]
  exact InfoReal.entropyOf_congr joint (by intro v; simp [mem_vunion])

/-- At the copy channel, conditioning on the auxiliary variable is conditioning on its parent:
`H_T(S ∪ {n}) = H_t(S ∪ {z})`. -/
theorem entropyOf_copy (joint : Tab (List Nat) ℝ) (av : AuxVar) (n z : Nat)
    (hbases : av.bases = [z]) (hz : z < n) (hfit : ∀ o ∈ keys joint, ∀ j, o[z]? = some j →
      j < av.bound)
    (hlen : ∀ o ∈ keys joint, o.length = n) (S : List Nat) (hS : ∀ v ∈ S, v < n) :
    entropyOf (Real.logb 2) (auxStep joint av copyChan) (vunion S [n])
      = entropyOf (Real.logb 2) joint (vunion S [z]) := by
  have hsup := auxStep_copy_support joint av n z hbases hz hlen
  have hrow : ∀ o ∈ keys joint,
      ((List.range av.bound).map (copyChan (α := ℝ) (project av.bases o))).sum = 1 := by
    intro o ho
    have hzl : z < o.length := by rw [hlen o ho]; exact hz
    have : project av.bases o = [o[z]] := by
      rw [hbases]; simp [project, List.getElem?_eq_getElem hzl]
    rw [this]
    exact copyChan_row_sum _ _ (hfit o ho _ (List.getElem?_eq_getElem hzl))
  -- add `z` (a copy of `n`), swap, remove `n` (a copy of `z`)
  rw [← entropy_add_copy (Real.logb 2) _ (vunion S [n]) z n
      ((mem_vunion _ _ _).mpr (Or.inr (by simp))) (fun s hs hne => (hsup s hs hne).symm),
    InfoReal.entropyOf_congr _ (X := vunion (vunion S [n]) [z]) (X' := vunion (vunion S [z]) [n])
      (by intro v; simp only [mem_vunion]; tauto),
    entropy_add_copy (Real.logb 2) _ (vunion S [z]) n z
      ((mem_vunion _ _ _).mpr (Or.inr (by simp))) hsup,
    entropyOf_auxStep_old _ joint av copyChan n (vunion S [z]) hrow hlen]
  intro v hv
  rcases (mem_vunion _ _ _).mp hv with hv | hv
  · exact hS v hv
  · have : v = z := by simpa using hv
    omega

end Transfer

/-! ## The Markov chain `rest – parents – W` at the level of entropies -/

section CmiZero
open Dit.Lemmas.InfoAlg

theorem project_snoc_eq_iff (S S' : List Nat) (n : Nat) (o o' : List Nat) (k k' : Nat)
    (ho : o.length = n) (ho' : o'.length = n) (hS' : ∀ i ∈ S', i < n)
    (hS : ∀ i, i ∈ S ↔ i ∈ S' ∨ i = n) :
    project S (o' ++ [k']) = project S (o ++ [k]) ↔ project S' o' = project S' o ∧ k' = k := by
  have e1 : (o' ++ [k'])[n]? = some k' := by rw [← ho']; simp
  have e2 : (o ++ [k])[n]? = some k := by rw [← ho]; simp
  rw [project_eq_iff, project_eq_iff]
  constructor
  · intro h
    refine ⟨?_, ?_⟩
    · intro i hi
      have := h i ((hS i).mpr (Or.inl hi))
      rwa [List.getElem?_append_left (by rw [ho']; exact hS' i hi),
        List.getElem?_append_left (by rw [ho]; exact hS' i hi)] at this
    · have := h n ((hS n).mpr (Or.inr rfl))
      rw [e1, e2] at this
      exact Option.some.inj this
  · rintro ⟨h, rfl⟩ i hi
    rcases (hS i).mp hi with hi | rfl
    · rw [List.getElem?_append_left (by rw [ho']; exact hS' i hi),
        List.getElem?_append_left (by rw [ho]; exact hS' i hi)]
      exact h i hi
    · rw [e1, e2]

/-- Fibre sums over a set containing the new coordinate and all the parents: old fibre sum times
the channel entry. -/
theorem fibreSum_auxStep_new {α : Type} [CommSemiring α] (joint : Tab (List Nat) α) (av : AuxVar)
    (chan : List Nat → Nat → α) (n : Nat) (S S' : List Nat)
    (hlen : ∀ o ∈ keys joint, o.length = n) (hS' : ∀ i ∈ S', i < n)
    (hS : ∀ i, i ∈ S ↔ i ∈ S' ∨ i = n) (hb : ∀ i ∈ av.bases, i ∈ S')
    (o : List Nat) (ho : o.length = n) (k : Nat) (hk : k < av.bound) :
    fibreSum (project S) (auxStep joint av chan) (project S (o ++ [k]))
      = fibreSum (project S') joint (project S' o) * chan (project av.bases o) k := by
  rw [fibreSum_eq_wtBy, fibreSum_eq_wtBy, wtBy_auxStep]
  unfold wtBy
  rw [← List.sum_map_mul_right]
  congr 1
  apply List.map_congr_left
  intro r hr
  have hrl := hlen r.1 (mem_keys_of_mem hr)
  have e : (List.range av.bound).map (fun k' =>
        if project S (r.1 ++ [k']) = project S (o ++ [k]) then
          r.2 * chan (project av.bases r.1) k' else 0)
      = (List.range av.bound).map (fun k' => if k' = k then
          (if project S' r.1 = project S' o then r.2 * chan (project av.bases r.1) k' else 0)
          else 0) := by
    apply List.map_congr_left
    intro k' _
    rw [if_congr (project_snoc_eq_iff S S' n o r.1 k k' ho hrl hS' hS) rfl rfl]
    by_cases h1 : project S' r.1 = project S' o <;> by_cases h2 : k' = k <;>
      simp [h1, h2]
  rw [e, sum_range_ite_eq av.bound k
    (fun k' => if project S' r.1 = project S' o then r.2 * chan (project av.bases r.1) k' else 0),
    if_pos hk]
  by_cases h1 : project S' r.1 = project S' o
  · rw [if_pos h1, if_pos h1]
    have : project av.bases r.1 = project av.bases o := by
      rw [project_eq_iff] at h1 ⊢
      exact fun i hi => h1 i (hb i hi)
    rw [this]
  · rw [if_neg h1, if_neg h1, zero_mul]

theorem le_wtBy_of_mem {κ : Type} (p : κ → Prop) [DecidablePred p] (t : Tab κ ℝ)
    (hnn : ∀ r ∈ t, 0 ≤ r.2) : 0 ≤ wtBy p t ∧ ∀ r ∈ t, p r.1 → r.2 ≤ wtBy p t := by
  induction t with
  | nil => simp
  | cons a t ih =>
    obtain ⟨h0, h1⟩ := ih (fun r hr => hnn r (List.mem_cons_of_mem _ hr))
    have ha := hnn a (by simp)
    have hterm : 0 ≤ (if p a.1 then a.2 else 0) := by split; exact ha; exact le_rfl
    refine ⟨by rw [wtBy_cons]; linarith, ?_⟩
    intro r hr hp
    rw [wtBy_cons]
    rcases List.mem_cons.mp hr with rfl | hr
    · rw [if_pos hp]; linarith
    · have := h1 r hr hp; linarith

theorem four_sums_zero {β : Type} (l : List β) (a b c d : β → ℝ)
    (h : ∀ r ∈ l, a r + b r - c r - d r = 0) :
    -(l.map a).sum + -(l.map b).sum - -(l.map c).sum - -(l.map d).sum = 0 := by
  induction l with
  | nil => simp
  | cons x l ih =>
    have h1 := h x (by simp)
    have h2 := ih (fun r hr => h r (List.mem_cons_of_mem _ hr))
    simp only [List.map_cons, List.sum_cons]
    linarith

/-- **`I(W : R | parents) = 0`** in the table extended by one auxiliary variable `W`
(coordinate `n`), for any set `R` of old coordinates: explicit entropy form. -/
theorem auxStep_cmi_zero_explicit (joint : Tab (List Nat) ℝ) (av : AuxVar)
    (chan : List Nat → Nat → ℝ) (n : Nat) (R : List Nat)
    (hrow : ∀ o ∈ keys joint, ((List.range av.bound).map (chan (project av.bases o))).sum = 1)
    (hlen : ∀ o ∈ keys joint, o.length = n) (hnn : ∀ r ∈ joint, 0 ≤ r.2)
    (hb : ∀ i ∈ av.bases, i < n) (hR : ∀ i ∈ R, i < n) :
    entropyOf (Real.logb 2) (auxStep joint av chan) (vunion [n] av.bases)
      + entropyOf (Real.logb 2) (auxStep joint av chan) (vunion R av.bases)
      - entropyOf (Real.logb 2) (auxStep joint av chan) (vunion (vunion [n] R) av.bases)
      - entropyOf (Real.logb 2) (auxStep joint av chan) (vnorm av.bases) = 0 := by
  simp only [InfoReal.entropyOf_rows]
  apply four_sums_zero
  intro s hs
  obtain ⟨r, hr, k, hk, rfl⟩ := mem_auxStep.mp hs
  have hrl := hlen r.1 (mem_keys_of_mem hr)
  have hZ : ∀ i ∈ vnorm av.bases, i < n := fun i hi => hb i ((mem_vnorm _ _).mp hi)
  have hRZ : ∀ i ∈ vunion R av.bases, i < n := by
    intro i hi
    rcases (mem_vunion _ _ _).mp hi with hi | hi
    · exact hR i hi
    · exact hb i hi
  have ea := fibreSum_auxStep_new joint av chan n (vunion [n] av.bases) (vnorm av.bases) hlen hZ
    (by intro i; simp only [mem_vunion, mem_vnorm, List.mem_singleton]; tauto)
    (fun i hi => (mem_vnorm _ _).mpr hi) r.1 hrl k hk
  have ec := fibreSum_auxStep_new joint av chan n (vunion (vunion [n] R) av.bases)
    (vunion R av.bases) hlen hRZ
    (by intro i; simp only [mem_vunion, List.mem_singleton]; tauto)
    (fun i hi => (mem_vunion _ _ _).mpr (Or.inr hi)) r.1 hrl k hk
  have eb : fibreSum (project (vunion R av.bases)) (auxStep joint av chan)
      (project (vunion R av.bases) (r.1 ++ [k]))
      = fibreSum (project (vunion R av.bases)) joint (project (vunion R av.bases) r.1) := by
    rw [project_append_of_lt _ r.1 [k] (fun i hi => by rw [hrl]; exact hRZ i hi),
      fibreSum_auxStep_old joint av chan n _ hrow hlen hRZ]
  have ed : fibreSum (project (vnorm av.bases)) (auxStep joint av chan)
      (project (vnorm av.bases) (r.1 ++ [k]))
      = fibreSum (project (vnorm av.bases)) joint (project (vnorm av.bases) r.1) := by
    rw [project_append_of_lt _ r.1 [k] (fun i hi => by rw [hrl]; exact hZ i hi),
      fibreSum_auxStep_old joint av chan n _ hrow hlen hZ]
  dsimp only
  rw [ea, eb, ec, ed]
  by_cases h0 : r.2 * chan (project av.bases r.1) k = 0
  · rw [h0]; ring
  · have hv : r.2 ≠ 0 := fun e => h0 (by rw [e, zero_mul])
    have hc : chan (project av.bases r.1) k ≠ 0 := fun e => h0 (by rw [e, mul_zero])
    have hvpos : 0 < r.2 := lt_of_le_of_ne (hnn r hr) (Ne.symm hv)
    have hA : fibreSum (project (vnorm av.bases)) joint (project (vnorm av.bases) r.1) ≠ 0 := by
      rw [fibreSum_eq_wtBy]
      have := (le_wtBy_of_mem (fun o => project (vnorm av.bases) o
        = project (vnorm av.bases) r.1) joint hnn).2 r hr rfl
      linarith
    have hB : fibreSum (project (vunion R av.bases)) joint (project (vunion R av.bases) r.1)
        ≠ 0 := by
      rw [fibreSum_eq_wtBy]
      have := (le_wtBy_of_mem (fun o => project (vunion R av.bases) o
        = project (vunion R av.bases) r.1) joint hnn).2 r hr rfl
      linarith
    rw [Real.logb_mul hA hc, Real.logb_mul hB hc]
    ring

end CmiZero

/-! ## Non-negativity of the constructed joint -/

section Nonneg
variable {α : Type} [Field α] [LinearOrder α] [IsStrictOrderedRing α]

theorem auxStep_nonneg (joint : Tab (List Nat) α) (av : AuxVar) (chan : List Nat → Nat → α)
    (hnn : ∀ r ∈ joint, 0 ≤ r.2)
    (hc : ∀ o ∈ keys joint, ∀ k < av.bound, 0 ≤ chan (project av.bases o) k) :
    ∀ s ∈ auxStep joint av chan, 0 ≤ s.2 := by
  intro s hs
  obtain ⟨r, hr, k, hk, rfl⟩ := mem_auxStep.mp hs
  exact mul_nonneg (hnn r hr) (hc r.1 (mem_keys_of_mem hr) k hk)

theorem constructJoint_nonneg (ofNat : Nat → α) (avs : List AuxVar) (sizes : List Nat)
    (t : Tab (List Nat) α) (x : List α) (hof : ∀ av ∈ avs, 0 ≤ ofNat av.bound)
    (hx : ∀ p ∈ x, 0 ≤ p) (hnn : ∀ r ∈ t, 0 ≤ r.2) :
    ∀ s ∈ constructJoint ofNat sizes t avs x, 0 ≤ s.2 := by
  induction avs generalizing sizes t x with
  | nil => exact hnn
  | cons av rest ih =>
    rw [constructJoint_cons]
    apply ih _ _ _ (fun a ha => hof a (List.mem_cons_of_mem _ ha))
      (fun p hp => hx p (List.mem_of_mem_drop hp))
    apply auxStep_nonneg _ _ _ hnn
    intro o _ k _
    exact channel_nonneg' ofNat _ av.bound _ _ k (hof av (by simp))
      (fun p hp => hx p (List.mem_of_mem_take hp))

end Nonneg

/-! ## Summing out the auxiliary coordinates returns the input table itself -/

section Exact
variable {κ : Type} [DecidableEq κ]

theorem filter_ne_idem (l : List κ) (x : κ) :
    ((l.filter (· ≠ x)).filter (· ≠ x)) = l.filter (· ≠ x) := by
  rw [List.filter_filter]
  apply List.filter_congr
  intro a _
  simp

theorem dedup_replicate_append (m : Nat) (x : κ) (rest : List κ) :
    dedup (List.replicate (m + 1) x ++ rest) = dedup (x :: rest) := by
  induction m with
  | zero => rfl
  | succ m ih =>
    have e : List.replicate (m + 1 + 1) x ++ rest = x :: (List.replicate (m + 1) x ++ rest) := rfl
    rw [e]
    show x :: (dedup (List.replicate (m + 1) x ++ rest)).filter (· ≠ x) = _
    rw [ih]
    show x :: (x :: (dedup rest).filter (· ≠ x)).filter (· ≠ x) = x :: (dedup rest).filter (· ≠ x)
    rw [List.filter_cons]
    simp only [ne_eq, not_true_eq_false, decide_false, Bool.false_eq_true, if_false]
    rw [filter_ne_idem]

theorem dedup_flatMap_replicate {ι : Type} (l : List ι) (b : Nat) (hb : 1 ≤ b) (g : ι → κ) :
    dedup (l.flatMap (fun o => List.replicate b (g o))) = dedup (l.map g) := by
  obtain ⟨m, rfl⟩ : ∃ m, b = m + 1 := ⟨b - 1, by omega⟩
  induction l with
  | nil => rfl
  | cons o l ih =>
    rw [List.flatMap_cons, dedup_replicate_append, List.map_cons]
    show g o :: (dedup _).filter (· ≠ g o) = g o :: (dedup _).filter (· ≠ g o)
    rw [ih]

variable {α : Type}

theorem tab_eq_map_keys [AddCommMonoid α] (t : Tab κ α) (hnd : (keys t).Nodup) :
    t = (keys t).map (fun o => (o, lookupD 0 t o)) := by
  induction t with
  | nil => rfl
  | cons r t ih =>
    rw [keys_cons, List.nodup_cons] at hnd
    rw [keys_cons, List.map_cons]
    congr 1
    · simp [lookupD, lookup?_cons]
    · conv_lhs => rw [ih hnd.2]
      apply List.map_congr_left
      intro o ho
      have : r.1 ≠ o := fun e => hnd.1 (e ▸ ho)
      simp [lookupD, lookup?_cons, this]

theorem map_take_keys_auxStep [CommSemiring α] (joint : Tab (List Nat) α) (av : AuxVar)
    (chan : List Nat → Nat → α) (n₀ : Nat) (hlen : ∀ o ∈ keys joint, n₀ ≤ o.length) :
    (keys (auxStep joint av chan)).map (List.take n₀)
      = (keys joint).flatMap (fun o => List.replicate av.bound (o.take n₀)) := by
  induction joint with
  | nil => rfl
  | cons r joint ih =>
    rw [auxStep_cons, keys_append, List.map_append,
      ih (fun o ho => hlen o (by rw [keys_cons]; exact List.mem_cons_of_mem _ ho)), keys_cons,
      List.flatMap_cons]
    congr 1
    have hr := hlen r.1 (by simp)
    simp only [keys, List.map_map]
    have e : List.replicate av.bound (List.take n₀ r.1)
        = (List.range av.bound).map (fun _ => List.take n₀ r.1) := by
      rw [List.map_const', List.length_range]
    rw [e]
    apply List.map_congr_left
    intro k _
    simp [List.take_append_of_le_length hr]

variable [Field α] [DecidableEq α]

theorem dedup_map_take_constructJoint (ofNat : Nat → α) (n₀ : Nat) (avs : List AuxVar)
    (sizes : List Nat) (t : Tab (List Nat) α) (x : List α) (hb : ∀ av ∈ avs, 1 ≤ av.bound)
    (hlen : ∀ o ∈ keys t, n₀ ≤ o.length) :
    dedup ((keys (constructJoint ofNat sizes t avs x)).map (List.take n₀))
      = dedup ((keys t).map (List.take n₀)) := by
  induction avs generalizing sizes t x with
  | nil => rfl
  | cons av rest ih =>
    rw [constructJoint_cons, ih _ _ _ (fun a ha => hb a (List.mem_cons_of_mem _ ha)),
      map_take_keys_auxStep t av _ n₀ hlen, dedup_flatMap_replicate _ _ (hb av (by simp))]
    intro o' ho'
    obtain ⟨o, ho, k, _, rfl⟩ := mem_keys_auxStep.mp ho'
    have := hlen o ho
    simp; omega

/-- **Summing out the auxiliary coordinates returns the input table**, row for row and in the
same order (keys of the input of equal length `n₀` and pairwise distinct, alphabets of the
auxiliary variables non-empty). -/
theorem dropLastVars_constructJoint (ofNat : Nat → α) (n₀ : Nat) (avs : List AuxVar)
    (sizes : List Nat) (t : Tab (List Nat) α) (x : List α) (hof : GoodCast ofNat avs)
    (hb : ∀ av ∈ avs, 1 ≤ av.bound)
    (hlen : ∀ o ∈ keys t, o.length = n₀) (hnd : (keys t).Nodup) :
    dropLastVars avs.length (constructJoint ofNat sizes t avs x) = t := by
  have hT := length_keys_constructJoint ofNat avs sizes t x n₀ hlen
  unfold dropLastVars
  rw [Transform.pushforward_congr _ (List.take n₀) _ (fun r hr => by
      rw [hT r.1 (mem_keys_of_mem hr), Nat.add_sub_cancel]),
    InfoReal.pushforward_eq]
  have e1 : (constructJoint ofNat sizes t avs x).map (fun r => List.take n₀ r.1)
      = (keys (constructJoint ofNat sizes t avs x)).map (List.take n₀) := by
    simp [keys, List.map_map, Function.comp_def]
  have e2 : (keys t).map (List.take n₀) = keys t := by
    conv_rhs => rw [← List.map_id (keys t)]
    apply List.map_congr_left
    intro o ho
    simp [List.take_of_length_le (hlen o ho).le]
  rw [e1, dedup_map_take_constructJoint ofNat n₀ avs sizes t x hb (fun o ho => (hlen o ho).ge),
    e2, dedup_eq_self.mpr hnd]
  conv_rhs => rw [tab_eq_map_keys t hnd]
  apply List.map_congr_left
  intro o _
  rw [fibreSum_eq_wtBy, lookupD_eq_wtBy hnd,
    ← constructJoint_wtBy_old ofNat n₀ (fun o' => o' = o) avs sizes t x hof hlen]

end Exact

/-! ## Example data for the non-vacuity examples of Props/C15.lean -/

/-- A 2×2 input distribution. -/
def exT : Tab (List Nat) Rat := [([0, 0], 1 / 4), ([0, 1], 1 / 4), ([1, 0], 1 / 8), ([1, 1], 3 / 8)]

end Dit.Lemmas.AuxJoint
