/-
Helper lemmas for the C06 companion about `Core/Diverge2.lean`: the Chernoff objective
(`npPow`, `chernoffSum`, `chernoffObj`) and the lautum information (`lautumVals`) over `ℝ` with
`R.pow := Real.rpow` (as a hypothesis on `R`) and `log2 := Real.logb 2`.
Property theorems are in Props/C06Chernoff.lean.
-/
import DitModel.Core.Diverge2
import DitModel.Lemmas.Diverge
import DitModel.Lemmas.Constructors
import Mathlib.Analysis.MeanInequalities
import Mathlib.Analysis.Convex.Function
import Mathlib.Analysis.Convex.Extrema

set_option linter.unusedSectionVars false

namespace Dit.Lemmas.Diverge2
open Dit Dit.Lemmas.Table Dit.Lemmas.InfoReal Dit.Lemmas.Diverge Dit.Lemmas.Constructors

/-! ### NumPy's power and the Chernoff sum -/

section Chernoff
variable (R : RealOps ℝ) (hR : ∀ x e : ℝ, R.pow x e = x ^ e)
include hR

/-- The explicit case split of `npPow` is `Real.rpow` (for all real arguments: Lean's
`x ^ 0 = 1` and `0 ^ e = 0` for `e ≠ 0` are the two guarded cases). -/
theorem npPow_eq (x e : ℝ) : npPow R x e = x ^ e := by
  unfold npPow
  by_cases he : e = 0
  · simp [he]
  · by_cases hx : x = 0
    · simp [he, hx, Real.zero_rpow he]
    · simp [he, hx, hR]

theorem chernoffSum_eq (a : ℝ) (pq : List (ℝ × ℝ)) :
    chernoffSum R a pq = (pq.map (fun r => r.1 ^ a * r.2 ^ (1 - a))).sum := by
  unfold chernoffSum
  rw [lsum_eq_sum]
  apply congrArg
  apply List.map_congr_left
  intro r _
  rw [npPow_eq R hR, npPow_eq R hR]

theorem chernoffSum_zero (pq : List (ℝ × ℝ)) :
    chernoffSum R 0 pq = (pq.map Prod.snd).sum := by
  rw [chernoffSum_eq R hR]
  apply congrArg
  apply List.map_congr_left
  intro r _
  simp

theorem chernoffSum_one (pq : List (ℝ × ℝ)) :
    chernoffSum R 1 pq = (pq.map Prod.fst).sum := by
  rw [chernoffSum_eq R hR]
  apply congrArg
  apply List.map_congr_left
  intro r _
  simp

theorem chernoffSum_nonneg (a : ℝ) (pq : List (ℝ × ℝ)) (hnn : ∀ r ∈ pq, 0 ≤ r.1 ∧ 0 ≤ r.2) :
    0 ≤ chernoffSum R a pq := by
  rw [chernoffSum_eq R hR]
  apply sum_map_nonneg
  intro r hr
  exact mul_nonneg (Real.rpow_nonneg (hnn r hr).1 _) (Real.rpow_nonneg (hnn r hr).2 _)

/-- Weighted AM–GM termwise: `Σ p^a q^(1−a) ≤ a Σp + (1−a) Σq`. -/
theorem chernoffSum_le (a : ℝ) (h0 : 0 ≤ a) (h1 : a ≤ 1) (pq : List (ℝ × ℝ))
    (hnn : ∀ r ∈ pq, 0 ≤ r.1 ∧ 0 ≤ r.2) :
    chernoffSum R a pq ≤ a * (pq.map Prod.fst).sum + (1 - a) * (pq.map Prod.snd).sum := by
  rw [chernoffSum_eq R hR, ← sum_map_mul_left, ← sum_map_mul_left, ← sum_map_add]
  apply sum_map_le
  intro r hr
  exact Real.geom_mean_le_arith_mean2_weighted h0 (by linarith) (hnn r hr).1 (hnn r hr).2
    (by ring)

/-- A common point of the supports makes the sum positive. -/
theorem chernoffSum_pos (a : ℝ) (pq : List (ℝ × ℝ)) (hnn : ∀ r ∈ pq, 0 ≤ r.1 ∧ 0 ≤ r.2)
    (hcs : ∃ r ∈ pq, 0 < r.1 ∧ 0 < r.2) : 0 < chernoffSum R a pq := by
  obtain ⟨r, hr, h1, h2⟩ := hcs
  rw [chernoffSum_eq R hR]
  have hpos : 0 < r.1 ^ a * r.2 ^ (1 - a) :=
    mul_pos (Real.rpow_pos_of_pos h1 _) (Real.rpow_pos_of_pos h2 _)
  refine lt_of_lt_of_le hpos
    (single_le_sum_map pq (fun r => r.1 ^ a * r.2 ^ (1 - a)) ?_ r hr)
  intro s hs
  exact mul_nonneg (Real.rpow_nonneg (hnn s hs).1 _) (Real.rpow_nonneg (hnn s hs).2 _)

/-- Strictly inside `(0,1)` the sum vanishes when the supports are disjoint (then NumPy's
objective is `log2 0 = −∞`). -/
theorem chernoffSum_eq_zero_of_disjoint (a : ℝ) (h0 : 0 < a) (h1 : a < 1) (pq : List (ℝ × ℝ))
    (hd : ∀ r ∈ pq, r.1 = 0 ∨ r.2 = 0) : chernoffSum R a pq = 0 := by
  rw [chernoffSum_eq R hR]
  apply List.sum_eq_zero
  intro z hz
  obtain ⟨r, hr, rfl⟩ := List.mem_map.mp hz
  rcases hd r hr with h | h
  · rw [h, Real.zero_rpow h0.ne', zero_mul]
  · rw [h, Real.zero_rpow (by linarith), mul_zero]

theorem chernoffSum_swap (a : ℝ) (pq : List (ℝ × ℝ)) :
    chernoffSum R a (pq.map Prod.swap) = chernoffSum R (1 - a) pq := by
  rw [chernoffSum_eq R hR, chernoffSum_eq R hR, List.map_map]
  apply congrArg
  apply List.map_congr_left
  intro r _
  simp only [Function.comp_apply, Prod.fst_swap, Prod.snd_swap, sub_sub_cancel]
  exact mul_comm _ _

omit hR in
/-- `p^a p^(1−a) = p` for `p ≥ 0` (also at `p = 0`, where one of the factors is `0`). -/
theorem rpow_mul_rpow_one_sub (p a : ℝ) (hp : 0 ≤ p) : p ^ a * p ^ (1 - a) = p := by
  rw [← Real.rpow_add' hp (by simp), add_sub_cancel, Real.rpow_one]

theorem chernoffSum_self (a : ℝ) (ps : List ℝ) (hnn : ∀ p ∈ ps, 0 ≤ p) :
    chernoffSum R a (ps.map (fun p => (p, p))) = ps.sum := by
  rw [chernoffSum_eq R hR, List.map_map]
  conv_rhs => rw [← List.map_id ps]
  apply congrArg
  apply List.map_congr_left
  intro p hp
  exact rpow_mul_rpow_one_sub p a (hnn p hp)

theorem chernoffSum_half (pq : List (ℝ × ℝ)) (hnn : ∀ r ∈ pq, 0 ≤ r.1 ∧ 0 ≤ r.2) :
    chernoffSum R (1 / 2) pq = bcVals Real.sqrt pq := by
  rw [chernoffSum_eq R hR, bcVals_eq]
  apply congrArg
  apply List.map_congr_left
  intro r hr
  have e : (1 : ℝ) - 1 / 2 = 1 / 2 := by norm_num
  rw [e, Real.sqrt_eq_rpow, Real.mul_rpow (hnn r hr).1 (hnn r hr).2]

omit hR in
/-- Strictly between the end points the Chernoff sum is the guarded power sum of the
Rényi/Tsallis family (terms with `p = 0` or `q = 0` contribute `0`), for any `R.pow`. -/
theorem chernoffSum_eq_powerSum (a : ℝ) (h0 : a ≠ 0) (h1 : a ≠ 1) (pq : List (ℝ × ℝ)) :
    chernoffSum R a pq = powerSum R a (1 - a) pq := by
  unfold chernoffSum powerSum
  apply congrArg
  apply List.map_congr_left
  intro r _
  have h1' : (1 : ℝ) - a ≠ 0 := sub_ne_zero.mpr (Ne.symm h1)
  by_cases hp : r.1 = 0 <;> by_cases hq : r.2 = 0 <;> simp [npPow, h0, h1', hp, hq]

end Chernoff

/-! ### Hölder's inequality for list sums and log-convexity of the Chernoff sum -/

section Holder

/-- Two-term Hölder with exponents `θ`, `1 − θ` strictly inside `(0,1)`. -/
theorem holder_two_aux (A B u v θ : ℝ) (hA : 0 ≤ A) (hB : 0 ≤ B) (hu : 0 ≤ u) (hv : 0 ≤ v)
    (h0 : 0 < θ) (h1 : θ < 1) :
    A ^ θ * B ^ (1 - θ) + u ^ θ * v ^ (1 - θ) ≤ (A + u) ^ θ * (B + v) ^ (1 - θ) := by
  have hw : 0 < 1 - θ := by linarith
  rcases (add_nonneg hA hu).eq_or_lt with hs | hs
  · have eA : A = 0 := by linarith
    have eu : u = 0 := by linarith
    rw [eA, eu]
    simp [Real.zero_rpow h0.ne']
  rcases (add_nonneg hB hv).eq_or_lt with ht | ht
  · have eB : B = 0 := by linarith
    have ev : v = 0 := by linarith
    rw [eB, ev]
    simp [Real.zero_rpow hw.ne']
  have hsθ : 0 < (A + u) ^ θ := Real.rpow_pos_of_pos hs _
  have htw : 0 < (B + v) ^ (1 - θ) := Real.rpow_pos_of_pos ht _
  have k1 := Real.geom_mean_le_arith_mean2_weighted h0.le hw.le
    (div_nonneg hA hs.le) (div_nonneg hB ht.le) (by ring)
  have k2 := Real.geom_mean_le_arith_mean2_weighted h0.le hw.le
    (div_nonneg hu hs.le) (div_nonneg hv ht.le) (by ring)
  rw [Real.div_rpow hA hs.le, Real.div_rpow hB ht.le] at k1
  rw [Real.div_rpow hu hs.le, Real.div_rpow hv ht.le] at k2
  have hsum : θ * (A / (A + u)) + (1 - θ) * (B / (B + v))
      + (θ * (u / (A + u)) + (1 - θ) * (v / (B + v))) = 1 := by
    field_simp
    ring
  have key : (A ^ θ * B ^ (1 - θ) + u ^ θ * v ^ (1 - θ)) / ((A + u) ^ θ * (B + v) ^ (1 - θ))
      ≤ 1 := by
    have e : (A ^ θ * B ^ (1 - θ) + u ^ θ * v ^ (1 - θ)) / ((A + u) ^ θ * (B + v) ^ (1 - θ))
        = A ^ θ / (A + u) ^ θ * (B ^ (1 - θ) / (B + v) ^ (1 - θ))
          + u ^ θ / (A + u) ^ θ * (v ^ (1 - θ) / (B + v) ^ (1 - θ)) := by
      field_simp
    rw [e]
    linarith
  rwa [div_le_one (mul_pos hsθ htw)] at key

/-- Two-term Hölder, `θ ∈ [0,1]`. -/
theorem holder_two (A B u v θ : ℝ) (hA : 0 ≤ A) (hB : 0 ≤ B) (hu : 0 ≤ u) (hv : 0 ≤ v)
    (h0 : 0 ≤ θ) (h1 : θ ≤ 1) :
    A ^ θ * B ^ (1 - θ) + u ^ θ * v ^ (1 - θ) ≤ (A + u) ^ θ * (B + v) ^ (1 - θ) := by
  rcases h0.eq_or_lt with e | h0'
  · rw [← e]; simp
  rcases h1.eq_or_lt with e | h1'
  · rw [e]; simp
  exact holder_two_aux A B u v θ hA hB hu hv h0' h1'

/-- Hölder for list sums: `Σ u^θ v^(1−θ) ≤ (Σ u)^θ (Σ v)^(1−θ)`. -/
theorem holder_list {β : Type} (l : List β) (u v : β → ℝ) (hu : ∀ x ∈ l, 0 ≤ u x)
    (hv : ∀ x ∈ l, 0 ≤ v x) (θ : ℝ) (h0 : 0 ≤ θ) (h1 : θ ≤ 1) :
    (l.map (fun x => u x ^ θ * v x ^ (1 - θ))).sum
      ≤ (l.map u).sum ^ θ * (l.map v).sum ^ (1 - θ) := by
  induction l with
  | nil =>
    simp only [List.map_nil, List.sum_nil]
    exact mul_nonneg (Real.rpow_nonneg le_rfl _) (Real.rpow_nonneg le_rfl _)
  | cons x t ih =>
    have hut : ∀ y ∈ t, 0 ≤ u y := fun y hy => hu y (List.mem_cons_of_mem _ hy)
    have hvt : ∀ y ∈ t, 0 ≤ v y := fun y hy => hv y (List.mem_cons_of_mem _ hy)
    have ih' := ih hut hvt
    simp only [List.map_cons, List.sum_cons]
    have h2 := holder_two (u x) (v x) (t.map u).sum (t.map v).sum θ
      (hu x List.mem_cons_self) (hv x List.mem_cons_self)
      (sum_map_nonneg t u hut) (sum_map_nonneg t v hvt) h0 h1
    linarith

/-- The Chernoff term at a convex combination of exponents (NumPy conventions included: the
identity also holds at `p = 0` or `q = 0` because the exponents stay in `[0,1]`). -/
theorem chernoff_term_convex (p q a b θ : ℝ) (hp : 0 ≤ p) (hq : 0 ≤ q)
    (ha0 : 0 ≤ a) (ha1 : a ≤ 1) (hb0 : 0 ≤ b) (hb1 : b ≤ 1) (h0 : 0 ≤ θ) (h1 : θ ≤ 1) :
    p ^ (θ * a + (1 - θ) * b) * q ^ (1 - (θ * a + (1 - θ) * b))
      = (p ^ a * q ^ (1 - a)) ^ θ * (p ^ b * q ^ (1 - b)) ^ (1 - θ) := by
  have hw : 0 ≤ 1 - θ := by linarith
  have e2 : 1 - (θ * a + (1 - θ) * b) = θ * (1 - a) + (1 - θ) * (1 - b) := by ring
  rw [e2, Real.rpow_add_of_nonneg hp (mul_nonneg h0 ha0) (mul_nonneg hw hb0),
    Real.rpow_add_of_nonneg hq (mul_nonneg h0 (by linarith)) (mul_nonneg hw (by linarith)),
    Real.mul_rpow (Real.rpow_nonneg hp _) (Real.rpow_nonneg hq _),
    Real.mul_rpow (Real.rpow_nonneg hp _) (Real.rpow_nonneg hq _),
    ← Real.rpow_mul hp, ← Real.rpow_mul hp, ← Real.rpow_mul hq, ← Real.rpow_mul hq,
    mul_comm a θ, mul_comm b (1 - θ), mul_comm (1 - a) θ, mul_comm (1 - b) (1 - θ)]
  ring

variable (R : RealOps ℝ) (hR : ∀ x e : ℝ, R.pow x e = x ^ e)
include hR

/-- Hölder: `S(θa + (1−θ)b) ≤ S(a)^θ S(b)^(1−θ)` for the Chernoff sum on `[0,1]`. -/
theorem chernoffSum_holder (pq : List (ℝ × ℝ)) (hnn : ∀ r ∈ pq, 0 ≤ r.1 ∧ 0 ≤ r.2)
    (a b θ : ℝ) (ha0 : 0 ≤ a) (ha1 : a ≤ 1) (hb0 : 0 ≤ b) (hb1 : b ≤ 1)
    (h0 : 0 ≤ θ) (h1 : θ ≤ 1) :
    chernoffSum R (θ * a + (1 - θ) * b) pq
      ≤ chernoffSum R a pq ^ θ * chernoffSum R b pq ^ (1 - θ) := by
  rw [chernoffSum_eq R hR, chernoffSum_eq R hR, chernoffSum_eq R hR]
  have := holder_list pq (fun r => r.1 ^ a * r.2 ^ (1 - a)) (fun r => r.1 ^ b * r.2 ^ (1 - b))
    (fun r hr => mul_nonneg (Real.rpow_nonneg (hnn r hr).1 _) (Real.rpow_nonneg (hnn r hr).2 _))
    (fun r hr => mul_nonneg (Real.rpow_nonneg (hnn r hr).1 _) (Real.rpow_nonneg (hnn r hr).2 _))
    θ h0 h1
  refine le_trans (le_of_eq ?_) this
  apply congrArg
  apply List.map_congr_left
  intro r hr
  exact chernoff_term_convex r.1 r.2 a b θ (hnn r hr).1 (hnn r hr).2 ha0 ha1 hb0 hb1 h0 h1

/-- `a ↦ log Σ p^a q^(1−a)` is convex on `[0,1]` when the supports meet. -/
theorem chernoffSum_log_convexOn (pq : List (ℝ × ℝ)) (hnn : ∀ r ∈ pq, 0 ≤ r.1 ∧ 0 ≤ r.2)
    (hcs : ∃ r ∈ pq, 0 < r.1 ∧ 0 < r.2) :
    ConvexOn ℝ (Set.Icc 0 1) (fun a => Real.log (chernoffSum R a pq)) := by
  refine ⟨convex_Icc 0 1, ?_⟩
  intro a ha b hb θ w hθ hw hθw
  have ew : w = 1 - θ := by linarith
  subst ew
  have hθ1 : θ ≤ 1 := by linarith
  simp only [smul_eq_mul]
  have hSa := chernoffSum_pos R hR a pq hnn hcs
  have hSb := chernoffSum_pos R hR b pq hnn hcs
  have hSm := chernoffSum_pos R hR (θ * a + (1 - θ) * b) pq hnn hcs
  have hh := chernoffSum_holder R hR pq hnn a b θ ha.1 ha.2 hb.1 hb.2 hθ hθ1
  have hl := Real.log_le_log hSm hh
  rwa [Real.log_mul (Real.rpow_pos_of_pos hSa _).ne' (Real.rpow_pos_of_pos hSb _).ne',
    Real.log_rpow hSa, Real.log_rpow hSb] at hl

/-- The objective `a ↦ log2 Σ p^a q^(1−a)` itself is convex on `[0,1]` when the supports meet. -/
theorem chernoffObj_convexOn (pq : List (ℝ × ℝ)) (hnn : ∀ r ∈ pq, 0 ≤ r.1 ∧ 0 ≤ r.2)
    (hcs : ∃ r ∈ pq, 0 < r.1 ∧ 0 < r.2) :
    ConvexOn ℝ (Set.Icc 0 1) (fun a => chernoffObj R (Real.logb 2) a pq) := by
  have h := (chernoffSum_log_convexOn R hR pq hnn hcs).smul (inv_nonneg.mpr log_two_pos.le)
  have e : (fun a => chernoffObj R (Real.logb 2) a pq)
      = fun a => (Real.log 2)⁻¹ • Real.log (chernoffSum R a pq) := by
    funext a
    unfold chernoffObj
    rw [logb_two_eq, smul_eq_mul, div_eq_inv_mul]
  rw [e]
  exact h

end Holder

/-! ### Lautum information -/

section PermRect

theorem perm_flatMap_cons {β γ : Type} (l : List β) (a : β → γ) (g : β → List γ) :
    (l.flatMap (fun y => a y :: g y)).Perm (l.map a ++ l.flatMap g) := by
  induction l with
  | nil => exact List.Perm.refl _
  | cons y t ih =>
    simp only [List.flatMap_cons, List.map_cons, List.cons_append]
    refine List.Perm.cons _ ?_
    refine ((List.Perm.append_left (g y) ih).trans ?_)
    rw [← List.append_assoc, ← List.append_assoc]
    exact List.Perm.append_right _ List.perm_append_comm

/-- Listing a rectangle row by row or column by column. -/
theorem perm_flatMap_swap {β γ δ : Type} (l1 : List β) (l2 : List γ) (F : β → γ → δ) :
    (l1.flatMap (fun x => l2.map (fun y => F x y))).Perm
      (l2.flatMap (fun y => l1.map (fun x => F x y))) := by
  induction l1 with
  | nil =>
    simp only [List.flatMap_nil, List.map_nil]
    induction l2 with
    | nil => exact List.Perm.refl _
    | cons y t ih => simp
  | cons x t ih =>
    simp only [List.flatMap_cons, List.map_cons]
    exact ((List.Perm.append_left _ ih).trans (perm_flatMap_cons l2 _ _).symm)

end PermRect

section Lautum
variable {σ : Type} [DecidableEq σ]

/-- `P_X(x)`: the probability that the components `X` of the outcome are `x`. -/
noncomputable def margP (t : Tab (List σ) ℝ) (X : List Nat) (x : List σ) : ℝ :=
  wtBy (fun o => project X o = x) t

/-- `P_XY(x, y)`: the probability that the components `X` are `x` and the components `Y` are
`y`. -/
noncomputable def jointP (t : Tab (List σ) ℝ) (X Y : List Nat) (x y : List σ) : ℝ :=
  wtBy (fun o => project X o = x ∧ project Y o = y) t

/-- The label-aligned pairs `(P_X(x) P_Y(y), P_XY(x,y))` over the observed values `x` of `X` and
`y` of `Y`, in the order in which `lautumVals` lists them. -/
noncomputable def lautumPairs (t : Tab (List σ) ℝ) (X Y : List Nat) : List (ℝ × ℝ) :=
  (keys (pushforward (project X) t)).flatMap (fun x =>
    (keys (pushforward (project Y) t)).map (fun y =>
      (margP t X x * margP t Y y, jointP t X Y x y)))

theorem flatMap_congr' {β γ : Type} (l : List β) (f g : β → List γ) (h : ∀ x ∈ l, f x = g x) :
    l.flatMap f = l.flatMap g := by
  induction l with
  | nil => rfl
  | cons x t ih =>
    rw [List.flatMap_cons, List.flatMap_cons, h x List.mem_cons_self,
      ih (fun y hy => h y (List.mem_cons_of_mem _ hy))]

theorem sum_map_flatMap {β γ : Type} (l : List β) (G : β → List γ) (h : γ → ℝ) :
    ((l.flatMap G).map h).sum = (l.map (fun x => ((G x).map h).sum)).sum := by
  induction l with
  | nil => rfl
  | cons x t ih =>
    rw [List.flatMap_cons, List.map_append, List.sum_append, ih, List.map_cons, List.sum_cons]

theorem wtBy_nonneg' {κ : Type} (p : κ → Prop) [DecidablePred p] (t : Tab κ ℝ)
    (h : ∀ r ∈ t, 0 ≤ r.2) : 0 ≤ wtBy p t := by
  unfold wtBy
  apply sum_map_nonneg
  intro r hr
  split
  · exact h r hr
  · exact le_rfl

/-- A stored row of a push-forward carries the weight of its fibre. -/
theorem pushforward_row {κ κ' : Type} [DecidableEq κ] [DecidableEq κ'] (f : κ → κ')
    (t : Tab κ ℝ) {r : κ' × ℝ} (hr : r ∈ pushforward f t) :
    r.2 = wtBy (fun o => f o = r.1) t := by
  rw [← lookupD_pushforward, lookupD_of_mem (keys_pushforward_nodup f t) hr]

theorem map_fst_alignPair {κ : Type} [DecidableEq κ] (t1 t2 : Tab κ ℝ) :
    (alignPair t1 t2).map Prod.fst = vals t1 := by
  simp [alignPair, vals, Function.comp_def]

theorem map_snd_alignPair {κ : Type} [DecidableEq κ] (t1 t2 : Tab κ ℝ) :
    (alignPair t1 t2).map Prod.snd = (keys t1).map (lookupD 0 t2) := by
  simp [alignPair, keys, Function.comp_def]

variable (t : Tab (List σ) ℝ) (X Y : List Nat)

/-- The product table `P_X ⊗ P_Y` built inside `lautumVals`. -/
def lautumProd : Tab (List σ) ℝ :=
  (pushforward (project X) t).flatMap (fun rx =>
    (pushforward (project Y) t).map (fun ry => (rx.1 ++ ry.1, rx.2 * ry.2)))

/-- The joint table of the pair `(X, Y)` built inside `lautumVals`. -/
def lautumJoint : Tab (List σ) ℝ :=
  pushforward (fun o => project X o ++ project Y o) t

theorem lautumVals_unfold (log : ℝ → ℝ) :
    lautumVals log t X Y = klVals log (alignPair (lautumProd t X Y) (lautumJoint t X Y)) := rfl

theorem mem_keys_margX {x : List σ} :
    x ∈ keys (pushforward (project X) t) ↔ ∃ o ∈ keys t, project X o = x :=
  mem_keys_pushforward _ _ _

theorem margP_eq_zero {x : List σ} (h : x ∉ keys (pushforward (project X) t)) :
    margP t X x = 0 := by
  apply wtBy_eq_zero
  intro o ho e
  exact h ((mem_keys_margX t X).mpr ⟨o, ho, e⟩)

theorem jointP_eq_zero_left {x : List σ} (y : List σ)
    (h : x ∉ keys (pushforward (project X) t)) : jointP t X Y x y = 0 := by
  apply wtBy_eq_zero
  intro o ho e
  exact h ((mem_keys_margX t X).mpr ⟨o, ho, e.1⟩)

theorem jointP_eq_zero_right (x : List σ) {y : List σ}
    (h : y ∉ keys (pushforward (project Y) t)) : jointP t X Y x y = 0 := by
  apply wtBy_eq_zero
  intro o ho e
  exact h ((mem_keys_margX t Y).mpr ⟨o, ho, e.2⟩)

theorem margP_nonneg (hnn : ∀ r ∈ t, 0 ≤ r.2) (x : List σ) : 0 ≤ margP t X x :=
  wtBy_nonneg' _ t hnn

theorem jointP_nonneg (hnn : ∀ r ∈ t, 0 ≤ r.2) (x y : List σ) : 0 ≤ jointP t X Y x y :=
  wtBy_nonneg' _ t hnn

theorem mem_lautumPairs {r : ℝ × ℝ} :
    r ∈ lautumPairs t X Y ↔ ∃ x ∈ keys (pushforward (project X) t),
      ∃ y ∈ keys (pushforward (project Y) t),
        r = (margP t X x * margP t Y y, jointP t X Y x y) := by
  unfold lautumPairs
  simp only [List.mem_flatMap, List.mem_map]
  constructor
  · rintro ⟨x, hx, y, hy, rfl⟩; exact ⟨x, hx, y, hy, rfl⟩
  · rintro ⟨x, hx, y, hy, rfl⟩; exact ⟨x, hx, y, hy, rfl⟩

variable (hX : ∀ o ∈ keys t, ∀ i ∈ X, i < o.length)
include hX

theorem length_of_mem_margX {x : List σ} (hx : x ∈ keys (pushforward (project X) t)) :
    x.length = X.length := by
  obtain ⟨o, ho, rfl⟩ := (mem_keys_margX t X).mp hx
  exact length_project (hX o ho)

/-- Looking the label `x ++ y` up in the joint table gives `P_XY(x, y)`: because all `X`-parts
have the same length, the concatenation determines its two parts. -/
theorem lookupD_lautumJoint {x : List σ} (hx : x ∈ keys (pushforward (project X) t))
    (y : List σ) : lookupD 0 (lautumJoint t X Y) (x ++ y) = jointP t X Y x y := by
  unfold lautumJoint jointP
  rw [lookupD_pushforward]
  apply wtBy_congr
  intro o ho
  constructor
  · intro e
    exact List.append_inj e (by rw [length_project (hX o ho), length_of_mem_margX t X hX hx])
  · rintro ⟨e1, e2⟩; rw [e1, e2]

/-- The aligned pairs of `lautumVals` are `(P_X(x) P_Y(y), P_XY(x, y))`. -/
theorem alignPair_lautum :
    alignPair (lautumProd t X Y) (lautumJoint t X Y) = lautumPairs t X Y := by
  unfold alignPair lautumProd lautumPairs keys
  rw [List.map_flatMap, List.flatMap_map]
  apply flatMap_congr'
  intro rx hrx
  rw [List.map_map, List.map_map]
  apply List.map_congr_left
  intro ry hry
  simp only [Function.comp_apply]
  rw [lookupD_lautumJoint t X Y hX (mem_keys_of_mem hrx), pushforward_row _ t hrx,
    pushforward_row _ t hry]
  rfl

theorem lautumVals_eq (log : ℝ → ℝ) :
    lautumVals log t X Y = klVals log (lautumPairs t X Y) := by
  rw [lautumVals_unfold, alignPair_lautum t X Y hX]

/-- The labels of the product table are pairwise distinct. -/
theorem keys_lautumProd_nodup : (keys (lautumProd t X Y)).Nodup := by
  unfold lautumProd
  apply keys_pairs_nodup (fun a b : List σ => a ++ b) _ _ (keys_pushforward_nodup _ t)
    (keys_pushforward_nodup _ t)
  intro a ha a' ha' b _ b' _ e
  exact List.append_inj e
    (by rw [length_of_mem_margX t X hX ha, length_of_mem_margX t X hX ha'])

omit hX in
theorem mem_keys_lautumProd (o : List σ) (ho : o ∈ keys t) :
    project X o ++ project Y o ∈ keys (lautumProd t X Y) := by
  unfold lautumProd
  rw [keys_pairs (fun a b : List σ => a ++ b)]
  simp only [List.mem_flatMap, List.mem_map]
  exact ⟨project X o, (mem_keys_margX t X).mpr ⟨o, ho, rfl⟩, project Y o,
    (mem_keys_margX t Y).mpr ⟨o, ho, rfl⟩, rfl⟩

theorem lautumPairs_sum_fst :
    ((lautumPairs t X Y).map Prod.fst).sum = mass t * mass t := by
  rw [← alignPair_lautum t X Y hX, map_fst_alignPair, ← mass_eq_sum]
  unfold lautumProd
  rw [mass_pairs (fun a b : List σ => a ++ b), mass_pushforward, mass_pushforward]

theorem lautumPairs_sum_snd :
    ((lautumPairs t X Y).map Prod.snd).sum = mass t := by
  rw [← alignPair_lautum t X Y hX, map_snd_alignPair]
  have e : (keys (lautumProd t X Y)).map (lookupD 0 (lautumJoint t X Y))
      = (keys (lautumProd t X Y)).map (fun k =>
          if True then wtBy (fun o => project X o ++ project Y o = k) t else 0) := by
    apply List.map_congr_left
    intro k _
    unfold lautumJoint
    rw [lookupD_pushforward, if_pos trivial]
  rw [e, sum_map_wtBy_fibre (keys_lautumProd_nodup t X Y hX)
    (fun o => project X o ++ project Y o) (fun _ => True) t (mem_keys_lautumProd t X Y),
    wtBy_true]

omit hX in
theorem lautumPairs_nonneg (hnn : ∀ r ∈ t, 0 ≤ r.2) :
    ∀ r ∈ lautumPairs t X Y, 0 ≤ r.1 ∧ 0 ≤ r.2 := by
  intro r hr
  obtain ⟨x, _, y, _, rfl⟩ := (mem_lautumPairs t X Y).mp hr
  exact ⟨mul_nonneg (margP_nonneg t X hnn x) (margP_nonneg t Y hnn y),
    jointP_nonneg t X Y hnn x y⟩

omit hX in
/-- The textbook double sum. -/
theorem klSum_lautumPairs :
    klSum (lautumPairs t X Y)
      = ((keys (pushforward (project X) t)).map (fun x =>
          ((keys (pushforward (project Y) t)).map (fun y =>
            margP t X x * margP t Y y
              * Real.logb 2 (margP t X x * margP t Y y / jointP t X Y x y))).sum)).sum := by
  unfold klSum lautumPairs
  rw [sum_map_flatMap]
  apply congrArg
  apply List.map_congr_left
  intro x _
  rw [List.map_map]
  rfl

omit hX in
/-- The support condition of the lautum divergence. -/
theorem absCont_lautumPairs_false_iff :
    absCont (lautumPairs t X Y) = false
      ↔ ∃ x y, margP t X x ≠ 0 ∧ margP t Y y ≠ 0 ∧ jointP t X Y x y = 0 := by
  rw [absCont_false_iff]
  constructor
  · rintro ⟨r, hr, h1, h2⟩
    obtain ⟨x, _, y, _, rfl⟩ := (mem_lautumPairs t X Y).mp hr
    exact ⟨x, y, left_ne_zero_of_mul h1, right_ne_zero_of_mul h1, h2⟩
  · rintro ⟨x, y, h1, h2, h3⟩
    have hx : x ∈ keys (pushforward (project X) t) := by
      by_contra h; exact h1 (margP_eq_zero t X h)
    have hy : y ∈ keys (pushforward (project Y) t) := by
      by_contra h; exact h2 (margP_eq_zero t Y h)
    exact ⟨_, (mem_lautumPairs t X Y).mpr ⟨x, hx, y, hy, rfl⟩, mul_ne_zero h1 h2, h3⟩

omit hX in
/-- All aligned pairs agree iff the joint is the product of its marginals everywhere. -/
theorem lautumPairs_eq_iff :
    (∀ r ∈ lautumPairs t X Y, r.1 = r.2)
      ↔ ∀ x y, jointP t X Y x y = margP t X x * margP t Y y := by
  constructor
  · intro h x y
    by_cases hx : x ∈ keys (pushforward (project X) t)
    · by_cases hy : y ∈ keys (pushforward (project Y) t)
      · exact (h _ ((mem_lautumPairs t X Y).mpr ⟨x, hx, y, hy, rfl⟩)).symm
      · rw [jointP_eq_zero_right t X Y x hy, margP_eq_zero t Y hy, mul_zero]
    · rw [jointP_eq_zero_left t X Y y hx, margP_eq_zero t X hx, zero_mul]
  · intro h r hr
    obtain ⟨x, _, y, _, rfl⟩ := (mem_lautumPairs t X Y).mp hr
    exact (h x y).symm

/-! Symmetry in the two groups. -/

omit hX in
theorem lautumPairs_swap :
    (lautumPairs t Y X).Perm (lautumPairs t X Y) := by
  unfold lautumPairs
  refine (perm_flatMap_swap _ _ _).trans (List.Perm.of_eq ?_)
  apply flatMap_congr'
  intro x _
  apply List.map_congr_left
  intro y _
  have : jointP t Y X y x = jointP t X Y x y := by
    unfold jointP
    exact wtBy_congr _ _ t (fun o _ => and_comm)
  rw [this, mul_comm]

end Lautum

end Dit.Lemmas.Diverge2
