/-
Helper lemmas for C20 (weak compositions `slots`, the simplex grid).
Property theorems are in Props/C20.lean.
-/
import DitModel.Core.Simplex
import Mathlib.Data.Nat.Choose.Sum
import Mathlib.Algebra.BigOperators.Group.List.Basic

set_option linter.unusedSectionVars false

namespace Dit.Lemmas.Slots
open Dit

/-! ### Unfolding -/

theorem slots_zero_zero : slots 0 0 = [[]] := by rw [slots]

theorem slots_succ_zero (n : Nat) : slots (n + 1) 0 = [] := by rw [slots]

theorem slots_succ (n k : Nat) :
    slots n (k + 1) =
      (List.range (n + 1)).flatMap (fun i => (slots (n - i) k).map (i :: ·)) := by
  rw [slots]

theorem mem_slots_succ (n k : Nat) (c : List Nat) :
    c ∈ slots n (k + 1) ↔ ∃ i, i ≤ n ∧ ∃ c', c' ∈ slots (n - i) k ∧ c = i :: c' := by
  rw [slots_succ]
  simp only [List.mem_flatMap, List.mem_range, List.mem_map, Nat.lt_succ_iff]
  constructor
  · rintro ⟨i, hi, c', hc', rfl⟩
    exact ⟨i, hi, c', hc', rfl⟩
  · rintro ⟨i, hi, c', hc', rfl⟩
    exact ⟨i, hi, c', hc', rfl⟩

/-! ### Soundness and completeness -/

/-- Membership in `slots n k` is exactly "`k` parts summing to `n`". -/
theorem mem_slots_iff (n k : Nat) (c : List Nat) :
    c ∈ slots n k ↔ c.length = k ∧ c.sum = n := by
  induction k generalizing n c with
  | zero =>
    cases n with
    | zero =>
      rw [slots_zero_zero]
      constructor
      · intro h
        rw [List.mem_singleton] at h
        subst h
        exact ⟨rfl, rfl⟩
      · rintro ⟨h, _⟩
        rw [List.length_eq_zero_iff.mp h]
        exact List.mem_singleton.mpr rfl
    | succ n =>
      rw [slots_succ_zero]
      constructor
      · intro h; cases h
      · rintro ⟨h, h2⟩
        rw [List.length_eq_zero_iff.mp h] at h2
        simp at h2
  | succ k ih =>
    rw [mem_slots_succ]
    constructor
    · rintro ⟨i, hi, c', hc', rfl⟩
      obtain ⟨h1, h2⟩ := (ih _ _).mp hc'
      refine ⟨by simp [h1], ?_⟩
      rw [List.sum_cons, h2]
      omega
    · rintro ⟨h1, h2⟩
      cases c with
      | nil => simp at h1
      | cons i c' =>
        rw [List.length_cons] at h1
        rw [List.sum_cons] at h2
        exact ⟨i, by omega, c', (ih _ _).mpr ⟨by omega, by omega⟩, rfl⟩

/-! ### Lexicographic order, no duplicates -/

theorem lexLt_irrefl (a : List Nat) : lexLt a a = false := by
  induction a with
  | nil => rfl
  | cons x a ih => simp [lexLt, ih]

theorem lexLt_cons_of_lt (i j : Nat) (a b : List Nat) (h : i < j) :
    lexLt (i :: a) (j :: b) = true := by
  simp [lexLt, h]

theorem lexLt_cons_same (i : Nat) (a b : List Nat) :
    lexLt (i :: a) (i :: b) = lexLt a b := by
  simp [lexLt]

/-- `lexLt` is transitive (on arbitrary lists). -/
theorem lexLt_trans (a b c : List Nat) (h1 : lexLt a b = true) (h2 : lexLt b c = true) :
    lexLt a c = true := by
  induction a generalizing b c with
  | nil =>
    cases b with
    | nil => simp [lexLt] at h1
    | cons y b =>
      cases c with
      | nil => simp [lexLt] at h2
      | cons z c => rfl
  | cons x a ih =>
    cases b with
    | nil => simp [lexLt] at h1
    | cons y b =>
      cases c with
      | nil => simp [lexLt] at h2
      | cons z c =>
        rw [lexLt] at h1 h2 ⊢
        by_cases hxy : x < y
        · by_cases hyz : y < z
          · have : x < z := Nat.lt_trans hxy hyz
            simp [this]
          · by_cases hzy : z < y
            · simp [hyz, hzy] at h2
            · have : y = z := by omega
              subst this
              simp [hxy]
        · by_cases hyx : y < x
          · simp [hxy, hyx] at h1
          · have : x = y := by omega
            subst this
            simp only [hxy, if_false] at h1
            by_cases hyz : x < z
            · simp [hyz]
            · by_cases hzy : z < x
              · simp [hyz, hzy] at h2
              · simp only [hyz, hzy, if_false] at h2 ⊢
                exact ih b c h1 h2

/-- `slots n k` is strictly increasing in lexicographic order. -/
theorem slots_pairwise (n k : Nat) : (slots n k).Pairwise (fun a b => lexLt a b = true) := by
  induction k generalizing n with
  | zero =>
    cases n with
    | zero => rw [slots_zero_zero]; exact List.pairwise_singleton _ _
    | succ n => rw [slots_succ_zero]; exact List.Pairwise.nil
  | succ k ih =>
    rw [slots_succ, List.pairwise_flatMap]
    constructor
    · intro i _
      rw [List.pairwise_map]
      refine (ih (n - i)).imp ?_
      intro a b hab
      rw [lexLt_cons_same]; exact hab
    · refine List.pairwise_lt_range.imp ?_
      intro i j hij x hx y hy
      obtain ⟨x', _, rfl⟩ := List.mem_map.mp hx
      obtain ⟨y', _, rfl⟩ := List.mem_map.mp hy
      exact lexLt_cons_of_lt i j x' y' hij

theorem slots_nodup (n k : Nat) : (slots n k).Nodup := by
  refine (slots_pairwise n k).imp ?_
  intro a b hab e
  subst e
  rw [lexLt_irrefl] at hab
  cases hab

/-! ### Counting -/

theorem list_sum_range (f : Nat → Nat) (n : Nat) :
    ((List.range n).map f).sum = ∑ i ∈ Finset.range n, f i := by
  induction n with
  | zero => simp
  | succ n ih =>
    rw [List.range_succ, List.map_append, List.sum_append, ih, Finset.sum_range_succ]
    simp

theorem sum_range_flip (g : Nat → Nat) (n : Nat) :
    ((List.range (n + 1)).map (fun i => g (n - i))).sum = ∑ j ∈ Finset.range (n + 1), g j := by
  rw [list_sum_range, ← Finset.sum_range_reflect g (n + 1)]
  simp

theorem slots_length_zero (n : Nat) : (slots n 0).length = if n = 0 then 1 else 0 := by
  cases n with
  | zero => rw [slots_zero_zero]; rfl
  | succ n => rw [slots_succ_zero]; rfl

/-- Recursion for the number of compositions. -/
theorem slots_length_rec (n k : Nat) :
    (slots n (k + 1)).length = ∑ j ∈ Finset.range (n + 1), (slots j k).length := by
  rw [slots_succ, List.length_flatMap]
  simp only [List.length_map]
  exact sum_range_flip (fun j => (slots j k).length) n

/-- Stars and bars: `C(n + k, k)` weak compositions of `n` into `k + 1` parts. -/
theorem slots_length_succ (n k : Nat) : (slots n (k + 1)).length = Nat.choose (n + k) k := by
  induction k generalizing n with
  | zero =>
    rw [slots_length_rec]
    simp only [slots_length_zero]
    simp
  | succ k ih =>
    rw [slots_length_rec]
    simp only [ih]
    exact Nat.sum_range_add_choose n k

end Dit.Lemmas.Slots
