/-
Helper lemmas for the sigma-algebra model (`Core/SigAlg.lean`). Property theorems are in
Props/C16Sigma.lean.
-/
import DitModel.Core.SigAlg
import DitModel.Lemmas.Meet
import Mathlib.Data.List.Nodup
import Mathlib.Data.List.Pairwise
import Mathlib.Data.List.Perm.Subperm

set_option linter.unusedSectionVars false

namespace Dit.Lemmas.SigAlg
open Dit Dit.Lemmas.Meet

/-! ## Canonical subsets: sub-lists of a duplicate-free list -/

section Canon
variable {ε : Type} [DecidableEq ε]

/-- A sub-list of a duplicate-free list is the filter of that list by its own membership test. -/
theorem sublist_eq_filter {X s : List ε} (hX : X.Nodup) (hs : s.Sublist X) :
    s = X.filter (fun x => s.contains x) := by
  induction hs with
  | slnil => rfl
  | @cons s X a hs ih =>
    have hXn := (List.nodup_cons.mp hX)
    have has : a ∉ s := fun h => hXn.1 (hs.subset h)
    rw [List.filter_cons_of_neg (by simpa using has)]
    exact ih hXn.2
  | @cons_cons s X a hs ih =>
    have hXn := (List.nodup_cons.mp hX)
    rw [List.filter_cons_of_pos (by simp)]
    congr 1
    have e : X.filter (fun x => (a :: s).contains x) = X.filter (fun x => s.contains x) := by
      apply List.filter_congr
      intro x hx
      have hne : x ≠ a := fun h => hXn.1 (h ▸ hx)
      simp [hne]
    rw [e]
    exact ih hXn.2

/-- Canonical forms are unique. -/
theorem sublist_ext' {X s t : List ε} (hX : X.Nodup) (hs : s.Sublist X) (ht : t.Sublist X)
    (h : ∀ x, x ∈ s ↔ x ∈ t) : s = t := by
  rw [sublist_eq_filter hX hs, sublist_eq_filter hX ht]
  apply List.filter_congr
  intro x _
  apply Bool.eq_iff_iff.mpr
  simpa using h x

/-- Membership test of a filter, on members of the list. -/
theorem contains_filter {X : List ε} (p : ε → Bool) {x : ε} (hx : x ∈ X) :
    (X.filter p).contains x = p x := by
  apply Bool.eq_iff_iff.mpr
  simp [hx]

/-- Two duplicate-free sub-lists of `X`, one inside the other, of the same length, are equal. -/
theorem eq_of_subset_of_length {X s t : List ε} (hX : X.Nodup) (hs : s.Sublist X)
    (ht : t.Sublist X) (hst : ∀ x ∈ s, x ∈ t) (hlen : t.length ≤ s.length) : s = t := by
  have hp : s.Perm t := ((hs.nodup hX).subperm hst).perm_of_length_le hlen
  exact sublist_ext' hX hs ht (fun x => hp.mem_iff)

end Canon

/-! ## `groupsBy`: the fold shared by `classesBy` and `colGroups` -/

section Groups
variable {ε : Type} [DecidableEq ε]

/-- The fold of `classesBy` / `colGroups` over an arbitrary element type. -/
def groupsBy (cf : ε → List ε) (X : List ε) : List (List ε) :=
  X.foldl (fun acc x => if acc.any (fun g => g.contains x) then acc else acc ++ [cf x]) []

/-- The relation whose classes `colGroups` computes. -/
def colRel (C : List (List ε)) (x y : ε) : Bool := colOf C y == colOf C x

theorem colGroups_eq (C : List (List ε)) (X : List ε) :
    colGroups C X = groupsBy (fun x => X.filter (colRel C x)) X := rfl

theorem classesBy_eq {σ : Type} [DecidableEq σ] (cf : List σ → List (List σ))
    (rows : List (List σ)) : classesBy cf rows = groupsBy cf rows := by
  unfold classesBy groupsBy
  simp only [List.contains_eq_mem]
  congr 1
  funext acc o
  congr 3
  funext c
  congr

/-- `rel` is an equivalence relation on the members of `X`. -/
structure EqvOn (rel : ε → ε → Bool) (X : List ε) : Prop where
  refl : ∀ o ∈ X, rel o o = true
  symm : ∀ o ∈ X, ∀ o' ∈ X, rel o o' = true → rel o' o = true
  trans : ∀ o ∈ X, ∀ o' ∈ X, ∀ o'' ∈ X, rel o o' = true → rel o' o'' = true → rel o o'' = true

theorem eqvOn_of_equivOn {σ : Type} [DecidableEq σ] {rel : List σ → List σ → Bool}
    {rows : List (List σ)} (h : EquivOn rel rows) : EqvOn rel rows :=
  ⟨h.refl, h.symm, h.trans⟩

theorem colRel_iff (C : List (List ε)) (x y : ε) :
    colRel C x y = true ↔ colOf C x = colOf C y := by
  unfold colRel
  rw [beq_iff_eq]
  exact eq_comm

theorem colRel_eqvOn (C : List (List ε)) (X : List ε) : EqvOn (colRel C) X := by
  refine ⟨?_, ?_, ?_⟩
  · intro o _; rw [colRel_iff]
  · intro o _ o' _ h; rw [colRel_iff] at h ⊢; exact h.symm
  · intro o _ o' _ o'' _ h h'; rw [colRel_iff] at h h' ⊢; exact h.trans h'

/-- Two groups share no member. -/
def DisjG (c c' : List ε) : Prop := ∀ o, o ∈ c → o ∉ c'

theorem groupsBy_snoc (cf : ε → List ε) (l : List ε) (o : ε) :
    groupsBy cf (l ++ [o])
      = if (groupsBy cf l).any (fun c => c.contains o) then groupsBy cf l
        else groupsBy cf l ++ [cf o] := by
  simp [groupsBy, List.foldl_append]

theorem groupsBy_congr {cf cf' : ε → List ε} {l : List ε}
    (h : ∀ o ∈ l, cf o = cf' o) : groupsBy cf l = groupsBy cf' l := by
  induction l using List.reverseRecOn with
  | nil => rfl
  | append_singleton l o ih =>
    rw [groupsBy_snoc, groupsBy_snoc,
      ih (fun x hx => h x (List.mem_append_left _ hx)), h o (by simp)]

variable {rel : ε → ε → Bool} {X : List ε}

theorem groupsBy_inv (he : EqvOn rel X) (l : List ε) (hl : ∀ o ∈ l, o ∈ X) :
    (∀ c ∈ groupsBy (fun o => X.filter (rel o)) l, ∃ o ∈ l, c = X.filter (rel o))
    ∧ (∀ o ∈ l, ∃ c ∈ groupsBy (fun o => X.filter (rel o)) l, o ∈ c)
    ∧ (groupsBy (fun o => X.filter (rel o)) l).Pairwise DisjG := by
  induction l using List.reverseRecOn with
  | nil => simp [groupsBy]
  | append_singleton l o ih =>
    have hl' : ∀ x ∈ l, x ∈ X := fun x hx => hl x (List.mem_append_left _ hx)
    have ho : o ∈ X := hl o (by simp)
    obtain ⟨h1, h2, h3⟩ := ih hl'
    rw [groupsBy_snoc]
    by_cases hc : (groupsBy (fun o => X.filter (rel o)) l).any (fun c => c.contains o) = true
    · rw [if_pos hc]
      refine ⟨?_, ?_, h3⟩
      · intro c hcm
        obtain ⟨x, hx, e⟩ := h1 c hcm
        exact ⟨x, List.mem_append_left _ hx, e⟩
      · intro x hx
        rcases List.mem_append.mp hx with hx | hx
        · exact h2 x hx
        · have : x = o := by simpa using hx
          subst this
          obtain ⟨c, hcm, hco⟩ := List.any_eq_true.mp hc
          exact ⟨c, hcm, by simpa using hco⟩
    · rw [if_neg hc]
      have hnot : ∀ c ∈ groupsBy (fun o => X.filter (rel o)) l, o ∉ c := by
        intro c hcm hoc
        exact hc (List.any_eq_true.mpr ⟨c, hcm, by simpa using hoc⟩)
      refine ⟨?_, ?_, ?_⟩
      · intro c hcm
        rcases List.mem_append.mp hcm with hcm | hcm
        · obtain ⟨x, hx, e⟩ := h1 c hcm
          exact ⟨x, List.mem_append_left _ hx, e⟩
        · have : c = X.filter (rel o) := by simpa using hcm
          exact ⟨o, by simp, this⟩
      · intro x hx
        rcases List.mem_append.mp hx with hx | hx
        · obtain ⟨c, hcm, hxc⟩ := h2 x hx
          exact ⟨c, List.mem_append_left _ hcm, hxc⟩
        · have : x = o := by simpa using hx
          subst this
          exact ⟨X.filter (rel x), by simp, List.mem_filter.mpr ⟨ho, he.refl x ho⟩⟩
      · rw [List.pairwise_append]
        refine ⟨h3, by simp, ?_⟩
        intro c hcm c' hc'
        have hc'e : c' = X.filter (rel o) := by simpa using hc'
        subst hc'e
        intro x hxc hxo
        obtain ⟨y, hy, e⟩ := h1 c hcm
        subst e
        obtain ⟨hxr, hyx⟩ := List.mem_filter.mp hxc
        obtain ⟨_, hox⟩ := List.mem_filter.mp hxo
        have hyr := hl' y hy
        have hxo' := he.symm o ho x hxr hox
        have hyo := he.trans y hyr x hxr o ho hyx hxo'
        exact hnot _ hcm (List.mem_filter.mpr ⟨ho, hyo⟩)

theorem group_eq_filter (he : EqvOn rel X) {c : List ε}
    (hc : c ∈ groupsBy (fun o => X.filter (rel o)) X) : ∃ o ∈ X, c = X.filter (rel o) :=
  (groupsBy_inv he X (fun _ h => h)).1 c hc

theorem groups_cover (he : EqvOn rel X) {o : ε} (ho : o ∈ X) :
    ∃ c ∈ groupsBy (fun o => X.filter (rel o)) X, o ∈ c :=
  (groupsBy_inv he X (fun _ h => h)).2.1 o ho

theorem groups_disjoint (he : EqvOn rel X) :
    (groupsBy (fun o => X.filter (rel o)) X).Pairwise DisjG :=
  (groupsBy_inv he X (fun _ h => h)).2.2

/-- The class of `x` is the class of any `y` related to it. -/
theorem filter_rel_congr (he : EqvOn rel X) {o x : ε} (ho : o ∈ X) (hx : x ∈ X)
    (hox : rel o x = true) : X.filter (rel o) = X.filter (rel x) := by
  apply List.filter_congr
  intro y hy
  cases h1 : rel o y with
  | true => exact (he.trans x hx o ho y hy (he.symm o ho x hx hox) h1).symm
  | false =>
    cases h2 : rel x y with
    | true =>
      have := he.trans o ho x hx y hy hox h2
      rw [h1] at this; cases this
    | false => rfl

theorem group_eq_filter_of_mem (he : EqvOn rel X) {c : List ε}
    (hc : c ∈ groupsBy (fun o => X.filter (rel o)) X) {x : ε} (hx : x ∈ c) :
    c = X.filter (rel x) := by
  obtain ⟨o, ho, rfl⟩ := group_eq_filter he hc
  obtain ⟨hxr, hox⟩ := List.mem_filter.mp hx
  exact filter_rel_congr he ho hxr hox

theorem group_ne_nil (he : EqvOn rel X) {c : List ε}
    (hc : c ∈ groupsBy (fun o => X.filter (rel o)) X) : c ≠ [] := by
  obtain ⟨o, ho, rfl⟩ := group_eq_filter he hc
  exact List.ne_nil_of_mem (List.mem_filter.mpr ⟨ho, he.refl o ho⟩)

/-- As a set, the list of groups is the set of classes of members of `X`. -/
theorem mem_groupsBy_iff (he : EqvOn rel X) (a : List ε) :
    a ∈ groupsBy (fun o => X.filter (rel o)) X ↔ ∃ x ∈ X, a = X.filter (rel x) := by
  constructor
  · exact group_eq_filter he
  · rintro ⟨x, hx, rfl⟩
    obtain ⟨c, hc, hxc⟩ := groups_cover he hx
    rw [← group_eq_filter_of_mem he hc hxc]
    exact hc

/-- In a family of pairwise disjoint groups an element lies in at most one position. -/
theorem index_uniqueG {gs : List (List ε)} (hd : gs.Pairwise DisjG) {o : ε}
    {i j : Nat} (hi : i < gs.length) (hj : j < gs.length) (hoi : o ∈ gs[i])
    (hoj : o ∈ gs[j]) : i = j := by
  rw [List.pairwise_iff_getElem] at hd
  rcases Nat.lt_trichotomy i j with h | h | h
  · exact absurd hoj (hd i j hi hj h o hoi)
  · exact h
  · exact absurd hoi (hd j i hj hi h o hoj)

end Groups

/-! ## 0-1 words -/

theorem mem_boolWords {k : Nat} {w : List Bool} : w ∈ boolWords k ↔ w.length = k := by
  induction k generalizing w with
  | zero => simp [boolWords]
  | succ k ih =>
    simp only [boolWords, List.mem_append, List.mem_map]
    constructor
    · rintro (⟨v, hv, rfl⟩ | ⟨v, hv, rfl⟩) <;> simp [ih.mp hv]
    · intro h
      cases w with
      | nil => simp at h
      | cons b v =>
        have hv : v ∈ boolWords k := ih.mpr (by simpa using h)
        cases b
        · exact Or.inl ⟨v, hv, rfl⟩
        · exact Or.inr ⟨v, hv, rfl⟩

theorem boolWords_length (k : Nat) : (boolWords k).length = 2 ^ k := by
  induction k with
  | zero => rfl
  | succ k ih =>
    simp only [boolWords, List.length_append, List.length_map, ih]
    rw [Nat.pow_succ]; omega

theorem boolWords_nodup (k : Nat) : (boolWords k).Nodup := by
  induction k with
  | zero => simp [boolWords]
  | succ k ih =>
    simp only [boolWords]
    rw [List.nodup_append]
    refine ⟨ih.map (fun a b h => by simpa using h), ih.map (fun a b h => by simpa using h), ?_⟩
    intro a ha b hb
    obtain ⟨v, _, rfl⟩ := List.mem_map.mp ha
    obtain ⟨v', _, rfl⟩ := List.mem_map.mp hb
    simp

/-! ## `pick` and the members of the generated sigma-algebra -/

section Sigma
variable {ε : Type} [DecidableEq ε]

/-- `gs` lists the classes of `rel` on `X`: non-empty, each the class of any of its members,
pairwise disjoint, covering `X`. -/
structure Classes (rel : ε → ε → Bool) (X : List ε) (gs : List (List ε)) : Prop where
  ne : ∀ g ∈ gs, g ≠ []
  cls : ∀ g ∈ gs, ∀ x ∈ g, g = X.filter (rel x)
  disj : gs.Pairwise DisjG
  cover : ∀ x ∈ X, ∃ g ∈ gs, x ∈ g

/-- `s` does not separate related members of `X`. -/
def Sat (rel : ε → ε → Bool) (X s : List ε) : Prop :=
  ∀ x ∈ X, ∀ y ∈ X, rel x y = true → (x ∈ s ↔ y ∈ s)

variable {rel : ε → ε → Bool} {X : List ε} {gs : List (List ε)}

theorem groupsBy_classes (he : EqvOn rel X) :
    Classes rel X (groupsBy (fun o => X.filter (rel o)) X) :=
  ⟨fun _ hg => group_ne_nil he hg, fun _ hg _ hx => group_eq_filter_of_mem he hg hx,
    groups_disjoint he, fun _ hx => groups_cover he hx⟩

theorem colGroups_classes (C : List (List ε)) (X : List ε) :
    Classes (colRel C) X (colGroups C X) :=
  groupsBy_classes (colRel_eqvOn C X)

theorem Classes.mem_X (hc : Classes rel X gs) {g : List ε} (hg : g ∈ gs) {x : ε} (hx : x ∈ g) :
    x ∈ X := by
  have e := hc.cls g hg x hx
  rw [e] at hx
  exact (List.mem_filter.mp hx).1

theorem Classes.sublist (hc : Classes rel X gs) {g : List ε} (hg : g ∈ gs) : g.Sublist X := by
  obtain ⟨x, hx⟩ := List.exists_mem_of_ne_nil _ (hc.ne g hg)
  rw [hc.cls g hg x hx]
  exact List.filter_sublist

theorem groupIdx_eq_some (hd : gs.Pairwise DisjG) {i : Nat}
    (hi : i < gs.length) {x : ε} (hx : x ∈ gs[i]) : groupIdx gs x = some i := by
  unfold groupIdx
  rw [List.findIdx?_eq_some_iff_getElem]
  refine ⟨hi, by simpa using hx, ?_⟩
  intro j hji hj
  have hj' : x ∈ gs[j] := by simpa using hj
  exact absurd (index_uniqueG hd (by omega) hi hj' hx) (by omega)

theorem mem_pick_of_mem_group (hd : gs.Pairwise DisjG) {i : Nat} (hi : i < gs.length) {x : ε}
    (hxX : x ∈ X) (hx : x ∈ gs[i]) (w : List Bool) :
    x ∈ pick gs X w ↔ w.getD i false = true := by
  unfold pick
  rw [List.mem_filter, groupIdx_eq_some hd hi hx]
  simp [hxX]

theorem pick_sublist (gs : List (List ε)) (X : List ε) (w : List Bool) :
    (pick gs X w).Sublist X := List.filter_sublist

/-- **Members of the generated family**: the canonical subsets of `X` saturated under `rel`. -/
theorem mem_map_pick_iff (hX : X.Nodup) (hc : Classes rel X gs) (s : List ε) :
    s ∈ (boolWords gs.length).map (pick gs X) ↔ s.Sublist X ∧ Sat rel X s := by
  constructor
  · intro hs
    obtain ⟨w, _, rfl⟩ := List.mem_map.mp hs
    refine ⟨pick_sublist _ _ _, ?_⟩
    intro x hx y hy hxy
    obtain ⟨c, hcm, hxc⟩ := hc.cover x hx
    have hyc : y ∈ c := by
      rw [hc.cls c hcm x hxc]; exact List.mem_filter.mpr ⟨hy, hxy⟩
    obtain ⟨i, hi, rfl⟩ := List.getElem_of_mem hcm
    rw [mem_pick_of_mem_group hc.disj hi hx hxc, mem_pick_of_mem_group hc.disj hi hy hyc]
  · rintro ⟨hs, hsat⟩
    refine List.mem_map.mpr ⟨gs.map (fun g => g.any (fun x => s.contains x)),
      mem_boolWords.mpr (by simp), ?_⟩
    apply sublist_ext' hX (pick_sublist _ _ _) hs
    intro x
    by_cases hx : x ∈ X
    · obtain ⟨c, hcm, hxc⟩ := hc.cover x hx
      have e2 := hc.cls c hcm x hxc
      obtain ⟨i, hi, rfl⟩ := List.getElem_of_mem hcm
      rw [mem_pick_of_mem_group hc.disj hi hx hxc]
      have e : (gs.map (fun g => g.any (fun x => s.contains x))).getD i false
          = gs[i].any (fun x => s.contains x) := by
        simp [List.getD_eq_getElem?_getD, hi]
      rw [e, List.any_eq_true]
      constructor
      · rintro ⟨y, hy, hys⟩
        rw [e2] at hy
        obtain ⟨hyX, hxy⟩ := List.mem_filter.mp hy
        exact (hsat x hx y hyX hxy).mpr (by simpa using hys)
      · intro hxs; exact ⟨x, hxc, by simpa using hxs⟩
    · constructor
      · intro h; exact absurd ((pick_sublist _ _ _).subset h) hx
      · intro h; exact absurd (hs.subset h) hx

/-- Different words over the classes select different subsets. -/
theorem pick_inj (hc : Classes rel X gs) {w w' : List Bool} (hw : w.length = gs.length)
    (hw' : w'.length = gs.length) (h : pick gs X w = pick gs X w') : w = w' := by
  apply List.ext_getElem (hw.trans hw'.symm)
  intro i h1 h2
  have hi : i < gs.length := hw ▸ h1
  obtain ⟨x, hx⟩ := List.exists_mem_of_ne_nil _ (hc.ne _ (List.getElem_mem hi))
  have hxX : x ∈ X := hc.mem_X (List.getElem_mem hi) hx
  have a := mem_pick_of_mem_group hc.disj hi hxX hx w
  have b := mem_pick_of_mem_group hc.disj hi hxX hx w'
  rw [h] at a
  have : w.getD i false = true ↔ w'.getD i false = true := a.symm.trans b
  simp only [List.getD_eq_getElem?_getD, List.getElem?_eq_getElem h1,
    List.getElem?_eq_getElem h2, Option.getD_some] at this
  exact Bool.eq_iff_iff.mpr this

theorem map_pick_nodup (hc : Classes rel X gs) :
    ((boolWords gs.length).map (pick gs X)).Nodup := by
  apply List.Nodup.map_on _ (boolWords_nodup _)
  intro w hw w' hw' h
  exact pick_inj hc (mem_boolWords.mp hw) (mem_boolWords.mp hw') h

/-! ### Families described by saturation -/

variable {F : List (List ε)}

/-- The class of a member of `X` is saturated. -/
theorem class_sat (he : EqvOn rel X) {x : ε} (hx : x ∈ X) : Sat rel X (X.filter (rel x)) := by
  intro y hy z hz hyz
  simp only [List.mem_filter, hy, hz, true_and]
  constructor
  · intro h; exact he.trans x hx y hy z hz h hyz
  · intro h; exact he.trans x hx z hz y hy h (he.symm y hy z hz hyz)

theorem mem_atomSet {a : List ε} :
    a ∈ atomSet F ↔ a ∈ F ∧ a ≠ [] ∧
      ∀ o ∈ F, o ≠ [] → (∀ x ∈ o, x ∈ a) → o.length = a.length := by
  unfold atomSet
  rw [List.mem_filter]
  apply and_congr_right
  intro _
  simp only [Bool.and_eq_true, Bool.not_eq_true', List.isEmpty_eq_false_iff, List.any_eq_false,
    List.all_eq_true, bne_iff_ne, ne_eq, List.contains_eq_mem, decide_eq_true_eq]
  apply and_congr_right
  intro _
  constructor
  · intro h o ho hne hsub
    by_contra hlen
    exact h o ho ⟨⟨hne, hlen⟩, hsub⟩
  · rintro h o ho ⟨⟨hne, hlen⟩, hsub⟩
    exact hlen (h o ho hne hsub)

/-- **Atoms of a family described by saturation are the classes.** -/
theorem mem_atomSet_iff (hX : X.Nodup) (he : EqvOn rel X)
    (hF : ∀ s, s ∈ F ↔ s.Sublist X ∧ Sat rel X s) (a : List ε) :
    a ∈ atomSet F ↔ ∃ x ∈ X, a = X.filter (rel x) := by
  have hcl : ∀ x ∈ X, X.filter (rel x) ∈ F := fun x hx =>
    (hF _).mpr ⟨List.filter_sublist, class_sat he hx⟩
  rw [mem_atomSet]
  constructor
  · rintro ⟨haF, hane, hmin⟩
    obtain ⟨x, hxa⟩ := List.exists_mem_of_ne_nil _ hane
    obtain ⟨hsub, hsat⟩ := (hF a).mp haF
    have hx : x ∈ X := hsub.subset hxa
    have hxg : x ∈ X.filter (rel x) := List.mem_filter.mpr ⟨hx, he.refl x hx⟩
    have hga : ∀ y ∈ X.filter (rel x), y ∈ a := by
      intro y hy
      obtain ⟨hyX, hxy⟩ := List.mem_filter.mp hy
      exact (hsat x hx y hyX hxy).mp hxa
    have hlen := hmin _ (hcl x hx) (List.ne_nil_of_mem hxg) hga
    exact ⟨x, hx, (eq_of_subset_of_length hX List.filter_sublist hsub hga (by omega)).symm⟩
  · rintro ⟨x, hx, rfl⟩
    have hxg : x ∈ X.filter (rel x) := List.mem_filter.mpr ⟨hx, he.refl x hx⟩
    refine ⟨hcl x hx, List.ne_nil_of_mem hxg, ?_⟩
    intro o hoF hone hoa
    obtain ⟨hsub, hsat⟩ := (hF o).mp hoF
    obtain ⟨y, hyo⟩ := List.exists_mem_of_ne_nil _ hone
    obtain ⟨hyX, hxy⟩ := List.mem_filter.mp (hoa y hyo)
    have : o = X.filter (rel x) := by
      apply sublist_ext' hX hsub List.filter_sublist
      intro z
      constructor
      · exact hoa z
      · intro hz
        obtain ⟨hzX, hxz⟩ := List.mem_filter.mp hz
        have hyz := he.trans y hyX x hx z hzX (he.symm x hx y hyX hxy) hxz
        exact (hsat y hyX z hzX hyz).mp hyo
    rw [this]

/-- A family described by saturation is closed under complement and union. -/
theorem closed_of_sat (hF : ∀ s, s ∈ F ↔ s.Sublist X ∧ Sat rel X s) :
    (∀ s ∈ F, complIn X s ∈ F) ∧ ∀ s ∈ F, ∀ t ∈ F, unionIn X s t ∈ F := by
  constructor
  · intro s hs
    obtain ⟨_, hsat⟩ := (hF s).mp hs
    refine (hF _).mpr ⟨List.filter_sublist, ?_⟩
    intro x hx y hy hxy
    simp [complIn, hx, hy, hsat x hx y hy hxy]
  · intro s hs t ht
    obtain ⟨_, hsat⟩ := (hF s).mp hs
    obtain ⟨_, htat⟩ := (hF t).mp ht
    refine (hF _).mpr ⟨List.filter_sublist, ?_⟩
    intro x hx y hy hxy
    simp [unionIn, hx, hy, hsat x hx y hy hxy, htat x hx y hy hxy]

theorem brute_of_closed (h : (∀ s ∈ F, complIn X s ∈ F) ∧ ∀ s ∈ F, ∀ t ∈ F, unionIn X s t ∈ F) :
    isSigmaAlgebraBrute F X = true := by
  unfold isSigmaAlgebraBrute
  simp only [List.all_eq_true, Bool.and_eq_true, List.contains_eq_mem, decide_eq_true_eq]
  exact fun s hs => ⟨h.1 s hs, fun t ht => h.2 s hs t ht⟩

theorem closed_of_brute (h : isSigmaAlgebraBrute F X = true) :
    (∀ s ∈ F, complIn X s ∈ F) ∧ ∀ s ∈ F, ∀ t ∈ F, unionIn X s t ∈ F := by
  unfold isSigmaAlgebraBrute at h
  simp only [List.all_eq_true, Bool.and_eq_true, List.contains_eq_mem, decide_eq_true_eq] at h
  exact ⟨fun s hs => (h s hs).1, fun s hs t ht => (h s hs).2 t ht⟩

end Sigma

/-! ## The generated sigma-algebra -/

section Generated
variable {ε : Type} [DecidableEq ε]

theorem colOf_eq_iff (C : List (List ε)) (x y : ε) :
    colOf C x = colOf C y ↔ ∀ c ∈ C, c.contains x = c.contains y := by
  unfold colOf
  exact List.map_inj_left

theorem sat_colRel_iff (C : List (List ε)) (X s : List ε) :
    Sat (colRel C) X s ↔ ∀ x ∈ X, ∀ y ∈ X, colOf C x = colOf C y → (x ∈ s ↔ y ∈ s) := by
  unfold Sat
  simp only [colRel_iff]

theorem mem_sigmaAlgebra_sat (C : List (List ε)) {X : List ε} (hX : X.Nodup) (s : List ε) :
    s ∈ sigmaAlgebra C X ↔ s.Sublist X ∧ Sat (colRel C) X s :=
  mem_map_pick_iff hX (colGroups_classes C X) s

theorem mem_colGroups_iff (C : List (List ε)) (X : List ε) (a : List ε) :
    a ∈ colGroups C X ↔ ∃ x ∈ X, a = X.filter (colRel C x) :=
  mem_groupsBy_iff (colRel_eqvOn C X) a

/-- Generators (restricted to `X`) are members. -/
theorem gen_mem_sigmaAlgebra (C : List (List ε)) {X : List ε} (hX : X.Nodup) {c : List ε}
    (hc : c ∈ C) : X.filter (fun x => c.contains x) ∈ sigmaAlgebra C X := by
  rw [mem_sigmaAlgebra_sat C hX, sat_colRel_iff]
  refine ⟨List.filter_sublist, ?_⟩
  intro x hx y hy hxy
  have h1 := (colOf_eq_iff C x y).mp hxy c hc
  have h2 : x ∈ c ↔ y ∈ c := by simpa using Bool.eq_iff_iff.mp h1
  simp [hx, hy, h2]

/-- The family and its generated sigma-algebra separate the same pairs. -/
theorem colOf_sigma_iff (C : List (List ε)) {X : List ε} (hX : X.Nodup) {x y : ε} (hx : x ∈ X)
    (hy : y ∈ X) :
    colOf (sigmaAlgebra C X) x = colOf (sigmaAlgebra C X) y ↔ colOf C x = colOf C y := by
  constructor
  · intro h
    rw [colOf_eq_iff] at h ⊢
    intro c hc
    have := h _ (gen_mem_sigmaAlgebra C hX hc)
    rwa [contains_filter _ hx, contains_filter _ hy] at this
  · intro h
    rw [colOf_eq_iff]
    intro s hs
    obtain ⟨_, hsat⟩ := (mem_sigmaAlgebra_sat C hX s).mp hs
    apply Bool.eq_iff_iff.mpr
    simpa using hsat x hx y hy ((colRel_iff C x y).mpr h)

theorem colGroups_congr {C C' : List (List ε)} {X : List ε}
    (h : ∀ x ∈ X, ∀ y ∈ X, colOf C x = colOf C y ↔ colOf C' x = colOf C' y) :
    colGroups C X = colGroups C' X := by
  rw [colGroups_eq, colGroups_eq]
  apply groupsBy_congr
  intro x hx
  apply List.filter_congr
  intro y hy
  apply Bool.eq_iff_iff.mpr
  rw [colRel_iff, colRel_iff]
  exact h x hx y hy

/-- A family of canonical subsets is contained in the sigma-algebra it generates. -/
theorem subset_sigmaAlgebra {F : List (List ε)} {X : List ε} (hX : X.Nodup)
    (hsub : ∀ s ∈ F, s.Sublist X) : ∀ s ∈ F, s ∈ sigmaAlgebra F X := by
  intro s hs
  rw [mem_sigmaAlgebra_sat F hX, sat_colRel_iff]
  refine ⟨hsub s hs, ?_⟩
  intro x _ y _ hxy
  have := (colOf_eq_iff F x y).mp hxy s hs
  simpa using Bool.eq_iff_iff.mp this

/-! ### Leastness -/

variable {X : List ε} {F : List (List ε)}

theorem univ_mem_of_closed (hne : F ≠ []) (hcompl : ∀ s ∈ F, complIn X s ∈ F)
    (hunion : ∀ s ∈ F, ∀ t ∈ F, unionIn X s t ∈ F) : X ∈ F := by
  obtain ⟨s0, hs0⟩ := List.exists_mem_of_ne_nil _ hne
  have h := hunion s0 hs0 _ (hcompl s0 hs0)
  have e : unionIn X s0 (complIn X s0) = X := by
    unfold unionIn complIn
    apply List.filter_eq_self.mpr
    intro x hx
    rw [contains_filter _ hx]
    cases s0.contains x <;> rfl
  rwa [e] at h

theorem nil_mem_of_closed (hne : F ≠ []) (hcompl : ∀ s ∈ F, complIn X s ∈ F)
    (hunion : ∀ s ∈ F, ∀ t ∈ F, unionIn X s t ∈ F) : [] ∈ F := by
  have h := hcompl X (univ_mem_of_closed hne hcompl hunion)
  have e : complIn X X = [] := by
    unfold complIn
    apply List.filter_eq_nil_iff.mpr
    intro x hx
    simp [hx]
  rwa [e] at h

theorem inter_mem_of_closed (hcompl : ∀ s ∈ F, complIn X s ∈ F)
    (hunion : ∀ s ∈ F, ∀ t ∈ F, unionIn X s t ∈ F) {s t : List ε} (hs : s ∈ F) (ht : t ∈ F) :
    X.filter (fun x => s.contains x && t.contains x) ∈ F := by
  have h := hcompl _ (hunion _ (hcompl s hs) _ (hcompl t ht))
  have e : complIn X (unionIn X (complIn X s) (complIn X t))
      = X.filter (fun x => s.contains x && t.contains x) := by
    unfold unionIn complIn
    apply List.filter_congr
    intro x hx
    rw [contains_filter _ hx, contains_filter _ hx, contains_filter _ hx]
    cases s.contains x <;> cases t.contains x <;> rfl
  rwa [e] at h

theorem colRel_cons (c : List ε) (D : List (List ε)) (x y : ε) :
    colRel (c :: D) x y = ((c.contains y == c.contains x) && colRel D x y) := by
  apply Bool.eq_iff_iff.mpr
  rw [Bool.and_eq_true, colRel_iff, colRel_iff, beq_iff_eq]
  show (c.contains x :: colOf D x = c.contains y :: colOf D y) ↔ _
  rw [List.cons.injEq]
  constructor <;> rintro ⟨a, b⟩ <;> exact ⟨a.symm, b⟩

/-- Every class of identical membership is in a closed family containing the generators. -/
theorem class_mem_of_closed (hne : F ≠ []) (hcompl : ∀ s ∈ F, complIn X s ∈ F)
    (hunion : ∀ s ∈ F, ∀ t ∈ F, unionIn X s t ∈ F) (D : List (List ε))
    (hgen : ∀ c ∈ D, X.filter (fun x => c.contains x) ∈ F) (r : ε) :
    X.filter (colRel D r) ∈ F := by
  induction D with
  | nil =>
    have e : X.filter (colRel ([] : List (List ε)) r) = X := by
      apply List.filter_eq_self.mpr
      intro x _
      rw [colRel_iff]; rfl
    rw [e]; exact univ_mem_of_closed hne hcompl hunion
  | cons c D ih =>
    have hB := ih (fun c' hc' => hgen c' (List.mem_cons_of_mem _ hc'))
    have hc := hgen c (by simp)
    cases hr : c.contains r with
    | true =>
      have h := inter_mem_of_closed hcompl hunion hc hB
      have e : X.filter (colRel (c :: D) r)
          = X.filter (fun x => (X.filter (fun x => c.contains x)).contains x
              && (X.filter (colRel D r)).contains x) := by
        apply List.filter_congr
        intro y hy
        rw [contains_filter _ hy, contains_filter _ hy, colRel_cons, hr]
        cases c.contains y <;> rfl
      rw [e]; exact h
    | false =>
      have h := inter_mem_of_closed hcompl hunion (hcompl _ hc) hB
      have e : X.filter (colRel (c :: D) r)
          = X.filter (fun x => (complIn X (X.filter (fun x => c.contains x))).contains x
              && (X.filter (colRel D r)).contains x) := by
        unfold complIn
        apply List.filter_congr
        intro y hy
        rw [contains_filter _ hy, contains_filter _ hy, contains_filter _ hy, colRel_cons, hr]
        cases c.contains y <;> rfl
      rw [e]; exact h

/-- Finite unions of members stay in a closed family. -/
theorem union_list_mem_of_closed (hne : F ≠ []) (hcompl : ∀ s ∈ F, complIn X s ∈ F)
    (hunion : ∀ s ∈ F, ∀ t ∈ F, unionIn X s t ∈ F) (L : List (List ε)) (hL : ∀ g ∈ L, g ∈ F) :
    X.filter (fun x => L.any (fun g => g.contains x)) ∈ F := by
  induction L with
  | nil =>
    have e : X.filter (fun x => ([] : List (List ε)).any (fun g => g.contains x)) = [] := by
      simp
    rw [e]; exact nil_mem_of_closed hne hcompl hunion
  | cons g L ih =>
    have h := hunion g (hL g (by simp)) _ (ih (fun g' hg' => hL g' (List.mem_cons_of_mem _ hg')))
    have e : X.filter (fun x => (g :: L).any (fun g => g.contains x))
        = unionIn X g (X.filter (fun x => L.any (fun g => g.contains x))) := by
      unfold unionIn
      apply List.filter_congr
      intro x hx
      rw [contains_filter _ hx, List.any_cons]
    rw [e]; exact h

theorem sigmaAlgebra_least' (C : List (List ε)) (hX : X.Nodup)
    (hne : F ≠ []) (hgen : ∀ c ∈ C, X.filter (fun x => c.contains x) ∈ F)
    (hcompl : ∀ s ∈ F, complIn X s ∈ F)
    (hunion : ∀ s ∈ F, ∀ t ∈ F, unionIn X s t ∈ F) :
    ∀ s ∈ sigmaAlgebra C X, s ∈ F := by
  intro s hs
  obtain ⟨hsub, hsat⟩ := (mem_sigmaAlgebra_sat C hX s).mp hs
  have hcg := colGroups_classes C X
  have hL : ∀ g ∈ (colGroups C X).filter (fun g => g.any (fun x => s.contains x)), g ∈ F := by
    intro g hg
    obtain ⟨r, _, rfl⟩ := (mem_colGroups_iff C X g).mp (List.mem_filter.mp hg).1
    exact class_mem_of_closed hne hcompl hunion C hgen r
  have h := union_list_mem_of_closed hne hcompl hunion _ hL
  have e : s = X.filter (fun x =>
      ((colGroups C X).filter (fun g => g.any (fun x => s.contains x))).any
        (fun g => g.contains x)) := by
    conv_lhs => rw [sublist_eq_filter hX hsub]
    apply List.filter_congr
    intro x hx
    apply Bool.eq_iff_iff.mpr
    simp only [List.contains_eq_mem, decide_eq_true_eq, List.any_eq_true, List.mem_filter]
    constructor
    · intro hxs
      obtain ⟨g, hg, hxg⟩ := hcg.cover x hx
      exact ⟨g, ⟨hg, x, hxg, hxs⟩, hxg⟩
    · rintro ⟨g, ⟨hg, y, hyg, hys⟩, hxg⟩
      have e := hcg.cls g hg y hyg
      rw [e] at hxg
      obtain ⟨_, hyx⟩ := List.mem_filter.mp hxg
      exact (hsat y (hcg.mem_X hg hyg) x hx hyx).mp hys
  rw [e]; exact h

end Generated

/-! ## Families of classes and partitions as generators -/

section Partition
variable {ε : Type} [DecidableEq ε] {rel : ε → ε → Bool} {X : List ε} {gs : List (List ε)}

/-- Two members of `X` have the same column w.r.t. the classes of `rel` iff they are related. -/
theorem colOf_classes_iff (he : EqvOn rel X) (hc : Classes rel X gs) {x y : ε} (hx : x ∈ X)
    (hy : y ∈ X) : colOf gs x = colOf gs y ↔ rel x y = true := by
  rw [colOf_eq_iff]
  constructor
  · intro h
    obtain ⟨g, hg, hxg⟩ := hc.cover x hx
    have h1 := h g hg
    have hyg : y ∈ g := by
      have h2 : g.contains y = true := by rw [← h1]; simpa using hxg
      simpa using h2
    rw [hc.cls g hg x hxg] at hyg
    exact (List.mem_filter.mp hyg).2
  · intro hxy g hg
    apply Bool.eq_iff_iff.mpr
    simp only [List.contains_eq_mem, decide_eq_true_eq]
    constructor
    · intro hxg
      rw [hc.cls g hg x hxg]; exact List.mem_filter.mpr ⟨hy, hxy⟩
    · intro hyg
      rw [hc.cls g hg y hyg]; exact List.mem_filter.mpr ⟨hx, he.symm x hx y hy hxy⟩

theorem mem_classes_iff (hc : Classes rel X gs) (a : List ε) :
    a ∈ gs ↔ ∃ x ∈ X, a = X.filter (rel x) := by
  constructor
  · intro ha
    obtain ⟨x, hx⟩ := List.exists_mem_of_ne_nil _ (hc.ne a ha)
    exact ⟨x, hc.mem_X ha hx, hc.cls a ha x hx⟩
  · rintro ⟨x, hx, rfl⟩
    obtain ⟨g, hg, hxg⟩ := hc.cover x hx
    rw [← hc.cls g hg x hxg]; exact hg

/-- The classes of identical membership w.r.t. a family of classes are those classes. -/
theorem colGroups_of_classes (he : EqvOn rel X) (hc : Classes rel X gs) (a : List ε) :
    a ∈ colGroups gs X ↔ a ∈ gs := by
  rw [mem_colGroups_iff, mem_classes_iff hc]
  have e : ∀ x ∈ X, X.filter (colRel gs x) = X.filter (rel x) := by
    intro x hx
    apply List.filter_congr
    intro y hy
    apply Bool.eq_iff_iff.mpr
    rw [colRel_iff]
    exact colOf_classes_iff he hc hx hy
  constructor <;> rintro ⟨x, hx, rfl⟩ <;> exact ⟨x, hx, by rw [e x hx]⟩

/-- "In a common block." -/
def blockRel (P : List (List ε)) (x y : ε) : Bool := P.any (fun b => b.contains x && b.contains y)

theorem blockRel_iff {P : List (List ε)} {x y : ε} :
    blockRel P x y = true ↔ ∃ b ∈ P, x ∈ b ∧ y ∈ b := by
  simp [blockRel]

variable {P : List (List ε)}

theorem block_unique (hdisj : P.Pairwise DisjG) {b b' : List ε} (hb : b ∈ P) (hb' : b' ∈ P)
    {x : ε} (hx : x ∈ b) (hx' : x ∈ b') : b = b' := by
  obtain ⟨i, hi, rfl⟩ := List.getElem_of_mem hb
  obtain ⟨j, hj, rfl⟩ := List.getElem_of_mem hb'
  have := index_uniqueG hdisj hi hj hx hx'
  subst this; rfl

theorem blockRel_eqvOn (hdisj : P.Pairwise DisjG) (hcover : ∀ x ∈ X, ∃ b ∈ P, x ∈ b) :
    EqvOn (blockRel P) X := by
  refine ⟨?_, ?_, ?_⟩
  · intro o ho
    obtain ⟨b, hb, hob⟩ := hcover o ho
    exact blockRel_iff.mpr ⟨b, hb, hob, hob⟩
  · intro o _ o' _ h
    obtain ⟨b, hb, h1, h2⟩ := blockRel_iff.mp h
    exact blockRel_iff.mpr ⟨b, hb, h2, h1⟩
  · intro o _ o' _ o'' _ h h'
    obtain ⟨b, hb, h1, h2⟩ := blockRel_iff.mp h
    obtain ⟨b', hb', h3, h4⟩ := blockRel_iff.mp h'
    have := block_unique hdisj hb hb' h2 h3
    subst this
    exact blockRel_iff.mpr ⟨b, hb, h1, h4⟩

/-- A partition of `X` lists the classes of "in a common block". -/
theorem partition_classes (hX : X.Nodup) (hsub : ∀ b ∈ P, b ≠ [] ∧ b.Sublist X)
    (hdisj : P.Pairwise DisjG) (hcover : ∀ x ∈ X, ∃ b ∈ P, x ∈ b) :
    Classes (blockRel P) X P := by
  refine ⟨fun b hb => (hsub b hb).1, ?_, hdisj, hcover⟩
  intro b hb x hx
  apply sublist_ext' hX (hsub b hb).2 List.filter_sublist
  intro y
  rw [List.mem_filter]
  constructor
  · intro hy
    exact ⟨(hsub b hb).2.subset hy, blockRel_iff.mpr ⟨b, hb, hx, hy⟩⟩
  · rintro ⟨_, h⟩
    obtain ⟨b', hb', h1, h2⟩ := blockRel_iff.mp h
    rw [block_unique hdisj hb hb' hx h1]; exact h2

end Partition

/-! ## The sigma-algebra route to join and meet -/

section Lattice
variable {σ : Type} [DecidableEq σ] {g : List Nat} {groups : List (List Nat)}
  {rows : List (List σ)}

theorem sameOn_eqvOn (g : List Nat) (rows : List (List σ)) : EqvOn (sameOn g) rows := by
  refine ⟨?_, ?_, ?_⟩
  · intro o _; rw [sameOn_iff]
  · intro o _ o' _ h; rw [sameOn_iff] at h ⊢; exact h.symm
  · intro o _ o' _ o'' _ h h'; rw [sameOn_iff] at h h' ⊢; exact h.trans h'

theorem inducedAtoms_eq (g : List Nat) (rows : List (List σ)) :
    inducedAtoms g rows = groupsBy (fun o => rows.filter (sameOn g o)) rows := by
  unfold inducedAtoms
  rw [classesBy_eq]

theorem inducedAtoms_classes (g : List Nat) (rows : List (List σ)) :
    Classes (sameOn g) rows (inducedAtoms g rows) := by
  rw [inducedAtoms_eq]; exact groupsBy_classes (sameOn_eqvOn g rows)

theorem inducedAtoms_eq_joinClasses (g : List Nat) (rows : List (List σ)) :
    inducedAtoms g rows = joinClasses [g] rows := by
  unfold inducedAtoms joinClasses
  apply classesBy_congr
  intro o _
  apply List.filter_congr
  intro o' _
  simp [joinRel]

theorem mem_inducedSigalg_iff (hr : rows.Nodup) (s : List (List σ)) :
    s ∈ inducedSigalg g rows ↔ s.Sublist rows ∧ Sat (sameOn g) rows s := by
  unfold inducedSigalg
  rw [mem_sigmaAlgebra_sat _ hr]
  apply and_congr_right
  intro _
  unfold Sat
  have hA := fun {x y : List σ} (hx : x ∈ rows) (hy : y ∈ rows) =>
    colOf_classes_iff (sameOn_eqvOn g rows) (inducedAtoms_classes g rows) hx hy
  constructor <;> intro h x hx y hy hxy
  · exact h x hx y hy ((colRel_iff _ x y).mpr ((hA hx hy).mpr hxy))
  · exact h x hx y hy ((hA hx hy).mp ((colRel_iff _ x y).mp hxy))

theorem colOf_inducedSigalg_iff (hr : rows.Nodup) {x y : List σ} (hx : x ∈ rows) (hy : y ∈ rows) :
    colOf (inducedSigalg g rows) x = colOf (inducedSigalg g rows) y ↔ sameOn g x y = true := by
  unfold inducedSigalg
  rw [colOf_sigma_iff _ hr hx hy]
  exact colOf_classes_iff (sameOn_eqvOn g rows) (inducedAtoms_classes g rows) hx hy

theorem colOf_flatMap {ε ι : Type} [DecidableEq ε] (l : List ι) (f : ι → List (List ε)) (x y : ε) :
    colOf (l.flatMap f) x = colOf (l.flatMap f) y ↔ ∀ i ∈ l, colOf (f i) x = colOf (f i) y := by
  simp only [colOf_eq_iff, List.mem_flatMap]
  constructor
  · intro h i hi c hc; exact h c ⟨i, hi, hc⟩
  · rintro h c ⟨i, hi, hc⟩; exact h i hi c hc

/-- The classes of identical membership w.r.t. the union of the induced sigma-algebras are the
classes of "agree on every group" — the same list, in the same order. -/
theorem joinSigalg_colGroups (groups : List (List Nat)) (hr : rows.Nodup) :
    colGroups (groups.flatMap (fun g => inducedSigalg g rows)) rows = joinClasses groups rows := by
  rw [colGroups_eq]
  unfold joinClasses
  rw [classesBy_eq]
  apply groupsBy_congr
  intro x hx
  apply List.filter_congr
  intro y hy
  apply Bool.eq_iff_iff.mpr
  rw [colRel_iff, colOf_flatMap, joinRel_iff]
  constructor
  · intro h g hg
    exact (sameOn_iff g x y).mp ((colOf_inducedSigalg_iff hr hx hy).mp (h g hg))
  · intro h g hg
    exact (colOf_inducedSigalg_iff hr hx hy).mpr ((sameOn_iff g x y).mpr (h g hg))

theorem mem_meetSigalg_iff' (hg : groups ≠ []) (s : List (List σ)) :
    s ∈ meetSigalg groups rows ↔ ∀ g ∈ groups, s ∈ inducedSigalg g rows := by
  cases groups with
  | nil => exact absurd rfl hg
  | cons g gs =>
    simp only [meetSigalg, List.mem_filter, List.all_eq_true, List.contains_eq_mem,
      decide_eq_true_eq, List.forall_mem_cons]

/-- **Members of the meet sigma-algebra**: the canonical subsets of the sample space that are
saturated under reachability by "agree on some group". -/
theorem mem_meetSigalg_iff (hg : groups ≠ []) (hr : rows.Nodup) (s : List (List σ)) :
    s ∈ meetSigalg groups rows
      ↔ s.Sublist rows ∧ Sat (reachB (linkRel groups) rows) rows s := by
  rw [mem_meetSigalg_iff' hg]
  simp only [mem_inducedSigalg_iff hr]
  constructor
  · intro h
    obtain ⟨g0, hg0⟩ := List.exists_mem_of_ne_nil _ hg
    refine ⟨(h g0 hg0).1, ?_⟩
    intro x hx y hy hxy
    have hℓ : ∀ g ∈ groups, ∀ o ∈ rows, ∀ o' ∈ rows, project g o = project g o' →
        decide (o ∈ s) = decide (o' ∈ s) := by
      intro g hgm o ho o' ho' e
      have := (h g hgm).2 o ho o' ho' ((sameOn_iff g o o').mpr e)
      simp [this]
    have := const_of_reach groups rows (fun o => decide (o ∈ s)) hℓ hx (reachB_iff.mp hxy)
    simpa using this
  · rintro ⟨hsub, hsat⟩ g hgm
    refine ⟨hsub, ?_⟩
    intro x hx y hy hxy
    exact hsat x hx y hy (reachB_iff.mpr (Reach.single hy
      ((linkRel_iff groups x y).mpr ⟨g, hgm, (sameOn_iff g x y).mp hxy⟩)))

theorem mem_meetClasses_iff (groups : List (List Nat)) (rows : List (List σ))
    (a : List (List σ)) :
    a ∈ meetClasses groups rows
      ↔ ∃ x ∈ rows, a = rows.filter (reachB (linkRel groups) rows x) := by
  rw [meetClasses_eq, classesBy_eq]
  exact mem_groupsBy_iff (eqvOn_of_equivOn (meet_equivOn groups rows)) a

end Lattice

end Dit.Lemmas.SigAlg
