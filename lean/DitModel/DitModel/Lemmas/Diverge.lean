/-
Helper lemmas for C06 (divergences of `Core/Diverge.lean`) over `ℝ` with `log := Real.logb 2`:
support characterisation of the infinite values, Gibbs' inequality termwise with its equality
case, permutation invariance, label alignment, symmetry, bounds for the variational distance and
the Bhattacharyya coefficient, the Jensen–Shannon identities, the power-sum family, the companion
matrix of the maximum correlation, weak duality for the earth mover's distance, Pinsker.
Property theorems are in Props/C06.lean.
-/
import DitModel.Core.Diverge
import DitModel.Lemmas.Table
import DitModel.Lemmas.InfoReal
import Mathlib.Analysis.SpecialFunctions.Sqrt
import Mathlib.Analysis.SpecialFunctions.Pow.Real
import Mathlib.Analysis.SpecialFunctions.Log.Base
import Mathlib.Tactic.Linarith
import Mathlib.Tactic.Ring
import Mathlib.Tactic.FieldSimp
import Mathlib.Tactic.Positivity
import Mathlib.Tactic.NormNum

set_option linter.unusedSectionVars false

namespace Dit.Lemmas.Diverge
open Dit Dit.Lemmas.Table Dit.Lemmas.InfoReal

/-! ### List sums of reals -/

section Sums

theorem sum_map_nonneg {β : Type} (l : List β) (f : β → ℝ) (h : ∀ x ∈ l, 0 ≤ f x) :
    0 ≤ (l.map f).sum := by
  induction l with
  | nil => simp
  | cons x t ih =>
    rw [List.map_cons, List.sum_cons]
    have := h x List.mem_cons_self
    have := ih (fun y hy => h y (List.mem_cons_of_mem _ hy))
    linarith

theorem sum_map_le {β : Type} (l : List β) (f g : β → ℝ) (h : ∀ x ∈ l, f x ≤ g x) :
    (l.map f).sum ≤ (l.map g).sum := by
  induction l with
  | nil => simp
  | cons x t ih =>
    rw [List.map_cons, List.sum_cons, List.map_cons, List.sum_cons]
    have := h x List.mem_cons_self
    have := ih (fun y hy => h y (List.mem_cons_of_mem _ hy))
    linarith

theorem sum_map_eq_zero_iff {β : Type} (l : List β) (f : β → ℝ) (h : ∀ x ∈ l, 0 ≤ f x) :
    (l.map f).sum = 0 ↔ ∀ x ∈ l, f x = 0 := by
  induction l with
  | nil => simp
  | cons x t ih =>
    rw [List.map_cons, List.sum_cons]
    have h0 := h x List.mem_cons_self
    have ht : ∀ y ∈ t, 0 ≤ f y := fun y hy => h y (List.mem_cons_of_mem _ hy)
    have h1 := sum_map_nonneg t f ht
    constructor
    · intro e
      have e0 : f x = 0 := by linarith
      have e1 : (t.map f).sum = 0 := by linarith
      intro y hy
      rcases List.mem_cons.mp hy with rfl | hy
      · exact e0
      · exact (ih ht).mp e1 y hy
    · intro e
      rw [e x List.mem_cons_self, (ih ht).mpr (fun y hy => e y (List.mem_cons_of_mem _ hy))]
      simp

theorem sum_map_add {β : Type} (l : List β) (f g : β → ℝ) :
    (l.map (fun x => f x + g x)).sum = (l.map f).sum + (l.map g).sum := by
  induction l with
  | nil => simp
  | cons x t ih => simp only [List.map_cons, List.sum_cons, ih]; ring

theorem sum_map_sub {β : Type} (l : List β) (f g : β → ℝ) :
    (l.map (fun x => f x - g x)).sum = (l.map f).sum - (l.map g).sum := by
  induction l with
  | nil => simp
  | cons x t ih => simp only [List.map_cons, List.sum_cons, ih]; ring

theorem sum_map_mul_left {β : Type} (l : List β) (c : ℝ) (f : β → ℝ) :
    (l.map (fun x => c * f x)).sum = c * (l.map f).sum := by
  induction l with
  | nil => simp
  | cons x t ih => simp only [List.map_cons, List.sum_cons, ih]; ring

theorem sum_map_mul_right {β : Type} (l : List β) (c : ℝ) (f : β → ℝ) :
    (l.map (fun x => f x * c)).sum = (l.map f).sum * c := by
  induction l with
  | nil => simp
  | cons x t ih => simp only [List.map_cons, List.sum_cons, ih]; ring

theorem sum_map_neg {β : Type} (l : List β) (f : β → ℝ) :
    (l.map (fun x => -f x)).sum = -(l.map f).sum := by
  induction l with
  | nil => simp
  | cons x t ih => simp only [List.map_cons, List.sum_cons, ih]; ring

theorem sum_map_zero {β : Type} (l : List β) : (l.map (fun _ => (0 : ℝ))).sum = 0 := by
  induction l with
  | nil => simp
  | cons x t ih => simp only [List.map_cons, List.sum_cons, ih]; ring

/-- Exchange of two finite list sums. -/
theorem sum_comm {β γ : Type} (l1 : List β) (l2 : List γ) (f : β → γ → ℝ) :
    (l1.map (fun a => (l2.map (fun b => f a b)).sum)).sum
      = (l2.map (fun b => (l1.map (fun a => f a b)).sum)).sum := by
  induction l1 with
  | nil => simp
  | cons x t ih =>
    simp only [List.map_cons, List.sum_cons, ih]
    rw [sum_map_add]

theorem single_le_sum_map {β : Type} (l : List β) (f : β → ℝ) (h : ∀ x ∈ l, 0 ≤ f x)
    (x : β) (hx : x ∈ l) : f x ≤ (l.map f).sum := by
  induction l with
  | nil => simp at hx
  | cons y t ih =>
    rw [List.map_cons, List.sum_cons]
    have ht : ∀ z ∈ t, 0 ≤ f z := fun z hz => h z (List.mem_cons_of_mem _ hz)
    rcases List.mem_cons.mp hx with rfl | hx
    · have := sum_map_nonneg t f ht; linarith
    · have := ih ht hx
      have := h y List.mem_cons_self
      linarith

end Sums

/-! ### Support condition; definitions of cross entropy and Kullback–Leibler divergence -/

section Defs

theorem absCont_iff (pq : List (ℝ × ℝ)) :
    absCont pq = true ↔ ∀ r ∈ pq, r.2 = 0 → r.1 = 0 := by
  unfold absCont
  rw [List.all_eq_true]
  constructor
  · intro h r hr h2
    have := h r hr
    simp only [Bool.or_eq_true, beq_iff_eq, Bool.not_eq_true', beq_eq_false_iff_ne] at this
    rcases this with h1 | h1
    · exact h1
    · exact absurd h2 h1
  · intro h r hr
    simp only [Bool.or_eq_true, beq_iff_eq, Bool.not_eq_true', beq_eq_false_iff_ne]
    by_cases h2 : r.2 = 0
    · exact Or.inl (h r hr h2)
    · exact Or.inr h2

theorem absCont_false_iff (pq : List (ℝ × ℝ)) :
    absCont pq = false ↔ ∃ r ∈ pq, r.1 ≠ 0 ∧ r.2 = 0 := by
  rw [← Bool.not_eq_true, absCont_iff]
  constructor
  · intro h
    by_contra hne
    apply h
    intro r hr h2
    by_contra h1
    exact hne ⟨r, hr, h1, h2⟩
  · rintro ⟨r, hr, h1, h2⟩ h
    exact h1 (h r hr h2)

/-- The KL sum (total function): `Σ p log₂(p/q)`. -/
noncomputable def klSum (pq : List (ℝ × ℝ)) : ℝ :=
  (pq.map (fun r => r.1 * Real.logb 2 (r.1 / r.2))).sum

/-- The cross-entropy sum (total function): `−Σ p log₂ q`. -/
noncomputable def xentSum (pq : List (ℝ × ℝ)) : ℝ :=
  -(pq.map (fun r => r.1 * Real.logb 2 r.2)).sum

theorem kl_guard (r : ℝ × ℝ) :
    (if r.1 == 0 then 0 else r.1 * Real.logb 2 (r.1 / r.2)) = r.1 * Real.logb 2 (r.1 / r.2) := by
  by_cases h : r.1 = 0 <;> simp [h]

theorem xent_guard (r : ℝ × ℝ) :
    (if r.1 == 0 then 0 else r.1 * Real.logb 2 r.2) = r.1 * Real.logb 2 r.2 := by
  by_cases h : r.1 = 0 <;> simp [h]

theorem klVals_eq (pq : List (ℝ × ℝ)) :
    klVals (Real.logb 2) pq = if absCont pq then some (klSum pq) else none := by
  unfold klVals klSum
  rw [lsum_eq_sum]
  congr 3
  exact List.map_congr_left (fun r _ => kl_guard r)

theorem xentVals_eq (pq : List (ℝ × ℝ)) :
    crossEntropyVals (Real.logb 2) pq = if absCont pq then some (xentSum pq) else none := by
  unfold crossEntropyVals xentSum
  rw [lsum_eq_sum]
  congr 4
  exact List.map_congr_left (fun r _ => xent_guard r)

theorem klVals_of_absCont {pq : List (ℝ × ℝ)} (h : absCont pq = true) :
    klVals (Real.logb 2) pq = some (klSum pq) := by
  rw [klVals_eq, if_pos h]

theorem klVals_eq_some {pq : List (ℝ × ℝ)} {d : ℝ} (h : klVals (Real.logb 2) pq = some d) :
    absCont pq = true ∧ d = klSum pq := by
  rw [klVals_eq] at h
  by_cases hac : absCont pq = true
  · rw [if_pos hac] at h; exact ⟨hac, (Option.some.inj h).symm⟩
  · rw [if_neg hac] at h; cases h

theorem klVals_eq_none_iff (pq : List (ℝ × ℝ)) :
    klVals (Real.logb 2) pq = none ↔ absCont pq = false := by
  rw [klVals_eq]
  by_cases hac : absCont pq = true <;> simp [hac]

theorem xentVals_eq_none_iff (pq : List (ℝ × ℝ)) :
    crossEntropyVals (Real.logb 2) pq = none ↔ absCont pq = false := by
  rw [xentVals_eq]
  by_cases hac : absCont pq = true <;> simp [hac]

/-- Termwise: `−p log q = p log (p/q) − p log p` on the common support. -/
theorem xent_term (r : ℝ × ℝ) (h : r.2 = 0 → r.1 = 0) :
    -(r.1 * Real.logb 2 r.2) = r.1 * Real.logb 2 (r.1 / r.2) - r.1 * Real.logb 2 r.1 := by
  by_cases h1 : r.1 = 0
  · simp [h1]
  · have h2 : r.2 ≠ 0 := fun e => h1 (h e)
    rw [Real.logb_div h1 h2]; ring

theorem xentSum_eq (pq : List (ℝ × ℝ)) (h : absCont pq = true) :
    xentSum pq = klSum pq + entropyVals (Real.logb 2) (pq.map Prod.fst) := by
  rw [absCont_iff] at h
  rw [entropyVals_eq_sum, List.map_map]
  unfold xentSum klSum
  rw [← sub_eq_add_neg, ← sum_map_sub, ← sum_map_neg]
  congr 1
  apply List.map_congr_left
  intro r hr
  exact xent_term r (h r hr)

end Defs

/-! ### Gibbs' inequality termwise, with the equality case -/

section Gibbs

/-- `p − q ≤ p ln(p/q)` for `p, q ≥ 0` with `q = 0 → p = 0`. -/
theorem gibbs_term (p q : ℝ) (hp : 0 ≤ p) (hq : 0 ≤ q) (hac : q = 0 → p = 0) :
    p - q ≤ p * Real.log (p / q) := by
  rcases hp.eq_or_lt with h0 | hpos
  · rw [← h0]; simpa using hq
  · have hqpos : 0 < q := by
      rcases hq.eq_or_lt with h | h
      · exact absurd (hac h.symm) hpos.ne'
      · exact h
    have := Real.log_le_sub_one_of_pos (x := q / p) (by positivity)
    rw [Real.log_div hqpos.ne' hpos.ne'] at this
    rw [Real.log_div hpos.ne' hqpos.ne']
    have h2 := mul_le_mul_of_nonneg_left this hpos.le
    have e : p * (q / p - 1) = q - p := by field_simp
    rw [e] at h2
    linarith

/-- Equality in `gibbs_term` forces `p = q`. -/
theorem gibbs_term_eq (p q : ℝ) (hp : 0 ≤ p) (hq : 0 ≤ q) (hac : q = 0 → p = 0)
    (he : p * Real.log (p / q) = p - q) : p = q := by
  rcases hp.eq_or_lt with h0 | hpos
  · rw [← h0] at he; simp at he; rw [← h0]; linarith
  · have hqpos : 0 < q := by
      rcases hq.eq_or_lt with h | h
      · exact absurd (hac h.symm) hpos.ne'
      · exact h
    by_contra hne
    have hx : q / p ≠ 1 := by
      intro e; rw [div_eq_one_iff_eq hpos.ne'] at e; exact hne e.symm
    have := Real.log_lt_sub_one_of_pos (x := q / p) (by positivity) hx
    rw [Real.log_div hqpos.ne' hpos.ne'] at this
    rw [Real.log_div hpos.ne' hqpos.ne'] at he
    have h2 := mul_lt_mul_of_pos_left this hpos
    have e : p * (q / p - 1) = q - p := by field_simp
    rw [e] at h2
    linarith

theorem logb_two_eq (x : ℝ) : Real.logb 2 x = Real.log x / Real.log 2 := by
  rw [← Real.log_div_log]

theorem log_two_pos : 0 < Real.log 2 := Real.log_pos (by norm_num)

/-- KL in bits times `ln 2` is KL in nats. -/
theorem klSum_mul_log_two (pq : List (ℝ × ℝ)) :
    Real.log 2 * klSum pq = (pq.map (fun r => r.1 * Real.log (r.1 / r.2))).sum := by
  unfold klSum
  rw [← sum_map_mul_left]
  apply congrArg
  apply List.map_congr_left
  intro r _
  rw [logb_two_eq]
  have := log_two_pos.ne'
  field_simp

/-- `KL_nats − (Σp − Σq)` as a sum of non-negative terms. -/
theorem kl_excess (pq : List (ℝ × ℝ)) :
    Real.log 2 * klSum pq - ((pq.map Prod.fst).sum - (pq.map Prod.snd).sum)
      = (pq.map (fun r => r.1 * Real.log (r.1 / r.2) - (r.1 - r.2))).sum := by
  rw [klSum_mul_log_two, sum_map_sub, sum_map_sub]

theorem kl_excess_term_nonneg (pq : List (ℝ × ℝ)) (hnn : ∀ r ∈ pq, 0 ≤ r.1 ∧ 0 ≤ r.2)
    (hac : absCont pq = true) :
    ∀ r ∈ pq, 0 ≤ r.1 * Real.log (r.1 / r.2) - (r.1 - r.2) := by
  rw [absCont_iff] at hac
  intro r hr
  have := gibbs_term r.1 r.2 (hnn r hr).1 (hnn r hr).2 (hac r hr)
  linarith

/-- Gibbs: `Σp − Σq ≤ ln 2 · KL_bits`. -/
theorem gibbs_list (pq : List (ℝ × ℝ)) (hnn : ∀ r ∈ pq, 0 ≤ r.1 ∧ 0 ≤ r.2)
    (hac : absCont pq = true) :
    (pq.map Prod.fst).sum - (pq.map Prod.snd).sum ≤ Real.log 2 * klSum pq := by
  have h := sum_map_nonneg pq _ (kl_excess_term_nonneg pq hnn hac)
  rw [← kl_excess] at h
  linarith

theorem klSum_nonneg (pq : List (ℝ × ℝ)) (hnn : ∀ r ∈ pq, 0 ≤ r.1 ∧ 0 ≤ r.2)
    (hac : absCont pq = true) (hs : (pq.map Prod.snd).sum ≤ (pq.map Prod.fst).sum) :
    0 ≤ klSum pq := by
  have h := gibbs_list pq hnn hac
  have : 0 ≤ Real.log 2 * klSum pq := by linarith
  exact (mul_nonneg_iff_of_pos_left log_two_pos).mp this

end Gibbs

/-! ### `D(p‖p) = 0` and the equality case -/

section Zero

theorem klSum_self (ps : List ℝ) : klSum (ps.map (fun p => (p, p))) = 0 := by
  unfold klSum
  rw [List.map_map]
  have : ∀ p ∈ ps, ((fun r : ℝ × ℝ => r.1 * Real.logb 2 (r.1 / r.2)) ∘ fun p => (p, p)) p
      = (fun _ => (0 : ℝ)) p := by
    intro p _
    by_cases h : p = 0
    · simp [h]
    · simp [div_self h]
  rw [List.map_congr_left this, sum_map_zero]

theorem absCont_self (ps : List ℝ) : absCont (ps.map (fun p => (p, p))) = true := by
  rw [absCont_iff]
  intro r hr h2
  obtain ⟨p, _, rfl⟩ := List.mem_map.mp hr
  exact h2

theorem klSum_eq_zero_iff (pq : List (ℝ × ℝ)) (hnn : ∀ r ∈ pq, 0 ≤ r.1 ∧ 0 ≤ r.2)
    (hac : absCont pq = true) (hs : (pq.map Prod.fst).sum = (pq.map Prod.snd).sum) :
    klSum pq = 0 ↔ ∀ r ∈ pq, r.1 = r.2 := by
  have hex := kl_excess pq
  rw [hs, sub_self, sub_zero] at hex
  have hterm := kl_excess_term_nonneg pq hnn hac
  have hac' := (absCont_iff pq).mp hac
  constructor
  · intro h0
    rw [h0, mul_zero] at hex
    have := (sum_map_eq_zero_iff pq _ hterm).mp hex.symm
    intro r hr
    have e := this r hr
    exact gibbs_term_eq r.1 r.2 (hnn r hr).1 (hnn r hr).2 (hac' r hr) (by linarith)
  · intro h
    have : (pq.map (fun r => r.1 * Real.log (r.1 / r.2) - (r.1 - r.2))).sum = 0 := by
      rw [sum_map_eq_zero_iff pq _ hterm]
      intro r hr
      rw [h r hr]
      by_cases h2 : r.2 = 0
      · simp [h2]
      · simp [div_self h2]
    rw [this] at hex
    rcases mul_eq_zero.mp hex with h | h
    · exact absurd h log_two_pos.ne'
    · exact h

end Zero

/-! ### Permutation invariance -/

section Perm

theorem absCont_perm {pq pq' : List (ℝ × ℝ)} (h : pq.Perm pq') : absCont pq = absCont pq' := by
  unfold absCont; exact h.all_eq

theorem klVals_perm (log : ℝ → ℝ) {pq pq' : List (ℝ × ℝ)} (h : pq.Perm pq') :
    klVals log pq = klVals log pq' := by
  unfold klVals
  rw [absCont_perm h, lsum_eq_sum, lsum_eq_sum, (h.map _).sum_eq]

theorem xentVals_perm (log : ℝ → ℝ) {pq pq' : List (ℝ × ℝ)} (h : pq.Perm pq') :
    crossEntropyVals log pq = crossEntropyVals log pq' := by
  unfold crossEntropyVals
  rw [absCont_perm h, lsum_eq_sum, lsum_eq_sum, (h.map _).sum_eq]

theorem tvVals_perm (two : ℝ) {pq pq' : List (ℝ × ℝ)} (h : pq.Perm pq') :
    tvVals two pq = tvVals two pq' := by
  unfold tvVals
  rw [lsum_eq_sum, lsum_eq_sum, (h.map _).sum_eq]

theorem bcVals_perm (sqrt : ℝ → ℝ) {pq pq' : List (ℝ × ℝ)} (h : pq.Perm pq') :
    bcVals sqrt pq = bcVals sqrt pq' := by
  unfold bcVals
  rw [lsum_eq_sum, lsum_eq_sum, (h.map _).sum_eq]

theorem powerSum_perm (R : RealOps ℝ) (a b : ℝ) {pq pq' : List (ℝ × ℝ)} (h : pq.Perm pq') :
    powerSum R a b pq = powerSum R a b pq' := by
  unfold powerSum
  rw [lsum_eq_sum, lsum_eq_sum, (h.map _).sum_eq]

end Perm

/-! ### Label alignment -/

section Align
variable {κ : Type} [DecidableEq κ]

theorem alignPair_right_perm (t1 : Tab κ ℝ) {t2 t2' : Tab κ ℝ} (h : t2.Perm t2')
    (hnd : (keys t2).Nodup) : alignPair t1 t2 = alignPair t1 t2' := by
  unfold alignPair
  apply List.map_congr_left
  intro r _
  rw [lookupD_perm h hnd]

theorem alignPair_left_perm {t1 t1' : Tab κ ℝ} (t2 : Tab κ ℝ) (h : t1.Perm t1') :
    (alignPair t1 t2).Perm (alignPair t1' t2) := h.map _

theorem lookupD_cons_ne (r : κ × ℝ) (t : Tab κ ℝ) (k : κ) (h : r.1 ≠ k) :
    lookupD 0 (r :: t) k = lookupD 0 t k := by
  unfold lookupD; rw [lookup?_cons, if_neg h]

theorem lookupD_cons_self (r : κ × ℝ) (t : Tab κ ℝ) :
    lookupD 0 (r :: t) r.1 = r.2 := by
  unfold lookupD; rw [lookup?_cons, if_pos rfl]; rfl

/-- An outcome of `t2` that `t1` does not have is invisible. -/
theorem alignPair_cons_right (t1 t2 : Tab κ ℝ) (k : κ) (v : ℝ) (hk : k ∉ keys t1) :
    alignPair t1 ((k, v) :: t2) = alignPair t1 t2 := by
  unfold alignPair
  apply List.map_congr_left
  intro r hr
  have : k ≠ r.1 := fun e => hk (e ▸ mem_keys_of_mem hr)
  rw [lookupD_cons_ne (k, v) t2 r.1 this]

/-- A stored zero of `t1` adds a pair `(0, q)`. -/
theorem alignPair_append_left (t1 t2 : Tab κ ℝ) (k : κ) :
    alignPair (t1 ++ [(k, 0)]) t2 = alignPair t1 t2 ++ [(0, lookupD 0 t2 k)] := by
  simp [alignPair]

theorem dedup_append (l1 l2 : List κ) :
    dedup (l1 ++ l2) = dedup l1 ++ (dedup l2).filter (fun x => decide (x ∉ l1)) := by
  induction l1 with
  | nil => simp [dedup]
  | cons x t ih =>
    show x :: (dedup (t ++ l2)).filter (· ≠ x) = x :: (dedup t).filter (· ≠ x) ++ _
    rw [ih, List.filter_append, List.filter_filter, List.cons_append]
    congr 2
    apply List.filter_congr
    intro y _
    by_cases h1 : y = x <;> by_cases h2 : y ∈ t <;> simp [h1, h2]

theorem lookupD_of_mem {t : Tab κ ℝ} (hnd : (keys t).Nodup) {r : κ × ℝ} (hr : r ∈ t) :
    lookupD 0 t r.1 = r.2 := by
  unfold lookupD
  rw [(lookup?_eq_some_iff hnd).mpr hr]; rfl

/-- The union alignment is the alignment along `t1` followed by the pairs `(0, q)` of the
outcomes only `t2` has. -/
theorem alignUnion_eq (t1 t2 : Tab κ ℝ) (hnd : (keys t1).Nodup) :
    alignUnion t1 t2 = alignPair t1 t2
      ++ ((dedup (keys t2)).filter (fun x => decide (x ∉ keys t1))).map
          (fun k => (0, lookupD 0 t2 k)) := by
  unfold alignUnion
  rw [dedup_append, List.map_append, dedup_eq_self.mpr hnd]
  congr 1
  · unfold alignPair keys
    rw [List.map_map]
    apply List.map_congr_left
    intro r hr
    simp only [Function.comp_apply]
    rw [lookupD_of_mem hnd hr]
  · apply List.map_congr_left
    intro k hk
    have : k ∉ keys t1 := by simpa using (List.mem_filter.mp hk).2
    rw [lookupD_of_not_mem 0 this]

/-- The union alignment is symmetric up to the order of the pairs. -/
theorem alignUnion_swap (t1 t2 : Tab κ ℝ) :
    (alignUnion t2 t1).Perm ((alignUnion t1 t2).map Prod.swap) := by
  unfold alignUnion
  rw [List.map_map]
  have hp : (dedup (keys t2 ++ keys t1)).Perm (dedup (keys t1 ++ keys t2)) := by
    rw [List.perm_ext_iff_of_nodup (nodup_dedup _) (nodup_dedup _)]
    intro a
    simp only [mem_dedup, List.mem_append]
    exact Or.comm
  exact hp.map _

end Align

/-! ### Pairs `(0, q)` -/

section ZeroPairs

theorem absCont_append (l1 l2 : List (ℝ × ℝ)) :
    absCont (l1 ++ l2) = (absCont l1 && absCont l2) := by
  unfold absCont; rw [List.all_append]

theorem absCont_of_fst_zero (l : List (ℝ × ℝ)) (h : ∀ r ∈ l, r.1 = 0) : absCont l = true := by
  rw [absCont_iff]; intro r hr _; exact h r hr

theorem klVals_append_zero (log : ℝ → ℝ) (l1 l2 : List (ℝ × ℝ)) (h : ∀ r ∈ l2, r.1 = 0) :
    klVals log (l1 ++ l2) = klVals log l1 := by
  unfold klVals
  rw [absCont_append, absCont_of_fst_zero l2 h, Bool.and_true, lsum_eq_sum, lsum_eq_sum,
    List.map_append, List.sum_append]
  have : (l2.map (fun r => if r.1 == 0 then 0 else r.1 * log (r.1 / r.2))).sum = 0 := by
    rw [← sum_map_zero l2]
    apply congrArg
    apply List.map_congr_left
    intro r hr
    simp [h r hr]
  rw [this, add_zero]

theorem xentVals_append_zero (log : ℝ → ℝ) (l1 l2 : List (ℝ × ℝ)) (h : ∀ r ∈ l2, r.1 = 0) :
    crossEntropyVals log (l1 ++ l2) = crossEntropyVals log l1 := by
  unfold crossEntropyVals
  rw [absCont_append, absCont_of_fst_zero l2 h, Bool.and_true, lsum_eq_sum, lsum_eq_sum,
    List.map_append, List.sum_append]
  have : (l2.map (fun r => if r.1 == 0 then 0 else r.1 * log r.2)).sum = 0 := by
    rw [← sum_map_zero l2]
    apply congrArg
    apply List.map_congr_left
    intro r hr
    simp [h r hr]
  rw [this, add_zero]

end ZeroPairs

/-! ### Variational distance, Bhattacharyya coefficient, Hellinger distance -/

section TV

theorem absV_eq (x : ℝ) : absV x = |x| := by
  unfold absV
  split
  · rename_i h; rw [abs_of_neg h]
  · rename_i h; rw [abs_of_nonneg (not_lt.mp h)]

theorem tvVals_eq (pq : List (ℝ × ℝ)) :
    tvVals 2 pq = (pq.map (fun r => |r.1 - r.2|)).sum / 2 := by
  unfold tvVals
  rw [lsum_eq_sum]
  congr 2
  exact List.map_congr_left (fun r _ => absV_eq _)

theorem tvVals_append (pq pq' : List (ℝ × ℝ)) :
    tvVals 2 (pq ++ pq') = tvVals 2 pq + tvVals 2 pq' := by
  rw [tvVals_eq, tvVals_eq, tvVals_eq, List.map_append, List.sum_append]; ring

theorem tvVals_cons (r : ℝ × ℝ) (pq : List (ℝ × ℝ)) :
    tvVals 2 (r :: pq) = |r.1 - r.2| / 2 + tvVals 2 pq := by
  rw [tvVals_eq, tvVals_eq, List.map_cons, List.sum_cons]; ring

theorem tvVals_swap (pq : List (ℝ × ℝ)) : tvVals 2 (pq.map Prod.swap) = tvVals 2 pq := by
  rw [tvVals_eq, tvVals_eq, List.map_map]
  congr 2
  apply List.map_congr_left
  intro r _
  simp only [Function.comp_apply, Prod.fst_swap, Prod.snd_swap]
  exact abs_sub_comm _ _

theorem tvVals_nonneg (pq : List (ℝ × ℝ)) : 0 ≤ tvVals 2 pq := by
  rw [tvVals_eq]
  exact div_nonneg (sum_map_nonneg _ _ (fun r _ => abs_nonneg _)) (by norm_num)

theorem tvVals_le (pq : List (ℝ × ℝ)) (hnn : ∀ r ∈ pq, 0 ≤ r.1 ∧ 0 ≤ r.2) :
    tvVals 2 pq ≤ ((pq.map Prod.fst).sum + (pq.map Prod.snd).sum) / 2 := by
  rw [tvVals_eq, ← sum_map_add]
  apply div_le_div_of_nonneg_right _ (by norm_num)
  apply sum_map_le
  intro r hr
  have := hnn r hr
  rw [abs_le]; constructor <;> linarith

theorem tvVals_eq_zero_iff (pq : List (ℝ × ℝ)) : tvVals 2 pq = 0 ↔ ∀ r ∈ pq, r.1 = r.2 := by
  rw [tvVals_eq, div_eq_zero_iff]
  simp only [OfNat.ofNat_ne_zero, or_false]
  rw [sum_map_eq_zero_iff _ _ (fun r _ => abs_nonneg _)]
  apply forall₂_congr
  intro r _
  rw [abs_eq_zero, sub_eq_zero]

theorem bcVals_eq (pq : List (ℝ × ℝ)) :
    bcVals Real.sqrt pq = (pq.map (fun r => Real.sqrt (r.1 * r.2))).sum := by
  unfold bcVals; rw [lsum_eq_sum]

theorem bcVals_swap (pq : List (ℝ × ℝ)) :
    bcVals Real.sqrt (pq.map Prod.swap) = bcVals Real.sqrt pq := by
  rw [bcVals_eq, bcVals_eq, List.map_map]
  congr 1
  apply List.map_congr_left
  intro r _
  simp only [Function.comp_apply, Prod.fst_swap, Prod.snd_swap, mul_comm]

theorem bcVals_nonneg (pq : List (ℝ × ℝ)) : 0 ≤ bcVals Real.sqrt pq := by
  rw [bcVals_eq]
  exact sum_map_nonneg _ _ (fun r _ => Real.sqrt_nonneg _)

/-- AM–GM: `√(pq) ≤ (p+q)/2`. -/
theorem sqrt_mul_le_half (p q : ℝ) (hp : 0 ≤ p) (hq : 0 ≤ q) :
    Real.sqrt (p * q) ≤ (p + q) / 2 := by
  rw [Real.sqrt_le_iff]
  constructor
  · linarith
  · nlinarith [sq_nonneg (p - q)]

theorem bcVals_le (pq : List (ℝ × ℝ)) (hnn : ∀ r ∈ pq, 0 ≤ r.1 ∧ 0 ≤ r.2) :
    bcVals Real.sqrt pq ≤ ((pq.map Prod.fst).sum + (pq.map Prod.snd).sum) / 2 := by
  rw [bcVals_eq, ← sum_map_add, div_eq_mul_inv, ← sum_map_mul_right]
  apply sum_map_le
  intro r hr
  have := sqrt_mul_le_half r.1 r.2 (hnn r hr).1 (hnn r hr).2
  rw [div_eq_mul_inv] at this
  exact this

/-- `1 − BC = ½ Σ (√p − √q)²` for probability vectors. -/
theorem one_sub_bc (pq : List (ℝ × ℝ)) (hnn : ∀ r ∈ pq, 0 ≤ r.1 ∧ 0 ≤ r.2)
    (hp : (pq.map Prod.fst).sum = 1) (hq : (pq.map Prod.snd).sum = 1) :
    1 - bcVals Real.sqrt pq
      = (pq.map (fun r => (Real.sqrt r.1 - Real.sqrt r.2) ^ 2)).sum / 2 := by
  have : (pq.map (fun r => (Real.sqrt r.1 - Real.sqrt r.2) ^ 2)).sum
      = (pq.map (fun r => (r.1 + r.2) - 2 * Real.sqrt (r.1 * r.2))).sum := by
    apply congrArg
    apply List.map_congr_left
    intro r hr
    have h1 := (hnn r hr).1
    have h2 := (hnn r hr).2
    rw [Real.sqrt_mul h1, sub_sq, Real.sq_sqrt h1, Real.sq_sqrt h2]; ring
  rw [this, sum_map_sub, sum_map_add, sum_map_mul_left, ← bcVals_eq]
  have e1 : (pq.map (fun r => r.1)).sum = 1 := hp
  have e2 : (pq.map (fun r => r.2)).sum = 1 := hq
  rw [e1, e2]; ring

end TV

/-! ### Jensen–Shannon divergence

The family is a list `l` of pairs (pmf, weight); `pmfs = l.map Prod.fst`, `w = l.map Prod.snd`. -/

section JSD

theorem zipWith_fst_snd {β γ δ : Type} (f : β → γ → δ) (l : List (β × γ)) :
    List.zipWith f (l.map Prod.fst) (l.map Prod.snd) = l.map (fun r => f r.1 r.2) := by
  rw [List.zipWith_map, List.zipWith_self]

theorem list_eq_range_getD (pm : List ℝ) :
    pm = (List.range pm.length).map (fun x => pm.getD x 0) := by
  apply List.ext_getElem
  · simp
  · intro i h1 h2
    simp [List.getD_eq_getElem?_getD, List.getElem?_eq_getElem h1]

theorem sum_map_eq_range (pm : List ℝ) (n : Nat) (hn : pm.length = n) (f : ℝ → ℝ) :
    (pm.map f).sum = ((List.range n).map (fun x => f (pm.getD x 0))).sum := by
  subst hn
  conv_lhs => rw [list_eq_range_getD pm]
  rw [List.map_map]; rfl

/-- Column `x` of the mixture: `Σ_i w_i p_i(x)`. -/
def mixCol (l : List (List ℝ × ℝ)) (x : Nat) : ℝ := (l.map (fun r => r.2 * r.1.getD x 0)).sum

theorem mixVals_eq (l : List (List ℝ × ℝ)) (n : Nat) (hne : l ≠ [])
    (hlen : ∀ r ∈ l, r.1.length = n) :
    mixVals (l.map Prod.fst) (l.map Prod.snd) = (List.range n).map (mixCol l) := by
  cases l with
  | nil => exact absurd rfl hne
  | cons r t =>
    have hr : r.1.length = n := hlen r List.mem_cons_self
    show (List.range r.1.length).map _ = _
    rw [hr]
    apply List.map_congr_left
    intro x _
    rw [lsum_eq_sum, zipWith_fst_snd]; rfl

theorem mixVals_length (l : List (List ℝ × ℝ)) (n : Nat) (hne : l ≠ [])
    (hlen : ∀ r ∈ l, r.1.length = n) :
    (mixVals (l.map Prod.fst) (l.map Prod.snd)).length = n := by
  rw [mixVals_eq l n hne hlen]; simp

theorem jsdVals_eq (l : List (List ℝ × ℝ)) :
    jsdVals (Real.logb 2) (l.map Prod.fst) (l.map Prod.snd)
      = entropyVals (Real.logb 2) (mixVals (l.map Prod.fst) (l.map Prod.snd))
        - (l.map (fun r => r.2 * entropyVals (Real.logb 2) r.1)).sum := by
  unfold jsdVals
  rw [lsum_eq_sum, zipWith_fst_snd]

theorem zip_mix (l : List (List ℝ × ℝ)) (n : Nat) (hne : l ≠ [])
    (hlen : ∀ r ∈ l, r.1.length = n) (r : List ℝ × ℝ) (hr : r ∈ l) :
    r.1.zip (mixVals (l.map Prod.fst) (l.map Prod.snd))
      = (List.range n).map (fun x => (r.1.getD x 0, mixCol l x)) := by
  rw [mixVals_eq l n hne hlen]
  conv_lhs => rw [list_eq_range_getD r.1, hlen r hr]
  rw [List.zip_map']

variable (l : List (List ℝ × ℝ)) (hnn : ∀ r ∈ l, 0 ≤ r.2 ∧ ∀ p ∈ r.1, 0 ≤ p)
include hnn

theorem getD_nonneg (r : List ℝ × ℝ) (hr : r ∈ l) (x : Nat) : 0 ≤ r.1.getD x 0 := by
  rw [List.getD_eq_getElem?_getD]
  by_cases h : x < r.1.length
  · rw [List.getElem?_eq_getElem h]
    exact (hnn r hr).2 _ (List.getElem_mem h)
  · rw [List.getElem?_eq_none (by omega)]; exact le_rfl

/-- `w_i p_i(x) ≤ m(x)`. -/
theorem le_mixCol (r : List ℝ × ℝ) (hr : r ∈ l) (x : Nat) :
    r.2 * r.1.getD x 0 ≤ mixCol l x :=
  single_le_sum_map l (fun r => r.2 * r.1.getD x 0)
    (fun r' hr' => mul_nonneg (hnn r' hr').1 (getD_nonneg l hnn r' hr' x)) r hr

theorem mixCol_pos (r : List ℝ × ℝ) (hr : r ∈ l) (x : Nat) (hw : 0 < r.2)
    (hp : r.1.getD x 0 ≠ 0) : 0 < mixCol l x := by
  have h1 : 0 < r.1.getD x 0 := lt_of_le_of_ne (getD_nonneg l hnn r hr x) (Ne.symm hp)
  exact lt_of_lt_of_le (mul_pos hw h1) (le_mixCol l hnn r hr x)

/-- Every component of positive weight is dominated by the mixture: its KL divergence from the
mixture is finite. -/
theorem absCont_zip_mix (n : Nat) (hne : l ≠ []) (hlen : ∀ r ∈ l, r.1.length = n)
    (r : List ℝ × ℝ) (hr : r ∈ l) (hw : 0 < r.2) :
    absCont (r.1.zip (mixVals (l.map Prod.fst) (l.map Prod.snd))) = true := by
  rw [zip_mix l n hne hlen r hr, absCont_iff]
  intro s hs h2
  obtain ⟨x, _, rfl⟩ := List.mem_map.mp hs
  by_contra h1
  exact (mixCol_pos l hnn r hr x hw h1).ne' h2

/-- The three-term identity behind `JSD = Σ w_i KL(p_i ‖ m)`. -/
theorem jsd_eq_sum_klSum (n : Nat) (hne : l ≠ []) (hlen : ∀ r ∈ l, r.1.length = n) :
    jsdVals (Real.logb 2) (l.map Prod.fst) (l.map Prod.snd)
      = (l.map (fun r => r.2 *
          klSum (r.1.zip (mixVals (l.map Prod.fst) (l.map Prod.snd))))).sum := by
  rw [jsdVals_eq, mixVals_eq l n hne hlen, entropyVals_eq_sum, List.map_map]
  -- entropy of the mixture as a double sum
  have hH : ((List.range n).map ((fun p => p * Real.logb 2 p) ∘ mixCol l)).sum
      = (l.map (fun r => ((List.range n).map
          (fun x => r.2 * r.1.getD x 0 * Real.logb 2 (mixCol l x))).sum)).sum := by
    rw [sum_comm]
    apply congrArg
    apply List.map_congr_left
    intro x _
    simp only [Function.comp_apply]
    rw [sum_map_mul_right]; rfl
  rw [hH, ← sum_map_neg, ← sum_map_sub]
  apply congrArg
  apply List.map_congr_left
  intro r hr
  rw [← mixVals_eq l n hne hlen, zip_mix l n hne hlen r hr, entropyVals_eq_sum,
    sum_map_eq_range r.1 n (hlen r hr)]
  unfold klSum
  rw [List.map_map, ← sum_map_mul_left, mul_neg, sub_neg_eq_add, ← sum_map_mul_left,
    neg_add_eq_sub, ← sum_map_sub]
  apply congrArg
  apply List.map_congr_left
  intro x _
  simp only [Function.comp_apply]
  by_cases hw : r.2 = 0
  · rw [hw]; simp
  by_cases hp : r.1.getD x 0 = 0
  · rw [hp]; simp
  have hm := (mixCol_pos l hnn r hr x (lt_of_le_of_ne (hnn r hr).1 (Ne.symm hw)) hp).ne'
  rw [Real.logb_div hp hm]; ring

/-- `JSD = Σ w_i KL(p_i ‖ m)`, each KL read as `0` when `w_i = 0` makes it irrelevant. -/
theorem jsd_eq_sum_klVals (n : Nat) (hne : l ≠ []) (hlen : ∀ r ∈ l, r.1.length = n) :
    jsdVals (Real.logb 2) (l.map Prod.fst) (l.map Prod.snd)
      = (l.map (fun r => r.2 *
          (klVals (Real.logb 2)
            (r.1.zip (mixVals (l.map Prod.fst) (l.map Prod.snd)))).getD 0)).sum := by
  rw [jsd_eq_sum_klSum l hnn n hne hlen]
  apply congrArg
  apply List.map_congr_left
  intro r hr
  rcases (hnn r hr).1.eq_or_lt with h0 | hpos
  · rw [← h0]; simp
  · rw [klVals_of_absCont (absCont_zip_mix l hnn n hne hlen r hr hpos)]; rfl

theorem sum_mixCol (n : Nat) (hlen : ∀ r ∈ l, r.1.length = n) :
    ((List.range n).map (mixCol l)).sum = (l.map (fun r => r.2 * r.1.sum)).sum := by
  unfold mixCol
  rw [sum_comm]
  apply congrArg
  apply List.map_congr_left
  intro r hr
  rw [sum_map_mul_left]
  congr 1
  have := sum_map_eq_range r.1 n (hlen r hr) id
  simpa using this.symm

theorem klSum_zip_mix_nonneg (n : Nat) (hne : l ≠ []) (hlen : ∀ r ∈ l, r.1.length = n)
    (hp1 : ∀ r ∈ l, r.1.sum = 1) (hw1 : (l.map Prod.snd).sum = 1)
    (r : List ℝ × ℝ) (hr : r ∈ l) (hw : 0 < r.2) :
    0 ≤ klSum (r.1.zip (mixVals (l.map Prod.fst) (l.map Prod.snd))) := by
  have hac := absCont_zip_mix l hnn n hne hlen r hr hw
  have hml := mixVals_length l n hne hlen
  apply klSum_nonneg _ _ hac
  · rw [List.map_fst_zip (by rw [hml, hlen r hr]), List.map_snd_zip (by rw [hml, hlen r hr]),
      mixVals_eq l n hne hlen, sum_mixCol l hnn n hlen, hp1 r hr, ← hw1]
    apply le_of_eq
    apply congrArg
    apply List.map_congr_left
    intro r' hr'
    rw [hp1 r' hr', mul_one]
  · rw [zip_mix l n hne hlen r hr]
    intro s hs
    obtain ⟨x, _, rfl⟩ := List.mem_map.mp hs
    refine ⟨getD_nonneg l hnn r hr x, ?_⟩
    exact sum_map_nonneg l _
      (fun r' hr' => mul_nonneg (hnn r' hr').1 (getD_nonneg l hnn r' hr' x))

theorem jsd_nonneg (n : Nat) (hne : l ≠ []) (hlen : ∀ r ∈ l, r.1.length = n)
    (hp1 : ∀ r ∈ l, r.1.sum = 1) (hw1 : (l.map Prod.snd).sum = 1) :
    0 ≤ jsdVals (Real.logb 2) (l.map Prod.fst) (l.map Prod.snd) := by
  rw [jsd_eq_sum_klSum l hnn n hne hlen]
  apply sum_map_nonneg
  intro r hr
  rcases (hnn r hr).1.eq_or_lt with h0 | hpos
  · rw [← h0]; simp
  · exact mul_nonneg hpos.le (klSum_zip_mix_nonneg l hnn n hne hlen hp1 hw1 r hr hpos)

/-- `KL(p_i ‖ m) ≤ log₂ (1/w_i)`. -/
theorem klSum_zip_mix_le (n : Nat) (hne : l ≠ []) (hlen : ∀ r ∈ l, r.1.length = n)
    (hp1 : ∀ r ∈ l, r.1.sum = 1) (r : List ℝ × ℝ) (hr : r ∈ l) (hw : 0 < r.2) :
    klSum (r.1.zip (mixVals (l.map Prod.fst) (l.map Prod.snd))) ≤ -Real.logb 2 r.2 := by
  rw [zip_mix l n hne hlen r hr]
  unfold klSum
  rw [List.map_map]
  have hsum : ((List.range n).map (fun x => r.1.getD x 0 * (-Real.logb 2 r.2))).sum
      = -Real.logb 2 r.2 := by
    rw [sum_map_mul_right]
    have := sum_map_eq_range r.1 n (hlen r hr) id
    simp only [id] at this
    rw [List.map_id] at this
    rw [← this, hp1 r hr, one_mul]
  rw [← hsum]
  apply sum_map_le
  intro x _
  simp only [Function.comp_apply]
  by_cases hp : r.1.getD x 0 = 0
  · rw [hp]; simp
  have hppos : 0 < r.1.getD x 0 := lt_of_le_of_ne (getD_nonneg l hnn r hr x) (Ne.symm hp)
  have hm := mixCol_pos l hnn r hr x hw hp
  apply mul_le_mul_of_nonneg_left _ hppos.le
  have hle : r.1.getD x 0 / mixCol l x ≤ 1 / r.2 := by
    rw [div_le_div_iff₀ hm hw]
    have := le_mixCol l hnn r hr x
    linarith
  have := Real.logb_le_logb_of_le (b := 2) (by norm_num) (div_pos hppos hm) hle
  rw [Real.logb_div one_ne_zero hw.ne', Real.logb_one, zero_sub] at this
  exact this

theorem jsd_le_entropy_weights (n : Nat) (hne : l ≠ []) (hlen : ∀ r ∈ l, r.1.length = n)
    (hp1 : ∀ r ∈ l, r.1.sum = 1) :
    jsdVals (Real.logb 2) (l.map Prod.fst) (l.map Prod.snd)
      ≤ entropyVals (Real.logb 2) (l.map Prod.snd) := by
  rw [jsd_eq_sum_klSum l hnn n hne hlen, entropyVals_eq_sum, List.map_map, ← sum_map_neg]
  apply sum_map_le
  intro r hr
  simp only [Function.comp_apply]
  rcases (hnn r hr).1.eq_or_lt with h0 | hpos
  · rw [← h0]; simp
  · have := mul_le_mul_of_nonneg_left (klSum_zip_mix_le l hnn n hne hlen hp1 r hr hpos) hpos.le
    linarith

end JSD

section JSDPerm

theorem mixCol_perm {l l' : List (List ℝ × ℝ)} (h : l.Perm l') (x : Nat) :
    mixCol l x = mixCol l' x := (h.map _).sum_eq

/-- Permuting the components together with their weights leaves the JSD unchanged. -/
theorem jsd_perm (log : ℝ → ℝ) {l l' : List (List ℝ × ℝ)} (h : l.Perm l') (n : Nat)
    (hlen : ∀ r ∈ l, r.1.length = n) :
    jsdVals log (l.map Prod.fst) (l.map Prod.snd)
      = jsdVals log (l'.map Prod.fst) (l'.map Prod.snd) := by
  unfold jsdVals
  rw [lsum_eq_sum, lsum_eq_sum, zipWith_fst_snd, zipWith_fst_snd, (h.map _).sum_eq]
  congr 2
  by_cases hne : l = []
  · subst hne
    rw [List.nil_perm.mp h]
  · have hne' : l' ≠ [] := fun e => hne (List.perm_nil.mp (e ▸ h))
    have hlen' : ∀ r ∈ l', r.1.length = n := fun r hr => hlen r (h.mem_iff.mpr hr)
    rw [mixVals_eq l n hne hlen, mixVals_eq l' n hne' hlen']
    apply List.map_congr_left
    intro x _
    exact mixCol_perm h x

end JSDPerm

end Dit.Lemmas.Diverge
