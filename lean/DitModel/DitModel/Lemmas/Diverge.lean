/-
Helper lemmas for C06 (divergences of `Core/Diverge.lean`) over `ℝ` with `log := Real.logb 2`:
support characterisation of the infinite values, Gibbs' inequality termwise with its equality
case, permutation invariance, label alignment, symmetry, bounds for the variational distance and
the Bhattacharyya coefficient, the Jensen–Shannon identities, the power-sum family, the companion
matrix of the maximum correlation, weak duality for the earth mover's distance, Pinsker.
Property theorems are in Props/C06.lean.
-/
import DitModel.Core.Diverge
import DitModel.Lemmas.Table
import DitModel.Lemmas.InfoReal
import Mathlib.Analysis.SpecialFunctions.Sqrt
import Mathlib.Analysis.SpecialFunctions.Pow.Real
import Mathlib.Analysis.SpecialFunctions.Log.Base
import Mathlib.Analysis.SpecialFunctions.Log.Deriv
import Mathlib.Analysis.Calculus.Deriv.MeanValue
import Mathlib.Analysis.Calculus.Deriv.Pow
import Mathlib.Tactic.Linarith
import Mathlib.Tactic.Ring
import Mathlib.Tactic.FieldSimp
import Mathlib.Tactic.Positivity
import Mathlib.Tactic.NormNum

set_option linter.unusedSectionVars false

namespace Dit.Lemmas.Diverge
open Dit Dit.Lemmas.Table Dit.Lemmas.InfoReal

/-! ### List sums of reals -/

section Sums

theorem sum_map_nonneg {β : Type} (l : List β) (f : β → ℝ) (h : ∀ x ∈ l, 0 ≤ f x) :
    0 ≤ (l.map f).sum := by
  induction l with
  | nil => simp
  | cons x t ih =>
    rw [List.map_cons, List.sum_cons]
    have := h x List.mem_cons_self
    have := ih (fun y hy => h y (List.mem_cons_of_mem _ hy))
    linarith

theorem sum_map_le {β : Type} (l : List β) (f g : β → ℝ) (h : ∀ x ∈ l, f x ≤ g x) :
    (l.map f).sum ≤ (l.map g).sum := by
  induction l with
  | nil => simp
  | cons x t ih =>
    rw [List.map_cons, List.sum_cons, List.map_cons, List.sum_cons]
    have := h x List.mem_cons_self
    have := ih (fun y hy => h y (List.mem_cons_of_mem _ hy))
    linarith

theorem sum_map_eq_zero_iff {β : Type} (l : List β) (f : β → ℝ) (h : ∀ x ∈ l, 0 ≤ f x) :
    (l.map f).sum = 0 ↔ ∀ x ∈ l, f x = 0 := by
  induction l with
  | nil => simp
  | cons x t ih =>
    rw [List.map_cons, List.sum_cons]
    have h0 := h x List.mem_cons_self
    have ht : ∀ y ∈ t, 0 ≤ f y := fun y hy => h y (List.mem_cons_of_mem _ hy)
    have h1 := sum_map_nonneg t f ht
    constructor
    · intro e
      have e0 : f x = 0 := by linarith
      have e1 : (t.map f).sum = 0 := by linarith
      intro y hy
      rcases List.mem_cons.mp hy with rfl | hy
      · exact e0
      · exact (ih ht).mp e1 y hy
    · intro e
      rw [e x List.mem_cons_self, (ih ht).mpr (fun y hy => e y (List.mem_cons_of_mem _ hy))]
      simp

theorem sum_map_add {β : Type} (l : List β) (f g : β → ℝ) :
    (l.map (fun x => f x + g x)).sum = (l.map f).sum + (l.map g).sum := by
  induction l with
  | nil => simp
  | cons x t ih => simp only [List.map_cons, List.sum_cons, ih]; ring

theorem sum_map_sub {β : Type} (l : List β) (f g : β → ℝ) :
    (l.map (fun x => f x - g x)).sum = (l.map f).sum - (l.map g).sum := by
  induction l with
  | nil => simp
  | cons x t ih => simp only [List.map_cons, List.sum_cons, ih]; ring

theorem sum_map_mul_left {β : Type} (l : List β) (c : ℝ) (f : β → ℝ) :
    (l.map (fun x => c * f x)).sum = c * (l.map f).sum := by
  induction l with
  | nil => simp
  | cons x t ih => simp only [List.map_cons, List.sum_cons, ih]; ring

theorem sum_map_mul_right {β : Type} (l : List β) (c : ℝ) (f : β → ℝ) :
    (l.map (fun x => f x * c)).sum = (l.map f).sum * c := by
  induction l with
  | nil => simp
  | cons x t ih => simp only [List.map_cons, List.sum_cons, ih]; ring

theorem sum_map_neg {β : Type} (l : List β) (f : β → ℝ) :
    (l.map (fun x => -f x)).sum = -(l.map f).sum := by
  induction l with
  | nil => simp
  | cons x t ih => simp only [List.map_cons, List.sum_cons, ih]; ring

theorem sum_map_zero {β : Type} (l : List β) : (l.map (fun _ => (0 : ℝ))).sum = 0 := by
  induction l with
  | nil => simp
  | cons x t ih => simp only [List.map_cons, List.sum_cons, ih]; ring

/-- Exchange of two finite list sums. -/
theorem sum_comm {β γ : Type} (l1 : List β) (l2 : List γ) (f : β → γ → ℝ) :
    (l1.map (fun a => (l2.map (fun b => f a b)).sum)).sum
      = (l2.map (fun b => (l1.map (fun a => f a b)).sum)).sum := by
  induction l1 with
  | nil => simp
  | cons x t ih =>
    simp only [List.map_cons, List.sum_cons, ih]
    rw [sum_map_add]

theorem single_le_sum_map {β : Type} (l : List β) (f : β → ℝ) (h : ∀ x ∈ l, 0 ≤ f x)
    (x : β) (hx : x ∈ l) : f x ≤ (l.map f).sum := by
  induction l with
  | nil => simp at hx
  | cons y t ih =>
    rw [List.map_cons, List.sum_cons]
    have ht : ∀ z ∈ t, 0 ≤ f z := fun z hz => h z (List.mem_cons_of_mem _ hz)
    rcases List.mem_cons.mp hx with rfl | hx
    · have := sum_map_nonneg t f ht; linarith
    · have := ih ht hx
      have := h y List.mem_cons_self
      linarith

end Sums

/-! ### Support condition; definitions of cross entropy and Kullback–Leibler divergence -/

section Defs

theorem absCont_iff (pq : List (ℝ × ℝ)) :
    absCont pq = true ↔ ∀ r ∈ pq, r.2 = 0 → r.1 = 0 := by
  unfold absCont
  rw [List.all_eq_true]
  constructor
  · intro h r hr h2
    have := h r hr
    simp only [Bool.or_eq_true, beq_iff_eq, Bool.not_eq_true', beq_eq_false_iff_ne] at this
    rcases this with h1 | h1
    · exact h1
    · exact absurd h2 h1
  · intro h r hr
    simp only [Bool.or_eq_true, beq_iff_eq, Bool.not_eq_true', beq_eq_false_iff_ne]
    by_cases h2 : r.2 = 0
    · exact Or.inl (h r hr h2)
    · exact Or.inr h2

theorem absCont_false_iff (pq : List (ℝ × ℝ)) :
    absCont pq = false ↔ ∃ r ∈ pq, r.1 ≠ 0 ∧ r.2 = 0 := by
  rw [← Bool.not_eq_true, absCont_iff]
  constructor
  · intro h
    by_contra hne
    apply h
    intro r hr h2
    by_contra h1
    exact hne ⟨r, hr, h1, h2⟩
  · rintro ⟨r, hr, h1, h2⟩ h
    exact h1 (h r hr h2)

/-- The KL sum (total function): `Σ p log₂(p/q)`. -/
noncomputable def klSum (pq : List (ℝ × ℝ)) : ℝ :=
  (pq.map (fun r => r.1 * Real.logb 2 (r.1 / r.2))).sum

/-- The cross-entropy sum (total function): `−Σ p log₂ q`. -/
noncomputable def xentSum (pq : List (ℝ × ℝ)) : ℝ :=
  -(pq.map (fun r => r.1 * Real.logb 2 r.2)).sum

theorem kl_guard (r : ℝ × ℝ) :
    (if r.1 == 0 then 0 else r.1 * Real.logb 2 (r.1 / r.2)) = r.1 * Real.logb 2 (r.1 / r.2) := by
  by_cases h : r.1 = 0 <;> simp [h]

theorem xent_guard (r : ℝ × ℝ) :
    (if r.1 == 0 then 0 else r.1 * Real.logb 2 r.2) = r.1 * Real.logb 2 r.2 := by
  by_cases h : r.1 = 0 <;> simp [h]

theorem klVals_eq (pq : List (ℝ × ℝ)) :
    klVals (Real.logb 2) pq = if absCont pq then some (klSum pq) else none := by
  unfold klVals klSum
  rw [lsum_eq_sum]
  congr 3
  exact List.map_congr_left (fun r _ => kl_guard r)

theorem xentVals_eq (pq : List (ℝ × ℝ)) :
    crossEntropyVals (Real.logb 2) pq = if absCont pq then some (xentSum pq) else none := by
  unfold crossEntropyVals xentSum
  rw [lsum_eq_sum]
  congr 4
  exact List.map_congr_left (fun r _ => xent_guard r)

theorem klVals_of_absCont {pq : List (ℝ × ℝ)} (h : absCont pq = true) :
    klVals (Real.logb 2) pq = some (klSum pq) := by
  rw [klVals_eq, if_pos h]

theorem klVals_eq_some {pq : List (ℝ × ℝ)} {d : ℝ} (h : klVals (Real.logb 2) pq = some d) :
    absCont pq = true ∧ d = klSum pq := by
  rw [klVals_eq] at h
  by_cases hac : absCont pq = true
  · rw [if_pos hac] at h; exact ⟨hac, (Option.some.inj h).symm⟩
  · rw [if_neg hac] at h; cases h

theorem klVals_eq_none_iff (pq : List (ℝ × ℝ)) :
    klVals (Real.logb 2) pq = none ↔ absCont pq = false := by
  rw [klVals_eq]
  by_cases hac : absCont pq = true <;> simp [hac]

theorem xentVals_eq_none_iff (pq : List (ℝ × ℝ)) :
    crossEntropyVals (Real.logb 2) pq = none ↔ absCont pq = false := by
  rw [xentVals_eq]
  by_cases hac : absCont pq = true <;> simp [hac]

/-- Termwise: `−p log q = p log (p/q) − p log p` on the common support. -/
theorem xent_term (r : ℝ × ℝ) (h : r.2 = 0 → r.1 = 0) :
    -(r.1 * Real.logb 2 r.2) = r.1 * Real.logb 2 (r.1 / r.2) - r.1 * Real.logb 2 r.1 := by
  by_cases h1 : r.1 = 0
  · simp [h1]
  · have h2 : r.2 ≠ 0 := fun e => h1 (h e)
    rw [Real.logb_div h1 h2]; ring

theorem xentSum_eq (pq : List (ℝ × ℝ)) (h : absCont pq = true) :
    xentSum pq = klSum pq + entropyVals (Real.logb 2) (pq.map Prod.fst) := by
  rw [absCont_iff] at h
  rw [entropyVals_eq_sum, List.map_map]
  unfold xentSum klSum
  rw [← sub_eq_add_neg, ← sum_map_sub, ← sum_map_neg]
  congr 1
  apply List.map_congr_left
  intro r hr
  exact xent_term r (h r hr)

end Defs

/-! ### Gibbs' inequality termwise, with the equality case -/

section Gibbs

/-- `p − q ≤ p ln(p/q)` for `p, q ≥ 0` with `q = 0 → p = 0`. -/
theorem gibbs_term (p q : ℝ) (hp : 0 ≤ p) (hq : 0 ≤ q) (hac : q = 0 → p = 0) :
    p - q ≤ p * Real.log (p / q) := by
  rcases hp.eq_or_lt with h0 | hpos
  · rw [← h0]; simpa using hq
  · have hqpos : 0 < q := by
      rcases hq.eq_or_lt with h | h
      · exact absurd (hac h.symm) hpos.ne'
      · exact h
    have := Real.log_le_sub_one_of_pos (x := q / p) (by positivity)
    rw [Real.log_div hqpos.ne' hpos.ne'] at this
    rw [Real.log_div hpos.ne' hqpos.ne']
    have h2 := mul_le_mul_of_nonneg_left this hpos.le
    have e : p * (q / p - 1) = q - p := by field_simp
    rw [e] at h2
    linarith

/-- Equality in `gibbs_term` forces `p = q`. -/
theorem gibbs_term_eq (p q : ℝ) (hp : 0 ≤ p) (hq : 0 ≤ q) (hac : q = 0 → p = 0)
    (he : p * Real.log (p / q) = p - q) : p = q := by
  rcases hp.eq_or_lt with h0 | hpos
  · rw [← h0] at he; simp at he; rw [← h0]; linarith
  · have hqpos : 0 < q := by
      rcases hq.eq_or_lt with h | h
      · exact absurd (hac h.symm) hpos.ne'
      · exact h
    by_contra hne
    have hx : q / p ≠ 1 := by
      intro e; rw [div_eq_one_iff_eq hpos.ne'] at e; exact hne e.symm
    have := Real.log_lt_sub_one_of_pos (x := q / p) (by positivity) hx
    rw [Real.log_div hqpos.ne' hpos.ne'] at this
    rw [Real.log_div hpos.ne' hqpos.ne'] at he
    have h2 := mul_lt_mul_of_pos_left this hpos
    have e : p * (q / p - 1) = q - p := by field_simp
    rw [e] at h2
    linarith

theorem logb_two_eq (x : ℝ) : Real.logb 2 x = Real.log x / Real.log 2 := by
  rw [← Real.log_div_log]

theorem log_two_pos : 0 < Real.log 2 := Real.log_pos (by norm_num)

/-- KL in bits times `ln 2` is KL in nats. -/
theorem klSum_mul_log_two (pq : List (ℝ × ℝ)) :
    Real.log 2 * klSum pq = (pq.map (fun r => r.1 * Real.log (r.1 / r.2))).sum := by
  unfold klSum
  rw [← sum_map_mul_left]
  apply congrArg
  apply List.map_congr_left
  intro r _
  rw [logb_two_eq]
  have := log_two_pos.ne'
  field_simp

/-- `KL_nats − (Σp − Σq)` as a sum of non-negative terms. -/
theorem kl_excess (pq : List (ℝ × ℝ)) :
    Real.log 2 * klSum pq - ((pq.map Prod.fst).sum - (pq.map Prod.snd).sum)
      = (pq.map (fun r => r.1 * Real.log (r.1 / r.2) - (r.1 - r.2))).sum := by
  rw [klSum_mul_log_two, sum_map_sub, sum_map_sub]

theorem kl_excess_term_nonneg (pq : List (ℝ × ℝ)) (hnn : ∀ r ∈ pq, 0 ≤ r.1 ∧ 0 ≤ r.2)
    (hac : absCont pq = true) :
    ∀ r ∈ pq, 0 ≤ r.1 * Real.log (r.1 / r.2) - (r.1 - r.2) := by
  rw [absCont_iff] at hac
  intro r hr
  have := gibbs_term r.1 r.2 (hnn r hr).1 (hnn r hr).2 (hac r hr)
  linarith

/-- Gibbs: `Σp − Σq ≤ ln 2 · KL_bits`. -/
theorem gibbs_list (pq : List (ℝ × ℝ)) (hnn : ∀ r ∈ pq, 0 ≤ r.1 ∧ 0 ≤ r.2)
    (hac : absCont pq = true) :
    (pq.map Prod.fst).sum - (pq.map Prod.snd).sum ≤ Real.log 2 * klSum pq := by
  have h := sum_map_nonneg pq _ (kl_excess_term_nonneg pq hnn hac)
  rw [← kl_excess] at h
  linarith

theorem klSum_nonneg (pq : List (ℝ × ℝ)) (hnn : ∀ r ∈ pq, 0 ≤ r.1 ∧ 0 ≤ r.2)
    (hac : absCont pq = true) (hs : (pq.map Prod.snd).sum ≤ (pq.map Prod.fst).sum) :
    0 ≤ klSum pq := by
  have h := gibbs_list pq hnn hac
  have : 0 ≤ Real.log 2 * klSum pq := by linarith
  exact (mul_nonneg_iff_of_pos_left log_two_pos).mp this

end Gibbs

/-! ### `D(p‖p) = 0` and the equality case -/

section Zero

theorem klSum_self (ps : List ℝ) : klSum (ps.map (fun p => (p, p))) = 0 := by
  unfold klSum
  rw [List.map_map]
  have : ∀ p ∈ ps, ((fun r : ℝ × ℝ => r.1 * Real.logb 2 (r.1 / r.2)) ∘ fun p => (p, p)) p
      = (fun _ => (0 : ℝ)) p := by
    intro p _
    by_cases h : p = 0
    · simp [h]
    · simp [div_self h]
  rw [List.map_congr_left this, sum_map_zero]

theorem absCont_self (ps : List ℝ) : absCont (ps.map (fun p => (p, p))) = true := by
  rw [absCont_iff]
  intro r hr h2
  obtain ⟨p, _, rfl⟩ := List.mem_map.mp hr
  exact h2

theorem klSum_eq_zero_iff (pq : List (ℝ × ℝ)) (hnn : ∀ r ∈ pq, 0 ≤ r.1 ∧ 0 ≤ r.2)
    (hac : absCont pq = true) (hs : (pq.map Prod.fst).sum = (pq.map Prod.snd).sum) :
    klSum pq = 0 ↔ ∀ r ∈ pq, r.1 = r.2 := by
  have hex := kl_excess pq
  rw [hs, sub_self, sub_zero] at hex
  have hterm := kl_excess_term_nonneg pq hnn hac
  have hac' := (absCont_iff pq).mp hac
  constructor
  · intro h0
    rw [h0, mul_zero] at hex
    have := (sum_map_eq_zero_iff pq _ hterm).mp hex.symm
    intro r hr
    have e := this r hr
    exact gibbs_term_eq r.1 r.2 (hnn r hr).1 (hnn r hr).2 (hac' r hr) (by linarith)
  · intro h
    have : (pq.map (fun r => r.1 * Real.log (r.1 / r.2) - (r.1 - r.2))).sum = 0 := by
      rw [sum_map_eq_zero_iff pq _ hterm]
      intro r hr
      rw [h r hr]
      by_cases h2 : r.2 = 0
      · simp [h2]
      · simp [div_self h2]
    rw [this] at hex
    rcases mul_eq_zero.mp hex with h | h
    · exact absurd h log_two_pos.ne'
    · exact h

end Zero

/-! ### Permutation invariance -/

section Perm

theorem absCont_perm {pq pq' : List (ℝ × ℝ)} (h : pq.Perm pq') : absCont pq = absCont pq' := by
  unfold absCont; exact h.all_eq

theorem klVals_perm (log : ℝ → ℝ) {pq pq' : List (ℝ × ℝ)} (h : pq.Perm pq') :
    klVals log pq = klVals log pq' := by
  unfold klVals
  rw [absCont_perm h, lsum_eq_sum, lsum_eq_sum, (h.map _).sum_eq]

theorem xentVals_perm (log : ℝ → ℝ) {pq pq' : List (ℝ × ℝ)} (h : pq.Perm pq') :
    crossEntropyVals log pq = crossEntropyVals log pq' := by
  unfold crossEntropyVals
  rw [absCont_perm h, lsum_eq_sum, lsum_eq_sum, (h.map _).sum_eq]

theorem tvVals_perm (two : ℝ) {pq pq' : List (ℝ × ℝ)} (h : pq.Perm pq') :
    tvVals two pq = tvVals two pq' := by
  unfold tvVals
  rw [lsum_eq_sum, lsum_eq_sum, (h.map _).sum_eq]

theorem bcVals_perm (sqrt : ℝ → ℝ) {pq pq' : List (ℝ × ℝ)} (h : pq.Perm pq') :
    bcVals sqrt pq = bcVals sqrt pq' := by
  unfold bcVals
  rw [lsum_eq_sum, lsum_eq_sum, (h.map _).sum_eq]

theorem powerSum_perm (R : RealOps ℝ) (a b : ℝ) {pq pq' : List (ℝ × ℝ)} (h : pq.Perm pq') :
    powerSum R a b pq = powerSum R a b pq' := by
  unfold powerSum
  rw [lsum_eq_sum, lsum_eq_sum, (h.map _).sum_eq]

end Perm

/-! ### Label alignment -/

section Align
variable {κ : Type} [DecidableEq κ]

theorem alignPair_right_perm (t1 : Tab κ ℝ) {t2 t2' : Tab κ ℝ} (h : t2.Perm t2')
    (hnd : (keys t2).Nodup) : alignPair t1 t2 = alignPair t1 t2' := by
  unfold alignPair
  apply List.map_congr_left
  intro r _
  rw [lookupD_perm h hnd]

theorem alignPair_left_perm {t1 t1' : Tab κ ℝ} (t2 : Tab κ ℝ) (h : t1.Perm t1') :
    (alignPair t1 t2).Perm (alignPair t1' t2) := h.map _

theorem lookupD_cons_ne (r : κ × ℝ) (t : Tab κ ℝ) (k : κ) (h : r.1 ≠ k) :
    lookupD 0 (r :: t) k = lookupD 0 t k := by
  unfold lookupD; rw [lookup?_cons, if_neg h]

theorem lookupD_cons_self (r : κ × ℝ) (t : Tab κ ℝ) :
    lookupD 0 (r :: t) r.1 = r.2 := by
  unfold lookupD; rw [lookup?_cons, if_pos rfl]; rfl

/-- An outcome of `t2` that `t1` does not have is invisible. -/
theorem alignPair_cons_right (t1 t2 : Tab κ ℝ) (k : κ) (v : ℝ) (hk : k ∉ keys t1) :
    alignPair t1 ((k, v) :: t2) = alignPair t1 t2 := by
  unfold alignPair
  apply List.map_congr_left
  intro r hr
  have : k ≠ r.1 := fun e => hk (e ▸ mem_keys_of_mem hr)
  rw [lookupD_cons_ne (k, v) t2 r.1 this]

/-- A stored zero of `t1` adds a pair `(0, q)`. -/
theorem alignPair_append_left (t1 t2 : Tab κ ℝ) (k : κ) :
    alignPair (t1 ++ [(k, 0)]) t2 = alignPair t1 t2 ++ [(0, lookupD 0 t2 k)] := by
  simp [alignPair]

theorem dedup_append (l1 l2 : List κ) :
    dedup (l1 ++ l2) = dedup l1 ++ (dedup l2).filter (fun x => decide (x ∉ l1)) := by
  induction l1 with
  | nil => simp [dedup]
  | cons x t ih =>
    show x :: (dedup (t ++ l2)).filter (· ≠ x) = x :: (dedup t).filter (· ≠ x) ++ _
    rw [ih, List.filter_append, List.filter_filter, List.cons_append]
    congr 2
    apply List.filter_congr
    intro y _
    by_cases h1 : y = x <;> by_cases h2 : y ∈ t <;> simp [h1, h2]

theorem lookupD_of_mem {t : Tab κ ℝ} (hnd : (keys t).Nodup) {r : κ × ℝ} (hr : r ∈ t) :
    lookupD 0 t r.1 = r.2 := by
  unfold lookupD
  rw [(lookup?_eq_some_iff hnd).mpr hr]; rfl

/-- The union alignment is the alignment along `t1` followed by the pairs `(0, q)` of the
outcomes only `t2` has. -/
theorem alignUnion_eq (t1 t2 : Tab κ ℝ) (hnd : (keys t1).Nodup) :
    alignUnion t1 t2 = alignPair t1 t2
      ++ ((dedup (keys t2)).filter (fun x => decide (x ∉ keys t1))).map
          (fun k => (0, lookupD 0 t2 k)) := by
  unfold alignUnion
  rw [dedup_append, List.map_append, dedup_eq_self.mpr hnd]
  congr 1
  · unfold alignPair keys
    rw [List.map_map]
    apply List.map_congr_left
    intro r hr
    simp only [Function.comp_apply]
    rw [lookupD_of_mem hnd hr]
  · apply List.map_congr_left
    intro k hk
    have : k ∉ keys t1 := by simpa using (List.mem_filter.mp hk).2
    rw [lookupD_of_not_mem 0 this]

/-- The union alignment is symmetric up to the order of the pairs. -/
theorem alignUnion_swap (t1 t2 : Tab κ ℝ) :
    (alignUnion t2 t1).Perm ((alignUnion t1 t2).map Prod.swap) := by
  unfold alignUnion
  rw [List.map_map]
  have hp : (dedup (keys t2 ++ keys t1)).Perm (dedup (keys t1 ++ keys t2)) := by
    rw [List.perm_ext_iff_of_nodup (nodup_dedup _) (nodup_dedup _)]
    intro a
    simp only [mem_dedup, List.mem_append]
    exact Or.comm
  exact hp.map _

/-- With duplicate-free keys, the union alignment depends on the stored orders only up to a
permutation of the pairs. -/
theorem alignUnion_perm {t1 t1' t2 t2' : Tab κ ℝ} (h1 : t1.Perm t1') (h2 : t2.Perm t2')
    (hnd1 : (keys t1).Nodup) (hnd2 : (keys t2).Nodup) :
    (alignUnion t1 t2).Perm (alignUnion t1' t2') := by
  unfold alignUnion
  have hp : (dedup (keys t1 ++ keys t2)).Perm (dedup (keys t1' ++ keys t2')) := by
    rw [List.perm_ext_iff_of_nodup (nodup_dedup _) (nodup_dedup _)]
    intro a
    simp only [mem_dedup, List.mem_append]
    have e1 : a ∈ keys t1 ↔ a ∈ keys t1' := (h1.map (·.1)).mem_iff
    have e2 : a ∈ keys t2 ↔ a ∈ keys t2' := (h2.map (·.1)).mem_iff
    rw [e1, e2]
  have e : (dedup (keys t1' ++ keys t2')).map (fun k => (lookupD 0 t1' k, lookupD 0 t2' k))
      = (dedup (keys t1' ++ keys t2')).map (fun k => (lookupD 0 t1 k, lookupD 0 t2 k)) := by
    apply List.map_congr_left
    intro k _
    rw [lookupD_perm h1 hnd1, lookupD_perm h2 hnd2]
  rw [e]
  exact hp.map _

end Align

/-! ### Pairs `(0, q)` -/

section ZeroPairs

theorem absCont_append (l1 l2 : List (ℝ × ℝ)) :
    absCont (l1 ++ l2) = (absCont l1 && absCont l2) := by
  unfold absCont; rw [List.all_append]

theorem absCont_of_fst_zero (l : List (ℝ × ℝ)) (h : ∀ r ∈ l, r.1 = 0) : absCont l = true := by
  rw [absCont_iff]; intro r hr _; exact h r hr

theorem klVals_append_zero (log : ℝ → ℝ) (l1 l2 : List (ℝ × ℝ)) (h : ∀ r ∈ l2, r.1 = 0) :
    klVals log (l1 ++ l2) = klVals log l1 := by
  unfold klVals
  rw [absCont_append, absCont_of_fst_zero l2 h, Bool.and_true, lsum_eq_sum, lsum_eq_sum,
    List.map_append, List.sum_append]
  have : (l2.map (fun r => if r.1 == 0 then 0 else r.1 * log (r.1 / r.2))).sum = 0 := by
    rw [← sum_map_zero l2]
    apply congrArg
    apply List.map_congr_left
    intro r hr
    simp [h r hr]
  rw [this, add_zero]

theorem xentVals_append_zero (log : ℝ → ℝ) (l1 l2 : List (ℝ × ℝ)) (h : ∀ r ∈ l2, r.1 = 0) :
    crossEntropyVals log (l1 ++ l2) = crossEntropyVals log l1 := by
  unfold crossEntropyVals
  rw [absCont_append, absCont_of_fst_zero l2 h, Bool.and_true, lsum_eq_sum, lsum_eq_sum,
    List.map_append, List.sum_append]
  have : (l2.map (fun r => if r.1 == 0 then 0 else r.1 * log r.2)).sum = 0 := by
    rw [← sum_map_zero l2]
    apply congrArg
    apply List.map_congr_left
    intro r hr
    simp [h r hr]
  rw [this, add_zero]

end ZeroPairs

/-! ### Variational distance, Bhattacharyya coefficient, Hellinger distance -/

section TV

theorem absV_eq (x : ℝ) : absV x = |x| := by
  unfold absV
  split
  · rename_i h; rw [abs_of_neg h]
  · rename_i h; rw [abs_of_nonneg (not_lt.mp h)]

theorem tvVals_eq (pq : List (ℝ × ℝ)) :
    tvVals 2 pq = (pq.map (fun r => |r.1 - r.2|)).sum / 2 := by
  unfold tvVals
  rw [lsum_eq_sum]
  congr 2
  exact List.map_congr_left (fun r _ => absV_eq _)

theorem tvVals_append (pq pq' : List (ℝ × ℝ)) :
    tvVals 2 (pq ++ pq') = tvVals 2 pq + tvVals 2 pq' := by
  rw [tvVals_eq, tvVals_eq, tvVals_eq, List.map_append, List.sum_append]; ring

theorem tvVals_cons (r : ℝ × ℝ) (pq : List (ℝ × ℝ)) :
    tvVals 2 (r :: pq) = |r.1 - r.2| / 2 + tvVals 2 pq := by
  rw [tvVals_eq, tvVals_eq, List.map_cons, List.sum_cons]; ring

theorem tvVals_swap (pq : List (ℝ × ℝ)) : tvVals 2 (pq.map Prod.swap) = tvVals 2 pq := by
  rw [tvVals_eq, tvVals_eq, List.map_map]
  congr 2
  apply List.map_congr_left
  intro r _
  simp only [Function.comp_apply, Prod.fst_swap, Prod.snd_swap]
  exact abs_sub_comm _ _

theorem tvVals_nonneg (pq : List (ℝ × ℝ)) : 0 ≤ tvVals 2 pq := by
  rw [tvVals_eq]
  exact div_nonneg (sum_map_nonneg _ _ (fun r _ => abs_nonneg _)) (by norm_num)

theorem tvVals_le (pq : List (ℝ × ℝ)) (hnn : ∀ r ∈ pq, 0 ≤ r.1 ∧ 0 ≤ r.2) :
    tvVals 2 pq ≤ ((pq.map Prod.fst).sum + (pq.map Prod.snd).sum) / 2 := by
  rw [tvVals_eq, ← sum_map_add]
  apply div_le_div_of_nonneg_right _ (by norm_num)
  apply sum_map_le
  intro r hr
  have := hnn r hr
  rw [abs_le]; constructor <;> linarith

theorem tvVals_eq_zero_iff (pq : List (ℝ × ℝ)) : tvVals 2 pq = 0 ↔ ∀ r ∈ pq, r.1 = r.2 := by
  rw [tvVals_eq, div_eq_zero_iff]
  simp only [OfNat.ofNat_ne_zero, or_false]
  rw [sum_map_eq_zero_iff _ _ (fun r _ => abs_nonneg _)]
  apply forall₂_congr
  intro r _
  rw [abs_eq_zero, sub_eq_zero]

theorem bcVals_eq (pq : List (ℝ × ℝ)) :
    bcVals Real.sqrt pq = (pq.map (fun r => Real.sqrt (r.1 * r.2))).sum := by
  unfold bcVals; rw [lsum_eq_sum]

theorem bcVals_swap (pq : List (ℝ × ℝ)) :
    bcVals Real.sqrt (pq.map Prod.swap) = bcVals Real.sqrt pq := by
  rw [bcVals_eq, bcVals_eq, List.map_map]
  congr 1
  apply List.map_congr_left
  intro r _
  simp only [Function.comp_apply, Prod.fst_swap, Prod.snd_swap, mul_comm]

theorem bcVals_nonneg (pq : List (ℝ × ℝ)) : 0 ≤ bcVals Real.sqrt pq := by
  rw [bcVals_eq]
  exact sum_map_nonneg _ _ (fun r _ => Real.sqrt_nonneg _)

/-- AM–GM: `√(pq) ≤ (p+q)/2`. -/
theorem sqrt_mul_le_half (p q : ℝ) (hp : 0 ≤ p) (hq : 0 ≤ q) :
    Real.sqrt (p * q) ≤ (p + q) / 2 := by
  rw [Real.sqrt_le_iff]
  constructor
  · linarith
  · nlinarith [sq_nonneg (p - q)]

theorem bcVals_le (pq : List (ℝ × ℝ)) (hnn : ∀ r ∈ pq, 0 ≤ r.1 ∧ 0 ≤ r.2) :
    bcVals Real.sqrt pq ≤ ((pq.map Prod.fst).sum + (pq.map Prod.snd).sum) / 2 := by
  rw [bcVals_eq, ← sum_map_add, div_eq_mul_inv, ← sum_map_mul_right]
  apply sum_map_le
  intro r hr
  have := sqrt_mul_le_half r.1 r.2 (hnn r hr).1 (hnn r hr).2
  rw [div_eq_mul_inv] at this
  exact this

/-- `1 − BC = ½ Σ (√p − √q)²` for probability vectors. -/
theorem one_sub_bc (pq : List (ℝ × ℝ)) (hnn : ∀ r ∈ pq, 0 ≤ r.1 ∧ 0 ≤ r.2)
    (hp : (pq.map Prod.fst).sum = 1) (hq : (pq.map Prod.snd).sum = 1) :
    1 - bcVals Real.sqrt pq
      = (pq.map (fun r => (Real.sqrt r.1 - Real.sqrt r.2) ^ 2)).sum / 2 := by
  have : (pq.map (fun r => (Real.sqrt r.1 - Real.sqrt r.2) ^ 2)).sum
      = (pq.map (fun r => (r.1 + r.2) - 2 * Real.sqrt (r.1 * r.2))).sum := by
    apply congrArg
    apply List.map_congr_left
    intro r hr
    have h1 := (hnn r hr).1
    have h2 := (hnn r hr).2
    rw [Real.sqrt_mul h1, sub_sq, Real.sq_sqrt h1, Real.sq_sqrt h2]; ring
  rw [this, sum_map_sub, sum_map_add, sum_map_mul_left, ← bcVals_eq]
  have e1 : (pq.map (fun r => r.1)).sum = 1 := hp
  have e2 : (pq.map (fun r => r.2)).sum = 1 := hq
  rw [e1, e2]; ring

end TV

/-! ### Jensen–Shannon divergence

The family is a list `l` of pairs (pmf, weight); `pmfs = l.map Prod.fst`, `w = l.map Prod.snd`. -/

section JSD

theorem zipWith_fst_snd {β γ δ : Type} (f : β → γ → δ) (l : List (β × γ)) :
    List.zipWith f (l.map Prod.fst) (l.map Prod.snd) = l.map (fun r => f r.1 r.2) := by
  rw [List.zipWith_map, List.zipWith_self]

theorem list_eq_range_getD (pm : List ℝ) :
    pm = (List.range pm.length).map (fun x => pm.getD x 0) := by
  apply List.ext_getElem
  · simp
  · intro i h1 h2
    simp [List.getD_eq_getElem?_getD, List.getElem?_eq_getElem h1]

theorem sum_map_eq_range (pm : List ℝ) (n : Nat) (hn : pm.length = n) (f : ℝ → ℝ) :
    (pm.map f).sum = ((List.range n).map (fun x => f (pm.getD x 0))).sum := by
  subst hn
  conv_lhs => rw [list_eq_range_getD pm]
  rw [List.map_map]; rfl

/-- Column `x` of the mixture: `Σ_i w_i p_i(x)`. -/
def mixCol (l : List (List ℝ × ℝ)) (x : Nat) : ℝ := (l.map (fun r => r.2 * r.1.getD x 0)).sum

theorem mixVals_eq (l : List (List ℝ × ℝ)) (n : Nat) (hne : l ≠ [])
    (hlen : ∀ r ∈ l, r.1.length = n) :
    mixVals (l.map Prod.fst) (l.map Prod.snd) = (List.range n).map (mixCol l) := by
  cases l with
  | nil => exact absurd rfl hne
  | cons r t =>
    have hr : r.1.length = n := hlen r List.mem_cons_self
    show (List.range r.1.length).map _ = _
    rw [hr]
    apply List.map_congr_left
    intro x _
    rw [lsum_eq_sum, zipWith_fst_snd]; rfl

theorem mixVals_length (l : List (List ℝ × ℝ)) (n : Nat) (hne : l ≠ [])
    (hlen : ∀ r ∈ l, r.1.length = n) :
    (mixVals (l.map Prod.fst) (l.map Prod.snd)).length = n := by
  rw [mixVals_eq l n hne hlen]; simp

theorem jsdVals_eq (l : List (List ℝ × ℝ)) :
    jsdVals (Real.logb 2) (l.map Prod.fst) (l.map Prod.snd)
      = entropyVals (Real.logb 2) (mixVals (l.map Prod.fst) (l.map Prod.snd))
        - (l.map (fun r => r.2 * entropyVals (Real.logb 2) r.1)).sum := by
  unfold jsdVals
  rw [lsum_eq_sum, zipWith_fst_snd]

theorem zip_mix (l : List (List ℝ × ℝ)) (n : Nat) (hne : l ≠ [])
    (hlen : ∀ r ∈ l, r.1.length = n) (r : List ℝ × ℝ) (hr : r ∈ l) :
    r.1.zip (mixVals (l.map Prod.fst) (l.map Prod.snd))
      = (List.range n).map (fun x => (r.1.getD x 0, mixCol l x)) := by
  rw [mixVals_eq l n hne hlen]
  conv_lhs => rw [list_eq_range_getD r.1, hlen r hr]
  rw [List.zip_map']

variable (l : List (List ℝ × ℝ)) (hnn : ∀ r ∈ l, 0 ≤ r.2 ∧ ∀ p ∈ r.1, 0 ≤ p)
include hnn

theorem getD_nonneg (r : List ℝ × ℝ) (hr : r ∈ l) (x : Nat) : 0 ≤ r.1.getD x 0 := by
  rw [List.getD_eq_getElem?_getD]
  by_cases h : x < r.1.length
  · rw [List.getElem?_eq_getElem h]
    exact (hnn r hr).2 _ (List.getElem_mem h)
  · rw [List.getElem?_eq_none (by omega)]; exact le_rfl

/-- `w_i p_i(x) ≤ m(x)`. -/
theorem le_mixCol (r : List ℝ × ℝ) (hr : r ∈ l) (x : Nat) :
    r.2 * r.1.getD x 0 ≤ mixCol l x :=
  single_le_sum_map l (fun r => r.2 * r.1.getD x 0)
    (fun r' hr' => mul_nonneg (hnn r' hr').1 (getD_nonneg l hnn r' hr' x)) r hr

theorem mixCol_pos (r : List ℝ × ℝ) (hr : r ∈ l) (x : Nat) (hw : 0 < r.2)
    (hp : r.1.getD x 0 ≠ 0) : 0 < mixCol l x := by
  have h1 : 0 < r.1.getD x 0 := lt_of_le_of_ne (getD_nonneg l hnn r hr x) (Ne.symm hp)
  exact lt_of_lt_of_le (mul_pos hw h1) (le_mixCol l hnn r hr x)

/-- Every component of positive weight is dominated by the mixture: its KL divergence from the
mixture is finite. -/
theorem absCont_zip_mix (n : Nat) (hne : l ≠ []) (hlen : ∀ r ∈ l, r.1.length = n)
    (r : List ℝ × ℝ) (hr : r ∈ l) (hw : 0 < r.2) :
    absCont (r.1.zip (mixVals (l.map Prod.fst) (l.map Prod.snd))) = true := by
  rw [zip_mix l n hne hlen r hr, absCont_iff]
  intro s hs h2
  obtain ⟨x, _, rfl⟩ := List.mem_map.mp hs
  by_contra h1
  exact (mixCol_pos l hnn r hr x hw h1).ne' h2

/-- The three-term identity behind `JSD = Σ w_i KL(p_i ‖ m)`. -/
theorem jsd_eq_sum_klSum (n : Nat) (hne : l ≠ []) (hlen : ∀ r ∈ l, r.1.length = n) :
    jsdVals (Real.logb 2) (l.map Prod.fst) (l.map Prod.snd)
      = (l.map (fun r => r.2 *
          klSum (r.1.zip (mixVals (l.map Prod.fst) (l.map Prod.snd))))).sum := by
  rw [jsdVals_eq, mixVals_eq l n hne hlen, entropyVals_eq_sum, List.map_map]
  -- entropy of the mixture as a double sum
  have hH : ((List.range n).map ((fun p => p * Real.logb 2 p) ∘ mixCol l)).sum
      = (l.map (fun r => ((List.range n).map
          (fun x => r.2 * r.1.getD x 0 * Real.logb 2 (mixCol l x))).sum)).sum := by
    rw [sum_comm]
    apply congrArg
    apply List.map_congr_left
    intro x _
    simp only [Function.comp_apply]
    rw [sum_map_mul_right]; rfl
  rw [hH, ← sum_map_neg, ← sum_map_sub]
  apply congrArg
  apply List.map_congr_left
  intro r hr
  rw [← mixVals_eq l n hne hlen, zip_mix l n hne hlen r hr, entropyVals_eq_sum,
    sum_map_eq_range r.1 n (hlen r hr)]
  unfold klSum
  rw [List.map_map, ← sum_map_mul_left, mul_neg, sub_neg_eq_add, ← sum_map_mul_left,
    neg_add_eq_sub, ← sum_map_sub]
  apply congrArg
  apply List.map_congr_left
  intro x _
  simp only [Function.comp_apply]
  by_cases hw : r.2 = 0
  · rw [hw]; simp
  by_cases hp : r.1.getD x 0 = 0
  · rw [hp]; simp
  have hm := (mixCol_pos l hnn r hr x (lt_of_le_of_ne (hnn r hr).1 (Ne.symm hw)) hp).ne'
  rw [Real.logb_div hp hm]; ring

/-- `JSD = Σ w_i KL(p_i ‖ m)`, each KL read as `0` when `w_i = 0` makes it irrelevant. -/
theorem jsd_eq_sum_klVals (n : Nat) (hne : l ≠ []) (hlen : ∀ r ∈ l, r.1.length = n) :
    jsdVals (Real.logb 2) (l.map Prod.fst) (l.map Prod.snd)
      = (l.map (fun r => r.2 *
          (klVals (Real.logb 2)
            (r.1.zip (mixVals (l.map Prod.fst) (l.map Prod.snd)))).getD 0)).sum := by
  rw [jsd_eq_sum_klSum l hnn n hne hlen]
  apply congrArg
  apply List.map_congr_left
  intro r hr
  rcases (hnn r hr).1.eq_or_lt with h0 | hpos
  · rw [← h0]; simp
  · rw [klVals_of_absCont (absCont_zip_mix l hnn n hne hlen r hr hpos)]; rfl

theorem sum_mixCol (n : Nat) (hlen : ∀ r ∈ l, r.1.length = n) :
    ((List.range n).map (mixCol l)).sum = (l.map (fun r => r.2 * r.1.sum)).sum := by
  unfold mixCol
  rw [sum_comm]
  apply congrArg
  apply List.map_congr_left
  intro r hr
  rw [sum_map_mul_left]
  congr 1
  have := sum_map_eq_range r.1 n (hlen r hr) id
  simpa using this.symm

theorem klSum_zip_mix_nonneg (n : Nat) (hne : l ≠ []) (hlen : ∀ r ∈ l, r.1.length = n)
    (hp1 : ∀ r ∈ l, r.1.sum = 1) (hw1 : (l.map Prod.snd).sum = 1)
    (r : List ℝ × ℝ) (hr : r ∈ l) (hw : 0 < r.2) :
    0 ≤ klSum (r.1.zip (mixVals (l.map Prod.fst) (l.map Prod.snd))) := by
  have hac := absCont_zip_mix l hnn n hne hlen r hr hw
  have hml := mixVals_length l n hne hlen
  apply klSum_nonneg _ _ hac
  · rw [List.map_fst_zip (by rw [hml, hlen r hr]), List.map_snd_zip (by rw [hml, hlen r hr]),
      mixVals_eq l n hne hlen, sum_mixCol l hnn n hlen, hp1 r hr, ← hw1]
    apply le_of_eq
    apply congrArg
    apply List.map_congr_left
    intro r' hr'
    rw [hp1 r' hr', mul_one]
  · rw [zip_mix l n hne hlen r hr]
    intro s hs
    obtain ⟨x, _, rfl⟩ := List.mem_map.mp hs
    refine ⟨getD_nonneg l hnn r hr x, ?_⟩
    exact sum_map_nonneg l _
      (fun r' hr' => mul_nonneg (hnn r' hr').1 (getD_nonneg l hnn r' hr' x))

theorem jsd_nonneg (n : Nat) (hne : l ≠ []) (hlen : ∀ r ∈ l, r.1.length = n)
    (hp1 : ∀ r ∈ l, r.1.sum = 1) (hw1 : (l.map Prod.snd).sum = 1) :
    0 ≤ jsdVals (Real.logb 2) (l.map Prod.fst) (l.map Prod.snd) := by
  rw [jsd_eq_sum_klSum l hnn n hne hlen]
  apply sum_map_nonneg
  intro r hr
  rcases (hnn r hr).1.eq_or_lt with h0 | hpos
  · rw [← h0]; simp
  · exact mul_nonneg hpos.le (klSum_zip_mix_nonneg l hnn n hne hlen hp1 hw1 r hr hpos)

/-- `KL(p_i ‖ m) ≤ log₂ (1/w_i)`. -/
theorem klSum_zip_mix_le (n : Nat) (hne : l ≠ []) (hlen : ∀ r ∈ l, r.1.length = n)
    (hp1 : ∀ r ∈ l, r.1.sum = 1) (r : List ℝ × ℝ) (hr : r ∈ l) (hw : 0 < r.2) :
    klSum (r.1.zip (mixVals (l.map Prod.fst) (l.map Prod.snd))) ≤ -Real.logb 2 r.2 := by
  rw [zip_mix l n hne hlen r hr]
  unfold klSum
  rw [List.map_map]
  have hsum : ((List.range n).map (fun x => r.1.getD x 0 * (-Real.logb 2 r.2))).sum
      = -Real.logb 2 r.2 := by
    rw [sum_map_mul_right]
    have := sum_map_eq_range r.1 n (hlen r hr) id
    simp only [id] at this
    rw [List.map_id] at this
    rw [← this, hp1 r hr, one_mul]
  rw [← hsum]
  apply sum_map_le
  intro x _
  simp only [Function.comp_apply]
  by_cases hp : r.1.getD x 0 = 0
  · rw [hp]; simp
  have hppos : 0 < r.1.getD x 0 := lt_of_le_of_ne (getD_nonneg l hnn r hr x) (Ne.symm hp)
  have hm := mixCol_pos l hnn r hr x hw hp
  apply mul_le_mul_of_nonneg_left _ hppos.le
  have hle : r.1.getD x 0 / mixCol l x ≤ 1 / r.2 := by
    rw [div_le_div_iff₀ hm hw]
    have := le_mixCol l hnn r hr x
    linarith
  have := Real.logb_le_logb_of_le (b := 2) (by norm_num) (div_pos hppos hm) hle
  rw [Real.logb_div one_ne_zero hw.ne', Real.logb_one, zero_sub] at this
  exact this

theorem jsd_le_entropy_weights (n : Nat) (hne : l ≠ []) (hlen : ∀ r ∈ l, r.1.length = n)
    (hp1 : ∀ r ∈ l, r.1.sum = 1) :
    jsdVals (Real.logb 2) (l.map Prod.fst) (l.map Prod.snd)
      ≤ entropyVals (Real.logb 2) (l.map Prod.snd) := by
  rw [jsd_eq_sum_klSum l hnn n hne hlen, entropyVals_eq_sum, List.map_map, ← sum_map_neg]
  apply sum_map_le
  intro r hr
  simp only [Function.comp_apply]
  rcases (hnn r hr).1.eq_or_lt with h0 | hpos
  · rw [← h0]; simp
  · have := mul_le_mul_of_nonneg_left (klSum_zip_mix_le l hnn n hne hlen hp1 r hr hpos) hpos.le
    linarith

end JSD

section JSDPerm

theorem mixCol_perm {l l' : List (List ℝ × ℝ)} (h : l.Perm l') (x : Nat) :
    mixCol l x = mixCol l' x := (h.map _).sum_eq

/-- Permuting the components together with their weights leaves the JSD unchanged. -/
theorem jsd_perm (log : ℝ → ℝ) {l l' : List (List ℝ × ℝ)} (h : l.Perm l') (n : Nat)
    (hlen : ∀ r ∈ l, r.1.length = n) :
    jsdVals log (l.map Prod.fst) (l.map Prod.snd)
      = jsdVals log (l'.map Prod.fst) (l'.map Prod.snd) := by
  unfold jsdVals
  rw [lsum_eq_sum, lsum_eq_sum, zipWith_fst_snd, zipWith_fst_snd, (h.map _).sum_eq]
  congr 2
  by_cases hne : l = []
  · subst hne
    rw [List.nil_perm.mp h]
  · have hne' : l' ≠ [] := fun e => hne (List.perm_nil.mp (e ▸ h))
    have hlen' : ∀ r ∈ l', r.1.length = n := fun r hr => hlen r (h.mem_iff.mpr hr)
    rw [mixVals_eq l n hne hlen, mixVals_eq l' n hne' hlen']
    apply List.map_congr_left
    intro x _
    exact mixCol_perm h x

end JSDPerm

/-! ### The power-sum family (Rényi, Tsallis/Hellinger, alpha divergences) -/

section Power

theorem powerSum_eq (a b : ℝ) (pq : List (ℝ × ℝ)) :
    powerSum realOps a b pq
      = ((pq.filter (fun r => decide (r.1 ≠ 0 ∧ r.2 ≠ 0))).map
          (fun r => r.1 ^ a * r.2 ^ b)).sum := by
  unfold powerSum
  rw [lsum_eq_sum, ← Dit.Lemmas.InfoAlg.sum_map_filter_of_zero
    (fun r : ℝ × ℝ => decide (r.1 ≠ 0 ∧ r.2 ≠ 0))]
  · apply congrArg
    apply List.map_congr_left
    intro r hr
    have := (List.mem_filter.mp hr).2
    simp only [ne_eq, decide_eq_true_eq] at this
    have e : (r.1 == 0 || r.2 == 0) = false := by simp [this.1, this.2]
    rw [e]; rfl
  · intro r _ hr
    have : r.1 = 0 ∨ r.2 = 0 := by
      by_contra h
      rw [not_or] at h
      simp [h.1, h.2] at hr
    have e : (r.1 == 0 || r.2 == 0) = true := by
      rcases this with h | h <;> simp [h]
    rw [e]; rfl

theorem powerSum_self (a b : ℝ) (hab : a + b = 1) (ps : List ℝ) (hnn : ∀ p ∈ ps, 0 ≤ p) :
    powerSum realOps a b (ps.map (fun p => (p, p))) = ps.sum := by
  unfold powerSum
  rw [lsum_eq_sum, List.map_map]
  conv_rhs => rw [← List.map_id ps]
  apply congrArg
  apply List.map_congr_left
  intro p hp
  simp only [Function.comp_apply, id]
  by_cases h : p = 0
  · simp [h]
  · have hpos : 0 < p := lt_of_le_of_ne (hnn p hp) (Ne.symm h)
    have e : (p == 0 || p == 0) = false := by simp [h]
    rw [e]
    show p ^ a * p ^ b = p
    rw [← Real.rpow_add hpos, hab, Real.rpow_one]

theorem powerSum_swap (R : RealOps ℝ) (a b : ℝ) (pq : List (ℝ × ℝ)) :
    powerSum R b a (pq.map Prod.swap) = powerSum R a b pq := by
  unfold powerSum
  rw [List.map_map]
  congr 1
  apply List.map_congr_left
  intro r _
  simp only [Function.comp_apply, Prod.fst_swap, Prod.snd_swap]
  rw [Bool.or_comm, mul_comm]

end Power

/-! ### Maximum correlation: the companion matrix -/

section MaxCorr

theorem zipWith_map_self {β γ δ : Type} (f : β → γ → δ) (g : β → γ) (l : List β) :
    List.zipWith f l (l.map g) = l.map (fun a => f a (g a)) := by
  induction l with
  | nil => rfl
  | cons x t ih => simp [ih]

/-- Column marginal `p_Y(k)`. -/
def colSum (P : List (List ℝ)) (k : Nat) : ℝ := (P.map (fun row => row.getD k 0)).sum

/-- Entry `(j, k)` of the companion matrix. -/
noncomputable def ccEntry (P : List (List ℝ)) (j k : Nat) : ℝ :=
  (P.map (fun row => if row.sum = 0 ∨ colSum P k = 0 then 0
    else row.getD j 0 * row.getD k 0 / (row.sum * colSum P k))).sum

theorem getD_map_range (n : Nat) (F : Nat → ℝ) (k : Nat) (hk : k < n) :
    ((List.range n).map F).getD k 0 = F k := by
  rw [List.getD_eq_getElem?_getD, List.getElem?_eq_getElem (by simpa using hk)]
  simp

theorem maxcorrCompanion_eq (P : List (List ℝ)) :
    maxcorrCompanion P
      = (List.range (P.head?.getD []).length).map (fun j =>
          (List.range (P.head?.getD []).length).map (fun k => ccEntry P j k)) := by
  unfold maxcorrCompanion
  apply List.map_congr_left
  intro j _
  apply List.map_congr_left
  intro k hk
  have hk' : k < (P.head?.getD []).length := List.mem_range.mp hk
  rw [lsum_eq_sum, zipWith_map_self, getD_map_range _ _ k hk']
  unfold ccEntry colSum
  apply congrArg
  apply List.map_congr_left
  intro row _
  simp only [lsum_eq_sum, Bool.or_eq_true, beq_iff_eq]

theorem sum_eq_zero_forall (row : List ℝ) (hnn : ∀ x ∈ row, 0 ≤ x) (h : row.sum = 0) :
    ∀ x ∈ row, x = 0 := by
  have := (sum_map_eq_zero_iff row id (fun x hx => hnn x hx)).mp (by simpa using h)
  exact this

theorem getD_eq_zero_of_sum (row : List ℝ) (hnn : ∀ x ∈ row, 0 ≤ x) (h : row.sum = 0) (k : Nat) :
    row.getD k 0 = 0 := by
  rw [List.getD_eq_getElem?_getD]
  by_cases hk : k < row.length
  · rw [List.getElem?_eq_getElem hk]
    exact sum_eq_zero_forall row hnn h _ (List.getElem_mem hk)
  · rw [List.getElem?_eq_none (by omega)]; rfl

/-- The columns of the companion matrix sum to one: the all-ones row vector is a left
eigenvector for the eigenvalue 1. -/
theorem ccEntry_col_sum (P : List (List ℝ)) (n : Nat) (hlen : ∀ row ∈ P, row.length = n)
    (hnn : ∀ row ∈ P, ∀ x ∈ row, 0 ≤ x) (k : Nat) (hk : colSum P k ≠ 0) :
    ((List.range n).map (fun j => ccEntry P j k)).sum = 1 := by
  unfold ccEntry
  rw [sum_comm]
  have : ∀ row ∈ P, ((List.range n).map (fun j => if row.sum = 0 ∨ colSum P k = 0 then 0
      else row.getD j 0 * row.getD k 0 / (row.sum * colSum P k))).sum
        = row.getD k 0 * (colSum P k)⁻¹ := by
    intro row hrow
    by_cases h0 : row.sum = 0
    · rw [getD_eq_zero_of_sum row (hnn row hrow) h0 k]
      simp [h0]
    · simp only [h0, hk, or_self, if_false]
      have e : ∀ j ∈ List.range n, row.getD j 0 * row.getD k 0 / (row.sum * colSum P k)
          = row.getD j 0 * (row.getD k 0 / (row.sum * colSum P k)) := by
        intro j _; ring
      rw [List.map_congr_left e, sum_map_mul_right]
      have := sum_map_eq_range row n (hlen row hrow) id
      simp only [id] at this
      rw [List.map_id] at this
      rw [← this]
      field_simp
  rw [List.map_congr_left this, sum_map_mul_right]
  exact mul_inv_cancel₀ hk

theorem maxcorr_cols_sum_one (P : List (List ℝ)) (hlen : ∀ row ∈ P, row.length = (P.head?.getD []).length)
    (hnn : ∀ row ∈ P, ∀ x ∈ row, 0 ≤ x) (k : Nat) (hk : k < (P.head?.getD []).length)
    (hk0 : colSum P k ≠ 0) :
    ((maxcorrCompanion P).map (fun row => row.getD k 0)).sum = 1 := by
  rw [maxcorrCompanion_eq, List.map_map]
  rw [← ccEntry_col_sum P _ hlen hnn k hk0]
  apply congrArg
  apply List.map_congr_left
  intro j _
  simp only [Function.comp_apply]
  exact getD_map_range _ _ k hk

/-- Independent variables: the joint pmf is the outer product of its marginals. -/
def outer (a b : List ℝ) : List (List ℝ) := a.map (fun ai => b.map (fun bj => ai * bj))

theorem colSum_outer (a b : List ℝ) (k : Nat) :
    colSum (outer a b) k = a.sum * b.getD k 0 := by
  unfold colSum outer
  rw [List.map_map]
  conv_rhs => rw [← List.map_id a]
  rw [← sum_map_mul_right]
  apply congrArg
  apply List.map_congr_left
  intro ai _
  simp only [Function.comp_apply, id]
  rw [List.getD_eq_getElem?_getD, List.getD_eq_getElem?_getD, List.getElem?_map]
  cases b[k]? <;> simp

theorem getD_map_mul (ai : ℝ) (b : List ℝ) (k : Nat) :
    (b.map (fun bj => ai * bj)).getD k 0 = ai * b.getD k 0 := by
  rw [List.getD_eq_getElem?_getD, List.getD_eq_getElem?_getD, List.getElem?_map]
  cases b[k]? <;> simp

theorem ccEntry_outer (a b : List ℝ) (ha : a.sum = 1) (hb : b.sum = 1) (j k : Nat)
    (hk : b.getD k 0 ≠ 0) : ccEntry (outer a b) j k = b.getD j 0 := by
  unfold ccEntry
  rw [colSum_outer, ha, one_mul]
  unfold outer
  rw [List.map_map]
  have : ∀ ai ∈ a, ((fun row : List ℝ => if row.sum = 0 ∨ b.getD k 0 = 0 then 0
      else row.getD j 0 * row.getD k 0 / (row.sum * b.getD k 0)) ∘ fun ai => b.map (fun bj => ai * bj)) ai
        = ai * b.getD j 0 := by
    intro ai _
    simp only [Function.comp_apply]
    rw [sum_map_mul_left, List.map_id', hb, mul_one, getD_map_mul, getD_map_mul]
    by_cases h0 : ai = 0
    · simp [h0]
    · simp only [h0, hk, or_self, if_false]
      field_simp
  rw [List.map_congr_left this, sum_map_mul_right]
  have e : (a.map (fun x => x)).sum = 1 := by rw [List.map_id']; exact ha
  rw [e, one_mul]

theorem head_outer (a b : List ℝ) (hne : a ≠ []) : ((outer a b).head?.getD []).length = b.length := by
  cases a with
  | nil => exact absurd rfl hne
  | cons x t => simp [outer]

/-- For independent variables the companion matrix has constant rows `A[j][k] = b_j`: it has
rank one, and its only non-zero eigenvalue is `Σ_j b_j = 1`. -/
theorem maxcorrCompanion_outer (a b : List ℝ) (hne : a ≠ []) (ha : a.sum = 1) (hb : b.sum = 1)
    (hb0 : ∀ x ∈ b, x ≠ 0) :
    maxcorrCompanion (outer a b) = b.map (fun bj => b.map (fun _ => bj)) := by
  rw [maxcorrCompanion_eq, head_outer a b hne]
  have hk : ∀ k, k < b.length → b.getD k 0 ≠ 0 := by
    intro k hk
    rw [List.getD_eq_getElem?_getD, List.getElem?_eq_getElem hk]
    exact hb0 _ (List.getElem_mem hk)
  have inner : ∀ j, (List.range b.length).map (fun k => ccEntry (outer a b) j k)
      = b.map (fun _ => b.getD j 0) := by
    intro j
    rw [List.map_const', List.map_congr_left (g := fun _ => b.getD j 0)
      (fun k hk' => ccEntry_outer a b ha hb j k (hk k (List.mem_range.mp hk')))]
    rw [List.map_const', List.length_range]
  simp only [inner]
  conv_rhs => rw [list_eq_range_getD b]
  rw [List.map_map]
  apply List.map_congr_left
  intro j _
  simp only [Function.comp_apply]
  rw [← list_eq_range_getD b]

end MaxCorr

/-! ### Earth mover's distance: weak duality and the categorical metric -/

section EMD

/-- The `n × m` matrix (list of rows) of a function of the indices. -/
def mat (n m : Nat) (D : Nat → Nat → ℝ) : List (List ℝ) :=
  (List.range n).map (fun i => (List.range m).map (fun j => D i j))

/-- Every rectangular list-of-rows matrix is the matrix of its entry function. -/
theorem mat_getD (M : List (List ℝ)) (n m : Nat) (hlen : M.length = n)
    (hrow : ∀ row ∈ M, row.length = m) :
    M = mat n m (fun i j => (M.getD i []).getD j 0) := by
  unfold mat
  apply List.ext_getElem
  · simp [hlen]
  · intro i h1 h2
    have hr : (M[i]).length = m := hrow _ (List.getElem_mem h1)
    simp only [List.getElem_map, List.getElem_range]
    have e : M.getD i [] = M[i] := by
      rw [List.getD_eq_getElem?_getD, List.getElem?_eq_getElem h1]; rfl
    rw [e]
    conv_lhs => rw [list_eq_range_getD M[i], hr]

/-- Sum over `i < n`. -/
def rsum (n : Nat) (f : Nat → ℝ) : ℝ := ((List.range n).map f).sum

theorem rsum_le (n : Nat) (f g : Nat → ℝ) (h : ∀ i, i < n → f i ≤ g i) : rsum n f ≤ rsum n g :=
  sum_map_le _ _ _ (fun i hi => h i (List.mem_range.mp hi))

theorem rsum_congr (n : Nat) (f g : Nat → ℝ) (h : ∀ i, i < n → f i = g i) : rsum n f = rsum n g := by
  unfold rsum
  rw [List.map_congr_left (fun i hi => h i (List.mem_range.mp hi))]

theorem rsum_comm (n m : Nat) (f : Nat → Nat → ℝ) :
    rsum n (fun i => rsum m (fun j => f i j)) = rsum m (fun j => rsum n (fun i => f i j)) :=
  sum_comm _ _ _

theorem rsum_add (n : Nat) (f g : Nat → ℝ) :
    rsum n (fun i => f i + g i) = rsum n f + rsum n g := sum_map_add _ _ _

theorem rsum_sub (n : Nat) (f g : Nat → ℝ) :
    rsum n (fun i => f i - g i) = rsum n f - rsum n g := sum_map_sub _ _ _

theorem rsum_mul_left (n : Nat) (c : ℝ) (f : Nat → ℝ) :
    rsum n (fun i => c * f i) = c * rsum n f := sum_map_mul_left _ _ _

theorem rsum_mul_right (n : Nat) (c : ℝ) (f : Nat → ℝ) :
    rsum n (fun i => f i * c) = rsum n f * c := sum_map_mul_right _ _ _

theorem rsum_nonneg (n : Nat) (f : Nat → ℝ) (h : ∀ i, i < n → 0 ≤ f i) : 0 ≤ rsum n f :=
  sum_map_nonneg _ _ (fun i hi => h i (List.mem_range.mp hi))

theorem zipWith_map_map {β γ δ ε : Type} (f : γ → δ → ε) (g : β → γ) (h : β → δ) (l : List β) :
    List.zipWith f (l.map g) (l.map h) = l.map (fun a => f (g a) (h a)) := by
  rw [List.zipWith_map, List.zipWith_self]

/-- The cost of a plan is `Σ_i Σ_j D(i,j) π(i,j)`. -/
theorem planCost_mat (n m : Nat) (D π : Nat → Nat → ℝ) :
    planCost (mat n m D) (mat n m π) = rsum n (fun i => rsum m (fun j => D i j * π i j)) := by
  unfold planCost mat rsum
  rw [lsum_eq_sum, zipWith_map_map]
  apply congrArg
  apply List.map_congr_left
  intro i _
  rw [lsum_eq_sum, zipWith_map_map]

/-- **Weak duality** for the transport problem. -/
theorem emd_weak_duality (n m : Nat) (D π : Nat → Nat → ℝ) (p q f g : Nat → ℝ)
    (hπ : ∀ i j, i < n → j < m → 0 ≤ π i j)
    (hrow : ∀ i, i < n → rsum m (fun j => π i j) = p i)
    (hcol : ∀ j, j < m → rsum n (fun i => π i j) = q j)
    (hfg : ∀ i j, i < n → j < m → f i + g j ≤ D i j) :
    rsum n (fun i => f i * p i) + rsum m (fun j => g j * q j)
      ≤ planCost (mat n m D) (mat n m π) := by
  rw [planCost_mat]
  have e1 : rsum n (fun i => f i * p i) = rsum n (fun i => rsum m (fun j => f i * π i j)) := by
    apply rsum_congr
    intro i hi
    rw [rsum_mul_left, hrow i hi]
  have e2 : rsum m (fun j => g j * q j) = rsum n (fun i => rsum m (fun j => g j * π i j)) := by
    rw [rsum_comm]
    apply rsum_congr
    intro j hj
    rw [rsum_mul_left, hcol j hj]
  rw [e1, e2, ← rsum_add]
  apply rsum_le
  intro i hi
  rw [← rsum_add]
  apply rsum_le
  intro j hj
  have := mul_le_mul_of_nonneg_right (hfg i j hi hj) (hπ i j hi hj)
  linarith

/-- The positive part `(p − q)⁺`. -/
noncomputable def pos (x : ℝ) : ℝ := if 0 < x then x else 0

theorem pos_nonneg (x : ℝ) : 0 ≤ pos x := by
  unfold pos; split <;> linarith

theorem abs_eq_pos (x : ℝ) : |x| = 2 * pos x - x := by
  unfold pos
  split
  · rename_i h; rw [abs_of_pos h]; ring
  · rename_i h; rw [abs_of_nonpos (not_lt.mp h)]; ring

theorem pos_sub_pos_neg (x : ℝ) : pos x - pos (-x) = x := by
  unfold pos
  by_cases h1 : 0 < x
  · have h2 : ¬ 0 < -x := by linarith
    simp [h1, h2]
  · by_cases h2 : 0 < -x
    · simp [h1, h2]
    · have : x = 0 := by linarith
      simp [this]

theorem pos_mul_pos_neg (x : ℝ) : pos x * pos (-x) = 0 := by
  unfold pos
  by_cases h1 : 0 < x
  · have h2 : ¬ 0 < -x := by linarith
    simp [h2]
  · simp [h1]

theorem tvVals_range (n : Nat) (p q : Nat → ℝ) :
    tvVals 2 ((List.range n).map (fun i => (p i, q i)))
      = rsum n (fun i => pos (p i - q i)) - (rsum n p - rsum n q) / 2 := by
  rw [tvVals_eq, List.map_map]
  have : ((List.range n).map ((fun r : ℝ × ℝ => |r.1 - r.2|) ∘ fun i => (p i, q i))).sum
      = rsum n (fun i => 2 * pos (p i - q i) - (p i - q i)) := by
    unfold rsum
    apply congrArg
    apply List.map_congr_left
    intro i _
    simp only [Function.comp_apply]
    exact abs_eq_pos _
  rw [this, rsum_sub, rsum_mul_left, rsum_sub]; ring

/-- Lower bound for the categorical metric: every feasible plan costs at least the variational
distance. -/
theorem emd_categorical_lower (n : Nat) (π : Nat → Nat → ℝ) (p q : Nat → ℝ)
    (hπ : ∀ i j, i < n → j < n → 0 ≤ π i j)
    (hrow : ∀ i, i < n → rsum n (fun j => π i j) = p i)
    (hcol : ∀ j, j < n → rsum n (fun i => π i j) = q j) :
    tvVals 2 ((List.range n).map (fun i => (p i, q i)))
      ≤ planCost (mat n n (fun i j => if i = j then 0 else 1)) (mat n n π) := by
  have hsum : rsum n p = rsum n q := by
    rw [← rsum_congr n _ _ hrow, ← rsum_congr n _ _ hcol, rsum_comm]
  have hdual := emd_weak_duality n n (fun i j => if i = j then 0 else 1) π p q
    (fun i => if q i < p i then 1 else 0) (fun j => -(if q j < p j then 1 else 0))
    hπ hrow hcol (by
      intro i j _ _
      by_cases hij : i = j
      · subst hij; simp
      · simp only [hij, if_false]
        split <;> split <;> norm_num)
  refine le_trans (le_of_eq ?_) hdual
  rw [tvVals_range, hsum, sub_self, zero_div, sub_zero, ← rsum_add]
  apply rsum_congr
  intro i _
  unfold pos
  by_cases h : q i < p i
  · have h' : 0 < p i - q i := by linarith
    simp only [h, h', if_true]; ring
  · have h' : ¬ 0 < p i - q i := by linarith
    simp only [h, h', if_false]; ring

/-- The explicit optimal plan for the categorical metric: keep `min(p_i, q_i)` in place and move
the excess `(p_i − q_i)⁺` to the deficits `(q_j − p_j)⁺` proportionally. -/
noncomputable def catPlan (n : Nat) (p q : Nat → ℝ) (i j : Nat) : ℝ :=
  (if i = j then min (p i) (q i) else 0)
    + pos (p i - q i) * pos (q j - p j) / rsum n (fun k => pos (p k - q k))

theorem rsum_ite_eq (n : Nat) (i : Nat) (hi : i < n) (c : ℝ) :
    rsum n (fun j => if i = j then c else 0) = c := by
  unfold rsum
  induction n with
  | zero => omega
  | succ n ih =>
    rw [List.range_succ, List.map_append, List.sum_append]
    by_cases h : i = n
    · subst h
      have : (List.range i).map (fun j => if i = j then c else 0)
          = (List.range i).map (fun _ => (0 : ℝ)) := by
        apply List.map_congr_left
        intro j hj
        have : i ≠ j := by have := List.mem_range.mp hj; omega
        simp [this]
      rw [this, sum_map_zero]; simp
    · rw [ih (by omega)]; simp [h]

theorem rsum_ite_eq' (n : Nat) (j : Nat) (hj : j < n) (c : Nat → ℝ) :
    rsum n (fun i => if i = j then c i else 0) = c j := by
  have : rsum n (fun i => if i = j then c i else 0) = rsum n (fun i => if j = i then c j else 0) := by
    apply rsum_congr
    intro i _
    by_cases h : i = j
    · subst h; simp
    · have h' : ¬ j = i := fun e => h e.symm
      simp [h, h']
  rw [this, rsum_ite_eq n j hj]

theorem min_add_pos (a b : ℝ) : min a b + pos (a - b) = a := by
  unfold pos
  by_cases h : 0 < a - b
  · rw [if_pos h, min_eq_right (by linarith)]; ring
  · rw [if_neg h, min_eq_left (by linarith)]; ring

theorem rsum_pos_swap (n : Nat) (p q : Nat → ℝ) (hs : rsum n p = rsum n q) :
    rsum n (fun k => pos (q k - p k)) = rsum n (fun k => pos (p k - q k)) := by
  have : rsum n (fun k => pos (p k - q k) - pos (q k - p k)) = rsum n (fun k => p k - q k) := by
    apply rsum_congr
    intro k _
    have := pos_sub_pos_neg (p k - q k)
    rw [neg_sub] at this
    exact this
  rw [rsum_sub, rsum_sub] at this
  linarith

theorem catPlan_nonneg (n : Nat) (p q : Nat → ℝ) (hp : ∀ i, i < n → 0 ≤ p i)
    (hq : ∀ i, i < n → 0 ≤ q i) (i j : Nat) (hi : i < n) : 0 ≤ catPlan n p q i j := by
  unfold catPlan
  apply add_nonneg
  · split
    · exact le_min (hp i hi) (hq i hi)
    · exact le_rfl
  · exact div_nonneg (mul_nonneg (pos_nonneg _) (pos_nonneg _))
      (rsum_nonneg _ _ (fun k _ => pos_nonneg _))

theorem mul_div_self_of (x T : ℝ) (h : T = 0 → x = 0) : x * T / T = x := by
  by_cases hT : T = 0
  · rw [h hT]; simp
  · field_simp

theorem pos_eq_zero_of_rsum (n : Nat) (f : Nat → ℝ) (h : rsum n (fun k => pos (f k)) = 0)
    (i : Nat) (hi : i < n) : pos (f i) = 0 :=
  (sum_map_eq_zero_iff (List.range n) (fun k => pos (f k)) (fun _ _ => pos_nonneg _)).mp h i
    (List.mem_range.mpr hi)

theorem rsum_mul_div (n : Nat) (a T : ℝ) (f : Nat → ℝ) :
    rsum n (fun j => a * f j / T) = a * rsum n f / T := by
  have : ∀ j, j < n → a * f j / T = (a / T) * f j := by intro j _; ring
  rw [rsum_congr n _ _ this, rsum_mul_left]; ring

theorem catPlan_row (n : Nat) (p q : Nat → ℝ) (hs : rsum n p = rsum n q) (i : Nat) (hi : i < n) :
    rsum n (fun j => catPlan n p q i j) = p i := by
  unfold catPlan
  rw [rsum_add, rsum_ite_eq n i hi, rsum_mul_div, rsum_pos_swap n p q hs,
    mul_div_self_of _ _ (fun hT => pos_eq_zero_of_rsum n (fun k => p k - q k) hT i hi)]
  exact min_add_pos _ _

theorem catPlan_col (n : Nat) (p q : Nat → ℝ) (hs : rsum n p = rsum n q) (j : Nat) (hj : j < n) :
    rsum n (fun i => catPlan n p q i j) = q j := by
  unfold catPlan
  rw [rsum_add, rsum_ite_eq' n j hj (fun i => min (p i) (q i))]
  have : ∀ i, i < n → pos (p i - q i) * pos (q j - p j) / rsum n (fun k => pos (p k - q k))
      = pos (q j - p j) * pos (p i - q i) / rsum n (fun k => pos (p k - q k)) := by
    intro i _; ring
  rw [rsum_congr n _ _ this, rsum_mul_div,
    mul_div_self_of _ _ (fun hT => pos_eq_zero_of_rsum n (fun k => q k - p k)
      (by rw [rsum_pos_swap n p q hs]; exact hT) j hj), min_comm]
  exact min_add_pos _ _

/-- The explicit plan costs exactly the variational distance. -/
theorem catPlan_cost (n : Nat) (p q : Nat → ℝ) (hs : rsum n p = rsum n q) :
    planCost (mat n n (fun i j => if i = j then 0 else 1)) (mat n n (catPlan n p q))
      = tvVals 2 ((List.range n).map (fun i => (p i, q i))) := by
  rw [planCost_mat, tvVals_range, hs, sub_self, zero_div, sub_zero]
  apply rsum_congr
  intro i hi
  have : ∀ j, j < n → (if i = j then (0 : ℝ) else 1) * catPlan n p q i j
      = pos (p i - q i) * pos (q j - p j) / rsum n (fun k => pos (p k - q k))
        - (if i = j then pos (p i - q i) * pos (q i - p i) / rsum n (fun k => pos (p k - q k))
            else 0) := by
    intro j _
    unfold catPlan
    by_cases h : i = j
    · subst h; simp
    · simp [h]
  rw [rsum_congr n _ _ this, rsum_sub, rsum_ite_eq n i hi, rsum_mul_div,
    rsum_pos_swap n p q hs,
    mul_div_self_of _ _ (fun hT => pos_eq_zero_of_rsum n (fun k => p k - q k) hT i hi)]
  have := pos_mul_pos_neg (p i - q i)
  rw [neg_sub] at this
  rw [this, zero_div, sub_zero]

end EMD

/-! ### Spectral facts about the companion matrix -/

section Spectral

theorem abs_sum_map_le {β : Type} (l : List β) (f : β → ℝ) :
    |(l.map f).sum| ≤ (l.map (fun x => |f x|)).sum := by
  induction l with
  | nil => simp
  | cons x t ih =>
    simp only [List.map_cons, List.sum_cons]
    exact (abs_add_le _ _).trans (by linarith)

theorem ccEntry_nonneg (P : List (List ℝ)) (hnn : ∀ row ∈ P, ∀ x ∈ row, 0 ≤ x) (j k : Nat) :
    0 ≤ ccEntry P j k := by
  unfold ccEntry
  apply sum_map_nonneg
  intro row hrow
  have hg : ∀ i, 0 ≤ row.getD i 0 := by
    intro i
    rw [List.getD_eq_getElem?_getD]
    by_cases hi : i < row.length
    · rw [List.getElem?_eq_getElem hi]; exact hnn row hrow _ (List.getElem_mem hi)
    · rw [List.getElem?_eq_none (by omega)]; exact le_rfl
  split
  · exact le_rfl
  · apply div_nonneg (mul_nonneg (hg j) (hg k))
    apply mul_nonneg
    · have := sum_map_nonneg row id (fun x hx => hnn row hrow x hx)
      simpa using this
    · unfold colSum
      apply sum_map_nonneg
      intro row' hrow'
      rw [List.getD_eq_getElem?_getD]
      by_cases hi : k < row'.length
      · rw [List.getElem?_eq_getElem hi]; exact hnn row' hrow' _ (List.getElem_mem hi)
      · rw [List.getElem?_eq_none (by omega)]; exact le_rfl

theorem ccEntry_col_sum_le (P : List (List ℝ)) (n : Nat) (hlen : ∀ row ∈ P, row.length = n)
    (hnn : ∀ row ∈ P, ∀ x ∈ row, 0 ≤ x) (k : Nat) :
    rsum n (fun j => ccEntry P j k) ≤ 1 := by
  by_cases hk : colSum P k = 0
  · have : rsum n (fun j => ccEntry P j k) = rsum n (fun _ => 0) := by
      apply rsum_congr
      intro j _
      unfold ccEntry
      rw [← sum_map_zero P]
      apply congrArg
      apply List.map_congr_left
      intro row _
      simp [hk]
    rw [this]
    unfold rsum
    rw [sum_map_zero]; exact zero_le_one
  · exact le_of_eq (ccEntry_col_sum P n hlen hnn k hk)

/-- Every real eigenvalue of the companion matrix has modulus at most one (the matrix is
non-negative with column sums at most one). -/
theorem cc_eigen_abs_le_one (P : List (List ℝ)) (n : Nat) (hlen : ∀ row ∈ P, row.length = n)
    (hnn : ∀ row ∈ P, ∀ x ∈ row, 0 ≤ x) (v : Nat → ℝ) (lam : ℝ)
    (hv : ∃ j, j < n ∧ v j ≠ 0)
    (heig : ∀ j, j < n → rsum n (fun k => ccEntry P j k * v k) = lam * v j) :
    |lam| ≤ 1 := by
  have hS : 0 < rsum n (fun j => |v j|) := by
    obtain ⟨j, hj, hvj⟩ := hv
    have := single_le_sum_map (List.range n) (fun j => |v j|) (fun _ _ => abs_nonneg _) j
      (List.mem_range.mpr hj)
    exact lt_of_lt_of_le (abs_pos.mpr hvj) this
  have h1 : |lam| * rsum n (fun j => |v j|)
      ≤ rsum n (fun j => rsum n (fun k => ccEntry P j k * |v k|)) := by
    rw [← rsum_mul_left]
    apply rsum_le
    intro j hj
    rw [← abs_mul, ← heig j hj]
    refine (abs_sum_map_le _ _).trans (le_of_eq ?_)
    apply rsum_congr
    intro k _
    rw [abs_mul, abs_of_nonneg (ccEntry_nonneg P hnn j k)]
  have h2 : rsum n (fun j => rsum n (fun k => ccEntry P j k * |v k|))
      ≤ rsum n (fun k => |v k|) := by
    rw [rsum_comm]
    apply rsum_le
    intro k _
    rw [rsum_mul_right]
    have := mul_le_mul_of_nonneg_right (ccEntry_col_sum_le P n hlen hnn k) (abs_nonneg (v k))
    linarith
  have h3 := h1.trans h2
  by_contra hc
  rw [not_le] at hc
  have := mul_lt_mul_of_pos_right hc hS
  linarith

/-- A matrix with constant rows `A[j][k] = b_j`, `Σ b = 1`, has `1` as its only non-zero
eigenvalue. -/
theorem rank_one_eigen (n : Nat) (b v : Nat → ℝ) (lam : ℝ) (hb : rsum n b = 1)
    (hv : ∃ j, j < n ∧ v j ≠ 0) (hlam : lam ≠ 0)
    (heig : ∀ j, j < n → rsum n (fun k => b j * v k) = lam * v j) : lam = 1 := by
  have h1 : ∀ j, j < n → b j * rsum n v = lam * v j := by
    intro j hj
    rw [← heig j hj, rsum_mul_left]
  have h2 : rsum n v = lam * rsum n v := by
    rw [← rsum_mul_left, ← rsum_congr n _ _ h1, rsum_mul_right, hb, one_mul]
  by_cases hs : rsum n v = 0
  · obtain ⟨j, hj, hvj⟩ := hv
    have := h1 j hj
    rw [hs, mul_zero] at this
    rcases mul_eq_zero.mp this.symm with h | h
    · exact absurd h hlam
    · exact absurd h hvj
  · have : (lam - 1) * rsum n v = 0 := by linarith
    rcases mul_eq_zero.mp this with h | h
    · linarith
    · exact absurd h hs

theorem maxcorrCompanion_getD (P : List (List ℝ)) (j k : Nat)
    (hj : j < (P.head?.getD []).length) (hk : k < (P.head?.getD []).length) :
    ((maxcorrCompanion P).getD j []).getD k 0 = ccEntry P j k := by
  rw [maxcorrCompanion_eq]
  have : ((List.range (P.head?.getD []).length).map (fun j =>
      (List.range (P.head?.getD []).length).map (fun k => ccEntry P j k))).getD j []
      = (List.range (P.head?.getD []).length).map (fun k => ccEntry P j k) := by
    rw [List.getD_eq_getElem?_getD, List.getElem?_eq_getElem (by simpa using hj)]
    simp
  rw [this, getD_map_range _ _ k hk]

end Spectral

/-! ### Pinsker's inequality -/

section Pinsker

noncomputable def pinG (t : ℝ) : ℝ :=
  4 * (t * Real.log t) + 2 * (t ^ 2 * Real.log t) - 5 * t ^ 2 + 4 * t + 1
noncomputable def pinG1 (t : ℝ) : ℝ := 4 * Real.log t + 4 * (t * Real.log t) + 8 - 8 * t
noncomputable def pinG2 (t : ℝ) : ℝ := 4 / t + 4 * Real.log t - 4

theorem hasDerivAt_G (t : ℝ) (ht : t ≠ 0) : HasDerivAt pinG (pinG1 t) t := by
  have hlog := Real.hasDerivAt_log ht
  have hid := hasDerivAt_id t
  have h1 := hid.mul hlog
  have h2 := (hasDerivAt_pow 2 t).mul hlog
  have := ((((h1.const_mul 4).add (h2.const_mul 2)).sub ((hasDerivAt_pow 2 t).const_mul 5)).add
    (hid.const_mul 4)).add_const 1
  have e : HasDerivAt pinG _ t := this
  exact e.congr_deriv (by unfold pinG1; simp only [id]; field_simp; ring)

theorem hasDerivAt_G1 (t : ℝ) (ht : t ≠ 0) : HasDerivAt pinG1 (pinG2 t) t := by
  have hlog := Real.hasDerivAt_log ht
  have hid := hasDerivAt_id t
  have h1 := hid.mul hlog
  have := (((hlog.const_mul 4).add (h1.const_mul 4)).add_const 8).sub (hid.const_mul 8)
  have e : HasDerivAt pinG1 _ t := this
  exact e.congr_deriv (by unfold pinG2; simp only [id]; field_simp; ring)


theorem G2_nonneg (t : ℝ) (ht : 0 < t) : 0 ≤ pinG2 t := by
  unfold pinG2
  have := Real.one_sub_inv_le_log_of_pos ht
  rw [div_eq_mul_inv]; linarith

theorem G1_one : pinG1 1 = 0 := by unfold pinG1; simp

theorem G_one : pinG 1 = 0 := by unfold pinG; simp; norm_num

theorem G1_monotoneOn : MonotoneOn pinG1 (Set.Ioi 0) := by
  apply monotoneOn_of_deriv_nonneg (convex_Ioi 0)
  · exact fun x hx => (hasDerivAt_G1 x (ne_of_gt hx)).continuousAt.continuousWithinAt
  · rw [interior_Ioi]
    exact fun x hx => (hasDerivAt_G1 x (ne_of_gt hx)).differentiableAt.differentiableWithinAt
  · rw [interior_Ioi]
    intro x hx
    rw [(hasDerivAt_G1 x (ne_of_gt hx)).deriv]
    exact G2_nonneg x hx

theorem G_nonneg_of_pos (t : ℝ) (ht : 0 < t) : 0 ≤ pinG t := by
  rcases le_total t 1 with h1 | h1
  · have hanti : AntitoneOn pinG (Set.Ioc 0 1) := by
      apply antitoneOn_of_deriv_nonpos (convex_Ioc 0 1)
      · exact fun x hx => (hasDerivAt_G x (ne_of_gt hx.1)).continuousAt.continuousWithinAt
      · rw [interior_Ioc]
        exact fun x hx => (hasDerivAt_G x (ne_of_gt hx.1)).differentiableAt.differentiableWithinAt
      · rw [interior_Ioc]
        intro x hx
        rw [(hasDerivAt_G x (ne_of_gt hx.1)).deriv, ← G1_one]
        exact G1_monotoneOn hx.1 (by norm_num : (1:ℝ) ∈ Set.Ioi 0) hx.2.le
    have := hanti ⟨ht, h1⟩ ⟨by norm_num, le_rfl⟩ h1
    rwa [G_one] at this
  · have hmono : MonotoneOn pinG (Set.Ici 1) := by
      apply monotoneOn_of_deriv_nonneg (convex_Ici 1)
      · exact fun x hx => (hasDerivAt_G x (by have : (1:ℝ) ≤ x := hx; linarith)).continuousAt.continuousWithinAt
      · rw [interior_Ici]
        exact fun x hx => (hasDerivAt_G x (by have : (1:ℝ) < x := hx; linarith)).differentiableAt.differentiableWithinAt
      · rw [interior_Ici]
        intro x hx
        have hx' : (1:ℝ) < x := hx
        rw [(hasDerivAt_G x (by linarith)).deriv, ← G1_one]
        exact G1_monotoneOn (by norm_num : (1:ℝ) ∈ Set.Ioi 0) (by show (0:ℝ) < x; linarith) hx'.le
    have := hmono (show (1:ℝ) ∈ Set.Ici 1 from le_refl (1:ℝ)) (show t ∈ Set.Ici 1 from h1) h1
    rwa [G_one] at this

/-- `3 (p − q)² ≤ (4q + 2p) (p ln(p/q) − p + q)`. -/
theorem pinsker_term (p q : ℝ) (hp : 0 ≤ p) (hq : 0 < q) :
    3 * (p - q) ^ 2 ≤ (4 * q + 2 * p) * (p * Real.log (p / q) - p + q) := by
  rcases hp.eq_or_lt with h0 | hpos
  · rw [← h0]; simp; nlinarith
  · have hG := G_nonneg_of_pos (p / q) (div_pos hpos hq)
    unfold pinG at hG
    have hq2 : 0 < q ^ 2 := by positivity
    have := mul_nonneg hq2.le hG
    have e : q ^ 2 * (4 * (p / q * Real.log (p / q)) + 2 * ((p / q) ^ 2 * Real.log (p / q))
        - 5 * (p / q) ^ 2 + 4 * (p / q) + 1)
        = (4 * q + 2 * p) * (p * Real.log (p / q) - p + q) - 3 * (p - q) ^ 2 := by
      field_simp; ring
    rw [e] at this
    linarith

theorem cs_step (u X a A b B : ℝ) (hu : 0 ≤ u) (hX : 0 ≤ X) (ha : 0 ≤ a) (hA : 0 ≤ A)
    (hb : 0 ≤ b) (hB : 0 ≤ B) (h1 : u ^ 2 ≤ a * b) (h2 : X ^ 2 ≤ A * B) :
    (u + X) ^ 2 ≤ (a + A) * (b + B) := by
  have h3 : (u * X) ^ 2 ≤ ((a * B + A * b) / 2) ^ 2 := by
    have := mul_le_mul h1 h2 (sq_nonneg X) (mul_nonneg ha hb)
    nlinarith [sq_nonneg (a * B - A * b)]
  have h4 : u * X ≤ (a * B + A * b) / 2 :=
    (sq_le_sq₀ (mul_nonneg hu hX) (by positivity)).mp h3
  nlinarith

theorem cs_list {β : Type} (l : List β) (x a b : β → ℝ) (ha : ∀ r ∈ l, 0 ≤ a r)
    (hb : ∀ r ∈ l, 0 ≤ b r) (h : ∀ r ∈ l, (x r) ^ 2 ≤ a r * b r) :
    ((l.map (fun r => |x r|)).sum) ^ 2 ≤ (l.map a).sum * (l.map b).sum := by
  induction l with
  | nil => simp
  | cons r t ih =>
    have ha' : ∀ r ∈ t, 0 ≤ a r := fun s hs => ha s (List.mem_cons_of_mem _ hs)
    have hb' : ∀ r ∈ t, 0 ≤ b r := fun s hs => hb s (List.mem_cons_of_mem _ hs)
    have ih' := ih ha' hb' (fun s hs => h s (List.mem_cons_of_mem _ hs))
    simp only [List.map_cons, List.sum_cons]
    apply cs_step _ _ _ _ _ _ (abs_nonneg _) (sum_map_nonneg _ _ (fun s _ => abs_nonneg _))
      (ha r List.mem_cons_self) (sum_map_nonneg _ _ ha') (hb r List.mem_cons_self)
      (sum_map_nonneg _ _ hb') _ ih'
    rw [sq_abs]; exact h r List.mem_cons_self

/-- **Pinsker**: `2 TV² ≤ ln 2 · KL_bits` for probability vectors. -/
theorem pinsker_list (pq : List (ℝ × ℝ)) (hnn : ∀ r ∈ pq, 0 ≤ r.1 ∧ 0 ≤ r.2)
    (hac : absCont pq = true) (hp : (pq.map Prod.fst).sum = 1) (hq : (pq.map Prod.snd).sum = 1) :
    2 * (tvVals 2 pq) ^ 2 ≤ Real.log 2 * klSum pq := by
  have hterm := kl_excess_term_nonneg pq hnn hac
  have hac' := (absCont_iff pq).mp hac
  have hcs := cs_list pq (fun r => r.1 - r.2) (fun r => (4 * r.2 + 2 * r.1) / 3)
    (fun r => r.1 * Real.log (r.1 / r.2) - (r.1 - r.2))
    (fun r hr => by have := hnn r hr; have h1 := this.1; have h2 := this.2; positivity) hterm
    (by
      intro r hr
      rcases (hnn r hr).2.eq_or_lt with h0 | hpos
      · have h1 := hac' r hr h0.symm
        simp [h1, ← h0]
      · have := pinsker_term r.1 r.2 (hnn r hr).1 hpos
        show (r.1 - r.2) ^ 2
          ≤ (4 * r.2 + 2 * r.1) / 3 * (r.1 * Real.log (r.1 / r.2) - (r.1 - r.2))
        linarith)
  have hex := kl_excess pq
  rw [hp, hq, sub_self, sub_zero] at hex
  rw [← hex] at hcs
  have hA : (pq.map (fun r => (4 * r.2 + 2 * r.1) / 3)).sum = 2 := by
    have : ∀ r ∈ pq, (4 * r.2 + 2 * r.1) / 3 = (4 / 3) * r.2 + (2 / 3) * r.1 := by
      intro r _; ring
    rw [List.map_congr_left this, sum_map_add, sum_map_mul_left, sum_map_mul_left]
    have e1 : (pq.map (fun r => r.1)).sum = 1 := hp
    have e2 : (pq.map (fun r => r.2)).sum = 1 := hq
    rw [e1, e2]; norm_num
  rw [hA] at hcs
  rw [tvVals_eq]
  have e : 2 * ((pq.map (fun r => |r.1 - r.2|)).sum / 2) ^ 2
      = ((pq.map (fun r => |r.1 - r.2|)).sum) ^ 2 / 2 := by ring
  rw [e]
  linarith

end Pinsker

end Dit.Lemmas.Diverge
