/-
Helper lemmas for C07 (log-probability distributions and the operations objects of
`dit.math.ops`) over `ℝ`: the real instance `realBase b` of `LogBase`, the homomorphism
facts `b ^ (log-op) = linear-op`, the null value as a limit, base changes, and the scaling of
the entropy family with the base.  Property theorems are in Props/C07.lean.
-/
import DitModel.Core.Ops
import DitModel.Core.Info
import DitModel.Lemmas.Table
import DitModel.Lemmas.InfoReal
import Mathlib.Analysis.SpecialFunctions.Log.Base
import Mathlib.Analysis.SpecialFunctions.Pow.Real
import Mathlib.Analysis.SpecialFunctions.Pow.Asymptotics
import Mathlib.Algebra.BigOperators.Group.List.Basic
import Mathlib.Tactic.Linarith
import Mathlib.Tactic.Ring
import Mathlib.Tactic.FieldSimp
import Mathlib.Tactic.Positivity
import Mathlib.Tactic.NormNum

set_option linter.unusedSectionVars false

namespace Dit.Lemmas.LogOps
open Dit Dit.Lemmas.Table Dit.Lemmas.InfoReal Filter

/-- The real instance of a logarithm base `b`: `exp x = b^x`, `log = log_b`, and the base-2
helpers of dit's generic-base code path. -/
noncomputable def realBase (b : ℝ) : LogBase ℝ :=
  ⟨fun x => b ^ x, Real.logb b, fun x => (2 : ℝ) ^ x, Real.logb 2, Real.logb 2 b, Real.logb b 2⟩

/-! ### Sums and products of exponentials -/

theorem sum_rpow_pos (b : ℝ) (hb : 0 < b) (xs : List ℝ) (hne : xs ≠ []) :
    0 < (xs.map (fun x => b ^ x)).sum := by
  induction xs with
  | nil => exact absurd rfl hne
  | cons x t ih =>
    rw [List.map_cons, List.sum_cons]
    have hx : 0 < b ^ x := Real.rpow_pos_of_pos hb x
    by_cases ht : t = []
    · subst ht; simpa using hx
    · have := ih ht; linarith

theorem list_sum_pos (ps : List ℝ) (hne : ps ≠ []) (hp : ∀ p ∈ ps, 0 < p) : 0 < ps.sum := by
  induction ps with
  | nil => exact absurd rfl hne
  | cons x t ih =>
    rw [List.sum_cons]
    have hx : 0 < x := hp x List.mem_cons_self
    by_cases ht : t = []
    · subst ht; simpa using hx
    · have := ih ht (fun p h => hp p (List.mem_cons_of_mem _ h)); linarith

theorem rpow_list_sum (b : ℝ) (hb : 0 < b) (xs : List ℝ) :
    b ^ xs.sum = (xs.map (fun x => b ^ x)).prod := by
  induction xs with
  | nil => simp
  | cons x t ih => rw [List.sum_cons, Real.rpow_add hb, ih, List.map_cons, List.prod_cons]

theorem map_rpow_logb (b : ℝ) (hb : 0 < b) (hb1 : b ≠ 1) (ps : List ℝ) (hp : ∀ p ∈ ps, 0 < p) :
    (ps.map (Real.logb b)).map (fun x => b ^ x) = ps := by
  rw [List.map_map]
  conv_rhs => rw [← List.map_id ps]
  exact List.map_congr_left (fun p h => by simp [Real.rpow_logb hb hb1 (hp p h)])

/-! ### The operations -/

section Ops
variable (b : ℝ) (hb : 0 < b) (hb1 : b ≠ 1)
include hb hb1

theorem ne_neg_one : b ≠ -1 := by intro h; rw [h] at hb; linarith
theorem ne_zero : b ≠ 0 := hb.ne'

theorem logAdd_eq (x y : ℝ) : logAdd (realBase b) x y = Real.logb b (b ^ x + b ^ y) := rfl

theorem logAdd_hom (x y : ℝ) : b ^ (logAdd (realBase b) x y) = b ^ x + b ^ y := by
  rw [logAdd_eq b hb hb1]
  exact Real.rpow_logb hb hb1 (by positivity)

theorem two_rpow_mul_log2b (x : ℝ) : (2 : ℝ) ^ (x * Real.logb 2 b) = b ^ x := by
  rw [mul_comm, Real.rpow_mul (by norm_num), Real.rpow_logb (by norm_num) (by norm_num) hb]

theorem logAddGeneric_eq (x y : ℝ) :
    logAddGeneric (realBase b) x y = logAdd (realBase b) x y := by
  show Real.logb 2 ((2 : ℝ) ^ (x * Real.logb 2 b) + (2 : ℝ) ^ (y * Real.logb 2 b)) * Real.logb b 2
    = Real.logb b (b ^ x + b ^ y)
  rw [two_rpow_mul_log2b b hb hb1, two_rpow_mul_log2b b hb hb1, mul_comm]
  exact Real.mul_logb (by norm_num) (by norm_num) (by norm_num)

theorem logMul_hom (x y : ℝ) : b ^ (logMul x y) = b ^ x * b ^ y := Real.rpow_add hb x y

theorem logInv_hom (x : ℝ) : b ^ (logInv x) = (b ^ x)⁻¹ := Real.rpow_neg hb.le x

theorem logAddReduce_eq (xs : List ℝ) :
    logAddReduce (realBase b) xs = Real.logb b (xs.map (fun x => b ^ x)).sum := by
  unfold logAddReduce; rw [lsum_eq_sum]; rfl

theorem logAddReduce_hom (xs : List ℝ) (hne : xs ≠ []) :
    b ^ (logAddReduce (realBase b) xs) = (xs.map (fun x => b ^ x)).sum := by
  rw [logAddReduce_eq b hb hb1]
  exact Real.rpow_logb hb hb1 (sum_rpow_pos b hb xs hne)

theorem logMulReduce_hom (xs : List ℝ) :
    b ^ (logMulReduce xs) = (xs.map (fun x => b ^ x)).prod := by
  unfold logMulReduce; rw [lsum_eq_sum]; exact rpow_list_sum b hb xs

theorem logNormalize_hom (xs : List ℝ) (hne : xs ≠ []) :
    (logNormalize (realBase b) xs).map (fun x => b ^ x) = linNormalize (xs.map (fun x => b ^ x)) := by
  unfold logNormalize linNormalize
  rw [lsum_eq_sum, List.map_map, List.map_map]
  apply List.map_congr_left
  intro x _
  simp only [Function.comp]
  rw [Real.rpow_sub hb, logAddReduce_hom b hb hb1 xs hne]

theorem linNormalize_sum (ps : List ℝ) (h : ps.sum ≠ 0) : (linNormalize ps).sum = 1 := by
  unfold linNormalize
  rw [lsum_eq_sum]
  have := list_sum_map_div ps (fun x => x) ps.sum
  simp only [List.map_id'] at this
  rw [this, div_self h]

theorem logNormalize_sum (xs : List ℝ) (hne : xs ≠ []) :
    ((logNormalize (realBase b) xs).map (fun x => b ^ x)).sum = 1 := by
  rw [logNormalize_hom b hb hb1 xs hne]
  exact linNormalize_sum b hb hb1 _ (sum_rpow_pos b hb xs hne).ne'

/-- After normalisation the log-sum is the log of 1. -/
theorem logNormalize_reduce (xs : List ℝ) (hne : xs ≠ []) :
    logAddReduce (realBase b) (logNormalize (realBase b) xs) = 0 := by
  rw [logAddReduce_eq b hb hb1, logNormalize_sum b hb hb1 xs hne, Real.logb_one]

/-! From the linear side. -/

theorem log_add_hom (p q : ℝ) (hp : 0 < p) (hq : 0 < q) :
    logAdd (realBase b) (Real.logb b p) (Real.logb b q) = Real.logb b (p + q) := by
  rw [logAdd_eq b hb hb1, Real.rpow_logb hb hb1 hp, Real.rpow_logb hb hb1 hq]

theorem log_mul_hom (p q : ℝ) (hp : 0 < p) (hq : 0 < q) :
    logMul (Real.logb b p) (Real.logb b q) = Real.logb b (p * q) :=
  (Real.logb_mul hp.ne' hq.ne').symm

theorem log_add_reduce_hom (ps : List ℝ) (hp : ∀ p ∈ ps, 0 < p) :
    logAddReduce (realBase b) (ps.map (Real.logb b)) = Real.logb b ps.sum := by
  rw [logAddReduce_eq b hb hb1, map_rpow_logb b hb hb1 ps hp]

theorem log_mul_reduce_hom (ps : List ℝ) (hp : ∀ p ∈ ps, 0 < p) :
    logMulReduce (ps.map (Real.logb b)) = Real.logb b ps.prod := by
  have h := logMulReduce_hom b hb hb1 (ps.map (Real.logb b))
  rw [map_rpow_logb b hb hb1 ps hp] at h
  rw [← h, Real.logb_rpow hb hb1]

theorem log_normalize_hom (ps : List ℝ) (hne : ps ≠ []) (hp : ∀ p ∈ ps, 0 < p) :
    logNormalize (realBase b) (ps.map (Real.logb b)) = (linNormalize ps).map (Real.logb b) := by
  unfold logNormalize linNormalize
  rw [log_add_reduce_hom b hb hb1 ps hp, lsum_eq_sum, List.map_map, List.map_map]
  apply List.map_congr_left
  intro p h
  simp only [Function.comp]
  rw [Real.logb_div (hp p h).ne' (list_sum_pos ps hne hp).ne']

end Ops

theorem log_inv_hom (b p : ℝ) : logInv (Real.logb b p) = Real.logb b p⁻¹ :=
  (Real.logb_inv b p).symm

/-! ### The null value -/

theorem null_limit_gt_one (b : ℝ) (hb : 1 < b) : Tendsto (fun x : ℝ => b ^ x) atBot (nhds 0) :=
  tendsto_rpow_atBot_of_base_gt_one b hb

theorem null_limit_lt_one (b : ℝ) (hb : 0 < b) (hb1 : b < 1) :
    Tendsto (fun x : ℝ => b ^ x) atTop (nhds 0) :=
  tendsto_rpow_atTop_of_base_lt_one b (by linarith) hb1

theorem logAdd_null_aux (b : ℝ) (hb : 0 < b) (hb1 : b ≠ 1) (x : ℝ) (l : Filter ℝ)
    (h : Tendsto (fun y : ℝ => b ^ y) l (nhds 0)) :
    Tendsto (fun y => logAdd (realBase b) x y) l (nhds x) := by
  have h1 : Tendsto (fun y : ℝ => b ^ x + b ^ y) l (nhds (b ^ x + 0)) := tendsto_const_nhds.add h
  rw [add_zero] at h1
  have hx : b ^ x ≠ 0 := (Real.rpow_pos_of_pos hb x).ne'
  have h2 := (Real.continuousAt_logb (b := b) hx).tendsto.comp h1
  rw [Real.logb_rpow hb hb1] at h2
  exact h2

theorem logAdd_null_gt_one (b : ℝ) (hb : 1 < b) (x : ℝ) :
    Tendsto (fun y => logAdd (realBase b) x y) atBot (nhds x) :=
  logAdd_null_aux b (by linarith) hb.ne' x _ (null_limit_gt_one b hb)

theorem logAdd_null_lt_one (b : ℝ) (hb : 0 < b) (hb1 : b < 1) (x : ℝ) :
    Tendsto (fun y => logAdd (realBase b) x y) atTop (nhds x) :=
  logAdd_null_aux b hb hb1.ne x _ (null_limit_lt_one b hb hb1)

/-! ### Base changes -/

theorem rebase_chain (b c p : ℝ) (hb : 0 < b) (hb1 : b ≠ 1) :
    rebaseLogLog (Real.logb c b) (Real.logb b p) = Real.logb c p := by
  unfold rebaseLogLog
  rw [mul_comm]
  exact Real.mul_logb hb.ne' hb1 (ne_neg_one b hb hb1)

theorem rebase_measure (b c x : ℝ) (hb : 0 < b) (hc : 0 < c) (hc1 : c ≠ 1) :
    c ^ (rebaseLogLog (Real.logb c b) x) = b ^ x := by
  unfold rebaseLogLog
  rw [mul_comm, Real.rpow_mul hc.le, Real.rpow_logb hc hc1 hb]

theorem logb_mul_logb_swap (b c : ℝ) (hb : 0 < b) (hb1 : b ≠ 1) (hc : 0 < c) (hc1 : c ≠ 1) :
    Real.logb c b * Real.logb b c = 1 := by
  rw [Real.mul_logb hb.ne' hb1 (ne_neg_one b hb hb1), Real.logb_self_eq_one_iff.mpr]
  exact ⟨hc.ne', hc1, ne_neg_one c hc hc1⟩

theorem rebase_roundtrip (b c x : ℝ) (hb : 0 < b) (hb1 : b ≠ 1) (hc : 0 < c) (hc1 : c ≠ 1) :
    rebaseLogLog (Real.logb b c) (rebaseLogLog (Real.logb c b) x) = x := by
  unfold rebaseLogLog
  rw [mul_assoc, logb_mul_logb_swap b c hb hb1 hc hc1, mul_one]

theorem rebase_trans (b c d x : ℝ) (hc : 0 < c) (hc1 : c ≠ 1) :
    rebaseLogLog (Real.logb d c) (rebaseLogLog (Real.logb c b) x)
      = rebaseLogLog (Real.logb d b) x := by
  unfold rebaseLogLog
  rw [mul_assoc, mul_comm (Real.logb c b), Real.mul_logb hc.ne' hc1 (ne_neg_one c hc hc1)]

/-! ### The entropy family in base `b` -/

theorem logb_eq_div (b p : ℝ) : Real.logb b p = Real.logb 2 p / Real.logb 2 b := by
  unfold Real.logb
  have h2 : Real.log 2 ≠ 0 := Real.log_ne_zero_of_pos_of_ne_one (by norm_num) (by norm_num)
  rw [div_div_div_cancel_right₀ h2]

theorem plogp_log_scale (b p : ℝ) :
    plogp (Real.logb b) p = plogp (Real.logb 2) p / Real.logb 2 b := by
  unfold plogp
  by_cases h : p = 0
  · simp [h]
  · simp only [beq_iff_eq, h, if_false]
    rw [logb_eq_div b p, mul_div_assoc]

theorem entropy_log_scale (b : ℝ) (ps : List ℝ) :
    entropyVals (Real.logb b) ps = entropyVals (Real.logb 2) ps / Real.logb 2 b := by
  rw [entropyVals_eq_sum_plogp, entropyVals_eq_sum_plogp, neg_div,
    ← list_sum_map_div ps (plogp (Real.logb 2)) (Real.logb 2 b)]
  congr 2
  exact List.map_congr_left (fun p _ => plogp_log_scale b p)

theorem entropy_base_b_of_logs (b : ℝ) (hb : 0 < b) (hb1 : b ≠ 1) (vs : List ℝ) :
    -(vs.map (fun v => b ^ v * v)).sum = entropyVals (Real.logb b) (vs.map (fun v => b ^ v)) := by
  rw [entropyVals_eq_sum_plogp, List.map_map]
  congr 2
  apply List.map_congr_left
  intro v _
  have hv : b ^ v ≠ 0 := (Real.rpow_pos_of_pos hb v).ne'
  simp [plogp, hv, Real.logb_rpow hb hb1]

theorem entropy_of_logs (b : ℝ) (hb : 0 < b) (hb1 : b ≠ 1) (vs : List ℝ) :
    -(vs.map (fun v => b ^ v * v)).sum
      = entropyVals (Real.logb 2) (vs.map (fun v => b ^ v)) / Real.logb 2 b := by
  rw [entropy_base_b_of_logs b hb hb1, entropy_log_scale]

theorem extropy_log_scale (b : ℝ) (ps : List ℝ) :
    extropyVals (Real.logb b) ps = extropyVals (Real.logb 2) ps / Real.logb 2 b :=
  entropy_log_scale b _

/-- The code's own form of the extropy of a log distribution:
`npmf = log_b(1 − b^v)`, `terms = −b^npmf · npmf`. -/
theorem extropy_of_logs (b : ℝ) (hb : 0 < b) (hb1 : b ≠ 1) (vs : List ℝ)
    (hle : ∀ v ∈ vs, b ^ v ≤ 1) :
    -(vs.map (fun v => b ^ (Real.logb b (1 - b ^ v)) * Real.logb b (1 - b ^ v))).sum
      = extropyVals (Real.logb 2) (vs.map (fun v => b ^ v)) / Real.logb 2 b := by
  rw [← extropy_log_scale]
  unfold extropyVals
  rw [entropyVals_eq_sum_plogp, List.map_map, List.map_map]
  congr 2
  apply List.map_congr_left
  intro v hv
  simp only [Function.comp, plogp]
  rcases (hle v hv).lt_or_eq with h | h
  · have hpos : 0 < 1 - b ^ v := by linarith
    rw [Real.rpow_logb hb hb1 hpos]
    simp [hpos.ne']
  · simp [h]

theorem comb_log_scale {α : Type} [Field α] (cast : Rat → α) (H : VSet → α) (k : α) (c : Comb) :
    Comb.eval cast (fun S => H S / k) c = Comb.eval cast H c / k := by
  unfold Comb.eval
  rw [lsum_eq_sum, lsum_eq_sum]
  induction c with
  | nil => simp
  | cons r t ih => simp only [List.map_cons, List.sum_cons, ih]; ring

theorem rpow_div_log2b (b : ℝ) (hb : 0 < b) (hb1 : b ≠ 1) (E : ℝ) :
    b ^ (E / Real.logb 2 b) = (2 : ℝ) ^ E := by
  have hl : Real.logb 2 b ≠ 0 := by
    rw [Ne, Real.logb_eq_zero]
    have := ne_neg_one b hb hb1
    norm_num
    exact ⟨hb.ne', hb1, this⟩
  have h2 : ((2 : ℝ) ^ Real.logb 2 b) ^ (E / Real.logb 2 b) = (2 : ℝ) ^ E := by
    rw [← Real.rpow_mul (by norm_num), mul_div_cancel₀ E hl]
  rwa [Real.rpow_logb (by norm_num) (by norm_num) hb] at h2

theorem perplexity_base_free (b : ℝ) (hb : 0 < b) (hb1 : b ≠ 1) (ps : List ℝ) :
    b ^ (entropyVals (Real.logb b) ps) = (2 : ℝ) ^ (entropyVals (Real.logb 2) ps) := by
  rw [entropy_log_scale, rpow_div_log2b b hb hb1]

end Dit.Lemmas.LogOps
