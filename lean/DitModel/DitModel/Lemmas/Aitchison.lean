/-
Helper lemmas for C20 (non-combinatorial part): the simplex utilities of Core/Aitchison.lean
(`closure`, `perturbation`, `powering`, `clr`/`alr`/`ilr` and their inverses, the Aitchison inner
product, `convexCombination`, `replaceZeros`, `downsample`).
The algebraic facts are stated over a (linearly ordered) field; the transforms are instantiated
at `ℝ` with `realA` (`log = logb 2`, `exp = 2^·`, `sqrt = Real.sqrt`, `pow = rpow`).
Property theorems are in Props/C20.lean.
-/
import DitModel.Core.Aitchison
import DitModel.Lemmas.Table
import Mathlib.Algebra.Order.Field.Basic
import Mathlib.Algebra.BigOperators.Group.List.Basic
import Mathlib.Algebra.BigOperators.Ring.List
import Mathlib.Algebra.BigOperators.Ring.Finset
import Mathlib.Algebra.Order.BigOperators.Group.List
import Mathlib.Analysis.SpecialFunctions.Log.Base
import Mathlib.Analysis.SpecialFunctions.Pow.Real
import Mathlib.Analysis.SpecialFunctions.Sqrt
import Mathlib.Tactic.Linarith
import Mathlib.Tactic.Ring
import Mathlib.Tactic.FieldSimp
import Mathlib.Tactic.Positivity
import Mathlib.Tactic.NormNum

set_option linter.unusedSectionVars false

namespace Dit.Lemmas.Aitchison
open Dit Dit.Lemmas.Table

/-! ## `closure` over a field -/

section Closure
variable {α : Type} [Field α]

theorem closure_eq (x : List α) : closure x = x.map (· / x.sum) := by
  unfold closure; rw [lsum_eq_sum]

@[simp] theorem closure_length (x : List α) : (closure x).length = x.length := by
  simp [closure]

theorem sum_map_div (x : List α) (c : α) : (x.map (· / c)).sum = x.sum / c := by
  induction x with
  | nil => simp
  | cons a x ih => simp [ih, add_div]

theorem sum_map_mul_const (x : List α) (c : α) : (x.map (· * c)).sum = x.sum * c := by
  induction x with
  | nil => simp
  | cons a x ih => simp [ih, add_mul]

theorem closure_sum (x : List α) (h : x.sum ≠ 0) : (closure x).sum = 1 := by
  rw [closure_eq, sum_map_div, div_self h]

theorem closure_of_sum_one (x : List α) (h : x.sum = 1) : closure x = x := by
  rw [closure_eq, h]; simp

theorem closure_idem (x : List α) : closure (closure x) = closure x := by
  by_cases h : x.sum = 0
  · have e : closure x = x.map (fun _ => (0 : α)) := by
      rw [closure_eq, h]; simp
    have s : (closure x).sum = 0 := by rw [e]; simp
    rw [closure_eq (closure x), s, e]; simp
  · exact closure_of_sum_one _ (closure_sum x h)

/-- Scaling by a non-zero constant does not change the closure. -/
theorem closure_map_mul (x : List α) (c : α) (hc : c ≠ 0) :
    closure (x.map (· * c)) = closure x := by
  rw [closure_eq, closure_eq, sum_map_mul_const, List.map_map]
  apply List.map_congr_left
  intro v _
  simp only [Function.comp]
  rw [mul_div_mul_right _ _ hc]

theorem closure_map_div (x : List α) (c : α) (hc : c ≠ 0) :
    closure (x.map (· / c)) = closure x := by
  have : x.map (· / c) = x.map (· * c⁻¹) := by
    apply List.map_congr_left; intro v _; rw [div_eq_mul_inv]
  rw [this, closure_map_mul x _ (inv_ne_zero hc)]

theorem mem_closure {x : List α} {v : α} (h : v ∈ closure x) : ∃ u ∈ x, v = u / x.sum := by
  rw [closure_eq] at h
  rcases List.mem_map.mp h with ⟨u, hu, rfl⟩
  exact ⟨u, hu, rfl⟩

end Closure

section ClosureOrd
variable {α : Type} [Field α] [LinearOrder α] [IsStrictOrderedRing α]

theorem sum_pos_of_pos {x : List α} (hne : x ≠ []) (h : ∀ v ∈ x, 0 < v) : 0 < x.sum := by
  induction x with
  | nil => exact absurd rfl hne
  | cons a x ih =>
    rw [List.sum_cons]
    have ha := h a (by simp)
    by_cases hx : x = []
    · subst hx; simpa using ha
    · have := ih hx (fun v hv => h v (List.mem_cons_of_mem _ hv))
      linarith

theorem sum_nonneg_of_nonneg {x : List α} (h : ∀ v ∈ x, 0 ≤ v) : 0 ≤ x.sum := by
  induction x with
  | nil => simp
  | cons a x ih =>
    rw [List.sum_cons]
    have ha := h a (by simp)
    have := ih (fun v hv => h v (List.mem_cons_of_mem _ hv))
    linarith

theorem closure_pos {x : List α} (h : ∀ v ∈ x, 0 < v) : ∀ v ∈ closure x, 0 < v := by
  intro v hv
  obtain ⟨u, hu, rfl⟩ := mem_closure hv
  have hne : x ≠ [] := List.ne_nil_of_mem hu
  exact div_pos (h u hu) (sum_pos_of_pos hne h)

theorem closure_nonneg {x : List α} (h : ∀ v ∈ x, 0 ≤ v) : ∀ v ∈ closure x, 0 ≤ v := by
  intro v hv
  obtain ⟨u, hu, rfl⟩ := mem_closure hv
  exact div_nonneg (h u hu) (sum_nonneg_of_nonneg h)

/-- The closure of a non-empty positive vector is a point of the open simplex. -/
theorem closure_simplex {x : List α} (hne : x ≠ []) (h : ∀ v ∈ x, 0 < v) :
    (closure x).length = x.length ∧ (∀ v ∈ closure x, 0 < v) ∧ (closure x).sum = 1 :=
  ⟨closure_length x, closure_pos h, closure_sum x (ne_of_gt (sum_pos_of_pos hne h))⟩

theorem perturbation_simplex {x y : List α} (hne : x ≠ []) (hlen : x.length = y.length)
    (hx : ∀ v ∈ x, 0 < v) (hy : ∀ v ∈ y, 0 < v) :
    (perturbation x y).length = x.length ∧ (∀ v ∈ perturbation x y, 0 < v) ∧
      (perturbation x y).sum = 1 := by
  unfold perturbation
  have hz : List.zipWith (· * ·) x y ≠ [] := by
    intro e
    have := congrArg List.length e
    rw [List.length_zipWith, ← hlen] at this
    simp at this
    exact hne this
  have hpos : ∀ v ∈ List.zipWith (· * ·) x y, 0 < v := by
    intro v hv
    rcases List.mem_iff_getElem.mp hv with ⟨i, hi, rfl⟩
    rw [List.getElem_zipWith]
    rw [List.length_zipWith] at hi
    exact mul_pos (hx _ (List.getElem_mem _)) (hy _ (List.getElem_mem _))
  obtain ⟨h1, h2, h3⟩ := closure_simplex hz hpos
  refine ⟨?_, h2, h3⟩
  rw [h1, List.length_zipWith, ← hlen]; simp

end ClosureOrd

/-! ## The real instance -/

/-- The model's transcendental operations at `ℝ`: `log₂`, `2^·`, `√`, real power, cast. -/
noncomputable def realA : AOps ℝ :=
  ⟨Real.logb 2, fun y => (2 : ℝ) ^ y, Real.sqrt, fun x a => x ^ a, fun n => (n : ℝ)⟩

section RealBasics

theorem exp_log {v : ℝ} (h : 0 < v) : (2 : ℝ) ^ Real.logb 2 v = v :=
  Real.rpow_logb (by norm_num) (by norm_num) h

theorem log_exp (y : ℝ) : Real.logb 2 ((2 : ℝ) ^ y) = y :=
  Real.logb_rpow (by norm_num) (by norm_num)

theorem exp_pos (y : ℝ) : 0 < (2 : ℝ) ^ y := Real.rpow_pos_of_pos (by norm_num) y

theorem exp_sub (y z : ℝ) : (2 : ℝ) ^ (y - z) = (2 : ℝ) ^ y / (2 : ℝ) ^ z :=
  Real.rpow_sub (by norm_num) y z

theorem log_div {a b : ℝ} (ha : 0 < a) (hb : 0 < b) :
    Real.logb 2 (a / b) = Real.logb 2 a - Real.logb 2 b :=
  Real.logb_div (ne_of_gt ha) (ne_of_gt hb)

theorem log_mul {a b : ℝ} (ha : 0 < a) (hb : 0 < b) :
    Real.logb 2 (a * b) = Real.logb 2 a + Real.logb 2 b :=
  Real.logb_mul (ne_of_gt ha) (ne_of_gt hb)

theorem sum_map_sub_const {β : Type} (x : List β) (f : β → ℝ) (c : ℝ) :
    (x.map (fun v => f v - c)).sum = (x.map f).sum - x.length * c := by
  induction x with
  | nil => simp
  | cons a x ih => simp [ih]; ring

theorem map_exp_pos (y : List ℝ) : ∀ v ∈ y.map (fun t => (2 : ℝ) ^ t), 0 < v := by
  intro v hv
  rcases List.mem_map.mp hv with ⟨t, _, rfl⟩
  exact exp_pos t

/-- `powering` lands in the open simplex. -/
theorem powering_simplex {x : List ℝ} (hne : x ≠ []) (hx : ∀ v ∈ x, 0 < v) (a : ℝ) :
    (powering realA x a).length = x.length ∧ (∀ v ∈ powering realA x a, 0 < v) ∧
      (powering realA x a).sum = 1 := by
  unfold powering
  have hne' : x.map (fun v => realA.pow v a) ≠ [] := by simpa using hne
  have hpos : ∀ v ∈ x.map (fun v => realA.pow v a), 0 < v := by
    intro v hv
    rcases List.mem_map.mp hv with ⟨u, hu, rfl⟩
    exact Real.rpow_pos_of_pos (hx u hu) a
  obtain ⟨h1, h2, h3⟩ := closure_simplex hne' hpos
  exact ⟨by rw [h1]; simp, h2, h3⟩

end RealBasics

/-! ## `clr` and `alr` round trips -/

section ClrAlr

theorem logGM_eq (x : List ℝ) :
    logGM realA x = (x.map (Real.logb 2)).sum / (x.length : ℝ) := by
  unfold logGM; rw [lsum_eq_sum]; rfl

theorem clr_eq (x : List ℝ) :
    clr realA x = x.map (fun v => Real.logb 2 v - logGM realA x) := rfl

@[simp] theorem clr_length (x : List ℝ) : (clr realA x).length = x.length := by
  simp [clr]

/-- The clr coordinates sum to zero (for any input list). -/
theorem clr_sum (x : List ℝ) : (clr realA x).sum = 0 := by
  rw [clr_eq, sum_map_sub_const, logGM_eq]
  by_cases h : x = []
  · subst h; simp
  · have : (x.length : ℝ) ≠ 0 := by
      have : x.length ≠ 0 := by simpa using h
      exact_mod_cast this
    field_simp
    ring

theorem clrInv_eq (y : List ℝ) : clrInv realA y = closure (y.map (fun t => (2 : ℝ) ^ t)) := rfl

theorem clrInv_clr (x : List ℝ) (hx : ∀ v ∈ x, 0 < v) : clrInv realA (clr realA x) = closure x := by
  rw [clrInv_eq, clr_eq, List.map_map]
  have e : x.map ((fun t => (2 : ℝ) ^ t) ∘ fun v => Real.logb 2 v - logGM realA x)
      = x.map (· / (2 : ℝ) ^ logGM realA x) := by
    apply List.map_congr_left
    intro v hv
    simp only [Function.comp]
    rw [exp_sub, exp_log (hx v hv)]
  rw [e, closure_map_div x _ (ne_of_gt (exp_pos _))]

/-- clr of `(2^t / S)_t` is the centred vector `t − mean`. -/
theorem clr_map_exp_div (y : List ℝ) (S : ℝ) (hS : 0 < S) :
    clr realA (y.map (fun t => (2 : ℝ) ^ t / S))
      = y.map (fun t => t - y.sum / (y.length : ℝ)) := by
  by_cases hne : y = []
  · subst hne; simp [clr]
  have hn : (y.length : ℝ) ≠ 0 := by
    have : y.length ≠ 0 := by simpa using hne
    exact_mod_cast this
  have hl : ∀ t : ℝ, Real.logb 2 ((2 : ℝ) ^ t / S) = t - Real.logb 2 S := by
    intro t; rw [log_div (exp_pos t) hS, log_exp]
  have hg : logGM realA (y.map (fun t => (2 : ℝ) ^ t / S))
      = y.sum / (y.length : ℝ) - Real.logb 2 S := by
    rw [logGM_eq, List.map_map]
    have : y.map (Real.logb 2 ∘ fun t => (2 : ℝ) ^ t / S)
        = y.map (fun t => id t - Real.logb 2 S) := by
      apply List.map_congr_left; intro t _; simp only [Function.comp, hl, id]
    rw [this, sum_map_sub_const, List.length_map, List.map_id]
    field_simp
  rw [clr_eq, hg, List.map_map]
  apply List.map_congr_left
  intro t _
  simp only [Function.comp, hl]
  ring

theorem clr_clrInv (y : List ℝ) (hy : y.sum = 0) : clr realA (clrInv realA y) = y := by
  by_cases hne : y = []
  · subst hne; simp [clr, clrInv, closure]
  rw [clrInv_eq, closure_eq, List.map_map]
  have hS : 0 < (y.map (fun t => (2 : ℝ) ^ t)).sum :=
    sum_pos_of_pos (by simpa using hne) (map_exp_pos y)
  have := clr_map_exp_div y _ hS
  simp only [Function.comp_def]
  rw [this, hy]
  simp

theorem alr_concat (init : List ℝ) (l : ℝ) :
    alr realA (init ++ [l]) = init.map (fun v => Real.logb 2 v - Real.logb 2 l) := by
  unfold alr
  simp only [List.getLast?_append, List.getLast?_singleton, Option.some_or, List.dropLast_concat]
  rfl

theorem alrInv_eq (y : List ℝ) :
    alrInv realA y = closure (y.map (fun t => (2 : ℝ) ^ t) ++ [1]) := rfl

theorem alrInv_alr (x : List ℝ) (hne : x ≠ []) (hx : ∀ v ∈ x, 0 < v) :
    alrInv realA (alr realA x) = closure x := by
  rcases List.eq_nil_or_concat x with h | ⟨init, l, rfl⟩
  · exact absurd h hne
  rw [List.concat_eq_append] at hx ⊢
  have hl : 0 < l := hx l (by simp)
  rw [alr_concat, alrInv_eq, List.map_map]
  have e : init.map ((fun t => (2 : ℝ) ^ t) ∘ fun v => Real.logb 2 v - Real.logb 2 l) ++ [1]
      = (init ++ [l]).map (· / l) := by
    rw [List.map_append]
    congr 1
    · apply List.map_congr_left
      intro v hv
      simp only [Function.comp]
      rw [exp_sub, exp_log (hx v (by simp [hv])), exp_log hl]
    · simp [div_self (ne_of_gt hl)]
  rw [e, closure_map_div _ _ (ne_of_gt hl)]

theorem alr_alrInv (y : List ℝ) : alr realA (alrInv realA y) = y := by
  rw [alrInv_eq, closure_eq]
  set S := (y.map (fun t => (2 : ℝ) ^ t) ++ [1]).sum with hSdef
  have hS : 0 < S := sum_pos_of_pos (by simp) (by
    intro v hv
    rcases List.mem_append.mp hv with h | h
    · exact map_exp_pos y v h
    · simp at h; subst h; norm_num)
  rw [List.map_append, List.map_map]
  show alr realA (_ ++ [1 / S]) = y
  rw [alr_concat, List.map_map]
  conv_rhs => rw [← List.map_id y]
  apply List.map_congr_left
  intro t _
  simp only [Function.comp, id]
  rw [log_div (exp_pos t) hS, log_exp, log_div one_pos hS, Real.logb_one]
  ring

end ClrAlr

/-! ## `convexCombination` -/

section Convex
variable {α : Type} [Field α] [LinearOrder α] [IsStrictOrderedRing α]

theorem range_map_getD (l : List α) : (List.range l.length).map (fun j => l.getD j 0) = l := by
  apply List.ext_getElem
  · simp
  · intro i h1 h2
    simp [List.getD_eq_getElem?_getD, List.getElem?_eq_getElem h2]

theorem getD_nonneg {l : List α} (h : ∀ v ∈ l, 0 ≤ v) (j : Nat) : 0 ≤ l.getD j 0 := by
  rw [List.getD_eq_getElem?_getD]
  by_cases hj : j < l.length
  · rw [List.getElem?_eq_getElem hj]; exact h _ (List.getElem_mem hj)
  · rw [List.getElem?_eq_none (by omega)]; simp

theorem convex_cons (p : List α) (ps : List (List α)) (w : List α) :
    convexCombination (p :: ps) w = (List.range p.length).map (fun j =>
      (List.zipWith (fun pm wi => pm.getD j 0 * wi) (p :: ps) (closure w)).sum) := by
  simp only [convexCombination, lsum_eq_sum]

/-- Exchange of the two summations in a weighted sum of columns. -/
theorem sum_range_zipWith (N : Nat) (ps : List (List α)) (ws : List α) :
    ((List.range N).map (fun j => (List.zipWith (fun pm wi => pm.getD j 0 * wi) ps ws).sum)).sum
      = (List.zipWith (fun pm wi => ((List.range N).map (fun j => pm.getD j 0)).sum * wi) ps ws).sum := by
  induction ps generalizing ws with
  | nil => simp
  | cons p ps ih =>
    cases ws with
    | nil => simp
    | cons w ws =>
      simp only [List.zipWith_cons_cons, List.sum_cons]
      rw [List.sum_map_add, ih ws, List.sum_map_mul_right]

theorem sum_zipWith_of_one {β : Type} (F : β → α) (ps : List β) (ws : List α)
    (hF : ∀ pm ∈ ps, F pm = 1) (hlen : ps.length = ws.length) :
    (List.zipWith (fun pm wi => F pm * wi) ps ws).sum = ws.sum := by
  induction ps generalizing ws with
  | nil =>
    have : ws = [] := by simpa using hlen.symm
    subst this; simp
  | cons p ps ih =>
    cases ws with
    | nil => simp at hlen
    | cons w ws =>
      simp only [List.zipWith_cons_cons, List.sum_cons]
      rw [hF p (by simp), one_mul, ih ws (fun pm h => hF pm (List.mem_cons_of_mem _ h))
        (by simpa using hlen)]

theorem sum_zipWith_nonneg {β : Type} (F : β → α) (ps : List β) (ws : List α)
    (hF : ∀ pm ∈ ps, 0 ≤ F pm) (hw : ∀ v ∈ ws, 0 ≤ v) :
    0 ≤ (List.zipWith (fun pm wi => F pm * wi) ps ws).sum := by
  induction ps generalizing ws with
  | nil => simp
  | cons p ps ih =>
    cases ws with
    | nil => simp
    | cons w ws =>
      simp only [List.zipWith_cons_cons, List.sum_cons]
      have h1 := hF p (by simp)
      have h2 := hw w (by simp)
      have h3 := ih ws (fun pm h => hF pm (List.mem_cons_of_mem _ h))
        (fun v h => hw v (List.mem_cons_of_mem _ h))
      have := mul_nonneg h1 h2
      linarith

theorem convex_sum (p : List α) (ps : List (List α)) (w : List α)
    (hws : w.sum ≠ 0) (hlen : (p :: ps).length = w.length)
    (hN : ∀ pm ∈ p :: ps, pm.length = p.length) (h1 : ∀ pm ∈ p :: ps, pm.sum = 1) :
    (convexCombination (p :: ps) w).sum = 1 := by
  rw [convex_cons, sum_range_zipWith]
  refine (sum_zipWith_of_one
    (fun pm : List α => ((List.range p.length).map (fun j => pm.getD j 0)).sum)
    (p :: ps) (closure w) ?_ ?_).trans ?_
  rotate_left 2
  · exact closure_sum w hws
  · intro pm hpm
    show ((List.range p.length).map (fun j => pm.getD j 0)).sum = 1
    rw [← hN pm hpm, range_map_getD, h1 pm hpm]
  · rw [closure_length]; exact hlen

theorem convex_nonneg (p : List α) (ps : List (List α)) (w : List α)
    (hw : ∀ v ∈ w, 0 ≤ v) (hnn : ∀ pm ∈ p :: ps, ∀ v ∈ pm, 0 ≤ v) :
    ∀ v ∈ convexCombination (p :: ps) w, 0 ≤ v := by
  intro v hv
  rw [convex_cons] at hv
  rcases List.mem_map.mp hv with ⟨j, _, rfl⟩
  exact sum_zipWith_nonneg (fun pm => pm.getD j 0) _ _
    (fun pm hpm => getD_nonneg (hnn pm hpm) j) (closure_nonneg hw)

theorem convex_getD (p : List α) (ps : List (List α)) (w : List α) (j : Nat) (hj : j < p.length) :
    (convexCombination (p :: ps) w).getD j 0
      = (List.zipWith (fun pm wi => wi / w.sum * pm.getD j 0) (p :: ps) w).sum := by
  rw [convex_cons, List.getD_eq_getElem?_getD, List.getElem?_eq_getElem (by simpa using hj)]
  simp only [List.getElem_map, List.getElem_range, Option.getD_some]
  rw [closure_eq, List.zipWith_map_right]
  have e : (fun (a : List α) (b : α) => a.getD j 0 * (b / w.sum))
      = (fun (pm : List α) (wi : α) => wi / w.sum * pm.getD j 0) := by
    funext a b; ring
  rw [e]

end Convex

/-! ## `replaceZeros` -/

section ReplaceZeros
variable {α : Type} [Field α] [LinearOrder α] [IsStrictOrderedRing α]

/-- Number of zero entries. -/
def zc (pmf : List α) : Nat := (pmf.filter (· == 0)).length

theorem zc_nil : zc ([] : List α) = 0 := rfl

theorem zc_cons (p : α) (ps : List α) : zc (p :: ps) = (if p = 0 then 1 else 0) + zc ps := by
  unfold zc
  by_cases h : p = 0
  · simp [h]; omega
  · simp [h]

/-- What the fold of `replaceZeros` computes, for a fixed scale `c` and replacement stream. -/
def rzSpec (c : α) : List α → List α → List α
  | [], _ => []
  | p :: ps, us =>
    if p = 0 then
      match us with
      | r :: rs => r :: rzSpec c ps rs
      | [] => p :: rzSpec c ps []
    else (p * c) :: rzSpec c ps us

theorem rz_fold (c : α) (pmf acc us : List α) :
    (pmf.foldl (fun (acc : List α × List α) p =>
      if p == 0 then
        match acc.2 with
        | r :: rs => (acc.1 ++ [r], rs)
        | [] => (acc.1 ++ [p], [])
      else (acc.1 ++ [p * c], acc.2)) (acc, us)).1 = acc ++ rzSpec c pmf us := by
  induction pmf generalizing acc us with
  | nil => simp [rzSpec]
  | cons p ps ih =>
    rw [List.foldl_cons]
    by_cases hp : p = 0
    · cases us with
      | nil => simp only [hp, beq_self_eq_true, if_true, ih, rzSpec]; simp
      | cons r rs => simp only [hp, beq_self_eq_true, if_true, ih, rzSpec]; simp
    · have : (p == 0) = false := by simpa using hp
      simp only [this, Bool.false_eq_true, if_false, ih, rzSpec, hp]; simp

theorem replaceZeros_eq (pmf repl : List α) :
    replaceZeros pmf repl
      = rzSpec (1 - (repl.take (zc pmf)).sum) pmf (repl.take (zc pmf)) := by
  unfold replaceZeros
  simp only [lsum_eq_sum]
  exact (rz_fold _ pmf [] _).trans (by simp [zc])

theorem rzSpec_length (c : α) (pmf us : List α) : (rzSpec c pmf us).length = pmf.length := by
  induction pmf generalizing us with
  | nil => simp [rzSpec]
  | cons p ps ih =>
    unfold rzSpec
    by_cases hp : p = 0
    · cases us <;> simp [hp, ih]
    · simp [hp, ih]

theorem rzSpec_sum (c : α) (pmf us : List α) (h : us.length = zc pmf) :
    (rzSpec c pmf us).sum = us.sum + pmf.sum * c := by
  induction pmf generalizing us with
  | nil =>
    have : us = [] := by simpa [zc_nil] using h
    subst this; simp [rzSpec]
  | cons p ps ih =>
    rw [zc_cons] at h
    unfold rzSpec
    by_cases hp : p = 0
    · simp only [hp, if_true] at h ⊢
      cases us with
      | nil => simp at h; omega
      | cons r rs =>
        simp only [List.sum_cons, List.length_cons] at h ⊢
        rw [ih rs (by omega)]; ring
    · simp only [hp, if_false, List.sum_cons, zero_add] at h ⊢
      rw [ih us h]; ring

theorem rzSpec_getD (c : α) (pmf us : List α) (h : zc pmf ≤ us.length) (j : Nat)
    (hj : j < pmf.length) :
    (rzSpec c pmf us).getD j 0
      = if pmf.getD j 0 = 0 then us.getD (zc (pmf.take j)) 0 else pmf.getD j 0 * c := by
  induction pmf generalizing us j with
  | nil => simp at hj
  | cons p ps ih =>
    rw [zc_cons] at h
    unfold rzSpec
    by_cases hp : p = 0
    · simp only [hp, if_true] at h ⊢
      cases us with
      | nil => simp at h
      | cons r rs =>
        cases j with
        | zero => simp [zc_nil]
        | succ j =>
          simp only [List.length_cons] at h hj
          have := ih rs (by omega) j (by omega)
          simp only [List.getD_cons_succ, List.take_succ_cons, this, zc_cons, if_true]
          rw [Nat.add_comm 1, List.getD_cons_succ]
    · simp only [hp, if_false, zero_add] at h ⊢
      cases j with
      | zero => simp [hp]
      | succ j =>
        simp only [List.length_cons] at hj
        have := ih us h j (by omega)
        simp only [List.getD_cons_succ, List.take_succ_cons, this, zc_cons, hp, if_false, zero_add]

theorem rzSpec_pos (c : α) (hc : 0 < c) (pmf us : List α) (h : zc pmf ≤ us.length)
    (hus : ∀ r ∈ us, 0 < r) (hnn : ∀ v ∈ pmf, 0 ≤ v) : ∀ v ∈ rzSpec c pmf us, 0 < v := by
  induction pmf generalizing us with
  | nil => simp [rzSpec]
  | cons p ps ih =>
    rw [zc_cons] at h
    have hps : ∀ v ∈ ps, 0 ≤ v := fun v hv => hnn v (List.mem_cons_of_mem _ hv)
    unfold rzSpec
    by_cases hp : p = 0
    · simp only [hp, if_true] at h ⊢
      cases us with
      | nil => simp at h
      | cons r rs =>
        simp only [List.length_cons] at h
        intro v hv
        rcases List.mem_cons.mp hv with e | hv
        · subst e; exact hus _ (by simp)
        · exact ih rs (by omega) (fun r hr => hus r (List.mem_cons_of_mem _ hr)) hps v hv
    · simp only [hp, if_false, zero_add] at h ⊢
      intro v hv
      rcases List.mem_cons.mp hv with e | hv
      · subst e
        have : 0 < p := lt_of_le_of_ne (hnn p (by simp)) (Ne.symm hp)
        exact mul_pos this hc
      · exact ih us h hus hps v hv

theorem zc_take_lt (pmf : List α) (j : Nat) (hj : j < pmf.length) (h0 : pmf.getD j 0 = 0) :
    zc (pmf.take j) < zc pmf := by
  induction pmf generalizing j with
  | nil => simp at hj
  | cons p ps ih =>
    cases j with
    | zero =>
      have : p = 0 := by simpa using h0
      simp [zc_cons, zc_nil, this]
    | succ j =>
      simp only [List.length_cons] at hj
      have := ih j (by omega) (by simpa using h0)
      simp only [List.take_succ_cons, zc_cons]; omega

end ReplaceZeros

/-! ## The clr-basis `ubasis` as a function of two indices -/

section UB
open Finset

/-- The common factor `sqrt(i/(i+1))` of row `i`. -/
noncomputable def sc (i : ℕ) : ℝ := Real.sqrt ((i : ℝ) / ((i + 1 : ℕ) : ℝ))

/-- Entry `j` of row `i` of `ubasis` (it does not depend on the number of columns). -/
noncomputable def ub (i j : ℕ) : ℝ :=
  sc i * (if j < i then 1 / (i : ℝ) else if j = i then -1 else 0)

theorem sc_sq (i : ℕ) : sc i * sc i = (i : ℝ) / ((i : ℝ) + 1) := by
  unfold sc
  rw [Real.mul_self_sqrt (by positivity)]
  push_cast; rfl

theorem ub_lt {i j : ℕ} (h : j < i) : ub i j = sc i * (1 / (i : ℝ)) := by
  simp [ub, h]

theorem ub_self (i : ℕ) : ub i i = - sc i := by
  simp [ub]

theorem ub_gt {i j : ℕ} (h : i < j) : ub i j = 0 := by
  have h1 : ¬ j < i := by omega
  have h2 : ¬ j = i := by omega
  simp [ub, h1, h2]

/-- Pairing a vector with row `i`: the scaled difference between the mean of the first `i`
coordinates and coordinate `i`. -/
theorem sum_mul_ub (f : ℕ → ℝ) (i N : ℕ) (hN : i < N) :
    ∑ j ∈ range N, f j * ub i j = sc i * ((∑ j ∈ range i, f j) / (i : ℝ) - f i) := by
  induction N, (show i + 1 ≤ N from hN) using Nat.le_induction with
  | base =>
    rw [sum_range_succ, ub_self]
    have : ∑ j ∈ range i, f j * ub i j = ∑ j ∈ range i, f j * (sc i * (1 / (i : ℝ))) :=
      sum_congr rfl (fun j hj => by rw [ub_lt (mem_range.mp hj)])
    rw [this, ← sum_mul]
    ring
  | succ N hle ih =>
    rw [sum_range_succ, ih (by omega), ub_gt (by omega)]
    ring

theorem ub_sum_zero (i N : ℕ) (hi : 1 ≤ i) (hN : i < N) : ∑ j ∈ range N, ub i j = 0 := by
  have := sum_mul_ub (fun _ => 1) i N hN
  simp only [one_mul, sum_const, card_range, nsmul_eq_mul, mul_one] at this
  rw [this]
  have : (i : ℝ) ≠ 0 := by
    have : i ≠ 0 := by omega
    exact_mod_cast this
  rw [div_self this]; ring

theorem ub_orth_self (i N : ℕ) (hi : 1 ≤ i) (hN : i < N) :
    ∑ j ∈ range N, ub i j * ub i j = 1 := by
  rw [sum_mul_ub (ub i) i N hN, ub_self]
  have : ∑ j ∈ range i, ub i j = ∑ j ∈ range i, sc i * (1 / (i : ℝ)) :=
    sum_congr rfl (fun j hj => by rw [ub_lt (mem_range.mp hj)])
  rw [this, sum_const, card_range, nsmul_eq_mul]
  have hi0 : (i : ℝ) ≠ 0 := by
    have : i ≠ 0 := by omega
    exact_mod_cast this
  have hi1 : (i : ℝ) + 1 ≠ 0 := by positivity
  have e : sc i * ((i : ℝ) * (sc i * (1 / (i : ℝ))) / (i : ℝ) - -sc i)
      = (sc i * sc i) * (1 / (i : ℝ) + 1) := by
    field_simp
    ring
  rw [e, sc_sq]
  field_simp
  ring

theorem ub_orth_lt (i' i N : ℕ) (hi' : 1 ≤ i') (h : i' < i) (hN : i < N) :
    ∑ j ∈ range N, ub i' j * ub i j = 0 := by
  rw [sum_mul_ub (ub i') i N hN, ub_sum_zero i' i hi' h, ub_gt h]
  simp

/-- **Orthonormality** of the rows `1..N-1` in `ℝ^N`. -/
theorem ub_orth (i i' N : ℕ) (hi : 1 ≤ i) (hi' : 1 ≤ i') (hN : i < N) (hN' : i' < N) :
    ∑ j ∈ range N, ub i j * ub i' j = if i = i' then 1 else 0 := by
  rcases Nat.lt_trichotomy i i' with h | h | h
  · rw [if_neg (by omega)]; exact ub_orth_lt i i' N hi h hN'
  · subst h; rw [if_pos rfl]; exact ub_orth_self i N hi hN
  · rw [if_neg (by omega)]
    have := ub_orth_lt i' i N hi' h hN
    rw [← this]
    exact sum_congr rfl (fun j _ => mul_comm _ _)

/-- **Completeness**: the rows `1..n` span the orthogonal complement of `(1,…,1)` in
`ℝ^(n+1)`. -/
theorem ub_complete (n j j' : ℕ) (hj : j ≤ n) (hj' : j' ≤ n) :
    ∑ k ∈ range n, ub (k + 1) j * ub (k + 1) j'
      = (if j = j' then 1 else 0) - 1 / ((n : ℝ) + 1) := by
  induction n with
  | zero =>
    have h1 : j = 0 := by omega
    have h2 : j' = 0 := by omega
    subst h1; subst h2; simp
  | succ n ih =>
    rw [sum_range_succ]
    have hn1 : (n : ℝ) + 1 ≠ 0 := by positivity
    have hn2 : (n : ℝ) + 1 + 1 ≠ 0 := by positivity
    have hsq : sc (n + 1) * sc (n + 1) = ((n : ℝ) + 1) / ((n : ℝ) + 1 + 1) := by
      rw [sc_sq]; push_cast; rfl
    have hvan : ∀ g : ℕ → ℝ, ∑ k ∈ range n, ub (k + 1) (n + 1) * g k = 0 := by
      intro g
      apply sum_eq_zero
      intro k hk
      have := mem_range.mp hk
      rw [ub_gt (by omega)]; ring
    rcases Nat.lt_or_ge j (n + 1) with hjl | hjg
    · rcases Nat.lt_or_ge j' (n + 1) with hjl' | hjg'
      · rw [ih (by omega) (by omega), ub_lt hjl, ub_lt hjl']
        have e : sc (n + 1) * (1 / ((n + 1 : ℕ) : ℝ)) * (sc (n + 1) * (1 / ((n + 1 : ℕ) : ℝ)))
            = (sc (n + 1) * sc (n + 1)) * (1 / ((n : ℝ) + 1)) * (1 / ((n : ℝ) + 1)) := by
          push_cast; ring
        rw [e, hsq]
        push_cast
        field_simp
        ring
      · have e : j' = n + 1 := by omega
        subst e
        have hne : ¬ j = n + 1 := by omega
        have h0 : ∑ k ∈ range n, ub (k + 1) j * ub (k + 1) (n + 1) = 0 := by
          rw [← hvan (fun k => ub (k + 1) j)]
          exact sum_congr rfl (fun k _ => mul_comm _ _)
        rw [h0, ub_lt hjl, ub_self, if_neg hne]
        have e : sc (n + 1) * (1 / ((n + 1 : ℕ) : ℝ)) * -sc (n + 1)
            = -((sc (n + 1) * sc (n + 1)) * (1 / ((n : ℝ) + 1))) := by
          push_cast; ring
        rw [e, hsq]
        push_cast
        field_simp
        ring
    · have e : j = n + 1 := by omega
      subst e
      rw [hvan (fun k => ub (k + 1) j')]
      rcases Nat.lt_or_ge j' (n + 1) with hjl' | hjg'
      · have hne : ¬ n + 1 = j' := by omega
        rw [ub_lt hjl', ub_self, if_neg hne]
        have e : -sc (n + 1) * (sc (n + 1) * (1 / ((n + 1 : ℕ) : ℝ)))
            = -((sc (n + 1) * sc (n + 1)) * (1 / ((n : ℝ) + 1))) := by
          push_cast; ring
        rw [e, hsq]
        push_cast
        field_simp
        ring
      · have e : j' = n + 1 := by omega
        subst e
        rw [ub_self, if_pos rfl]
        have e : -sc (n + 1) * -sc (n + 1) = sc (n + 1) * sc (n + 1) := by ring
        rw [e, hsq]
        push_cast
        field_simp
        ring

/-- Expanding in the basis and re-assembling gives the centred vector. -/
theorem proj_complete (L : ℕ → ℝ) (n j : ℕ) (hj : j ≤ n) :
    ∑ k ∈ range n, (∑ j' ∈ range (n + 1), L j' * ub (k + 1) j') * ub (k + 1) j
      = L j - (∑ j' ∈ range (n + 1), L j') / ((n : ℝ) + 1) := by
  have e1 : ∀ k ∈ range n, (∑ j' ∈ range (n + 1), L j' * ub (k + 1) j') * ub (k + 1) j
      = ∑ j' ∈ range (n + 1), L j' * (ub (k + 1) j' * ub (k + 1) j) := by
    intro k _
    rw [sum_mul]
    exact sum_congr rfl (fun j' _ => by ring)
  rw [sum_congr rfl e1, sum_comm]
  have e2 : ∀ j' ∈ range (n + 1), ∑ k ∈ range n, L j' * (ub (k + 1) j' * ub (k + 1) j)
      = L j' * (if j' = j then 1 else 0) - L j' * (1 / ((n : ℝ) + 1)) := by
    intro j' hj'
    have := mem_range.mp hj'
    rw [← mul_sum, ub_complete n j' j (by omega) hj]
    ring
  rw [sum_congr rfl e2, sum_sub_distrib, ← sum_mul]
  simp only [mul_ite, mul_one, mul_zero]
  rw [sum_ite_eq' (range (n + 1)) j L, if_pos (mem_range.mpr (by omega))]
  ring

/-- The coordinates of `Σ_k y_k u_k` in the basis are the `y_k`. -/
theorem proj_orth (y : ℕ → ℝ) (n k : ℕ) (hk : k < n) :
    ∑ j ∈ range (n + 1), (∑ k' ∈ range n, y k' * ub (k' + 1) j) * ub (k + 1) j = y k := by
  have e1 : ∀ j ∈ range (n + 1), (∑ k' ∈ range n, y k' * ub (k' + 1) j) * ub (k + 1) j
      = ∑ k' ∈ range n, y k' * (ub (k' + 1) j * ub (k + 1) j) := by
    intro j _
    rw [sum_mul]
    exact sum_congr rfl (fun k' _ => by ring)
  rw [sum_congr rfl e1, sum_comm]
  have e2 : ∀ k' ∈ range n, ∑ j ∈ range (n + 1), y k' * (ub (k' + 1) j * ub (k + 1) j)
      = y k' * (if k' = k then 1 else 0) := by
    intro k' hk'
    have := mem_range.mp hk'
    rw [← mul_sum, ub_orth (k' + 1) (k + 1) (n + 1) (by omega) (by omega) (by omega) (by omega)]
    simp
  rw [sum_congr rfl e2]
  simp only [mul_ite, mul_one, mul_zero]
  rw [sum_ite_eq' (range n) k y, if_pos (mem_range.mpr hk)]

/-- **Parseval**: the coordinates in the basis preserve the inner product of centred vectors. -/
theorem parseval (a b : ℕ → ℝ) (n : ℕ) :
    ∑ k ∈ range n, (∑ j ∈ range (n + 1), a j * ub (k + 1) j)
        * (∑ j ∈ range (n + 1), b j * ub (k + 1) j)
      = ∑ j ∈ range (n + 1), a j * b j
        - (∑ j ∈ range (n + 1), a j) * (∑ j ∈ range (n + 1), b j) / ((n : ℝ) + 1) := by
  have e1 : ∀ k ∈ range n, (∑ j ∈ range (n + 1), a j * ub (k + 1) j)
        * (∑ j ∈ range (n + 1), b j * ub (k + 1) j)
      = ∑ j ∈ range (n + 1), b j * ((∑ j' ∈ range (n + 1), a j' * ub (k + 1) j') * ub (k + 1) j) := by
    intro k _
    rw [mul_sum]
    exact sum_congr rfl (fun j _ => by ring)
  rw [sum_congr rfl e1, sum_comm]
  have e2 : ∀ j ∈ range (n + 1),
      ∑ k ∈ range n, b j * ((∑ j' ∈ range (n + 1), a j' * ub (k + 1) j') * ub (k + 1) j)
      = a j * b j - b j * ((∑ j' ∈ range (n + 1), a j') / ((n : ℝ) + 1)) := by
    intro j hj
    have := mem_range.mp hj
    rw [← mul_sum, proj_complete a n j (by omega)]
    ring
  rw [sum_congr rfl e2, sum_sub_distrib, ← sum_mul]
  ring

end UB

/-! ## Lists as `(List.range N).map f` and the `ilr` transform -/

section Ilr
open Finset

theorem sum_range_map (f : ℕ → ℝ) (n : ℕ) :
    ((List.range n).map f).sum = ∑ k ∈ range n, f k := by
  induction n with
  | zero => simp
  | succ n ih => rw [List.range_succ, List.map_append, List.sum_append, ih, sum_range_succ]; simp

theorem getD_range_map (f : ℕ → ℝ) {N j : ℕ} (h : j < N) :
    ((List.range N).map f).getD j 0 = f j := by
  rw [List.getD_eq_getElem?_getD, List.getElem?_eq_getElem (by simpa using h)]
  simp

theorem zipWith_range_map (op : ℝ → ℝ → ℝ) (f g : ℕ → ℝ) (N : ℕ) :
    List.zipWith op ((List.range N).map f) ((List.range N).map g)
      = (List.range N).map (fun j => op (f j) (g j)) := by
  apply List.ext_getElem
  · simp
  · intro i h1 h2; simp

theorem list_eq_range_map (x : List ℝ) :
    x = (List.range x.length).map (fun j => x.getD j 0) := (range_map_getD x).symm

theorem map_eq_range_map (x : List ℝ) (g : ℝ → ℝ) :
    x.map g = (List.range x.length).map (fun j => g (x.getD j 0)) := by
  conv_lhs => rw [list_eq_range_map x, List.map_map]
  rfl

theorem sum_take_map (x : List ℝ) (g : ℝ → ℝ) (i : ℕ) (hi : i ≤ x.length) :
    ((x.take i).map g).sum = ∑ j ∈ range i, g (x.getD j 0) := by
  induction i with
  | zero => simp
  | succ i ih =>
    have hlt : i < x.length := by omega
    rw [List.take_succ_eq_append_getElem hlt, List.map_append, List.sum_append, ih (by omega),
      sum_range_succ]
    simp [List.getD_eq_getElem?_getD, List.getElem?_eq_getElem hlt]

theorem dot_eq (x y : List ℝ) : dot x y = (List.zipWith (· * ·) x y).sum := by
  unfold dot; rw [lsum_eq_sum]

theorem dot_range_map (f g : ℕ → ℝ) (N : ℕ) :
    dot ((List.range N).map f) ((List.range N).map g) = ∑ j ∈ range N, f j * g j := by
  rw [dot_eq, zipWith_range_map, sum_range_map]

theorem ubasisRow_eq (n i : ℕ) : ubasisRow realA n i = (List.range (n + 1)).map (ub i) := rfl

theorem ubasisRow_getD (n i j : ℕ) (hj : j ≤ n) : (ubasisRow realA n i).getD j 0 = ub i j := by
  rw [ubasisRow_eq, getD_range_map _ (by omega)]

/-- The rows of `ubasis(n)` are orthonormal. -/
theorem ubasis_orthonormal (n i i' : ℕ) (hi : 1 ≤ i) (hin : i ≤ n) (hi' : 1 ≤ i') (hin' : i' ≤ n) :
    dot (ubasisRow realA n i) (ubasisRow realA n i') = if i = i' then 1 else 0 := by
  rw [ubasisRow_eq, ubasisRow_eq, dot_range_map]
  exact ub_orth i i' (n + 1) hi hi' (by omega) (by omega)

/-- Each row of `ubasis(n)` sums to zero. -/
theorem ubasis_sum_zero (n i : ℕ) (hi : 1 ≤ i) (hin : i ≤ n) : (ubasisRow realA n i).sum = 0 := by
  rw [ubasisRow_eq, sum_range_map]
  exact ub_sum_zero i (n + 1) hi (by omega)

/-- `log₂` of the `j`-th entry. -/
noncomputable def Lg (x : List ℝ) (j : ℕ) : ℝ := Real.logb 2 (x.getD j 0)

theorem logGM_eq_sum (x : List ℝ) :
    logGM realA x = (∑ j ∈ range x.length, Lg x j) / (x.length : ℝ) := by
  rw [logGM_eq, map_eq_range_map, sum_range_map]; rfl

theorem clr_range (x : List ℝ) :
    clr realA x = (List.range x.length).map (fun j => Lg x j - logGM realA x) := by
  rw [clr_eq, map_eq_range_map]; rfl

/-- `ilr` coordinate `k` is the pairing of the log vector with row `k+1`. -/
theorem ilr_eq_log (x : List ℝ) :
    ilr realA x = (List.range (x.length - 1)).map (fun k =>
      ∑ j ∈ range x.length, Lg x j * ub (k + 1) j) := by
  unfold ilr
  apply List.map_congr_left
  intro k hk
  have hk' : k + 1 < x.length := by
    have := List.mem_range.mp hk; omega
  rw [sum_mul_ub (Lg x) (k + 1) x.length hk']
  simp only [lsum_eq_sum]
  rw [sum_take_map x realA.log (k + 1) (by omega)]
  rfl

/-- … and equally the pairing of the clr vector with row `k+1` (rows sum to zero). -/
theorem ilr_eq_clr (x : List ℝ) :
    ilr realA x = (List.range (x.length - 1)).map (fun k =>
      ∑ j ∈ range x.length, (Lg x j - logGM realA x) * ub (k + 1) j) := by
  rw [ilr_eq_log]
  apply List.map_congr_left
  intro k hk
  have hk' : k + 1 < x.length := by
    have := List.mem_range.mp hk; omega
  have e : ∀ j ∈ range x.length, (Lg x j - logGM realA x) * ub (k + 1) j
      = Lg x j * ub (k + 1) j - logGM realA x * ub (k + 1) j := fun j _ => by ring
  rw [sum_congr rfl e, sum_sub_distrib, ← mul_sum, ub_sum_zero (k + 1) x.length (by omega) hk']
  ring

@[simp] theorem ilr_length (x : List ℝ) : (ilr realA x).length = x.length - 1 := by
  simp [ilr]

theorem ilr_eq_dot (x : List ℝ) :
    ilr realA x = (List.range (x.length - 1)).map (fun k =>
      dot (clr realA x) (ubasisRow realA (x.length - 1) (k + 1))) := by
  rw [ilr_eq_clr]
  apply List.map_congr_left
  intro k hk
  have hk' : k + 1 < x.length := by
    have := List.mem_range.mp hk; omega
  have hN : x.length - 1 + 1 = x.length := by omega
  rw [clr_range, ubasisRow_eq, hN, dot_range_map]

/-- The linear combination `Σ_k y_k · u_k` of `ilrInv`, as a `range`-indexed list of finite sums. -/
theorem ilrInv_arg_eq (y : List ℝ) :
    (List.range (y.length + 1)).map (fun j =>
      lsum ((List.range y.length).map (fun k =>
        y.getD k 0 * (ubasisRow realA y.length (k + 1)).getD j 0)))
    = (List.range (y.length + 1)).map (fun j =>
      ∑ k ∈ range y.length, y.getD k 0 * ub (k + 1) j) := by
  apply List.map_congr_left
  intro j hj
  have hj' : j ≤ y.length := by
    have := List.mem_range.mp hj; omega
  rw [lsum_eq_sum, sum_range_map]
  exact sum_congr rfl (fun k _ => by rw [ubasisRow_getD _ _ _ hj'])

theorem ilrInv_eq (y : List ℝ) :
    ilrInv realA y = clrInv realA ((List.range (y.length + 1)).map (fun j =>
      ∑ k ∈ range y.length, y.getD k 0 * ub (k + 1) j)) := by
  rw [← ilrInv_arg_eq]; rfl

/-- `clr x = Σ_k ilr(x)_k · u_k`. -/
theorem sum_ilr_ubasis (x : List ℝ) (hne : x ≠ []) :
    (List.range ((ilr realA x).length + 1)).map (fun j =>
      ∑ k ∈ range (ilr realA x).length, (ilr realA x).getD k 0 * ub (k + 1) j) = clr realA x := by
  have hpos : 0 < x.length := List.length_pos_iff.mpr hne
  obtain ⟨n, hn⟩ : ∃ n, x.length = n + 1 := ⟨x.length - 1, by omega⟩
  rw [ilr_length, clr_range, hn, Nat.add_sub_cancel]
  apply List.map_congr_left
  intro j hj
  have hj' : j ≤ n := by
    have := List.mem_range.mp hj; omega
  have e : ∀ k ∈ range n, (ilr realA x).getD k 0 * ub (k + 1) j
      = (∑ j' ∈ range (n + 1), Lg x j' * ub (k + 1) j') * ub (k + 1) j := by
    intro k hk
    rw [ilr_eq_log, hn, Nat.add_sub_cancel, getD_range_map _ (mem_range.mp hk)]
  rw [sum_congr rfl e, proj_complete (Lg x) n j hj', logGM_eq_sum, hn]
  push_cast; rfl

theorem ilrInv_ilr (x : List ℝ) (hne : x ≠ []) (hx : ∀ v ∈ x, 0 < v) :
    ilrInv realA (ilr realA x) = closure x := by
  rw [ilrInv_eq, sum_ilr_ubasis x hne, clrInv_clr x hx]

theorem ilr_ilrInv (y : List ℝ) : ilr realA (ilrInv realA y) = y := by
  rw [ilrInv_eq, clrInv_eq, closure_eq]
  set n := y.length with hn
  set z : ℕ → ℝ := fun j => ∑ k ∈ range n, y.getD k 0 * ub (k + 1) j with hz
  set S := (((List.range (n + 1)).map z).map (fun t => (2 : ℝ) ^ t)).sum with hS
  have hSpos : 0 < S := sum_pos_of_pos (by simp) (map_exp_pos _)
  have hw : (((List.range (n + 1)).map z).map (fun t => (2 : ℝ) ^ t)).map (· / S)
      = (List.range (n + 1)).map (fun j => (2 : ℝ) ^ z j / S) := by
    simp [List.map_map, Function.comp_def]
  rw [hw, ilr_eq_log]
  simp only [List.length_map, List.length_range, Nat.add_sub_cancel]
  conv_rhs => rw [list_eq_range_map y]
  apply List.map_congr_left
  intro k hk
  have hk' : k < n := List.mem_range.mp hk
  have e : ∀ j ∈ range (n + 1),
      Lg ((List.range (n + 1)).map (fun j => (2 : ℝ) ^ z j / S)) j * ub (k + 1) j
        = z j * ub (k + 1) j - Real.logb 2 S * ub (k + 1) j := by
    intro j hj
    unfold Lg
    rw [getD_range_map _ (mem_range.mp hj), log_div (exp_pos _) hSpos, log_exp]
    ring
  rw [sum_congr rfl e, sum_sub_distrib, ← mul_sum,
    ub_sum_zero (k + 1) (n + 1) (by omega) (by omega), mul_zero, sub_zero]
  exact proj_orth (fun k => y.getD k 0) n k hk'

/-- `ilrInv` maps every real vector into the open simplex. -/
theorem ilrInv_simplex (y : List ℝ) :
    (ilrInv realA y).length = y.length + 1 ∧ (∀ v ∈ ilrInv realA y, 0 < v) ∧
      (ilrInv realA y).sum = 1 := by
  rw [ilrInv_eq, clrInv_eq]
  have hne : ((List.range (y.length + 1)).map (fun j =>
      ∑ k ∈ range y.length, y.getD k 0 * ub (k + 1) j)).map (fun t => (2 : ℝ) ^ t) ≠ [] := by
    simp
  obtain ⟨h1, h2, h3⟩ := closure_simplex hne (map_exp_pos _)
  exact ⟨by rw [h1]; simp, h2, h3⟩

end Ilr

/-! ## `ilr` is an isometry -/

section Isometry
open Finset

theorem sum_centred (x : List ℝ) : ∑ j ∈ range x.length, (Lg x j - logGM realA x) = 0 := by
  have := clr_sum x
  rwa [clr_range, sum_range_map] at this

/-- The Aitchison inner product is the Euclidean inner product of the ilr coordinates. -/
theorem ainner_eq_dot_ilr (x y : List ℝ) (hlen : x.length = y.length) :
    ainner realA x y = dot (ilr realA x) (ilr realA y) := by
  show dot (clr realA x) (clr realA y) = _
  rcases Nat.eq_zero_or_pos x.length with h0 | hpos
  · have hx : x = [] := List.length_eq_zero_iff.mp h0
    have hy : y = [] := List.length_eq_zero_iff.mp (hlen ▸ h0)
    subst hx; subst hy
    simp [dot, clr, ilr, lsum]
  obtain ⟨n, hn⟩ : ∃ n, x.length = n + 1 := ⟨x.length - 1, by omega⟩
  have hn' : y.length = n + 1 := hlen ▸ hn
  have sx := sum_centred x
  have sy := sum_centred y
  rw [clr_range, clr_range, ilr_eq_clr, ilr_eq_clr]
  rw [hn] at sx ⊢
  rw [hn'] at sy ⊢
  rw [Nat.add_sub_cancel, dot_range_map, dot_range_map, parseval, sx, sy]
  simp

theorem getD_lt {l : List ℝ} {j : ℕ} (h : j < l.length) : l.getD j 0 = l[j] := by
  rw [List.getD_eq_getElem?_getD, List.getElem?_eq_getElem h]; rfl

theorem getD_pos {l : List ℝ} (hl : ∀ v ∈ l, 0 < v) {j : ℕ} (h : j < l.length) :
    0 < l.getD j 0 := by
  rw [getD_lt h]; exact hl _ (List.getElem_mem h)

/-- clr of a vector whose logs are `a_j − c`. -/
theorem clr_of_Lg (w : List ℝ) (a : ℕ → ℝ) (c : ℝ) (h : ∀ j, j < w.length → Lg w j = a j - c) :
    clr realA w = (List.range w.length).map (fun j =>
      a j - (∑ j ∈ range w.length, a j) / (w.length : ℝ)) := by
  rw [clr_range, logGM_eq_sum]
  rcases Nat.eq_zero_or_pos w.length with h0 | hpos
  · rw [h0]; simp
  have hN : (w.length : ℝ) ≠ 0 := by
    have : w.length ≠ 0 := by omega
    exact_mod_cast this
  apply List.map_congr_left
  intro j hj
  have hj' := List.mem_range.mp hj
  have e : ∀ j ∈ range w.length, Lg w j = a j - c := fun j hj => h j (mem_range.mp hj)
  rw [sum_congr rfl e, sum_sub_distrib, sum_const, card_range, nsmul_eq_mul, h j hj']
  field_simp
  ring

theorem Lg_map_div (u : List ℝ) (S : ℝ) (hS : 0 < S) (hu : ∀ v ∈ u, 0 < v) (j : ℕ)
    (hj : j < u.length) : Lg (u.map (· / S)) j = Lg u j - Real.logb 2 S := by
  unfold Lg
  rw [getD_lt (by simpa using hj), List.getElem_map, getD_lt hj,
    log_div (hu _ (List.getElem_mem hj)) hS]

theorem clr_perturbation (x y : List ℝ) (hne : x ≠ []) (hlen : x.length = y.length)
    (hx : ∀ v ∈ x, 0 < v) (hy : ∀ v ∈ y, 0 < v) :
    clr realA (perturbation x y) = List.zipWith (· + ·) (clr realA x) (clr realA y) := by
  have hzl : (List.zipWith (· * ·) x y).length = x.length := by
    rw [List.length_zipWith, ← hlen]; simp
  have hzpos : ∀ v ∈ List.zipWith (· * ·) x y, 0 < v := by
    intro v hv
    rcases List.mem_iff_getElem.mp hv with ⟨i, hi, rfl⟩
    rw [List.getElem_zipWith]
    exact mul_pos (hx _ (List.getElem_mem _)) (hy _ (List.getElem_mem _))
  have hzne : List.zipWith (· * ·) x y ≠ [] := by
    intro e; rw [e] at hzl; exact hne (List.length_eq_zero_iff.mp hzl.symm)
  have hS : 0 < (List.zipWith (· * ·) x y).sum := sum_pos_of_pos hzne hzpos
  have hL : ∀ j, j < (perturbation x y).length →
      Lg (perturbation x y) j = (Lg x j + Lg y j) - Real.logb 2 (List.zipWith (· * ·) x y).sum := by
    intro j hj
    have hj' : j < x.length := by
      rw [perturbation, closure_length, hzl] at hj; exact hj
    have hj'' : j < y.length := hlen ▸ hj'
    rw [perturbation, closure_eq, Lg_map_div _ _ hS hzpos j (by omega)]
    congr 1
    unfold Lg
    rw [getD_lt (by omega), List.getElem_zipWith, getD_lt hj', getD_lt hj'',
      log_mul (hx _ (List.getElem_mem _)) (hy _ (List.getElem_mem _))]
  have hpl : (perturbation x y).length = x.length := by
    rw [perturbation, closure_length, hzl]
  rw [clr_of_Lg _ _ _ hL, hpl, clr_range x, clr_range y, ← hlen, zipWith_range_map,
    logGM_eq_sum, logGM_eq_sum, ← hlen, sum_add_distrib]
  apply List.map_congr_left
  intro j _
  ring

theorem clr_powering (x : List ℝ) (a : ℝ) (hne : x ≠ []) (hx : ∀ v ∈ x, 0 < v) :
    clr realA (powering realA x a) = (clr realA x).map (a * ·) := by
  have hml : (x.map (fun v => realA.pow v a)).length = x.length := by simp
  have hmpos : ∀ v ∈ x.map (fun v => realA.pow v a), 0 < v := by
    intro v hv
    rcases List.mem_map.mp hv with ⟨u, hu, rfl⟩
    exact Real.rpow_pos_of_pos (hx u hu) a
  have hS : 0 < (x.map (fun v => realA.pow v a)).sum :=
    sum_pos_of_pos (by simpa using hne) hmpos
  have hpl : (powering realA x a).length = x.length := by
    rw [powering, closure_length, hml]
  have hL : ∀ j, j < (powering realA x a).length →
      Lg (powering realA x a) j = a * Lg x j - Real.logb 2 (x.map (fun v => realA.pow v a)).sum := by
    intro j hj
    rw [hpl] at hj
    rw [powering, closure_eq, Lg_map_div _ _ hS hmpos j (by omega)]
    congr 1
    unfold Lg
    rw [getD_lt (by omega), List.getElem_map, getD_lt hj]
    exact Real.logb_rpow_eq_mul_logb_of_pos (hx _ (List.getElem_mem hj))
  rw [clr_of_Lg _ _ _ hL, hpl, clr_range x, List.map_map, logGM_eq_sum, ← mul_sum]
  apply List.map_congr_left
  intro j _
  simp only [Function.comp]
  ring

theorem ilr_of_clr (p : List ℝ) (c : ℕ → ℝ) (h : clr realA p = (List.range p.length).map c) :
    ilr realA p = (List.range (p.length - 1)).map (fun k =>
      ∑ j ∈ range p.length, c j * ub (k + 1) j) := by
  rw [ilr_eq_clr]
  apply List.map_congr_left
  intro k _
  apply sum_congr rfl
  intro j hj
  have hj' := mem_range.mp hj
  have : (clr realA p).getD j 0 = c j := by rw [h, getD_range_map _ hj']
  rw [clr_range, getD_range_map _ hj'] at this
  rw [this]

/-- ilr turns perturbation by the inverse into subtraction. -/
theorem ilr_sub (x y : List ℝ) (hne : x ≠ []) (hlen : x.length = y.length)
    (hx : ∀ v ∈ x, 0 < v) (hy : ∀ v ∈ y, 0 < v) :
    ilr realA (perturbation x (powering realA y (-1)))
      = List.zipWith (· - ·) (ilr realA x) (ilr realA y) := by
  have hney : y ≠ [] := by
    intro e; rw [e] at hlen; exact hne (List.length_eq_zero_iff.mp hlen)
  obtain ⟨hql, hqpos, _⟩ := powering_simplex hney hy (-1)
  have hlen' : x.length = (powering realA y (-1)).length := by rw [hql, hlen]
  obtain ⟨hpl, _, _⟩ := perturbation_simplex hne hlen' hx hqpos
  have hc : clr realA (perturbation x (powering realA y (-1)))
      = (List.range (perturbation x (powering realA y (-1))).length).map (fun j =>
          (Lg x j - logGM realA x) + (-1) * (Lg y j - logGM realA y)) := by
    rw [clr_perturbation x _ hne hlen' hx hqpos, clr_powering y (-1) hney hy, clr_range x,
      clr_range y, List.map_map, ← hlen, zipWith_range_map, hpl]
    rfl
  rw [ilr_of_clr _ _ hc, hpl, ilr_eq_clr x, ilr_eq_clr y, ← hlen, zipWith_range_map]
  apply List.map_congr_left
  intro k _
  rw [← sum_sub_distrib]
  exact sum_congr rfl (fun j _ => by ring)

theorem adist_eq (x y : List ℝ) (hne : x ≠ []) (hlen : x.length = y.length)
    (hx : ∀ v ∈ x, 0 < v) (hy : ∀ v ∈ y, 0 < v) :
    adist realA x y = Real.sqrt (dot (List.zipWith (· - ·) (ilr realA x) (ilr realA y))
      (List.zipWith (· - ·) (ilr realA x) (ilr realA y))) := by
  show Real.sqrt (ainner realA _ _) = _
  rw [ainner_eq_dot_ilr _ _ rfl, ilr_sub x y hne hlen hx hy]

end Isometry

/-! ## `snapNum` and `downsample` -/

section Downsample
variable {α : Type} [Field α] [LinearOrder α] [IsStrictOrderedRing α]

/-- The fold of `snapNum`: the last `k < n` with `P k`, or `0`. -/
def lastSat (P : ℕ → Prop) [DecidablePred P] (n : ℕ) : ℕ :=
  (List.range n).foldl (fun best k => if P k then k else best) 0

theorem lastSat_succ (P : ℕ → Prop) [DecidablePred P] (n : ℕ) :
    lastSat P (n + 1) = if P n then n else lastSat P n := by
  unfold lastSat
  rw [List.range_succ, List.foldl_append]; rfl

theorem lastSat_le (P : ℕ → Prop) [DecidablePred P] (n : ℕ) : lastSat P (n + 1) ≤ n := by
  induction n with
  | zero => rw [lastSat_succ]; split <;> simp [lastSat]
  | succ n ih => rw [lastSat_succ]; split <;> omega

theorem lastSat_sat (P : ℕ → Prop) [DecidablePred P] (h0 : P 0) (n : ℕ) : P (lastSat P n) := by
  induction n with
  | zero => simpa [lastSat] using h0
  | succ n ih => rw [lastSat_succ]; split <;> assumption

theorem lastSat_max (P : ℕ → Prop) [DecidablePred P] (n k : ℕ) (hk : k < n) (hP : P k) :
    k ≤ lastSat P n := by
  induction n with
  | zero => omega
  | succ n ih =>
    rw [lastSat_succ]
    split
    · omega
    · rename_i hn
      have : k ≠ n := fun e => hn (e ▸ hP)
      exact ih (by omega)

theorem snapNum_eq (m : ℕ) (p : α) :
    snapNum (Nat.cast : ℕ → α) m p =
      (let lower := lastSat (fun k : ℕ => (k : α) / (m : α) ≤ p) (m + 1)
       let upper := if lower < m then lower + 1 else lower
       if (upper : α) / (m : α) - p < p - (lower : α) / (m : α) then upper else lower) := rfl

theorem ite_le_of {c : Prop} [Decidable c] {a b n : ℕ} (ha : a ≤ n) (hb : b ≤ n) :
    (if c then a else b) ≤ n := by
  split <;> assumption

theorem snapNum_le (m : ℕ) (p : α) : snapNum (Nat.cast : ℕ → α) m p ≤ m := by
  rw [snapNum_eq]
  have hl := lastSat_le (fun k : ℕ => (k : α) / (m : α) ≤ p) m
  set lower := lastSat (fun k : ℕ => (k : α) / (m : α) ≤ p) (m + 1) with hlow
  simp only
  by_cases hlm : lower < m
  · rw [if_pos hlm]; exact ite_le_of (by omega) hl
  · rw [if_neg hlm]; exact ite_le_of hl hl

theorem cast_div_le_iff (m : ℕ) (hm : 1 ≤ m) (a b : ℕ) :
    (a : α) / (m : α) ≤ (b : α) / (m : α) ↔ a ≤ b := by
  have hm' : (0 : α) < (m : α) := by exact_mod_cast hm
  rw [div_le_div_iff_of_pos_right hm', Nat.cast_le]

/-- A value at most the grid point `K/m` is never snapped above it. -/
theorem snapNum_le_of_le (m : ℕ) (hm : 1 ≤ m) (p : α) (hp : 0 ≤ p) (K : ℕ)
    (hpK : p ≤ (K : α) / (m : α)) : snapNum (Nat.cast : ℕ → α) m p ≤ K := by
  rw [snapNum_eq]
  have hm' : (0 : α) < (m : α) := by exact_mod_cast hm
  set lower := lastSat (fun k : ℕ => (k : α) / (m : α) ≤ p) (m + 1) with hlow
  have hsat : (lower : α) / (m : α) ≤ p :=
    lastSat_sat (fun k : ℕ => (k : α) / (m : α) ≤ p) (by simpa using hp) (m + 1)
  have hlK : lower ≤ K := (cast_div_le_iff m hm lower K).mp (le_trans hsat hpK)
  simp only
  by_cases hlm : lower < m
  · rw [if_pos hlm]
    by_cases hlt : ((lower + 1 : ℕ) : α) / (m : α) - p < p - (lower : α) / (m : α)
    · rw [if_pos hlt]
      by_contra hcon
      have e : lower = K := by omega
      have hpe : p = (lower : α) / (m : α) := le_antisymm (by rw [e]; exact hpK) hsat
      have h1 : ((lower + 1 : ℕ) : α) / (m : α) - p = 1 / (m : α) := by
        rw [hpe]; push_cast; ring
      have h2 : p - (lower : α) / (m : α) = 0 := by rw [hpe]; ring
      rw [h1, h2] at hlt
      have : (0 : α) < 1 / (m : α) := by positivity
      exact absurd hlt (not_lt.mpr (le_of_lt this))
    · rw [if_neg hlt]; exact hlK
  · rw [if_neg hlm]
    exact ite_le_of hlK hlK

/-- A grid point is snapped to itself. -/
theorem snapNum_grid (m : ℕ) (hm : 1 ≤ m) (K : ℕ) (hK : K ≤ m) :
    snapNum (Nat.cast : ℕ → α) m ((K : α) / (m : α)) = K := by
  rw [snapNum_eq]
  have hm' : (0 : α) < (m : α) := by exact_mod_cast hm
  set lower := lastSat (fun k : ℕ => (k : α) / (m : α) ≤ (K : α) / (m : α)) (m + 1) with hlow
  have hsat : (lower : α) / (m : α) ≤ (K : α) / (m : α) :=
    lastSat_sat (fun k : ℕ => (k : α) / (m : α) ≤ (K : α) / (m : α))
      (by simp only [Nat.cast_zero, zero_div]; positivity) (m + 1)
  have h1 : lower ≤ K := (cast_div_le_iff m hm lower K).mp hsat
  have h2 : K ≤ lower :=
    lastSat_max (fun k : ℕ => (k : α) / (m : α) ≤ (K : α) / (m : α)) (m + 1) K (by omega) le_rfl
  have e : lower = K := by omega
  simp only
  rw [e, sub_self]
  have hU : (K : α) / (m : α) ≤ ((if K < m then K + 1 else K : ℕ) : α) / (m : α) := by
    rw [cast_div_le_iff m hm]; split <;> omega
  rw [if_neg (not_lt.mpr (sub_nonneg.mpr hU))]

theorem sum_map_zero' {β : Type} (l : List β) : (l.map (fun _ => (0 : α))).sum = 0 := by
  induction l with
  | nil => rfl
  | cons a l ih => simp

theorem downsampleGo_length (m fuel : ℕ) (xs : List α) (prev : α) :
    (downsampleGo (Nat.cast : ℕ → α) m fuel xs prev).length = xs.length := by
  induction fuel generalizing xs prev with
  | zero => rw [downsampleGo]
  | succ fuel ih =>
    match xs with
    | [] => rw [downsampleGo]
    | [p] => rw [downsampleGo]
    | p :: q :: rest =>
      rw [downsampleGo]
      · simp only [List.length_cons, ih]
        split <;> simp
      · simp

/-- Invariant of the `downsample` loop: with the snapped prefix worth `P/m` and the rest a
non-negative vector completing it to 1, the output lies on the grid and completes `P/m` to 1. -/
theorem downsampleGo_spec (m : ℕ) (hm : 1 ≤ m) (fuel : ℕ) (xs : List α) (P : ℕ)
    (hfuel : xs.length ≤ fuel) (hP : P ≤ m) (hnn : ∀ v ∈ xs, 0 ≤ v)
    (hsum : (P : α) / (m : α) + xs.sum = 1) :
    (downsampleGo (Nat.cast : ℕ → α) m fuel xs ((P : α) / (m : α))).length = xs.length ∧
    (∀ v ∈ downsampleGo (Nat.cast : ℕ → α) m fuel xs ((P : α) / (m : α)),
      ∃ k : ℕ, k ≤ m ∧ v = (k : α) / (m : α)) ∧
    (P : α) / (m : α) + (downsampleGo (Nat.cast : ℕ → α) m fuel xs ((P : α) / (m : α))).sum = 1 := by
  have hm' : (0 : α) < (m : α) := by exact_mod_cast hm
  have hm0 : (m : α) ≠ 0 := ne_of_gt hm'
  induction fuel generalizing xs P with
  | zero =>
    have : xs = [] := List.length_eq_zero_iff.mp (by omega)
    subst this
    have e : downsampleGo (Nat.cast : ℕ → α) m 0 [] ((P : α) / (m : α)) = [] := by
      rw [downsampleGo]
    rw [e]
    exact ⟨rfl, by simp, hsum⟩
  | succ fuel ih =>
    match xs, hfuel, hnn, hsum with
    | [], _, _, hsum =>
      have e : downsampleGo (Nat.cast : ℕ → α) m (fuel + 1) [] ((P : α) / (m : α)) = [] := by
        rw [downsampleGo]
      rw [e]
      exact ⟨rfl, by simp, hsum⟩
    | [p], _, _, hsum =>
      have e : downsampleGo (Nat.cast : ℕ → α) m (fuel + 1) [p] ((P : α) / (m : α)) = [p] := by
        rw [downsampleGo]
      rw [e]
      refine ⟨rfl, ?_, hsum⟩
      intro v hv
      have hv' : v = p := by simpa using hv
      subst hv'
      refine ⟨m - P, by omega, ?_⟩
      rw [Nat.cast_sub hP, sub_div, div_self hm0]
      simp at hsum
      linarith
    | p :: q :: rest, hfuel, hnn, hsum =>
      have hp0 : 0 ≤ p := hnn p (by simp)
      have hrnn : ∀ v ∈ q :: rest, 0 ≤ v := fun v hv => hnn v (List.mem_cons_of_mem _ hv)
      have htot : 0 ≤ (q :: rest).sum := sum_nonneg_of_nonneg hrnn
      have hsum' : (P : α) / (m : α) + (p + (q :: rest).sum) = 1 := by
        simpa using hsum
      have hK : ((m - P : ℕ) : α) / (m : α) = 1 - (P : α) / (m : α) := by
        rw [Nat.cast_sub hP, sub_div, div_self hm0]
      have hpK : p ≤ ((m - P : ℕ) : α) / (m : α) := by rw [hK]; linarith
      set k := snapNum (Nat.cast : ℕ → α) m p with hk
      have hkK : k ≤ m - P := snapNum_le_of_le m hm p hp0 (m - P) hpK
      have hprev : (P : α) / (m : α) + (k : α) / (m : α) = ((P + k : ℕ) : α) / (m : α) := by
        push_cast; ring
      have hle1 : ((P + k : ℕ) : α) / (m : α) ≤ 1 := by
        rw [div_le_one hm']; exact_mod_cast (show P + k ≤ m by omega)
      -- the rescaled rest
      obtain ⟨rest', hrest'⟩ : ∃ r : List α, r =
        if 1 - ((P + k : ℕ) : α) / (m : α) ≤ 0 then (q :: rest).map (fun _ => (0 : α))
        else (q :: rest).map (fun v => v * ((1 - ((P + k : ℕ) : α) / (m : α)) / (q :: rest).sum)) :=
        ⟨_, rfl⟩
      have hgo : downsampleGo (Nat.cast : ℕ → α) m (fuel + 1) (p :: q :: rest) ((P : α) / (m : α))
          = ((k : α) / (m : α)) ::
              downsampleGo (Nat.cast : ℕ → α) m fuel rest' (((P + k : ℕ) : α) / (m : α)) := by
        rw [hrest', downsampleGo]
        · simp only [lsum_eq_sum]
          rw [← hk, hprev]
        · simp
      rw [hgo]
      have hlen' : rest'.length = (q :: rest).length := by
        rw [hrest']; split <;> simp
      have hspec : (∀ v ∈ rest', 0 ≤ v) ∧ ((P + k : ℕ) : α) / (m : α) + rest'.sum = 1 := by
        rw [hrest']
        split
        · rename_i hc
          refine ⟨?_, ?_⟩
          · intro v hv
            rcases List.mem_map.mp hv with ⟨_, _, rfl⟩
            exact le_rfl
          · rw [sum_map_zero']; linarith
        · rename_i hc
          have hc' : 0 < 1 - ((P + k : ℕ) : α) / (m : α) := not_le.mp hc
          have htne : (q :: rest).sum ≠ 0 := by
            intro h0
            -- then `p` is the grid point `(m-P)/m`, snapped to itself, and nothing is left
            have hpe : p = ((m - P : ℕ) : α) / (m : α) := by rw [hK]; linarith
            have hke : k = m - P := by rw [hk, hpe]; exact snapNum_grid m hm (m - P) (by omega)
            have : P + k = m := by omega
            rw [this, div_self hm0, sub_self] at hc'
            exact lt_irrefl _ hc'
          have htpos : 0 < (q :: rest).sum := lt_of_le_of_ne htot (Ne.symm htne)
          refine ⟨?_, ?_⟩
          · intro v hv
            rcases List.mem_map.mp hv with ⟨u, hu, rfl⟩
            exact mul_nonneg (hrnn u hu) (le_of_lt (div_pos hc' htpos))
          · rw [sum_map_mul_const, mul_div_cancel₀ _ htne]; ring
      obtain ⟨h1, h2, h3⟩ := ih rest' (P + k) (by rw [hlen']; simpa using hfuel) (by omega)
        hspec.1 hspec.2
      refine ⟨?_, ?_, ?_⟩
      · rw [List.length_cons, h1, hlen']; rfl
      · intro v hv
        rcases List.mem_cons.mp hv with e | hv
        · exact ⟨k, by omega, e⟩
        · exact h2 v hv
      · rw [List.sum_cons, ← add_assoc, hprev]; exact h3

end Downsample

end Dit.Lemmas.Aitchison
