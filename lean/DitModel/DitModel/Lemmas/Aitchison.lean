/-
Helper lemmas for C20 (non-combinatorial part): the simplex utilities of Core/Aitchison.lean
(`closure`, `perturbation`, `powering`, `clr`/`alr`/`ilr` and their inverses, the Aitchison inner
product, `convexCombination`, `replaceZeros`, `downsample`).
The algebraic facts are stated over a (linearly ordered) field; the transforms are instantiated
at `ℝ` with `realA` (`log = logb 2`, `exp = 2^·`, `sqrt = Real.sqrt`, `pow = rpow`).
Property theorems are in Props/C20.lean.
-/
import DitModel.Core.Aitchison
import DitModel.Lemmas.Table
import Mathlib.Algebra.Order.Field.Basic
import Mathlib.Algebra.BigOperators.Group.List.Basic
import Mathlib.Algebra.BigOperators.Ring.List
import Mathlib.Algebra.BigOperators.Ring.Finset
import Mathlib.Algebra.Order.BigOperators.Group.List
import Mathlib.Analysis.SpecialFunctions.Log.Base
import Mathlib.Analysis.SpecialFunctions.Pow.Real
import Mathlib.Analysis.SpecialFunctions.Sqrt
import Mathlib.Tactic.Linarith
import Mathlib.Tactic.Ring
import Mathlib.Tactic.FieldSimp
import Mathlib.Tactic.Positivity
import Mathlib.Tactic.NormNum

set_option linter.unusedSectionVars false

namespace Dit.Lemmas.Aitchison
open Dit Dit.Lemmas.Table

/-! ## `closure` over a field -/

section Closure
variable {α : Type} [Field α]

theorem closure_eq (x : List α) : closure x = x.map (· / x.sum) := by
  unfold closure; rw [lsum_eq_sum]

@[simp] theorem closure_length (x : List α) : (closure x).length = x.length := by
  simp [closure]

theorem sum_map_div (x : List α) (c : α) : (x.map (· / c)).sum = x.sum / c := by
  induction x with
  | nil => simp
  | cons a x ih => simp [ih, add_div]

theorem sum_map_mul_const (x : List α) (c : α) : (x.map (· * c)).sum = x.sum * c := by
  induction x with
  | nil => simp
  | cons a x ih => simp [ih, add_mul]

theorem closure_sum (x : List α) (h : x.sum ≠ 0) : (closure x).sum = 1 := by
  rw [closure_eq, sum_map_div, div_self h]

theorem closure_of_sum_one (x : List α) (h : x.sum = 1) : closure x = x := by
  rw [closure_eq, h]; simp

theorem closure_idem (x : List α) : closure (closure x) = closure x := by
  by_cases h : x.sum = 0
  · have e : closure x = x.map (fun _ => (0 : α)) := by
      rw [closure_eq, h]; simp
    have s : (closure x).sum = 0 := by rw [e]; simp
    rw [closure_eq (closure x), s, e]; simp
  · exact closure_of_sum_one _ (closure_sum x h)

/-- Scaling by a non-zero constant does not change the closure. -/
theorem closure_map_mul (x : List α) (c : α) (hc : c ≠ 0) :
    closure (x.map (· * c)) = closure x := by
  rw [closure_eq, closure_eq, sum_map_mul_const, List.map_map]
  apply List.map_congr_left
  intro v _
  simp only [Function.comp]
  rw [mul_div_mul_right _ _ hc]

theorem closure_map_div (x : List α) (c : α) (hc : c ≠ 0) :
    closure (x.map (· / c)) = closure x := by
  have : x.map (· / c) = x.map (· * c⁻¹) := by
    apply List.map_congr_left; intro v _; rw [div_eq_mul_inv]
  rw [this, closure_map_mul x _ (inv_ne_zero hc)]

theorem mem_closure {x : List α} {v : α} (h : v ∈ closure x) : ∃ u ∈ x, v = u / x.sum := by
  rw [closure_eq] at h
  rcases List.mem_map.mp h with ⟨u, hu, rfl⟩
  exact ⟨u, hu, rfl⟩

end Closure

section ClosureOrd
variable {α : Type} [Field α] [LinearOrder α] [IsStrictOrderedRing α]

theorem sum_pos_of_pos {x : List α} (hne : x ≠ []) (h : ∀ v ∈ x, 0 < v) : 0 < x.sum := by
  induction x with
  | nil => exact absurd rfl hne
  | cons a x ih =>
    rw [List.sum_cons]
    have ha := h a (by simp)
    by_cases hx : x = []
    · subst hx; simpa using ha
    · have := ih hx (fun v hv => h v (List.mem_cons_of_mem _ hv))
      linarith

theorem sum_nonneg_of_nonneg {x : List α} (h : ∀ v ∈ x, 0 ≤ v) : 0 ≤ x.sum := by
  induction x with
  | nil => simp
  | cons a x ih =>
    rw [List.sum_cons]
    have ha := h a (by simp)
    have := ih (fun v hv => h v (List.mem_cons_of_mem _ hv))
    linarith

theorem closure_pos {x : List α} (h : ∀ v ∈ x, 0 < v) : ∀ v ∈ closure x, 0 < v := by
  intro v hv
  obtain ⟨u, hu, rfl⟩ := mem_closure hv
  have hne : x ≠ [] := List.ne_nil_of_mem hu
  exact div_pos (h u hu) (sum_pos_of_pos hne h)

theorem closure_nonneg {x : List α} (h : ∀ v ∈ x, 0 ≤ v) : ∀ v ∈ closure x, 0 ≤ v := by
  intro v hv
  obtain ⟨u, hu, rfl⟩ := mem_closure hv
  exact div_nonneg (h u hu) (sum_nonneg_of_nonneg h)

/-- The closure of a non-empty positive vector is a point of the open simplex. -/
theorem closure_simplex {x : List α} (hne : x ≠ []) (h : ∀ v ∈ x, 0 < v) :
    (closure x).length = x.length ∧ (∀ v ∈ closure x, 0 < v) ∧ (closure x).sum = 1 :=
  ⟨closure_length x, closure_pos h, closure_sum x (ne_of_gt (sum_pos_of_pos hne h))⟩

theorem perturbation_simplex {x y : List α} (hne : x ≠ []) (hlen : x.length = y.length)
    (hx : ∀ v ∈ x, 0 < v) (hy : ∀ v ∈ y, 0 < v) :
    (perturbation x y).length = x.length ∧ (∀ v ∈ perturbation x y, 0 < v) ∧
      (perturbation x y).sum = 1 := by
  unfold perturbation
  have hz : List.zipWith (· * ·) x y ≠ [] := by
    intro e
    have := congrArg List.length e
    rw [List.length_zipWith, ← hlen] at this
    simp at this
    exact hne this
  have hpos : ∀ v ∈ List.zipWith (· * ·) x y, 0 < v := by
    intro v hv
    rcases List.mem_iff_getElem.mp hv with ⟨i, hi, rfl⟩
    rw [List.getElem_zipWith]
    rw [List.length_zipWith] at hi
    exact mul_pos (hx _ (List.getElem_mem _)) (hy _ (List.getElem_mem _))
  obtain ⟨h1, h2, h3⟩ := closure_simplex hz hpos
  refine ⟨?_, h2, h3⟩
  rw [h1, List.length_zipWith, ← hlen]; simp

end ClosureOrd

/-! ## The real instance -/

/-- The model's transcendental operations at `ℝ`: `log₂`, `2^·`, `√`, real power, cast. -/
noncomputable def realA : AOps ℝ :=
  ⟨Real.logb 2, fun y => (2 : ℝ) ^ y, Real.sqrt, fun x a => x ^ a, fun n => (n : ℝ)⟩

section RealBasics

theorem exp_log {v : ℝ} (h : 0 < v) : (2 : ℝ) ^ Real.logb 2 v = v :=
  Real.rpow_logb (by norm_num) (by norm_num) h

theorem log_exp (y : ℝ) : Real.logb 2 ((2 : ℝ) ^ y) = y :=
  Real.logb_rpow (by norm_num) (by norm_num)

theorem exp_pos (y : ℝ) : 0 < (2 : ℝ) ^ y := Real.rpow_pos_of_pos (by norm_num) y

theorem exp_sub (y z : ℝ) : (2 : ℝ) ^ (y - z) = (2 : ℝ) ^ y / (2 : ℝ) ^ z :=
  Real.rpow_sub (by norm_num) y z

theorem log_div {a b : ℝ} (ha : 0 < a) (hb : 0 < b) :
    Real.logb 2 (a / b) = Real.logb 2 a - Real.logb 2 b :=
  Real.logb_div (ne_of_gt ha) (ne_of_gt hb)

theorem log_mul {a b : ℝ} (ha : 0 < a) (hb : 0 < b) :
    Real.logb 2 (a * b) = Real.logb 2 a + Real.logb 2 b :=
  Real.logb_mul (ne_of_gt ha) (ne_of_gt hb)

theorem sum_map_sub_const {β : Type} (x : List β) (f : β → ℝ) (c : ℝ) :
    (x.map (fun v => f v - c)).sum = (x.map f).sum - x.length * c := by
  induction x with
  | nil => simp
  | cons a x ih => simp [ih]; ring

theorem map_exp_pos (y : List ℝ) : ∀ v ∈ y.map (fun t => (2 : ℝ) ^ t), 0 < v := by
  intro v hv
  rcases List.mem_map.mp hv with ⟨t, _, rfl⟩
  exact exp_pos t

/-- `powering` lands in the open simplex. -/
theorem powering_simplex {x : List ℝ} (hne : x ≠ []) (hx : ∀ v ∈ x, 0 < v) (a : ℝ) :
    (powering realA x a).length = x.length ∧ (∀ v ∈ powering realA x a, 0 < v) ∧
      (powering realA x a).sum = 1 := by
  unfold powering
  have hne' : x.map (fun v => realA.pow v a) ≠ [] := by simpa using hne
  have hpos : ∀ v ∈ x.map (fun v => realA.pow v a), 0 < v := by
    intro v hv
    rcases List.mem_map.mp hv with ⟨u, hu, rfl⟩
    exact Real.rpow_pos_of_pos (hx u hu) a
  obtain ⟨h1, h2, h3⟩ := closure_simplex hne' hpos
  exact ⟨by rw [h1]; simp, h2, h3⟩

end RealBasics

/-! ## `clr` and `alr` round trips -/

section ClrAlr

theorem logGM_eq (x : List ℝ) :
    logGM realA x = (x.map (Real.logb 2)).sum / (x.length : ℝ) := by
  unfold logGM; rw [lsum_eq_sum]; rfl

theorem clr_eq (x : List ℝ) :
    clr realA x = x.map (fun v => Real.logb 2 v - logGM realA x) := rfl

@[simp] theorem clr_length (x : List ℝ) : (clr realA x).length = x.length := by
  simp [clr]

/-- The clr coordinates sum to zero (for any input list). -/
theorem clr_sum (x : List ℝ) : (clr realA x).sum = 0 := by
  rw [clr_eq, sum_map_sub_const, logGM_eq]
  by_cases h : x = []
  · subst h; simp
  · have : (x.length : ℝ) ≠ 0 := by
      have : x.length ≠ 0 := by simpa using h
      exact_mod_cast this
    field_simp
    ring

theorem clrInv_eq (y : List ℝ) : clrInv realA y = closure (y.map (fun t => (2 : ℝ) ^ t)) := rfl

theorem clrInv_clr (x : List ℝ) (hx : ∀ v ∈ x, 0 < v) : clrInv realA (clr realA x) = closure x := by
  rw [clrInv_eq, clr_eq, List.map_map]
  have e : x.map ((fun t => (2 : ℝ) ^ t) ∘ fun v => Real.logb 2 v - logGM realA x)
      = x.map (· / (2 : ℝ) ^ logGM realA x) := by
    apply List.map_congr_left
    intro v hv
    simp only [Function.comp]
    rw [exp_sub, exp_log (hx v hv)]
  rw [e, closure_map_div x _ (ne_of_gt (exp_pos _))]

/-- clr of `(2^t / S)_t` is the centred vector `t − mean`. -/
theorem clr_map_exp_div (y : List ℝ) (S : ℝ) (hS : 0 < S) :
    clr realA (y.map (fun t => (2 : ℝ) ^ t / S))
      = y.map (fun t => t - y.sum / (y.length : ℝ)) := by
  by_cases hne : y = []
  · subst hne; simp [clr]
  have hn : (y.length : ℝ) ≠ 0 := by
    have : y.length ≠ 0 := by simpa using hne
    exact_mod_cast this
  have hl : ∀ t : ℝ, Real.logb 2 ((2 : ℝ) ^ t / S) = t - Real.logb 2 S := by
    intro t; rw [log_div (exp_pos t) hS, log_exp]
  have hg : logGM realA (y.map (fun t => (2 : ℝ) ^ t / S))
      = y.sum / (y.length : ℝ) - Real.logb 2 S := by
    rw [logGM_eq, List.map_map]
    have : y.map (Real.logb 2 ∘ fun t => (2 : ℝ) ^ t / S)
        = y.map (fun t => id t - Real.logb 2 S) := by
      apply List.map_congr_left; intro t _; simp only [Function.comp, hl, id]
    rw [this, sum_map_sub_const, List.length_map, List.map_id]
    field_simp
  rw [clr_eq, hg, List.map_map]
  apply List.map_congr_left
  intro t _
  simp only [Function.comp, hl]
  ring

theorem clr_clrInv (y : List ℝ) (hy : y.sum = 0) : clr realA (clrInv realA y) = y := by
  by_cases hne : y = []
  · subst hne; simp [clr, clrInv, closure]
  rw [clrInv_eq, closure_eq, List.map_map]
  have hS : 0 < (y.map (fun t => (2 : ℝ) ^ t)).sum :=
    sum_pos_of_pos (by simpa using hne) (map_exp_pos y)
  have := clr_map_exp_div y _ hS
  simp only [Function.comp_def]
  rw [this, hy]
  simp

theorem alr_concat (init : List ℝ) (l : ℝ) :
    alr realA (init ++ [l]) = init.map (fun v => Real.logb 2 v - Real.logb 2 l) := by
  unfold alr
  simp
  rfl

theorem alrInv_eq (y : List ℝ) :
    alrInv realA y = closure (y.map (fun t => (2 : ℝ) ^ t) ++ [1]) := rfl

theorem alrInv_alr (x : List ℝ) (hne : x ≠ []) (hx : ∀ v ∈ x, 0 < v) :
    alrInv realA (alr realA x) = closure x := by
  rcases List.eq_nil_or_concat x with h | ⟨init, l, rfl⟩
  · exact absurd h hne
  have hl : 0 < l := hx l (by simp)
  rw [alr_concat, alrInv_eq, List.map_map]
  have e : init.map ((fun t => (2 : ℝ) ^ t) ∘ fun v => Real.logb 2 v - Real.logb 2 l) ++ [1]
      = (init ++ [l]).map (· / l) := by
    rw [List.map_append]
    congr 1
    · apply List.map_congr_left
      intro v hv
      simp only [Function.comp]
      rw [exp_sub, exp_log (hx v (by simp [hv])), exp_log hl]
    · simp [div_self (ne_of_gt hl)]
  rw [e, closure_map_div _ _ (ne_of_gt hl)]

theorem alr_alrInv (y : List ℝ) : alr realA (alrInv realA y) = y := by
  rw [alrInv_eq, closure_eq]
  set S := (y.map (fun t => (2 : ℝ) ^ t) ++ [1]).sum with hSdef
  have hS : 0 < S := sum_pos_of_pos (by simp) (by
    intro v hv
    rcases List.mem_append.mp hv with h | h
    · exact map_exp_pos y v h
    · simp at h; subst h; norm_num)
  rw [List.map_append, List.map_map]
  show alr realA (_ ++ [1 / S]) = y
  rw [alr_concat, List.map_map]
  conv_rhs => rw [← List.map_id y]
  apply List.map_congr_left
  intro t _
  simp only [Function.comp, id]
  rw [log_div (exp_pos t) hS, log_exp, log_div one_pos hS, Real.logb_one]
  ring

end ClrAlr

end Dit.Lemmas.Aitchison
