/-
Helper definitions and lemmas for C09 (mutation histories track a plain table model).

* `Spec`, `specStep`: the specification machine — a sample space, a *function* from outcomes
  to optional stored values, the sparse flag and the base tag, with one-line transitions.
* `abs`: the abstraction function from the list-based implementation state `Dit.Dist`.
* `WF`: the representation invariant of `Dit.Dist` (stored keys = the members of the sample
  space that are stored, in sample-space order; a dense state stores every member).
* `tabOf L f`: the canonical table of a function `f` along the enumeration `L`; every
  operation of the implementation maps canonical tables to canonical tables
  (`tabOf_filter_val`, …, `sortBy_eq_tabOf`), which gives refinement and invariance at once.

Property theorems are in Props/C09.lean.
-/
import DitModel.Core.Dist
import Mathlib.Data.List.Nodup

set_option linter.unusedSectionVars false

namespace Dit.Lemmas.Machine
open Dit

variable {κ σ α : Type}

/-! ### The canonical table of a function along an enumeration -/

/-- Rows `(k, v)` for the `k` of `L` (in that order) with `f k = some v`. -/
def tabOf (L : List κ) (f : κ → Option α) : Tab κ α :=
  L.filterMap (fun k => (f k).map (fun v => (k, v)))

@[simp] theorem tabOf_nil (f : κ → Option α) : tabOf [] f = [] := rfl

theorem tabOf_cons_none {a : κ} {L : List κ} {f : κ → Option α} (h : f a = none) :
    tabOf (a :: L) f = tabOf L f := by
  simp [tabOf, h]

theorem tabOf_cons_some {a : κ} {L : List κ} {f : κ → Option α} {v : α} (h : f a = some v) :
    tabOf (a :: L) f = (a, v) :: tabOf L f := by
  simp [tabOf, h]

theorem tabOf_none (L : List κ) : tabOf L (fun _ => (none : Option α)) = [] := by
  induction L with
  | nil => rfl
  | cons a L ih => rw [tabOf_cons_none rfl]; exact ih

theorem tabOf_congr {L : List κ} {f g : κ → Option α} (h : ∀ k ∈ L, f k = g k) :
    tabOf L f = tabOf L g := by
  induction L with
  | nil => rfl
  | cons a L ih =>
    have ha : f a = g a := h a (List.mem_cons_self ..)
    have ih' := ih (fun k hk => h k (List.mem_cons_of_mem _ hk))
    cases hf : f a with
    | none => rw [tabOf_cons_none hf, tabOf_cons_none (ha ▸ hf), ih']
    | some v => rw [tabOf_cons_some hf, tabOf_cons_some (ha ▸ hf), ih']

theorem keys_tabOf (L : List κ) (f : κ → Option α) :
    keys (tabOf L f) = L.filter (fun k => (f k).isSome) := by
  induction L with
  | nil => rfl
  | cons a L ih =>
    cases hf : f a with
    | none => rw [tabOf_cons_none hf, ih, List.filter_cons]; simp [hf]
    | some v =>
      rw [tabOf_cons_some hf, List.filter_cons]
      simp only [hf, Option.isSome_some, if_true]
      show a :: keys (tabOf L f) = _
      rw [ih]

theorem vals_tabOf (L : List κ) (f : κ → Option α) :
    vals (tabOf L f) = L.filterMap f := by
  induction L with
  | nil => rfl
  | cons a L ih =>
    cases hf : f a with
    | none => rw [tabOf_cons_none hf, ih, List.filterMap_cons]; simp [hf]
    | some v =>
      rw [tabOf_cons_some hf, List.filterMap_cons]
      simp only [hf]
      show v :: vals (tabOf L f) = _
      rw [ih]

theorem mem_keys_tabOf {L : List κ} {f : κ → Option α} {k : κ} (h : k ∈ keys (tabOf L f)) :
    k ∈ L := by
  rw [keys_tabOf] at h
  exact (List.mem_filter.mp h).1

variable [DecidableEq κ]

theorem lookup?_cons (r : κ × α) (t : Tab κ α) (k : κ) :
    lookup? (r :: t) k = if r.1 = k then some r.2 else lookup? t k := by
  cases r; rfl

theorem lookup?_tabOf (L : List κ) (f : κ → Option α) (k : κ) :
    lookup? (tabOf L f) k = if k ∈ L then f k else none := by
  induction L with
  | nil => simp [lookup?]
  | cons a L ih =>
    cases hf : f a with
    | none =>
      rw [tabOf_cons_none hf, ih]
      by_cases hka : k = a
      · subst hka; simp [hf]
      · simp [hka]
    | some v =>
      rw [tabOf_cons_some hf]
      unfold lookup?
      by_cases hka : a = k
      · subst hka; simp [hf]
      · have : ¬ k = a := fun h => hka h.symm
        simp [hka, this, ih]

theorem lookup?_eq_none_of_not_mem_keys {t : Tab κ α} {k : κ} (h : k ∉ keys t) :
    lookup? t k = none := by
  induction t with
  | nil => rfl
  | cons r t ih =>
    unfold lookup?
    have h1 : ¬ r.1 = k := fun e => h (by simp [keys, ← e])
    have h2 : k ∉ keys t := fun e => h (by
      simp only [keys, List.map_cons, List.mem_cons]; exact Or.inr e)
    simp [h1, ih h2]

theorem lookup?_isSome_iff {t : Tab κ α} {k : κ} : (lookup? t k).isSome ↔ k ∈ keys t := by
  induction t with
  | nil => simp [lookup?, keys]
  | cons r t ih =>
    unfold lookup?
    by_cases h : r.1 = k
    · simp [h, keys]
    · have : ¬ k = r.1 := fun e => h e.symm
      simp only [h, if_false, ih, keys, List.map_cons, List.mem_cons, this, false_or]

/-- A table with duplicate-free keys is the canonical table of its own lookup along its keys. -/
theorem eq_tabOf_keys {t : Tab κ α} (h : (keys t).Nodup) : t = tabOf (keys t) (lookup? t) := by
  induction t with
  | nil => rfl
  | cons r t ih =>
    have hn : r.1 ∉ keys t := (List.nodup_cons.mp h).1
    have ht : (keys t).Nodup := (List.nodup_cons.mp h).2
    show r :: t = tabOf (r.1 :: keys t) (lookup? (r :: t))
    have h1 : lookup? (r :: t) r.1 = some r.2 := by simp [lookup?]
    rw [tabOf_cons_some h1]
    have h2 : tabOf (keys t) (lookup? (r :: t)) = tabOf (keys t) (lookup? t) := by
      apply tabOf_congr
      intro k hk
      have : ¬ r.1 = k := fun e => hn (e ▸ hk)
      simp [lookup?, this]
    rw [h2, ← ih ht]

theorem tabOf_filter_isSome (L : List κ) (f : κ → Option α) :
    tabOf (L.filter (fun k => (f k).isSome)) f = tabOf L f := by
  induction L with
  | nil => rfl
  | cons a L ih =>
    cases hf : f a with
    | none => rw [tabOf_cons_none hf, List.filter_cons]; simp [hf, ih]
    | some v =>
      rw [tabOf_cons_some hf, List.filter_cons]
      simp only [hf, Option.isSome_some, if_true]
      rw [tabOf_cons_some hf, ih]

/-! ### Each table operation of the implementation on canonical tables -/

theorem tabOf_cons (a : κ) (L : List κ) (f : κ → Option α) :
    tabOf (a :: L) f = (f a).elim (tabOf L f) (fun v => (a, v) :: tabOf L f) := by
  cases hf : f a with
  | none => rw [tabOf_cons_none hf]; rfl
  | some v => rw [tabOf_cons_some hf]; rfl

theorem tabOf_filter_val (L : List κ) (f : κ → Option α) (p : α → Bool) :
    (tabOf L f).filter (fun r => p r.2) = tabOf L (fun k => (f k).filter p) := by
  induction L with
  | nil => rfl
  | cons a L ih =>
    simp only [tabOf_cons]
    cases hf : f a with
    | none => simpa using ih
    | some v =>
      by_cases hp : p v = true
      · simp [Option.filter_some, hp, ih]
      · simp [Option.filter_some, hp, ih]

theorem tabOf_filter_key (L : List κ) (f : κ → Option α) (o : κ) :
    (tabOf L f).filter (fun r => r.1 ≠ o) = tabOf L (fun k => if k = o then none else f k) := by
  induction L with
  | nil => rfl
  | cons a L ih =>
    simp only [tabOf_cons]
    cases hf : f a with
    | none => simpa using ih
    | some v =>
      simp only [ne_eq, decide_not] at ih
      by_cases ha : a = o
      · simp [ha, ih]
      · simp [ha, ih]

theorem tabOf_map_val (L : List κ) (f : κ → Option α) (h : α → α) :
    (tabOf L f).map (fun r => (r.1, h r.2)) = tabOf L (fun k => (f k).map h) := by
  induction L with
  | nil => rfl
  | cons a L ih =>
    simp only [tabOf_cons]
    cases hf : f a with
    | none => simpa using ih
    | some v => simp [ih]

theorem tabOf_map_key (L : List κ) (f : κ → Option α) (o : κ) (v : α) :
    (tabOf L f).map (fun r => if r.1 = o then (r.1, v) else r)
      = tabOf L (fun k => if k = o then (f k).map (fun _ => v) else f k) := by
  induction L with
  | nil => rfl
  | cons a L ih =>
    simp only [tabOf_cons]
    cases hf : f a with
    | none => simpa using ih
    | some w =>
      by_cases ha : a = o
      · simp [ha, ih]
      · simp [ha, ih]

theorem map_dense_eq_tabOf (L : List κ) (f : κ → Option α) (z : α) :
    L.map (fun o => (o, (f o).getD z)) = tabOf L (fun k => some ((f k).getD z)) := by
  induction L with
  | nil => rfl
  | cons a L ih => simp [tabOf_cons, ih]

/-! ### Insertion and sorting by a rank that increases along the enumeration -/

/-- Inserting a row whose key ranks below the head of the table puts it in front. -/
theorem insertBy_lt_head (rank : κ → Nat) (r : κ × α) (t : Tab κ α)
    (h : ∀ s ∈ t, rank r.1 < rank s.1) : insertBy rank r t = r :: t := by
  cases t with
  | nil => rfl
  | cons s t => simp [insertBy, h s (List.mem_cons_self ..)]

/-- Inserting a new key into a canonical table gives the canonical table of the updated
function: the row lands at the place of its key in the enumeration. -/
theorem insertBy_tabOf (rank : κ → Nat) (L : List κ)
    (hL : L.Pairwise (fun a b => rank a < rank b)) (f : κ → Option α) (r : κ × α)
    (hr : r.1 ∈ L) (hf : f r.1 = none) :
    insertBy rank r (tabOf L f) = tabOf L (fun k => if k = r.1 then some r.2 else f k) := by
  generalize hgdef : (fun k => if k = r.1 then some r.2 else f k) = g
  have hgv : ∀ k, g k = if k = r.1 then some r.2 else f k := by subst hgdef; intro k; rfl
  clear hgdef
  induction L with
  | nil => simp at hr
  | cons a L ih =>
    have hLa : ∀ b ∈ L, rank a < rank b := (List.pairwise_cons.mp hL).1
    have hLL := (List.pairwise_cons.mp hL).2
    by_cases ha : a = r.1
    · -- the new key is the head of the enumeration
      have hnot : ∀ b ∈ L, b ≠ r.1 := fun b hb e => by
        have := hLa b hb; rw [e, ha] at this; exact Nat.lt_irrefl _ this
      have hg : g a = some r.2 := by rw [hgv]; simp [ha]
      have hcong : tabOf L g = tabOf L f :=
        tabOf_congr (fun k hk => by rw [hgv]; simp [hnot k hk])
      rw [tabOf_cons_none (ha ▸ hf), tabOf_cons_some hg, hcong]
      rw [insertBy_lt_head]
      · rw [ha]
      · intro s hs
        have : s.1 ∈ L := mem_keys_tabOf (List.mem_map_of_mem (f := (·.1)) hs)
        rw [← ha]; exact hLa _ this
    · have hr' : r.1 ∈ L := by
        rcases List.mem_cons.mp hr with e | e
        · exact absurd e.symm ha
        · exact e
      have ih' := ih hLL hr'
      cases hfa : f a with
      | none =>
        have hg : g a = none := by rw [hgv]; simp [ha, hfa]
        rw [tabOf_cons_none hfa, tabOf_cons_none hg, ih']
      | some w =>
        have hg : g a = some w := by rw [hgv]; simp [ha, hfa]
        rw [tabOf_cons_some hfa, tabOf_cons_some hg, ← ih']
        have : ¬ rank r.1 < rank a := Nat.not_lt.mpr (Nat.le_of_lt (hLa _ hr'))
        simp [insertBy, this]

/-- **Sorting is canonicalisation.** A table with duplicate-free keys, all of them in the
enumeration `L` along which `rank` increases, is sorted by `rank` into the canonical table
of its own lookup function. -/
theorem sortBy_eq_tabOf (rank : κ → Nat) (L : List κ)
    (hL : L.Pairwise (fun a b => rank a < rank b)) (t : Tab κ α)
    (hnd : (keys t).Nodup) (hmem : ∀ k ∈ keys t, k ∈ L) :
    sortBy rank t = tabOf L (lookup? t) := by
  induction t with
  | nil => exact (tabOf_none L).symm
  | cons r t ih =>
    have hn : r.1 ∉ keys t := (List.nodup_cons.mp hnd).1
    have ht : (keys t).Nodup := (List.nodup_cons.mp hnd).2
    have hm : ∀ k ∈ keys t, k ∈ L := fun k hk => hmem k (List.mem_cons_of_mem _ hk)
    have hr : r.1 ∈ L := hmem r.1 (List.mem_cons_self ..)
    show insertBy rank r (sortBy rank t) = _
    rw [ih ht hm, insertBy_tabOf rank L hL _ r hr (lookup?_eq_none_of_not_mem_keys hn)]
    apply tabOf_congr
    intro k _
    rw [lookup?_cons]
    by_cases hk : r.1 = k
    · simp [hk]
    · have : ¬ k = r.1 := fun e => hk e.symm
      simp [hk, this]

theorem sortBy_keys_perm (rank : κ → Nat) (t : Tab κ α) : (keys (sortBy rank t)).Perm (keys t) := by
  have hins : ∀ (r : κ × α) (u : Tab κ α), (keys (insertBy rank r u)).Perm (r.1 :: keys u) := by
    intro r u
    induction u with
    | nil => exact List.Perm.refl _
    | cons s u ih =>
      unfold insertBy
      split
      · exact List.Perm.refl _
      · show (s.1 :: keys (insertBy rank r u)).Perm (r.1 :: s.1 :: keys u)
        exact ((List.Perm.cons s.1 ih).trans (List.Perm.swap ..))
  induction t with
  | nil => exact List.Perm.refl _
  | cons r t ih =>
    show (keys (insertBy rank r (sortBy rank t))).Perm (r.1 :: keys t)
    exact (hins r _).trans (List.Perm.cons _ ih)

theorem lookup?_append_single (t : Tab κ α) (o : κ) (v : α) (k : κ) :
    lookup? (t ++ [(o, v)]) k
      = (lookup? t k).elim (if o = k then some v else none) some := by
  induction t with
  | nil => simp [lookup?]
  | cons r t ih =>
    rw [List.cons_append, lookup?_cons, lookup?_cons, ih]
    by_cases h : r.1 = k <;> simp [h]

/-! ### Rank in a duplicate-free enumeration -/

theorem indexOf?_getElem (L : List κ) (hL : L.Nodup) (i : Nat) (hi : i < L.length) :
    indexOf? L L[i] = some i := by
  induction L generalizing i with
  | nil => simp at hi
  | cons y t ih =>
    cases i with
    | zero => simp [indexOf?]
    | succ i =>
      have hi' : i < t.length := by simpa using hi
      have hy : y ∉ t := (List.nodup_cons.mp hL).1
      have hne : ¬ y = t[i] := fun e => hy (e ▸ List.getElem_mem hi')
      simp [indexOf?, hne, ih (List.nodup_cons.mp hL).2 i hi']

/-- In a duplicate-free enumeration, the index of the first occurrence strictly increases
along the enumeration. -/
theorem pairwise_rank (L : List κ) (hL : L.Nodup) :
    L.Pairwise (fun a b => (indexOf? L a).getD L.length < (indexOf? L b).getD L.length) := by
  rw [List.pairwise_iff_getElem]
  intro i j hi hj hij
  rw [indexOf?_getElem L hL i hi, indexOf?_getElem L hL j hj]
  exact hij

end Dit.Lemmas.Machine

/-! ## The specification machine -/

namespace Dit.Lemmas.Machine
open Dit

variable {σ α : Type}

/-- State of the plain table model: the sample space, a *function* from outcomes to the
stored value (`none`: not stored), the sparse flag and the base tag. -/
structure Spec (σ α : Type) where
  space : Space σ
  stored : List σ → Option α
  sparse : Bool
  base : Base

/-- Point update `f[o ↦ x]`. -/
def upd [DecidableEq σ] (f : List σ → Option α) (o : List σ) (x : Option α) :
    List σ → Option α :=
  fun k => if k = o then x else f k

/-- Stored values in sample-space order (`d.pmf`). -/
def Spec.pmf (s : Spec σ α) : List α := s.space.toList.filterMap s.stored

/-- Stored outcomes in sample-space order (`d.outcomes`). -/
def Spec.outcomes (s : Spec σ α) : List (List σ) :=
  s.space.toList.filter (fun o => (s.stored o).isSome)

/-- `d[o]`: the stored value, the null value for a member that is not stored, `none`
(`InvalidOutcome`) outside the sample space. -/
def Spec.get [DecidableEq σ] [Zero α] (s : Spec σ α) (o : List σ) : Option α :=
  if s.space.mem o then some ((s.stored o).getD 0) else none

/-- `o in d`. -/
def Spec.has (s : Spec σ α) (o : List σ) : Bool := (s.stored o).isSome

/-- `len(d)`. -/
def Spec.length (s : Spec σ α) : Nat := s.outcomes.length

/-- Verdict of `validate()`: normalisation of the sum of the stored values in sample-space
order, then the range of every stored value. -/
def Spec.validate [Add α] [Zero α] (cfg : NumCfg α) (s : Spec σ α) : Option Err :=
  if !cfg.normOK s.base (lsum s.pmf) then some .invalidNormalization
  else if !s.pmf.all (cfg.rangeOK s.base) then some .invalidProbability
  else none

/-- One step of the specification machine. -/
def specStep [DecidableEq σ] [Add α] [Zero α] [Mul α] [Inv α] (cfg : NumCfg α)
    (s : Spec σ α) : Op σ α → Spec σ α × Out α
  | .set o v =>
      if s.space.mem o then ({ s with stored := upd s.stored o (some v) }, .ok)
      else (s, .err .invalidOutcome)
  | .del o =>
      if s.space.mem o then
        ({ s with stored := upd s.stored o (if s.sparse then none else some 0) }, .ok)
      else (s, .err .invalidOutcome)
  | .makeDense =>
      ({ s with stored := fun k => if s.space.mem k then some ((s.stored k).getD 0) else none,
                sparse := false }, .ok)
  | .makeSparse trim =>
      ({ s with stored := if trim then
                  fun k => (s.stored k).filter (fun v => !cfg.isNull s.base v)
                else s.stored,
                sparse := true }, .ok)
  | .normalize =>
      let z := lsum s.pmf
      ({ s with stored := fun k => (s.stored k).map (· * z⁻¹) }, .val z)
  | .setBase b => ({ s with base := b }, .ok)
  | .copy => (s, .ok)

/-- Run a machine over a history, collecting the outputs. -/
def run {S O R : Type} (step : S → O → S × R) : S → List O → S × List R
  | s, [] => (s, [])
  | s, o :: os =>
      let r := step s o
      let rest := run step r.1 os
      (rest.1, r.2 :: rest.2)

theorem run_fst {S O R : Type} (step : S → O → S × R) (s : S) (ops : List O) :
    (run step s ops).1 = ops.foldl (fun s o => (step s o).1) s := by
  induction ops generalizing s with
  | nil => rfl
  | cons o os ih => exact ih _

theorem run_length {S O R : Type} (step : S → O → S × R) (s : S) (ops : List O) :
    (run step s ops).2.length = ops.length := by
  induction ops generalizing s with
  | nil => rfl
  | cons o os ih => simp [run, ih]

variable [DecidableEq σ]

/-- The abstraction function: forget the list, keep the lookup function. -/
def abs (d : Dist σ α) : Spec σ α := ⟨d.space, lookup? d.tab, d.sparse, d.base⟩

/-- The canonical representation of a specification state. -/
def conc (s : Spec σ α) : Dist σ α :=
  ⟨s.space, tabOf s.space.toList s.stored, s.sparse, s.base⟩

/-- The enumeration of the sample space has no repetitions. -/
def _root_.Dit.Space.WF (sp : Space σ) : Prop := sp.toList.Nodup

/-- `Space.rank` strictly increases along a duplicate-free enumeration. -/
theorem rank_pairwise (sp : Space σ) (h : sp.WF) :
    sp.toList.Pairwise (fun a b => sp.rank a < sp.rank b) :=
  pairwise_rank _ h

/-- Representation invariant of `Dist`: the stored keys are exactly the stored members of
the sample space, in sample-space order (hence duplicate-free, members, strictly increasing
rank), and a dense state stores every member. -/
structure WF (d : Dist σ α) : Prop where
  nodup : d.space.WF
  keys_eq : keys d.tab = d.space.toList.filter (fun o => (lookup? d.tab o).isSome)
  dense : d.sparse = false → keys d.tab = d.space.toList

/-- The corresponding invariant of specification states: nothing is stored outside the
sample space, and a dense state stores every member. -/
structure Spec.OK (s : Spec σ α) : Prop where
  nodup : s.space.WF
  outside : ∀ o, o ∉ s.space.toList → s.stored o = none
  dense : s.sparse = false → ∀ o ∈ s.space.toList, (s.stored o).isSome

theorem mem_iff (sp : Space σ) (o : List σ) : sp.mem o = true ↔ o ∈ sp.toList := by
  simp [Space.mem]

theorem WF.keys_nodup {d : Dist σ α} (h : WF d) : (keys d.tab).Nodup := by
  rw [h.keys_eq]; exact h.nodup.filter _

theorem WF.mem_of_key {d : Dist σ α} (h : WF d) {o : List σ} (ho : o ∈ keys d.tab) :
    o ∈ d.space.toList := by
  rw [h.keys_eq] at ho; exact (List.mem_filter.mp ho).1

/-- Stored keys are in strictly increasing sample-space rank. -/
theorem WF.keys_sorted {d : Dist σ α} (h : WF d) :
    (keys d.tab).Pairwise (fun a b => d.space.rank a < d.space.rank b) := by
  rw [h.keys_eq]
  exact (rank_pairwise _ h.nodup).sublist List.filter_sublist

/-- Under the invariant the stored table *is* the canonical table of its lookup function. -/
theorem WF.tab_eq {d : Dist σ α} (h : WF d) :
    d.tab = tabOf d.space.toList (lookup? d.tab) := by
  have h1 := eq_tabOf_keys h.keys_nodup
  have h2 : tabOf (keys d.tab) (lookup? d.tab) = tabOf d.space.toList (lookup? d.tab) := by
    rw [h.keys_eq]; exact tabOf_filter_isSome _ _
  exact h1.trans h2

theorem WF.abs_ok {d : Dist σ α} (h : WF d) : (abs d).OK where
  nodup := h.nodup
  outside := fun o ho => lookup?_eq_none_of_not_mem_keys (fun hk => ho (h.mem_of_key hk))
  dense := fun hs o ho => by
    show (lookup? d.tab o).isSome
    rw [lookup?_isSome_iff, h.dense hs]; exact ho

theorem WF.eq_conc {d : Dist σ α} (h : WF d) : d = conc (abs d) := by
  cases d with
  | mk sp tab sparse base =>
    show _ = Dist.mk sp (tabOf sp.toList (lookup? tab)) sparse base
    congr 1
    exact h.tab_eq

/-- Every well-formed implementation state is the canonical representation of a
well-formed specification state. -/
theorem WF.exists_conc {d : Dist σ α} (h : WF d) : ∃ s : Spec σ α, s.OK ∧ d = conc s :=
  ⟨abs d, h.abs_ok, h.eq_conc⟩

theorem abs_conc {s : Spec σ α} (h : s.OK) : abs (conc s) = s := by
  cases s with
  | mk sp st sparse base =>
    show Spec.mk sp (lookup? (tabOf sp.toList st)) sparse base = _
    congr 1
    funext k
    rw [lookup?_tabOf]
    by_cases hk : k ∈ sp.toList
    · simp [hk]
    · rw [if_neg hk]; exact (h.outside k hk).symm

theorem wf_conc {s : Spec σ α} (h : s.OK) : WF (conc s) where
  nodup := h.nodup
  keys_eq := by
    show keys (tabOf s.space.toList s.stored)
      = s.space.toList.filter (fun o => (lookup? (tabOf s.space.toList s.stored) o).isSome)
    rw [keys_tabOf]
    apply List.filter_congr
    intro o ho
    rw [lookup?_tabOf]; simp [ho]
  dense := fun hs => by
    show keys (tabOf s.space.toList s.stored) = s.space.toList
    rw [keys_tabOf, List.filter_eq_self]
    exact fun o ho => h.dense hs o ho

/-! ### Observables -/

theorem get_abs [Zero α] (d : Dist σ α) (o : List σ) : d.get o = (abs d).get o := rfl

theorem outcomes_abs {d : Dist σ α} (h : WF d) : keys d.tab = (abs d).outcomes := h.keys_eq

theorem pmf_abs {d : Dist σ α} (h : WF d) : vals d.tab = (abs d).pmf := by
  conv => lhs; rw [h.tab_eq]
  exact vals_tabOf _ _

theorem length_abs {d : Dist σ α} (h : WF d) : d.tab.length = (abs d).length := by
  have : d.tab.length = (keys d.tab).length := by simp [keys]
  rw [this, outcomes_abs h]; rfl

theorem has_abs (d : Dist σ α) (o : List σ) : (keys d.tab).contains o = (abs d).has o := by
  show _ = (lookup? d.tab o).isSome
  rw [Bool.eq_iff_iff, lookup?_isSome_iff]; simp

theorem validate_abs [Add α] [Zero α] (cfg : NumCfg α) {d : Dist σ α} (h : WF d) :
    d.validate cfg = (abs d).validate cfg := by
  have hall : (keys d.tab).all d.space.mem = true := by
    rw [List.all_eq_true]
    exact fun o ho => (mem_iff _ _).mpr (h.mem_of_key ho)
  unfold Dist.validate Spec.validate
  rw [hall, pmf_abs h]
  rfl

/-! ### One step on canonical representations -/

theorem dist_eq {a b : Dist σ α} (h1 : a.space = b.space) (h2 : a.tab = b.tab)
    (h3 : a.sparse = b.sparse) (h4 : a.base = b.base) : a = b := by
  cases a; cases b; simp only [Dist.mk.injEq]; exact ⟨h1, h2, h3, h4⟩

theorem spec_eq {a b : Spec σ α} (h1 : a.space = b.space) (h2 : a.stored = b.stored)
    (h3 : a.sparse = b.sparse) (h4 : a.base = b.base) : a = b := by
  cases a; cases b; simp only [Spec.mk.injEq]; exact ⟨h1, h2, h3, h4⟩

theorem lookup?_conc (s : Spec σ α) (o : List σ) (ho : o ∈ s.space.toList) :
    lookup? (conc s).tab o = s.stored o := by
  show lookup? (tabOf s.space.toList s.stored) o = _
  rw [lookup?_tabOf]; simp [ho]

theorem setIn_conc {s : Spec σ α} (h : s.OK) (o : List σ) (v : α) (ho : o ∈ s.space.toList) :
    (conc s).setIn o v = conc { s with stored := upd s.stored o (some v) } := by
  have hl := lookup?_conc s o ho
  cases hst : s.stored o with
  | some w =>
    rw [hst] at hl
    simp only [Dist.setIn, hl]
    refine dist_eq rfl ?_ rfl rfl
    show (tabOf s.space.toList s.stored).map (fun r => if r.1 = o then (r.1, v) else r)
      = tabOf s.space.toList (upd s.stored o (some v))
    rw [tabOf_map_key]
    apply tabOf_congr
    intro k _
    by_cases hk : k = o
    · simp [upd, hk, hst]
    · simp [upd, hk]
  | none =>
    rw [hst] at hl
    simp only [Dist.setIn, hl]
    refine dist_eq rfl ?_ rfl rfl
    show sortBy s.space.rank (tabOf s.space.toList s.stored ++ [(o, v)])
      = tabOf s.space.toList (upd s.stored o (some v))
    have hkeys : keys (tabOf s.space.toList s.stored ++ [(o, v)])
        = keys (tabOf s.space.toList s.stored) ++ [o] := by simp [keys]
    have hnot : o ∉ keys (tabOf s.space.toList s.stored) := by
      rw [keys_tabOf, List.mem_filter]; simp [hst]
    rw [sortBy_eq_tabOf s.space.rank s.space.toList (rank_pairwise _ h.nodup)]
    · apply tabOf_congr
      intro k hk
      rw [lookup?_append_single, lookup?_tabOf]
      by_cases hko : k = o
      · subst hko; simp [upd, hk, hst]
      · have : ¬ o = k := fun e => hko e.symm
        cases hsk : s.stored k <;> simp [upd, hk, hko, this, hsk]
    · rw [hkeys, List.nodup_append]
      refine ⟨?_, List.nodup_singleton _, ?_⟩
      · rw [keys_tabOf]; exact h.nodup.filter _
      · intro a ha b hb
        rw [List.mem_singleton] at hb
        subst hb
        exact fun e => hnot (e ▸ ha)
    · intro k hk
      rw [hkeys, List.mem_append, List.mem_singleton] at hk
      rcases hk with hk | hk
      · exact mem_keys_tabOf hk
      · exact hk ▸ ho

theorem delIn_conc [Zero α] {s : Spec σ α} (h : s.OK) (o : List σ) (ho : o ∈ s.space.toList) :
    (conc s).delIn o
      = conc { s with stored := upd s.stored o (if s.sparse then none else some 0) } := by
  cases hsp : s.sparse with
  | true =>
    have : (conc s).sparse = true := hsp
    simp only [Dist.delIn, this, if_true]
    refine dist_eq rfl ?_ rfl rfl
    show (tabOf s.space.toList s.stored).filter (fun r => r.1 ≠ o)
      = tabOf s.space.toList (upd s.stored o none)
    rw [tabOf_filter_key]; rfl
  | false =>
    have : (conc s).sparse = false := hsp
    simp only [Dist.delIn, this, Bool.false_eq_true, if_false]
    refine dist_eq rfl ?_ rfl rfl
    show (tabOf s.space.toList s.stored).map (fun r => if r.1 = o then (r.1, 0) else r)
      = tabOf s.space.toList (upd s.stored o (some 0))
    rw [tabOf_map_key]
    apply tabOf_congr
    intro k _
    by_cases hk : k = o
    · obtain ⟨w, hw⟩ := Option.isSome_iff_exists.mp (h.dense hsp o ho)
      simp [upd, hk, hw]
    · simp [upd, hk]

theorem makeDense_conc [Zero α] (s : Spec σ α) :
    (conc s).makeDense
      = conc { s with stored := fun k => if s.space.mem k then some ((s.stored k).getD 0) else none,
                      sparse := false } := by
  refine dist_eq rfl ?_ rfl rfl
  show s.space.toList.map (fun o => (o, lookupD 0 (tabOf s.space.toList s.stored) o))
    = tabOf s.space.toList
        (fun k => if s.space.mem k then some ((s.stored k).getD 0) else none)
  have h1 : s.space.toList.map (fun o => (o, lookupD 0 (tabOf s.space.toList s.stored) o))
      = s.space.toList.map (fun o => (o, (s.stored o).getD 0)) := by
    apply List.map_congr_left
    intro o ho
    simp [lookupD, lookup?_tabOf, ho]
  rw [h1, map_dense_eq_tabOf]
  apply tabOf_congr
  intro k hk
  simp [(mem_iff _ _).mpr hk]

theorem makeSparse_conc (cfg : NumCfg α) (s : Spec σ α) (trim : Bool) :
    (conc s).makeSparse cfg trim
      = conc { s with stored := if trim then
                        fun k => (s.stored k).filter (fun v => !cfg.isNull s.base v)
                      else s.stored,
                      sparse := true } := by
  refine dist_eq rfl ?_ rfl rfl
  cases trim with
  | false => rfl
  | true =>
    show (tabOf s.space.toList s.stored).filter (fun r => !cfg.isNull s.base r.2)
      = tabOf s.space.toList (fun k => (s.stored k).filter (fun v => !cfg.isNull s.base v))
    exact tabOf_filter_val _ _ (fun v => !cfg.isNull s.base v)

theorem normalize_conc [Add α] [Zero α] [Mul α] [Inv α] (s : Spec σ α) :
    (conc s).normalize
      = (conc { s with stored := fun k => (s.stored k).map (· * (lsum s.pmf)⁻¹) }, lsum s.pmf) := by
  have hv : vals (conc s).tab = s.pmf := vals_tabOf _ _
  unfold Dist.normalize
  simp only [hv]
  congr 1
  refine dist_eq rfl ?_ rfl rfl
  exact tabOf_map_val _ _ (fun x => x * (lsum s.pmf)⁻¹)

/-- **Simulation on canonical representations.** The implementation step applied to the
canonical representation of a specification state is the canonical representation of the
specification step, with the same output. -/
theorem step_conc [Add α] [Zero α] [Mul α] [Inv α] (cfg : NumCfg α) {s : Spec σ α} (h : s.OK)
    (op : Op σ α) :
    (conc s).step cfg op = (conc (specStep cfg s op).1, (specStep cfg s op).2) := by
  cases op with
  | set o v =>
    cases ho : s.space.mem o with
    | true =>
      have ho' : (conc s).space.mem o = true := ho
      simp only [Dist.step, specStep, ho, ho', if_true]
      rw [setIn_conc h o v ((mem_iff _ _).mp ho)]
    | false =>
      have ho' : (conc s).space.mem o = false := ho
      simp only [Dist.step, specStep, ho, ho', Bool.false_eq_true, if_false]
  | del o =>
    cases ho : s.space.mem o with
    | true =>
      have ho' : (conc s).space.mem o = true := ho
      simp only [Dist.step, specStep, ho, ho', if_true]
      rw [delIn_conc h o ((mem_iff _ _).mp ho)]
    | false =>
      have ho' : (conc s).space.mem o = false := ho
      simp only [Dist.step, specStep, ho, ho', Bool.false_eq_true, if_false]
  | makeDense => simp only [Dist.step, specStep, makeDense_conc]
  | makeSparse t => simp only [Dist.step, specStep, makeSparse_conc]
  | normalize => simp only [Dist.step, specStep, normalize_conc]
  | setBase b => rfl
  | copy => rfl

/-- The specification step preserves the specification invariant. -/
theorem ok_specStep [Add α] [Zero α] [Mul α] [Inv α] (cfg : NumCfg α) {s : Spec σ α} (h : s.OK)
    (op : Op σ α) : (specStep cfg s op).1.OK := by
  cases op with
  | set o v =>
    cases ho : s.space.mem o with
    | true =>
      simp only [specStep, ho, if_true]
      have ho' := (mem_iff _ _).mp ho
      refine ⟨h.nodup, fun k hk => ?_, fun hs k hk => ?_⟩
      · have : ¬ k = o := fun e => hk (e ▸ ho')
        simp [upd, this, h.outside k hk]
      · by_cases hko : k = o
        · simp [upd, hko]
        · simpa [upd, hko] using h.dense hs k hk
    | false => simpa only [specStep, ho, Bool.false_eq_true, if_false] using h
  | del o =>
    cases ho : s.space.mem o with
    | true =>
      simp only [specStep, ho, if_true]
      have ho' := (mem_iff _ _).mp ho
      refine ⟨h.nodup, fun k hk => ?_, fun hs k hk => ?_⟩
      · have : ¬ k = o := fun e => hk (e ▸ ho')
        simp [upd, this, h.outside k hk]
      · have hs' : s.sparse = false := hs
        by_cases hko : k = o
        · simp [upd, hko, hs']
        · simpa [upd, hko] using h.dense hs k hk
    | false => simpa only [specStep, ho, Bool.false_eq_true, if_false] using h
  | makeDense =>
    refine ⟨h.nodup, fun k hk => ?_, fun _ k hk => ?_⟩
    · have : ¬ s.space.mem k = true := fun e => hk ((mem_iff _ _).mp e)
      simp [specStep, this]
    · have hk' : k ∈ s.space.toList := hk
      simp [specStep, (mem_iff _ _).mpr hk']
  | makeSparse t =>
    refine ⟨h.nodup, fun k hk => ?_, fun hs => by simp [specStep] at hs⟩
    cases t <;> simp [specStep, h.outside k hk]
  | normalize =>
    refine ⟨h.nodup, fun k hk => ?_, fun hs k hk => ?_⟩
    · simp [specStep, h.outside k hk]
    · simpa [specStep] using h.dense hs k hk
  | setBase b => exact ⟨h.nodup, h.outside, h.dense⟩
  | copy => exact h

/-! ### The constructor establishes the invariant -/

theorem isort_ins_perm {β : Type} (lt : β → β → Bool) (x : β) (l : List β) :
    (isort.ins lt x l).Perm (x :: l) := by
  induction l with
  | nil => exact List.Perm.refl _
  | cons y t ih =>
    unfold isort.ins
    split
    · exact (List.Perm.cons y ih).trans (List.Perm.swap ..)
    · exact List.Perm.refl _

theorem isort_perm {β : Type} (lt : β → β → Bool) (l : List β) : (isort lt l).Perm l := by
  induction l with
  | nil => exact List.Perm.refl _
  | cons x t ih =>
    show (isort.ins lt x (isort lt t)).Perm (x :: t)
    exact (isort_ins_perm lt x _).trans (List.Perm.cons x ih)

theorem isort_nodup {β : Type} (lt : β → β → Bool) {l : List β} (h : l.Nodup) :
    (isort lt l).Nodup :=
  (isort_perm lt l).nodup_iff.mpr h

theorem dedup_nodup {β : Type} [DecidableEq β] (l : List β) : (dedup l).Nodup := by
  induction l with
  | nil => exact List.nodup_nil
  | cons x t ih =>
    show (x :: (dedup t).filter (· ≠ x)).Nodup
    rw [List.nodup_cons]
    refine ⟨?_, ih.filter _⟩
    simp [List.mem_filter]

theorem alphabetsOf_nodup (outs : List (List σ)) : ∀ a ∈ alphabetsOf outs, a.Nodup := by
  intro a ha
  cases outs with
  | nil => simp [alphabetsOf] at ha
  | cons o t =>
    simp only [alphabetsOf, List.mem_map] at ha
    obtain ⟨i, _, rfl⟩ := ha
    exact dedup_nodup _

theorem cartesian_nodup {β : Type} (as : List (List β)) (h : ∀ a ∈ as, a.Nodup) :
    (cartesian as).Nodup := by
  induction as with
  | nil => simp [cartesian]
  | cons a rest ih =>
    have ha : a.Nodup := h a (List.mem_cons_self ..)
    have hr := ih (fun b hb => h b (List.mem_cons_of_mem _ hb))
    show (a.flatMap (fun x => (cartesian rest).map (x :: ·))).Nodup
    rw [List.nodup_flatMap]
    refine ⟨fun x _ => hr.map (fun u v e => (List.cons.inj e).2), ?_⟩
    refine ha.imp ?_
    intro x y hxy
    show List.Disjoint _ _
    intro u hu hv
    obtain ⟨u1, _, rfl⟩ := List.mem_map.mp hu
    obtain ⟨u2, _, e⟩ := List.mem_map.mp hv
    exact hxy (List.cons.inj e).1.symm

theorem keys_zip_sublist {κ : Type} (outs : List κ) (pmf : List α) :
    (keys (outs.zip pmf)).Sublist outs := by
  induction outs generalizing pmf with
  | nil => simp [keys]
  | cons o t ih =>
    cases pmf with
    | nil => simp [keys]
    | cons p ps =>
      show (o :: keys (t.zip ps)).Sublist (o :: t)
      exact (ih ps).cons_cons o

theorem ok_makeDense [Zero α] (s : Spec σ α) (hsp : s.space.WF) :
    Spec.OK { s with stored := fun k => if s.space.mem k then some ((s.stored k).getD 0) else none,
                     sparse := false } := by
  refine ⟨hsp, fun k hk => ?_, fun _ k hk => ?_⟩
  · have : ¬ s.space.mem k = true := fun e => hk ((mem_iff _ _).mp e)
    simp [this]
  · have hk' : k ∈ s.space.toList := hk
    simp [(mem_iff _ _).mpr hk']

/-- The `Space`-independent part of the constructor: sorting the given rows by sample-space
rank and then applying `make_sparse`/`make_dense` yields a well-formed state, provided the
given outcomes are duplicate-free members of a duplicate-free sample space. -/
theorem wf_construct_core [Zero α] (cfg : NumCfg α) (space : Space σ) (hsp : space.WF)
    (outs : List (List σ)) (pmf : List α) (houts : outs.Nodup)
    (hmem : ∀ o ∈ outs, o ∈ space.toList) (base : Base) (sparse trim : Bool) :
    WF (if sparse then
          (Dist.mk space (sortBy space.rank (outs.zip pmf)) sparse base).makeSparse cfg trim
        else (Dist.mk space (sortBy space.rank (outs.zip pmf)) sparse base).makeDense) := by
  have hsub := keys_zip_sublist outs pmf
  have hnd : (keys (outs.zip pmf)).Nodup := houts.sublist hsub
  have hm : ∀ k ∈ keys (outs.zip pmf), k ∈ space.toList := fun k hk => hmem k (hsub.subset hk)
  have hsort := sortBy_eq_tabOf space.rank space.toList (rank_pairwise _ hsp) _ hnd hm
  have hd0 : Dist.mk space (sortBy space.rank (outs.zip pmf)) sparse base
      = conc ⟨space, lookup? (outs.zip pmf), sparse, base⟩ := by
    rw [hsort]; rfl
  rw [hd0]
  cases sparse with
  | false =>
    simp only [Bool.false_eq_true, if_false]
    rw [makeDense_conc]
    exact wf_conc (ok_makeDense _ hsp)
  | true =>
    simp only [if_true]
    rw [makeSparse_conc]
    refine wf_conc ⟨hsp, fun k hk => ?_, fun hs => by simp at hs⟩
    have hnone : lookup? (outs.zip pmf) k = none :=
      lookup?_eq_none_of_not_mem_keys (fun e => hk (hm k e))
    cases trim <;> simp [hnone]

/-! ### Concrete data for the non-vacuity examples of Props/C09.lean -/

/-- A concrete configuration: exact comparison with 0 and 1. -/
def exCfg : NumCfg Rat :=
  { isNull := fun _ v => v == 0, normOK := fun _ v => v == 1,
    rangeOK := fun _ v => decide (0 ≤ v) && decide (v ≤ 1) }

/-- A sparse distribution on `{0,1}²` that does not store `[1,0]`. -/
def exDist : Dist Nat Rat :=
  { space := .cart [[0, 1], [0, 1]],
    tab := [([0, 0], 1 / 4), ([0, 1], 1 / 4), ([1, 1], 1 / 2)],
    sparse := true, base := .linear }

/-- `Out` has no decidable equality; code outputs as pairs for examples. -/
def outCode : Out Rat → Nat × Rat
  | .ok => (0, 0)
  | .err _ => (1, 0)
  | .val v => (2, v)

end Dit.Lemmas.Machine
