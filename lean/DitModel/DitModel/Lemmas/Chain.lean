/-
Helper lemmas for the remaining links of the chain `K ≤ J ≤ B ≤ F ≤ M ≤ H` of common
informations (property C16), in the entropy-function algebra of Lemmas/InfoAlg.lean
(`H : VSet → R`, `Submod H`, `Hc H X Z = H(X ∪ Z) − H(Z)`):

* a set of variables that is a function of every group has at most the value of every CAEKL
  candidate (`K ≤ J`);
* the candidate of the all-singletons partition is `T/(n−1)` and `T ≤ (n−1)·B` (`J ≤ B`);
* a statistic of `X` that keeps `I(X:Y)` renders `X` and `Y` conditionally independent, and so
  does its pairing with a function of `Y` (feasibility of the mss variable for `F`, `B ≤ M`);
* transfer between the table with an appended label variable and the original table.
Property theorems: Props/C16Chain.lean.
-/
import DitModel.Lemmas.Meet

set_option linter.unusedSectionVars false

namespace Dit.Lemmas.Chain
open Dit Dit.Lemmas.Table Dit.Lemmas.InfoAlg Dit.Lemmas.InfoReal Dit.Lemmas.Meet

/-! ## Set partitions: blocks are non-empty, the singletons partition -/

section Partitions
variable {β : Type}

theorem mem_modify_cons {x : β} {p : List (List β)} {i : Nat} {B : List β}
    (h : B ∈ p.modify i (x :: ·)) : B ∈ p ∨ ∃ B' ∈ p, B = x :: B' := by
  induction p generalizing i with
  | nil => simp at h
  | cons a t ih =>
    cases i with
    | zero =>
      simp only [List.modify_zero_cons, List.mem_cons] at h
      rcases h with rfl | h
      · exact Or.inr ⟨a, List.mem_cons_self, rfl⟩
      · exact Or.inl (List.mem_cons_of_mem _ h)
    | succ i =>
      simp only [List.modify_succ_cons, List.mem_cons] at h
      rcases h with rfl | h
      · exact Or.inl List.mem_cons_self
      · rcases ih h with h | ⟨B', hB', e⟩
        · exact Or.inl (List.mem_cons_of_mem _ h)
        · exact Or.inr ⟨B', List.mem_cons_of_mem _ hB', e⟩

/-- The blocks of a set partition are non-empty. -/
theorem setPartitions_block_ne_nil (l : List β) (P : List (List β)) (hP : P ∈ setPartitions l) :
    ∀ B ∈ P, B ≠ [] := by
  induction l generalizing P with
  | nil =>
    simp only [setPartitions, List.mem_singleton] at hP
    subst hP; simp
  | cons x t ih =>
    simp only [setPartitions, List.mem_flatMap, List.mem_cons, List.mem_map, List.mem_range] at hP
    obtain ⟨p, hp, hP⟩ := hP
    intro B hB
    rcases hP with rfl | ⟨i, _, rfl⟩
    · rcases List.mem_cons.mp hB with rfl | hB
      · simp
      · exact ih p hp B hB
    · rcases mem_modify_cons hB with hB | ⟨B', _, rfl⟩
      · exact ih p hp B hB
      · simp

/-- The partition into singletons is a set partition. -/
theorem singletons_mem_setPartitions (l : List β) :
    l.map (fun g => [g]) ∈ setPartitions l := by
  induction l with
  | nil => simp [setPartitions]
  | cons x t ih =>
    simp only [setPartitions, List.mem_flatMap, List.map_cons]
    exact ⟨_, ih, List.mem_cons_self⟩

end Partitions

/-- The candidate of the singletons partition belongs to the CAEKL candidate list as soon as
there are at least two groups; in particular the list is not empty. -/
theorem singletons_cand_mem (groups : List VSet) (Z : VSet) (hlen : 1 < groups.length) :
    caeklCand groups Z (groups.map (fun g => [g])) ∈ caeklCands groups Z := by
  unfold caeklCands
  refine List.mem_map.mpr ⟨_, List.mem_filter.mpr ⟨singletons_mem_setPartitions groups, ?_⟩, rfl⟩
  simpa using hlen

/-- Members of the candidate list come from set partitions with at least two blocks. -/
theorem mem_caeklCands {groups : List VSet} {Z : VSet} {c : Comb} (hc : c ∈ caeklCands groups Z) :
    ∃ P, P ∈ setPartitions groups ∧ 1 < P.length ∧ c = caeklCand groups Z P := by
  simp only [caeklCands, List.mem_map, List.mem_filter, decide_eq_true_eq] at hc
  obtain ⟨P, ⟨hP, hlen⟩, rfl⟩ := hc
  exact ⟨P, hP, hlen, rfl⟩

/-! ## The scaling factor `1/(k−1)` -/

section Scale
variable {R : Type} [CommRing R] [LinearOrder R] [IsStrictOrderedRing R] (cast : ℚ →+* R)

theorem cast_inv_mul (k : Nat) (hk : 1 < k) :
    cast (1 / ((k : ℚ) - 1)) * ((k : R) - 1) = 1 := by
  have hne : ((k : ℚ) - 1) ≠ 0 := by
    have : (1 : ℚ) < k := by exact_mod_cast hk
    linarith
  have e : ((k : R) - 1) = cast ((k : ℚ) - 1) := by
    rw [map_sub, map_natCast, map_one]
  rw [e, ← map_mul, one_div, inv_mul_cancel₀ hne, map_one]

theorem cast_inv_pos (k : Nat) (hk : 1 < k) : 0 < cast (1 / ((k : ℚ) - 1)) := by
  have hd : (0 : R) < (k : R) - 1 := by
    have : (1 : R) < k := by exact_mod_cast hk
    linarith
  have h1 : (0 : R) < cast (1 / ((k : ℚ) - 1)) * ((k : R) - 1) := by
    rw [cast_inv_mul cast k hk]; exact zero_lt_one
  exact pos_of_mul_pos_left h1 hd.le

/-- `x ≤ S/(k−1)` from `(k−1)·x ≤ S`. -/
theorem le_scaled (k : Nat) (hk : 1 < k) (x S : R) (h : ((k : R) - 1) * x ≤ S) :
    x ≤ cast (1 / ((k : ℚ) - 1)) * S := by
  have ha := cast_inv_pos cast k hk
  have := mul_le_mul_of_nonneg_left h ha.le
  rw [← mul_assoc, cast_inv_mul cast k hk, one_mul] at this
  exact this

/-- `S/(k−1) ≤ y` from `S ≤ (k−1)·y`. -/
theorem scaled_le (k : Nat) (hk : 1 < k) (y S : R) (h : S ≤ ((k : R) - 1) * y) :
    cast (1 / ((k : ℚ) - 1)) * S ≤ y := by
  have ha := cast_inv_pos cast k hk
  have := mul_le_mul_of_nonneg_left h ha.le
  rw [← mul_assoc, cast_inv_mul cast k hk, one_mul] at this
  exact this

end Scale

/-! ## Functions of a set of variables in the entropy-function algebra -/

section Alg
variable {R : Type} [CommRing R] [LinearOrder R] [IsStrictOrderedRing R] {H : VSet → R}

theorem vnorm_vunion (a b : VSet) : vnorm (vunion a b) = vunion a b := vnorm_idem _

/-- `H(V | g) = 0` and `g ⊆ B` give `H(V | B) = 0`. -/
theorem Hc_zero_mono (h : Submod H) {V g B : VSet} (h0 : Hc H V g = 0)
    (hsub : ∀ x ∈ g, x ∈ B) : Hc H V B = 0 :=
  le_antisymm (h0 ▸ Hc_anti h V g B hsub) (Hc_nonneg h V B)

/-- A function of `B` is absorbed by `B`: `H(V ∪ B) = H(B)`. -/
theorem H_absorb {V B : VSet} (h0 : Hc H V B = 0) : H (vunion V B) = H (vnorm B) := by
  unfold Hc at h0
  exact sub_eq_zero.mp h0

/-- `H(B | Z) = H(V | Z) + H(B | V ∪ Z)` when `V` is a function of `B ∪ Z`. -/
theorem Hc_split_function (H : VSet → R) {V B Z : VSet} (h0 : Hc H V (vunion B Z) = 0) :
    Hc H B Z = Hc H V Z + Hc H B (vunion V Z) := by
  have c1 := Hc_chain H V B Z
  have c2 := Hc_chain H B V Z
  have e : Hc H (vunion V B) Z = Hc H (vunion B V) Z :=
    Hc_congr H (fun _ => Iff.rfl) (by intro x; simp only [mem_vunion]; tauto)
  rw [h0] at c2
  linarith

/-- Summing `Hc_split_function` over a list of blocks. -/
theorem sum_split_function (H : VSet → R) (V Z : VSet) (Bs : List VSet)
    (h0 : ∀ B ∈ Bs, Hc H V (vunion B Z) = 0) :
    (Bs.map (fun B => Hc H B Z)).sum
      = (Bs.length : R) * Hc H V Z + (Bs.map (fun B => Hc H B (vunion V Z))).sum := by
  induction Bs with
  | nil => simp
  | cons B Bs ih =>
    have := ih (fun B' hB' => h0 B' (List.mem_cons_of_mem _ hB'))
    have e := Hc_split_function H (h0 B List.mem_cons_self)
    simp only [List.map_cons, List.sum_cons, List.length_cons, Nat.cast_add, Nat.cast_one]
    rw [this, e]; ring

/-- **`K ≤ J`, one candidate.** If `V` is a function of every group given `Z`
(`H(V | g ∪ Z) = 0`), then `H(V | Z)` is at most the CAEKL candidate of every set partition `P`
of the groups with at least two blocks. -/
theorem common_function_le_cand (cast : ℚ →+* R) (h : Submod H) (groups : List VSet) (V Z : VSet)
    (hV : ∀ g ∈ groups, Hc H V (vunion g Z) = 0) (P : List (List VSet))
    (hP : P ∈ setPartitions groups) (hlen : 1 < P.length) :
    Hc H V Z ≤ Comb.eval cast H (caeklCand groups Z P) := by
  rw [eval_caeklCand]
  apply le_scaled cast P.length hlen
  -- every block contains a group, hence determines `V`
  have hblock : ∀ B ∈ P, Hc H V (vunion (vunions B) Z) = 0 := by
    intro B hB
    obtain ⟨g, hg⟩ := List.exists_mem_of_ne_nil B (setPartitions_block_ne_nil groups P hP B hB)
    have hgg : g ∈ groups := (setPartitions_cover groups P hP g).mp ⟨B, hB, hg⟩
    refine Hc_zero_mono h (hV g hgg) ?_
    intro x hx
    rw [mem_vunion] at hx ⊢
    rcases hx with hx | hx
    · exact Or.inl ((mem_vunions _ _).mpr ⟨g, hg, hx⟩)
    · exact Or.inr hx
  have hall : Hc H V (vunion (vunions groups) Z) = 0 := by
    obtain ⟨B, hB⟩ := List.exists_mem_of_ne_nil P (by
      intro e; rw [e] at hlen; simp at hlen)
    refine Hc_zero_mono h (hblock B hB) ?_
    intro x hx
    rw [mem_vunion] at hx ⊢
    rcases hx with hx | hx
    · obtain ⟨g, hg, hxg⟩ := (mem_vunions _ _).mp hx
      exact Or.inl ((mem_vunions _ _).mpr
        ⟨g, (setPartitions_cover groups P hP g).mp ⟨B, hB, hg⟩, hxg⟩)
    · exact Or.inr hx
  have hsum := sum_split_function H V Z (P.map vunions) (by
    intro B hB
    obtain ⟨B', hB', rfl⟩ := List.mem_map.mp hB
    exact hblock B' hB')
  rw [List.map_map, List.map_map, List.length_map] at hsum
  have e1 : (P.map (fun B => Hc H (vunions B) Z)).sum
      = (P.map ((fun B => Hc H B Z) ∘ vunions)).sum := rfl
  have hU := Hc_split_function H hall
  have htc := tc_sum_nonneg h (P.map vunions) (vunion V Z)
  rw [vunions_partition groups P hP, List.map_map] at htc
  rw [e1, hsum, hU]
  linarith

/-! ### `T ≤ (n−1)·B` -/

theorem VDisj.symm {a b : VSet} (h : VDisj a b) : VDisj b a := fun x hb ha => h x ha hb

/-- **`I(Xᵢ : X₋ᵢ | Z) ≤ B`** for pairwise disjoint groups: the difference is
`H(X₋ᵢ | Xᵢ, Z) − Σ_{j≠i} H(Xⱼ | X₋ⱼ, Z) ≥ 0`. -/
theorem mi_rest_le_dtc (h : Submod H) (groups : List VSet) (Z : VSet)
    (hdis : groups.Pairwise VDisj) (g : VSet) (hg : g ∈ groups) :
    Hc H g Z - Hc H g (vunion (vdiff (vunions groups) (vnorm g)) Z)
      ≤ Hc H (vunions groups) Z
        - (groups.map (fun g' =>
            Hc H g' (vunion (vdiff (vunions groups) (vnorm g')) Z))).sum := by
  have hperm : groups.Perm (g :: groups.erase g) := List.perm_cons_erase hg
  have hsum := (hperm.map (fun g' =>
    Hc H g' (vunion (vdiff (vunions groups) (vnorm g')) Z))).sum_eq
  rw [List.map_cons, List.sum_cons] at hsum
  have hdis' : (g :: groups.erase g).Pairwise VDisj :=
    (hperm.pairwise_iff (fun hxy => VDisj.symm hxy)).mp hdis
  have hd := List.pairwise_cons.mp hdis'
  have hmem : ∀ g' ∈ groups.erase g, g' ∈ groups := fun g' hg' => List.mem_of_mem_erase hg'
  have hres := residual_le h (vunions groups) Z (groups.erase g) (vunion g Z) hd.2
    (fun g' hg' x hx => (mem_vunions _ _).mpr ⟨g', hmem g' hg', hx⟩)
    (by
      intro g' hg' x hx
      rcases (mem_vunion _ _ _).mp hx with hx | hx
      · exact Or.inr ⟨(mem_vunions _ _).mpr ⟨g, hg, hx⟩, hd.1 g' hg' x hx⟩
      · exact Or.inl hx)
  have hchain := Hc_chain H g (vunions (groups.erase g)) Z
  have hU : Hc H (vunions groups) Z = Hc H (vunion g (vunions (groups.erase g))) Z := by
    refine Hc_congr H (fun _ => Iff.rfl) ?_
    intro x
    have : x ∈ vunions groups ↔ x ∈ vunion g (vunions (groups.erase g)) := by
      rw [mem_vunion, mem_vunions, mem_vunions]
      constructor
      · rintro ⟨g', hg', hx⟩
        rcases List.mem_cons.mp (hperm.mem_iff.mp hg') with rfl | hg'
        · exact Or.inl hx
        · exact Or.inr ⟨g', hg', hx⟩
      · rintro (hx | ⟨g', hg', hx⟩)
        · exact ⟨g, hg, hx⟩
        · exact ⟨g', hmem g' hg', hx⟩
    rw [this]
  rw [hsum, hU, hchain]
  linarith

/-- Chain-rule bound on the total correlation of a non-empty list of pairwise disjoint groups
inside `U`: if every `I(g : U∖g | Z) ≤ b`, then `T ≤ (length − 1)·b`. (The last group contributes
`I(g : ∅) = 0`.) -/
theorem tc_le_len_mul (h : Submod H) (U Z : VSet) (b : R) (gs : List VSet) (hne : gs ≠ [])
    (hdis : gs.Pairwise VDisj) (hU : ∀ g ∈ gs, ∀ x ∈ g, x ∈ U)
    (hb : ∀ g ∈ gs, Hc H g Z - Hc H g (vunion (vdiff U (vnorm g)) Z) ≤ b) :
    (gs.map (fun g => Hc H g Z)).sum - Hc H (vunions gs) Z ≤ ((gs.length : R) - 1) * b := by
  induction gs with
  | nil => exact absurd rfl hne
  | cons g gs ih =>
    cases gs with
    | nil =>
      simp only [List.map_cons, List.map_nil, List.sum_cons, List.sum_nil, add_zero,
        vunions_singleton, Hc_vnorm_left, List.length_cons, List.length_nil, Nat.cast_one,
        zero_add, sub_self, zero_mul, le_refl]
    | cons g' rest =>
      have hd := List.pairwise_cons.mp hdis
      have ih' := ih (by simp) hd.2 (fun x hx => hU x (List.mem_cons_of_mem _ hx))
        (fun x hx => hb x (List.mem_cons_of_mem _ hx))
      have hbg := hb g List.mem_cons_self
      rw [List.map_cons, List.sum_cons, vunions_cons]
      have e : Hc H (vunion g (vunions (g' :: rest))) Z
          = Hc H (vunion (vunions (g' :: rest)) g) Z :=
        Hc_congr H (fun _ => Iff.rfl) (by intro x; simp only [mem_vunion]; tauto)
      have hchain := Hc_chain H (vunions (g' :: rest)) g Z
      have hanti : Hc H g (vunion (vdiff U (vnorm g)) Z)
          ≤ Hc H g (vunion (vunions (g' :: rest)) Z) := by
        apply Hc_anti h
        intro x hx
        rw [mem_vunion] at hx
        rw [mem_vunion, mem_vdiff, mem_vnorm]
        rcases hx with hx | hx
        · obtain ⟨g'', hg'', hxg⟩ := (mem_vunions _ _).mp hx
          exact Or.inl ⟨hU g'' (List.mem_cons_of_mem _ hg'') x hxg,
            fun hxg' => hd.1 g'' hg'' x hxg' hxg⟩
        · exact Or.inr hx
      rw [e, hchain]
      have hlen : (((g :: g' :: rest).length : ℕ) : R) = ((g' :: rest).length : R) + 1 := by
        simp only [List.length_cons, Nat.cast_add, Nat.cast_one]
      rw [hlen]
      have : (((g' :: rest).length : R) + 1 - 1) * b = ((g' :: rest).length : R) * b := by ring
      rw [this]
      have e2 : ((g' :: rest).length : R) * b = (((g' :: rest).length : R) - 1) * b + b := by ring
      rw [e2]
      linarith

/-- **`T ≤ (n−1)·B`** for `n ≥ 1` pairwise disjoint groups and any conditioning set. -/
theorem tc_le_dtc (h : Submod H) (groups : List VSet) (Z : VSet) (hne : groups ≠ [])
    (hdis : groups.Pairwise VDisj) :
    (groups.map (fun g => Hc H g Z)).sum - Hc H (vunions groups) Z
      ≤ ((groups.length : R) - 1)
        * (Hc H (vunions groups) Z
            - (groups.map (fun g =>
                Hc H g (vunion (vdiff (vunions groups) (vnorm g)) Z))).sum) :=
  tc_le_len_mul h (vunions groups) Z _ groups hne hdis
    (fun g hg _ hx => (mem_vunions _ _).mpr ⟨g, hg, hx⟩)
    (fun g hg => mi_rest_le_dtc h groups Z hdis g hg)

/-- The candidate of the singletons partition is `T/(n−1)`. -/
theorem eval_singletons_cand (cast : ℚ →+* R) (H : VSet → R) (groups : List VSet) (Z : VSet) :
    Comb.eval cast H (caeklCand groups Z (groups.map (fun g => [g])))
      = cast (1 / ((groups.length : ℚ) - 1))
        * ((groups.map (fun g => Hc H g Z)).sum - Hc H (vunions groups) Z) := by
  rw [eval_caeklCand, List.map_map, List.length_map]
  have : ((fun B => Hc H (vunions B) Z) ∘ fun g : VSet => [g]) = fun g => Hc H g Z := by
    funext g
    simp only [Function.comp_apply, vunions_singleton, Hc_vnorm_left]
  rw [this]

/-- **`J ≤ B`, the witness.** For at least two pairwise disjoint groups the CAEKL candidate of
the all-singletons partition, `T/(n−1)`, is at most the dual total correlation. -/
theorem singletons_cand_le_dtc (cast : ℚ →+* R) (h : Submod H) (groups : List VSet) (Z : VSet)
    (hlen : 1 < groups.length) (hdis : groups.Pairwise VDisj) :
    Comb.eval cast H (caeklCand groups Z (groups.map (fun g => [g])))
      ≤ Comb.eval cast H (dtcC groups Z) := by
  rw [eval_singletons_cand, eval_dtcC, eval_residualC]
  apply scaled_le cast groups.length hlen
  exact tc_le_dtc h groups Z (by intro e; rw [e] at hlen; simp at hlen) hdis

/-! ### Conditional independence given a sufficient statistic -/

/-- `H(X | Z) ≤ H(X ∪ Y | Z)`-type monotonicity: `H(W) ≤ H(W ∪ B)` in `Hc` form. -/
theorem H_le_union (h : Submod H) (W B : VSet) : H (vnorm W) ≤ H (vunion B W) := by
  have := Hc_nonneg h B W
  unfold Hc at this
  linarith

/-- **A statistic of `X` that keeps `I(X:Y)` renders `X` and `Y` conditionally independent.**
If `S` is a function of `X` (`H(S | X) = 0`) and `I(S:Y) = I(X:Y)`, then
`H(X | Y ∪ S) = H(X | S)`, i.e. `I(X:Y|S) = I(X:Y) − I(S:Y) = 0`. -/
theorem ci_of_mi_preserved (h : Submod H) {X Y S : VSet} (hS : Hc H S X = 0)
    (hMI : H (vnorm S) + H (vnorm Y) - H (vunion S Y)
      = H (vnorm X) + H (vnorm Y) - H (vunion X Y)) :
    Hc H X (vunion Y S) = Hc H X S := by
  have hS' : Hc H S (vunion X Y) = 0 :=
    Hc_zero_mono h hS (fun x hx => (mem_vunion _ _ _).mpr (Or.inl hx))
  have a1 := H_absorb hS
  have a2 := H_absorb hS'
  rw [vnorm_vunion] at a2
  unfold Hc
  have e1 : vunion X (vunion Y S) = vunion S (vunion X Y) :=
    vunion_congr (by intro x; simp only [mem_vunion]; tauto)
  have e2 : vnorm (vunion Y S) = vunion S Y :=
    (vnorm_vunion _ _).trans (vunion_congr (by intro x; tauto))
  have e3 : vunion X S = vunion S X := vunion_congr (by intro x; tauto)
  rw [e1, e2, e3, a1, a2]
  linarith

/-- Adjoining a function `T` of `Y` to the conditioning variable keeps the conditional
independence: from `I(X:Y|S) = 0` and `H(T|Y) = 0`, `I(X:Y|S,T) = 0`
(`0 = I(X:Y|S) = I(X:Y,T|S) = I(X:T|S) + I(X:Y|S,T)`). -/
theorem ci_extend (h : Submod H) {X Y S T : VSet} (hT : Hc H T Y = 0)
    (hCI : Hc H X (vunion Y S) = Hc H X S) :
    Hc H X (vunion Y (vunion S T)) = Hc H X (vunion S T) := by
  -- absorbing `T` into sets containing `Y`
  have hT1 : Hc H T (vunion X (vunion Y S)) = 0 :=
    Hc_zero_mono h hT (fun x hx => by simp only [mem_vunion]; tauto)
  have hT2 : Hc H T (vunion Y S) = 0 :=
    Hc_zero_mono h hT (fun x hx => by simp only [mem_vunion]; tauto)
  have a1 := H_absorb hT1
  have a2 := H_absorb hT2
  rw [vnorm_vunion] at a1 a2
  have habs : Hc H X (vunion Y (vunion S T)) = Hc H X (vunion Y S) := by
    unfold Hc
    have e1 : vunion X (vunion Y (vunion S T)) = vunion T (vunion X (vunion Y S)) :=
      vunion_congr (by intro x; simp only [mem_vunion]; tauto)
    have e2 : vnorm (vunion Y (vunion S T)) = vunion T (vunion Y S) :=
      (vnorm_vunion _ _).trans (vunion_congr (by intro x; simp only [mem_vunion]; tauto))
    rw [e1, e2, a1, a2, vnorm_vunion]
  have m1 : Hc H X (vunion S T) ≤ Hc H X S :=
    Hc_anti h X S (vunion S T) (fun x hx => (mem_vunion _ _ _).mpr (Or.inl hx))
  have m2 : Hc H X (vunion Y (vunion S T)) ≤ Hc H X (vunion S T) :=
    Hc_anti h X (vunion S T) (vunion Y (vunion S T))
      (fun x hx => (mem_vunion _ _ _).mpr (Or.inr hx))
  rw [habs, hCI] at m2
  rw [habs, hCI]
  exact le_antisymm m2 m1

/-- Conditional independence is symmetric (pure algebra). -/
theorem ci_symm (H : VSet → R) {X Y W : VSet} (hCI : Hc H X (vunion Y W) = Hc H X W) :
    Hc H Y (vunion X W) = Hc H Y W := by
  unfold Hc at hCI ⊢
  have e1 : vunion Y (vunion X W) = vunion X (vunion Y W) :=
    vunion_congr (by intro x; simp only [mem_vunion]; tauto)
  rw [vnorm_vunion] at hCI ⊢
  rw [e1]
  linarith

/-- Conditional independence from `Y` passes to subsets of `Y`. -/
theorem ci_sub (h : Submod H) {X Y Y' W : VSet} (hCI : Hc H X (vunion Y W) = Hc H X W)
    (hsub : ∀ x ∈ Y', x ∈ Y) : Hc H X (vunion Y' W) = Hc H X W := by
  have m1 : Hc H X (vunion Y' W) ≤ Hc H X W :=
    Hc_anti h X W (vunion Y' W) (fun x hx => (mem_vunion _ _ _).mpr (Or.inr hx))
  have m2 : Hc H X (vunion Y W) ≤ Hc H X (vunion Y' W) :=
    Hc_anti h X (vunion Y' W) (vunion Y W) (by
      intro x hx
      rw [mem_vunion] at hx ⊢
      exact hx.elim (fun hx => Or.inl (hsub x hx)) Or.inr)
  rw [hCI] at m2
  exact le_antisymm m1 m2

/-- A pair of functions of `X` and of `Y` is a function of `X ∪ Y`. -/
theorem function_union (h : Submod H) {X Y S T : VSet} (hS : Hc H S X = 0) (hT : Hc H T Y = 0) :
    Hc H (vunion S T) (vunion X Y) = 0 := by
  have h1 : Hc H S (vunion X Y) = 0 :=
    Hc_zero_mono h hS (fun x hx => (mem_vunion _ _ _).mpr (Or.inl hx))
  have h2 : Hc H T (vunion X Y) = 0 :=
    Hc_zero_mono h hT (fun x hx => (mem_vunion _ _ _).mpr (Or.inr hx))
  have h3 := h S T (vunion X Y)
  have h4 := Hc_nonneg h (vunion S T) (vunion X Y)
  rw [h1, h2] at h3
  linarith

/-- A function of `B` has at most the entropy of `B`: `H(V) ≤ H(B)`. -/
theorem H_le_of_function (h : Submod H) {V B : VSet} (h0 : Hc H V B = 0) :
    H (vnorm V) ≤ H (vnorm B) := by
  have h1 := H_le_union h V B
  have e : vunion B V = vunion V B := vunion_congr (by intro x; tauto)
  rw [e, H_absorb h0] at h1
  exact h1

/-- The hypothesis of `dtc_le_of_cond_indep` for two groups, from `I(X:Y|W) = 0`. -/
theorem ci_two_groups (h : Submod H) {X Y W : VSet} (hCI : Hc H X (vunion Y W) = Hc H X W) :
    ∀ g ∈ [X, Y],
      Hc H g (vunion (vdiff (vunions [X, Y]) (vnorm g)) W) = Hc H g W := by
  intro g hg
  simp only [List.mem_cons, List.not_mem_nil, or_false] at hg
  rcases hg with rfl | rfl
  · refine ci_sub h hCI ?_
    intro x hx
    rw [mem_vdiff, vunions_pair, mem_vunion, mem_vnorm] at hx
    tauto
  · refine ci_sub h (ci_symm H hCI) ?_
    intro x hx
    rw [mem_vdiff, vunions_pair, mem_vunion, mem_vnorm] at hx
    tauto

end Alg

/-! ## Entropy functions that agree on the old variables -/

section Agree
variable {R : Type} [CommRing R]

/-- `H'` and `H` agree on every set of variables below `n`. -/
def AgreeBelow (n : Nat) (H' H : VSet → R) : Prop := ∀ U : VSet, (∀ i ∈ U, i < n) → H' U = H U

variable {n : Nat} {H' H : VSet → R}

theorem Hc_agree (ha : AgreeBelow n H' H) {X Z : VSet} (hX : ∀ i ∈ X, i < n)
    (hZ : ∀ i ∈ Z, i < n) : Hc H' X Z = Hc H X Z := by
  unfold Hc
  rw [ha (vunion X Z) (by
      intro i hi
      rcases (mem_vunion _ _ _).mp hi with hi | hi
      · exact hX i hi
      · exact hZ i hi),
    ha (vnorm Z) (fun i hi => hZ i ((mem_vnorm _ _).mp hi))]

theorem vunions_below {groups : List VSet} (hg : ∀ g ∈ groups, ∀ i ∈ g, i < n) :
    ∀ i ∈ vunions groups, i < n := by
  intro i hi
  obtain ⟨g, hgm, hig⟩ := (mem_vunions _ _).mp hi
  exact hg g hgm i hig

/-- The dual total correlation only involves the groups and the conditioning set. -/
theorem eval_dtcC_agree (cast : ℚ →+* R) (ha : AgreeBelow n H' H) (groups : List VSet) (Z : VSet)
    (hg : ∀ g ∈ groups, ∀ i ∈ g, i < n) (hZ : ∀ i ∈ Z, i < n) :
    Comb.eval cast H' (dtcC groups Z) = Comb.eval cast H (dtcC groups Z) := by
  rw [eval_dtcC, eval_dtcC, eval_residualC, eval_residualC,
    Hc_agree ha (vunions_below hg) hZ]
  congr 2
  apply List.map_congr_left
  intro g hgm
  apply Hc_agree ha (hg g hgm)
  intro i hi
  rcases (mem_vunion _ _ _).mp hi with hi | hi
  · exact vunions_below hg i ((mem_vdiff _ _ _).mp hi).1
  · exact hZ i hi

/-- A CAEKL candidate only involves the groups and the conditioning set. -/
theorem eval_caeklCand_agree (cast : ℚ →+* R) (ha : AgreeBelow n H' H) (groups : List VSet)
    (Z : VSet) (hg : ∀ g ∈ groups, ∀ i ∈ g, i < n) (hZ : ∀ i ∈ Z, i < n)
    (P : List (List VSet)) (hP : P ∈ setPartitions groups) :
    Comb.eval cast H' (caeklCand groups Z P) = Comb.eval cast H (caeklCand groups Z P) := by
  rw [eval_caeklCand, eval_caeklCand, Hc_agree ha (vunions_below hg) hZ]
  congr 3
  apply List.map_congr_left
  intro B hB
  refine Hc_agree ha (vunions_below ?_) hZ
  intro g hgB
  exact hg g ((setPartitions_cover groups P hP g).mp ⟨B, hB, hgB⟩)

end Agree

/-! ## The table with an appended label variable -/

section Insert
variable {σ : Type} [DecidableEq σ]

theorem insertRvf_nonneg (F : List σ → List σ) (index : Option Nat) (t : Tab (List σ) ℝ)
    (hnn : ∀ r ∈ t, 0 ≤ r.2) : ∀ r ∈ insertRvf F index t, 0 ≤ r.2 := by
  rw [Lemmas.Constructors.insertRvf_eq_map]
  intro r hr
  obtain ⟨r', hr', rfl⟩ := List.mem_map.mp hr
  exact hnn r' hr'

theorem insertRvf_mass (F : List σ → List σ) (index : Option Nat) (t : Tab (List σ) ℝ) :
    ((insertRvf F index t).map (·.2)).sum = (t.map (·.2)).sum := by
  have := Lemmas.Constructors.vals_insertRvf F index t
  unfold vals at this
  rw [this]

theorem insertRvf_keys_length (ℓ : List σ → σ) (n : Nat) (t : Tab (List σ) ℝ)
    (hn : ∀ k ∈ keys t, k.length = n) :
    ∀ k ∈ keys (insertRvf (fun o => [ℓ o]) none t), k.length = n + 1 := by
  rw [Lemmas.Constructors.keys_insertRvf]
  intro k hk
  obtain ⟨o, ho, rfl⟩ := List.mem_map.mp hk
  show (o ++ [ℓ o]).length = n + 1
  rw [List.length_append, hn o ho]; rfl

/-- Stored outcomes of the extended table are extensions of stored outcomes. -/
theorem mem_keys_insertRvf (ℓ : List σ → σ) (t : Tab (List σ) ℝ) {k : List σ}
    (hk : k ∈ keys (insertRvf (fun o => [ℓ o]) none t)) : ∃ o ∈ keys t, k = o ++ [ℓ o] := by
  rw [Lemmas.Constructors.keys_insertRvf] at hk
  obtain ⟨o, ho, rfl⟩ := List.mem_map.mp hk
  exact ⟨o, ho, rfl⟩

/-- Appending two symbols at once is appending them one after the other, the second one computed
from the first `n` symbols. -/
theorem insertRvf_two_eq (a b : List σ → σ) (n : Nat) (t : Tab (List σ) ℝ)
    (hn : ∀ k ∈ keys t, k.length = n) :
    insertRvf (fun o => [a o, b o]) none t
      = insertRvf (fun o' => [b (o'.take n)]) none (insertRvf (fun o => [a o]) none t) := by
  show t.map (fun r => (r.1 ++ [a r.1, b r.1], r.2))
    = (t.map (fun r => (r.1 ++ [a r.1], r.2))).map
        (fun r => (r.1 ++ [b (r.1.take n)], r.2))
  rw [List.map_map]
  apply List.map_congr_left
  intro r hr
  have hlen : r.1.length = n := hn r.1 (mem_keys_of_mem hr)
  simp only [Function.comp_apply, Prod.mk.injEq, and_true]
  rw [List.take_left' hlen, List.append_assoc]
  rfl

/-- A label of the old outcome that is a function of the values on `Y`, read off the first `n`
symbols of the extended outcome, is still a function of the values on `Y`. -/
theorem take_function (a b : List σ → σ) (n : Nat) (t : Tab (List σ) ℝ)
    (hn : ∀ k ∈ keys t, k.length = n) (Y : List Nat) (hY : ∀ i ∈ Y, i < n)
    (hb : ∀ k ∈ keys t, ∀ k' ∈ keys t, project Y k = project Y k' → b k = b k') :
    ∀ k ∈ keys (insertRvf (fun o => [a o]) none t),
      ∀ k' ∈ keys (insertRvf (fun o => [a o]) none t),
        project Y k = project Y k' → b (k.take n) = b (k'.take n) := by
  intro k hk k' hk' e
  obtain ⟨o, ho, rfl⟩ := mem_keys_insertRvf a t hk
  obtain ⟨o', ho', rfl⟩ := mem_keys_insertRvf a t hk'
  rw [project_append_of_lt (by rw [hn o ho]; exact hY),
    project_append_of_lt (by rw [hn o' ho']; exact hY)] at e
  rw [List.take_left' (hn o ho), List.take_left' (hn o' ho')]
  exact hb o ho o' ho' e

variable (ℓ : List σ → σ) (n : Nat) (t : Tab (List σ) ℝ) (hn : ∀ k ∈ keys t, k.length = n)
include hn

/-- The extended table and the original one agree on the old variables. -/
theorem agree_insert :
    AgreeBelow n (entropyOf (Real.logb 2) (insertRvf (fun o => [ℓ o]) none t))
      (entropyOf (Real.logb 2) t) :=
  fun U hU => entropyOf_old ℓ n t hn U hU

/-- **A label that is a function of the values on `g` is a function of `g`** in the extended
table: `H(new | g) = 0`. -/
theorem Hc_new_of_function (g : List Nat) (hg : ∀ i ∈ g, i < n)
    (hfun : ∀ k ∈ keys t, ∀ k' ∈ keys t, project g k = project g k' → ℓ k = ℓ k') :
    Hc (entropyOf (Real.logb 2) (insertRvf (fun o => [ℓ o]) none t)) [n] g = 0 := by
  unfold Hc
  have e1 : entropyOf (Real.logb 2) (insertRvf (fun o => [ℓ o]) none t) (vunion [n] g)
      = entropyOf (Real.logb 2) (insertRvf (fun o => [ℓ o]) none t) (g ++ [n]) :=
    entropyOf_congr _ (by intro v; rw [mem_vunion, List.mem_append]; tauto)
  rw [e1, entropyOf_old_new ℓ n t hn g hg, ← entropyOf_vnorm, entropyOf_old ℓ n t hn g hg,
    entropyOf_eq_Hmap, Hmap_pair ℓ (project g) t hfun, sub_self]

/-- `H(new | ∅) = H(new)` for a table of total mass 1. -/
theorem Hc_new_nil (hmass : (t.map (·.2)).sum = 1) :
    Hc (entropyOf (Real.logb 2) (insertRvf (fun o => [ℓ o]) none t)) [n] []
      = entropyOf (Real.logb 2) (insertRvf (fun o => [ℓ o]) none t) [n] := by
  unfold Hc
  have e1 : entropyOf (Real.logb 2) (insertRvf (fun o => [ℓ o]) none t) (vunion [n] [])
      = entropyOf (Real.logb 2) (insertRvf (fun o => [ℓ o]) none t) [n] :=
    entropyOf_congr _ (by intro v; rw [mem_vunion]; simp)
  have e2 : vnorm ([] : List Nat) = [] := rfl
  rw [e1, e2, entropyOf_nil _ (by rw [insertRvf_mass]; exact hmass), sub_zero]

end Insert

end Dit.Lemmas.Chain
