/-
Helper lemmas for C01 (the constructor). Property theorems are in Props/C01.lean.

`construct` is an `if`-chain of four argument checks followed by `validate` on the object that
was built. The pieces of that chain are given names here (`noSpace`, `raggedArg`, `spaceArg`,
`finish`: each is literally the corresponding `let`-bound term of `Dit.construct`, see
`construct_eq`, proved by `rfl`), `validate` on the built object is simplified
(`validate_finish`: its `InvalidOutcome` branch is dead code after the constructor's own
membership check), and the chain is inverted once (`construct_ok_iff`, `construct_error_iff`).
The rest are facts about the stored table of `finish`.
-/
import DitModel.Lemmas.Table
import DitModel.Lemmas.Machine
import Mathlib.Algebra.Ring.Rat

set_option linter.unusedSectionVars false

namespace Dit.Lemmas.Construct
open Dit Dit.Lemmas.Table

variable {σ α : Type}

/-! ## Names for the `let`-bound pieces of `construct` -/

/-- No sample space was supplied. -/
def noSpace : SpaceArg σ → Bool
  | .none => true
  | _ => false

/-- The list whose rows must have equal lengths: the outcomes if no sample space was
supplied, else the supplied list (nothing for a `CartesianProduct`). -/
def ssArg (outs : List (List σ)) : SpaceArg σ → List (List σ)
  | .none => outs
  | .list l => l
  | .sampleSpace l => l
  | .cartesian _ => []

/-- The "ragged" check of the constructor. -/
def raggedArg (outs : List (List σ)) : SpaceArg σ → Bool
  | .cartesian _ => false
  | sp => !sameLength (ssArg outs sp)

/-- The sample space the constructor builds. -/
def spaceArg [DecidableEq σ] (symLt : σ → σ → Bool) (outLt : List σ → List σ → Bool)
    (outs : List (List σ)) : SpaceArg σ → Space σ
  | .none => .cart ((alphabetsOf outs).map (isort symLt))
  | .list l => .expl l
  | .sampleSpace l => .expl (isort outLt l)
  | .cartesian as => .cart (as.map (isort symLt))

/-- The object the constructor builds before validating it. -/
def finish [DecidableEq σ] [Zero α] (cfg : NumCfg α) (space : Space σ)
    (outs : List (List σ)) (pmf : List α) (base : Base) (sparse trim : Bool) : Dist σ α :=
  if sparse then
    (Dist.mk space (sortBy space.rank (outs.zip pmf)) sparse base).makeSparse cfg trim
  else (Dist.mk space (sortBy space.rank (outs.zip pmf)) sparse base).makeDense

section Chain
variable [DecidableEq σ] [AddCommMonoid α]
variable (cfg : NumCfg α) (symLt : σ → σ → Bool) (outLt : List σ → List σ → Bool)
  (outs : List (List σ)) (pmf : List α) (sp : SpaceArg σ) (base : Base) (sparse trim : Bool)

/-- `construct`, with its `let`s named. -/
theorem construct_eq :
    construct cfg symLt outLt outs pmf sp base sparse trim =
      if pmf.length ≠ outs.length then .error .invalidDistribution
      else if outs.isEmpty && noSpace sp then .error .invalidDistribution
      else if raggedArg outs sp then .error .ditException
      else if !outs.all (spaceArg symLt outLt outs sp).mem then .error .invalidOutcome
      else match (finish cfg (spaceArg symLt outLt outs sp) outs pmf base sparse trim).validate cfg
        with
        | some e => .error e
        | none => .ok (finish cfg (spaceArg symLt outLt outs sp) outs pmf base sparse trim) := by
  cases sp <;> rfl

end Chain

/-! ## The built object -/

section Finish
variable [DecidableEq σ] [AddCommMonoid α]
variable (cfg : NumCfg α) (space : Space σ) (outs : List (List σ)) (pmf : List α)
  (base : Base) (sparse trim : Bool)

@[simp] theorem finish_space : (finish cfg space outs pmf base sparse trim).space = space := by
  unfold finish; cases sparse <;> rfl

@[simp] theorem finish_base : (finish cfg space outs pmf base sparse trim).base = base := by
  unfold finish; cases sparse <;> rfl

@[simp] theorem finish_sparse : (finish cfg space outs pmf base sparse trim).sparse = sparse := by
  unfold finish; cases sparse <;> rfl

theorem finish_tab_dense :
    (finish cfg space outs pmf base false trim).tab
      = space.toList.map (fun o => (o, lookupD 0 (sortBy space.rank (outs.zip pmf)) o)) := rfl

theorem finish_tab_untrimmed :
    (finish cfg space outs pmf base true false).tab = sortBy space.rank (outs.zip pmf) := rfl

theorem finish_tab_trimmed :
    (finish cfg space outs pmf base true true).tab
      = (sortBy space.rank (outs.zip pmf)).filter (fun r => !cfg.isNull base r.2) := rfl

/-- With as many probabilities as outcomes, the keys of `zip(outcomes, pmf)` are the outcomes. -/
theorem keys_zip (h : pmf.length = outs.length) : keys (outs.zip pmf) = outs := by
  unfold keys
  exact List.map_fst_zip (by omega)

theorem vals_zip (h : pmf.length = outs.length) : vals (outs.zip pmf) = pmf := by
  unfold vals
  exact List.map_snd_zip (by omega)

/-- The keys of the sorted input table are among the given outcomes. -/
theorem mem_of_mem_keys_sorted {k : List σ}
    (hk : k ∈ keys (sortBy space.rank (outs.zip pmf))) : k ∈ outs := by
  rw [mem_keys_sortBy] at hk
  obtain ⟨v, hv⟩ := mem_keys.mp hk
  exact (List.of_mem_zip hv).1

/-- Every stored outcome of the built object is a member of the sample space, provided the
given outcomes are. -/
theorem mem_space_of_mem_keys_finish (hmem : ∀ o ∈ outs, o ∈ space.toList) {k : List σ}
    (hk : k ∈ keys (finish cfg space outs pmf base sparse trim).tab) : k ∈ space.toList := by
  cases sparse with
  | false =>
    rw [finish_tab_dense, keys_map_graph] at hk; exact hk
  | true =>
    cases trim with
    | false =>
      rw [finish_tab_untrimmed] at hk
      exact hmem k (mem_of_mem_keys_sorted space outs pmf hk)
    | true =>
      rw [finish_tab_trimmed] at hk
      exact hmem k (mem_of_mem_keys_sorted space outs pmf
        ((keys_filter_sublist _ _).subset hk))

/-- `validate` on the built object: its `InvalidOutcome` branch cannot fire after the
constructor's own membership check. -/
theorem validate_finish (hmem : ∀ o ∈ outs, o ∈ space.toList) :
    (finish cfg space outs pmf base sparse trim).validate cfg =
      if !cfg.normOK base (lsum (vals (finish cfg space outs pmf base sparse trim).tab))
      then some .invalidNormalization
      else if !(vals (finish cfg space outs pmf base sparse trim).tab).all (cfg.rangeOK base)
      then some .invalidProbability
      else none := by
  have hall : (keys (finish cfg space outs pmf base sparse trim).tab).all
      (finish cfg space outs pmf base sparse trim).space.mem = true := by
    rw [List.all_eq_true]
    intro k hk
    rw [finish_space, Space.mem_iff]
    exact mem_space_of_mem_keys_finish cfg space outs pmf base sparse trim hmem hk
  unfold Dist.validate
  rw [hall, finish_base]
  rfl

end Finish

/-! ## Inverting the `if`-chain -/

section Invert
variable [DecidableEq σ] [AddCommMonoid α]
variable (cfg : NumCfg α) (symLt : σ → σ → Bool) (outLt : List σ → List σ → Bool)
  (outs : List (List σ)) (pmf : List α) (sp : SpaceArg σ) (base : Base) (sparse trim : Bool)

/-- The constructor after the four argument checks have passed. -/
theorem construct_of_args_ok (hlen : pmf.length = outs.length)
    (hne : ¬ (outs = [] ∧ noSpace sp = true)) (hrect : raggedArg outs sp = false)
    (hin : ∀ o ∈ outs, o ∈ (spaceArg symLt outLt outs sp).toList) :
    construct cfg symLt outLt outs pmf sp base sparse trim =
      if cfg.normOK base (lsum (vals
          (finish cfg (spaceArg symLt outLt outs sp) outs pmf base sparse trim).tab)) = false
      then .error .invalidNormalization
      else if ∃ v ∈ vals (finish cfg (spaceArg symLt outLt outs sp) outs pmf base sparse trim).tab,
          cfg.rangeOK base v = false
      then .error .invalidProbability
      else .ok (finish cfg (spaceArg symLt outLt outs sp) outs pmf base sparse trim) := by
  have h2 : (outs.isEmpty && noSpace sp) = false := by
    rw [Bool.and_eq_false_iff]
    by_cases h : outs = []
    · right; simpa [h] using hne
    · left; simpa using h
  have h4 : (!outs.all (spaceArg symLt outLt outs sp).mem) = false := by
    rw [Bool.not_eq_false', List.all_eq_true]
    intro o ho
    exact (Space.mem_iff _ _).mpr (hin o ho)
  rw [construct_eq, if_neg (by simpa using hlen), h2, hrect, h4, validate_finish _ _ _ _ _ _ _ hin]
  simp only [Bool.false_eq_true, if_false]
  by_cases hn : cfg.normOK base (lsum (vals
      (finish cfg (spaceArg symLt outLt outs sp) outs pmf base sparse trim).tab)) = false
  · simp [hn]
  · rw [Bool.not_eq_false] at hn
    by_cases hr : ∃ v ∈ vals (finish cfg (spaceArg symLt outLt outs sp) outs pmf base sparse trim).tab,
        cfg.rangeOK base v = false
    · have : (vals (finish cfg (spaceArg symLt outLt outs sp) outs pmf base sparse trim).tab).all
          (cfg.rangeOK base) = false := by
        rw [List.all_eq_false]
        obtain ⟨v, hv, hvr⟩ := hr
        exact ⟨v, hv, by simp [hvr]⟩
      simp [hn, hr, this]
    · have : (vals (finish cfg (spaceArg symLt outLt outs sp) outs pmf base sparse trim).tab).all
          (cfg.rangeOK base) = true := by
        rw [List.all_eq_true]
        intro v hv
        by_contra hvr
        exact hr ⟨v, hv, by simpa using hvr⟩
      simp [hn, hr, this]

/-- The four early exits. -/
theorem construct_of_len_bad (h : pmf.length ≠ outs.length) :
    construct cfg symLt outLt outs pmf sp base sparse trim = .error .invalidDistribution := by
  rw [construct_eq, if_pos h]

theorem construct_of_empty (hlen : pmf.length = outs.length)
    (h : outs = [] ∧ noSpace sp = true) :
    construct cfg symLt outLt outs pmf sp base sparse trim = .error .invalidDistribution := by
  rw [construct_eq, if_neg (by simpa using hlen)]
  simp [h.1, h.2]

theorem construct_of_ragged (hlen : pmf.length = outs.length)
    (hne : ¬ (outs = [] ∧ noSpace sp = true)) (h : raggedArg outs sp = true) :
    construct cfg symLt outLt outs pmf sp base sparse trim = .error .ditException := by
  have h2 : (outs.isEmpty && noSpace sp) = false := by
    rw [Bool.and_eq_false_iff]
    by_cases h : outs = []
    · right; simpa [h] using hne
    · left; simpa using h
  rw [construct_eq, if_neg (by simpa using hlen), h2, h]
  simp

theorem construct_of_outsider (hlen : pmf.length = outs.length)
    (hne : ¬ (outs = [] ∧ noSpace sp = true)) (hrect : raggedArg outs sp = false)
    (h : ¬ ∀ o ∈ outs, o ∈ (spaceArg symLt outLt outs sp).toList) :
    construct cfg symLt outLt outs pmf sp base sparse trim = .error .invalidOutcome := by
  have h2 : (outs.isEmpty && noSpace sp) = false := by
    rw [Bool.and_eq_false_iff]
    by_cases h : outs = []
    · right; simpa [h] using hne
    · left; simpa using h
  have h4 : (!outs.all (spaceArg symLt outLt outs sp).mem) = true := by
    rw [Bool.not_eq_true', List.all_eq_false]
    push Not at h
    obtain ⟨o, ho, hno⟩ := h
    exact ⟨o, ho, fun e => hno ((Space.mem_iff _ _).mp e)⟩
  rw [construct_eq, if_neg (by simpa using hlen), h2, hrect, h4]
  simp

/-- **Master case analysis.** Exactly one of seven scenarios occurs; each is described by
which checks passed (in the order in which they are made) and fixes the result. -/
theorem construct_cases :
    (pmf.length ≠ outs.length ∧
      construct cfg symLt outLt outs pmf sp base sparse trim = .error .invalidDistribution) ∨
    (pmf.length = outs.length ∧ (outs = [] ∧ noSpace sp = true) ∧
      construct cfg symLt outLt outs pmf sp base sparse trim = .error .invalidDistribution) ∨
    (pmf.length = outs.length ∧ ¬ (outs = [] ∧ noSpace sp = true) ∧ raggedArg outs sp = true ∧
      construct cfg symLt outLt outs pmf sp base sparse trim = .error .ditException) ∨
    (pmf.length = outs.length ∧ ¬ (outs = [] ∧ noSpace sp = true) ∧ raggedArg outs sp = false ∧
      (¬ ∀ o ∈ outs, o ∈ (spaceArg symLt outLt outs sp).toList) ∧
      construct cfg symLt outLt outs pmf sp base sparse trim = .error .invalidOutcome) ∨
    (pmf.length = outs.length ∧ ¬ (outs = [] ∧ noSpace sp = true) ∧ raggedArg outs sp = false ∧
      (∀ o ∈ outs, o ∈ (spaceArg symLt outLt outs sp).toList) ∧
      cfg.normOK base (lsum (vals
        (finish cfg (spaceArg symLt outLt outs sp) outs pmf base sparse trim).tab)) = false ∧
      construct cfg symLt outLt outs pmf sp base sparse trim = .error .invalidNormalization) ∨
    (pmf.length = outs.length ∧ ¬ (outs = [] ∧ noSpace sp = true) ∧ raggedArg outs sp = false ∧
      (∀ o ∈ outs, o ∈ (spaceArg symLt outLt outs sp).toList) ∧
      cfg.normOK base (lsum (vals
        (finish cfg (spaceArg symLt outLt outs sp) outs pmf base sparse trim).tab)) = true ∧
      (∃ v ∈ vals (finish cfg (spaceArg symLt outLt outs sp) outs pmf base sparse trim).tab,
        cfg.rangeOK base v = false) ∧
      construct cfg symLt outLt outs pmf sp base sparse trim = .error .invalidProbability) ∨
    (pmf.length = outs.length ∧ ¬ (outs = [] ∧ noSpace sp = true) ∧ raggedArg outs sp = false ∧
      (∀ o ∈ outs, o ∈ (spaceArg symLt outLt outs sp).toList) ∧
      cfg.normOK base (lsum (vals
        (finish cfg (spaceArg symLt outLt outs sp) outs pmf base sparse trim).tab)) = true ∧
      (∀ v ∈ vals (finish cfg (spaceArg symLt outLt outs sp) outs pmf base sparse trim).tab,
        cfg.rangeOK base v = true) ∧
      construct cfg symLt outLt outs pmf sp base sparse trim
        = .ok (finish cfg (spaceArg symLt outLt outs sp) outs pmf base sparse trim)) := by
  by_cases h1 : pmf.length = outs.length
  swap
  · exact Or.inl ⟨h1, construct_of_len_bad _ _ _ _ _ _ _ _ _ h1⟩
  by_cases h2 : outs = [] ∧ noSpace sp = true
  · exact Or.inr (Or.inl ⟨h1, h2, construct_of_empty _ _ _ _ _ _ _ _ _ h1 h2⟩)
  by_cases h3 : raggedArg outs sp = true
  · exact Or.inr (Or.inr (Or.inl ⟨h1, h2, h3, construct_of_ragged _ _ _ _ _ _ _ _ _ h1 h2 h3⟩))
  rw [Bool.not_eq_true] at h3
  by_cases h4 : ∀ o ∈ outs, o ∈ (spaceArg symLt outLt outs sp).toList
  swap
  · exact Or.inr (Or.inr (Or.inr (Or.inl
      ⟨h1, h2, h3, h4, construct_of_outsider _ _ _ _ _ _ _ _ _ h1 h2 h3 h4⟩)))
  have hc := construct_of_args_ok cfg symLt outLt outs pmf sp base sparse trim h1 h2 h3 h4
  by_cases h5 : cfg.normOK base (lsum (vals
        (finish cfg (spaceArg symLt outLt outs sp) outs pmf base sparse trim).tab)) = false
  · rw [if_pos h5] at hc
    exact Or.inr (Or.inr (Or.inr (Or.inr (Or.inl ⟨h1, h2, h3, h4, h5, hc⟩))))
  rw [if_neg h5] at hc
  rw [Bool.not_eq_false] at h5
  by_cases h6 : ∃ v ∈ vals (finish cfg (spaceArg symLt outLt outs sp) outs pmf base sparse trim).tab,
        cfg.rangeOK base v = false
  · rw [if_pos h6] at hc
    exact Or.inr (Or.inr (Or.inr (Or.inr (Or.inr (Or.inl ⟨h1, h2, h3, h4, h5, h6, hc⟩)))))
  · rw [if_neg h6] at hc
    refine Or.inr (Or.inr (Or.inr (Or.inr (Or.inr (Or.inr ⟨h1, h2, h3, h4, h5, ?_, hc⟩)))))
    intro v hv
    by_contra hvr
    exact h6 ⟨v, hv, by simpa using hvr⟩

/-- **Inversion.** The constructor succeeds exactly when all six checks pass, and then
returns the built object. -/
theorem construct_ok_iff (d : Dist σ α) :
    construct cfg symLt outLt outs pmf sp base sparse trim = .ok d ↔
      pmf.length = outs.length ∧ ¬ (outs = [] ∧ noSpace sp = true) ∧ raggedArg outs sp = false ∧
      (∀ o ∈ outs, o ∈ (spaceArg symLt outLt outs sp).toList) ∧
      cfg.normOK base (lsum (vals
        (finish cfg (spaceArg symLt outLt outs sp) outs pmf base sparse trim).tab)) = true ∧
      (∀ v ∈ vals (finish cfg (spaceArg symLt outLt outs sp) outs pmf base sparse trim).tab,
        cfg.rangeOK base v = true) ∧
      d = finish cfg (spaceArg symLt outLt outs sp) outs pmf base sparse trim := by
  have hc := construct_cases cfg symLt outLt outs pmf sp base sparse trim
  constructor
  · intro h
    rw [h] at hc
    rcases hc with ⟨_, hc⟩ | ⟨_, _, hc⟩ | ⟨_, _, _, hc⟩ | ⟨_, _, _, _, hc⟩ | ⟨_, _, _, _, _, hc⟩ |
      ⟨_, _, _, _, _, _, hc⟩ | ⟨h1, h2, h3, h4, h5, h6, hc⟩
    iterate 6 (· cases hc)
    exact ⟨h1, h2, h3, h4, h5, h6, Except.ok.inj hc⟩
  · rintro ⟨h1, h2, h3, h4, h5, h6, rfl⟩
    rcases hc with ⟨h, _⟩ | ⟨_, h, _⟩ | ⟨_, _, h, _⟩ | ⟨_, _, _, h, _⟩ | ⟨_, _, _, _, h, _⟩ |
      ⟨_, _, _, _, _, h, _⟩ | ⟨_, _, _, _, _, _, hc⟩
    · exact absurd h1 h
    · exact absurd h h2
    · rw [h3] at h; exact absurd h (by simp)
    · exact absurd h4 h
    · rw [h5] at h; exact absurd h (by simp)
    · obtain ⟨v, hv, hvr⟩ := h
      rw [h6 v hv] at hvr; exact absurd hvr (by simp)
    · exact hc

/-- `InvalidDistribution`: exactly the length mismatch and the empty specification. -/
theorem construct_invalidDistribution_iff :
    construct cfg symLt outLt outs pmf sp base sparse trim = .error .invalidDistribution ↔
      pmf.length ≠ outs.length ∨ (outs = [] ∧ noSpace sp = true) := by
  have hc := construct_cases cfg symLt outLt outs pmf sp base sparse trim
  constructor
  · intro h
    rw [h] at hc
    rcases hc with ⟨h1, hc⟩ | ⟨h1, h2, hc⟩ | ⟨h1, h2, h3, hc⟩ | ⟨h1, h2, h3, h4, hc⟩ |
      ⟨h1, h2, h3, h4, h5, hc⟩ | ⟨h1, h2, h3, h4, h5, h6, hc⟩ | ⟨h1, h2, h3, h4, h5, h6, hc⟩
    all_goals first | (cases hc; done) | exact Or.inl h1 | exact Or.inr h2
  · rintro (h | h)
    · exact construct_of_len_bad _ _ _ _ _ _ _ _ _ h
    · by_cases hl : pmf.length = outs.length
      · exact construct_of_empty _ _ _ _ _ _ _ _ _ hl h
      · exact construct_of_len_bad _ _ _ _ _ _ _ _ _ hl

/-- `ditException`: exactly the ragged specifications that got past the first two checks. -/
theorem construct_ditException_iff :
    construct cfg symLt outLt outs pmf sp base sparse trim = .error .ditException ↔
      pmf.length = outs.length ∧ ¬ (outs = [] ∧ noSpace sp = true) ∧ raggedArg outs sp = true := by
  have hc := construct_cases cfg symLt outLt outs pmf sp base sparse trim
  constructor
  · intro h
    rw [h] at hc
    rcases hc with ⟨h1, hc⟩ | ⟨h1, h2, hc⟩ | ⟨h1, h2, h3, hc⟩ | ⟨h1, h2, h3, h4, hc⟩ |
      ⟨h1, h2, h3, h4, h5, hc⟩ | ⟨h1, h2, h3, h4, h5, h6, hc⟩ | ⟨h1, h2, h3, h4, h5, h6, hc⟩
    all_goals first | (cases hc; done) | exact ⟨h1, h2, h3⟩
  · rintro ⟨h1, h2, h3⟩
    exact construct_of_ragged _ _ _ _ _ _ _ _ _ h1 h2 h3

/-- `InvalidOutcome`: exactly when the first three checks pass and some given outcome is not
in the sample space. -/
theorem construct_invalidOutcome_iff :
    construct cfg symLt outLt outs pmf sp base sparse trim = .error .invalidOutcome ↔
      pmf.length = outs.length ∧ ¬ (outs = [] ∧ noSpace sp = true) ∧ raggedArg outs sp = false ∧
      ∃ o ∈ outs, o ∉ (spaceArg symLt outLt outs sp).toList := by
  have hc := construct_cases cfg symLt outLt outs pmf sp base sparse trim
  constructor
  · intro h
    rw [h] at hc
    rcases hc with ⟨h1, hc⟩ | ⟨h1, h2, hc⟩ | ⟨h1, h2, h3, hc⟩ | ⟨h1, h2, h3, h4, hc⟩ |
      ⟨h1, h2, h3, h4, h5, hc⟩ | ⟨h1, h2, h3, h4, h5, h6, hc⟩ | ⟨h1, h2, h3, h4, h5, h6, hc⟩
    all_goals first | (cases hc; done) | exact ⟨h1, h2, h3, by push Not at h4; exact h4⟩
  · rintro ⟨h1, h2, h3, o, ho, hno⟩
    exact construct_of_outsider _ _ _ _ _ _ _ _ _ h1 h2 h3 (fun hall => hno (hall o ho))

/-- `InvalidNormalization`: exactly when the four argument checks pass and the total of the
stored values fails `normOK`. -/
theorem construct_invalidNormalization_iff :
    construct cfg symLt outLt outs pmf sp base sparse trim = .error .invalidNormalization ↔
      pmf.length = outs.length ∧ ¬ (outs = [] ∧ noSpace sp = true) ∧ raggedArg outs sp = false ∧
      (∀ o ∈ outs, o ∈ (spaceArg symLt outLt outs sp).toList) ∧
      cfg.normOK base (lsum (vals (finish cfg (spaceArg symLt outLt outs sp) outs pmf base sparse trim).tab)) = false := by
  have hc := construct_cases cfg symLt outLt outs pmf sp base sparse trim
  constructor
  · intro h
    rw [h] at hc
    rcases hc with ⟨h1, hc⟩ | ⟨h1, h2, hc⟩ | ⟨h1, h2, h3, hc⟩ | ⟨h1, h2, h3, h4, hc⟩ |
      ⟨h1, h2, h3, h4, h5, hc⟩ | ⟨h1, h2, h3, h4, h5, h6, hc⟩ | ⟨h1, h2, h3, h4, h5, h6, hc⟩
    all_goals first | (cases hc; done) | exact ⟨h1, h2, h3, h4, h5⟩
  · rintro ⟨h1, h2, h3, h4, h5⟩
    rw [construct_of_args_ok _ _ _ _ _ _ _ _ _ h1 h2 h3 h4, if_pos h5]

/-- `InvalidProbability`: exactly when everything up to normalisation passes and some stored
value fails `rangeOK`. -/
theorem construct_invalidProbability_iff :
    construct cfg symLt outLt outs pmf sp base sparse trim = .error .invalidProbability ↔
      pmf.length = outs.length ∧ ¬ (outs = [] ∧ noSpace sp = true) ∧ raggedArg outs sp = false ∧
      (∀ o ∈ outs, o ∈ (spaceArg symLt outLt outs sp).toList) ∧
      cfg.normOK base (lsum (vals (finish cfg (spaceArg symLt outLt outs sp) outs pmf base sparse trim).tab)) = true ∧
      ∃ v ∈ vals (finish cfg (spaceArg symLt outLt outs sp) outs pmf base sparse trim).tab, cfg.rangeOK base v = false := by
  have hc := construct_cases cfg symLt outLt outs pmf sp base sparse trim
  constructor
  · intro h
    rw [h] at hc
    rcases hc with ⟨h1, hc⟩ | ⟨h1, h2, hc⟩ | ⟨h1, h2, h3, hc⟩ | ⟨h1, h2, h3, h4, hc⟩ |
      ⟨h1, h2, h3, h4, h5, hc⟩ | ⟨h1, h2, h3, h4, h5, h6, hc⟩ | ⟨h1, h2, h3, h4, h5, h6, hc⟩
    all_goals first | (cases hc; done) | exact ⟨h1, h2, h3, h4, h5, h6⟩
  · rintro ⟨h1, h2, h3, h4, h5, h6⟩
    rw [construct_of_args_ok _ _ _ _ _ _ _ _ _ h1 h2 h3 h4, if_neg (by simp [h5]), if_pos h6]

end Invert

/-! ## Lookups in the built object -/

section Lookup
variable [DecidableEq σ] [AddCommMonoid α]
variable (cfg : NumCfg α) (space : Space σ) (outs : List (List σ)) (pmf : List α)
  (base : Base) (sparse trim : Bool)

theorem nodup_keys_zip (h : outs.Nodup) : (keys (outs.zip pmf)).Nodup :=
  h.sublist (Machine.keys_zip_sublist outs pmf)

theorem nodup_keys_sorted (h : outs.Nodup) :
    (keys (sortBy space.rank (outs.zip pmf))).Nodup :=
  (nodup_keys_sortBy _ _).mpr (nodup_keys_zip outs pmf h)

/-- The `i`-th specified pair is what `lookup?` finds in `zip(outcomes, pmf)`. -/
theorem lookup?_zip (hnd : outs.Nodup) {i : Nat} {o : List σ} {p : α}
    (ho : outs[i]? = some o) (hp : pmf[i]? = some p) : lookup? (outs.zip pmf) o = some p := by
  rw [lookup?_eq_some_iff (nodup_keys_zip outs pmf hnd)]
  exact List.mem_iff_getElem?.mpr ⟨i, List.getElem?_zip_eq_some.mpr ⟨ho, hp⟩⟩

theorem lookupD_sorted_specified (hnd : outs.Nodup) {i : Nat} {o : List σ} {p : α}
    (ho : outs[i]? = some o) (hp : pmf[i]? = some p) :
    lookupD 0 (sortBy space.rank (outs.zip pmf)) o = p := by
  rw [lookupD_sortBy _ _ (nodup_keys_zip outs pmf hnd)]
  unfold lookupD
  rw [lookup?_zip outs pmf hnd ho hp]; rfl

theorem not_mem_keys_sorted {o : List σ} (ho : o ∉ outs) :
    o ∉ keys (sortBy space.rank (outs.zip pmf)) :=
  fun h => ho (mem_of_mem_keys_sorted space outs pmf h)

/-- Lookup of a specified outcome: the specified value, except that a null value is read
back as an exact zero after trimming. -/
theorem get_finish_specified (hnd : outs.Nodup) {i : Nat} {o : List σ} {p : α}
    (hmem : o ∈ space.toList) (ho : outs[i]? = some o) (hp : pmf[i]? = some p) :
    (finish cfg space outs pmf base sparse trim).get o
      = some (if sparse = true ∧ trim = true ∧ cfg.isNull base p = true then 0 else p) := by
  have hl := lookupD_sorted_specified space outs pmf hnd ho hp
  cases sparse with
  | false =>
    show (Dist.mk space (sortBy space.rank (outs.zip pmf)) false base).makeDense.get o = _
    rw [get_makeDense, get_eq]
    simp [hmem, hl]
  | true =>
    cases trim with
    | false =>
      rw [get_eq, finish_space, finish_tab_untrimmed]
      simp [hmem, hl]
    | true =>
      show ((Dist.mk space (sortBy space.rank (outs.zip pmf)) true base).makeSparse cfg true).get o
        = _
      rw [get_makeSparse_trim cfg _ (nodup_keys_sorted space outs pmf hnd)]
      have hk : o ∈ keys (sortBy space.rank (outs.zip pmf)) := by
        rw [mem_keys_sortBy]
        have := List.mem_of_getElem? (List.getElem?_zip_eq_some.mpr ⟨ho, hp⟩ :
          (outs.zip pmf)[i]? = some (o, p))
        exact mem_keys.mpr ⟨p, this⟩
      simp [hmem, hl, hk]

/-- Lookup of a member of the sample space that was not specified: the null probability. -/
theorem get_finish_rest {o : List σ} (hmem : o ∈ space.toList) (ho : o ∉ outs) :
    (finish cfg space outs pmf base sparse trim).get o = some 0 := by
  have hk := not_mem_keys_sorted space outs pmf ho
  cases sparse with
  | false =>
    show (Dist.mk space (sortBy space.rank (outs.zip pmf)) false base).makeDense.get o = _
    rw [get_makeDense, get_eq]
    simp [hmem, lookupD_of_not_mem 0 hk]
  | true =>
    rw [get_eq, finish_space, if_pos hmem]
    cases trim with
    | false => rw [finish_tab_untrimmed, lookupD_of_not_mem 0 hk]
    | true =>
      rw [finish_tab_trimmed, lookupD_of_not_mem 0 (fun h => hk ((keys_filter_sublist _ _).subset h))]

/-- Lookup outside the sample space: `InvalidOutcome`. -/
theorem get_finish_outside {o : List σ} (hmem : o ∉ space.toList) :
    (finish cfg space outs pmf base sparse trim).get o = none := by
  rw [get_eq, finish_space, if_neg hmem]

end Lookup

/-! ## Alignment of the stored table -/

section Aligned
variable [DecidableEq σ] [AddCommMonoid α]
variable (cfg : NumCfg α) (space : Space σ) (outs : List (List σ)) (pmf : List α)
  (base : Base) (sparse trim : Bool)

/-- Members of a list with equal ranks (index of first occurrence) are equal. -/
theorem rank_inj {κ : Type} [DecidableEq κ] {l : List κ} {x y : κ} (hx : x ∈ l) (hy : y ∈ l)
    (h : (indexOf? l x).getD l.length = (indexOf? l y).getD l.length) : x = y := by
  cases hi : indexOf? l x with
  | none => exact absurd hx (indexOf?_eq_none_iff.mp hi)
  | some i =>
    cases hj : indexOf? l y with
    | none => exact absurd hy (indexOf?_eq_none_iff.mp hj)
    | some j =>
      rw [hi, hj] at h
      simp only [Option.getD_some] at h
      subst h
      have h1 := (indexOf?_eq_some hi).1
      have h2 := (indexOf?_eq_some hj).1
      rw [h1] at h2
      exact Option.some.inj h2

theorem keys_finish_dense :
    keys (finish cfg space outs pmf base false trim).tab = space.toList := by
  rw [finish_tab_dense, keys_map_graph]

/-- Stored outcomes are pairwise distinct: in sparse mode because the given ones are, in dense
mode because (and only if) the enumeration of the sample space is. -/
theorem nodup_keys_finish (hnd : outs.Nodup) (h : sparse = true ∨ space.toList.Nodup) :
    (keys (finish cfg space outs pmf base sparse trim).tab).Nodup := by
  cases sparse with
  | false =>
    rw [keys_finish_dense]
    rcases h with h | h
    · cases h
    · exact h
  | true =>
    cases trim with
    | false => exact nodup_keys_sorted space outs pmf hnd
    | true => exact nodup_keys_filter _ (nodup_keys_sorted space outs pmf hnd)

/-- Sparse mode: the stored outcomes are in non-decreasing sample-space rank. -/
theorem sorted_keys_finish_sparse :
    (keys (finish cfg space outs pmf base true trim).tab).Pairwise
      (fun a b => space.rank a ≤ space.rank b) := by
  cases trim with
  | false => exact keys_sortBy_sorted _ _
  | true => exact pairwise_keys_filter _ _ (keys_sortBy_sorted _ _)

/-- Pairwise distinct stored members of the sample space in non-decreasing rank are in
strictly increasing rank. -/
theorem strict_of_sorted_nodup {l : List (List σ)} (hmem : ∀ k ∈ l, k ∈ space.toList)
    (hnd : l.Nodup) (hs : l.Pairwise (fun a b => space.rank a ≤ space.rank b)) :
    l.Pairwise (fun a b => space.rank a < space.rank b) := by
  refine (hs.and hnd).imp_of_mem ?_
  intro a b ha hb ⟨hle, hne⟩
  refine Nat.lt_of_le_of_ne hle (fun e => hne ?_)
  exact rank_inj (hmem a ha) (hmem b hb) e

/-- The stored outcomes are in strictly increasing sample-space rank. -/
theorem strict_keys_finish (hmem : ∀ o ∈ outs, o ∈ space.toList) (hnd : outs.Nodup)
    (h : sparse = true ∨ space.toList.Nodup) :
    (keys (finish cfg space outs pmf base sparse trim).tab).Pairwise
      (fun a b => space.rank a < space.rank b) := by
  cases sparse with
  | false =>
    rw [keys_finish_dense]
    rcases h with h | h
    · cases h
    · exact Space.pairwise_rank space h
  | true =>
    exact strict_of_sorted_nodup space
      (fun k hk => mem_space_of_mem_keys_finish cfg space outs pmf base true trim hmem hk)
      (nodup_keys_finish cfg space outs pmf base true trim hnd (Or.inl rfl))
      (sorted_keys_finish_sparse cfg space outs pmf base trim)

/-- Trimmed: no stored value is null. -/
theorem finish_trimmed {r : List σ × α} (hr : r ∈ (finish cfg space outs pmf base true true).tab) :
    cfg.isNull base r.2 = false := by
  rw [finish_tab_trimmed, List.mem_filter] at hr
  simpa using hr.2

/-- Trimmed: the stored outcomes are exactly the specified ones with a non-null value. -/
theorem mem_keys_finish_trimmed {k : List σ} :
    k ∈ keys (finish cfg space outs pmf base true true).tab ↔
      ∃ p, (k, p) ∈ outs.zip pmf ∧ cfg.isNull base p = false := by
  rw [finish_tab_trimmed, mem_keys_filter]
  constructor
  · rintro ⟨v, hv, hq⟩
    exact ⟨v, (sortBy_perm _ _).mem_iff.mp hv, by simpa using hq⟩
  · rintro ⟨v, hv, hq⟩
    exact ⟨v, (sortBy_perm _ _).mem_iff.mpr hv, by simpa using hq⟩

/-- Untrimmed sparse: the stored outcomes are the specified ones, reordered. -/
theorem keys_finish_untrimmed_perm (hlen : pmf.length = outs.length) :
    (keys (finish cfg space outs pmf base true false).tab).Perm outs := by
  rw [finish_tab_untrimmed]
  have := keys_sortBy_perm space.rank (outs.zip pmf)
  rwa [keys_zip outs pmf hlen] at this

/-- Untrimmed sparse: the stored rows are the specified pairs, reordered. -/
theorem tab_finish_untrimmed_perm :
    (finish cfg space outs pmf base true false).tab.Perm (outs.zip pmf) := by
  rw [finish_tab_untrimmed]; exact sortBy_perm _ _

/-- Row alignment: the value stored next to an outcome is what lookup of that outcome
returns. -/
theorem get_of_mem_tab {d : Dist σ α} (hnd : (keys d.tab).Nodup)
    (hmem : ∀ k ∈ keys d.tab, k ∈ d.space.toList) {r : List σ × α} (hr : r ∈ d.tab) :
    d.get r.1 = some r.2 := by
  rw [get_eq, if_pos (hmem _ (mem_keys_of_mem hr))]
  unfold lookupD
  rw [(lookup?_eq_some_iff hnd).mpr hr]; rfl

end Aligned

/-! ## Alphabets -/

section Alphabets
variable [DecidableEq σ]

/-- `sameLength`: all rows have one common length. -/
theorem sameLength_iff {l : List (List σ)} :
    sameLength l = true ↔ ∀ x ∈ l, ∀ y ∈ l, x.length = y.length := by
  cases l with
  | nil => simp [sameLength]
  | cons o t =>
    simp only [sameLength, List.all_eq_true, beq_iff_eq]
    constructor
    · intro h
      have h' : ∀ x ∈ o :: t, x.length = o.length := by
        intro x hx
        rcases List.mem_cons.mp hx with rfl | hx
        · rfl
        · exact h x hx
      intro x hx y hy
      rw [h' x hx, h' y hy]
    · intro h x hx
      exact h x (List.mem_cons_of_mem _ hx) o (List.mem_cons_self ..)

theorem alphabetsOf_cons (o : List σ) (t : List (List σ)) :
    alphabetsOf (o :: t)
      = (List.range o.length).map (fun i => dedup ((o :: t).filterMap (fun x => x[i]?))) := rfl

/-- There is one alphabet per position of the first outcome. -/
theorem length_alphabetsOf_cons (o : List σ) (t : List (List σ)) :
    (alphabetsOf (o :: t)).length = o.length := by
  rw [alphabetsOf_cons, List.length_map, List.length_range]

/-- The `i`-th alphabet is the de-duplicated list of `i`-th symbols. -/
theorem getElem?_alphabetsOf {os : List (List σ)} {i : Nat} {a : List σ}
    (h : (alphabetsOf os)[i]? = some a) : a = dedup (os.filterMap (fun x => x[i]?)) := by
  cases os with
  | nil => simp [alphabetsOf] at h
  | cons o t =>
    rw [alphabetsOf_cons, List.getElem?_map, Option.map_eq_some_iff] at h
    obtain ⟨j, hj, rfl⟩ := h
    obtain ⟨_, hj'⟩ := List.getElem?_eq_some_iff.mp hj
    rw [List.getElem_range] at hj'
    rw [hj']

/-- The `i`-th alphabet of an explicit sample space holds exactly the `i`-th symbols of its
members. -/
theorem mem_alphabetsOf {os : List (List σ)} {i : Nat} {a : List σ}
    (h : (alphabetsOf os)[i]? = some a) (s : σ) : s ∈ a ↔ ∃ o ∈ os, o[i]? = some s := by
  rw [getElem?_alphabetsOf h, mem_dedup, List.mem_filterMap]

/-- No alphabet of an explicit sample space is empty. -/
theorem alphabetsOf_ne_nil {os : List (List σ)} {a : List σ} (h : a ∈ alphabetsOf os) :
    a ≠ [] := by
  obtain ⟨i, hi⟩ := List.mem_iff_getElem?.mp h
  cases os with
  | nil => simp [alphabetsOf] at h
  | cons o t =>
    have hlt : i < o.length := by
      have := (List.getElem?_eq_some_iff.mp hi).1
      rwa [length_alphabetsOf_cons] at this
    have : o[i] ∈ a := (mem_alphabetsOf hi _).mpr ⟨o, List.mem_cons_self .., List.getElem?_eq_getElem hlt⟩
    exact List.ne_nil_of_mem this

/-- With rows of one common length, that length is the number of alphabets. -/
theorem length_eq_length_alphabetsOf {os : List (List σ)} (h : sameLength os = true)
    {o : List σ} (ho : o ∈ os) : o.length = (alphabetsOf os).length := by
  cases os with
  | nil => cases ho
  | cons o' t =>
    rw [length_alphabetsOf_cons]
    exact sameLength_iff.mp h o ho o' (List.mem_cons_self ..)

theorem mem_cartesian_cons {a : List σ} {rest : List (List σ)} {o : List σ} :
    o ∈ cartesian (a :: rest) ↔ ∃ x ∈ a, ∃ o' ∈ cartesian rest, o = x :: o' := by
  simp only [cartesian, List.mem_flatMap, List.mem_map]
  constructor
  · rintro ⟨x, hx, o', ho', rfl⟩; exact ⟨x, hx, o', ho', rfl⟩
  · rintro ⟨x, hx, o', ho', rfl⟩; exact ⟨x, hx, o', ho', rfl⟩

/-- A product of non-empty alphabets is non-empty. -/
theorem exists_mem_cartesian {as : List (List σ)} (h : ∀ a ∈ as, a ≠ []) :
    ∃ o, o ∈ cartesian as := by
  induction as with
  | nil => exact ⟨[], by simp [cartesian]⟩
  | cons a rest ih =>
    obtain ⟨o', ho'⟩ := ih (fun b hb => h b (List.mem_cons_of_mem _ hb))
    obtain ⟨x, hx⟩ := List.exists_mem_of_ne_nil a (h a (List.mem_cons_self ..))
    exact ⟨x :: o', mem_cartesian_cons.mpr ⟨x, hx, o', ho', rfl⟩⟩

/-- The `i`-th alphabet of a product of non-empty alphabets holds exactly the `i`-th symbols
of the members of the product. (If some alphabet is empty the product is empty, and the
right-hand side is false for every symbol.) -/
theorem mem_alphabet_cartesian {as : List (List σ)} (hne : ∀ a ∈ as, a ≠ []) {i : Nat}
    {a : List σ} (h : as[i]? = some a) (s : σ) :
    s ∈ a ↔ ∃ o ∈ cartesian as, o[i]? = some s := by
  constructor
  · intro hs
    induction as generalizing i with
    | nil => simp at h
    | cons a0 rest ih =>
      have hrest : ∀ b ∈ rest, b ≠ [] := fun b hb => hne b (List.mem_cons_of_mem _ hb)
      cases i with
      | zero =>
        simp only [List.getElem?_cons_zero, Option.some.injEq] at h
        subst h
        obtain ⟨o', ho'⟩ := exists_mem_cartesian hrest
        exact ⟨s :: o', mem_cartesian_cons.mpr ⟨s, hs, o', ho', rfl⟩, by simp⟩
      | succ i =>
        simp only [List.getElem?_cons_succ] at h
        obtain ⟨o', ho', hs'⟩ := ih hrest h
        obtain ⟨x, hx⟩ := List.exists_mem_of_ne_nil a0 (hne a0 (List.mem_cons_self ..))
        exact ⟨x :: o', mem_cartesian_cons.mpr ⟨x, hx, o', ho', rfl⟩, by simpa using hs'⟩
  · rintro ⟨o, ho, hs⟩
    obtain ⟨hlen, hall⟩ := mem_cartesian_iff_getElem.mp ho
    obtain ⟨hi, rfl⟩ := List.getElem?_eq_some_iff.mp hs
    obtain ⟨hi', rfl⟩ := List.getElem?_eq_some_iff.mp h
    exact hall i hi hi'

/-- **Alphabets of a sample space.** If no alphabet is empty, the `i`-th alphabet is exactly
the set of `i`-th symbols of the members. For explicit spaces the hypothesis always holds
(`alphabetsOf_ne_nil`). -/
theorem mem_alphabets_iff (sp : Space σ) (hne : ∀ a ∈ sp.alphabets, a ≠ []) {i : Nat}
    {a : List σ} (h : sp.alphabets[i]? = some a) (s : σ) :
    s ∈ a ↔ ∃ o ∈ sp.toList, o[i]? = some s := by
  cases sp with
  | cart as => exact mem_alphabet_cartesian hne h s
  | expl os => exact mem_alphabetsOf h s

/-- Every member of a product has one symbol per alphabet. -/
theorem length_eq_length_alphabets_cart {as : List (List σ)} {o : List σ}
    (ho : o ∈ (Space.cart as).toList) : o.length = (Space.cart as).alphabets.length :=
  length_of_mem_cartesian ho

end Alphabets

/-! ## The sample space built from the argument -/

section SpaceArg
variable [DecidableEq σ]
variable (symLt : σ → σ → Bool) (outLt : List σ → List σ → Bool) (outs : List (List σ))

theorem isort_ne_nil {β : Type} (lt : β → β → Bool) {l : List β} (h : l ≠ []) :
    isort lt l ≠ [] := by
  intro e
  have := length_isort lt l
  rw [e] at this
  exact h (List.length_eq_zero_iff.mp this.symm)

/-- No alphabet of the built sample space is empty, unless an empty alphabet was passed in a
`CartesianProduct`. -/
theorem spaceArg_alphabets_ne_nil (sp : SpaceArg σ)
    (hne : match sp with
      | .cartesian as => ∀ a ∈ as, a ≠ []
      | _ => True) :
    ∀ a ∈ (spaceArg symLt outLt outs sp).alphabets, a ≠ [] := by
  intro a ha
  cases sp with
  | none =>
    obtain ⟨b, hb, rfl⟩ := List.mem_map.mp ha
    exact isort_ne_nil _ (alphabetsOf_ne_nil hb)
  | list l => exact alphabetsOf_ne_nil ha
  | sampleSpace l => exact alphabetsOf_ne_nil ha
  | cartesian as =>
    obtain ⟨b, hb, rfl⟩ := List.mem_map.mp ha
    exact isort_ne_nil _ (hne b hb)

/-- Every alphabet of the built sample space is duplicate-free, unless an alphabet with a
repeated symbol was passed in a `CartesianProduct`. -/
theorem spaceArg_alphabets_nodup (sp : SpaceArg σ)
    (hnd : match sp with
      | .cartesian as => ∀ a ∈ as, a.Nodup
      | _ => True) :
    ∀ a ∈ (spaceArg symLt outLt outs sp).alphabets, a.Nodup := by
  intro a ha
  cases sp with
  | none =>
    obtain ⟨b, hb, rfl⟩ := List.mem_map.mp ha
    exact nodup_isort.mpr (Machine.alphabetsOf_nodup _ b hb)
  | list l => exact Machine.alphabetsOf_nodup _ a ha
  | sampleSpace l => exact Machine.alphabetsOf_nodup _ a ha
  | cartesian as =>
    obtain ⟨b, hb, rfl⟩ := List.mem_map.mp ha
    exact nodup_isort.mpr (hnd b hb)

/-- The enumeration of the built sample space is duplicate-free if the supplied one is (always,
when it is derived from the outcomes). -/
theorem spaceArg_toList_nodup (sp : SpaceArg σ)
    (hnd : match sp with
      | .none => True
      | .list l => l.Nodup
      | .sampleSpace l => l.Nodup
      | .cartesian as => ∀ a ∈ as, a.Nodup) :
    (spaceArg symLt outLt outs sp).toList.Nodup := by
  cases sp with
  | none =>
    refine nodup_cartesian ?_
    intro a ha
    obtain ⟨b, hb, rfl⟩ := List.mem_map.mp ha
    exact nodup_isort.mpr (Machine.alphabetsOf_nodup _ b hb)
  | list l => exact hnd
  | sampleSpace l => exact nodup_isort.mpr hnd
  | cartesian as =>
    refine nodup_cartesian ?_
    intro a ha
    obtain ⟨b, hb, rfl⟩ := List.mem_map.mp ha
    exact nodup_isort.mpr (hnd b hb)

/-- After the ragged check, every member of the built sample space has one symbol per
alphabet. -/
theorem spaceArg_length (sp : SpaceArg σ) (hrect : raggedArg outs sp = false) {o : List σ}
    (ho : o ∈ (spaceArg symLt outLt outs sp).toList) :
    o.length = (spaceArg symLt outLt outs sp).alphabets.length := by
  cases sp with
  | none => exact length_of_mem_cartesian ho
  | cartesian as => exact length_of_mem_cartesian ho
  | list l =>
    have h : sameLength l = true := by simpa [raggedArg, ssArg] using hrect
    exact length_eq_length_alphabetsOf h ho
  | sampleSpace l =>
    have h : sameLength l = true := by simpa [raggedArg, ssArg] using hrect
    have h' : sameLength (isort outLt l) = true := by
      rw [sameLength_iff] at h ⊢
      intro x hx y hy
      exact h x (mem_isort.mp hx) y (mem_isort.mp hy)
    exact length_eq_length_alphabetsOf h' ho

/-- Without a supplied sample space the alphabets hold exactly the symbols of the specified
outcomes, position by position. -/
theorem mem_alphabets_none {i : Nat} {a : List σ}
    (h : (spaceArg symLt outLt outs SpaceArg.none).alphabets[i]? = some a) (s : σ) :
    s ∈ a ↔ ∃ o ∈ outs, o[i]? = some s := by
  change ((alphabetsOf outs).map (isort symLt))[i]? = some a at h
  rw [List.getElem?_map, Option.map_eq_some_iff] at h
  obtain ⟨b, hb, rfl⟩ := h
  rw [mem_isort]
  exact mem_alphabetsOf hb s

/-- The ragged check fails exactly when two rows of the checked list differ in length (never
for a `CartesianProduct`, whose checked list is empty). -/
theorem raggedArg_eq_false_iff (sp : SpaceArg σ) :
    raggedArg outs sp = false ↔
      ∀ x ∈ ssArg outs sp, ∀ y ∈ ssArg outs sp, x.length = y.length := by
  cases sp with
  | cartesian as => simp [raggedArg, ssArg]
  | none => simp only [raggedArg, Bool.not_eq_false', sameLength_iff]
  | list l => simp only [raggedArg, Bool.not_eq_false', sameLength_iff]
  | sampleSpace l => simp only [raggedArg, Bool.not_eq_false', sameLength_iff]

theorem raggedArg_eq_true_iff (sp : SpaceArg σ) :
    raggedArg outs sp = true ↔
      ∃ x ∈ ssArg outs sp, ∃ y ∈ ssArg outs sp, x.length ≠ y.length := by
  rw [← Bool.not_eq_false, raggedArg_eq_false_iff]
  push Not
  rfl

end SpaceArg

/-! ## Concrete data for the non-vacuity examples of Props/C01.lean -/

/-- A concrete configuration: exact comparison with 0 and 1. -/
def ratCfg : NumCfg Rat :=
  { isNull := fun _ v => decide (v = 0), normOK := fun _ v => decide (v = 1),
    rangeOK := fun _ v => decide (0 ≤ v) && decide (v ≤ 1) }

/-- Order on natural-number symbols. -/
def natLt : Nat → Nat → Bool := fun a b => decide (a < b)

/-- The error of a result, if any (`Dist` has no decidable equality; examples compare this). -/
def errOf {β : Type} : Except Err β → Option Err
  | .ok _ => none
  | .error e => some e

end Dit.Lemmas.Construct
