/-
Helper lemmas for C01 (the constructor). Property theorems are in Props/C01.lean.

`construct` is an `if`-chain of four argument checks followed by `validate` on the object that
was built. The pieces of that chain are given names here (`noSpace`, `raggedArg`, `spaceArg`,
`finish`: each is literally the corresponding `let`-bound term of `Dit.construct`, see
`construct_eq`, proved by `rfl`), `validate` on the built object is simplified
(`validate_finish`: its `InvalidOutcome` branch is dead code after the constructor's own
membership check), and the chain is inverted once (`construct_ok_iff`, `construct_error_iff`).
The rest are facts about the stored table of `finish`.
-/
import DitModel.Lemmas.Table
import DitModel.Lemmas.Machine
import Mathlib.Algebra.Order.Field.Rat

set_option linter.unusedSectionVars false

namespace Dit.Lemmas.Construct
open Dit Dit.Lemmas.Table

variable {σ α : Type}

/-! ## Names for the `let`-bound pieces of `construct` -/

/-- No sample space was supplied. -/
def noSpace : SpaceArg σ → Bool
  | .none => true
  | _ => false

/-- The list whose rows must have equal lengths: the outcomes if no sample space was
supplied, else the supplied list (nothing for a `CartesianProduct`). -/
def ssArg (outs : List (List σ)) : SpaceArg σ → List (List σ)
  | .none => outs
  | .list l => l
  | .sampleSpace l => l
  | .cartesian _ => []

/-- The "ragged" check of the constructor. -/
def raggedArg (outs : List (List σ)) : SpaceArg σ → Bool
  | .cartesian _ => false
  | sp => !sameLength (ssArg outs sp)

/-- The sample space the constructor builds. -/
def spaceArg [DecidableEq σ] (symLt : σ → σ → Bool) (outLt : List σ → List σ → Bool)
    (outs : List (List σ)) : SpaceArg σ → Space σ
  | .none => .cart ((alphabetsOf outs).map (isort symLt))
  | .list l => .expl l
  | .sampleSpace l => .expl (isort outLt l)
  | .cartesian as => .cart (as.map (isort symLt))

/-- The object the constructor builds before validating it. -/
def finish [DecidableEq σ] [Zero α] (cfg : NumCfg α) (space : Space σ)
    (outs : List (List σ)) (pmf : List α) (base : Base) (sparse trim : Bool) : Dist σ α :=
  if sparse then
    (Dist.mk space (sortBy space.rank (outs.zip pmf)) sparse base).makeSparse cfg trim
  else (Dist.mk space (sortBy space.rank (outs.zip pmf)) sparse base).makeDense

section Chain
variable [DecidableEq σ] [AddCommMonoid α]
variable (cfg : NumCfg α) (symLt : σ → σ → Bool) (outLt : List σ → List σ → Bool)
  (outs : List (List σ)) (pmf : List α) (sp : SpaceArg σ) (base : Base) (sparse trim : Bool)

/-- `construct`, with its `let`s named. -/
theorem construct_eq :
    construct cfg symLt outLt outs pmf sp base sparse trim =
      if pmf.length ≠ outs.length then .error .invalidDistribution
      else if outs.isEmpty && noSpace sp then .error .invalidDistribution
      else if raggedArg outs sp then .error .ditException
      else if !outs.all (spaceArg symLt outLt outs sp).mem then .error .invalidOutcome
      else match (finish cfg (spaceArg symLt outLt outs sp) outs pmf base sparse trim).validate cfg
        with
        | some e => .error e
        | none => .ok (finish cfg (spaceArg symLt outLt outs sp) outs pmf base sparse trim) := by
  cases sp <;> rfl

end Chain

/-! ## The built object -/

section Finish
variable [DecidableEq σ] [AddCommMonoid α]
variable (cfg : NumCfg α) (space : Space σ) (outs : List (List σ)) (pmf : List α)
  (base : Base) (sparse trim : Bool)

@[simp] theorem finish_space : (finish cfg space outs pmf base sparse trim).space = space := by
  unfold finish; cases sparse <;> rfl

@[simp] theorem finish_base : (finish cfg space outs pmf base sparse trim).base = base := by
  unfold finish; cases sparse <;> rfl

@[simp] theorem finish_sparse : (finish cfg space outs pmf base sparse trim).sparse = sparse := by
  unfold finish; cases sparse <;> rfl

theorem finish_tab_dense :
    (finish cfg space outs pmf base false trim).tab
      = space.toList.map (fun o => (o, lookupD 0 (sortBy space.rank (outs.zip pmf)) o)) := rfl

theorem finish_tab_untrimmed :
    (finish cfg space outs pmf base true false).tab = sortBy space.rank (outs.zip pmf) := rfl

theorem finish_tab_trimmed :
    (finish cfg space outs pmf base true true).tab
      = (sortBy space.rank (outs.zip pmf)).filter (fun r => !cfg.isNull base r.2) := rfl

/-- With as many probabilities as outcomes, the keys of `zip(outcomes, pmf)` are the outcomes. -/
theorem keys_zip (h : pmf.length = outs.length) : keys (outs.zip pmf) = outs := by
  unfold keys
  exact List.map_fst_zip (by omega)

theorem vals_zip (h : pmf.length = outs.length) : vals (outs.zip pmf) = pmf := by
  unfold vals
  exact List.map_snd_zip (by omega)

/-- The keys of the sorted input table are among the given outcomes. -/
theorem mem_of_mem_keys_sorted {k : List σ}
    (hk : k ∈ keys (sortBy space.rank (outs.zip pmf))) : k ∈ outs := by
  rw [mem_keys_sortBy] at hk
  obtain ⟨v, hv⟩ := mem_keys.mp hk
  exact (List.of_mem_zip hv).1

/-- Every stored outcome of the built object is a member of the sample space, provided the
given outcomes are. -/
theorem mem_space_of_mem_keys_finish (hmem : ∀ o ∈ outs, o ∈ space.toList) {k : List σ}
    (hk : k ∈ keys (finish cfg space outs pmf base sparse trim).tab) : k ∈ space.toList := by
  cases sparse with
  | false =>
    rw [finish_tab_dense, keys_map_graph] at hk; exact hk
  | true =>
    cases trim with
    | false =>
      rw [finish_tab_untrimmed] at hk
      exact hmem k (mem_of_mem_keys_sorted space outs pmf hk)
    | true =>
      rw [finish_tab_trimmed] at hk
      exact hmem k (mem_of_mem_keys_sorted space outs pmf
        ((keys_filter_sublist _ _).subset hk))

/-- `validate` on the built object: its `InvalidOutcome` branch cannot fire after the
constructor's own membership check. -/
theorem validate_finish (hmem : ∀ o ∈ outs, o ∈ space.toList) :
    (finish cfg space outs pmf base sparse trim).validate cfg =
      if !cfg.normOK base (lsum (vals (finish cfg space outs pmf base sparse trim).tab))
      then some .invalidNormalization
      else if !(vals (finish cfg space outs pmf base sparse trim).tab).all (cfg.rangeOK base)
      then some .invalidProbability
      else none := by
  have hall : (keys (finish cfg space outs pmf base sparse trim).tab).all
      (finish cfg space outs pmf base sparse trim).space.mem = true := by
    rw [List.all_eq_true]
    intro k hk
    rw [finish_space, Space.mem_iff]
    exact mem_space_of_mem_keys_finish cfg space outs pmf base sparse trim hmem hk
  unfold Dist.validate
  rw [hall, finish_base]
  rfl

end Finish

/-! ## Inverting the `if`-chain -/

section Invert
variable [DecidableEq σ] [AddCommMonoid α]
variable (cfg : NumCfg α) (symLt : σ → σ → Bool) (outLt : List σ → List σ → Bool)
  (outs : List (List σ)) (pmf : List α) (sp : SpaceArg σ) (base : Base) (sparse trim : Bool)

/-- The constructor after the four argument checks have passed. -/
theorem construct_of_args_ok (hlen : pmf.length = outs.length)
    (hne : ¬ (outs = [] ∧ noSpace sp = true)) (hrect : raggedArg outs sp = false)
    (hin : ∀ o ∈ outs, o ∈ (spaceArg symLt outLt outs sp).toList) :
    construct cfg symLt outLt outs pmf sp base sparse trim =
      if cfg.normOK base (lsum (vals
          (finish cfg (spaceArg symLt outLt outs sp) outs pmf base sparse trim).tab)) = false
      then .error .invalidNormalization
      else if ∃ v ∈ vals (finish cfg (spaceArg symLt outLt outs sp) outs pmf base sparse trim).tab,
          cfg.rangeOK base v = false
      then .error .invalidProbability
      else .ok (finish cfg (spaceArg symLt outLt outs sp) outs pmf base sparse trim) := by
  have h2 : (outs.isEmpty && noSpace sp) = false := by
    rw [Bool.and_eq_false_iff, List.isEmpty_iff]
    by_cases h : outs = []
    · right; simpa [h] using hne
    · left; simpa using h
  have h4 : (!outs.all (spaceArg symLt outLt outs sp).mem) = false := by
    rw [Bool.not_eq_false', List.all_eq_true]
    intro o ho
    exact (Space.mem_iff _ _).mpr (hin o ho)
  rw [construct_eq, if_neg (by simpa using hlen), h2, hrect, h4, validate_finish _ _ _ _ _ _ _ hin]
  simp only [Bool.false_eq_true, if_false]
  by_cases hn : cfg.normOK base (lsum (vals
      (finish cfg (spaceArg symLt outLt outs sp) outs pmf base sparse trim).tab)) = false
  · simp [hn]
  · rw [Bool.not_eq_false] at hn
    by_cases hr : ∃ v ∈ vals (finish cfg (spaceArg symLt outLt outs sp) outs pmf base sparse trim).tab,
        cfg.rangeOK base v = false
    · have : (vals (finish cfg (spaceArg symLt outLt outs sp) outs pmf base sparse trim).tab).all
          (cfg.rangeOK base) = false := by
        rw [List.all_eq_false]
        obtain ⟨v, hv, hvr⟩ := hr
        exact ⟨v, hv, by simp [hvr]⟩
      simp [hn, hr, this]
    · have : (vals (finish cfg (spaceArg symLt outLt outs sp) outs pmf base sparse trim).tab).all
          (cfg.rangeOK base) = true := by
        rw [List.all_eq_true]
        intro v hv
        by_contra hvr
        exact hr ⟨v, hv, by simpa using hvr⟩
      simp [hn, hr, this]

end Invert

end Dit.Lemmas.Construct
